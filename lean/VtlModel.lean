-- This module serves as the root of the `VtlModel` library.
-- Import modules here that should be built as part of the library.
import VtlModel.Basic

/-
  C21 — Time_Period values round-trip through every documented input spelling and the four output formats.

  Model: VtlModel.Time.Spelling (`parse` for every spelling of docs/data_types.rst "Accepted input formats",
  `render` for the four `time_period_output_format`s, `canon` = internal representation, own digit functions).
  Theorems hold for every period of the calendar with a four-digit year 0000..9999 (the range the
  implementations accept), all indicators, all period numbers.
-/
import VtlModel.Time.Impl
import VtlModel.Time.LemmasSpelling

namespace VtlModel.C21
open VtlModel.Time VtlModel.Gen

/-- A period of the calendar with a four-digit year. -/
def WF (p : Period) : Prop := valid p = true ∧ 0 ≤ p.year ∧ p.year ≤ 9999

/-- Own digit functions: fixed-width and unpadded decimal renderings read back as the number. -/
theorem parseNat_pad (n : Nat) :
    (n < 10 → parseNat (pad 1 n) = some n) ∧ (n < 100 → parseNat (pad 2 n) = some n) ∧
    (n < 1000 → parseNat (pad 3 n) = some n) ∧ (n < 10000 → parseNat (pad 4 n) = some n) ∧
    (n < 10000 → parseNat (digits n) = some n) :=
  ⟨parseNat_pad1 n, parseNat_pad2 n, parseNat_pad3 n, parseNat_pad4 n, parseNat_digits n⟩

/-- Every string form used by `render`, `canon` and `spellings` reads back as the period (Nat coordinates). -/
theorem all_forms (y n : Nat) (i : Ind) (hy : y < 10000) (hv : valid ⟨(y : Int), i, (n : Int)⟩ = true) (h1 : 1 ≤ n)
    (h2 : (n : Int) ≤ maxNum i) :
    (i = .A → parse (pad 4 y) = some ⟨y, i, n⟩ ∧ parse (pad 4 y ++ ['A']) = some ⟨y, i, n⟩ ∧
              parse (pad 4 y ++ ['-', 'A', '1']) = some ⟨y, i, n⟩) ∧
    (i ≠ .A → parse (pad 4 y ++ [indChar i] ++ digits n) = some ⟨y, i, n⟩ ∧
              parse (pad 4 y ++ ['-', indChar i] ++ digits n) = some ⟨y, i, n⟩ ∧
              parse (pad 4 y ++ [indChar i] ++ pad (maxWidth i) n) = some ⟨y, i, n⟩ ∧
              parse (pad 4 y ++ ['-', indChar i] ++ pad (maxWidth i) n) = some ⟨y, i, n⟩) ∧
    (i = .M → parse (pad 4 y ++ ['-'] ++ pad 2 n) = some ⟨y, i, n⟩ ∧
              parse (pad 4 y ++ ['-'] ++ digits n) = some ⟨y, i, n⟩) ∧
    (i = .D → parse (dateChars ⟨y, i, n⟩) = some ⟨y, i, n⟩ ∧
              (n < 100 → parse (pad 4 y ++ ['D'] ++ pad 2 n) = some ⟨y, i, n⟩ ∧
                         parse (pad 4 y ++ ['-', 'D'] ++ pad 2 n) = some ⟨y, i, n⟩)) := by
  refine ⟨?_, ?_, ?_, ?_⟩
  · intro hi; subst hi
    have : n = 1 := by simp only [maxNum] at h2; omega
    subst this
    have r := raw_annual y hy
    exact ⟨parse_of_raw _ _ r.1 hv, parse_of_raw _ _ r.2.1 hv, parse_of_raw _ _ r.2.2 hv⟩
  · intro hi
    have d := digits_ok i n hi h1 h2
    have w := padw_ok i n hi h2
    exact ⟨parse_of_raw _ _ (raw_compact y n hy i hi _ d.1 d.2) hv,
           parse_of_raw _ _ (raw_hyphen y n hy i hi _ d.1 d.2) hv,
           parse_of_raw _ _ (raw_compact y n hy i hi _ w.1 w.2) hv,
           parse_of_raw _ _ (raw_hyphen y n hy i hi _ w.1 w.2) hv⟩
  · intro hi; subst hi
    have h2' : (n : Int) ≤ 12 := h2
    refine ⟨parse_of_raw _ _ (raw_month2 y n hy (by omega)) hv, ?_⟩
    unfold digits
    split
    · exact parse_of_raw _ _ (raw_month1 y n hy (by omega)) hv
    · rw [if_pos (by omega)]
      exact parse_of_raw _ _ (raw_month2 y n hy (by omega)) hv
  · intro hi; subst hi
    refine ⟨parse_of_raw _ _ (raw_dateChars y n hy hv) hv, fun hn => ?_⟩
    have l2 : 1 ≤ (pad 2 n).length ∧ (pad 2 n).length ≤ maxWidth .D := by rw [pad_length]; simp [maxWidth]
    exact ⟨parse_of_raw _ _ (raw_compact y n hy .D (by simp) _ l2 (parseNat_pad2 n hn)) hv,
           parse_of_raw _ _ (raw_hyphen y n hy .D (by simp) _ l2 (parseNat_pad2 n hn)) hv⟩

/-- Whatever `render` produces in any of the four output formats reads back as the same period. -/
theorem render_parse (f : Fmt) (p : Period) (s : List Char) (h : WF p) (hr : render f p = .ok s) :
    parse s = some p := by
  obtain ⟨hv, hy0, hy1⟩ := h
  obtain ⟨y, n, hp, hy, h1, h2⟩ := nat_coords p hv hy0 hy1
  cases p with
  | mk Y i N =>
    simp only [Period.mk.injEq, true_and] at hp
    obtain ⟨rfl, rfl⟩ := hp
    have F := all_forms y n i hy hv h1 h2
    cases f <;> cases i <;>
      simp only [render, yearChars, Int.toNat_natCast, Except.ok.injEq, reduceCtorEq] at hr <;>
      (try subst hr) <;> simp only [indChar, maxWidth] at F ⊢
    all_goals first
      | exact (F.1 (by first | rfl | trivial)).1
      | exact (F.1 (by first | rfl | trivial)).2.2
      | exact (F.2.1 (by first | trivial | simp)).1
      | exact (F.2.1 (by first | trivial | simp)).2.2.2
      | exact (F.2.2.1 (by first | rfl | trivial)).1
      | exact (F.2.2.2 (by first | rfl | trivial)).1

/-- `sdmx_gregorian` cannot express semesters, quarters and weeks — and only those. -/
theorem gregorian_error_iff (p : Period) :
    (∃ e, render .sdmxGregorian p = .error e) ↔ (p.ind = .S ∨ p.ind = .Q ∨ p.ind = .W) := by
  cases p with
  | mk y i n => cases i <;> simp [render]

/-- The other three formats express every period. -/
theorem render_total (f : Fmt) (p : Period) (hf : f ≠ .sdmxGregorian) : ∃ s, render f p = .ok s := by
  cases p with
  | mk y i n => cases f <;> cases i <;> simp [render] at hf ⊢

/-- Every documented input spelling of a period reads as that period. -/
theorem spellings_parse (p : Period) (s : List Char) (h : WF p) (hs : s ∈ spellings p) : parse s = some p := by
  obtain ⟨hv, hy0, hy1⟩ := h
  obtain ⟨y, n, hp, hy, h1, h2⟩ := nat_coords p hv hy0 hy1
  cases p with
  | mk Y i N =>
    simp only [Period.mk.injEq, true_and] at hp
    obtain ⟨rfl, rfl⟩ := hp
    have F := all_forms y n i hy hv h1 h2
    cases i <;> simp only [spellings, yearChars, Int.toNat_natCast, List.mem_cons, List.mem_append, List.not_mem_nil, or_false] at hs <;>
      simp only [indChar, maxWidth] at F
    · rcases hs with rfl | rfl | rfl
      · exact (F.1 (by first | rfl | trivial)).1
      · exact (F.1 (by first | rfl | trivial)).2.1
      · exact (F.1 (by first | rfl | trivial)).2.2
    · rcases hs with rfl | rfl
      · exact (F.2.1 (by first | trivial | simp)).1
      · exact (F.2.1 (by first | trivial | simp)).2.1
    · rcases hs with rfl | rfl
      · exact (F.2.1 (by first | trivial | simp)).1
      · exact (F.2.1 (by first | trivial | simp)).2.1
    · rcases hs with rfl | rfl | rfl | rfl | rfl | rfl
      · exact (F.2.1 (by first | trivial | simp)).1
      · exact (F.2.1 (by first | trivial | simp)).2.2.1
      · exact (F.2.2.1 (by first | rfl | trivial)).1
      · exact (F.2.2.1 (by first | rfl | trivial)).2
      · exact (F.2.1 (by first | trivial | simp)).2.2.2
      · exact (F.2.1 (by first | trivial | simp)).2.1
    · rcases hs with rfl | rfl | rfl
      · exact (F.2.1 (by first | trivial | simp)).1
      · exact (F.2.1 (by first | trivial | simp)).2.2.1
      · exact (F.2.1 (by first | trivial | simp)).2.2.2
    · rcases hs with (rfl | rfl | rfl | rfl | rfl) | hs
      · exact (F.2.1 (by first | trivial | simp)).1
      · exact (F.2.1 (by first | trivial | simp)).2.2.1
      · exact (F.2.1 (by first | trivial | simp)).2.1
      · exact (F.2.1 (by first | trivial | simp)).2.2.2
      · exact (F.2.2.2 (by first | rfl | trivial)).1
      · split at hs
        · rename_i hn
          simp only [List.mem_cons, List.not_mem_nil, or_false] at hs
          rcases hs with rfl | rfl
          · exact ((F.2.2.2 (by first | rfl | trivial)).2 hn).1
          · exact ((F.2.2.2 (by first | rfl | trivial)).2 hn).2
        · cases hs

/-- The canonical internal representation reads back as the period … -/
theorem canon_parse (p : Period) (h : WF p) : parse (canon p) = some p := by
  obtain ⟨hv, hy0, hy1⟩ := h
  obtain ⟨y, n, hp, hy, h1, h2⟩ := nat_coords p hv hy0 hy1
  cases p with
  | mk Y i N =>
    simp only [Period.mk.injEq, true_and] at hp
    obtain ⟨rfl, rfl⟩ := hp
    have F := all_forms y n i hy hv h1 h2
    cases i <;> simp only [canon, yearChars, Int.toNat_natCast] <;> simp only [indChar, maxWidth] at F ⊢
    · exact (F.1 (by first | rfl | trivial)).2.1
    all_goals exact (F.2.1 (by first | trivial | simp)).2.2.2

/-- … so normalisation maps every documented spelling of `p` to the one canonical form, which it fixes. -/
theorem normalise_canonical (p : Period) (h : WF p) :
    normalise (canon p) = some (canon p) ∧ ∀ s ∈ spellings p, normalise s = some (canon p) := by
  refine ⟨?_, fun s hs => ?_⟩
  · simp only [normalise, canon_parse p h]
  · simp only [normalise, spellings_parse p s h hs]

/-- Only periods of the calendar are ever accepted. -/
theorem parse_valid (s : List Char) (p : Period) (h : parse s = some p) : valid p = true := by
  unfold parse at h
  split at h
  · split at h
    · cases h; assumption
    · cases h
  · cases h

/-- The widths of the canonical form are the LPAD widths of the SQL macro `vtl_period_to_string`. -/
theorem canon_width_eq_sql (i : Ind) : maxWidth i = implWidth i := by cases i <;> rfl

/-! Non-vacuity. -/
example : WF ⟨2020, .W, 53⟩ ∧ WF ⟨2020, .D, 366⟩ ∧ WF ⟨0, .A, 1⟩ :=
  ⟨⟨by decide, by decide, by decide⟩, ⟨by decide, by decide, by decide⟩, ⟨by decide, by decide, by decide⟩⟩
example : render .natural ⟨2020, .D, 60⟩ = .ok "2020-02-29".toList := by rfl
example : parse "2021-W53".toList = none ∧ parse "2020-W53".toList = some ⟨2020, .W, 53⟩ := by decide

end VtlModel.C21

/-
  C09 — cast converts according to the documented conversion table; rename rule for mono-measure datasets.

  Code side (regenerated on every run): Gen.Promotion (IMPLICIT / EXPLICIT_WITHOUT_MASK tables, COMP_NAME_MAPPING),
  Gen.CastCode (`Cast.check_without_mask` and the `measure_name` branch of `Cast.dataset_validation`, transcribed
  from their Python ast).  Documented side: Gen.DocTables (docs/data_types.rst) read through Types.Spec / Types.Cast.

  Table theorems: `decide +kernel`.  Where code and docs differ on the pinned tree the statement is given as
  `_partial` plus an `_or_counter` dichotomy that remains provable once the difference is repaired; the pairs that
  differ NOW are computed by harness/checks/c09.py from the driver and replayed through run()/semantic_analysis().
  Value theorems are about `Cast.castSpec`, the model of the documented conversion; the real engine is compared with
  it pair by pair over a value pool at scalar, component and dataset level (correspondence, c09.py).
-/
import VtlModel.Gen.CastCode
import VtlModel.Types.Cast

namespace VtlModel.C09
open VtlModel VtlModel.Gen.Promotion VtlModel.Gen.CastCode VtlModel.Gen.DocTables VtlModel.Spec VtlModel.Cast

/-! ## Tables -/

/-- the implicit table of the code is the documented one (8 basic types) -/
theorem implicit_code_eq_doc :
    ∀ s ∈ Ty.basic, ∀ t ∈ Ty.basic, TySet.mem t (implicit s) = implicitCell s t := by decide +kernel

/-- every documented explicit conversion is in the code's table -/
theorem explicit_doc_subset_code :
    ∀ s ∈ Ty.basic, ∀ t ∈ Ty.basic, explicitCell s t = true → TySet.mem t (explicitNoMask s) = true := by decide +kernel

/-- the four pairs on which the pinned tree's explicit table is wider than the documented one -/
def widerPairs : List (Ty × Ty) :=
  [(.string, .boolean), (.time, .date), (.time, .timePeriod), (.timePeriod, .date)]

/-- outside those pairs the code's explicit table equals the documented explicit table -/
theorem explicit_code_eq_doc_partial :
    ∀ s ∈ Ty.basic, ∀ t ∈ Ty.basic, widerPairs.contains (s, t) = false →
      TySet.mem t (explicitNoMask s) = explicitCell s t := by decide +kernel

/-- full equality of the explicit tables, or a witness among `widerPairs` that the code allows and the docs forbid -/
theorem explicit_code_eq_doc_or_counter :
    (∀ s ∈ Ty.basic, ∀ t ∈ Ty.basic, TySet.mem t (explicitNoMask s) = explicitCell s t)
    ∨ (∃ p ∈ widerPairs, TySet.mem p.2 (explicitNoMask p.1) = true ∧ explicitCell p.1 p.2 = false) := by
  decide +kernel

/-- `Cast.check_without_mask` accepts exactly the documented conversions (explicit ✓ or implicit ✓), outside `widerPairs` -/
theorem accept_code_eq_doc_partial :
    ∀ s ∈ Ty.basic, ∀ t ∈ Ty.basic, widerPairs.contains (s, t) = false →
      (checkWithoutMask s t).isOk = docAllowed s t := by decide +kernel

/-- every rejection carries the documented semantic-error code 1-1-5-4 -/
theorem reject_code : ∀ s t, checkWithoutMask s t = .ok () ∨ checkWithoutMask s t = .error [1, 1, 5, 4] := by
  decide +kernel

/-- a Null operand casts to every type -/
theorem null_source_accepted : ∀ t, checkWithoutMask .null t = .ok () := by decide +kernel

/-! ## Rename rule (mono-measure datasets) -/

/-- the code renames the measure to COMP_NAME_MAPPING[target] exactly when the source type does not implicitly
    promote to the target, and keeps the name otherwise -/
theorem rename_rule :
    ∀ s t, renameTo s t = if TySet.mem t (implicit s) then none else some (compName t) := by decide +kernel

/-- … which is the documented rule: the "Renamed measure" table, and the note "not renamed when the source type can
    be implicitly promoted to the target type" -/
theorem rename_doc :
    norenameNote = true ∧
    ∀ s ∈ Ty.basic, ∀ t ∈ Ty.basic, renameTo s t = if docImplicit s t then none else renameCell t := by decide +kernel

theorem comp_name_eq_doc : ∀ t ∈ Ty.basic, some (compName t) = renameCell t := by decide +kernel

/-- the generic names are pairwise different (a rename can not collide with another target's name) -/
theorem comp_name_injective : ∀ a b, compName a = compName b → a = b := by decide +kernel

/-! ## Values (the documented conversion `castSpec`) -/

/-- a conversion the documented tables forbid is a semantic error whatever the value -/
theorem cast_forbidden : ∀ s t v, docAllowed s t = false → castSpec s t v = .semErr := by
  intro s t v h; simp [castSpec, h]

/-- null converts to null for every documented pair -/
theorem cast_null : ∀ s t, docAllowed s t = true → castSpec s t .null = .ok .null := by
  intro s t h; simp [castSpec, h]

theorem allowed_ib : docAllowed .integer .boolean = true := by decide
theorem allowed_bi : docAllowed .boolean .integer = true := by decide
theorem allowed_in : docAllowed .integer .number = true := by decide
theorem allowed_ni : docAllowed .number .integer = true := by decide
theorem allowed_nb : docAllowed .number .boolean = true := by decide
theorem allowed_dt : docAllowed .date .time = true := by decide

/-- Integer -> Boolean: 0 becomes false, any other value true -/
theorem int_bool : ∀ i : Int, castSpec .integer .boolean (.int i) = .ok (.bool (i != 0)) := by
  intro i; simp [castSpec, castValue, allowed_ib]

/-- Number -> Boolean: 0 (any scale) becomes false, any other value true -/
theorem num_bool : ∀ (m : Int) (e : Nat), castSpec .number .boolean (.dec m e) = .ok (.bool (m != 0)) := by
  intro m e; simp [castSpec, castValue, allowed_nb]

/-- Boolean -> Integer -> Boolean is the identity -/
theorem bool_int_roundtrip :
    ∀ b : Bool, ∃ i, castSpec .boolean .integer (.bool b) = .ok (.int i) ∧ castSpec .integer .boolean (.int i) = .ok (.bool b) := by
  intro b; cases b
  · exact ⟨0, by simp [castSpec, castValue, allowed_bi], by simp [castSpec, castValue, allowed_ib]⟩
  · exact ⟨1, by simp [castSpec, castValue, allowed_bi], by simp [castSpec, castValue, allowed_ib]⟩

/-- Integer -> Number -> Integer is the identity -/
theorem int_num_int :
    ∀ i : Int, castSpec .integer .number (.int i) = .ok (.dec i 0) ∧ castSpec .number .integer (.dec i 0) = .ok (.int i) := by
  intro i; constructor
  · simp [castSpec, castValue, allowed_in]
  · simp [castSpec, castValue, allowed_ni, pow10]

/-- a Number that is an integer (i · 10^e / 10^e) converts to exactly that integer -/
theorem num_int_exact : ∀ (i : Int) (e : Nat), castSpec .number .integer (.dec (i * pow10 e) e) = .ok (.int i) := by
  intro i e
  have h : pow10 e ≠ 0 := by
    unfold pow10
    exact Int.natCast_ne_zero.mpr (Nat.ne_of_gt (Nat.pow_pos (by decide)))
  simp [castSpec, castValue, allowed_ni, Int.mul_tdiv_cancel _ h]

/-- Number -> Integer truncates toward zero: |r|·10^e ≤ |m| < (|r|+1)·10^e -/
theorem num_int_trunc :
    ∀ (m : Int) (e : Nat), ∃ r : Int, castSpec .number .integer (.dec m e) = .ok (.int r) ∧
      r.natAbs * 10 ^ e ≤ m.natAbs ∧ m.natAbs < (r.natAbs + 1) * 10 ^ e := by
  intro m e
  refine ⟨m.tdiv (pow10 e), by simp [castSpec, castValue, allowed_ni], ?_, ?_⟩
  · rw [Int.natAbs_tdiv]; simp [pow10]; exact Nat.div_mul_le_self _ _
  · rw [Int.natAbs_tdiv]; simp [pow10]
    rw [Nat.mul_comm]; exact Nat.lt_mul_div_succ _ (Nat.pow_pos (by decide))

/-- "String to Integer: must be a valid integer string (rejects "3.5")" -/
theorem str_int_examples :
    castSpec .string .integer (.str "3.5") = .runErr ∧ castSpec .string .integer (.str "abc") = .runErr ∧
    castSpec .string .integer (.str "-12") = .ok (.int (-12)) ∧ castSpec .string .integer (.str "") = .runErr := by
  decide +kernel

/-- Date -> Time: d becomes the degenerate interval d/d -/
theorem date_time_degenerate :
    dateTimeRule = true ∧
    ∀ s y m d, parseDate s.toList = some (y, m, d) → castSpec .date .time (.str s) = .ok (.str (s ++ "/" ++ s)) := by
  refine ⟨by decide, ?_⟩
  intro s y m d h
  have hr : dateTimeRule = true := by decide
  simp [castSpec, castValue, allowed_dt, h, hr]

/-- documented examples -/
theorem doc_examples :
    castSpec .date .timePeriod (.str "2020-01-15") = .ok (.str "2020D15") ∧
    castSpec .timePeriod .time (.str "2020Q1") = .ok (.str "2020-01-01/2020-03-31") ∧
    castSpec .date .time (.str "2020-01-15") = .ok (.str "2020-01-15/2020-01-15") ∧
    castSpec .boolean .string (.bool true) = .ok (.str "True") ∧
    castSpec .string .boolean (.str "true") = .semErr ∧
    castSpec .integer .date (.int 1) = .semErr := by decide +kernel

/-! ## Non-vacuity -/
example : docAllowed .string .integer = true ∧ docAllowed .integer .date = false := by decide
example : renameTo .integer .string = some "str_var" ∧ renameTo .integer .number = none := by decide
example : (checkWithoutMask .integer .date).isOk = false := by decide

end VtlModel.C09

import VtlModel.Sem.Lemmas
import VtlModel.Sem.RowLemmas
/-! # C05 — set operators match datapoints by identifiers across all operands

`union` (first operand that has the key wins), `intersect`, `setdiff`, `symdiff` on datasets of any
size, and their n-ary forms (`union(a,b,c,…)`, `intersect(a,b,c,…)`) for any number of operands. -/
namespace VtlModel.C05
open VtlModel.Sem

/-- the identifier key of `r` under the first operand's identifiers occurs in dataset `y`. -/
def hasKey (ids : List String) (y : DS) (r : Row) : Prop := r.key ids ∈ y.rows.map (·.key ids)

theorem keyIn_iff (ids : List String) (keys : List (List Value)) (r : Row) :
    keyIn ids keys r = true ↔ r.key ids ∈ keys := by
  simp [keyIn]

theorem not_keyIn_iff (ids : List String) (keys : List (List Value)) (r : Row) :
    keyIn ids keys r = false ↔ r.key ids ∉ keys := by
  rw [← keyIn_iff]; simp

/-! ## union -/

theorem union_spec (env : Env) (a b : DExpr) (x y : DS) (hx : evalD env a = .ok x) (hy : evalD env b = .ok y) :
    evalD env (.union a b) = if y.ids != x.ids then .error .unsupported else
      .ok (DS.mk x.ids x.meas (x.rows ++ (y.rows.filter (fun r => !keyIn x.ids x.keys r)).map (·.proj x.comps))) := by
  simp only [evalD, hx, hy, bind, Except.bind, pure, Except.pure]

/-- a datapoint is in `union(a,b)` iff it is a datapoint of `a`, or the (projected) datapoint of `b`
whose key does not occur in `a`: measures always come from the first operand that has the key. -/
theorem union_rows (env : Env) (a b : DExpr) (x y res : DS) (hx : evalD env a = .ok x) (hy : evalD env b = .ok y)
    (h : evalD env (.union a b) = .ok res) (r : Row) :
    r ∈ res.rows ↔ r ∈ x.rows ∨ ∃ r0 ∈ y.rows, r0.key x.ids ∉ x.keys ∧ r = r0.proj x.comps := by
  rw [union_spec env a b x y hx hy] at h
  split at h
  · cases h
  cases h
  simp only [List.mem_append, List.mem_map, List.mem_filter]
  constructor
  · rintro (h1 | ⟨r0, ⟨h0, hk⟩, rfl⟩)
    · exact Or.inl h1
    · right
      refine ⟨r0, h0, ?_, rfl⟩
      intro hin
      have := (keyIn_iff x.ids x.keys r0).2 hin
      simp [this] at hk
  · rintro (h1 | ⟨r0, h0, hk, rfl⟩)
    · exact Or.inl h1
    · right
      refine ⟨r0, ⟨h0, ?_⟩, rfl⟩
      cases hki : keyIn x.ids x.keys r0 with
      | false => rfl
      | true => exact absurd ((keyIn_iff _ _ _).1 hki) hk

/-- the keys of the union are the keys present in either operand. -/
theorem union_keys (env : Env) (a b : DExpr) (x y res : DS) (hx : evalD env a = .ok x) (hy : evalD env b = .ok y)
    (h : evalD env (.union a b) = .ok res) (k : List Value) :
    k ∈ res.rows.map (·.key x.ids) ↔ k ∈ x.keys ∨ k ∈ y.rows.map (·.key x.ids) := by
  have hsub : ∀ i ∈ x.ids, i ∈ x.comps := fun i hi => List.mem_append_left _ hi
  constructor
  · intro hk
    obtain ⟨r, hr, rfl⟩ := List.mem_map.1 hk
    rcases (union_rows env a b x y res hx hy h r).1 hr with h1 | ⟨r0, h0, _, rfl⟩
    · exact Or.inl (List.mem_map.2 ⟨r, h1, rfl⟩)
    · right
      rw [key_proj r0 x.comps x.ids hsub]
      exact List.mem_map.2 ⟨r0, h0, rfl⟩
  · rintro (hk | hk)
    · obtain ⟨r, hr, rfl⟩ := List.mem_map.1 hk
      exact List.mem_map.2 ⟨r, (union_rows env a b x y res hx hy h r).2 (Or.inl hr), rfl⟩
    · obtain ⟨r0, h0, rfl⟩ := List.mem_map.1 hk
      by_cases hin : r0.key x.ids ∈ x.keys
      · obtain ⟨r, hr, hrk⟩ := List.mem_map.1 hin
        exact List.mem_map.2 ⟨r, (union_rows env a b x y res hx hy h r).2 (Or.inl hr), hrk⟩
      · refine List.mem_map.2 ⟨r0.proj x.comps, (union_rows env a b x y res hx hy h _).2 (Or.inr ⟨r0, h0, hin, rfl⟩), ?_⟩
        exact key_proj r0 x.comps x.ids hsub

/-- the union of two datasets with unique keys has unique keys (one datapoint per key). -/
theorem union_nodup (env : Env) (a b : DExpr) (x y res : DS) (hx : evalD env a = .ok x) (hy : evalD env b = .ok y)
    (h : evalD env (.union a b) = .ok res) (nx : x.keys.Nodup) (ny : (y.rows.map (·.key x.ids)).Nodup) :
    (res.rows.map (·.key x.ids)).Nodup := by
  have hsub : ∀ i ∈ x.ids, i ∈ x.comps := fun i hi => List.mem_append_left _ hi
  rw [union_spec env a b x y hx hy] at h
  split at h
  · cases h
  cases h
  simp only [List.map_append, List.map_map]
  have hcongr : (List.map ((fun r => Row.key r x.ids) ∘ fun r => Row.proj r x.comps)
        (List.filter (fun r => !keyIn x.ids x.keys r) y.rows))
      = List.map (fun r => Row.key r x.ids) (List.filter (fun r => !keyIn x.ids x.keys r) y.rows) := by
    apply List.map_congr_left
    intro r _
    exact key_proj r x.comps x.ids hsub
  rw [hcongr]
  refine List.nodup_append.2 ⟨nx, ?_, ?_⟩
  · exact (List.filter_sublist.map _).nodup ny
  · intro k hk1 k' hk2 hkk
    subst hkk
    obtain ⟨r0, hr0, rfl⟩ := List.mem_map.1 hk2
    have := (List.mem_filter.1 hr0).2
    have hin := (keyIn_iff x.ids x.keys r0).2 hk1
    simp [hin] at this

/-! ## intersect / setdiff / symdiff -/

theorem intersect_iff (env : Env) (a b : DExpr) (x y res : DS) (hx : evalD env a = .ok x) (hy : evalD env b = .ok y)
    (h : evalD env (.intersect a b) = .ok res) (r : Row) :
    r ∈ res.rows ↔ r ∈ x.rows ∧ hasKey x.ids y r := by
  simp only [evalD, hx, hy, bind, Except.bind, pure, Except.pure, Except.ok.injEq] at h
  subst h
  simp only [List.mem_filter, hasKey, keyIn_iff]

theorem setdiff_iff (env : Env) (a b : DExpr) (x y res : DS) (hx : evalD env a = .ok x) (hy : evalD env b = .ok y)
    (h : evalD env (.setdiff a b) = .ok res) (r : Row) :
    r ∈ res.rows ↔ r ∈ x.rows ∧ ¬ hasKey x.ids y r := by
  simp only [evalD, hx, hy, bind, Except.bind, pure, Except.pure, Except.ok.injEq] at h
  subst h
  simp only [List.mem_filter, hasKey, Bool.not_eq_true', ← keyIn_iff]
  constructor
  · rintro ⟨h1, h2⟩; exact ⟨h1, by simp [h2]⟩
  · rintro ⟨h1, h2⟩; exact ⟨h1, by simpa using h2⟩

/-- `symdiff(a,b)`: the datapoints of `a` whose key is not in `b`, and those of `b` whose key is not
in `a` — keys present in exactly one operand. -/
theorem symdiff_iff (env : Env) (a b : DExpr) (x y res : DS) (hx : evalD env a = .ok x) (hy : evalD env b = .ok y)
    (h : evalD env (.symdiff a b) = .ok res) (r : Row) :
    r ∈ res.rows ↔ (r ∈ x.rows ∧ ¬ hasKey x.ids y r) ∨
                    (∃ r0 ∈ y.rows, r0.key x.ids ∉ x.keys ∧ r = r0.proj x.comps) := by
  simp only [evalD, hx, hy, bind, Except.bind, pure, Except.pure] at h
  split at h
  · cases h
  simp only [Except.ok.injEq] at h
  subst h
  simp only [List.mem_append, List.mem_filter, List.mem_map, hasKey, Bool.not_eq_true', not_keyIn_iff]
  constructor
  · rintro (⟨h1, h2⟩ | ⟨r0, ⟨h0, hk⟩, rfl⟩)
    · exact Or.inl ⟨h1, h2⟩
    · exact Or.inr ⟨r0, h0, hk, rfl⟩
  · rintro (⟨h1, h2⟩ | ⟨r0, h0, hk, rfl⟩)
    · exact Or.inl ⟨h1, h2⟩
    · exact Or.inr ⟨r0, ⟨h0, hk⟩, rfl⟩

/-- set operators keep the structure of the first operand. -/
theorem setop_struct (env : Env) (a b : DExpr) (x y res : DS) (hx : evalD env a = .ok x) (hy : evalD env b = .ok y)
    (h : evalD env (.union a b) = .ok res ∨ evalD env (.intersect a b) = .ok res ∨
         evalD env (.setdiff a b) = .ok res ∨ evalD env (.symdiff a b) = .ok res) :
    res.ids = x.ids ∧ res.meas = x.meas := by
  rcases h with h | h | h | h <;>
    simp only [evalD, hx, hy, bind, Except.bind, pure, Except.pure] at h <;>
    (try split at h) <;> (try (cases h; done)) <;>
    (simp only [Except.ok.injEq] at h; subst h; exact ⟨rfl, rfl⟩)

/-! ## n-ary forms: every operand counts (any number of operands) -/

/-- `intersect(a, b₁, …, bₙ)` as the grammar's n-ary form: fold of the binary operator. -/
def interN (a : DExpr) (bs : List DExpr) : DExpr := bs.foldl .intersect a

/-- every operand of the list evaluates, to the datasets `ys` (position-wise). -/
inductive EvalAll (env : Env) : List DExpr → List DS → Prop
  | nil : EvalAll env [] []
  | cons {b y bs ys} : evalD env b = .ok y → EvalAll env bs ys → EvalAll env (b :: bs) (y :: ys)

/-- the rows of an n-ary intersect are the rows of the first operand whose key occurs in EVERY
other operand — for any number of operands. -/
theorem interN_iff (env : Env) (bs : List DExpr) : ∀ (a : DExpr) (x res : DS) (ys : List DS),
    evalD env a = .ok x → EvalAll env bs ys →
    evalD env (interN a bs) = .ok res →
    res.ids = x.ids ∧ ∀ r, r ∈ res.rows ↔ r ∈ x.rows ∧ ∀ y ∈ ys, hasKey x.ids y r := by
  induction bs with
  | nil =>
    intro a x res ys hx hys h
    cases hys
    simp only [interN, List.foldl_nil] at h
    rw [hx] at h; cases h
    exact ⟨rfl, fun r => by simp⟩
  | cons b bs ih =>
    intro a x res ys hx hys h
    cases hys with
    | cons hb hrest =>
      rename_i y ys'
      have hstep : evalD env (.intersect a b) = .ok (DS.mk x.ids x.meas
          (x.rows.filter (keyIn x.ids (y.rows.map (·.key x.ids))))) := by
        simp only [evalD, hx, hb, bind, Except.bind, pure, Except.pure]
      have h' : evalD env (interN (.intersect a b) bs) = .ok res := by simpa [interN] using h
      obtain ⟨hid, hrows⟩ := ih (.intersect a b) _ res ys' hstep hrest h'
      refine ⟨hid, fun r => ?_⟩
      rw [hrows r]
      simp only [List.mem_filter, keyIn_iff, List.mem_cons, forall_eq_or_imp, hasKey]
      constructor
      · rintro ⟨⟨h1, h2⟩, h3⟩; exact ⟨h1, h2, h3⟩
      · rintro ⟨h1, h2, h3⟩; exact ⟨⟨h1, h2⟩, h3⟩

/-- dropping an operand changes the result in general: with three operands the third one matters. -/
def row (i : Int) (m : Int) : Row := [("Id_1", Value.int i), ("Me_1", Value.int m)]
def dA : DS := DS.mk ["Id_1"] ["Me_1"] [row 1 10, row 2 20, row 3 30]
def dB : DS := DS.mk ["Id_1"] ["Me_1"] [row 2 21, row 3 31, row 4 41]
def dC : DS := DS.mk ["Id_1"] ["Me_1"] [row 3 32, row 5 52]
def exEnv : Env := [("A", dA), ("B", dB), ("C", dC)]

theorem interN_third_operand_counter :
    evalD exEnv (interN (.ds "A") [.ds "B", .ds "C"]) ≠ evalD exEnv (interN (.ds "A") [.ds "B"]) := by decide

/-! ## Non-vacuity -/
example : evalD exEnv (.union (.ds "A") (.ds "B")) = .ok (DS.mk ["Id_1"] ["Me_1"] [row 1 10, row 2 20, row 3 30, row 4 41]) := by
  decide
example : evalD exEnv (interN (.ds "A") [.ds "B", .ds "C"]) = .ok (DS.mk ["Id_1"] ["Me_1"] [row 3 30]) := by decide
example : evalD exEnv (.symdiff (.ds "A") (.ds "B")) = .ok (DS.mk ["Id_1"] ["Me_1"] [row 1 10, row 4 41]) := by decide
example : dA.keys.Nodup ∧ (dB.rows.map (·.key dA.ids)).Nodup := by decide

end VtlModel.C05

/-
  C29 — names that differ only in letter case stay distinct.

  Model: `Text/Names` (scopes as association lists; every operation parameterised by the key
  comparison; `runCS` = exact comparison = what VTL prescribes, `runCI f` = comparison after the
  fold `f`, what a name-normalising catalog does; `f` is ARBITRARY in every theorem below, so the
  statements hold for DuckDB's `lower` and for any other normalisation).

  * `cs_frame`, `cs_keeps_both`         the exact scope has the property: what a name stands for is
                                         only changed by operations that spell exactly that name.
  * `ci_eq_cs_of_foldInjective`         a folded scope is indistinguishable from the exact one on
                                         every operation sequence whose names the fold separates.
  * `ci_counter`, `ci_never_holds_variants`
                                         as soon as two names have the same fold, no execution of a
                                         folded scope can hold both: the property is FALSE for any
                                         component / dataset scope that is realised in such a catalog.
-/
import VtlModel.Text.NamesLemmas

namespace VtlModel.C29
open VtlModel.Names

variable {α : Type}

/-- In the exact scope, an operation sequence that never spells the name `a` leaves what `a` stands
    for untouched — whatever it does to names that differ from `a` only in letter case. -/
theorem cs_frame (a : String) :
    ∀ (ops : List (Op α)) (env : Env α), a ∉ opsNames ops →
      lookupBy exact a (runCS env ops).2 = lookupBy exact a env
  | [], _, _ => rfl
  | op :: ops, env, h => by
    have h1 : a ∉ opNames op := fun hm => h (by simp [opsNames]; exact Or.inl hm)
    have h2 : a ∉ opsNames ops := fun hm => h (by simp [opsNames]; exact Or.inr hm)
    have ih := cs_frame a ops (step exact env op).1 h2
    simp only [runCS] at ih ⊢
    simp only [run]
    rw [ih]
    exact lookup_step_exact_frame env op h1

/-- In the exact scope two different names (in particular two case variants) inserted one after
    the other both exist afterwards, each with its own value. -/
theorem cs_keeps_both (env : Env α) (a b : String) (va vb : α) (hab : a ≠ b) :
    (runCS env [.insert a va, .insert b vb, .lookup a, .lookup b]).1
      = [.done, .done, .got (some va), .got (some vb)] := by
  have hself : ∀ (k : String) (v : α) (e : Env α), lookupBy exact k (setBy exact k v e) = some v := by
    intro k v e
    induction e with
    | nil => simp [setBy, lookupBy, exact]
    | cons p r ih =>
      obtain ⟨k', v'⟩ := p
      by_cases c : exact k' k = true
      · simp [setBy, c, lookupBy]
      · simp [setBy, c, lookupBy, ih]
  have h1 : lookupBy exact a (setBy exact b vb (setBy exact a va env)) = some va := by
    rw [lookup_setBy_exact_ne (fun e => hab e.symm) vb, hself]
  have h2 : lookupBy exact b (setBy exact b vb (setBy exact a va env)) = some vb := hself _ _ _
  simp [runCS, run, step, h1, h2]

/-- **Folded = exact when the fold separates the names in play.**  For every fold `f`, every initial
    scope and EVERY operation sequence: if no two of the names mentioned (initial keys and all names
    written in the operations) have the same fold, the folded scope produces exactly the observations
    and the final scope (names as spelled, values) of the exact scope. -/
theorem ci_eq_cs_of_foldInjective (f : String → String) (env : Env α) (ops : List (Op α))
    (h : InjOn f (mentioned env ops)) : runCI f env ops = runCS env ops := by
  unfold runCI runCS
  apply run_congr (agree_of_injOn h) ops env
  · intro x hx; simp [mentioned]; exact Or.inl hx
  · intro x hx; simp [mentioned]; exact Or.inr hx

/-- The hypothesis of `ci_eq_cs_of_foldInjective` is decided by the executable `collides`. -/
theorem injOn_iff_not_collides (f : String → String) (S : List String) :
    InjOn f S ↔ collides f S = false := by
  induction S with
  | nil => simp [InjOn, collides]
  | cons x r ih =>
    simp only [collides, Bool.or_eq_false_iff, ← ih]
    constructor
    · intro h
      refine ⟨?_, fun a ha b hb e => h a (List.mem_cons_of_mem _ ha) b (List.mem_cons_of_mem _ hb) e⟩
      rw [Bool.eq_false_iff]
      intro hany
      rcases List.any_eq_true.mp hany with ⟨b, hb, hc⟩
      simp only [Bool.and_eq_true, bne_iff_ne, ne_eq, beq_iff_eq] at hc
      exact hc.1 (h x (List.mem_cons_self) b (List.mem_cons_of_mem _ hb) hc.2)
    · intro ⟨hx, hr⟩ a ha b hb e
      have key : ∀ y, y ∈ r → f x = f y → x = y := by
        intro y hy e
        apply Classical.byContradiction
        intro hne
        have : (r.any fun b => x != b && f x == f b) = true :=
          List.any_eq_true.mpr ⟨y, hy, by simp [hne, e]⟩
        rw [this] at hx; exact Bool.noConfusion hx
      rcases List.mem_cons.mp ha with ha | ha <;> rcases List.mem_cons.mp hb with hb | hb
      · rw [ha, hb]
      · rw [ha] at e ⊢; exact key b hb e
      · rw [hb] at e ⊢; exact (key a ha e.symm).symm
      · exact hr a ha b hb e

/-- **Counter-example for every fold that identifies two names.**  Insert `a ↦ va`, then `b ↦ vb`
    with `a ≠ b`, `f a = f b`: the exact scope holds two entries and answers `va` / `vb`; the folded
    scope holds ONE entry and answers `vb` for both names — `a` has lost its own value. -/
theorem ci_counter (f : String → String) (a b : String) (va vb : α) (hab : a ≠ b) (hf : f a = f b) :
    (runCS [] [.insert a va, .insert b vb, .lookup a, .lookup b])
        = ([.done, .done, .got (some va), .got (some vb)], [(a, va), (b, vb)])
    ∧ (runCI f [] [.insert a va, .insert b vb, .lookup a, .lookup b])
        = ([.done, .done, .got (some vb), .got (some vb)], [(a, vb)]) := by
  constructor
  · simp [runCS, run, step, setBy, lookupBy, exact, hab]
  · simp [runCI, run, step, setBy, lookupBy, folded, hf]

/-- **No execution of a folded scope ever holds two names with the same fold.**  If the initial
    scope has pairwise different folded keys (e.g. it is empty), then after any operation sequence
    two different names with the same fold are never both present. -/
theorem ci_never_holds_variants (f : String → String) :
    ∀ (ops : List (Op α)) (env : Env α), ((keys env).map f).Nodup →
      ∀ a b, a ≠ b → f a = f b → ¬ (a ∈ keys (runCI f env ops).2 ∧ b ∈ keys (runCI f env ops).2) := by
  have hnd : ∀ (ops : List (Op α)) (env : Env α), ((keys env).map f).Nodup →
      ((keys (run (folded f) env ops).2).map f).Nodup := by
    intro ops
    induction ops with
    | nil => intro env h; exact h
    | cons op ops ih =>
      intro env h
      simp only [run]
      exact ih _ (foldKeys_step_nodup f env op h)
  intro ops env h a b hab hf ⟨ha, hb⟩
  exact hab (eq_of_nodup_map (hnd ops env h) ha hb hf)

/-! ### non-vacuity and concrete instances (`Me_1` / `me_1` under DuckDB's fold) -/

/-- the hypothesis of `ci_eq_cs_of_foldInjective` is satisfiable by a scope with unusual-case names -/
example : InjOn lower (mentioned [("Id_1", 0), ("mE_1", 1)] [Op.insert "ME_2" 2, Op.lookup "mE_1"]) := by
  rw [injOn_iff_not_collides]; decide +kernel

example : collides lower ["Id_1", "Me_1", "me_1"] = true := by decide +kernel

example : lower "Me_1" = lower "me_1" ∧ "Me_1" ≠ "me_1" := by decide +kernel

/-- the counter-example, concretely: calc `me_1` next to `Me_1` -/
example :
    runCI lower [("Id_1", 0), ("Me_1", 1)] [Op.insert "me_1" 10, Op.lookup "Me_1", Op.lookup "me_1"]
      = ([.done, .got (some 10), .got (some 10)], [("Id_1", 0), ("Me_1", 10)])
    ∧ runCS [("Id_1", 0), ("Me_1", 1)] [Op.insert "me_1" 10, Op.lookup "Me_1", Op.lookup "me_1"]
      = ([.done, .got (some 1), .got (some 10)], [("Id_1", 0), ("Me_1", 1), ("me_1", 10)]) := by
  decide +kernel

/-- a wrong-case reference is an unknown name in the exact scope, and silently resolves in the folded one -/
example :
    (runCS [("Me_1", 1)] [Op.lookup "me_1", Op.erase "ME_1"]).1 = [.got none, .unknown "ME_1"]
    ∧ (runCI lower [("Me_1", 1)] [Op.lookup "me_1", Op.erase "ME_1"]) = ([.got (some 1), .done], []) := by
  decide +kernel

/-- re-spelling a name is possible in both scopes; taking the spelling of ANOTHER entry is a clash only
    in the folded one -/
example :
    runCI lower [("Me_1", 1), ("x", 2)] [Op.rename "Me_1" "me_1", Op.rename "x" "ME_1"]
      = ([.done, .clash "ME_1"], [("me_1", 1), ("x", 2)])
    ∧ runCS [("Me_1", 1), ("x", 2)] [Op.rename "Me_1" "me_1", Op.rename "x" "ME_1"]
      = ([.done, .done], [("me_1", 1), ("ME_1", 2)]) := by
  decide +kernel

end VtlModel.C29

import VtlModel.Tables.LemmasDecimal
import VtlModel.Gen.ConfigBounds
/-!
C30 — numeric precision settings are validated and applied as documented.

`setDecimalConfig` (Gen/ConfigBounds.lean) is the statement-by-statement transcription of
`set_decimal_config` in /repo's current Config/config.py; the `doc…` constants are read from
docs/environment_variables.rst.  The acceptance theorems quantify over ALL integer values of the two
environment variables (and "unset"), and over every prior value of the module globals.

`…_full_or_counter` theorems: the full-strength statement, or — when it is false on this tree — the
concrete witness that refutes it.  The check evaluates the same witness through the driver and on the
real code to tell which side holds, and reports the witness as a (known) finding.
-/
namespace VtlModel.C30
open VtlModel.Tables.Decimal
open VtlModel.Gen.ConfigBounds

/-- the environment as `set_decimal_config` sees it: the two variables, set to an integer or unset -/
def envOf (w s : Option Int) : String → Option Int :=
  fun k => if k = DECIMAL_WIDTH_ENV_VAR then w else if k = DECIMAL_SCALE_ENV_VAR then s else none

/-- documented: the disable value, or a value inside the documented range -/
def DocOK (lo hi dis x : Int) : Prop := x = dis ∨ (lo ≤ x ∧ x ≤ hi)
def WidthDoc (x : Int) : Prop := DocOK docWidthMin docWidthMax docWidthDisable x
def ScaleDoc (x : Int) : Prop := DocOK docScaleMin docScaleMax docScaleDisable x

instance (lo hi dis x : Int) : Decidable (DocOK lo hi dis x) := by unfold DocOK; infer_instance
instance (x : Int) : Decidable (WidthDoc x) := by unfold WidthDoc; infer_instance
instance (x : Int) : Decidable (ScaleDoc x) := by unfold ScaleDoc; infer_instance

def Accepted (w s : Option Int) (g : St) : Prop := (setDecimalConfig (envOf w s) g).2 = none
instance (w s : Option Int) (g : St) : Decidable (Accepted w s g) := by unfold Accepted; infer_instance

/-- what DuckDB accepts as DECIMAL(w,s) (modelled fact of DuckDB 1.x: "width must be between 1 and 38",
    "scale cannot be greater than width") -/
def ValidDuckDecimal (g : St) : Prop := 1 ≤ g.w ∧ g.w ≤ 38 ∧ 0 ≤ g.s ∧ g.s ≤ g.w
instance (g : St) : Decidable (ValidDuckDecimal g) := by unfold ValidDuckDecimal; infer_instance

theorem envW (w s) : envOf w s DECIMAL_WIDTH_ENV_VAR = w := by simp [envOf]
theorem envS (w s) : envOf w s DECIMAL_SCALE_ENV_VAR = s := by
  have : DECIMAL_SCALE_ENV_VAR ≠ DECIMAL_WIDTH_ENV_VAR := by decide
  simp [envOf, this]

/-- unfold the transcription and the documented predicates, split every `if`, finish with linear
    arithmetic.  Written against the *shape* "assignments, conditional assignments, guarded raises", so that it
    keeps working when the body of `set_decimal_config` is edited within that shape. -/
macro "cfg" : tactic => `(tactic|
  (simp only [Accepted, setDecimalConfig, envW, envS, WidthDoc, ScaleDoc, DocOK, ValidDuckDecimal, initial, decimalType,
      docWidthMax, docWidthMin, docWidthDisable, docWidthDefault, docWidthDisableMeans,
      docScaleMin, docScaleMax, docScaleDisable, docScaleDefault, docScaleDisableMeans,
      MIN_DECIMAL_SCALE, MAX_DECIMAL_SCALE, MIN_DECIMAL_WIDTH, MAX_DECIMAL_WIDTH, DISABLE_VALUE,
      DEFAULT_DECIMAL_WIDTH, DEFAULT_DECIMAL_SCALE, Option.getD_some, Option.getD_none] at * <;>
   (repeat' split) <;> simp_all <;> omega))

/-! ### acceptance ⇔ documented ranges

`initial` is the state of the module globals when the process starts: these theorems describe the first
call; `no_carry_over_full_or_counter` below says whether later calls behave the same.  The effective value
of a variable is its integer value when set and the documented default when unset. -/

/-- partial (true on every tree seen so far): as long as the effective width does not exceed the
    documented maximum, a setting is accepted exactly when both values are documented values.
    All integers (and "unset") for both variables. -/
theorem accept_iff_doc_ranges_partial (w s : Option Int) (h : w.getD docWidthDefault ≤ docWidthMax) :
    Accepted w s initial ↔ (WidthDoc (w.getD docWidthDefault) ∧ ScaleDoc (s.getD docScaleDefault)) := by
  cases w <;> cases s <;> cfg

/-- whatever is rejected is outside the documented values (no documented setting is refused) -/
theorem reject_only_outside_doc (w s : Option Int) :
    ¬ Accepted w s initial → ¬ (WidthDoc (w.getD docWidthDefault) ∧ ScaleDoc (s.getD docScaleDefault)) := by
  cases w <;> cases s <;> cfg

/-- the full statement of the property … -/
def AcceptIffDoc : Prop :=
  ∀ (w s : Option Int), Accepted w s initial ↔ (WidthDoc (w.getD docWidthDefault) ∧ ScaleDoc (s.getD docScaleDefault))

/-- … or its refutation by the width `docWidthMax + 7` (= 45): accepted although undocumented, and the
    resulting DECIMAL type is one DuckDB refuses. -/
theorem accept_iff_doc_ranges_full_or_counter :
    AcceptIffDoc ∨
    (Accepted (some (docWidthMax + 7)) none initial ∧ ¬ WidthDoc (docWidthMax + 7)
      ∧ ¬ ValidDuckDecimal (setDecimalConfig (envOf (some (docWidthMax + 7)) none) initial).1) := by
  first
    | exact Or.inr (by decide +kernel)
    | (left; intro w s; cases w <;> cases s <;> cfg)

/-- a rejected setting is reported with the offending variable, its value, and the documented bounds -/
theorem reject_reports_doc_bounds (w s : Option Int) (e : ConfigError)
    (h : (setDecimalConfig (envOf w s) initial).2 = some e) :
    e.code = "0-4-1-1" ∧ e.disableValue = docWidthDisable ∧
    ((e.envVar = DECIMAL_SCALE_ENV_VAR ∧ e.minValue = docScaleMin ∧ e.maxValue = docScaleMax ∧ ¬ ScaleDoc e.value)
     ∨ (e.envVar = DECIMAL_WIDTH_ENV_VAR ∧ e.minValue = docWidthMin ∧ e.maxValue = docWidthMax
          ∧ ¬ WidthDoc e.value)) := by
  revert h
  cases w <;> cases s <;>
  (simp only [setDecimalConfig, envW, envS, WidthDoc, ScaleDoc, DocOK, initial,
      docWidthMax, docWidthMin, docWidthDisable, docScaleMin, docScaleMax, docScaleDisable,
      MIN_DECIMAL_SCALE, MAX_DECIMAL_SCALE, MIN_DECIMAL_WIDTH, MAX_DECIMAL_WIDTH, DISABLE_VALUE,
      DEFAULT_DECIMAL_WIDTH, DEFAULT_DECIMAL_SCALE, Option.getD_some, Option.getD_none] <;>
   (repeat' split) <;> intro h <;> simp_all <;> (try subst h) <;> simp_all <;> omega)

/-! ### what an accepted setting turns into -/

/-- accepted ⇒ the globals hold the setting itself, with the disable value replaced by the documented
    maximum; and `get_decimal_type()` renders exactly these two numbers -/
theorem accepted_applies_setting (w s : Option Int) (h : Accepted w s initial) :
    (setDecimalConfig (envOf w s) initial).1.w
        = (if w.getD docWidthDefault = docWidthDisable then docWidthDisableMeans else w.getD docWidthDefault) ∧
    (setDecimalConfig (envOf w s) initial).1.s
        = (if s.getD docScaleDefault = docScaleDisable then docScaleDisableMeans else s.getD docScaleDefault) ∧
    decimalType (setDecimalConfig (envOf w s) initial).1
        = "DECIMAL(" ++ toString (setDecimalConfig (envOf w s) initial).1.w ++ ","
            ++ toString (setDecimalConfig (envOf w s) initial).1.s ++ ")" := by
  revert h
  cases w <;> cases s <;> cfg

/-- partial: an accepted setting whose width is within the documented maximum and not below its scale
    is a DECIMAL type DuckDB accepts -/
theorem accepted_type_valid_partial (w s : Option Int) (h : Accepted w s initial) :
    (setDecimalConfig (envOf w s) initial).1.w ≤ docWidthMax →
    (setDecimalConfig (envOf w s) initial).1.s ≤ (setDecimalConfig (envOf w s) initial).1.w →
    ValidDuckDecimal (setDecimalConfig (envOf w s) initial).1 := by
  revert h
  cases w <;> cases s <;> cfg

/-- full: every accepted setting is a usable DECIMAL type — or the witness (width 6, scale 10: both
    documented, accepted, and DECIMAL(6,10) is refused by DuckDB) -/
theorem accepted_type_valid_full_or_counter :
    (∀ (w s : Option Int), Accepted w s initial → ValidDuckDecimal (setDecimalConfig (envOf w s) initial).1) ∨
    (WidthDoc docWidthMin ∧ ScaleDoc docScaleDefault ∧ Accepted (some docWidthMin) (some docScaleDefault) initial
      ∧ ¬ ValidDuckDecimal (setDecimalConfig (envOf (some docWidthMin) (some docScaleDefault)) initial).1) := by
  first
    | exact Or.inr (by decide +kernel)
    | (left; intro w s; cases w <;> cases s <;> cfg)

/-! ### "Not defined → default" and the state a call leaves behind -/

/-- first call of a process with both variables unset: the documented defaults -/
theorem unset_uses_default_first_call :
    setDecimalConfig (envOf none none) initial = (⟨docWidthDefault, docScaleDefault⟩, none) := by
  decide +kernel

/-- full: a call behaves the same whatever earlier calls of the process did (same verdict, and the same
    globals when accepted) — so "unset" always means the documented default — or the witness: after one
    accepted call with width 30, an unset call keeps 30; after one rejected call with width 3, an unset
    call is rejected as well (the globals are overwritten before they are validated, and are their own
    fallback). -/
theorem no_carry_over_full_or_counter :
    (∀ (w s : Option Int) (g : St),
        (setDecimalConfig (envOf w s) g).2 = (setDecimalConfig (envOf w s) initial).2 ∧
        ((setDecimalConfig (envOf w s) g).2 = none →
          (setDecimalConfig (envOf w s) g).1 = (setDecimalConfig (envOf w s) initial).1)) ∨
    (Accepted (some 30) none initial ∧
     (setDecimalConfig (envOf none none) (setDecimalConfig (envOf (some 30) none) initial).1).1.w = 30 ∧
     ¬ Accepted (some 3) none initial ∧
     ¬ Accepted none none (setDecimalConfig (envOf (some 3) none) initial).1) := by
  first
    | exact Or.inr (by decide +kernel)
    | (left; intro w s g; cases w <;> cases s <;> cfg)

/-! ### stored values: DECIMAL(w,s) as scaled integers -/

/-- a stored Number is the input rounded to `s` decimals, half away from zero:
    `|n| = ⌊|x|·10^s + 1/2⌋` and `n` has the sign of `x` (or is 0) -/
theorem stored_rounded (w s : Nat) (x : Lit) (n : Int) (h : load w s x = some n) :
    n.natAbs * (2 * 10 ^ x.e) ≤ 2 * (x.m.natAbs * 10 ^ s) + 10 ^ x.e ∧
    2 * (x.m.natAbs * 10 ^ s) + 10 ^ x.e < (n.natAbs + 1) * (2 * 10 ^ x.e) ∧
    (n < 0 → x.m < 0) ∧ (0 < n → 0 < x.m) := by
  unfold load at h
  split at h
  · cases h
    have := roundMag_spec (x.m.natAbs * 10 ^ s) (10 ^ x.e) (pow10_pos _)
    rw [natAbs_scaled]
    exact ⟨this.1, this.2, (scaled_sign s x).1, (scaled_sign s x).2⟩
  · cases h

/-- a value with at most `s` decimals is stored exactly -/
theorem stored_exact_when_representable (w s : Nat) (x : Lit) (he : x.e ≤ s) (n : Int)
    (h : load w s x = some n) : n = x.m * (10 : Int) ^ (s - x.e) := by
  have hs := stored_rounded w s x n h
  obtain ⟨h1, h2, h3, h4⟩ := hs
  have hsplit : 10 ^ s = 10 ^ (s - x.e) * 10 ^ x.e := by rw [← Nat.pow_add]; congr 1; omega
  have hB := pow10_pos x.e
  -- |n| = |m| * 10^(s-e)
  have habs : n.natAbs = x.m.natAbs * 10 ^ (s - x.e) := by
    have hk : roundMag (x.m.natAbs * 10 ^ s) (10 ^ x.e) = x.m.natAbs * 10 ^ (s - x.e) := by
      apply roundMag_unique _ _ _ hB
      · rw [hsplit]
        have : x.m.natAbs * 10 ^ (s - x.e) * (2 * 10 ^ x.e) = 2 * (x.m.natAbs * (10 ^ (s - x.e) * 10 ^ x.e)) := by
          simp only [Nat.mul_assoc, Nat.mul_left_comm, Nat.mul_comm]
        omega
      · rw [hsplit]
        have : (x.m.natAbs * 10 ^ (s - x.e) + 1) * (2 * 10 ^ x.e)
            = 2 * (x.m.natAbs * (10 ^ (s - x.e) * 10 ^ x.e)) + 2 * 10 ^ x.e := by
          rw [Nat.add_mul]
          simp only [Nat.mul_assoc, Nat.mul_left_comm, Nat.mul_comm, Nat.one_mul]
        omega
    unfold load at h
    split at h
    · cases h; rw [natAbs_scaled]; exact hk
    · cases h
  have hp : (0 : Int) < (10 : Int) ^ (s - x.e) := Int.pow_pos (by decide)
  have hcast : ((10 ^ (s - x.e) : Nat) : Int) = (10 : Int) ^ (s - x.e) := by simp
  -- put the signs back
  rcases Int.lt_trichotomy n 0 with hn | hn | hn
  · have hm := h3 hn
    have e1 : n = -(n.natAbs : Int) := by omega
    have e2 : x.m = -(x.m.natAbs : Int) := by omega
    rw [e1, habs, Int.natCast_mul, hcast]
    conv => rhs; rw [e2]
    rw [Int.neg_mul]
  · subst hn
    have : x.m.natAbs * 10 ^ (s - x.e) = 0 := by simpa using habs.symm
    have hm0 : x.m.natAbs = 0 := by
      rcases Nat.mul_eq_zero.mp this with h0 | h0
      · exact h0
      · have := pow10_pos (s - x.e); omega
    have : x.m = 0 := by omega
    rw [this]; simp
  · have hm := h4 hn
    have e1 : n = (n.natAbs : Int) := by omega
    have e2 : x.m = (x.m.natAbs : Int) := by omega
    rw [e1, habs, Int.natCast_mul, hcast]
    conv => rhs; rw [e2]

/-- a Number is accepted exactly when, after rounding, it needs at most `w` digits:
    `|x|·10^s + 1/2 < 10^w` -/
theorem fits_iff (w s : Nat) (x : Lit) :
    (load w s x).isSome = true ↔ 2 * (x.m.natAbs * 10 ^ s) + 10 ^ x.e < 10 ^ w * (2 * 10 ^ x.e) := by
  have hspec := roundMag_spec (x.m.natAbs * 10 ^ s) (10 ^ x.e) (pow10_pos _)
  have h2B : 0 < 2 * 10 ^ x.e := by have := pow10_pos x.e; omega
  unfold load fits
  rw [natAbs_scaled]
  constructor
  · intro h
    split at h
    · rename_i hf
      have hlt : roundMag (x.m.natAbs * 10 ^ s) (10 ^ x.e) < 10 ^ w := by simpa using hf
      have : (roundMag (x.m.natAbs * 10 ^ s) (10 ^ x.e) + 1) * (2 * 10 ^ x.e) ≤ 10 ^ w * (2 * 10 ^ x.e) :=
        Nat.mul_le_mul_right _ hlt
      omega
    · cases h
  · intro h
    have hlt : roundMag (x.m.natAbs * 10 ^ s) (10 ^ x.e) < 10 ^ w := by
      apply Nat.lt_of_mul_lt_mul_right (a := 2 * 10 ^ x.e)
      omega
    simp [hlt]

/-- sums and differences of two stored Numbers are exact at that scale (`n/10^s ± k/10^s = (n±k)/10^s`
    with integer `n ± k`); where DuckDB widens the result (every width except 18 and 38) they cannot
    overflow, and an overflow is an error, never a value with lost digits -/
theorem add_sub_exact (maxW w : Nat) (a b : Int) (ha : fits w a = true) (hb : fits w b = true) :
    (∀ c, addDec maxW w a b = some c → c = a + b) ∧ (∀ c, subDec maxW w a b = some c → c = a - b) ∧
    (w ≠ 18 → w + 1 ≤ maxW → addDec maxW w a b = some (a + b) ∧ subDec maxW w a b = some (a - b)) ∧
    (addDec maxW w a b = none → 10 ^ (resWidth maxW w) ≤ (a + b).natAbs) ∧
    (subDec maxW w a b = none → 10 ^ (resWidth maxW w) ≤ (a - b).natAbs) := by
  have ha' : a.natAbs < 10 ^ w := by simpa [fits] using ha
  have hb' : b.natAbs < 10 ^ w := by simpa [fits] using hb
  have hpow : 10 ^ (w + 1) = 10 * 10 ^ w := by rw [Nat.pow_succ, Nat.mul_comm]
  have hadd : (a + b).natAbs < 10 ^ (w + 1) := by have := Int.natAbs_add_le a b; omega
  have hsub : (a - b).natAbs < 10 ^ (w + 1) := by have := Int.natAbs_sub_le a b; omega
  refine ⟨?_, ?_, ?_, ?_, ?_⟩
  · intro c h; unfold addDec at h; split at h <;> simp_all
  · intro c h; unfold subDec at h; split at h <;> simp_all
  · intro h18 hw
    have hres : resWidth maxW w = w + 1 := by
      unfold resWidth; rw [if_neg h18]; exact Nat.min_eq_left hw
    simp [addDec, subDec, fits, hres, hadd, hsub]
  · intro h
    unfold addDec fits at h
    split at h
    · cases h
    · rename_i hf
      simpa using hf
  · intro h
    unfold subDec fits at h
    split at h
    · cases h
    · rename_i hf
      simpa using hf

/-! ### non-vacuity -/
example : Accepted (some 28) (some 10) initial := by decide +kernel
example : ¬ Accepted (some 5) none initial := by decide +kernel
example : load 28 10 ⟨12345678905, 11⟩ = some 1234567891 := by decide +kernel    -- 0.12345678905 → 0.1234567891
example : load 28 10 ⟨-12345678915, 11⟩ = some (-1234567892) := by decide +kernel
example : load 10 6 ⟨99999999995, 7⟩ = none := by decide +kernel                  -- 9999.9999995 needs 11 digits
example : load 10 6 ⟨99999999994, 7⟩ = some 9999999999 := by decide +kernel
example : addDec 38 10 9999999999 9999999999 = some 19999999998 := by decide +kernel
example : addDec 38 18 999999999999999999 999999999999999999 = none := by decide +kernel   -- no promotion past 18 digits

end VtlModel.C30

import VtlModel.Sem.AggrLemmas
import VtlModel.Props.C33
/-! # C03 — aggregations group and summarise as specified (model part)

Model: `VtlModel.Sem.Aggr` (`aggVals`: the VTL aggregate of the values of a group, exact rationals;
`aggr`: grouping by identifiers, one output datapoint per distinct group key, optional `having`),
plugged into dataset expressions as `DExpr.app1 (aggr spec) d`.

Proved here for ALL datasets (no bound on the number of datapoints, groups, items):
* `groups_nodup`, `groups_cover`, `group_members`, `having_iff` — one datapoint per distinct group, no
  other, whose measures are the aggregates of exactly the datapoints of the group, kept iff `having` is TRUE;
* `agg_ignores_null`, `agg_perm` — every aggregate operator ignores nulls and the order of the values
  (median/min/max through the uniqueness of the sorted list);
* `aggr_WF`, `aggr_perm` (+ `aggr_ExtWF`, `aggr_ExtPerm`) — the two plug-in lemmas with which
  `C10.evalD_WF` and `C33.evalD_perm` extend to expressions containing aggregations.
The tie to `run()` is the correspondence in `harness/checks/c03.py`. -/
namespace VtlModel.C03
open VtlModel.Sem List

/-- **null values are ignored**, by every aggregate operator. -/
theorem agg_ignores_null (op : AggOp) (xs : List Value) : aggVals op (xs ++ [.null]) = aggVals op xs := by
  simp [aggVals, nonNull, List.filter_append, Value.isNull]

/-- nulls are ignored wherever they stand: an aggregate sees only the non-null values. -/
theorem agg_nonnull_only (op : AggOp) (xs : List Value) : aggVals op (xs.filter (fun v => !v.isNull)) = aggVals op xs := by
  simp [aggVals, nonNull, List.filter_filter]

/-- **the order of the values of a group is irrelevant**, for every aggregate operator (sum, avg, count, min,
max, median, stddev_pop, stddev_samp, var_pop, var_samp). -/
theorem agg_perm (op : AggOp) {xs ys : List Value} (h : xs.Perm ys) : aggVals op xs = aggVals op ys :=
  aggVals_perm op h

/-- **min is the least, max the greatest value of the group** (Number measures; nulls apart): the result is one of the
values and bounds all of them. -/
theorem agg_min_max_num (xs : List Value) (q : Rat) :
    (aggVals .min xs = .ok (.num q) → q ∈ rats (nonNull xs) ∧ ∀ r ∈ rats (nonNull xs), q ≤ r) ∧
    (aggVals .max xs = .ok (.num q) → q ∈ rats (nonNull xs) ∧ ∀ r ∈ rats (nonNull xs), r ≤ q) := by
  constructor
  · intro h
    have := pick_min_spec ratLe ratLe_trans ratLe_total _ q
      (minmax_num false _ q (aggVals_min_eq xs _ (by simp) h))
    exact ⟨this.1, fun r hr => by simpa [ratLe] using this.2 r hr⟩
  · intro h
    have := pick_max_spec ratLe ratLe_trans ratLe_total _ q
      (minmax_num true _ q (aggVals_max_eq xs _ (by simp) h))
    exact ⟨this.1, fun r hr => by simpa [ratLe] using this.2 r hr⟩

/-- the same for Integer measures (the result stays an Integer). -/
theorem agg_min_max_int (xs : List Value) (i : Int) :
    (aggVals .min xs = .ok (.int i) → i ∈ ints (nonNull xs) ∧ ∀ j ∈ ints (nonNull xs), i ≤ j) ∧
    (aggVals .max xs = .ok (.int i) → i ∈ ints (nonNull xs) ∧ ∀ j ∈ ints (nonNull xs), j ≤ i) := by
  constructor
  · intro h
    have := pick_min_spec intLe intLe_trans intLe_total _ i
      (minmax_int false _ i (aggVals_min_eq xs _ (by simp) h))
    exact ⟨this.1, fun r hr => by simpa [intLe] using this.2 r hr⟩
  · intro h
    have := pick_max_spec intLe intLe_trans intLe_total _ i
      (minmax_int true _ i (aggVals_max_eq xs _ (by simp) h))
    exact ⟨this.1, fun r hr => by simpa [intLe] using this.2 r hr⟩

/-- **one datapoint per group key**: the keys of the result are pairwise distinct (for any operand, even one
with duplicated keys). -/
theorem groups_nodup (spec : AggSpec) (x r : DS) (h : aggr spec x = .ok r) : r.keys.Nodup := by
  obtain ⟨gids, items, rows, _, _, _, _, hr, rfl⟩ := aggr_ok spec x r h
  refine mapRows_WF _ gids gids _ rows hr ?_ (keyRows_keys_nodup gids x.rows)
  intro kr r' hkr hf
  obtain ⟨vals, _, _, rfl⟩ := groupRow_some _ _ _ _ _ _ _ hf
  obtain ⟨r0, _, rfl⟩ := (mem_keyRows gids x.rows kr).1 hkr
  rw [key_proj_append r0 gids gids vals (fun _ h => h), key_proj_self]

/-- plug-in lemma for `C10.evalD_WF`. -/
theorem aggr_WF (spec : AggSpec) (x r : DS) (_ : x.WF) (h : aggr spec x = .ok r) : r.WF :=
  groups_nodup spec x r h

/-- **`having` keeps exactly the groups whose condition is TRUE**: `k` is a key of the result iff some
datapoint of the operand projects to `k` and the having condition, evaluated over the aggregates of the
datapoints of that group, is TRUE (FALSE and null drop the group; no having clause: always TRUE). -/
theorem having_iff (spec : AggSpec) (x r : DS) (h : aggr spec x = .ok r) (k : List Value) :
    k ∈ r.keys ↔ ∃ row ∈ x.rows, row.key r.ids = k ∧
      havingOk x.meas spec.having (row.proj r.ids) (members r.ids x.rows k) = .ok true := by
  obtain ⟨gids, items, rows, _, _, _, _, hr, rfl⟩ := aggr_ok spec x r h
  simp only [DS.keys, List.mem_map]
  constructor
  · rintro ⟨r', hr', rfl⟩
    obtain ⟨kr, hkr, hf⟩ := (mapRows_mem _ _ _ hr r').1 hr'
    obtain ⟨vals, _, hh, rfl⟩ := groupRow_some _ _ _ _ _ _ _ hf
    obtain ⟨r0, hr0, rfl⟩ := (mem_keyRows gids x.rows kr).1 hkr
    rw [key_proj_self] at hh
    refine ⟨r0, hr0, ?_, ?_⟩
    · rw [key_proj_append r0 gids gids vals (fun _ h => h)]
    · rw [key_proj_append r0 gids gids vals (fun _ h => h)]; exact hh
  · rintro ⟨r0, hr0, rfl, hh⟩
    have hkr : r0.proj gids ∈ keyRows gids x.rows := (mem_keyRows gids x.rows _).2 ⟨r0, hr0, rfl⟩
    obtain ⟨o, ho⟩ := mapRows_ok_all _ _ _ hr _ hkr
    obtain ⟨vals, keep, _, hk, rfl⟩ := groupRow_ok _ _ _ _ _ _ _ ho
    rw [key_proj_self, hh] at hk
    cases hk
    refine ⟨r0.proj gids ++ vals, (mapRows_mem _ _ _ hr _).2 ⟨r0.proj gids, hkr, ho⟩, ?_⟩
    rw [key_proj_append r0 gids gids vals (fun _ h => h)]

/-- **no other groups, none missing**: without a having clause, `k` is a key of the result iff some datapoint
of the operand projects to `k` on the grouping identifiers.  (In particular an operand without datapoints
gives a result without datapoints.) -/
theorem groups_cover (spec : AggSpec) (x r : DS) (h : aggr spec x = .ok r) (hh : spec.having = none) (k : List Value) :
    k ∈ r.keys ↔ ∃ row ∈ x.rows, row.key r.ids = k := by
  rw [having_iff spec x r h k, hh]
  simp [havingOk]

/-- **the measures of a group are the aggregates of exactly its datapoints**: in the output datapoint `r'`,
the measure of item `it` is `aggVals it.op` of the values that `it`'s argument takes on the datapoints of the
operand that project to the key of `r'` — all of them and no other (`members`) — with the engine's
`NULLIF(count, 0)` where the item carries it. -/
theorem group_members (spec : AggSpec) (x r : DS) (h : aggr spec x = .ok r) :
    ∃ items, itemsFor spec.items x r.ids = .ok items ∧ r.meas = items.map (·.out) ∧
      ∀ r' ∈ r.rows, ∀ it ∈ items, ∃ vals,
        (members r.ids x.rows (r'.key r.ids)).mapM (argVal x.meas it.arg) = .ok vals ∧
        (aggVals it.op vals).map (post it.nz) = .ok (r'.get it.out) := by
  obtain ⟨gids, items, rows, _, hi, hn, hng, hr, rfl⟩ := aggr_ok spec x r h
  refine ⟨items, hi, rfl, ?_⟩
  intro r' hr' it hit
  obtain ⟨kr, hkr, hf⟩ := (mapRows_mem _ _ _ hr r').1 hr'
  obtain ⟨vals, hv, _, rfl⟩ := groupRow_some _ _ _ _ _ _ _ hf
  obtain ⟨r0, _, rfl⟩ := (mem_keyRows gids x.rows kr).1 hkr
  have hget := itemVals_get x.meas _ items vals hv hn it hit
  unfold itemVal at hget
  obtain ⟨vs, hvs, hget⟩ := (bindOk _ _ _).1 hget
  obtain ⟨v, hv', hget⟩ := (bindOk _ _ _).1 hget
  simp only [pure, Except.pure, Except.ok.injEq] at hget
  refine ⟨vs, ?_, ?_⟩
  · show (members gids x.rows (Row.key (r0.proj gids ++ vals) gids)).mapM _ = _
    rw [key_proj_append r0 gids gids vals (fun _ h => h), ← key_proj_self r0 gids]; exact hvs
  · show Except.map _ _ = Except.ok (Row.get (r0.proj gids ++ vals) it.out)
    rw [get_proj_append_not_mem r0 gids vals it.out (hng it hit), hv', ← hget]; rfl

/-- **order independence of aggregation** (plug-in lemma for `C33.evalD_perm`): permuting the datapoints of
the operand permutes the datapoints of the result (and preserves failure). -/
theorem aggr_perm_any (spec : AggSpec) (x y : DS) (h : DSEquiv x y) :
    Rel2 DSEquiv (aggr spec x) (aggr spec y) := by
  obtain ⟨hi, hm, hp⟩ := h
  have hg : groupIds spec.grouping y = groupIds spec.grouping x := by unfold groupIds; rw [hi]
  unfold aggr
  rw [hg]
  refine Rel2.bind (P := Eq) (Rel2.refl_eq _) ?_
  rintro gids _ rfl
  have hit : itemsFor spec.items y gids = itemsFor spec.items x gids := by unfold itemsFor; rw [hm]
  rw [hit]
  refine Rel2.bind (P := Eq) (Rel2.refl_eq _) ?_
  rintro items _ rfl
  split
  · exact Rel2.error _ _
  · split
    · exact Rel2.error _ _
    · rw [← hm]
      refine Rel2.bind (P := Perm) ?_ (fun rows rows' hrr => Rel2.pure ⟨rfl, rfl, hrr⟩)
      exact Rel2.trans_eq (mapRows_perm _ (keyRows_perm gids hp))
        (mapRows_rel_eq _ _ _ (fun a _ => groupRow_perm x.meas gids items spec.having hp a))

/-- plug-in lemma for `C33.evalD_perm` (unique keys are not even needed). -/
theorem aggr_perm (spec : AggSpec) (x y : DS) (_ : x.WF) (h : DSEquiv x y) :
    Rel2 DSEquiv (aggr spec x) (aggr spec y) := aggr_perm_any spec x y h

/-! ### `group all time_agg("A")`: the time identifier is converted, then all identifiers group -/

/-- for `group by / group except / no grouping` the time conversion is the identity. -/
theorem aggrT_eq (spec : AggSpec) (hg : ∀ tid, spec.grouping ≠ .all tid) (d : DS) : aggrT spec d = aggr spec d := by
  unfold aggrT timeConv
  cases hs : spec.grouping with
  | all tid => exact absurd hs (hg tid)
  | _ => rfl

theorem timeConv_ok (g : Grouping) (d d' : DS) (h : timeConv g d = .ok d') :
    d'.ids = d.ids ∧ d'.meas = d.meas ∧
      (d'.rows = d.rows ∨ ∃ tid, g = .all tid ∧ tid ∈ d.ids ∧ d'.rows = d.rows.map (convRow tid)) := by
  unfold timeConv at h
  cases g with
  | all tid =>
    simp only at h
    split at h
    · rename_i hc
      cases h
      exact ⟨rfl, rfl, Or.inr ⟨tid, rfl, by simpa using hc, rfl⟩⟩
    · cases h
  | _ => cases h; exact ⟨rfl, rfl, Or.inl rfl⟩

/-- `aggrT` (every grouping form) keeps identifier keys unique … -/
theorem aggrT_WF (spec : AggSpec) (x r : DS) (_ : x.WF) (h : aggrT spec x = .ok r) : r.WF := by
  unfold aggrT at h
  obtain ⟨x', _, h⟩ := (bindOk _ _ _).1 h
  exact groups_nodup spec x' r h

/-- … and is independent of the physical order of the operand's datapoints. -/
theorem aggrT_perm (spec : AggSpec) (x y : DS) (_ : x.WF) (h : DSEquiv x y) :
    Rel2 DSEquiv (aggrT spec x) (aggrT spec y) := by
  unfold aggrT
  refine Rel2.bind (P := DSEquiv) ?_ (fun a b hab => aggr_perm_any spec a b hab)
  unfold timeConv
  cases spec.grouping with
  | all tid =>
    simp only [h.1]
    split
    · exact Rel2.pure ⟨rfl, h.2.1, h.2.2.map _⟩
    · exact Rel2.error _ _
  | _ => exact Rel2.pure h

/-- **`group all time_agg("A")`**: the result has one datapoint per distinct key of the CONVERTED datapoints
(all identifiers, the time identifier replaced by its year), and no other. -/
theorem group_all_cover (spec : AggSpec) (tid : String) (x r : DS) (hg : spec.grouping = .all tid)
    (hh : spec.having = none) (h : aggrT spec x = .ok r) (k : List Value) :
    r.ids = x.ids ∧ (k ∈ r.keys ↔ ∃ row ∈ x.rows, (convRow tid row).key x.ids = k) := by
  unfold aggrT at h
  obtain ⟨x', hx', h⟩ := (bindOk _ _ _).1 h
  obtain ⟨hi, _, hrows⟩ := timeConv_ok _ _ _ hx'
  have hrows' : x'.rows = x.rows.map (convRow tid) := by
    rcases hrows with hr | ⟨t, ht, _, hr⟩
    · rw [hg] at hx'
      unfold timeConv at hx'
      simp only at hx'
      split at hx'
      · cases hx'; rfl
      · cases hx'
    · rw [hg] at ht; cases ht; exact hr
  have hids : r.ids = x.ids := by
    obtain ⟨gids, items, rows, hgi, _, _, _, _, rfl⟩ := aggr_ok spec x' r h
    rw [hg] at hgi
    simp only [groupIds, Except.ok.injEq] at hgi
    rw [← hgi, hi]
  refine ⟨hids, ?_⟩
  rw [groups_cover spec x' r h hh k, hrows', hids]
  constructor
  · rintro ⟨row, hrow, hk⟩
    obtain ⟨r0, hr0, rfl⟩ := List.mem_map.1 hrow
    exact ⟨r0, hr0, hk⟩
  · rintro ⟨r0, hr0, hk⟩
    exact ⟨convRow tid r0, List.mem_map.2 ⟨r0, hr0, rfl⟩, hk⟩

/-- `C10.evalD_WF` extends to expressions that contain aggregations. -/
theorem aggr_ExtWF (spec : AggSpec) (d : DExpr) (h : C10.ExtWF d) :
    C10.ExtWF (.app1 (aggr spec) d) ∧ C10.ExtWF (.app1 (aggrT spec) d) :=
  ⟨⟨h, fun x r hx hr => aggr_WF spec x r hx hr⟩, ⟨h, fun x r hx hr => aggrT_WF spec x r hx hr⟩⟩

/-- `C33.evalD_perm` extends to expressions that contain aggregations. -/
theorem aggr_ExtPerm (spec : AggSpec) (d : DExpr) (h : C33.ExtPerm d) :
    C33.ExtPerm (.app1 (aggr spec) d) ∧ C33.ExtPerm (.app1 (aggrT spec) d) :=
  ⟨⟨h, fun x y hx hxy => aggr_perm spec x y hx hxy⟩, ⟨h, fun x y hx hxy => aggrT_perm spec x y hx hxy⟩⟩

/-- the tag on `stddev_*`: the model value of a standard deviation is the exact variance (the harness squares
the engine's value before comparing; no floating point and no square root in the model). -/
theorem stddev_is_variance (xs : List Value) :
    aggVals .stddevPop xs = aggVals .varPop xs ∧ aggVals .stddevSamp xs = aggVals .varSamp xs := ⟨rfl, rfl⟩

/-! ### non-vacuity: the definitions compute what the manual's examples show, the hypotheses are satisfiable,
the error branches are reachable -/

def row (i : Int) (s : String) (m : Value) : Row := [("Id_1", .int i), ("Id_2", .str s), ("Me_1", m)]
def ds : DS := ⟨["Id_1", "Id_2"], ["Me_1"],
  [row 1 "a" (.num 3), row 2 "a" (.num (5/2)), row 1 "b" .null, row 2 "b" (.num 4), row 3 "a" .null]⟩
def dsRev : DS := { ds with rows := ds.rows.reverse }
def byId1 (op : AggOp) : AggSpec := ⟨.by ["Id_1"], .each op, none⟩
def out (rows : List (Int × Value)) (m : String) : R DS :=
  .ok ⟨["Id_1"], [m], rows.map (fun p => [("Id_1", .int p.1), (m, p.2)])⟩

-- one datapoint per distinct Id_1; the null of group 1 is ignored; a group with only nulls gives null
example : aggr (byId1 .sum) ds = out [(1, .num 3), (2, .num (13/2)), (3, .null)] "Me_1" := by decide +kernel
example : aggr (byId1 .avg) ds = out [(1, .num 3), (2, .num (13/4)), (3, .null)] "Me_1" := by decide +kernel
example : aggr (byId1 .max) ds = out [(1, .num 3), (2, .num 4), (3, .null)] "Me_1" := by decide +kernel
example : aggr (byId1 .median) ds = out [(1, .num 3), (2, .num (13/4)), (3, .null)] "Me_1" := by decide +kernel
-- var_pop {5/2, 4} = 9/16; var_samp = 9/8; the sample variance of a single value is null
example : aggr (byId1 .varPop) ds = out [(1, .num 0), (2, .num (9/16)), (3, .null)] "Me_1" := by decide +kernel
example : aggr (byId1 .stddevSamp) ds = out [(1, .null), (2, .num (9/8)), (3, .null)] "Me_1" := by decide +kernel
-- count(DS group by …): datapoints with all measures non-null; zero is reported as null when grouped …
example : aggr (byId1 .count) ds = out [(1, .int 1), (2, .int 2), (3, .null)] "int_var" := by decide +kernel
-- … and as 0 when the whole dataset is one group
example : aggr ⟨.none, .each .count, none⟩ { ds with rows := [row 3 "a" .null] } = .ok ⟨[], ["int_var"], [[("int_var", .int 0)]]⟩ := by
  decide +kernel
-- group except Id_1 = group by Id_2; no grouping = one datapoint without identifiers
example : aggr ⟨.except ["Id_1"], .each .sum, none⟩ ds =
    .ok ⟨["Id_2"], ["Me_1"], [[("Id_2", .str "a"), ("Me_1", .num (11/2))], [("Id_2", .str "b"), ("Me_1", .num 4)]]⟩ := by decide +kernel
example : aggr ⟨.none, .each .sum, none⟩ ds = .ok ⟨[], ["Me_1"], [[("Me_1", .num (19/2))]]⟩ := by decide +kernel
-- no datapoints, no groups (groups_cover)
example : aggr ⟨.none, .each .sum, none⟩ { ds with rows := [] } = .ok ⟨[], ["Me_1"], []⟩ := by decide +kernel
-- aggr clause with having: `DS[aggr Me_2 := sum(Me_1), Me_3 := count() group by Id_1 having avg(Me_1) > 3]`
def clause : AggSpec :=
  ⟨.by ["Id_1"], .list [⟨"Me_2", .sum, .expr (.col "Me_1"), false⟩, ⟨"Me_3", .count, .anyMeasure, true⟩],
   some ([⟨"h", .avg, .expr (.col "Me_1"), false⟩], .bin .gt (.col "h") (.const (.int 3)))⟩
example : aggr clause ds = .ok ⟨["Id_1"], ["Me_2", "Me_3"], [[("Id_1", .int 2), ("Me_2", .num (13/2)), ("Me_3", .int 2)]]⟩ := by
  decide +kernel
-- group all time_agg("A"): quarters and months of one year fall into one group per remaining identifier
def trow (i : Int) (p : String) (m : Int) : Row := [("Id_1", .int i), ("Id_t", .str p), ("Me_1", .int m)]
def tds : DS := ⟨["Id_1", "Id_t"], ["Me_1"], [trow 1 "2020Q1" 1, trow 1 "2020-Q2" 2, trow 1 "2021Q1" 4, trow 2 "2020M03" 8]⟩
example : aggrT ⟨.all "Id_t", .each .sum, none⟩ tds =
    .ok ⟨["Id_1", "Id_t"], ["Me_1"], [trow 1 "2020" 3, trow 1 "2021" 4, trow 2 "2020" 8]⟩ := by decide +kernel
example : aggrT ⟨.all "Id_x", .each .sum, none⟩ tds = .error .type := by decide +kernel
-- min / max of strings and booleans, integers stay integers
example : aggVals .min [.str "b", .null, .str "B", .str "ab"] = .ok (.str "B") := by decide +kernel
example : aggVals .max [.bool false, .bool true, .null] = .ok (.bool true) := by decide +kernel
example : aggVals .sum [.int 2, .null, .int (-5)] = .ok (.int (-3)) := by decide +kernel
example : aggVals .median [.int 7, .int 1, .null, .int 3, .int 5] = .ok (.num 4) := by decide +kernel
-- ignoring a null is not the same as counting it as zero
example : aggVals .avg [.int 1, .null, .int 3] = .ok (.num 2) ∧ aggVals .avg [.int 1, .int 0, .int 3] ≠ .ok (.num 2) := by decide +kernel
-- the hypotheses of aggr_perm are satisfiable and its conclusion is not trivial: a different physical order
-- gives the groups in a different order, same datapoints
example : ds.WF ∧ DSEquiv ds dsRev := ⟨by unfold DS.WF; decide +kernel, rfl, rfl, (List.reverse_perm _).symm⟩
example : aggr (byId1 .sum) dsRev = out [(3, .null), (2, .num (13/2)), (1, .num 3)] "Me_1" := by decide +kernel
-- error branches: ill-typed aggregate, grouping by something that is not an identifier, clashing output names
example : aggVals .sum [.str "a"] = .error .type := by decide +kernel
example : aggr ⟨.by ["Me_1"], .each .sum, none⟩ ds = .error .type := by decide +kernel
example : aggr ⟨.by ["Id_1"], .list [⟨"Id_1", .sum, .expr (.col "Me_1"), false⟩], none⟩ ds = .error .type := by decide +kernel

end VtlModel.C03

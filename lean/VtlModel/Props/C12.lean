/-
  C12 — results do not depend on the textual order of top-level statements; cycles and
  redefinitions are rejected whatever the order.

  Model: VtlModel/Dag/Basic.lean.  A script is a list of statements `(out, ins, persistent)`.
  The engine (`DAGAnalyzer.create_dag`) picks *some* execution order of the statements
  (networkx's `topological_sort`, trusted only through its contract, which the check re-validates
  on every run with `isValidOrder`).  The theorems below hold for any number of statements, any
  interpretation `f` of the statements and any global inputs `g`.
-/
import VtlModel.Dag.Lemmas
import VtlModel.Dag.LemmasExtra
namespace VtlModel.C12
open VtlModel.Dag

/-- **Order confluence.**  Two valid execution orders of the same statements (no name assigned
    twice) both run to completion and produce the same value for every name. -/
theorem order_confluence {V : Type} (f : Stmt → List V → V) (g : Name → V) (o₁ o₂ : List Stmt)
    (hperm : o₁.Perm o₂) (hnd : (outs o₁).Nodup)
    (h₁ : isValidOrder o₁ = true) (h₂ : isValidOrder o₂ = true) :
    ∃ e₁ e₂, runSeq f g o₁ = some e₁ ∧ runSeq f g o₂ = some e₂ ∧ ∀ x, e₁ x = e₂ x := by
  have hnd₂ : (outs o₂).Nodup := (outs_perm hperm).nodup_iff.mp hnd
  have hall : ∀ x, (outs o₂).contains x = (outs o₁).contains x :=
    fun x => (contains_perm (outs_perm hperm) x).symm
  obtain ⟨e₁, he₁⟩ := runFrom_of_valid (outs o₁) f g o₁ [] Env.empty h₁ (by simp)
  obtain ⟨e₂, he₂⟩ := runFrom_of_valid (outs o₂) f g o₂ [] Env.empty h₂ (by simp)
  have s₁ := runFrom_spec (outs o₁) f g o₁ _ _ he₁ (by simp [Env.empty]) hnd
  have s₂ := runFrom_spec (outs o₂) f g o₂ _ _ he₂ (by simp [Env.empty]) hnd₂
  refine ⟨e₁, e₂, he₁, he₂, ?_⟩
  intro x
  by_cases hx : x ∈ outs o₁
  · apply sat_unique (outs o₁) f g e₁ e₂ o₁ [] h₁ (by simp) _ x hx
    intro st hst
    refine ⟨s₁.2 st hst, ?_⟩
    obtain ⟨vs, hr, ho⟩ := s₂.2 st (hperm.mem_iff.mp hst)
    exact ⟨vs, by rw [← hr]; exact (readAll_all_congr hall g e₂ st.ins).symm, ho⟩
  · have hx₂ : x ∉ outs o₂ := fun h => hx ((outs_perm hperm).mem_iff.mpr h)
    rw [s₁.1 x hx, s₂.1 x hx₂]

/-- An execution order runs to completion (no statement reads a result that is not yet
    computed) exactly when it is a valid order: the error branch of `runSeq` is not vacuous. -/
theorem runs_iff_valid {V : Type} (f : Stmt → List V → V) (g : Name → V) (o : List Stmt) :
    (runSeq f g o).isSome = true ↔ isValidOrder o = true := by
  constructor
  · intro h
    cases hr : runSeq f g o with
    | none => simp [hr] at h
    | some e => exact valid_of_runFrom (outs o) f g o [] Env.empty e hr (by simp [Env.empty])
  · intro h
    obtain ⟨e, he⟩ := runFrom_of_valid (outs o) f g o [] Env.empty h (by simp)
    simp [runSeq, he]

/-- after a valid run every statement's result satisfies its defining equation over the final
    environment: each result is computed from the full script -/
theorem run_satisfies_equations {V : Type} (f : Stmt → List V → V) (g : Name → V) (o : List Stmt)
    (e : Env V) (hnd : (outs o).Nodup) (h : runSeq f g o = some e) :
    ∀ st ∈ o, SatEq (outs o) f g e st :=
  (runFrom_spec (outs o) f g o _ _ h (by simp [Env.empty]) hnd).2

/-- **A permuted script has the same valid orders**: whatever order the engine chooses for a
    permutation of the script is a valid order of the original script. -/
theorem perm_same_valid_orders (s s' o : List Stmt) (h : s.Perm s') :
    IsValidOrderOf s o ↔ IsValidOrderOf s' o := by
  unfold IsValidOrderOf
  constructor
  · rintro ⟨hp, hv⟩; exact ⟨hp.trans h, hv⟩
  · rintro ⟨hp, hv⟩; exact ⟨hp.trans h.symm, hv⟩

/-- consequence: the engine's result for a script and for any permutation of it coincide, whatever
    valid orders it picks -/
theorem permuted_script_same_result {V : Type} (f : Stmt → List V → V) (g : Name → V)
    (s s' o o' : List Stmt) (hp : s.Perm s') (hnd : (outs s).Nodup)
    (ho : IsValidOrderOf s o) (ho' : IsValidOrderOf s' o') :
    ∃ e e', runSeq f g o = some e ∧ runSeq f g o' = some e' ∧ ∀ x, e x = e' x := by
  have hoo' : o.Perm o' := ho.1.trans (hp.trans ho'.1.symm)
  have hndo : (outs o).Nodup := (outs_perm ho.1).nodup_iff.mpr hnd
  exact order_confluence f g o o' hoo' hndo ho.2 ho'.2

/-- `hasDup` is exactly "some name is assigned twice" -/
theorem hasDup_iff (s : List Stmt) : hasDup s = true ↔ ¬ (outs s).Nodup := hasDupNames_iff _

/-- **Redefinition is rejected whatever the order**: the predicate is permutation invariant. -/
theorem redefinition_rejected (s s' : List Stmt) (h : s.Perm s') : hasDup s = hasDup s' :=
  hasDupNames_perm (outs_perm h)

/-- **A cycle is rejected whatever the order**: the predicate is permutation invariant. -/
theorem cycle_rejected (s s' : List Stmt) (h : s.Perm s') : hasCycle s = hasCycle s' := by
  unfold hasCycle
  have := (cycleCore_perm h).length_eq
  cases h1 : cycleCore s <;> cases h2 : cycleCore s' <;> simp_all

/-- `hasCycle` is meaningful: a script (distinct outputs) that has any valid order has no cycle ... -/
theorem cycle_has_no_valid_order (s o : List Stmt) (hnd : (outs s).Nodup) (h : IsValidOrderOf s o) :
    hasCycle s = false := no_cycle_of_valid s o hnd h

/-- ... and an acyclic script has one (the layered order of the elimination): so
    `hasCycle s = false ↔ ∃ o, IsValidOrderOf s o` for scripts without redefinition. -/
theorem acyclic_has_valid_order (s : List Stmt) (h : hasCycle s = false) : IsValidOrderOf s (topo s) :=
  topo_valid s h

/-- **Denotation.**  Running in any valid order gives every assigned name its order-independent
    denotation (a term over the global inputs, defined from the *set* of statements) ... -/
theorem run_gives_denotation {V : Type} (f : Stmt → List V → V) (g : Name → V) (o : List Stmt)
    (hnd : (outs o).Nodup) (hv : isValidOrder o = true) :
    ∃ e, runSeq f g o = some e ∧ ∀ x ∈ outs o, e x = denote f g o (o.length + 1) x :=
  runSeq_denote f g o hnd hv

/-- ... and the denotation does not depend on the order in which the statements are written. -/
theorem denotation_perm_invariant {V : Type} (f : Stmt → List V → V) (g : Name → V) (s s' : List Stmt)
    (h : s.Perm s') (hnd : (outs s).Nodup) (n : Nat) (x : Name) :
    denote f g s n x = denote f g s' n x := denote_perm f g s s' h hnd n x

/-! ### non-vacuity -/

/-- `r1 := i1 + i2; r2 <- r1 * 2; r3 <- r1 + i1` written in the order r2, r1, r3 -/
def ex : List Stmt := [⟨11, [10], true⟩, ⟨10, [1, 2], false⟩, ⟨12, [10, 1], true⟩]
def exSorted : List Stmt := [⟨10, [1, 2], false⟩, ⟨11, [10], true⟩, ⟨12, [10, 1], true⟩]
def exSorted' : List Stmt := [⟨10, [1, 2], false⟩, ⟨12, [10, 1], true⟩, ⟨11, [10], true⟩]

example : isValidOrder ex = false := by decide
example : isValidOrder exSorted = true ∧ isValidOrder exSorted' = true := by decide
example : hasCycle ex = false ∧ hasDup ex = false := by decide
example : isValidOrder (topo ex) = true := by decide
example : (runSeq termF termG ex).isSome = false := by decide
example : ((runSeq termF termG exSorted).bind (· 12)) = some "(12! (10 i1 i2) i1)" := by decide
example : ((runSeq termF termG exSorted').bind (· 12)) = denote termF termG ex 4 12 := by decide
example : hasCycle [⟨1, [2], false⟩, ⟨2, [1], false⟩, ⟨3, [9], true⟩] = true := by decide
example : hasCycle [⟨1, [1, 9], true⟩] = true := by decide
example : hasDup [⟨1, [9], false⟩, ⟨2, [1], false⟩, ⟨1, [8], true⟩] = true := by decide

end VtlModel.C12

import VtlModel.Sem.Perm
import VtlModel.Props.C10
/-! # C33 — results depend only on the SET of input datapoints (model part)

`evalD_perm`: for every expression of the modelled subset (any nesting depth), permuting the rows of
any input dataset permutes the rows of the result and preserves failure — proved by induction on the
expression, composing per-operator permutation lemmas.  Uniqueness of identifier keys (the VTL
data-model invariant, preserved by `C10.evalD_WF`) is what makes the matching of dataset operands
independent of the physical order.  Column order plays no role in the model: rows are name-indexed. -/
namespace VtlModel.C33
open VtlModel.Sem VtlModel.C10 List

abbrev REquiv := Rel2 DSEquiv

/-- the two environments bind the same names to equivalent datasets. -/
def EnvEquiv (e1 e2 : Env) : Prop :=
  ∀ n, (e1.lookup n = none ∧ e2.lookup n = none) ∨ (∃ a b, e1.lookup n = some a ∧ e2.lookup n = some b ∧ DSEquiv a b)

/-- extension operators respect permutation of their operands' rows. -/
def ExtPerm : DExpr → Prop
  | .ds _ => True
  | .mapm d _ _ => ExtPerm d
  | .zip a b _ _ => ExtPerm a ∧ ExtPerm b
  | .filter d _ => ExtPerm d
  | .calc d _ => ExtPerm d
  | .keep d _ => ExtPerm d
  | .drop d _ => ExtPerm d
  | .rename d _ => ExtPerm d
  | .sub d _ => ExtPerm d
  | .union a b => ExtPerm a ∧ ExtPerm b
  | .intersect a b => ExtPerm a ∧ ExtPerm b
  | .setdiff a b => ExtPerm a ∧ ExtPerm b
  | .symdiff a b => ExtPerm a ∧ ExtPerm b
  | .app1 f d => ExtPerm d ∧ ∀ x y, x.WF → DSEquiv x y → REquiv (f x) (f y)
  | .app2 f a b => ExtPerm a ∧ ExtPerm b ∧
      ∀ x y x' y', x.WF → y.WF → DSEquiv x x' → DSEquiv y y' → REquiv (f x y) (f x' y')
  | .app3 f a b c => ExtPerm a ∧ ExtPerm b ∧ ExtPerm c ∧
      ∀ x y z x' y' z', x.WF → y.WF → z.WF → DSEquiv x x' → DSEquiv y y' → DSEquiv z z' →
        REquiv (f x y z) (f x' y' z')

theorem rows_rel (f : Row → R (Option Row)) {rows rows' : List Row} (hp : rows.Perm rows') :
    Rel2 Perm (mapRows f rows) (mapRows f rows') := mapRows_perm f hp

/-- **Order independence**: equivalent inputs give equivalent outcomes, for every expression. -/
theorem evalD_perm (env env' : Env) (w : EnvWF env) (w' : EnvWF env') (hee : EnvEquiv env env') :
    ∀ (e : DExpr), ExtWF e → ExtPerm e → REquiv (evalD env e) (evalD env' e) := by
  intro e
  induction e with
  | ds n =>
    intro _ _
    simp only [evalD]
    rcases hee n with ⟨h1, h2⟩ | ⟨a, b, h1, h2, hab⟩
    · rw [h1, h2]; exact Rel2.error _ _
    · rw [h1, h2]; exact Or.inr ⟨a, b, rfl, rfl, hab⟩
  | mapm d body out ih =>
    intro hw hp
    simp only [evalD]
    refine Rel2.bind (ih hw hp) ?_
    intro x x' hxx
    rw [mapmRow_congr x x' body out hxx.1 hxx.2.1]
    refine Rel2.bind (rows_rel _ hxx.2.2) ?_
    intro rows rows' hrr
    exact Rel2.pure ⟨hxx.1, by rw [hxx.2.1], hrr⟩
  | zip a b body out iha ihb =>
    intro hw hp
    simp only [evalD]
    -- well-formedness of the evaluated operands (needed for the matching)
    cases hxa : evalD env a with
    | error ea =>
      rcases iha hw.1 hp.1 with ⟨e, e', h1, h2⟩ | ⟨x, y, h1, _, _⟩
      · rw [h2]; exact Rel2.error _ _
      · rw [hxa] at h1; cases h1
    | ok x =>
      rcases iha hw.1 hp.1 with ⟨e, e', h1, _⟩ | ⟨x, x', h1, h2, hxx⟩
      · rw [hxa] at h1; cases h1
      · rw [hxa] at h1; cases h1
        rw [h2]
        cases hyb : evalD env b with
        | error eb =>
          rcases ihb hw.2 hp.2 with ⟨e, e', h1, h2⟩ | ⟨y, y', h1, _, _⟩
          · rw [h2]; exact Rel2.error _ _
          · rw [hyb] at h1; cases h1
        | ok y =>
          rcases ihb hw.2 hp.2 with ⟨e, e', h1, _⟩ | ⟨y, y', h1, h2', hyy⟩
          · rw [hyb] at h1; cases h1
          · rw [hyb] at h1; cases h1
            rw [h2']
            have wx : x.WF := evalD_WF env w a x hw.1 hxa
            have wy : y.WF := evalD_WF env w b y hw.2 hyb
            show REquiv (bind (Except.ok x) _) (bind (Except.ok x') _)
            simp only [bind, Except.bind]
            rw [← hxx.1, ← hyy.1, ← hxx.2.1, ← hyy.2.1]
            split
            · rw [zipRow_congr x x' y y' true _ body out hxx.1 wy hyy]
              refine Rel2.bind (rows_rel _ hxx.2.2) ?_
              intro rows rows' hrr
              exact Rel2.pure ⟨rfl, rfl, hrr⟩
            · split
              · rw [zipRow_congr y y' x x' false _ body out hyy.1 wx hxx]
                refine Rel2.bind (rows_rel _ hyy.2.2) ?_
                intro rows rows' hrr
                exact Rel2.pure ⟨rfl, rfl, hrr⟩
              · exact Rel2.error _ _
  | filter d c ih =>
    intro hw hp
    simp only [evalD]
    refine Rel2.bind (ih hw hp) ?_
    intro x x' hxx
    refine Rel2.bind (rows_rel _ hxx.2.2) ?_
    intro rows rows' hrr
    exact Rel2.pure ⟨hxx.1, hxx.2.1, hrr⟩
  | «calc» d items ih =>
    intro hw hp
    simp only [evalD]
    refine Rel2.bind (ih hw hp) ?_
    intro x x' hxx
    rw [← hxx.1, ← hxx.2.1]
    split
    · exact Rel2.error _ _
    · refine Rel2.bind (rows_rel _ hxx.2.2) ?_
      intro rows rows' hrr
      exact Rel2.pure ⟨rfl, rfl, hrr⟩
  | keep d ns ih =>
    intro hw hp
    simp only [evalD]
    refine Rel2.bind (ih hw hp) ?_
    intro x x' hxx
    rw [← hxx.1, ← hxx.2.1]
    exact Rel2.pure ⟨rfl, rfl, hxx.2.2.map _⟩
  | drop d ns ih =>
    intro hw hp
    simp only [evalD]
    refine Rel2.bind (ih hw hp) ?_
    intro x x' hxx
    rw [← hxx.1, ← hxx.2.1]
    exact Rel2.pure ⟨rfl, rfl, hxx.2.2.map _⟩
  | rename d m ih =>
    intro hw hp
    simp only [evalD]
    refine Rel2.bind (ih hw hp) ?_
    intro x x' hxx
    have hc : x'.comps = x.comps := by unfold DS.comps; rw [hxx.1, hxx.2.1]
    rw [hc, ← hxx.1, ← hxx.2.1]
    split
    · exact Rel2.error _ _
    · exact Rel2.pure ⟨rfl, rfl, hxx.2.2.map _⟩
  | sub d fix ih =>
    intro hw hp
    simp only [evalD]
    refine Rel2.bind (ih hw hp) ?_
    intro x x' hxx
    rw [← hxx.1, ← hxx.2.1]
    split
    · exact Rel2.error _ _
    · exact Rel2.pure ⟨rfl, rfl, (hxx.2.2.filter _).map _⟩
  | union a b iha ihb =>
    intro hw hp
    simp only [evalD]
    refine Rel2.bind (iha hw.1 hp.1) ?_
    intro x x' hxx
    refine Rel2.bind (ihb hw.2 hp.2) ?_
    intro y y' hyy
    have hc : x'.comps = x.comps := by unfold DS.comps; rw [hxx.1, hxx.2.1]
    have hk : (fun r => !keyIn x'.ids x'.keys r) = (fun r => !keyIn x.ids x.keys r) := by
      funext r; rw [← hxx.1, keyIn_perm x.ids x'.keys x.keys hxx.keys.symm r]
    rw [← hxx.1, ← hyy.1, hc, ← hxx.2.1]
    rw [← hxx.1] at hk
    rw [hk]
    split
    · exact Rel2.error _ _
    · exact Rel2.pure ⟨rfl, rfl, hxx.2.2.append ((hyy.2.2.filter _).map _)⟩
  | intersect a b iha ihb =>
    intro hw hp
    simp only [evalD]
    refine Rel2.bind (iha hw.1 hp.1) ?_
    intro x x' hxx
    refine Rel2.bind (ihb hw.2 hp.2) ?_
    intro y y' hyy
    have hk : keyIn x.ids (y'.rows.map (·.key x.ids)) = keyIn x.ids (y.rows.map (·.key x.ids)) := by
      funext r; exact keyIn_perm x.ids _ _ (hyy.2.2.symm.map _) r
    rw [← hxx.1, ← hxx.2.1, hk]
    exact Rel2.pure ⟨rfl, rfl, hxx.2.2.filter _⟩
  | setdiff a b iha ihb =>
    intro hw hp
    simp only [evalD]
    refine Rel2.bind (iha hw.1 hp.1) ?_
    intro x x' hxx
    refine Rel2.bind (ihb hw.2 hp.2) ?_
    intro y y' hyy
    have hk : (fun r => !keyIn x.ids (y'.rows.map (·.key x.ids)) r) = (fun r => !keyIn x.ids (y.rows.map (·.key x.ids)) r) := by
      funext r; rw [keyIn_perm x.ids _ _ (hyy.2.2.symm.map _) r]
    rw [← hxx.1, ← hxx.2.1, hk]
    exact Rel2.pure ⟨rfl, rfl, hxx.2.2.filter _⟩
  | symdiff a b iha ihb =>
    intro hw hp
    simp only [evalD]
    refine Rel2.bind (iha hw.1 hp.1) ?_
    intro x x' hxx
    refine Rel2.bind (ihb hw.2 hp.2) ?_
    intro y y' hyy
    have hc : x'.comps = x.comps := by unfold DS.comps; rw [hxx.1, hxx.2.1]
    have hk1 : (fun r => !keyIn x.ids (y'.rows.map (·.key x.ids)) r) = (fun r => !keyIn x.ids (y.rows.map (·.key x.ids)) r) := by
      funext r; rw [keyIn_perm x.ids _ _ (hyy.2.2.symm.map _) r]
    have hk2 : (fun r => !keyIn x.ids x'.keys r) = (fun r => !keyIn x.ids x.keys r) := by
      funext r; rw [keyIn_perm x.ids x'.keys x.keys hxx.keys.symm r]
    rw [← hxx.1, ← hyy.1, hc, ← hxx.2.1, hk1, hk2]
    split
    · exact Rel2.error _ _
    · exact Rel2.pure ⟨rfl, rfl, (hxx.2.2.filter _).append ((hyy.2.2.filter _).map _)⟩
  | app1 f d ih =>
    intro hw hp
    simp only [evalD]
    cases hxa : evalD env d with
    | error ea =>
      rcases ih hw.1 hp.1 with ⟨e, e', _, h2⟩ | ⟨x, y, h1, _, _⟩
      · rw [h2]; exact Rel2.error _ _
      · rw [hxa] at h1; cases h1
    | ok x =>
      rcases ih hw.1 hp.1 with ⟨e, e', h1, _⟩ | ⟨x, x', h1, h2, hxx⟩
      · rw [hxa] at h1; cases h1
      · rw [hxa] at h1; cases h1
        rw [h2]
        exact hp.2 x x' (evalD_WF env w d x hw.1 hxa) hxx
  | app2 f a b iha ihb =>
    intro hw hp
    simp only [evalD]
    cases hxa : evalD env a with
    | error ea =>
      rcases iha hw.1 hp.1 with ⟨e, e', _, h2⟩ | ⟨x, y, h1, _, _⟩
      · rw [h2]; exact Rel2.error _ _
      · rw [hxa] at h1; cases h1
    | ok x =>
      rcases iha hw.1 hp.1 with ⟨e, e', h1, _⟩ | ⟨x, x', h1, h2, hxx⟩
      · rw [hxa] at h1; cases h1
      · rw [hxa] at h1; cases h1
        rw [h2]
        cases hyb : evalD env b with
        | error eb =>
          rcases ihb hw.2.1 hp.2.1 with ⟨e, e', _, h2⟩ | ⟨y, y', h1, _, _⟩
          · rw [h2]; exact Rel2.error _ _
          · rw [hyb] at h1; cases h1
        | ok y =>
          rcases ihb hw.2.1 hp.2.1 with ⟨e, e', h1, _⟩ | ⟨y, y', h1, h2', hyy⟩
          · rw [hyb] at h1; cases h1
          · rw [hyb] at h1; cases h1
            rw [h2']
            exact hp.2.2 x y x' y' (evalD_WF env w a x hw.1 hxa) (evalD_WF env w b y hw.2.1 hyb) hxx hyy

  | app3 f a b c iha ihb ihc =>
    intro hw hp
    simp only [evalD]
    have key : ∀ (d : DExpr), ExtWF d → REquiv (evalD env d) (evalD env' d) →
        (∃ e e', evalD env d = .error e ∧ evalD env' d = .error e') ∨
        (∃ x x', evalD env d = .ok x ∧ evalD env' d = .ok x' ∧ DSEquiv x x' ∧ x.WF) := by
      intro d hd hr
      rcases hr with ⟨e, e', h1, h2⟩ | ⟨x, x', h1, h2, hxx⟩
      · exact Or.inl ⟨e, e', h1, h2⟩
      · exact Or.inr ⟨x, x', h1, h2, hxx, evalD_WF env w d x hd h1⟩
    rcases key a hw.1 (iha hw.1 hp.1) with ⟨e, e', h1, h2⟩ | ⟨x, x', h1, h2, hxx, wx⟩
    · rw [h1, h2]; exact Rel2.error _ _
    · rw [h1, h2]
      rcases key b hw.2.1 (ihb hw.2.1 hp.2.1) with ⟨e, e', h3, h4⟩ | ⟨y, y', h3, h4, hyy, wy⟩
      · rw [h3, h4]; exact Rel2.error _ _
      · rw [h3, h4]
        rcases key c hw.2.2.1 (ihc hw.2.2.1 hp.2.2.1) with ⟨e, e', h5, h6⟩ | ⟨z, z', h5, h6, hzz, wz⟩
        · rw [h5, h6]; exact Rel2.error _ _
        · rw [h5, h6]
          exact hp.2.2.2 x y z x' y' z' wx wy wz hxx hyy hzz

/-- corollary in the property's words: permuting the rows of the inputs leaves a successful result
unchanged as a set of datapoints (same structure, `Perm`-equal rows), and a failing run fails. -/
theorem result_set_invariant (env env' : Env) (w : EnvWF env) (w' : EnvWF env') (hee : EnvEquiv env env')
    (e : DExpr) (hw : ExtWF e) (hp : ExtPerm e) (res : DS) (h : evalD env e = .ok res) :
    ∃ res', evalD env' e = .ok res' ∧ res'.ids = res.ids ∧ res'.meas = res.meas ∧ res.rows.Perm res'.rows := by
  rcases evalD_perm env env' w w' hee e hw hp with ⟨e1, _, h1, _⟩ | ⟨x, y, h1, h2, hxy⟩
  · rw [h] at h1; cases h1
  · rw [h] at h1; cases h1
    exact ⟨y, h2, hxy.1.symm, hxy.2.1.symm, hxy.2.2⟩

/-- the uniqueness hypothesis is necessary: with duplicated keys the first-match pairing of dataset
operands depends on the physical order. -/
def row (i : Int) (m : Int) : Row := [("Id_1", Value.int i), ("Me_1", Value.int m)]
def one : DS := DS.mk ["Id_1"] ["Me_1"] [row 1 1]
def dupA : DS := DS.mk ["Id_1"] ["Me_1"] [row 1 10, row 1 20]
def dupB : DS := DS.mk ["Id_1"] ["Me_1"] [row 1 20, row 1 10]
theorem duplicate_keys_order_dependent :
    DSEquiv dupA dupB ∧
    evalD [("A", one), ("B", dupA)] (.zip (.ds "A") (.ds "B") (.bin .add .hole .hole2) none) ≠
    evalD [("A", one), ("B", dupB)] (.zip (.ds "A") (.ds "B") (.bin .add .hole .hole2) none) := by
  refine ⟨⟨rfl, rfl, ?_⟩, by decide⟩
  exact List.Perm.swap _ _ _

end VtlModel.C33

import VtlModel.Sem.CaseD
import VtlModel.Sem.ExtOps
import VtlModel.Props.C01
import VtlModel.Props.C33
/-! # C01 (extension) — dataset-level `case`, `nvl`, `between` / `in` / `not_in` / `isnull`, string operators
over several measures, `instr`

Theorems for ALL inputs about `VtlModel.Sem.caseD` (Sem/CaseD.lean), the scalar functions of Sem/Value.lean and
Sem/Strings.lean and their dataset-level instances (`mapm`, `zip`, `mapValD`).  Tie to the implementation:
`harness/checks/c01_ext.py` (generated scripts through the real `run()` and through `Drivers/C01Ext.lean`). -/
namespace VtlModel.C01
open VtlModel.Sem

/-! ## dataset-level case -/

/-- a datapoint is in the result iff it is produced from a datapoint of the SOURCE dataset. -/
theorem case_rows (src : DS) (arms : List CaseArm) (e : Option DS) (ev : Value) (res : DS)
    (h : caseD src arms e ev = .ok res) (r' : Row) :
    r' ∈ res.rows ↔ ∃ rs ∈ src.rows, caseRow src.ids (caseMeas arms e) arms e ev rs = .ok (some r') := by
  unfold caseD at h
  split at h
  · cases hm : mapRows (caseRow src.ids (caseMeas arms e) arms e ev) src.rows with
    | error er => simp [hm, Except.map] at h
    | ok rows =>
      simp [hm, Except.map] at h
      subst h
      exact mapRows_mem _ _ _ hm r'
  · cases h

/-- structure of the result: identifiers of the source, measures of the first dataset operand. -/
theorem case_struct (src : DS) (arms : List CaseArm) (e : Option DS) (ev : Value) (res : DS)
    (h : caseD src arms e ev = .ok res) : res.ids = src.ids ∧ res.meas = caseMeas arms e := by
  unfold caseD at h
  split at h
  · cases hm : mapRows (caseRow src.ids (caseMeas arms e) arms e ev) src.rows with
    | error er => simp [hm, Except.map] at h
    | ok rows => simp [hm, Except.map] at h; subst h; exact ⟨rfl, rfl⟩
  · cases h

/-- no result datapoint has other identifiers than the source datapoint it comes from. -/
theorem case_keeps_identifiers (ids ms : List String) (arms : List CaseArm) (e : Option DS) (ev : Value) (rs r' : Row)
    (h : caseRow ids ms arms e ev rs = .ok (some r')) : r'.key ids = rs.key ids :=
  caseRow_key ids ms arms e ev rs r' h

/-- a NULL condition is not TRUE. -/
theorem arm_null_not_true (a : CaseArm) (rs : Row)
    (h : evalS ((partner a.cds rs).getD []) .null .null a.cond = .ok .null) : armHolds a rs = .ok false := by
  simp [armHolds, h]

theorem arm_true_iff (a : CaseArm) (rs : Row) :
    armHolds a rs = .ok true ↔ evalS ((partner a.cds rs).getD []) .null .null a.cond = .ok (.bool true) := by
  unfold armHolds
  cases evalS ((partner a.cds rs).getD []) .null .null a.cond with
  | error e => simp
  | ok v => cases v <;> simp

/-- a condition dataset without a datapoint for these identifiers: the condition is evaluated on nulls
(a comparison is then NULL, i.e. not TRUE; `isnull` is TRUE). -/
theorem arm_missing_datapoint (a : CaseArm) (rs : Row) (h : partner a.cds rs = none) :
    armHolds a rs = .ok true ↔ evalS [] .null .null a.cond = .ok (.bool true) := by
  rw [arm_true_iff, h]
  rfl

/-- arms after which some arm already won are not consulted. -/
theorem caseArms_prefix (ids ms : List String) (pre rest : List CaseArm) (rs : Row) (o : Option Row)
    (h : caseArms ids ms rest rs = .ok (some o)) : caseArms ids ms (pre ++ rest) rs = .ok (some o) := by
  induction pre with
  | nil => exact h
  | cons a l ih => simp [caseArms, ih]

theorem caseArms_none_true (ids ms : List String) (arms : List CaseArm) (rs : Row)
    (h : ∀ b ∈ arms, armHolds b rs = .ok false) : caseArms ids ms arms rs = .ok none := by
  induction arms with
  | nil => rfl
  | cons a l ih =>
    simp [caseArms, ih (fun b hb => h b (List.mem_cons_of_mem _ hb)), h a List.mem_cons_self]

/-- **the LAST arm whose condition is TRUE wins**, whatever the earlier arms are. -/
theorem case_last_true_wins (ids ms : List String) (pre post : List CaseArm) (a : CaseArm) (e : Option DS) (ev : Value)
    (rs : Row) (ha : armHolds a rs = .ok true) (hpost : ∀ b ∈ post, armHolds b rs = .ok false) :
    caseRow ids ms (pre ++ a :: post) e ev rs = .ok (branchRow ids ms a.thn a.tv rs) := by
  have h1 : caseArms ids ms (a :: post) rs = .ok (some (branchRow ids ms a.thn a.tv rs)) := by
    simp [caseArms, caseArms_none_true ids ms post rs hpost, ha]
  simp [caseRow, caseArms_prefix ids ms pre (a :: post) rs _ h1]

/-- no condition TRUE (each FALSE or NULL): the else operand is selected; the datapoint is not dropped. -/
theorem case_none_true_takes_else (ids ms : List String) (arms : List CaseArm) (e : Option DS) (ev : Value) (rs : Row)
    (h : ∀ b ∈ arms, armHolds b rs = .ok false) :
    caseRow ids ms arms e ev rs = .ok (branchRow ids ms e ev rs) := by
  simp [caseRow, caseArms_none_true ids ms arms rs h]

/-- the selected dataset operand contributes exactly ITS datapoint with the same identifiers: the measures of a result
datapoint are those of the one datapoint of the operand that agrees with the source datapoint on the identifiers. -/
theorem case_selected_dataset_datapoint (ids ms : List String) (d : DS) (tv : Value) (rs r' : Row) (wd : d.keys.Nodup)
    (h : branchRow ids ms (some d) tv rs = some r') :
    ∃ rb, rb ∈ d.rows ∧ rb.key d.ids = rs.key d.ids ∧ r' = rs.proj ids ++ rb.proj ms ∧
      ∀ rb' ∈ d.rows, rb'.key d.ids = rs.key d.ids → partner d rs = some rb' := by
  simp only [branchRow] at h
  cases hp : partner d rs with
  | none => simp [hp] at h
  | some rb =>
    simp [hp] at h
    obtain ⟨hm, hk⟩ := (partner_iff d rs rb wd).1 hp
    refine ⟨rb, hm, hk, h.symm, ?_⟩
    intro rb' hm' hk'
    rw [← hp]
    exact (partner_iff d rs rb' wd).2 ⟨hm', hk'⟩ ▸ hp ▸ rfl

/-- the winning operand is a dataset without a datapoint for these identifiers: the datapoint is ABSENT from the
result — also when an earlier arm is TRUE and has one (the engine keeps it with null measures: known finding). -/
theorem case_winner_unmatched_absent (ids ms : List String) (pre post : List CaseArm) (a : CaseArm) (d : DS)
    (e : Option DS) (ev : Value) (rs : Row) (ha : armHolds a rs = .ok true) (hd : a.thn = some d)
    (hp : partner d rs = none) (hpost : ∀ b ∈ post, armHolds b rs = .ok false) :
    caseRow ids ms (pre ++ a :: post) e ev rs = .ok none := by
  rw [case_last_true_wins ids ms pre post a e ev rs ha hpost, hd]
  simp [branchRow, hp]

/-- a scalar operand always contributes: the constant for every measure. -/
theorem case_scalar_operand (ids ms : List String) (pre post : List CaseArm) (a : CaseArm) (e : Option DS) (ev : Value)
    (rs : Row) (ha : armHolds a rs = .ok true) (hs : a.thn = none) (hpost : ∀ b ∈ post, armHolds b rs = .ok false) :
    caseRow ids ms (pre ++ a :: post) e ev rs = .ok (some (rs.proj ids ++ ms.map (fun m => (m, a.tv)))) := by
  rw [case_last_true_wins ids ms pre post a e ev rs ha hpost, hs]
  rfl

/-- `case` with one arm whose condition dataset holds the datapoint itself is the dataset-level `if`. -/
theorem case_one_arm_is_if (cond : SExpr) (cds : DS) (ids ms : List String) (t e : Option DS) (tv ev : Value) (rs : Row)
    (hp : partner cds rs = some rs) :
    caseRow ids ms [⟨cond, cds, t, tv⟩] e ev rs = condRow cond ids ms t e tv ev rs := by
  simp only [caseRow, caseArms, armHolds, hp, Option.getD, condRow]
  cases evalS rs .null .null cond with
  | error er => rfl
  | ok v =>
    cases v with
    | bool b => cases b <;> rfl
    | _ => rfl

/-- key uniqueness and permutation invariance (the two facts `C10.evalD_WF` / `C33.evalD_perm` ask of an operator). -/
theorem case_WF (src : DS) (arms : List CaseArm) (e : Option DS) (ev : Value) (r : DS)
    (ws : src.WF) (h : caseD src arms e ev = .ok r) : r.WF := caseD_WF src arms e ev r ws h

theorem case_perm (src src' : DS) (arms arms' : List CaseArm) (e e' : Option DS) (ev : Value)
    (wa : ∀ a ∈ arms, ArmWF a) (we : OptWF e) (hs : DSEquiv src src')
    (ha : ArmsEquiv arms arms') (he : OptEquiv e e') :
    Rel2 DSEquiv (caseD src arms e ev) (caseD src' arms' e' ev) :=
  caseD_perm src src' arms arms' e e' ev wa we hs ha he

/-- two arms over ONE condition dataset, dataset operands, scalar else: an `app3` operator (condition dataset, the two
then-datasets) that satisfies `C10.ExtWF` and `C33.ExtPerm`, so the compositional theorems cover expressions with it. -/
def case2 (c1 c2 : SExpr) (ev : Value) (c t1 t2 : DS) : R DS :=
  caseD c [⟨c1, c, some t1, .null⟩, ⟨c2, c, some t2, .null⟩] none ev

theorem case2_ExtWF (c1 c2 : SExpr) (ev : Value) (a b d : DExpr) (ha : C10.ExtWF a) (hb : C10.ExtWF b) (hd : C10.ExtWF d) :
    C10.ExtWF (.app3 (case2 c1 c2 ev) a b d) :=
  ⟨ha, hb, hd, fun x _ _ r wx _ _ h => caseD_WF x _ none ev r wx h⟩

theorem case2_ExtPerm (c1 c2 : SExpr) (ev : Value) (a b d : DExpr) (ha : C33.ExtPerm a) (hb : C33.ExtPerm b)
    (hd : C33.ExtPerm d) : C33.ExtPerm (.app3 (case2 c1 c2 ev) a b d) := by
  refine ⟨ha, hb, hd, ?_⟩
  intro x y z x' y' z' wx wy wz hx hy hz
  exact caseD_perm x x' _ _ none none ev
    (by intro a ha; simp at ha; rcases ha with rfl | rfl <;> exact ⟨wx, by assumption⟩)
    trivial hx
    (.cons ⟨rfl, hx, hy, rfl⟩ (.cons ⟨rfl, hx, hz, rfl⟩ .nil)) trivial

/-! ## per measure: the row-level operator is applied to EVERY measure of the datapoint -/

theorem mapM_pure_map {α β : Type} (f : α → β) (l : List α) :
    l.mapM (fun a => (Except.ok (f a) : R β)) = .ok (l.map f) := by
  induction l with
  | nil => rfl
  | cons a l ih => simp [List.mapM_cons, ih, bind, Except.bind, pure, Except.pure]

/-- `mapm` over several measures: the output pairs are exactly `body` applied to each measure of the datapoint. -/
theorem measVals_mem (x : DS) (body : SExpr) (out : Option String) (r : Row) (vals : List (String × Value))
    (h : measVals x body out r = .ok vals) (p : String × Value) :
    p ∈ vals ↔ ∃ m ∈ x.meas, ∃ v, evalS r (r.get m) .null body = .ok v ∧ p = (outName x.meas out m, v) := by
  unfold measVals at h
  rw [mapM_ok_mem _ _ _ h p]
  constructor
  · rintro ⟨m, hm, he⟩
    cases hv : evalS r (r.get m) .null body with
    | error er => simp [hv, Except.map] at he
    | ok v => simp [hv, Except.map] at he; exact ⟨m, hm, v, hv, he.symm⟩
  · rintro ⟨m, hm, v, hv, rfl⟩
    exact ⟨m, hm, by simp [hv, Except.map]⟩

/-- dataset ∘ dataset over several measures: `body` on the two values of each common measure. -/
theorem zipVals_mem (ms : List String) (body : SExpr) (out : Option String) (l r : Row) (vals : List (String × Value))
    (h : zipVals ms body out l r = .ok vals) (p : String × Value) :
    p ∈ vals ↔ ∃ m ∈ ms, ∃ v, evalS [] (l.get m) (r.get m) body = .ok v ∧ p = (outName ms out m, v) := by
  unfold zipVals at h
  rw [mapM_ok_mem _ _ _ h p]
  constructor
  · rintro ⟨m, hm, he⟩
    cases hv : evalS [] (l.get m) (r.get m) body with
    | error er => simp [hv, Except.map] at he
    | ok v => simp [hv, Except.map] at he; exact ⟨m, hm, v, hv, he.symm⟩
  · rintro ⟨m, hm, v, hv, rfl⟩
    exact ⟨m, hm, by simp [hv, Except.map]⟩

theorem valVals_mem (x : DS) (f : Value → R Value) (out : Option String) (r : Row) (vals : List (String × Value))
    (h : valVals x f out r = .ok vals) (p : String × Value) :
    p ∈ vals ↔ ∃ m ∈ x.meas, ∃ v, f (r.get m) = .ok v ∧ p = (outName x.meas out m, v) := by
  unfold valVals at h
  rw [mapM_ok_mem _ _ _ h p]
  constructor
  · rintro ⟨m, hm, he⟩
    cases hv : f (r.get m) with
    | error er => simp [hv, Except.map] at he
    | ok v => simp [hv, Except.map] at he; exact ⟨m, hm, v, hv, he.symm⟩
  · rintro ⟨m, hm, v, hv, rfl⟩
    exact ⟨m, hm, by simp [hv, Except.map]⟩

/-! ## nvl -/

/-- `nvl(DS, d)`: every measure keeps its value where non-null and becomes the default otherwise. -/
theorem nvl_scalar_vals (x : DS) (d : Value) (r : Row) :
    measVals x (.bin .nvl .hole (.const d)) none r =
      .ok (x.meas.map (fun m => (m, if r.get m = .null then d else r.get m))) := by
  unfold measVals
  have : ∀ m, (evalS r (r.get m) .null (.bin .nvl .hole (.const d))).map (fun v => (outName x.meas none m, v))
      = .ok (m, if r.get m = .null then d else r.get m) := by
    intro m
    simp [evalS, binop, nvl_spec, bind, Except.bind, Except.map, outName]
  simp only [this]
  exact mapM_pure_map _ _

/-- `nvl(DS_1, DS_2)` on a matched pair: the first operand's value where non-null, else the second operand's. -/
theorem nvl_dataset_vals (ms : List String) (l r : Row) :
    zipVals ms (.bin .nvl .hole .hole2) none l r =
      .ok (ms.map (fun m => (m, if l.get m = .null then r.get m else l.get m))) := by
  unfold zipVals
  have : ∀ m, (evalS [] (l.get m) (r.get m) (.bin .nvl .hole .hole2)).map (fun v => (outName ms none m, v))
      = .ok (m, if l.get m = .null then r.get m else l.get m) := by
    intro m
    simp [evalS, binop, nvl_spec, bind, Except.bind, Except.map, outName]
  simp only [this]
  exact mapM_pure_map _ _

/-- `nvl` never changes a datapoint's identifiers and never loses a datapoint of the operand (scalar default). -/
theorem nvl_scalar_row (x : DS) (d : Value) (r : Row) :
    ∃ r', mapmRow x (.bin .nvl .hole (.const d)) none r = .ok (some r') ∧ r'.key x.ids = r.key x.ids := by
  refine ⟨r.proj x.ids ++ x.meas.map (fun m => (m, if r.get m = .null then d else r.get m)), ?_, ?_⟩
  · simp [mapmRow, nvl_scalar_vals, Except.map]
  · exact key_proj_append r x.ids x.ids _ (fun i hi => hi)

theorem nvl_dataset_row_key (big small : DS) (l : Bool) (ms : List String) (rb r' : Row)
    (h : zipRow big small l ms (.bin .nvl .hole .hole2) none rb = .ok (some r')) : r'.key big.ids = rb.key big.ids :=
  zipRow_key big small l ms _ none rb r' h

/-- with a non-null default the result is never null. -/
theorem nvl_nonnull_default (v d r : Value) (hd : d ≠ .null) (h : nvl v d = .ok r) : r ≠ .null := by
  rw [nvl_spec] at h
  injection h with h
  subst h
  split <;> assumption

/-! ## between / in / not_in / isnull -/

/-- comparing two non-null values never gives "unknown". -/
theorem cmp_nonnull (a b : Value) (ha : a ≠ .null) (hb : b ≠ .null) :
    (∃ e, cmp? a b = .error e) ∨ ∃ o, cmp? a b = .ok (some o) := by
  cases a <;> cases b <;> first
    | contradiction
    | exact Or.inl ⟨_, rfl⟩
    | exact Or.inr ⟨_, rfl⟩

/-- `between(x, lo, hi)` on non-null operands is `(lo <= x) and (x <= hi)`. -/
theorem between_is_conjunction (x lo hi : Value) (hx : x ≠ .null) (hl : lo ≠ .null) (hh : hi ≠ .null) :
    between x lo hi = (do let a ← binop .le lo x; let b ← binop .le x hi; and3 a b) := by
  have e : between x lo hi = (do
      match ← cmp? lo x, ← cmp? x hi with
      | some a, some b => pure (.bool (a != .gt && b != .gt))
      | _, _ => pure .null) := by
    cases x <;> cases lo <;> cases hi <;> first | contradiction | rfl
  rw [e]
  simp only [binop, cmpOp]
  rcases cmp_nonnull lo x hl hx with ⟨e1, h1⟩ | ⟨o1, h1⟩
  · simp [h1, bind, Except.bind]
  · rcases cmp_nonnull x hi hx hh with ⟨e2, h2⟩ | ⟨o2, h2⟩
    · simp [h1, h2, bind, Except.bind, pure, Except.pure]
    · simp only [h1, h2, bind, Except.bind, pure, Except.pure]
      cases o1 <;> cases o2 <;> rfl

/-- a dataset-level `between`: a null measure gives a null result (the datapoint stays). -/
theorem between_measure_null (lo hi : SExpr) (r : Row) (vl vh : Value)
    (h1 : evalS r .null .null lo = .ok vl) (h2 : evalS r .null .null hi = .ok vh) :
    evalS r .null .null (.tern .between .hole lo hi) = .ok .null := by
  simp [evalS, h1, h2, bind, Except.bind, between, pure, Except.pure]

theorem in_null (xs : List Value) : vin .null xs = .ok .null := rfl

theorem in_found (x : Value) (xs : List Value) (hx : x ≠ .null) (h : xs.any (veq x) = true) :
    vin x xs = .ok (.bool true) := by
  cases x <;> first | contradiction | simp [vin, h]

/-- not found: FALSE, unless the set contains a null (then unknown). -/
theorem in_not_found (x : Value) (xs : List Value) (hx : x ≠ .null) (h : xs.any (veq x) = false) :
    vin x xs = .ok (if xs.contains .null then .null else .bool false) := by
  have hany : ∀ y, y ∈ xs → veq x y = false := by simpa using h
  by_cases hc : Value.null ∈ xs <;> cases x <;> first | contradiction | (simp [vin, hc]; exact hany)

/-- `not_in` is the three-valued negation of `in` (null stays null). -/
theorem not_in_is_not_in (x : Value) (xs : List Value) : vnotin x xs = (vin x xs >>= not3) := rfl

theorem not_in_null (xs : List Value) : vnotin .null xs = .ok .null := rfl

/-- `in` / `not_in` over a set without nulls never return null for a non-null operand. -/
theorem in_total (x : Value) (xs : List Value) (hx : x ≠ .null) (hn : xs.contains .null = false) :
    ∃ b, vin x xs = .ok (.bool b) ∧ vnotin x xs = .ok (.bool (!b)) := by
  cases h : xs.any (veq x) with
  | true => exact ⟨true, in_found x xs hx h, by simp [vnotin, in_found x xs hx h, bind, Except.bind, not3]⟩
  | false =>
    have := in_not_found x xs hx h
    simp only [hn] at this
    exact ⟨false, this, by simp [vnotin, this, bind, Except.bind, not3]⟩

/-- dataset-level `isnull`: TRUE exactly on the null measures, never null, no datapoint lost. -/
theorem isnull_vals (x : DS) (out : Option String) (r : Row) :
    measVals x (.un .isnull .hole) out r = .ok (x.meas.map (fun m => (outName x.meas out m, .bool (r.get m).isNull))) := by
  unfold measVals
  have : ∀ m, (evalS r (r.get m) .null (.un .isnull .hole)).map (fun v => (outName x.meas out m, v))
      = .ok (outName x.meas out m, .bool (r.get m).isNull) := by
    intro m
    simp [evalS, isnull_total, bind, Except.bind, Except.map]
  simp only [this]
  exact mapM_pure_map _ _

/-! ## strings: instr / substr / replace against `List Char` -/

theorem isPrefixL_iff (p cs : List Char) : isPrefixL p cs = true ↔ ∃ t, cs = p ++ t := by
  induction p generalizing cs with
  | nil => simp [isPrefixL]
  | cons a l ih =>
    cases cs with
    | nil => simp [isPrefixL]
    | cons c cs =>
      simp only [isPrefixL, Bool.and_eq_true, decide_eq_true_eq, ih, List.cons_append, List.cons.injEq]
      constructor
      · rintro ⟨rfl, t, rfl⟩; exact ⟨t, rfl, rfl⟩
      · rintro ⟨t, rfl, rfl⟩; exact ⟨rfl, t, rfl⟩

/-- found: the position is 1-based, the pattern occurs there, and at no earlier position. -/
theorem findFrom_found (pat : List Char) : ∀ (cs : List Char) (off n : Nat), findFrom pat cs off = n → n ≠ 0 →
    ∃ k, n = off + k + 1 ∧ k ≤ cs.length ∧ isPrefixL pat (cs.drop k) = true ∧
      ∀ j, j < k → isPrefixL pat (cs.drop j) = false := by
  intro cs
  induction cs with
  | nil =>
    intro off n h hn
    simp only [findFrom] at h
    split at h
    · rename_i he
      refine ⟨0, by omega, Nat.le_refl _, ?_, fun j hj => absurd hj (Nat.not_lt_zero _)⟩
      cases pat with
      | nil => rfl
      | cons a l => simp at he
    · exact absurd h.symm hn
  | cons c cs ih =>
    intro off n h hn
    simp only [findFrom] at h
    split at h
    · rename_i hp
      exact ⟨0, by omega, Nat.zero_le _, hp, fun j hj => absurd hj (Nat.not_lt_zero _)⟩
    · rename_i hp
      obtain ⟨k, hk, hle, hpre, hmin⟩ := ih (off + 1) n h hn
      refine ⟨k + 1, by omega, by simp; omega, by simpa using hpre, ?_⟩
      intro j hj
      cases j with
      | zero => simpa using hp
      | succ j => simpa using hmin j (by omega)

/-- 0 = not found: the pattern occurs at no position (and is not empty). -/
theorem findFrom_not_found (pat : List Char) : ∀ (cs : List Char) (off : Nat), findFrom pat cs off = 0 →
    ∀ j, j ≤ cs.length → isPrefixL pat (cs.drop j) = false := by
  intro cs
  induction cs with
  | nil =>
    intro off h j hj
    simp only [findFrom] at h
    split at h
    · omega
    · rename_i he
      have : j = 0 := by simpa using hj
      subst this
      cases pat with
      | nil => simp at he
      | cons a l => rfl
  | cons c cs ih =>
    intro off h j hj
    simp only [findFrom] at h
    split at h
    · omega
    · rename_i hp
      cases j with
      | zero => simpa using hp
      | succ j => simpa using ih (off + 1) h j (by simpa using hj)

/-- `instr` first occurrence from `start`: position ≥ start, pattern there, nowhere between start and it. -/
theorem instrFirst_spec (pat cs : List Char) (start n : Nat) (hs : 1 ≤ start) (h : instrFirst pat cs start = n) (hn : n ≠ 0) :
    start ≤ n ∧ isPrefixL pat (cs.drop (n - 1)) = true ∧
      ∀ j, start - 1 ≤ j → j < n - 1 → isPrefixL pat (cs.drop j) = false := by
  unfold instrFirst at h
  obtain ⟨k, hk, _, hpre, hmin⟩ := findFrom_found pat _ _ n h hn
  rw [List.drop_drop] at hpre
  refine ⟨by omega, ?_, ?_⟩
  · have : n - 1 = start - 1 + k := by omega
    rw [this]; exact hpre
  · intro j h1 h2
    have := hmin (j - (start - 1)) (by omega)
    rw [List.drop_drop] at this
    have e : start - 1 + (j - (start - 1)) = j := by omega
    rw [e] at this; exact this

theorem instrOcc_first (pat cs : List Char) (start : Nat) : instrOcc pat cs start 1 = instrFirst pat cs start := by
  simp [instrOcc]

/-- the next occurrence is searched one character after the START of the previous one (occurrences may overlap);
once an occurrence is missing all later ones are. -/
theorem instrOcc_next (pat cs : List Char) (start n : Nat) :
    instrOcc pat cs start (n + 2) =
      (if instrOcc pat cs start (n + 1) = 0 then 0 else instrFirst pat cs (instrOcc pat cs start (n + 1) + 1)) := by
  simp [instrOcc]

theorem instr_null_string (p : String) (st oc : Value) (a b : Nat) (h1 : posParam st = .ok a) (h2 : posParam oc = .ok b) :
    instr .null (.str p) st oc = .ok .null := by
  simp [instr, h1, h2, bind, Except.bind]

theorem instr_null_pattern (s : String) (st oc : Value) (a b : Nat) (h1 : posParam st = .ok a) (h2 : posParam oc = .ok b) :
    instr (.str s) .null st oc = .ok .null := by
  simp [instr, h1, h2, bind, Except.bind]

/-- omitted start / occurrence mean 1. -/
theorem instr_defaults (s p : Value) : instr s p .null .null = instr s p (.int 1) (.int 1) := by
  simp [instr, posParam]

/-- a start or occurrence below 1 is an error, not a value. -/
theorem instr_rejects_nonpositive (s p oc : Value) (i : Int) (h : i < 1) : instr s p (.int i) oc = .error .type := by
  have : ¬ (i ≥ 1) := by omega
  simp [instr, posParam, this, bind, Except.bind]

theorem instr_value (s p : String) (st oc : Value) (a b : Nat) (h1 : posParam st = .ok a) (h2 : posParam oc = .ok b) :
    instr (.str s) (.str p) st oc = .ok (.int (instrOcc p.toList s.toList a b)) := by
  simp [instr, h1, h2, bind, Except.bind]

/-- dataset-level `instr` plugs into the compositional theorems. -/
theorem instrD_ExtWF (pat st oc : Value) (out : Option String) (d : DExpr) (hd : C10.ExtWF d) :
    C10.ExtWF (.app1 (instrD pat st oc out) d) :=
  ⟨hd, fun x r wx h => mapValD_WF _ out x r wx h⟩

theorem instrD_ExtPerm (pat st oc : Value) (out : Option String) (d : DExpr) (hd : C33.ExtPerm d) :
    C33.ExtPerm (.app1 (instrD pat st oc out) d) :=
  ⟨hd, fun x y _ h => mapValD_perm _ out x y h⟩

theorem substr_null (a b : Value) : substr .null a b = .ok .null := rfl

/-- `substr(s, start, len)`: the characters from the 1-based position `start`, at most `len` of them. -/
theorem substr_chars (t : String) (st l : Int) :
    substr (.str t) (.int st) (.int l) = .ok (.str (String.ofList ((t.toList.drop (st - 1).toNat).take l.toNat))) := rfl

/-- omitted start = 1, omitted length = the rest of the string. -/
theorem substr_defaults (t : String) :
    substr (.str t) .null .null = .ok (.str t) := by
  simp [substr]

theorem substr_no_length (t : String) (st : Int) :
    substr (.str t) (.int st) .null = .ok (.str (String.ofList (t.toList.drop (st - 1).toNat))) := rfl

/-- the i-th character of the result is the (start-1+i)-th character of the operand, for i < len. -/
theorem substr_getElem (cs : List Char) (s l i : Nat) :
    ((cs.drop s).take l)[i]? = if i < l then cs[s + i]? else none := by
  simp [List.getElem?_take, List.getElem?_drop]

theorem substr_length_le (cs : List Char) (s l : Nat) : ((cs.drop s).take l).length ≤ l := by
  simp [List.length_take]; omega

theorem replace_null (s p r : Value) (h : s = .null ∨ p = .null ∨ r = .null) : replace s p r = .ok .null := by
  rcases h with rfl | rfl | rfl
  · rfl
  · cases s <;> rfl
  · cases s <;> cases p <;> rfl

/-- an empty pattern leaves the string unchanged. -/
theorem replace_empty_pattern (rep : List Char) (n : Nat) (cs : List Char) : replaceL [] rep n cs = cs := by
  cases n with
  | zero => rfl
  | succ n => cases cs <;> simp [replaceL]

/-- at an occurrence: the replacement, then the rest after the occurrence (left to right, non-overlapping). -/
theorem replace_at_occurrence (pat rep rest : List Char) (n : Nat) (hp : pat ≠ []) :
    replaceL pat rep (n + 1) (pat ++ rest) = rep ++ replaceL pat rep n rest := by
  cases pat with
  | nil => contradiction
  | cons a l =>
    have hpre : isPrefixL (a :: l) (a :: (l ++ rest)) = true := (isPrefixL_iff _ _).2 ⟨rest, rfl⟩
    simp only [List.cons_append, replaceL, List.isEmpty_cons, Bool.false_eq_true, if_false, hpre, if_true]
    simp

/-- where the pattern does not occur at the head, the head character is kept. -/
theorem replace_no_occurrence_here (pat rep : List Char) (n : Nat) (c : Char) (cs : List Char) (hp : pat ≠ [])
    (h : isPrefixL pat (c :: cs) = false) :
    replaceL pat rep (n + 1) (c :: cs) = c :: replaceL pat rep n cs := by
  cases pat with
  | nil => contradiction
  | cons a l => simp [replaceL, h]

/-- a string without any occurrence is unchanged. -/
theorem replace_no_occurrence (pat rep : List Char) : ∀ (n : Nat) (cs : List Char),
    (∀ j, j ≤ cs.length → isPrefixL pat (cs.drop j) = false) → replaceL pat rep n cs = cs := by
  intro n
  induction n with
  | zero => intro cs _; rfl
  | succ n ih =>
    intro cs h
    cases cs with
    | nil => rfl
    | cons c cs =>
      have hp : pat ≠ [] := by
        intro e; subst e
        have := h 0 (Nat.zero_le _)
        simp [isPrefixL] at this
      rw [replace_no_occurrence_here pat rep n c cs hp (by simpa using h 0 (Nat.zero_le _))]
      rw [ih cs (fun j hj => by simpa using h (j + 1) (by simpa using hj))]

/-- `||` of two strings is concatenation; null on either side gives null (dataset ∘ dataset through `zip`). -/
theorem concat_value (a b : String) : concat (.str a) (.str b) = .ok (.str (a ++ b)) := rfl

/-- `ltrim` removes leading blanks only: the result is a suffix of the operand and does not start with a blank. -/
theorem ltrim_suffix (cs : List Char) : ∃ n, dropWhileSpace cs = cs.drop n ∧ (cs.take n).all (· = ' ') = true := by
  induction cs with
  | nil => exact ⟨0, rfl, rfl⟩
  | cons c cs ih =>
    simp only [dropWhileSpace]
    split
    · rename_i hc
      obtain ⟨n, h1, h2⟩ := ih
      exact ⟨n + 1, by simpa using h1, by simp [hc, h2]⟩
    · exact ⟨0, rfl, rfl⟩

theorem ltrim_no_leading_blank (cs : List Char) : (dropWhileSpace cs).head? ≠ some ' ' := by
  induction cs with
  | nil => simp [dropWhileSpace]
  | cons c cs ih =>
    simp only [dropWhileSpace]
    split
    · exact ih
    · rename_i hc; simpa using hc

/-! ## non-vacuity -/

def xrow (i : Int) (m : Value) : Row := [("Id_1", Value.int i), ("Me_1", m)]
def xC1 : DS := DS.mk ["Id_1"] ["Me_1"] [xrow 1 (.bool true), xrow 2 (.bool true), xrow 3 (.bool false), xrow 4 .null, xrow 5 (.bool true)]
def xC2 : DS := DS.mk ["Id_1"] ["Me_1"] [xrow 1 (.bool true), xrow 2 (.bool false), xrow 3 (.bool true), xrow 5 (.bool true)]
def xT1 : DS := DS.mk ["Id_1"] ["Me_1"] [xrow 1 (.int 10), xrow 2 (.int 20), xrow 3 (.int 30), xrow 4 (.int 40)]
def xT2 : DS := DS.mk ["Id_1"] ["Me_1"] [xrow 1 (.int 100), xrow 2 (.int 200), xrow 3 (.int 300), xrow 4 (.int 400)]

/-- key 1: both TRUE → the LAST arm; 2: first only; 3: second only; 4: NULL and no datapoint in C2 → else;
5: both TRUE, the winning dataset has no datapoint 5 → absent although the first arm is a scalar. -/
example : caseD xC1 [⟨.col "Me_1", xC1, none, .int 1⟩, ⟨.col "Me_1", xC2, some xT2, .null⟩] none (.int 0) =
    .ok (DS.mk ["Id_1"] ["Me_1"] [xrow 1 (.int 100), xrow 2 (.int 1), xrow 3 (.int 300), xrow 4 (.int 0)]) := by decide
example : caseD xC1 [⟨.col "Me_1", xC1, some xT1, .null⟩, ⟨.col "Me_1", xC2, some xT2, .null⟩] none (.int 0) =
    .ok (DS.mk ["Id_1"] ["Me_1"] [xrow 1 (.int 100), xrow 2 (.int 20), xrow 3 (.int 300), xrow 4 (.int 0)]) := by decide
example : instrOcc "aa".toList "aaa".toList 1 2 = 2 := by decide
example : instrOcc "ab".toList "ababab".toList 2 2 = 5 := by decide
example : instrOcc "ab".toList "abcabc".toList 2 2 = 0 := by decide
example : replaceL "ab".toList "X".toList 7 "ababab".toList = "XXX".toList := by decide

end VtlModel.C01

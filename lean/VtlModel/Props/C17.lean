import VtlModel.Session.LemmasInterleave
/-!
C17 — concurrent API calls behave like sequential ones.

Calls are lists of accesses to process-wide variables (recorded from the real engine, translated on every
run).  `disciplined` is the decidable discipline: every variable is (A) never written, or (B) accessed only
inside regions of one common lock in which the call writes before it reads, or (C) written with one and the
same value by everybody and read only after an own write, or (D) never read by anybody.
-/
namespace VtlModel.C17
open VtlModel.Interleave

/-- C17 for disciplined calls: under EVERY schedule (any interleaving, any number of calls, threads and
steps, including steps of blocked or finished calls) each call has observed, so far, exactly a prefix of
what it observes when run alone — and what it would still observe finishing alone completes that list. -/
theorem disciplined_serialisable (init : Store) (calls : List (List Action)) (hd : disciplined calls = true)
    (sched : List Nat) (i : Nat) :
    ((run (start init calls) sched).th i).obs
        ++ soloObs ((run (start init calls) sched).th i).priv ((run (start init calls) sched).th i).rem
      = soloObs init (calls.getD i []) := by
  have hk := kinds_start init calls hd
  have ho : ObsInv (fun i => soloObs init (calls.getD i [])) (start init calls) := by
    intro i; simp [start]
  exact (inv_run init _ sched _ hk ho).2 i

/-- A call that has finished has observed exactly the values it observes when run alone. -/
theorem finished_call_observes_solo (init : Store) (calls : List (List Action)) (hd : disciplined calls = true)
    (sched : List Nat) (i : Nat) (hfin : ((run (start init calls) sched).th i).rem = []) :
    ((run (start init calls) sched).th i).obs = soloObs init (calls.getD i []) := by
  have := disciplined_serialisable init calls hd sched i
  rw [hfin] at this
  simpa [soloObs] using this

/-- At every moment the observations of a call are a prefix of its solo observations. -/
theorem observations_prefix_of_solo (init : Store) (calls : List (List Action)) (hd : disciplined calls = true)
    (sched : List Nat) (i : Nat) :
    ((run (start init calls) sched).th i).obs <+: soloObs init (calls.getD i []) := by
  rw [← disciplined_serialisable init calls hd sched i]
  exact List.prefix_append _ _

/-! ### the discipline is necessary: the shape found on this tree -/

/-- registry = variable 0.  A: `set_current_registry(R_A)` … `get_current_registry()`;  B: `set_current_registry(R_B)`. -/
def callA : List Action := [.write 0 1, .read 0]
def callB : List Action := [.write 0 2]

/-- "A writes the registry, B writes the registry, A reads": A observes B's registry, not its own.
This is the forced schedule the check replays on the real engine. -/
theorem undisciplined_counter :
    disciplined [callA, callB] = false ∧
    ((run (start (fun _ => 0) [callA, callB]) [0, 1, 0]).th 0).rem = [] ∧
    ((run (start (fun _ => 0) [callA, callB]) [0, 1, 0]).th 0).obs = [2] ∧
    soloObs (fun _ => 0) callA = [1] := by
  decide

/-- The same two calls with the write and the read of each call inside a region of one lock are disciplined
(non-vacuity of the hypothesis, kind B), and so is a pair of calls writing the same value (kind C). -/
theorem disciplined_examples :
    disciplined [[.acq 7, .write 0 1, .read 0, .rel 7], [.acq 7, .write 0 2, .rel 7]] = true ∧
    disciplined [[.write 3 5, .read 3], [.write 3 5], [.read 9], [.write 4 1], [.write 4 2]] = true := by
  decide

/-- The lock region must span the dependent read: releasing between write and read is not disciplined, and
the interleaving "A parses, B parses, A walks the tree" shows A the other call's parse state. -/
theorem narrowed_lock_counter :
    let a : List Action := [.acq 7, .write 0 1, .rel 7, .read 0]
    let b : List Action := [.acq 7, .write 0 2, .rel 7]
    disciplined [a, b] = false ∧
    ((run (start (fun _ => 0) [a, b]) [0, 0, 0, 1, 1, 1, 0]).th 0).obs = [2] ∧ soloObs (fun _ => 0) a = [1] := by
  decide

end VtlModel.C17

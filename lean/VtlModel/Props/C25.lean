/-
  C25 — generate_sdmx produces a TransformationScheme equivalent to the script.

  Model: `Text/Scheme.lean` (`ofScript` = the loop of `ast_to_sdmx` over `ast.children`,
  `toScript` = pysdmx `generate_vtl_script`).  Scripts are statement lists of ANY length; statement
  bodies are opaque strings (the text `ASTString` renders).  Proved here, for all scripts:

    * one transformation per assignment, same result / expression text / persistence, same order,
      ids T1..Tn (and R1.., UDO1.. for the definitions);
    * `toScript (ofScript s)` = rulesets ++ operators ++ assignments of `s`, each in script order —
      exactly: a permutation of `s` iff `s` has no viral propagation definition, and equal to `s`
      itself when `s` is already in the block order `create_ast` (`DAGAnalyzer.sort_ast`) produces;
    * a `define viral propagation` statement never survives (`viral_dropped`), with a concrete
      witness (`viral_counter`) that is replayed on the real code by harness/checks/c25.py.

  NOT proved here (tie K only, see the check): that the rendered text of an expression / definition
  re-parses to the same AST, and that `run(scheme)` = `run(script)`.
-/
import VtlModel.Text.SchemeLemmas
namespace VtlModel.C25
open VtlModel.Text.Scheme

/-- One transformation per assignment, in order, with the same result name, expression text and
persistence flag. -/
theorem assignments_preserved (s : Script) :
    (ofScript s).items.map (fun t => (t.result, t.expr, t.persistent)) = assignmentsOf s := by
  rw [ofScript_items]; exact itemsFrom_triples s 0

/-- exactly as many transformations as assignments -/
theorem one_transformation_per_assignment (s : Script) :
    (ofScript s).items.length = (s.filter Stmt.isAssign).length := by
  have h := congrArg List.length (itemsFrom_stmts s 0)
  rw [List.length_map] at h
  rw [ofScript_items]; exact h

/-- the ids are T1, T2, …, Tn in order -/
theorem ids_sequential (s : Script) :
    (ofScript s).items.map Transformation.id
      = (List.range' 1 (assignmentsOf s).length).map (fun i => "T" ++ toString i) := by
  have h := itemsFrom_idx s 0
  rw [ofScript_items, ← h, List.map_map]
  rfl

/-- rulesets get R1.., operators UDO1.., in script order -/
theorem definition_ids_sequential (s : Script) :
    (ofScript s).rulesets.map RulesetItem.id
        = (List.range' 1 (s.filter Stmt.isRuleset).length).map (fun i => "R" ++ toString i)
    ∧ (ofScript s).udos.map UdoItem.id
        = (List.range' 1 (s.filter Stmt.isUdo).length).map (fun i => "UDO" ++ toString i) := by
  constructor
  · have h := rulesFrom_idx s 0
    rw [ofScript_rulesets, ← h, List.map_map]; rfl
  · have h := udosFrom_idx s 0
    rw [ofScript_udos, ← h, List.map_map]; rfl

/-- The regenerated script, for every script: ruleset definitions, then operator definitions, then
the transformations — each block in the order of the original. -/
theorem roundtrip_shape (s : Script) :
    toScript (ofScript s) = s.filter Stmt.isRuleset ++ s.filter Stmt.isUdo ++ s.filter Stmt.isAssign :=
  toScript_ofScript s

/-- the assignments of the regenerated script are the assignments of the original, in the same order -/
theorem toScript_assignments (s : Script) :
    (toScript (ofScript s)).filter Stmt.isAssign = s.filter Stmt.isAssign
    ∧ assignmentsOf (toScript (ofScript s)) = assignmentsOf s := by
  have h : (toScript (ofScript s)).filter Stmt.isAssign = s.filter Stmt.isAssign := by
    rw [toScript_ofScript]
    simp only [List.filter_append, List.filter_filter]
    have e1 : s.filter (fun a => a.isAssign && a.isRuleset) = [] :=
      List.filter_eq_nil_iff.mpr (fun a _ => by cases a <;> simp)
    have e2 : s.filter (fun a => a.isAssign && a.isUdo) = [] :=
      List.filter_eq_nil_iff.mpr (fun a _ => by cases a <;> simp)
    have e3 : s.filter (fun a => a.isAssign && a.isAssign) = s.filter Stmt.isAssign := by
      congr 1; funext a; simp
    rw [e1, e2, e3]; simp
  exact ⟨h, by rw [assignmentsOf_eq, assignmentsOf_eq, h]⟩

/-- Without viral propagation definitions: the ruleset and operator definitions of the regenerated
script are those of the original (order within each kind preserved), and the regenerated script as
a whole is a permutation of the original (definitions hoisted before the transformations). -/
theorem definitions_preserved (s : Script) (h : NoViralDefs s) :
    (toScript (ofScript s)).filter Stmt.isRuleset = s.filter Stmt.isRuleset
    ∧ (toScript (ofScript s)).filter Stmt.isUdo = s.filter Stmt.isUdo
    ∧ (toScript (ofScript s)).Perm s := by
  refine ⟨?_, ?_, ?_⟩
  · rw [toScript_ofScript]
    simp only [List.filter_append, List.filter_filter]
    have e1 : s.filter (fun a => a.isRuleset && a.isRuleset) = s.filter Stmt.isRuleset := by
      congr 1; funext a; simp
    have e2 : s.filter (fun a => a.isRuleset && a.isUdo) = [] :=
      List.filter_eq_nil_iff.mpr (fun a _ => by cases a <;> simp)
    have e3 : s.filter (fun a => a.isRuleset && a.isAssign) = [] :=
      List.filter_eq_nil_iff.mpr (fun a _ => by cases a <;> simp)
    rw [e1, e2, e3]; simp
  · rw [toScript_ofScript]
    simp only [List.filter_append, List.filter_filter]
    have e1 : s.filter (fun a => a.isUdo && a.isRuleset) = [] :=
      List.filter_eq_nil_iff.mpr (fun a _ => by cases a <;> simp)
    have e2 : s.filter (fun a => a.isUdo && a.isUdo) = s.filter Stmt.isUdo := by
      congr 1; funext a; simp
    have e3 : s.filter (fun a => a.isUdo && a.isAssign) = [] :=
      List.filter_eq_nil_iff.mpr (fun a _ => by cases a <;> simp)
    rw [e1, e2, e3]; simp
  · have p := three_filters_perm s
    rw [filter_notViral_of_noViral h] at p
    rw [toScript_ofScript]; exact p

/-- In general (viral definitions or not) the regenerated script is a permutation of the original
minus its viral propagation definitions. -/
theorem roundtrip_perm_notViral (s : Script) :
    (toScript (ofScript s)).Perm (s.filter Stmt.notViral) := by
  rw [toScript_ofScript]; exact three_filters_perm s

/-- On the statement order `create_ast` delivers (`sort_ast`: definitions first, rulesets before
operators, then the assignments) the round trip is the identity on everything but viral definitions;
so for a script without them `generate_vtl_script (ast_to_sdmx ast)` lists exactly `ast.children`. -/
theorem roundtrip_on_sorted_ast (s : Script) (hs : Hoisted s) :
    toScript (ofScript s) = s.filter Stmt.notViral
    ∧ (NoViralDefs s → toScript (ofScript s) = s) := by
  have e : toScript (ofScript s) = s.filter Stmt.notViral := by
    rw [toScript_ofScript]; exact three_filters_of_hoisted s hs
  exact ⟨e, fun h => by rw [e, filter_notViral_of_noViral h]⟩

/-- whatever permutation of the source statements `sort_ast` performs (block hoisting and the
topological order of C12), the regenerated script is a permutation of the SOURCE statement list -/
theorem pipeline_perm (src ast : Script) (hsort : ast.Perm src) (h : NoViralDefs src) :
    (toScript (ofScript ast)).Perm src := by
  have h' : NoViralDefs ast := fun st hst => h st (hsort.subset hst)
  exact (definitions_preserved ast h').2.2.trans hsort

/-- the block hoisting of `sort_ast` is a permutation, and its result is in `Hoisted` order -/
theorem hoist_perm_hoisted (s : Script) : (hoist s).Perm s ∧ Hoisted (hoist s) := by
  constructor
  · induction s with
    | nil => simp [hoist]
    | cons st r ih =>
      unfold hoist at ih ⊢
      cases st with
      | assign p n e =>
        simp only [List.filter_cons, isViral_assign, isUdo_assign, isAssign_assign,
          Bool.false_eq_true, if_false, if_true]
        exact List.perm_middle.trans (List.Perm.cons _ ih)
      | ruleset k n sc d =>
        cases k with
        | dp =>
          simp only [List.filter_cons, isViral_ruleset, isUdo_ruleset, isAssign_ruleset,
            Bool.false_eq_true, if_false, if_true, List.append_assoc, List.cons_append] at ih ⊢
          refine (List.perm_middle.append_left _).trans ?_
          exact List.perm_middle.trans (List.Perm.cons _ ih)
        | hr =>
          simp only [List.filter_cons, isViral_ruleset, isUdo_ruleset, isAssign_ruleset,
            Bool.false_eq_true, if_false, if_true, List.append_assoc, List.cons_append] at ih ⊢
          exact List.perm_middle.trans (List.Perm.cons _ ih)
      | udo n d =>
        simp only [List.filter_cons, isViral_udo, isUdo_udo, isAssign_udo,
          Bool.false_eq_true, if_false, if_true, List.append_assoc, List.cons_append] at ih ⊢
        refine (((List.perm_middle.append_left _).trans List.perm_middle).append_left _).trans ?_
        exact List.perm_middle.trans (List.Perm.cons _ ih)
      | viral n d =>
        simp only [List.filter_cons, isViral_viral, isUdo_viral, isAssign_viral,
          Bool.false_eq_true, if_false, if_true, List.append_assoc, List.cons_append] at ih ⊢
        exact List.Perm.cons _ ih
  · unfold Hoisted hoist
    have ph : ∀ (p : Stmt → Bool) (k : Nat), (∀ a, p a = true → a.phase = k) →
        ∀ a ∈ s.filter p, a.phase = k := fun p k hp a ha => hp a (List.mem_filter.mp ha).2
    have hv := ph Stmt.isViral 0 (fun a h => by cases a <;> simp [Stmt.phase] at *)
    have hh := ph (fun st => match st with | .ruleset .hr .. => true | _ => false) 1
      (fun a h => by cases a <;> simp [Stmt.phase] at *)
    have hd := ph (fun st => match st with | .ruleset .dp .. => true | _ => false) 1
      (fun a h => by cases a <;> simp [Stmt.phase] at *)
    have hu := ph Stmt.isUdo 2 (fun a h => by cases a <;> simp [Stmt.phase] at *)
    have ha := ph Stmt.isAssign 3 (fun a h => by cases a <;> simp [Stmt.phase] at *)
    simp only [List.pairwise_append, List.mem_append]
    refine ⟨⟨⟨⟨pairwise_phase_of_const hv, pairwise_phase_of_const hh, ?_⟩,
      pairwise_phase_of_const hd, ?_⟩, pairwise_phase_of_const hu, ?_⟩,
      pairwise_phase_of_const ha, ?_⟩
    · intro a ha' b hb'; rw [hv a ha', hh b hb']; decide
    · intro a ha' b hb'
      rw [hd b hb']
      rcases ha' with h | h
      · rw [hv a h]; decide
      · rw [hh a h]; decide
    · intro a ha' b hb'
      rw [hu b hb']
      rcases ha' with (h | h) | h
      · rw [hv a h]; decide
      · rw [hh a h]; decide
      · rw [hd a h]; decide
    · intro a ha' b hb'
      rw [ha b hb']
      rcases ha' with ((h | h) | h) | h
      · rw [hv a h]; decide
      · rw [hh a h]; decide
      · rw [hd a h]; decide
      · rw [hu a h]; decide

/-- A `define viral propagation` statement is never part of the regenerated script: `ast_to_sdmx`
has no branch for `ViralPropagationDef`. -/
theorem viral_dropped (s : Script) (n d : String) : Stmt.viral n d ∉ toScript (ofScript s) := by
  rw [toScript_ofScript]
  intro h
  simp only [List.mem_append, List.mem_filter] at h
  rcases h with (h | h) | h <;> simp at h

/-- … hence the round trip is a permutation of the script IF AND ONLY IF the script has no viral
propagation definition: `definitions_preserved` cannot be strengthened. -/
theorem perm_iff_noViralDefs (s : Script) : (toScript (ofScript s)).Perm s ↔ NoViralDefs s := by
  constructor
  · intro hp st hst
    cases st with
    | viral n d => exact absurd (hp.symm.subset hst) (viral_dropped s n d)
    | _ => rfl
  · exact fun h => (definitions_preserved s h).2.2

/-- the witness replayed on the real code by the check (tests/ViralAttributes syntax) -/
def viralWitness : Script :=
  [ .viral "vp1" "define viral propagation vp1 (variable At_1) is when \"A\" and \"B\" then \"C\";else \"D\" end viral propagation;",
    .assign false "DS_r" "DS_1 + DS_2" ]

/-- Concrete counter-example to the unrestricted property: the definition is lost, one statement of
two survives, and the result is not a permutation of the script. -/
theorem viral_counter :
    toScript (ofScript viralWitness) = [.assign false "DS_r" "DS_1 + DS_2"]
    ∧ (∃ st ∈ viralWitness, st ∉ toScript (ofScript viralWitness))
    ∧ ¬ (toScript (ofScript viralWitness)).Perm viralWitness := by
  refine ⟨by decide, ⟨_, List.mem_cons_self .., by decide⟩, ?_⟩
  intro hp
  have := hp.length_eq
  revert this
  decide

/-! ### non-vacuity -/

/-- a mixed script: every kind of statement, interleaved, persistent and not -/
def sample : Script :=
  [ .assign false "A" "DS_1 + 1",
    .udo "f" "define operator f(x dataset) returns dataset is x + 1 end operator;",
    .assign true "B" "f(A)",
    .ruleset .dp "r1" .variable "define datapoint ruleset r1 (variable Me_1) is Me_1 > 0 end datapoint ruleset;",
    .ruleset .hr "h1" .valuedomain "define hierarchical ruleset h1 (valuedomain rule C) is A = B + C end hierarchical ruleset;",
    .assign false "C" "check_datapoint(B, r1)" ]

example : (ofScript sample).items.map Transformation.id = ["T1", "T2", "T3"] := by decide
example : (ofScript sample).items.map (fun t => (t.result, t.persistent))
    = [("A", false), ("B", true), ("C", false)] := by decide
example : (ofScript sample).rulesets.map (fun r => (r.id, r.kind, r.scope))
    = [("R1", .dp, .variable), ("R2", .hr, .valuedomain)] := by decide
example : (ofScript sample).udos.map UdoItem.id = ["UDO1"] := by decide
example : NoViralDefs sample := by decide
example : ¬ Hoisted sample := by rw [← isHoisted_iff]; decide
example : toScript (ofScript sample) ≠ sample := by decide
example : toScript (ofScript (hoist sample)) = hoist sample := by decide
example : Hoisted (hoist sample) ∧ NoViralDefs (hoist sample) :=
  ⟨(hoist_perm_hoisted sample).2, by decide⟩
example : ¬ NoViralDefs viralWitness := by decide
example : Hoisted viralWitness := by rw [← isHoisted_iff]; decide

end VtlModel.C25

/-
  C11 — Semantic type rules follow the documented implicit-cast table.

  Code side (regenerated from /repo on every run by harness/translate/types_tables.py):
    Gen.Promotion     IMPLICIT_TYPE_PROMOTION_MAPPING, issubclass table
    Gen.PromotionFns  binary_implicit_promotion, check_binary_implicit_promotion, unary_implicit_promotion,
                      check_unary_implicit_promotion  (statement-by-statement transcription of the Python source)
    Gen.Operators     every subclass of Operators.Operator with (type_to_check, return_type), and every direct call
                      of a promotion function inside an operator method
  Documented side:    Gen.DocTables (docs/data_types.rst) and Types.Spec (how the tables are read; VTL signatures).

  All theorems are closed by kernel evaluation over the finite generated tables (`decide +kernel`); they quantify
  over ALL 9 types (Null included) and ALL values of type_to_check / return_type (9 types or None), hence over every
  operator class and call site, present or future, that uses these four functions.

  Statements that are false on the pinned tree are given as `_partial` (what does hold) plus an `_or_counter`
  dichotomy (either the full statement holds, or the named witness refutes it) — the dichotomy stays provable when
  the defect is repaired, so the check passes on a fixed tree; which side holds NOW is computed by the driver
  (`lean/Drivers/Types.lean`, request `witness …`) and replayed on the real code by harness/checks/c11.py.
-/
import VtlModel.Gen.PromotionFns
import VtlModel.Types.Spec

namespace VtlModel.C11
open VtlModel VtlModel.Gen.Promotion VtlModel.Gen.PromotionFns VtlModel.Gen.Operators VtlModel.Spec

/-! ## 1. The check agrees with the promotion -/

/-- For every `type_to_check`, `return_type` (any of the 9 types or None) and every pair of operand types,
    `check_binary_implicit_promotion` returns True exactly when `binary_implicit_promotion` does not raise. -/
theorem check_agrees_binary :
    ∀ ttc rt l r, checkBinary l r ttc rt = .ok (binaryPromotion l r ttc rt).isOk := by decide +kernel

theorem check_agrees_unary :
    ∀ ttc rt x, checkUnary x ttc rt = .ok (unaryPromotion x ttc rt).isOk := by decide +kernel

/-- … in particular for the attributes of every operator class in the registry. -/
theorem check_agrees :
    ∀ c ∈ classes,
      (∀ l r, checkBinary l r c.ttc c.rt = .ok (binaryPromotion l r c.ttc c.rt).isOk) ∧
      (∀ x, checkUnary x c.ttc c.rt = .ok (unaryPromotion x c.ttc c.rt).isOk) :=
  fun c _ => ⟨fun l r => check_agrees_binary c.ttc c.rt l r, fun x => check_agrees_unary c.ttc c.rt x⟩

/-! ## 2. Operand order -/

/-- Operand order never matters as soon as the operator declares an operand type or a result type. -/
theorem promote_comm_partial :
    ∀ ttc rt, (ttc.isSome || rt.isSome) = true →
      ∀ l r, binaryPromotion l r ttc rt = binaryPromotion r l ttc rt := by decide +kernel

/-- With neither attribute, operand order matters at most for the pair Integer / Number. -/
theorem promote_comm_untyped_partial :
    ∀ l r, intNumPair l r = false → binaryPromotion l r none none = binaryPromotion r l none none := by
  decide +kernel

/-- The commutative operator classes of the registry that declare an operand or result type
    (`+ * = <> and or xor` of Numeric / Comparison / Boolean) are order-independent. -/
theorem promote_comm_classes_partial :
    ∀ c ∈ commClasses, (c.ttc.isSome || c.rt.isSome) = true →
      ∀ l r, binaryPromotion l r c.ttc c.rt = binaryPromotion r l c.ttc c.rt :=
  fun c _ h => promote_comm_partial c.ttc c.rt h

/-- Full statement `promote_comm` (every commutative class and every commutative set-operator call site is
    order-independent) — or its refutation by the witness (Integer, Number) at a commutative site that passes
    neither attribute.  On the pinned tree the right-hand side holds (driver request `witness comm`). -/
theorem promote_comm_or_counter :
    ((∀ c ∈ commClasses, ∀ l r, binaryPromotion l r c.ttc c.rt = binaryPromotion r l c.ttc c.rt) ∧
     (∀ s ∈ commSites, ∀ ttc ∈ s.ttc, ∀ rt ∈ s.rt, ∀ l r, binaryPromotion l r ttc rt = binaryPromotion r l ttc rt))
    ∨ ((∃ s ∈ commSites, s.ttc = some none ∧ s.rt = some none) ∧
       binaryPromotion .integer .number none none ≠ binaryPromotion .number .integer none none) := by
  decide +kernel

/-- The commutative set operators are present as call sites (the dichotomy above is not about an empty list). -/
theorem comm_sites_nonempty :
    commutativeSetClasses.all (fun n => commSites.any (fun s => s.cls == some n)) = true ∧
    commOpIxs.length = commutativeOps.length ∧
    commOpIxs.all (fun o => commClasses.any (fun c => c.opIx == o)) = true := by decide +kernel

/-! ## 3. Acceptance and result type against the documented table -/

/-- The code's implicit table is the documented one (Null row = "Null is compatible with every type"). -/
theorem implicit_table_eq_doc : ∀ a b, TySet.mem b (implicit a) = docImplicit a b := by decide +kernel

/-- Semantic analysis accepts a pair exactly when the documented table gives the operands a common type admitted
    by the operator. -/
theorem accept_iff_doc :
    ∀ ttc rt l r, (binaryPromotion l r ttc rt).isOk = docAcceptsBinary ttc l r := by decide +kernel

theorem accept_iff_doc_unary :
    ∀ ttc rt x, (unaryPromotion x ttc rt).isOk = docAcceptsUnary ttc x := by decide +kernel

/-- When the operator declares a result type, that is the reported type. -/
theorem result_declared :
    (∀ ttc R l r, (binaryPromotion l r ttc (some R)).toOption.all (· == R) = true) ∧
    (∀ ttc R x, (unaryPromotion x ttc (some R)).toOption.all (· == R) = true) := by decide +kernel

/-- Unary operators without declared result type report a documented result type. -/
theorem result_doc_unary :
    ∀ ttc x, (unaryPromotion x ttc none).toOption.all (docResultOkUnary ttc x) = true := by decide +kernel

/-- Binary operators without declared result type report a documented result type — whenever the operator has an
    operand type, and for every pair but Integer / Number when it has none. -/
theorem result_doc_partial :
    ∀ ttc l r, (ttc.isSome || !intNumPair l r) = true →
      (binaryPromotion l r ttc none).toOption.all (docResultOk ttc l r) = true := by decide +kernel

/-- Full `result_doc` or its refutation: (Integer, Number) with neither attribute is typed Integer, a strict
    documented subtype of the right operand's type. -/
theorem result_doc_or_counter :
    (∀ ttc l r, (binaryPromotion l r ttc none).toOption.all (docResultOk ttc l r) = true)
    ∨ (binaryPromotion .integer .number none none = .ok .integer ∧
       docResultOk none .integer .number .integer = false) := by decide +kernel

/-- The operator classes carry the operand / result types of the VTL reference manual (`Spec.opSpec`). -/
theorem classes_match_signatures : opSpec.all sigHolds = true := by decide +kernel

/-! ## Non-vacuity -/
example : binaryPromotion .integer .number (some .number) none = .ok .number := by decide
example : binaryPromotion .date .timePeriod none none = .ok .time := by decide
example : binaryPromotion .string .integer (some .number) none = .error [1, 1, 1, 2] := by decide
example : unaryPromotion .boolean (some .string) none = .ok .string := by decide
example : docAcceptsBinary (some .number) .integer .null = true := by decide
example : docAcceptsBinary none .date .duration = false := by decide
example : commClasses.length ≥ 7 := by decide

end VtlModel.C11

/-
  C08 — time operators follow the real calendar.

  Model: VtlModel.Time.Calendar / Period (proleptic Gregorian calendar over all of `Int`, ISO weeks, the
  period ↔ ordinal bijection, `specShift`, `timeAgg`) and the transcription `implShift` of the SQL macro
  `vtl_tp_shift`, instantiated with the literal table `vtl_period_limit` that the translator regenerates from
  /repo on every run (Gen/TimeMacros.lean → Time/Impl.lean).  All theorems are for every year (no bound).
-/
import VtlModel.Time.Impl
import VtlModel.Time.LemmasShift
import VtlModel.Time.LemmasAgg

namespace VtlModel.C08
open VtlModel.Time VtlModel.Gen

/-- Every day number is the day number of a valid civil date: `toDay ∘ ofDay = id`. -/
theorem toDay_ofDay (n : Int) : validDate (ofDay n) = true ∧ toDay (ofDay n) = n :=
  ⟨(ofDay_spec n).1, (ofDay_spec n).2.1⟩

/-- `ofDay ∘ toDay = id` on valid civil dates (so the two are inverse bijections). -/
theorem ofDay_toDay (d : Date) (h : validDate d = true) : ofDay (toDay d) = d := ofDay_toDay' d h

/-- A year has 53 ISO weeks exactly when 1 January is a Thursday, or a Wednesday in a leap year. -/
theorem weeks53_iff (y : Int) :
    isoWeeksInYear y = 53 ↔ (weekday (jan1 y) = 3 ∨ (isLeap y = true ∧ weekday (jan1 y) = 2)) := weeks53_iff' y

/-- Every ISO year has 52 or 53 weeks. -/
theorem weeks_52_or_53 (y : Int) : isoWeeksInYear y = 52 ∨ isoWeeksInYear y = 53 := (isoYearStart_succ y).2

/-- Week 53 exists exactly in the 53-week years. -/
theorem valid_W53_iff (y : Int) : valid ⟨y, .W, 53⟩ = true ↔ isoWeeksInYear y = 53 := by
  rw [valid_iff]; simp only [periodsInYear]
  have := weeks_52_or_53 y; omega

/-- Day 366 exists exactly in leap years. -/
theorem valid_D366_iff (y : Int) : valid ⟨y, .D, 366⟩ = true ↔ isLeap y = true := by
  rw [valid_iff]; simp only [periodsInYear]
  rcases daysInYear_cases y with ⟨h, hl⟩ | ⟨h, hl⟩ <;> rw [h, hl] <;> simp

/-- `unord` is a left inverse of `ord` on the periods of the calendar. -/
theorem unord_ord (p : Period) (h : valid p = true) : unord p.ind (ord p) = p := Time.unord_ord p h

/-- `ord` is a left inverse of `unord`, and `unord` only produces periods of the calendar: together with
    `unord_ord`, `ord` is a bijection between the valid periods of an indicator and `Int`. -/
theorem ord_unord (i : Ind) (k : Int) : ord (unord i k) = k ∧ valid (unord i k) = true ∧ (unord i k).ind = i :=
  ⟨Time.ord_unord i k, valid_unord i k, unord_ind i k⟩

/-- Shifting by `n` and then by `−n` returns the original period. -/
theorem shift_inv (p : Period) (n : Int) (h : valid p = true) : specShift (specShift p n) (-n) = p :=
  specShift_inv p n h

/-- Shifting never makes two distinct periods collide. -/
theorem shift_injective (p q : Period) (n : Int) (hp : valid p = true) (hq : valid q = true)
    (h : specShift p n = specShift q n) : p = q := specShift_injective p q n hp hq h

/-- The calendar shift stays inside the calendar and keeps the indicator. -/
theorem shift_valid (p : Period) (n : Int) : valid (specShift p n) = true ∧ (specShift p n).ind = p.ind :=
  ⟨specShift_valid p n, specShift_ind p n⟩

/-- `time_agg`: the result is a period of the calendar with the target indicator, it contains the last day of
    the operand, and aggregating to the operand's own indicator is the identity.  (Containment of the operand's
    *first* day is not stated: it is false for weeks, which straddle months and years.) -/
theorem timeAgg_contains (p q : Period) (t : Ind) (h : timeAgg p t = some q) (hp : valid p = true) :
    valid q = true ∧ q.ind = t ∧ startDay q ≤ endDay p ∧ endDay p ≤ endDay q ∧ (p.ind = t → q = p) := by
  unfold timeAgg at h
  split at h
  · cases h
  · split at h
    · rename_i he
      cases h
      exact ⟨hp, he, startDay_le_endDay p hp, Int.le_refl _, fun _ => rfl⟩
    · rename_i he
      cases h
      have c := periodOfDay_contains t (endDay p)
      exact ⟨c.1, c.2.1, c.2.2.1, c.2.2.2, fun e => absurd e he⟩

/-- `time_agg` to a finer indicator is the error branch (VTL 2-1-19-1), never a value. -/
theorem timeAgg_error_iff (p : Period) (t : Ind) : timeAgg p t = none ↔ rank p.ind > rank t := by
  unfold timeAgg
  split
  · simp [*]
  · split <;> simp [*]

/-- The model's coarseness order is the SQL table `vtl_period_rank`. -/
theorem rank_eq_sql (i : Ind) : rank i = implRank i := by cases i <;> rfl

/-- What `vtl_tp_shift` computes equals the calendar shift: always for A, S, Q, M; for W and D as long as
    every (ISO) year from the operand's year to the result's year has 52 weeks / 365 days.
    PARTIAL: for weeks/days whose path touches a 53-week / leap year the statement is false on this tree
    (see `implShift_counter`). -/
theorem implShift_eq_spec_partial (p : Period) (n : Int)
    (hpath : let r := implShiftCur p n
      (p.ind = .W → ∀ z, (p.year ≤ z ∧ z ≤ r.year) ∨ (r.year ≤ z ∧ z ≤ p.year) → isoWeeksInYear z = 52) ∧
      (p.ind = .D → ∀ z, (p.year ≤ z ∧ z ≤ r.year) ∨ (r.year ≤ z ∧ z ≤ p.year) → daysInYear z = 365)) :
    implShiftCur p n = specShift p n := by
  unfold implShiftCur at hpath ⊢
  by_cases hc : TimeMacros.shiftIsCalendar = true
  · simp only [hc, if_true]
  · simp only [hc] at hpath ⊢
    cases p with
    | mk y i m =>
      cases i
      · exact implShift_A periodLimit y m n
      · exact implShift_S periodLimit rfl y m n
      · exact implShift_Q periodLimit rfl y m n
      · exact implShift_M periodLimit rfl y m n
      · exact implShift_W_partial periodLimit rfl y m n (hpath.1 rfl)
      · exact implShift_D_partial periodLimit rfl y m n (hpath.2 rfl)

/-- With the fixed limits 52 / 365 the formula of `vtl_tp_shift` leaves the calendar: 2020-W53 + 1 gives
    2021-W02 — the same as 2021-W01 + 1 (two distinct inputs collide) — and shifting 2020-W53 by 0 is not the
    identity; 2020-D366 + 1 gives 2021-D002 and 2021-D001 − 1 gives 2020-D365.  The calendar says 2021-W01,
    2021-D001 and 2020-D366. -/
theorem implShift_counter (lim : Ind → Int) (hW : lim .W = 52) (hD : lim .D = 365) :
    implShift lim ⟨2020, .W, 53⟩ 1 = ⟨2021, .W, 2⟩ ∧ implShift lim ⟨2021, .W, 1⟩ 1 = ⟨2021, .W, 2⟩ ∧
    specShift ⟨2020, .W, 53⟩ 1 = ⟨2021, .W, 1⟩ ∧ valid ⟨2020, .W, 53⟩ = true ∧
    implShift lim ⟨2020, .W, 53⟩ 0 = ⟨2021, .W, 1⟩ ∧
    implShift lim ⟨2020, .D, 366⟩ 1 = ⟨2021, .D, 2⟩ ∧ specShift ⟨2020, .D, 366⟩ 1 = ⟨2021, .D, 1⟩ ∧
    implShift lim ⟨2021, .D, 1⟩ (-1) = ⟨2020, .D, 365⟩ ∧ specShift ⟨2021, .D, 1⟩ (-1) = ⟨2020, .D, 366⟩ := by
  simp only [implShift, hW, hD]
  decide

/-- The step of fill_time_series' recursive CTE (`_TP_NEXT_PERIOD`) with the fixed limits skips week 53 and
    day 366: after 2020-W52 it yields 2021-W01, the calendar says 2020-W53. -/
theorem implNext_counter (lim : Ind → Int) (hW : lim .W = 52) (hD : lim .D = 365) :
    implNext lim ⟨2020, .W, 52⟩ = ⟨2021, .W, 1⟩ ∧ specShift ⟨2020, .W, 52⟩ 1 = ⟨2020, .W, 53⟩ ∧
    implNext lim ⟨2020, .D, 365⟩ = ⟨2021, .D, 1⟩ ∧ specShift ⟨2020, .D, 365⟩ 1 = ⟨2020, .D, 366⟩ := by
  simp only [implNext, hW, hD]
  decide

/-! Non-vacuity: the hypotheses used above are inhabited. -/
example : valid ⟨2020, .W, 53⟩ = true ∧ valid ⟨2021, .W, 53⟩ = false ∧ valid ⟨2020, .D, 366⟩ = true := by decide
example : isoWeeksInYear 2026 = 53 ∧ isoWeeksInYear 2024 = 52 ∧ isLeap 1900 = false ∧ isLeap 2000 = true := by decide
example : timeAgg ⟨2020, .D, 366⟩ .W = some ⟨2020, .W, 53⟩ := by decide
example : implShiftCur ⟨2019, .W, 50⟩ 10 = specShift ⟨2019, .W, 50⟩ 10 := by decide

end VtlModel.C08

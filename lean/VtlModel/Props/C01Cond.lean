import VtlModel.Sem.Cond
import VtlModel.Sem.Lemmas
/-! # C01 (continued) — the conditional operator at dataset level

`if cond then A else B` over datasets: theorems about `VtlModel.Sem.condD` for every condition dataset,
every pair of operands (dataset or scalar) and every condition expression. -/
namespace VtlModel.C01
open VtlModel.Sem

/-- a datapoint is in the result iff it is produced from a datapoint of the condition dataset. -/
theorem cond_rows (cond : SExpr) (tv ev : Value) (c : DS) (t e : Option DS) (res : DS)
    (h : condD cond tv ev c t e = .ok res) (r' : Row) :
    r' ∈ res.rows ↔ ∃ rc ∈ c.rows, condRow cond c.ids (condMeas t e) t e tv ev rc = .ok (some r') := by
  unfold condD at h
  split at h
  · cases hm : mapRows (condRow cond c.ids (condMeas t e) t e tv ev) c.rows with
    | error er => simp [hm, Except.map] at h
    | ok rows =>
      simp [hm, Except.map] at h
      subst h
      exact mapRows_mem _ _ _ hm r'
  · cases h

/-- TRUE selects the `then` operand. -/
theorem cond_true_takes_then (cond : SExpr) (ids ms : List String) (t e : Option DS) (tv ev : Value) (rc : Row)
    (h : evalS rc .null .null cond = .ok (.bool true)) :
    condRow cond ids ms t e tv ev rc = .ok (branchRow ids ms t tv rc) := by
  simp [condRow, h]

/-- FALSE selects the `else` operand. -/
theorem cond_false_takes_else (cond : SExpr) (ids ms : List String) (t e : Option DS) (tv ev : Value) (rc : Row)
    (h : evalS rc .null .null cond = .ok (.bool false)) :
    condRow cond ids ms t e tv ev rc = .ok (branchRow ids ms e ev rc) := by
  simp [condRow, h]

/-- a NULL condition selects the `else` operand too: the datapoint is NOT dropped. -/
theorem cond_null_takes_else (cond : SExpr) (ids ms : List String) (t e : Option DS) (tv ev : Value) (rc : Row)
    (h : evalS rc .null .null cond = .ok .null) :
    condRow cond ids ms t e tv ev rc = .ok (branchRow ids ms e ev rc) := by
  simp [condRow, h]

/-- a scalar operand always contributes a datapoint (the constant for every measure). -/
theorem branch_scalar_present (ids ms : List String) (sv : Value) (rc : Row) :
    branchRow ids ms none sv rc = some (rc.proj ids ++ ms.map (fun m => (m, sv))) := rfl

/-- a dataset operand contributes its datapoint with the same identifiers, and nothing when it has none. -/
theorem branch_dataset (ids ms : List String) (d : DS) (sv : Value) (rc : Row) :
    branchRow ids ms (some d) sv rc = (partner d rc).map (fun rb => rc.proj ids ++ rb.proj ms) := rfl

theorem branch_dataset_unmatched (ids ms : List String) (d : DS) (sv : Value) (rc : Row) (h : partner d rc = none) :
    branchRow ids ms (some d) sv rc = none := by simp [branchRow, h]

/-- the structure of the result: identifiers of the condition dataset, measures of the dataset operand. -/
theorem cond_struct (cond : SExpr) (tv ev : Value) (c : DS) (t e : Option DS) (res : DS)
    (h : condD cond tv ev c t e = .ok res) : res.ids = c.ids ∧ res.meas = condMeas t e := by
  unfold condD at h
  split at h
  · cases hm : mapRows (condRow cond c.ids (condMeas t e) t e tv ev) c.rows with
    | error er => simp [hm, Except.map] at h
    | ok rows => simp [hm, Except.map] at h; subst h; exact ⟨rfl, rfl⟩
  · cases h

/-! non-vacuity: TRUE → then, FALSE/NULL → else, no partner → absent -/
def crow (i : Int) (m : Value) : Row := [("Id_1", Value.int i), ("Me_1", m)]
def dC : DS := DS.mk ["Id_1"] ["Me_1"] [crow 1 (Value.bool true), crow 2 (Value.bool false), crow 3 Value.null, crow 4 (Value.bool true)]
def dT : DS := DS.mk ["Id_1"] ["Me_1"] [crow 1 (Value.int 10), crow 2 (Value.int 20), crow 3 (Value.int 30)]
def dE : DS := DS.mk ["Id_1"] ["Me_1"] [crow 2 (Value.int 21), crow 3 (Value.int 31), crow 4 (Value.int 41)]
example : condD (.col "Me_1") .null .null dC (some dT) (some dE) =
    .ok (DS.mk ["Id_1"] ["Me_1"] [crow 1 (Value.int 10), crow 2 (Value.int 21), crow 3 (Value.int 31)]) := by decide

end VtlModel.C01

import VtlModel.Sem.ValidDpLemmas
import VtlModel.Sem.HierHWfLemmas
import VtlModel.Props.C33
/-! # C07 — validation and hierarchy operators report exactly the failing datapoints (model part)

Over the models `VtlModel.Sem.Valid` (`check`, `check_datapoint`) and `VtlModel.Sem.Hier`
(`check_hierarchy`, `hierarchy`), for all rulesets, modes and inputs (no bound on sizes):

* part 1 `check`: `invalid_eq_filter_all`, `err_iff_false`, `imbalance_passthrough`, `check_all_rows`,
  `check_WF`, `check_perm` (+ the counter-example `check_inner_join_drops_counter` for the engine's join);
* part 2 `check_datapoint`: `when_false_holds`, `dp_invalid_iff`, `dp_all_rows`, `dp_ruleid`,
  `dp_err_iff_false`, `dp_WF`, `dp_perm`;
* part 3 hierarchical rulesets: `hier_value_sum`, `hier_value`, `imbalance_eq_left_minus_right`,
  `ch_report_iff`, `ch_err_iff_false`, `hier_order_independent_group`, `hier_order_independent`
  (+ `isValidOrder_spec`, `invalid_order_changes_result_counter`), `ch_WF`, `hier_WF`, `ch_perm`,
  `hier_perm`, `validation_extends`.

The tie to the implementation is the correspondence of `harness/checks/c07.py`. -/
namespace VtlModel.C07
open VtlModel.Sem VtlModel.C10 VtlModel.C33 List

/-! ## Part 1 — `check` -/

/-- **invalid = the FALSE rows of all**: for every operand, imbalance operand and literals (errors
included), the `invalid` result is the `all` result restricted to the datapoints whose `bool_var` is
FALSE (`bool_var` stays in the structure: adopted from the engine). -/
theorem invalid_eq_filter_all (spec : CheckSpec) (x : DS) (imb : Option DS) :
    check { spec with invalid := true } x imb =
      (check { spec with invalid := false } x imb).map
        (fun d => { d with rows := d.rows.filter (fun r => Sem.isFalse (r.get "bool_var")) }) := by
  unfold check
  cases mono x with
  | error e => simp [bind, Except.bind, Except.map]
  | ok bm =>
    simp only [bind, Except.bind]
    by_cases hc : (checkMeas.any x.ids.contains) = true
    · simp [hc, Except.map]
    · simp only [hc, if_false]
      have hc' : checkMeas.any x.ids.contains = false := by simpa using hc
      cases imbArg x imb with
      | error e => simp [Except.map]
      | ok im =>
        simp only []
        rw [mapRows_keepIf (checkRow { spec with invalid := false } x.ids bm im) (checkRow { spec with invalid := true } x.ids bm im)
              (fun r' => Sem.isFalse (r'.get "bool_var"))
              (fun r => checkRow_invalid spec x.ids bm im (checkMeas_not_mem x hc').1 r) x.rows]
        cases mapRows (checkRow { spec with invalid := false } x.ids bm im) x.rows with
        | error e => simp [Except.map]
        | ok rows => simp [Except.map, pure, Except.pure]

/-- **errorcode / errorlevel are set exactly where the rule is false** (null where it is TRUE or NULL),
in both output modes. -/
theorem err_iff_false (spec : CheckSpec) (x : DS) (imb : Option DS) (res : DS) (h : check spec x imb = .ok res) :
    ∀ r' ∈ res.rows,
      r'.get "errorcode" = (if r'.get "bool_var" = .bool false then spec.ec else .null) ∧
      r'.get "errorlevel" = (if r'.get "bool_var" = .bool false then spec.el else .null) := by
  obtain ⟨bm, im, rows, _, hg, _, hr, rfl⟩ := check_ok h
  obtain ⟨hb, _, hec, hel⟩ := checkMeas_not_mem x hg
  intro r' hr'
  obtain ⟨r, _, hf⟩ := (mapRows_mem _ _ _ hr r').1 hr'
  obtain ⟨v, rfl, _⟩ := checkRowAll_shape _ _ _ x.ids bm im r r' (checkRow_some spec x.ids bm im r r' hf).1
  rw [get_tail_ec x.ids r _ v _ _ hec, get_tail_el x.ids r _ v _ _ hel, get_tail_bool x.ids r _ v _ hb]
  cases hv : r.get bm <;> simp [Sem.isFalse]

/-- **bool_var and imbalance are those of the operands**: every result datapoint is a datapoint of `op`
with the same identifiers, its Boolean, and the imbalance operand's measure on the same identifiers
(null without imbalance operand, or — specification — when that operand has no such datapoint). -/
theorem imbalance_passthrough (spec : CheckSpec) (x : DS) (imb : Option DS) (res : DS) (h : check spec x imb = .ok res) :
    ∃ bm, mono x = .ok bm ∧ ∀ r' ∈ res.rows, ∃ r ∈ x.rows,
      r'.key x.ids = r.key x.ids ∧ r'.get "bool_var" = r.get bm ∧
      (match imb with
       | none => r'.get "imbalance" = .null
       | some y => ∃ m, mono y = .ok m ∧
           r'.get "imbalance" = (match partner y r with | some ri => ri.get m | none => .null)) := by
  obtain ⟨bm, im, rows, hm, hg, hi, hr, rfl⟩ := check_ok h
  obtain ⟨hb, himb, _, _⟩ := checkMeas_not_mem x hg
  refine ⟨bm, hm, ?_⟩
  intro r' hr'
  obtain ⟨r, hrx, hf⟩ := (mapRows_mem _ _ _ hr r').1 hr'
  obtain ⟨v, rfl, hv⟩ := checkRowAll_shape _ _ _ x.ids bm im r r' (checkRow_some spec x.ids bm im r r' hf).1
  refine ⟨r, hrx, key_proj_append r x.ids x.ids _ (fun i hi => hi), get_tail_bool x.ids r _ v _ hb, ?_⟩
  rw [get_tail_imb x.ids r _ v _ himb]
  cases imb with
  | none =>
    simp only [imbArg, Except.ok.injEq] at hi
    subst hi
    rcases hv with hv | ⟨hv, _, _⟩
    · simpa [imbOf] using hv.symm
    · simp [imbOf] at hv
  | some y =>
    obtain ⟨m, _, hmy, rfl⟩ := imbArg_some hi
    refine ⟨m, hmy, ?_⟩
    rcases hv with hv | ⟨hv, hn, _⟩
    · simp only [imbOf] at hv
      cases hp : partner y r with
      | none => simp [hp] at hv
      | some ri => simp [hp] at hv; simp [hv]
    · simp only [imbOf] at hv
      cases hp : partner y r with
      | none => simp [hn]
      | some ri => simp [hp] at hv

/-- **all mode reports every evaluated datapoint** (specification join: `imbInner = false`). -/
theorem check_all_rows (spec : CheckSpec) (x : DS) (imb : Option DS) (res : DS)
    (hall : spec.invalid = false) (hj : spec.imbInner = false) (h : check spec x imb = .ok res) :
    ∃ bm, mono x = .ok bm ∧ ∀ r ∈ x.rows, ∃ r' ∈ res.rows, r'.key x.ids = r.key x.ids ∧ r'.get "bool_var" = r.get bm := by
  obtain ⟨bm, im, rows, hm, hg, _, hr, rfl⟩ := check_ok h
  obtain ⟨hb, _, _, _⟩ := checkMeas_not_mem x hg
  refine ⟨bm, hm, ?_⟩
  intro r hrx
  -- the row function succeeds on r (the operator succeeded) and in all mode yields a row
  cases hf : checkRow spec x.ids bm im r with
  | error e =>
    obtain ⟨e', he'⟩ := (mapRows_error_iff _ x.rows).2 ⟨r, hrx, e, hf⟩
    rw [hr] at he'; cases he'
  | ok o =>
    cases o with
    | some r' =>
      obtain ⟨v, hv, _⟩ := checkRowAll_shape _ _ _ x.ids bm im r r' (checkRow_some spec x.ids bm im r r' hf).1
      refine ⟨r', (mapRows_mem _ _ _ hr r').2 ⟨r, hrx, hf⟩, ?_, ?_⟩
      · rw [hv]; exact key_proj_append r x.ids x.ids _ (fun i hi => hi)
      · rw [hv]; exact get_tail_bool x.ids r _ v _ hb
    | none =>
      exfalso
      simp only [checkRow, hall, hj, Bool.false_and, Bool.false_eq_true, if_false] at hf
      unfold checkRowAll at hf
      cases hb' : r.get bm <;> simp only [hb'] at hf <;> (try cases hf) <;>
        (cases hi : imbOf im r <;> simp [hi] at hf)

/-- the engine's inner join with the imbalance operand loses evaluated datapoints: a FALSE datapoint
whose identifiers the imbalance operand lacks is absent from `all` and from `invalid`. -/
def cxB : DS := DS.mk ["Id_1"] ["bool_var"] [[("Id_1", .int 1), ("bool_var", .bool true)], [("Id_1", .int 3), ("bool_var", .bool false)]]
def cxI : DS := DS.mk ["Id_1"] ["Me_1"] [[("Id_1", .int 1), ("Me_1", .int 5)]]
theorem check_inner_join_drops_counter :
    (check { ec := .str "e", el := .null, invalid := true, imbInner := true } cxB (some cxI)).map (·.rows.length) = .ok 0 ∧
    (check { ec := .str "e", el := .null, invalid := true, imbInner := false } cxB (some cxI)).map (·.rows.length) = .ok 1 := by
  decide

/-- `check` preserves key uniqueness (plugs into `C10.evalD_WF` through `app1` / `app2`). -/
theorem check_WF (spec : CheckSpec) :
    (∀ x r, x.WF → check spec x none = .ok r → r.WF) ∧
    (∀ x y r, x.WF → y.WF → check spec x (some y) = .ok r → r.WF) :=
  ⟨fun x r w h => check_WF_aux spec x none r w h, fun x y r w _ h => check_WF_aux spec x (some y) r w h⟩

/-- `check` respects permutation of the rows of its operands (plugs into `C33.evalD_perm`). -/
theorem check_perm (spec : CheckSpec) :
    (∀ x x', x.WF → DSEquiv x x' → REquiv (check spec x none) (check spec x' none)) ∧
    (∀ x y x' y', x.WF → y.WF → DSEquiv x x' → DSEquiv y y' → REquiv (check spec x (some y)) (check spec x' (some y'))) :=
  ⟨fun x x' _ hx => check_perm_none spec x x' hx, fun x y x' y' _ wy hx hy => check_perm_some spec x x' y y' wy hx hy⟩

/-- expressions that contain `check` are covered by the two compositional theorems. -/
theorem check_extends (spec : CheckSpec) (a b : DExpr) (ha : ExtWF a) (hb : ExtWF b) (pa : ExtPerm a) (pb : ExtPerm b) :
    ExtWF (.app2 (fun x y => check spec x (some y)) a b) ∧ ExtPerm (.app2 (fun x y => check spec x (some y)) a b) :=
  ⟨⟨ha, hb, (check_WF spec).2⟩, ⟨pa, pb, (check_perm spec).2⟩⟩

/-! ## Part 2 — `check_datapoint` -/

/-- **a rule whose antecedent is not TRUE holds**: its Boolean is not FALSE (TRUE where the antecedent
is FALSE, NULL where it is NULL), so the datapoint is not reported in `invalid` mode. -/
theorem when_false_holds (rule : DPRule) (a : SExpr) (r : Row) (b : Value) (x : DS)
    (ha : rule.ante = some a) (hw : evalS r .null .null a ≠ .ok (.bool true)) (hb : dpBool rule r = .ok b) :
    b ≠ .bool false ∧ dpRow .invalid x rule r = .ok none := by
  have hne : b ≠ .bool false := by
    unfold dpBool at hb
    rw [ha] at hb
    obtain ⟨c0, _, hb⟩ := (bind_ok' _ _ _).1 hb
    obtain ⟨c, _, hb⟩ := (bind_ok' _ _ _).1 hb
    simp only at hb
    obtain ⟨w0, hw0, hb⟩ := (bind_ok' _ _ _).1 hb
    obtain ⟨w, hw1, hb⟩ := (bind_ok' _ _ _).1 hb
    cases w0 with
    | bool wb =>
      cases wb with
      | true => exact absurd hw0 hw
      | false =>
        simp only [asBool3, Except.ok.injEq] at hw1
        subst hw1
        simp only [pure, Except.pure, Except.ok.injEq] at hb
        subst hb
        simp
    | null =>
      simp only [asBool3, Except.ok.injEq] at hw1
      subst hw1
      simp only [pure, Except.pure, Except.ok.injEq] at hb
      subst hb
      simp
    | int i => simp [asBool3] at hw1
    | num q => simp [asBool3] at hw1
    | str s => simp [asBool3] at hw1
  refine ⟨hne, ?_⟩
  unfold dpRow
  rw [hb]
  have hf : Sem.isFalse b = false := by
    cases hfb : Sem.isFalse b with
    | false => rfl
    | true => exact absurd ((isFalse_iff b).1 hfb) hne
  simp [bind, Except.bind, hf, pure, Except.pure]

/-- **invalid mode reports exactly the (datapoint, rule) pairs for which the rule is FALSE**. -/
theorem dp_invalid_iff (rules : List DPRule) (x res : DS) (h : checkDatapoint rules .invalid x = .ok res) (r' : Row) :
    r' ∈ res.rows ↔ ∃ rule ∈ rules, ∃ r ∈ x.rows, dpBool rule r = .ok (.bool false) ∧ r' = dpRowOf .invalid x rule r (.bool false) := by
  obtain ⟨_, _, rows, hr, rfl⟩ := checkDatapoint_ok h
  rw [dpRows_mem .invalid x rules rows hr r']
  constructor
  · rintro ⟨rule, hru, r, hrx, hf⟩
    obtain ⟨b, hb, rfl, hk⟩ := dpRow_some .invalid x rule r r' hf
    have := hk rfl
    subst this
    exact ⟨rule, hru, r, hrx, hb, rfl⟩
  · rintro ⟨rule, hru, r, hrx, hb, rfl⟩
    exact ⟨rule, hru, r, hrx, dpRow_of_bool .invalid x rule r _ hb (fun _ => rfl)⟩

/-- **all mode: one output row per (datapoint, rule), carrying the rule's Boolean**. -/
theorem dp_all_rows (rules : List DPRule) (out : DPOut) (x res : DS) (ho : out ≠ .invalid)
    (h : checkDatapoint rules out x = .ok res) :
    (∀ rule ∈ rules, ∀ r ∈ x.rows, ∃ b, dpBool rule r = .ok b ∧ dpRowOf out x rule r b ∈ res.rows) ∧
    (∀ r' ∈ res.rows, ∃ rule ∈ rules, ∃ r ∈ x.rows, ∃ b, dpBool rule r = .ok b ∧ r' = dpRowOf out x rule r b) := by
  obtain ⟨_, _, rows, hr, rfl⟩ := checkDatapoint_ok h
  constructor
  · intro rule hru r hrx
    -- the rule's Boolean is defined on r, otherwise the operator would have failed
    cases hb : dpBool rule r with
    | ok b =>
      exact ⟨b, rfl, (dpRows_mem out x rules rows hr _).2 ⟨rule, hru, r, hrx, dpRow_not_invalid_some out x rule r b hb ho⟩⟩
    | error e =>
      exfalso
      have hfail : dpRow out x rule r = .error e := by simp [dpRow, hb, bind, Except.bind]
      -- failure of one row fails `dpRows`
      have : ∀ (rs : List DPRule) (rws : List Row), rule ∈ rs → dpRows out x rs = .ok rws → False := by
        intro rs
        induction rs with
        | nil => intro _ hm _; cases hm
        | cons ru rest ih =>
          intro rws hm hd
          simp only [dpRows] at hd
          obtain ⟨a, ha, hd⟩ := (bind_ok' _ _ _).1 hd
          obtain ⟨b', hb', _⟩ := (bind_ok' _ _ _).1 hd
          rcases List.mem_cons.1 hm with rfl | hm'
          · obtain ⟨e', he'⟩ := (mapRows_error_iff _ x.rows).2 ⟨r, hrx, e, hfail⟩
            rw [ha] at he'; cases he'
          · exact ih b' hm' hb'
      exact this rules rows hru hr
  · intro r' hr'
    obtain ⟨rule, hru, r, hrx, hf⟩ := (dpRows_mem out x rules rows hr r').1 hr'
    obtain ⟨b, hb, rfl, _⟩ := dpRow_some out x rule r r' hf
    exact ⟨rule, hru, r, hrx, b, hb, rfl⟩

/-- **the `ruleid` identifier names the rule** and the other identifiers are those of the datapoint. -/
theorem dp_ruleid (rules : List DPRule) (out : DPOut) (x res : DS) (h : checkDatapoint rules out x = .ok res) :
    ∀ r' ∈ res.rows, ∃ rule ∈ rules, ∃ r ∈ x.rows, r'.get "ruleid" = .str rule.name ∧ r'.key x.ids = r.key x.ids := by
  obtain ⟨hid, _, rows, hr, rfl⟩ := checkDatapoint_ok h
  intro r' hr'
  obtain ⟨rule, hru, r, hrx, hf⟩ := (dpRows_mem out x rules rows hr r').1 hr'
  obtain ⟨b, _, rfl, _⟩ := dpRow_some out x rule r r' hf
  exact ⟨rule, hru, r, hrx, dpRowOf_ruleid out x rule r b hid, dpRowOf_key out x rule r b⟩

/-- **errorcode / errorlevel are set exactly where the rule is false** (`all` mode). -/
theorem dp_err_iff_false (x : DS) (rule : DPRule) (r : Row) (b : Value)
    (h0 : "ruleid" ∉ x.ids) (h1 : "bool_var" ∉ x.ids) (h2 : "errorcode" ∉ x.ids) (h3 : "errorlevel" ∉ x.ids) :
    let r' := dpRowOf .all x rule r b
    r'.get "bool_var" = b ∧
    r'.get "errorcode" = (if b = .bool false then rule.ec else .null) ∧
    r'.get "errorlevel" = (if b = .bool false then rule.el else .null) := by
  simp only [dpRowOf]
  rw [get_proj_append_not_mem r x.ids _ "bool_var" h1, get_proj_append_not_mem r x.ids _ "errorcode" h2,
      get_proj_append_not_mem r x.ids _ "errorlevel" h3]
  cases b <;> simp [Row.get, List.lookup, errCols, Sem.isFalse]

/-- `check_datapoint` preserves key uniqueness (identifiers of the operand + `ruleid`). -/
theorem dp_WF (rules : List DPRule) (out : DPOut) : ∀ x r, x.WF → checkDatapoint rules out x = .ok r → r.WF :=
  fun x r w h => checkDatapoint_WF_aux rules out x r w h

/-- `check_datapoint` respects permutation of the operand's rows. -/
theorem dp_perm (rules : List DPRule) (out : DPOut) :
    ∀ x x', x.WF → DSEquiv x x' → REquiv (checkDatapoint rules out x) (checkDatapoint rules out x') :=
  fun x x' _ hx => checkDatapoint_perm_aux rules out x x' hx

/-- non-vacuity: a two-rule ruleset on a small dataset, `invalid` output. -/
def dpx : DS := DS.mk ["Id_1"] ["Me_1"] [[("Id_1", .int 1), ("Me_1", .int 5)], [("Id_1", .int 2), ("Me_1", .int (-5))], [("Id_1", .int 3), ("Me_1", .null)]]
def dprules : List DPRule :=
  [{ name := "1", ante := none, cons := .bin .ge (.col "Me_1") (.const (.int 0)), ec := .str "neg", el := .int 2 },
   { name := "2", ante := some (.bin .gt (.col "Id_1") (.const (.int 1))), cons := .bin .lt (.col "Me_1") (.const (.int 0)), ec := .null, el := .null }]
example : (checkDatapoint dprules .invalid dpx).map (·.rows.length) = .ok 1 := by decide
example : (checkDatapoint dprules .all dpx).map (·.rows.length) = .ok 6 := by decide

/-! ## Part 3 — hierarchical rulesets -/

/-- **the right-hand side is the signed sum of its components, per validation mode**: a missing code
item counts 0 in the `*_zero` modes and null otherwise; the sum is null as soon as one component is. -/
theorem hier_value_sum (mode : HMode) (st : St) (items : List (Bool × String)) :
    rhs mode st items = (compVals mode st items).map signedSum ∧
    (rhs mode st items = none ↔ ∃ it ∈ items, valueOf mode st it.2 = none) ∧
    (∀ ci, valueOf mode st ci = (match st ci with
                                 | none => if mode.zero then some 0 else none
                                 | some v => v)) :=
  ⟨rhs_eq mode st items, rhs_none_iff mode st items, fun _ => rfl⟩

/-- **`hierarchy` computes each aggregated code item from its components**: when a rule produces an
item it is the rule's left item, its value is the signed sum of the right-hand side read from the
state the input mode prescribes (null when the `when` condition is not TRUE), and — except for a null
result under `rule_priority` — that value is what the following rules read for the item. -/
theorem hier_value (mode : HMode) (imode : HInput) (g : Row) (st0 : St) (ρ : HRule) (st st' : St) (ci : String) (c : Option Rat)
    (h : hStep mode imode g st0 ρ st = .ok (st', some (ci, c))) :
    ∃ w, condOf ρ g = .ok w ∧ ci = ρ.left ∧
      c = (if w == .bool true then (compVals mode (if imode == .dataset then st0 else st) ρ.right).map signedSum else none) ∧
      modeFilterH mode (if imode == .dataset then st0 else st) ρ = true ∧
      ((imode ≠ .rulePriority ∨ c ≠ none) → st' ρ.left = some c) ∧ (∀ d, d ≠ ρ.left → st' d = st d) := by
  rw [hStep_eq] at h
  cases hc : condOf ρ g with
  | error e => simp [hc, Except.map] at h
  | ok w =>
    simp only [hc, Except.map, Except.ok.injEq, hStepP, Prod.mk.injEq] at h
    obtain ⟨h1, h2⟩ := h
    refine ⟨w, rfl, ?_⟩
    cases hm : modeFilterH mode (if imode == .dataset then st0 else st) ρ with
    | false =>
      rw [hEffect_idle mode imode st0 ρ w st hm] at h2
      cases h2
    | true =>
      rw [hEffect_fired mode imode st0 ρ w st hm] at h1 h2
      by_cases he : emits mode (compOf mode w (if imode == .dataset then st0 else st) ρ) = true
      · rw [if_pos he] at h2
        simp only [Option.some.injEq, Prod.mk.injEq] at h2
        obtain ⟨e1, e2⟩ := h2
        refine ⟨e1.symm, ?_, rfl, ?_, ?_⟩
        · rw [← e2, compOf, rhs_eq]
        · intro hor
          rw [← h1, e2, newVal_eq imode c _ hor]
          simp [applyEff, St.set]
        · intro d hd
          rw [← h1]
          simp [applyEff, St.set, hd]
      · rw [if_neg he] at h2
        cases h2

/-- **imbalance = left − right**: the imbalance of a rule on a group is the value of the left item
minus the signed sum of the right-hand side (null when either is null or the `when` condition is FALSE),
and the Boolean is their comparison. -/
theorem imbalance_eq_left_minus_right (mode : HMode) (ρ : HRule) (st : St) (w : Value) (hw : w ≠ .bool false) :
    chImb mode ρ st w = (match valueOf mode st ρ.left, (compVals mode st ρ.right).map signedSum with
                         | some l, some r => some (l - r)
                         | _, _ => none) ∧
    chBool mode ρ st w = cmp3 ρ.cmp (valueOf mode st ρ.left) ((compVals mode st ρ.right).map signedSum) := by
  have : (w == Value.bool false) = false := by simpa using hw
  refine ⟨?_, ?_⟩
  · unfold chImb
    rw [this, rhs_eq]
    cases valueOf mode st ρ.left <;> cases (compVals mode st ρ.right).map signedSum <;> rfl
  · unfold chBool
    rw [this, rhs_eq]
    rfl

/-- **`invalid` reports exactly the (group, rule) pairs to which the mode applies the rule, whose `when`
is TRUE and whose comparison is FALSE; `all` / `all_measures` report every pair the mode applies the
rule to, with the Boolean.** -/
theorem ch_report_iff (rules : List HRule) (mode : HMode) (out : DPOut) (rc : String) (x res : DS)
    (h : checkHierarchy rules mode out rc x = .ok res) :
    ∃ m, mono x = .ok m ∧ ∀ r', r' ∈ res.rows ↔
      ∃ ρ ∈ rules, ∃ g ∈ groupsOf x rc (x.ids.filter (fun i => i != rc)) (allItems rules), ∃ w, condOf ρ g = .ok w ∧
        modeFilterC mode (initSt x rc m g) ρ = true ∧
        (out = .invalid → w = .bool true ∧ chBool mode ρ (initSt x rc m g) w = .bool false) ∧
        r' = chRowOf mode out (x.ids.filter (fun i => i != rc)) rc m ρ g (initSt x rc m g) w := by
  obtain ⟨m, rows, hm, _, hr, rfl⟩ := checkHierarchy_ok h
  refine ⟨m, hm, ?_⟩
  intro r'
  rw [chRows_mem mode out _ rc m _ _ rules rows hr r']
  constructor
  · rintro ⟨ρ, hρ, g, hg, hf⟩
    exact ⟨ρ, hρ, g, hg, (chRow_some_iff mode out _ rc m ρ _ g r').1 hf⟩
  · rintro ⟨ρ, hρ, g, hg, hx⟩
    exact ⟨ρ, hρ, g, hg, (chRow_some_iff mode out _ rc m ρ _ g r').2 hx⟩

/-- **errorcode / errorlevel are set exactly where the rule is false; bool_var and imbalance are the
rule's** (`all` output). -/
theorem ch_err_iff_false (mode : HMode) (other : List String) (rc m : String) (ρ : HRule) (g : Row) (st : St) (w : Value)
    (h1 : ∀ n ∈ ["bool_var", "imbalance", "errorcode", "errorlevel"], n ∉ other ∧ n ≠ rc) :
    let r' := chRowOf mode .all other rc m ρ g st w
    r'.get "bool_var" = chBool mode ρ st w ∧ r'.get "imbalance" = ratV (chImb mode ρ st w) ∧
    r'.get "errorcode" = (if chBool mode ρ st w = .bool false then ρ.ec else .null) ∧
    r'.get "errorlevel" = (if chBool mode ρ st w = .bool false then ρ.el else .null) := by
  simp only
  rw [chRowOf_all_get mode other rc m ρ g st w "bool_var" (h1 _ (by simp)).1 (h1 _ (by simp)).2 (by decide),
      chRowOf_all_get mode other rc m ρ g st w "imbalance" (h1 _ (by simp)).1 (h1 _ (by simp)).2 (by decide),
      chRowOf_all_get mode other rc m ρ g st w "errorcode" (h1 _ (by simp)).1 (h1 _ (by simp)).2 (by decide),
      chRowOf_all_get mode other rc m ρ g st w "errorlevel" (h1 _ (by simp)).1 (h1 _ (by simp)).2 (by decide)]
  cases chBool mode ρ st w <;> simp [Row.get, List.lookup, errCols, Sem.isFalse]

/-- the executable order check used on `HRDAGAnalyzer.sort_hr_rules` is the dependency-respecting
property of the theorem below. -/
theorem isValidOrder_spec (rules : List HRule) : isValidOrder rules = true ↔ ValidOrder rules :=
  isValidOrder_iff rules

/-- **rule ordering — order independence on one group** (any rules, with or without `when`, any
validation and input mode): two dependency-respecting orders of the same rules fail together or leave
the same state and compute the same items. -/
theorem hier_order_independent_group (mode : HMode) (imode : HInput) (g : Row) (st0 st : St) (rules1 rules2 : List HRule)
    (hp : rules1.Perm rules2) (v1 : isValidOrder rules1 = true) (v2 : isValidOrder rules2 = true) :
    Rel2 RunEq (hRun mode imode g st0 rules1 st) (hRun mode imode g st0 rules2 st) :=
  hRun_perm mode imode g st0 rules1 rules2 hp ((isValidOrder_iff _).1 v1) ((isValidOrder_iff _).1 v2) st

/-- **rule ordering — order independence of `hierarchy`** (full statement: any ruleset, `when`
conditions included, all validation modes, input modes and outputs): applying the operator with any two
orders of the same ruleset that both respect the dependencies between the `=` rules gives the same set
of datapoints (or fails in both cases). -/
theorem hier_order_independent (rules1 rules2 : List HRule) (mode : HMode) (imode : HInput) (all : Bool) (rc : String) (x : DS)
    (hp : rules1.Perm rules2)
    (v1 : isValidOrder (rules1.filter (fun ρ => ρ.cmp == .eq)) = true)
    (v2 : isValidOrder (rules2.filter (fun ρ => ρ.cmp == .eq)) = true) :
    REquiv (hierarchy rules1 mode imode all rc x) (hierarchy rules2 mode imode all rc x) :=
  hierarchy_perm_rules rules1 rules2 mode imode all rc x hp ((isValidOrder_iff _).1 v1) ((isValidOrder_iff _).1 v2)

/-- the hypothesis is necessary: in an order that does not respect the dependencies (the order
`HRDAGAnalyzer.sort_hr_rules` produces for `A = C + D; C = E + F; C >= E`) `A` is computed from the
operand's `C` instead of the computed one. -/
def hx : DS := DS.mk ["Id_1", "Id_2"] ["Me_1"]
  [[("Id_1", .int 1), ("Id_2", .str "C"), ("Me_1", .int 10)], [("Id_1", .int 1), ("Id_2", .str "D"), ("Me_1", .int 5)],
   [("Id_1", .int 1), ("Id_2", .str "E"), ("Me_1", .int 1)], [("Id_1", .int 1), ("Id_2", .str "F"), ("Me_1", .int 2)]]
def ruleA : HRule := { name := "1", left := "A", cmp := .eq, right := [(false, "C"), (false, "D")], cond := none, ec := .null, el := .null }
def ruleC : HRule := { name := "2", left := "C", cmp := .eq, right := [(false, "E"), (false, "F")], cond := none, ec := .null, el := .null }
def aOf (r : R DS) : R (List Value) := r.map (fun d => (d.rows.filter (fun r => r.get "Id_2" == .str "A")).map (·.get "Me_1"))
theorem invalid_order_changes_result_counter :
    isValidOrder [ruleC, ruleA] = true ∧ isValidOrder [ruleA, ruleC] = false ∧
    aOf (hierarchy [ruleC, ruleA] .nonNull .rule false "Id_2" hx) = .ok [.num 8] ∧
    aOf (hierarchy [ruleA, ruleC] .nonNull .rule false "Id_2" hx) = .ok [.num 15] := by
  decide +kernel

/-- `check_hierarchy` and `hierarchy` preserve key uniqueness (plug into `C10.evalD_WF` through `app1`). -/
theorem ch_WF (rules : List HRule) (mode : HMode) (out : DPOut) (rc : String) :
    ∀ x r, x.WF → checkHierarchy rules mode out rc x = .ok r → r.WF :=
  fun x r _ h => checkHierarchy_WF_aux rules mode out rc x r h

theorem hier_WF (rules : List HRule) (mode : HMode) (imode : HInput) (all : Bool) (rc : String) :
    ∀ x r, x.WF → hierarchy rules mode imode all rc x = .ok r → r.WF :=
  fun x r w h => hierarchy_WF_aux rules mode imode all rc x r w h

/-- `check_hierarchy` and `hierarchy` respect permutation of the operand's rows (plug into `C33.evalD_perm`). -/
theorem ch_perm (rules : List HRule) (mode : HMode) (out : DPOut) (rc : String) :
    ∀ x x', x.WF → DSEquiv x x' → REquiv (checkHierarchy rules mode out rc x) (checkHierarchy rules mode out rc x') :=
  fun x x' w hx => checkHierarchy_perm_aux rules mode out rc x x' w hx

theorem hier_perm (rules : List HRule) (mode : HMode) (imode : HInput) (all : Bool) (rc : String) :
    ∀ x x', x.WF → DSEquiv x x' → REquiv (hierarchy rules mode imode all rc x) (hierarchy rules mode imode all rc x') :=
  fun x x' w hx => hierarchy_perm_aux rules mode imode all rc x x' w hx

/-- expressions built from the four operators are covered by `C10.evalD_WF` and `C33.evalD_perm`. -/
theorem validation_extends (d : DExpr) (hd : ExtWF d) (pd : ExtPerm d)
    (dprules : List DPRule) (dout : DPOut) (hrules : List HRule) (mode : HMode) (out : DPOut) (imode : HInput) (all : Bool) (rc : String) :
    (ExtWF (.app1 (checkDatapoint dprules dout) d) ∧ ExtPerm (.app1 (checkDatapoint dprules dout) d)) ∧
    (ExtWF (.app1 (checkHierarchy hrules mode out rc) d) ∧ ExtPerm (.app1 (checkHierarchy hrules mode out rc) d)) ∧
    (ExtWF (.app1 (hierarchy hrules mode imode all rc) d) ∧ ExtPerm (.app1 (hierarchy hrules mode imode all rc) d)) :=
  ⟨⟨⟨hd, dp_WF dprules dout⟩, ⟨pd, dp_perm dprules dout⟩⟩,
   ⟨⟨hd, ch_WF hrules mode out rc⟩, ⟨pd, ch_perm hrules mode out rc⟩⟩,
   ⟨⟨hd, hier_WF hrules mode imode all rc⟩, ⟨pd, hier_perm hrules mode imode all rc⟩⟩⟩

end VtlModel.C07

import VtlModel.Sem.JoinLemmas
import VtlModel.Sem.JoinImpl
import VtlModel.Props.C33
/-! # C04 — joins combine datasets as specified

Model: `VtlModel.Sem.Join` — `joinBody kind using body [(alias₁, D₁), …, (aliasₙ, Dₙ)]` =
rename every operand to its virtual column names (`alias#comp` for a non-join component exposed by
two or more operands), fold the binary relational join `join2` over the operands on the pairwise keys,
evaluate the trailing clause body, strip the alias prefixes.

Theorems (datasets of any size, any number of rows; nothing is bounded):

* `inner_iff`                          a row is in the inner join ⇔ it is the combination of one row of each operand
                                       that agree on the join keys (a null measure-key never matches);
  `inner_fold_iff`                     the same for the n-ary fold (any number of operands), by induction;
* `left_eq_inner_plus_unmatched`       left join = inner join rows ++ the left rows without partner, padded;
  `left_unmatched_null`                … whose right-hand components are all null, left-hand ones unchanged;
  `left_covers_left`                   every row of the left operand is represented in the result;
* `full_eq_left_plus_unmatched_right`  full join = left join rows ++ the right rows without partner;
  `full_unmatched_right_values`        … keys from the right row, other left components null, right ones unchanged;
* `cross_eq_product`                   cross join: |x|·|y| rows, every pair present;
* `join_columns_distinct`, `result_columns_distinct`, `virtName_cases`, `unqual_qual`
                                       every column name of the virtual dataset and of the final result is
                                       determined by (alias, component) and pairwise distinct;
* `joinBody_WF`, `join_WF`             unique identifier keys are preserved (n-ary; and in the shape `C10.ExtWF` asks for);
* `joinBody_perm`, `join_perm`         the result does not depend on the order of the operands' rows (n-ary; and in
                                       the shape `C33.ExtPerm` asks for);
  `joinE_ExtWF`, `joinE_ExtPerm`       hence `C10.evalD_WF` / `C33.evalD_perm` extend to expressions that contain joins;
* `full3_impl_counter`                 the full statement "run() = the specified join" is FALSE on this tree for full joins
                                       of three datasets: the transpiled ON clause (`Sem/JoinImpl.lean`) duplicates an
                                       identifier on a concrete witness, which the check replays on the real code.

Everything VTL rejects is an error of the model (`join2`'s structural conditions, `using` on full/cross
joins, a name clash after stripping), so no theorem holds because of a default value. -/
namespace VtlModel.C04
open VtlModel.Sem VtlModel.C10 VtlModel.C33 List

/-! ## inner join -/

/-- **inner join**: a row is in the result iff it combines a row of the left operand with a row of the
right operand that agree on every join key (and no key that is a measure of the left operand is null);
the result row is their combination. -/
theorem inner_iff (keys : List String) (x y res : DS) (h : join2 .inner keys x y = .ok res) (r : Row) :
    r ∈ res.rows ↔ ∃ a ∈ x.rows, ∃ b ∈ y.rows,
      (∀ k ∈ keys, a.get k = b.get k) ∧ (∀ k ∈ keys, k ∈ x.meas → a.get k ≠ .null) ∧
      r = combine x.comps (rest keys y) a b := by
  obtain ⟨_, _, _, _, _, rfl⟩ := join2_ok h
  show r ∈ innerRows _ keys x y ↔ _
  rw [mem_innerRows]
  constructor
  · rintro ⟨a, ha, b, hb, hm, rfl⟩
    obtain ⟨h1, h2⟩ := (matchK_iff _ keys a b).1 hm
    refine ⟨a, ha, b, hb, h1, ?_, rfl⟩
    intro k hk hkm
    exact h2 k (List.mem_filter.2 ⟨hk, List.contains_iff_mem.2 hkm⟩)
  · rintro ⟨a, ha, b, hb, h1, h2, rfl⟩
    refine ⟨a, ha, b, hb, (matchK_iff _ keys a b).2 ⟨h1, ?_⟩, rfl⟩
    intro k hk
    obtain ⟨hk1, hk2⟩ := List.mem_filter.1 hk
    exact h2 k hk1 (List.contains_iff_mem.1 hk2)

/-- the combination of a matched pair: the left row's values on the left components, the right row's
values on the right operand's non-key components. -/
theorem combine_values (keys : List String) (x y : DS) (a b : Row) :
    (∀ c ∈ x.comps, (combine x.comps (rest keys y) a b).get c = a.get c) ∧
    (∀ c ∈ rest keys y, c ∉ x.comps → (combine x.comps (rest keys y) a b).get c = b.get c) :=
  ⟨fun c hc => get_combine_left _ _ a b c hc, fun c hc hx => get_combine_right _ _ a b c hx hc⟩

/-- a chain of matches through the operands of an n-ary inner join: `Chain us acc a ys r` — starting
from row `a` of the accumulated dataset `acc`, one row of every further operand in `ys` is picked, each
agreeing with the combination so far on the pairwise keys, and `r` is the final combination. -/
inductive Chain (us : Option (List String)) : DS → Row → List DS → Row → Prop
  | nil (acc : DS) (a : Row) : Chain us acc a [] a
  | cons (acc y j : DS) (ys : List DS) (a b r : Row)
      (hj : join2 .inner (stepKeys .inner us acc y) acc y = .ok j)
      (hb : b ∈ y.rows)
      (hm : matchK ((stepKeys .inner us acc y).filter acc.meas.contains) (stepKeys .inner us acc y) a b = true)
      (hr : Chain us j (combine acc.comps (rest (stepKeys .inner us acc y) y) a b) ys r) :
      Chain us acc a (y :: ys) r

/-- **n-ary inner join** (any number of operands): a row is in the result iff there is one row per
operand, each agreeing with the rows picked before it on the pairwise join keys, and the result row is
their combination. -/
theorem inner_fold_iff (us : Option (List String)) : ∀ (ys : List DS) (acc res : DS) (r : Row),
    joinFold .inner us acc ys = .ok res → (r ∈ res.rows ↔ ∃ a ∈ acc.rows, Chain us acc a ys r) := by
  intro ys
  induction ys with
  | nil =>
    intro acc res r h
    simp only [joinFold, Except.ok.injEq] at h
    subst h
    constructor
    · intro hr; exact ⟨r, hr, Chain.nil acc r⟩
    · rintro ⟨a, ha, hc⟩; cases hc; exact ha
  | cons y ys ih =>
    intro acc res r h
    simp only [joinFold] at h
    cases hj : join2 .inner (stepKeys .inner us acc y) acc y with
    | error e => simp [hj, bind, Except.bind] at h
    | ok j =>
      simp only [hj, bind, Except.bind] at h
      rw [ih j res r h]
      obtain ⟨_, _, _, _, _, hjeq⟩ := join2_ok hj
      constructor
      · rintro ⟨c, hc, hch⟩
        rw [hjeq] at hc
        obtain ⟨a, ha, b, hb, hm, rfl⟩ := (mem_innerRows _ _ acc y c).1 hc
        exact ⟨a, ha, Chain.cons acc y j ys a b r hj hb hm hch⟩
      · rintro ⟨a, ha, hch⟩
        cases hch with
        | cons _ _ j' _ _ b _ hj' hb hm hr =>
          rw [hj] at hj'
          cases hj'
          refine ⟨_, ?_, hr⟩
          rw [hjeq]
          exact (mem_innerRows _ _ acc y _).2 ⟨a, ha, b, hb, hm, rfl⟩

/-! ## left join -/

/-- **left join = inner join ∪ unmatched left rows padded with null** (same structure, and the rows
are the inner-join rows followed by the padded rows of the left operand that have no partner). -/
theorem left_eq_inner_plus_unmatched (keys : List String) (x y res : DS) (h : join2 .left keys x y = .ok res) :
    ∃ inner, join2 .inner keys x y = .ok inner ∧ res.ids = inner.ids ∧ res.meas = inner.meas ∧
      res.rows = inner.rows ++
        ((x.rows.filter (fun a => !(y.rows.any (matchK (keys.filter x.meas.contains) keys a)))).map
          (padRight x.comps (rest keys y))) := by
  obtain ⟨h1, h2, h3, h4, _, rfl⟩ := join2_ok h
  refine ⟨DS.mk (x.ids ++ y.ids.filter (fun c => !keys.contains c)) (x.meas ++ y.meas.filter (fun c => !keys.contains c))
    (innerRows (keys.filter x.meas.contains) keys x y), ?_, rfl, rfl, rfl⟩
  unfold join2
  simp [h1, h2, h3, h4, kindOk, join2Rows]

/-- a left row is unmatched iff no row of the right operand agrees with it on the keys. -/
theorem unmatched_left_iff (mk keys : List String) (x y : DS) (a : Row) :
    a ∈ x.rows.filter (fun a => !(y.rows.any (matchK mk keys a))) ↔
      a ∈ x.rows ∧ ∀ b ∈ y.rows, matchK mk keys a b = false :=
  mem_unmatchedL mk keys x y a

/-- **the missing side yields nulls**: in the padded row of an unmatched left row every component that
comes from the right operand is null, every component of the left operand is unchanged. -/
theorem left_unmatched_null (keys : List String) (x y : DS) (a : Row) :
    (∀ c ∈ x.comps, (padRight x.comps (rest keys y) a).get c = a.get c) ∧
    (∀ c, c ∉ x.comps → (padRight x.comps (rest keys y) a).get c = .null) :=
  ⟨fun c hc => get_padRight_left _ _ a c hc, fun c hc => get_padRight_right _ _ a c hc⟩

/-- every datapoint of the left operand is represented in a left join. -/
theorem left_covers_left (keys : List String) (x y res : DS) (h : join2 .left keys x y = .ok res)
    (a : Row) (ha : a ∈ x.rows) : ∃ r ∈ res.rows, ∀ c ∈ x.comps, r.get c = a.get c := by
  obtain ⟨_, _, _, _, _, rfl⟩ := join2_ok h
  show ∃ r ∈ leftRows _ keys x y, _
  cases hany : y.rows.any (matchK (keys.filter x.meas.contains) keys a) with
  | true =>
    obtain ⟨b, hb, hm⟩ := List.any_eq_true.1 hany
    refine ⟨combine x.comps (rest keys y) a b, ?_, fun c hc => get_combine_left _ _ a b c hc⟩
    exact List.mem_append_left _ ((mem_innerRows _ _ x y _).2 ⟨a, ha, b, hb, hm, rfl⟩)
  | false =>
    refine ⟨padRight x.comps (rest keys y) a, ?_, fun c hc => get_padRight_left _ _ a c hc⟩
    apply List.mem_append_right
    refine List.mem_map.2 ⟨a, ?_, rfl⟩
    unfold unmatchedL
    exact List.mem_filter.2 ⟨ha, by simp [hany]⟩

/-! ## full join -/

/-- **full join = left join ∪ unmatched right rows** (padded: keys from the right row). -/
theorem full_eq_left_plus_unmatched_right (keys : List String) (x y res : DS) (h : join2 .full keys x y = .ok res) :
    ∃ left, join2 .left keys x y = .ok left ∧ res.ids = left.ids ∧ res.meas = left.meas ∧
      res.rows = left.rows ++
        ((y.rows.filter (fun b => !(x.rows.any (fun a => matchK (keys.filter x.meas.contains) keys a b)))).map
          (padLeft keys x.comps (rest keys y))) := by
  obtain ⟨h1, h2, h3, h4, h5, rfl⟩ := join2_ok h
  refine ⟨DS.mk (x.ids ++ y.ids.filter (fun c => !keys.contains c)) (x.meas ++ y.meas.filter (fun c => !keys.contains c))
    (leftRows (keys.filter x.meas.contains) keys x y), ?_, rfl, rfl, rfl⟩
  have h6 : subset y.ids keys = true := by
    simp only [kindOk, Bool.and_eq_true] at h5
    exact h5.1.1.1
  unfold join2
  simp [h1, h2, h3, h4, h6, kindOk, join2Rows]

/-- the padded row of an unmatched right row: the join keys carry the right row's values, the other
components of the left operand are null, the right operand's own components are unchanged. -/
theorem full_unmatched_right_values (keys : List String) (x y : DS) (b : Row) :
    (∀ c ∈ x.comps, c ∈ keys → (padLeft keys x.comps (rest keys y) b).get c = b.get c) ∧
    (∀ c ∈ x.comps, c ∉ keys → (padLeft keys x.comps (rest keys y) b).get c = .null) ∧
    (∀ c ∈ rest keys y, c ∉ x.comps → (padLeft keys x.comps (rest keys y) b).get c = b.get c) := by
  refine ⟨?_, ?_, fun c hc hx => get_padLeft_right _ _ _ b c hx hc⟩
  · intro c hc hk
    rw [get_padLeft_left _ _ _ b c hc, if_pos (List.contains_iff_mem.2 hk)]
  · intro c hc hk
    rw [get_padLeft_left _ _ _ b c hc, if_neg]
    intro hcon
    exact hk (List.contains_iff_mem.1 hcon)

/-! ## cross join -/

theorem sum_const (m : Nat) : ∀ (l : List Row), (l.map (fun _ => m)).sum = l.length * m := by
  intro l
  induction l with
  | nil => simp
  | cons a l ih => simp only [List.map_cons, List.sum_cons, List.length_cons, ih, Nat.succ_mul, Nat.add_comm]

/-- **cross join = Cartesian product**: |x|·|y| rows, and every pair of rows is present. -/
theorem cross_eq_product (x y res : DS) (h : join2 .cross [] x y = .ok res) :
    res.rows.length = x.rows.length * y.rows.length ∧
    ∀ a ∈ x.rows, ∀ b ∈ y.rows, combine x.comps y.comps a b ∈ res.rows := by
  obtain ⟨_, _, _, _, _, rfl⟩ := join2_ok h
  have hrest : rest [] y = y.comps := by simp [rest]
  have hall : ∀ a, partners [] [] y a = y.rows := by
    intro a; simp [partners, matchK]
  constructor
  · show (innerRows _ [] x y).length = _
    simp only [List.filter_nil, innerRows, List.length_flatMap, hall, List.length_map]
    exact sum_const _ _
  · intro a ha b hb
    show _ ∈ innerRows _ [] x y
    rw [mem_innerRows]
    exact ⟨a, ha, b, hb, by simp [matchK], by rw [hrest]⟩

/-! ## column names: determined and distinct -/

/-- the name of a component in the virtual join result is determined by the join columns, the number
of operands exposing it and the alias. -/
theorem virtName_cases (jc : List String) (ops : List Operand) (al c : String) :
    (c ∈ jc → virtName jc ops al c = c) ∧
    (c ∉ jc → occurrences ops c ≥ 2 → virtName jc ops al c = qual al c) ∧
    (c ∉ jc → occurrences ops c < 2 → virtName jc ops al c = c) := by
  unfold virtName
  refine ⟨?_, ?_, ?_⟩
  · intro h; simp [h]
  · intro h h2; simp [h, h2]
  · intro h h2
    have : ¬ occurrences ops c ≥ 2 := by omega
    simp [h, this]

theorem afterHash_append (cs : List Char) : ∀ (al : List Char), '#' ∉ al → afterHash (al ++ '#' :: cs) = some cs := by
  intro al
  induction al with
  | nil => intro _; simp [afterHash]
  | cons a l ih =>
    intro h
    have ha : a ≠ '#' := fun e => h (e ▸ List.mem_cons_self)
    have hl : '#' ∉ l := fun e => h (List.mem_cons_of_mem _ e)
    simp [afterHash, ha, ih hl]

/-- stripping recovers the component name from a qualified name (aliases contain no `#`). -/
theorem unqual_qual (al c : String) (h : '#' ∉ al.toList) : unqual (qual al c) = c := by
  unfold unqual qual
  have : (al ++ "#" ++ c).toList = al.toList ++ '#' :: c.toList := by
    simp [String.toList_append]
  rw [this, afterHash_append c.toList al.toList h]
  exact String.ofList_toList

/-- **alias disambiguation**: all column names of the virtual dataset of a join are distinct. -/
theorem join_columns_distinct (kind : JoinKind) (us : Option (List String)) (ops : List Operand) (j : DS)
    (h : joinN kind us ops = .ok j) : j.comps.Nodup := joinN_comps_nodup kind us ops j h

/-- all column names of the final result (after the body and the removal of the alias prefixes) are distinct. -/
theorem result_columns_distinct (kind : JoinKind) (us : Option (List String)) (body : DExpr) (ops : List Operand)
    (res : DS) (h : joinBody kind us body ops = .ok res) : res.comps.Nodup := by
  unfold joinBody at h
  obtain ⟨j, _, h⟩ := (bind_ok _ _ _).1 h
  obtain ⟨r1, _, h⟩ := (bind_ok _ _ _).1 h
  exact (renameDS_comps unqual r1 res h).2

/-! ## unique keys and order independence (plug-in lemmas for C10 / C33) -/

theorem envWF_single (j : DS) (w : j.WF) : EnvWF [(jname, j)] := by
  intro n d hl
  simp only [List.lookup_cons, List.lookup_nil] at hl
  split at hl
  · cases hl; exact w
  · cases hl

/-- **n-ary joins preserve unique identifier keys**: operands with one datapoint per key give a result
with one datapoint per key (all four kinds, with or without `using`, any body of key-preserving clauses). -/
theorem joinBody_WF (kind : JoinKind) (us : Option (List String)) (body : DExpr) (ops : List Operand) (res : DS)
    (hb : ExtWF body) (w : ∀ o ∈ ops, o.2.WF) (h : joinBody kind us body ops = .ok res) : res.WF := by
  unfold joinBody at h
  obtain ⟨j, hj, h⟩ := (bind_ok _ _ _).1 h
  obtain ⟨r1, hr1, h⟩ := (bind_ok _ _ _).1 h
  have wj := joinN_WF kind us ops j w hj
  exact renameDS_WF unqual r1 res (evalD_WF _ (envWF_single j wj) body r1 hb hr1) h

/-- the binary form, exactly as `C10.ExtWF` asks for an `app2` operator. -/
theorem join_WF (kind : JoinKind) (us : Option (List String)) (body : DExpr) (a1 a2 : String) (hb : ExtWF body) :
    ∀ x y r, x.WF → y.WF → join2F kind us body a1 a2 x y = .ok r → r.WF := by
  intro x y r wx wy h
  refine joinBody_WF kind us body [(a1, x), (a2, y)] r hb ?_ h
  intro o ho
  rcases List.mem_cons.1 ho with rfl | ho
  · exact wx
  · rcases List.mem_cons.1 ho with rfl | ho
    · exact wy
    · cases ho

theorem envEquiv_single (j j' : DS) (h : DSEquiv j j') : EnvEquiv [(jname, j)] [(jname, j')] := by
  intro n
  by_cases hn : (n == jname) = true
  · right
    exact ⟨j, j', by simp [List.lookup_cons, hn], by simp [List.lookup_cons, hn], h⟩
  · left
    exact ⟨by simp [List.lookup_cons, hn], by simp [List.lookup_cons, hn]⟩

theorem joinN_perm (kind : JoinKind) (us : Option (List String)) (ops ops' : List Operand) (h : OpsEquiv ops ops') :
    Rel2 DSEquiv (joinN kind us ops) (joinN kind us ops') := by
  unfold joinN
  have hv : prep (joinCols kind us ops') ops' = prep (joinCols kind us ops) ops := by
    funext o; unfold prep; rw [virtName_congr kind us ops ops' h]
  rw [hv]
  split
  · exact Rel2.error _ _
  · refine Rel2.bind (mapM_rename_perm (virtName (joinCols kind us ops) ops) ops ops' h) ?_
    intro ps ps' hps
    cases ps with
    | nil => cases ps' with
      | nil => exact Rel2.error _ _
      | cons _ _ => simp [DSListEquiv] at hps
    | cons p ps1 => cases ps' with
      | nil => simp [DSListEquiv] at hps
      | cons p' ps1' =>
        simp only [DSListEquiv] at hps
        exact joinFold_perm kind us ps1 ps1' p p' hps.1 hps.2

theorem opsEquiv_WF : ∀ (ops ops' : List Operand), OpsEquiv ops ops' → (∀ o ∈ ops, o.2.WF) → ∀ o ∈ ops', o.2.WF := by
  intro ops
  induction ops with
  | nil => intro ops' h _ o ho; cases ops' with
    | nil => cases ho
    | cons _ _ => simp [OpsEquiv] at h
  | cons a l ih => intro ops' h w o ho; cases ops' with
    | nil => cases ho
    | cons b l' =>
      simp only [OpsEquiv] at h
      rcases List.mem_cons.1 ho with rfl | ho
      · exact h.2.1.WF (w a List.mem_cons_self)
      · exact ih l' h.2.2 (fun o' ho' => w o' (List.mem_cons_of_mem _ ho')) o ho

/-- **n-ary joins do not depend on the order of the operands' rows**: operands that are equal up to the
order of their datapoints give results that are equal up to the order of their datapoints (or both fail). -/
theorem joinBody_perm (kind : JoinKind) (us : Option (List String)) (body : DExpr) (ops ops' : List Operand)
    (hb : ExtWF body) (hp : ExtPerm body) (w : ∀ o ∈ ops, o.2.WF) (h : OpsEquiv ops ops') :
    Rel2 DSEquiv (joinBody kind us body ops) (joinBody kind us body ops') := by
  have w' := opsEquiv_WF ops ops' h w
  unfold joinBody
  cases hj : joinN kind us ops with
  | error e =>
    rcases joinN_perm kind us ops ops' h with ⟨_, e', _, h2⟩ | ⟨j, _, h1, _, _⟩
    · rw [h2]; exact Rel2.error _ _
    · rw [hj] at h1; cases h1
  | ok j =>
    rcases joinN_perm kind us ops ops' h with ⟨_, _, h1, _⟩ | ⟨j0, j', h1, h2, hjj⟩
    · rw [hj] at h1; cases h1
    · rw [hj] at h1
      have hjeq : j = j0 := Except.ok.inj h1
      subst hjeq
      rw [h2]
      have wj := joinN_WF kind us ops _ w hj
      have wj' := joinN_WF kind us ops' _ w' h2
      show Rel2 DSEquiv (evalD [(jname, _)] body >>= fun r => strip r) (evalD [(jname, _)] body >>= fun r => strip r)
      refine Rel2.bind (evalD_perm _ _ (envWF_single _ wj) (envWF_single _ wj') (envEquiv_single _ _ hjj) body hb hp) ?_
      intro r r' hrr
      exact renameDS_perm_aux unqual r r' hrr

/-- the binary form, exactly as `C33.ExtPerm` asks for an `app2` operator. -/
theorem join_perm (kind : JoinKind) (us : Option (List String)) (body : DExpr) (a1 a2 : String)
    (hb : ExtWF body) (hp : ExtPerm body) :
    ∀ x y x' y', x.WF → y.WF → DSEquiv x x' → DSEquiv y y' →
      Rel2 DSEquiv (join2F kind us body a1 a2 x y) (join2F kind us body a1 a2 x' y') := by
  intro x y x' y' wx wy hx hy
  refine joinBody_perm kind us body [(a1, x), (a2, y)] [(a1, x'), (a2, y')] hb hp ?_ ?_
  · intro o ho
    rcases List.mem_cons.1 ho with rfl | ho
    · exact wx
    · rcases List.mem_cons.1 ho with rfl | ho
      · exact wy
      · cases ho
  · simp only [OpsEquiv]
    exact ⟨trivial, hx, trivial, hy, trivial⟩

/-- `C10.evalD_WF` applies to expressions that contain joins. -/
theorem joinE_ExtWF (kind : JoinKind) (us : Option (List String)) (body : DExpr) (a1 a2 : String) (e1 e2 : DExpr)
    (hb : ExtWF body) (h1 : ExtWF e1) (h2 : ExtWF e2) : ExtWF (joinE kind us body a1 e1 a2 e2) :=
  ⟨h1, h2, join_WF kind us body a1 a2 hb⟩

/-- `C33.evalD_perm` applies to expressions that contain joins. -/
theorem joinE_ExtPerm (kind : JoinKind) (us : Option (List String)) (body : DExpr) (a1 a2 : String) (e1 e2 : DExpr)
    (hb : ExtWF body) (hp : ExtPerm body) (h1 : ExtPerm e1) (h2 : ExtPerm e2) :
    ExtPerm (joinE kind us body a1 e1 a2 e2) :=
  ⟨h1, h2, join_perm kind us body a1 a2 hb hp⟩

/-! ## the engine's n-ary full join is NOT the specified one (counter-example, replayed on the real code) -/

def wx : DS := DS.mk ["Id_1"] ["Me_1"] [[("Id_1", .int 1), ("Me_1", .int 10)]]
def wy : DS := DS.mk ["Id_1"] ["Me_3"] [[("Id_1", .int 1), ("Me_3", .str "x")], [("Id_1", .int 3), ("Me_3", .str "y")]]
def wz : DS := DS.mk ["Id_1"] ["Me_5"] [[("Id_1", .int 3), ("Me_5", .int 5)], [("Id_1", .int 4), ("Me_5", .int 6)]]

instance (d : DS) : Decidable d.WF := by unfold DS.WF; exact inferInstance

/-- `full_join(x, y, z)` as `visit_JoinOp` transpiles it (`implFull3`: the third operand is matched on the
FIRST operand's key only) returns the identifier `Id_1 = 3` twice on this input — the result is not a
dataset — whereas the specified join returns three datapoints with unique identifiers, the datapoints of
`y` and `z` for `Id_1 = 3` combined.  The check replays exactly this witness through `run()`
(corpus case `full3-key-only-in-2nd-and-3rd`; known finding). -/
theorem full3_impl_counter :
    ¬ (implFull3 ["Id_1"] wx wy wz).WF ∧ (implFull3 ["Id_1"] wx wy wz).keys = [[.int 1], [.int 3], [.int 3], [.int 4]] ∧
    (joinFold .full none wx [wy, wz]).map (fun r => (decide r.WF, r.rows.map (fun w => (w.get "Id_1", w.get "Me_3", w.get "Me_5")))) =
      .ok (true, [(.int 3, .str "y", .int 5), (.int 1, .str "x", .null), (.int 4, .null, .int 6)]) := by
  decide +kernel

/-! ## non-vacuity: the Reference-Manual data (RM006–RM009), abridged -/

def rowA (i : Int) (j m1 m2 : String) : Row := [("Id_1", .int i), ("Id_2", .str j), ("Me_1", .str m1), ("Me_2", .str m2)]
def rowB (i : Int) (j m1 m2 : String) : Row := [("Id_1", .int i), ("Id_2", .str j), ("Me_1A", .str m1), ("Me_2", .str m2)]
def ds1 : DS := { ids := ["Id_1", "Id_2"], meas := ["Me_1", "Me_2"], rows := [rowA 1 "A" "A" "B", rowA 2 "A" "E" "F"] }
def ds2 : DS := { ids := ["Id_1", "Id_2"], meas := ["Me_1A", "Me_2"], rows := [rowB 1 "A" "B" "Q", rowB 3 "A" "Z" "M"] }
def keepBody : DExpr := .keep (.ds jname) ["Me_1", "d2#Me_2", "Me_1A"]

-- prepared operands (virtual names) and the three keyed joins on them
def p1 : DS := DS.mk ["Id_1", "Id_2"] ["Me_1", "d1#Me_2"]
  ( [[("Id_1", .int 1), ("Id_2", .str "A"), ("Me_1", .str "A"), ("d1#Me_2", .str "B")],
           [("Id_1", .int 2), ("Id_2", .str "A"), ("Me_1", .str "E"), ("d1#Me_2", .str "F")]])
def p2 : DS := DS.mk ["Id_1", "Id_2"] ["Me_1A", "d2#Me_2"]
  ( [[("Id_1", .int 1), ("Id_2", .str "A"), ("Me_1A", .str "B"), ("d2#Me_2", .str "Q")],
           [("Id_1", .int 3), ("Id_2", .str "A"), ("Me_1A", .str "Z"), ("d2#Me_2", .str "M")]])

example : (join2 .inner ["Id_1", "Id_2"] p1 p2).map (·.rows.length) = .ok 1 := by decide +kernel
example : (join2 .left ["Id_1", "Id_2"] p1 p2).map (·.rows.length) = .ok 2 := by decide +kernel
example : (join2 .full ["Id_1", "Id_2"] p1 p2).map (·.rows.length) = .ok 3 := by decide +kernel
example : (join2 .full ["Id_1", "Id_2"] p1 p2).map (fun d => d.rows.map (fun r => (r.get "Id_1", r.get "Me_1", r.get "d2#Me_2"))) =
    .ok [(.int 1, .str "A", .str "Q"), (.int 2, .str "E", .null), (.int 3, .null, .str "M")] := by decide +kernel
example : p1.WF ∧ p2.WF := by unfold DS.WF; decide
-- what the model rejects: a shared non-key name, `using` on a full join, a left join whose right operand has more identifiers
example : join2 .inner ["Id_1", "Id_2"] ds1 ds2 = .error .type := by decide +kernel
example : joinN .full (some ["Id_1"]) [("d1", ds1), ("d2", ds2)] = .error .type := by decide +kernel
example : join2 .left ["Id_1"] p1 p2 = .error .type := by decide +kernel

-- cross join of operands without common names; the whole pipeline on the Reference-Manual data (RM008: full join + keep)
def q2 : DS := DS.mk ["Id_3"] ["Me_7"] [[("Id_3", .int 7), ("Me_7", .int 70)], [("Id_3", .int 8), ("Me_7", .null)]]
example : (join2 .cross [] p1 q2).map (·.rows.length) = .ok 4 := by decide +kernel
example : (joinBody .full none keepBody [("d1", ds1), ("d2", ds2)]).map (fun d => (d.ids, d.meas, d.rows.length)) =
    .ok (["Id_1", "Id_2"], ["Me_1", "Me_1A", "Me_2"], 3) := by decide +kernel
example : (evalD [("DS_1", ds1), ("DS_2", ds2)] (joinE .left none keepBody "d1" (.ds "DS_1") "d2" (.ds "DS_2"))).map
    (fun d => d.rows.map (fun r => (r.get "Id_1", r.get "Me_2"))) = .ok [(.int 1, .str "Q"), (.int 2, .null)] := by decide +kernel
example : ExtWF keepBody ∧ ExtPerm keepBody := by constructor <;> simp [keepBody, ExtWF, ExtPerm]
example : joinBody .inner none (.ds jname) [("d1", ds1), ("d2", ds2)] = .error .type := by decide +kernel   -- Me_2 stays ambiguous

end VtlModel.C04

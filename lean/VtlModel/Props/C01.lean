import VtlModel.Sem.Lemmas
import VtlModel.Sem.ScalarLemmas
/-! # C01 — element-wise operators compute VTL values over matched datapoints

Theorems about the model `VtlModel.Sem` (scalar layer `Value.lean`, dataset layer `Eval.lean`).
The model is tied to the implementation by the correspondence check `harness/checks/c01.py`
(same generated scripts and data through the real `run()` and through `Drivers/Sem.lean`). -/
namespace VtlModel.C01
open VtlModel.Sem

/-! ## Three-valued logic (all values, no bound) -/

theorem and3_comm (a b : Value) : and3 a b = and3 b a := by
  cases a <;> cases b <;>
    first | rfl | (rename_i x; cases x <;> rfl) | (rename_i x y; cases x <;> cases y <;> rfl)

theorem or3_comm (a b : Value) : or3 a b = or3 b a := by
  cases a <;> cases b <;>
    first | rfl | (rename_i x; cases x <;> rfl) | (rename_i x y; cases x <;> cases y <;> rfl)

theorem xor3_comm (a b : Value) : xor3 a b = xor3 b a := by
  cases a <;> cases b <;>
    first | rfl | (rename_i x; cases x <;> rfl) | (rename_i x y; cases x <;> cases y <;> rfl)

/-- a logical value: true, false or null. -/
def Logical : Value → Prop
  | .bool _ => True
  | .null => True
  | _ => False

theorem and3_assoc (a b c : Value) (ha : Logical a) (hb : Logical b) (hc : Logical c) :
    (and3 a b >>= fun x => and3 x c) = (and3 b c >>= fun y => and3 a y) := by
  cases a <;> cases b <;> cases c <;> simp [Logical] at ha hb hc <;> try rfl
  all_goals (first | rfl | (rename_i x; cases x <;> rfl) | (rename_i x y; cases x <;> cases y <;> rfl)
                   | (rename_i x y z; cases x <;> cases y <;> cases z <;> rfl))

theorem or3_assoc (a b c : Value) (ha : Logical a) (hb : Logical b) (hc : Logical c) :
    (or3 a b >>= fun x => or3 x c) = (or3 b c >>= fun y => or3 a y) := by
  cases a <;> cases b <;> cases c <;> simp [Logical] at ha hb hc <;> try rfl
  all_goals (first | rfl | (rename_i x; cases x <;> rfl) | (rename_i x y; cases x <;> cases y <;> rfl)
                   | (rename_i x y z; cases x <;> cases y <;> cases z <;> rfl))

/-- De Morgan under Kleene semantics. -/
theorem de_morgan_and (a b : Value) (ha : Logical a) (hb : Logical b) :
    (and3 a b >>= not3) = (do or3 (← not3 a) (← not3 b)) := by
  cases a <;> cases b <;> simp [Logical] at ha hb <;> try rfl
  all_goals (first | rfl | (rename_i x; cases x <;> rfl) | (rename_i x y; cases x <;> cases y <;> rfl))

theorem de_morgan_or (a b : Value) (ha : Logical a) (hb : Logical b) :
    (or3 a b >>= not3) = (do and3 (← not3 a) (← not3 b)) := by
  cases a <;> cases b <;> simp [Logical] at ha hb <;> try rfl
  all_goals (first | rfl | (rename_i x; cases x <;> rfl) | (rename_i x y; cases x <;> cases y <;> rfl))

/-- `xor` is `(a ∧ ¬b) ∨ (¬a ∧ b)` in three-valued logic (the expansion the engine emits). -/
theorem xor3_expansion (a b : Value) (ha : Logical a) (hb : Logical b) :
    xor3 a b = (do or3 (← and3 a (← not3 b)) (← and3 (← not3 a) b)) := by
  cases a <;> cases b <;> simp [Logical] at ha hb <;> try rfl
  all_goals (first | rfl | (rename_i x; cases x <;> rfl) | (rename_i x y; cases x <;> cases y <;> rfl))

/-- `false` dominates `and`, `true` dominates `or`, even against null. -/
theorem and3_false_null : and3 (.bool false) .null = .ok (.bool false) ∧ and3 .null (.bool false) = .ok (.bool false) :=
  ⟨rfl, rfl⟩
theorem or3_true_null : or3 (.bool true) .null = .ok (.bool true) ∧ or3 .null (.bool true) = .ok (.bool true) :=
  ⟨rfl, rfl⟩
theorem and3_true_null : and3 (.bool true) .null = .ok .null := rfl
theorem or3_false_null : or3 (.bool false) .null = .ok .null := rfl

/-! ## Null propagation -/

/-- every strict binary operator: with a null left operand, any value it returns is null. -/
theorem null_propagates_left (op : BinOp) (v r : Value) (hs : op.strict = true)
    (h : binop op .null v = .ok r) : r = .null := by
  rcases binop_null_left op v hs with h' | h' <;> rw [h'] at h <;> cases h
  rfl

/-- … and with a null right operand. -/
theorem null_propagates_right (op : BinOp) (v r : Value) (hs : op.strict = true)
    (h : binop op v .null = .ok r) : r = .null := by
  rcases binop_null_right op v hs with h' | h' <;> rw [h'] at h <;> cases h
  rfl

/-- unary operators other than `isnull` return null on null. -/
theorem unop_null (op : UnOp) (h : op ≠ .isnull) : unop op .null = .ok .null := by
  cases op <;> first | rfl | exact absurd rfl h

/-- `isnull` never returns null. -/
theorem isnull_total (v : Value) : unop .isnull v = .ok (.bool v.isNull) := by
  cases v <;> rfl

theorem nvl_spec (v d : Value) : nvl v d = .ok (if v = .null then d else v) := by
  cases v <;> simp [nvl]

theorem between_null (x lo hi : Value) (h : x = .null ∨ lo = .null ∨ hi = .null) :
    between x lo hi = .ok .null := by
  rcases h with rfl | rfl | rfl
  · rfl
  · cases x <;> rfl
  · cases x <;> cases lo <;> rfl

/-! ## Division by zero is an error, never a value -/

theorem div_zero (a d : Value) (hd : d.toRat? = some 0) : vdiv a d = .error .divZero := by
  unfold vdiv
  simp [hd]

theorem div_zero_int (a : Value) : binop .div a (.int 0) = .error .divZero := by
  show vdiv a (.int 0) = _
  apply div_zero; simp [Value.toRat?]

theorem div_null_divisor (q : Rat) : vdiv (.num q) .null = .ok .null := rfl

theorem div_value (n d : Rat) (hd : d ≠ 0) : vdiv (.num n) (.num d) = .ok (.num (n / d)) := by
  simp [vdiv, Value.toRat?, hd]

/-! ## Dataset level: the operator is applied per measure, identifiers pass through -/

/-- `mapm` (dataset ∘ scalar, unary, parameterised operators): the result rows are exactly the
images of the operand's rows; no datapoint is lost or invented. -/
theorem mapm_rows (env : Env) (d : DExpr) (body : SExpr) (out : Option String) (x res : DS)
    (hx : evalD env d = .ok x) (h : evalD env (.mapm d body out) = .ok res) (r' : Row) :
    r' ∈ res.rows ↔ ∃ r ∈ x.rows, mapmRow x body out r = .ok (some r') := by
  simp only [evalD, hx, bind, Except.bind] at h
  cases hm : mapRows (mapmRow x body out) x.rows with
  | error e => simp [hm] at h
  | ok rows =>
    simp [hm, pure, Except.pure] at h
    subst h
    exact mapRows_mem _ _ _ hm r'

/-- identifiers and the structure: `mapm` keeps the identifier list and (modulo the mono-measure
rename) the measure list. -/
theorem mapm_struct (env : Env) (d : DExpr) (body : SExpr) (out : Option String) (x res : DS)
    (hx : evalD env d = .ok x) (h : evalD env (.mapm d body out) = .ok res) :
    res.ids = x.ids ∧ res.meas = x.meas.map (outName x.meas out) := by
  simp only [evalD, hx, bind, Except.bind] at h
  cases hm : mapRows (mapmRow x body out) x.rows with
  | error e => simp [hm] at h
  | ok rows => simp [hm, pure, Except.pure] at h; subst h; exact ⟨rfl, rfl⟩

/-- the value of every measure of an output row is `body` applied to that measure of the input row
(`measVals`), and the identifiers are those of the input row. -/
theorem mapmRow_shape (x : DS) (body : SExpr) (out : Option String) (r r' : Row)
    (h : mapmRow x body out r = .ok (some r')) :
    ∃ vals, measVals x body out r = .ok vals ∧ r' = r.proj x.ids ++ vals := by
  unfold mapmRow at h
  cases hv : measVals x body out r with
  | error e => simp [hv, Except.map] at h
  | ok vals =>
    simp [hv, Except.map] at h
    exact ⟨vals, rfl, h.symm⟩

/-- an error on any measure of any datapoint fails the whole operator (e.g. a zero divisor). -/
theorem mapm_error_iff (env : Env) (d : DExpr) (body : SExpr) (out : Option String) (x : DS)
    (hx : evalD env d = .ok x) :
    (∃ e, evalD env (.mapm d body out) = .error e) ↔ ∃ r ∈ x.rows, ∃ e, mapmRow x body out r = .error e := by
  rw [← mapRows_error_iff]
  simp only [evalD, hx, bind, Except.bind]
  cases hm : mapRows (mapmRow x body out) x.rows with
  | error e => simp
  | ok rows => simp [pure, Except.pure]

/-! ### dataset ∘ dataset: matched on the common identifiers, unmatched datapoints absent -/

/-- with unique keys in the smaller operand, `partner` finds exactly the row with the same key. -/
theorem partner_iff (small : DS) (rb rs : Row) (hn : small.keys.Nodup) :
    partner small rb = some rs ↔ rs ∈ small.rows ∧ rs.key small.ids = rb.key small.ids := by
  obtain ⟨ids, meas, rows⟩ := small
  simp only [partner, DS.keys] at *
  constructor
  · intro h
    have h1 := List.find?_some h
    have h2 := List.mem_of_find?_eq_some h
    exact ⟨h2, by simpa using h1⟩
  · rintro ⟨hm, hk⟩
    induction rows with
    | nil => cases hm
    | cons a l ih =>
      simp only [List.map_cons, List.nodup_cons] at hn
      simp only [List.find?_cons]
      by_cases ha : (a.key ids == rb.key ids) = true
      · simp only [ha]
        rcases List.mem_cons.1 hm with rfl | hm'
        · rfl
        · exfalso
          apply hn.1
          have : a.key ids = rs.key ids := by
            rw [hk]; simpa using ha
          rw [this]
          exact List.mem_map.2 ⟨rs, hm', rfl⟩
      · simp only [ha]
        rcases List.mem_cons.1 hm with rfl | hm'
        · exfalso; apply ha; simp [hk]
        · exact ih hn.2 hm'

/-- `zip` when the right operand's identifiers are a subset of the left's: a row is in the result
iff it is built from a left row and THE right row with the same values on the common identifiers.
Left rows without a partner contribute nothing; nothing else is in the result. -/
theorem zip_rows_left (env : Env) (a b : DExpr) (body : SExpr) (out : Option String) (x y res : DS)
    (hx : evalD env a = .ok x) (hy : evalD env b = .ok y) (hs : subset y.ids x.ids = true)
    (h : evalD env (.zip a b body out) = .ok res) (r' : Row) :
    r' ∈ res.rows ↔ ∃ rb ∈ x.rows,
      zipRow x y true (x.meas.filter y.meas.contains) body out rb = .ok (some r') := by
  simp only [evalD, hx, hy, bind, Except.bind, hs, if_true] at h
  cases hm : mapRows (zipRow x y true (x.meas.filter y.meas.contains) body out) x.rows with
  | error e => simp [hm] at h
  | ok rows =>
    simp [hm, pure, Except.pure] at h
    subst h
    exact mapRows_mem _ _ _ hm r'

/-- a left datapoint without a partner yields no output datapoint (and no error). -/
theorem zipRow_unmatched (big small : DS) (l : Bool) (ms : List String) (body : SExpr) (out : Option String)
    (rb : Row) (h : partner small rb = none) : zipRow big small l ms body out rb = .ok none := by
  simp [zipRow, h]

/-- a matched pair yields exactly the big operand's identifiers plus `body` per common measure
(`zipVals`: the left operand's measure in `hole`, the right operand's in `hole2`). -/
theorem zipRow_matched (big small : DS) (l : Bool) (ms : List String) (body : SExpr) (out : Option String)
    (rb rs r' : Row) (hp : partner small rb = some rs)
    (h : zipRow big small l ms body out rb = .ok (some r')) :
    ∃ vals, zipVals ms body out (if l then rb else rs) (if l then rs else rb) = .ok vals
      ∧ r' = rb.proj big.ids ++ vals := by
  simp only [zipRow, hp] at h
  cases hv : zipVals ms body out (if l then rb else rs) (if l then rs else rb) with
  | error e => simp [hv, Except.map] at h
  | ok vals =>
    simp [hv, Except.map] at h
    exact ⟨vals, rfl, h.symm⟩

/-- the result of `zip` never has more datapoints than the operand that carries the identifiers. -/
theorem zip_rowcount_left (env : Env) (a b : DExpr) (body : SExpr) (out : Option String) (x y res : DS)
    (hx : evalD env a = .ok x) (hy : evalD env b = .ok y) (hs : subset y.ids x.ids = true)
    (h : evalD env (.zip a b body out) = .ok res) : res.rows.length ≤ x.rows.length := by
  simp only [evalD, hx, hy, bind, Except.bind, hs, if_true] at h
  cases hm : mapRows (zipRow x y true (x.meas.filter y.meas.contains) body out) x.rows with
  | error e => simp [hm] at h
  | ok rows =>
    simp [hm, pure, Except.pure] at h
    subst h
    exact mapRows_length_le _ _ _ hm

/-! ## Non-vacuity: concrete states meeting the hypotheses -/

def row (i : Int) (m : Value) : Row := [("Id_1", Value.int i), ("Me_1", m)]
def exA : DS := { ids := ["Id_1"], meas := ["Me_1"], rows := [row 1 (Value.int 10), row 2 Value.null, row 3 (Value.int 5)] }
def exB : DS := { ids := ["Id_1"], meas := ["Me_1"], rows := [row 2 (Value.int 7), row 3 (Value.int 0), row 4 (Value.int 1)] }
def exEnv : Env := [("A", exA), ("B", exB)]

/-- A + B: key 1 (no partner) and key 4 (not in A) are absent; null propagates on key 2. -/
example : evalD exEnv (.zip (.ds "A") (.ds "B") (.bin .add .hole .hole2) none) =
    .ok { ids := ["Id_1"], meas := ["Me_1"], rows := [row 2 Value.null, row 3 (Value.int 5)] } := by decide
/-- A / B fails on key 3 (divisor 0). -/
example : evalD exEnv (.zip (.ds "A") (.ds "B") (.bin .div .hole .hole2) none) = .error .divZero := by decide
example : exB.keys.Nodup := by decide
example : subset exB.ids exA.ids = true := by decide

end VtlModel.C01

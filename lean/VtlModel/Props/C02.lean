import VtlModel.Sem.Lemmas
import VtlModel.Sem.RowLemmas
/-! # C02 — clause operators (filter, calc, keep, drop, rename, sub) behave as specified

Theorems about `VtlModel.Sem.evalD` on the clause constructors, for every dataset and every clause
(any number of rows, any expression), and for clause chains of any length. -/
namespace VtlModel.C02
open VtlModel.Sem

/-! ## filter: exactly the datapoints whose condition is TRUE -/

theorem filterRow_some (c : SExpr) (r r' : Row) :
    filterRow c r = .ok (some r') ↔ r' = r ∧ evalS r .null .null c = .ok (.bool true) := by
  unfold filterRow
  cases h : evalS r .null .null c with
  | error e => simp
  | ok v =>
    cases v with
    | bool b => cases b <;> simp [eq_comm]
    | _ => simp

/-- a datapoint is in the result iff it is in the operand and the condition evaluates to TRUE on it
(FALSE and NULL both drop the datapoint). -/
theorem filter_iff (env : Env) (d : DExpr) (c : SExpr) (x res : DS)
    (hx : evalD env d = .ok x) (h : evalD env (.filter d c) = .ok res) (r : Row) :
    r ∈ res.rows ↔ r ∈ x.rows ∧ evalS r .null .null c = .ok (.bool true) := by
  simp only [evalD, hx, bind, Except.bind] at h
  cases hm : mapRows (filterRow c) x.rows with
  | error e => simp [hm] at h
  | ok rows =>
    simp [hm, pure, Except.pure] at h
    subst h
    rw [mapRows_mem _ _ _ hm r]
    constructor
    · rintro ⟨r0, h0, hf⟩
      obtain ⟨rfl, hc⟩ := (filterRow_some c r0 r).1 hf
      exact ⟨h0, hc⟩
    · rintro ⟨h0, hc⟩
      exact ⟨r, h0, (filterRow_some c r r).2 ⟨rfl, hc⟩⟩

theorem filter_null_drops (c : SExpr) (r : Row) (h : evalS r .null .null c = .ok .null) :
    filterRow c r = .ok none := by simp [filterRow, h]

theorem filter_false_drops (c : SExpr) (r : Row) (h : evalS r .null .null c = .ok (.bool false)) :
    filterRow c r = .ok none := by simp [filterRow, h]

/-- filter changes no component. -/
theorem filter_struct (env : Env) (d : DExpr) (c : SExpr) (x res : DS)
    (hx : evalD env d = .ok x) (h : evalD env (.filter d c) = .ok res) :
    res.ids = x.ids ∧ res.meas = x.meas := by
  simp only [evalD, hx, bind, Except.bind] at h
  cases hm : mapRows (filterRow c) x.rows with
  | error e => simp [hm] at h
  | ok rows => simp [hm, pure, Except.pure] at h; subst h; exact ⟨rfl, rfl⟩

/-! ## calc: adds or overwrites exactly the named components -/

theorem calcRow_some (keep : List String) (items : List (String × SExpr)) (r r' : Row) :
    calcRow keep items r = .ok (some r') ↔ ∃ vs, calcVals items r = .ok vs ∧ r' = r.proj keep ++ vs := by
  unfold calcRow
  cases h : calcVals items r with
  | error e => simp [Except.map]
  | ok vs => simp [Except.map, eq_comm]

/-- result rows of calc: one per operand row (no datapoint lost or invented), consisting of the
unnamed components of that row followed by the computed ones. -/
theorem calc_rows (env : Env) (d : DExpr) (items : List (String × SExpr)) (x res : DS)
    (hx : evalD env d = .ok x) (h : evalD env (.calc d items) = .ok res) (r' : Row) :
    r' ∈ res.rows ↔ ∃ r ∈ x.rows, ∃ vs, calcVals items r = .ok vs ∧
      r' = r.proj (x.ids ++ x.meas.filter (fun m => !(items.map (·.1)).contains m)) ++ vs := by
  simp only [evalD, hx, bind, Except.bind] at h
  split at h
  · cases h
  · cases hm : mapRows (calcRow (x.ids ++ x.meas.filter (fun m => !(items.map (·.1)).contains m)) items) x.rows with
    | error e => rw [hm] at h; cases h
    | ok rows =>
      rw [hm] at h
      simp only [pure, Except.pure, Except.ok.injEq] at h
      subst h
      rw [mapRows_mem _ _ _ hm r']
      constructor
      · rintro ⟨r, hr, hf⟩; exact ⟨r, hr, (calcRow_some _ _ _ _).1 hf⟩
      · rintro ⟨r, hr, hf⟩; exact ⟨r, hr, (calcRow_some _ _ _ _).2 hf⟩

/-- frame condition: a component that calc does not name keeps its value in every datapoint. -/
theorem calc_frame (keep : List String) (items : List (String × SExpr)) (r r' : Row) (n : String)
    (h : calcRow keep items r = .ok (some r')) (hn : n ∈ keep) : r'.get n = r.get n := by
  obtain ⟨vs, _, rfl⟩ := (calcRow_some keep items r r').1 h
  exact get_proj_append r keep vs n hn

/-- the structure after calc: identifiers unchanged; measures = the unnamed ones, then the named ones. -/
theorem calc_struct (env : Env) (d : DExpr) (items : List (String × SExpr)) (x res : DS)
    (hx : evalD env d = .ok x) (h : evalD env (.calc d items) = .ok res) :
    res.ids = x.ids ∧ res.meas = x.meas.filter (fun m => !(items.map (·.1)).contains m) ++ items.map (·.1) := by
  simp only [evalD, hx, bind, Except.bind] at h
  split at h
  · cases h
  · cases hm : mapRows (calcRow (x.ids ++ x.meas.filter (fun m => !(items.map (·.1)).contains m)) items) x.rows with
    | error e => rw [hm] at h; cases h
    | ok rows => rw [hm] at h; simp only [pure, Except.pure, Except.ok.injEq] at h; subst h; exact ⟨rfl, rfl⟩

/-- a single calc item: the named component holds the value of the expression on the INPUT row. -/
theorem calc_single_value (keep : List String) (name : String) (e : SExpr) (r r' : Row) (v : Value)
    (hv : evalS r .null .null e = .ok v) (hk : name ∉ keep)
    (h : calcRow keep [(name, e)] r = .ok (some r')) : r'.get name = v := by
  obtain ⟨vs, hvs, rfl⟩ := (calcRow_some keep _ r r').1 h
  simp [calcVals, hv, Except.map, pure, Except.pure, bind, Except.bind] at hvs
  subst hvs
  rw [get_proj_append_not_mem r keep _ name hk]
  simp [Row.get]

/-- calc cannot redefine an identifier. -/
theorem calc_rejects_identifier (env : Env) (d : DExpr) (items : List (String × SExpr)) (x : DS)
    (hx : evalD env d = .ok x) (hid : (items.map (·.1)).any x.ids.contains = true) :
    evalD env (.calc d items) = .error .type := by
  simp [evalD, hx, bind, Except.bind, hid]

/-! ## keep / drop / rename: only the listed components change -/

theorem keep_spec (env : Env) (d : DExpr) (ns : List String) (x : DS) (hx : evalD env d = .ok x) :
    evalD env (.keep d ns) = .ok { ids := x.ids, meas := x.meas.filter ns.contains,
                                   rows := x.rows.map (·.proj (x.ids ++ x.meas.filter ns.contains)) } := by
  simp [evalD, hx, bind, Except.bind, pure, Except.pure]

theorem drop_spec (env : Env) (d : DExpr) (ns : List String) (x : DS) (hx : evalD env d = .ok x) :
    evalD env (.drop d ns) = .ok { ids := x.ids, meas := x.meas.filter (fun m => !ns.contains m),
                                   rows := x.rows.map (·.proj (x.ids ++ x.meas.filter (fun m => !ns.contains m))) } := by
  simp [evalD, hx, bind, Except.bind, pure, Except.pure]

/-- keep/drop never touch an identifier or a retained measure: same value in every datapoint. -/
theorem keep_frame (r : Row) (comps : List String) (n : String) (hn : n ∈ comps) :
    (r.proj comps).get n = r.get n := get_proj r comps n hn

/-- keep and drop preserve the number of datapoints. -/
theorem keep_rowcount (env : Env) (d : DExpr) (ns : List String) (x res : DS)
    (hx : evalD env d = .ok x) (h : evalD env (.keep d ns) = .ok res) : res.rows.length = x.rows.length := by
  rw [keep_spec env d ns x hx] at h; cases h; simp

theorem drop_rowcount (env : Env) (d : DExpr) (ns : List String) (x res : DS)
    (hx : evalD env d = .ok x) (h : evalD env (.drop d ns) = .ok res) : res.rows.length = x.rows.length := by
  rw [drop_spec env d ns x hx] at h; cases h; simp

theorem rename_spec (env : Env) (d : DExpr) (m : List (String × String)) (x : DS) (hx : evalD env d = .ok x)
    (hn : (x.comps.map (renameOf m)).Nodup) :
    evalD env (.rename d m) = .ok (DS.mk (x.ids.map (renameOf m)) (x.meas.map (renameOf m))
      (x.rows.map (fun r => x.comps.map (fun n => (renameOf m n, r.get n))))) := by
  simp [evalD, hx, bind, Except.bind, pure, Except.pure, hn]

/-- renaming two components to the same name is rejected. -/
theorem rename_collision_rejected (env : Env) (d : DExpr) (m : List (String × String)) (x : DS)
    (hx : evalD env d = .ok x) (hn : ¬ (x.comps.map (renameOf m)).Nodup) :
    evalD env (.rename d m) = .error .type := by
  simp [evalD, hx, bind, Except.bind, hn]

/-- a component that rename does not list keeps its name. -/
theorem rename_unlisted (m : List (String × String)) (n : String) (h : ∀ p ∈ m, p.1 ≠ n) : renameOf m n = n := by
  unfold renameOf
  have : m.lookup n = none := by
    induction m with
    | nil => rfl
    | cons a l ih =>
      obtain ⟨a1, a2⟩ := a
      simp only [List.lookup_cons]
      have hne : n ≠ (a1, a2).1 := fun e => h (a1, a2) List.mem_cons_self e.symm
      have : (n == a1) = false := by simpa using hne
      rw [this]
      exact ih (fun p hp => h p (List.mem_cons_of_mem _ hp))
  simp [this]

/-! ## sub: fixes identifiers, keeps the matching datapoints, removes the fixed identifiers -/

theorem sub_rows (env : Env) (d : DExpr) (fix : List (String × Value)) (x res : DS)
    (hx : evalD env d = .ok x) (h : evalD env (.sub d fix) = .ok res) (r' : Row) :
    r' ∈ res.rows ↔ ∃ r ∈ x.rows, (∀ fv ∈ fix, r.get fv.1 = fv.2) ∧
      r' = r.proj (x.ids.filter (fun i => !(fix.map (·.1)).contains i) ++ x.meas) := by
  simp only [evalD, hx, bind, Except.bind] at h
  split at h
  · cases h
  · simp only [pure, Except.pure, Except.ok.injEq] at h
    subst h
    simp only [List.mem_map, List.mem_filter, subMatch, List.all_eq_true, beq_iff_eq]
    constructor
    · rintro ⟨r, ⟨hr, hm⟩, rfl⟩; exact ⟨r, hr, hm, rfl⟩
    · rintro ⟨r, hr, hm, rfl⟩; exact ⟨r, ⟨hr, hm⟩, rfl⟩

theorem sub_struct (env : Env) (d : DExpr) (fix : List (String × Value)) (x res : DS)
    (hx : evalD env d = .ok x) (h : evalD env (.sub d fix) = .ok res) :
    res.ids = x.ids.filter (fun i => !(fix.map (·.1)).contains i) ∧ res.meas = x.meas := by
  simp only [evalD, hx, bind, Except.bind] at h
  split at h
  · cases h
  · simp only [pure, Except.pure, Except.ok.injEq] at h; subst h; exact ⟨rfl, rfl⟩

/-! ## chains of any length: clauses never invent datapoints -/

inductive Clause where
  | filter (c : SExpr)
  | calcC (items : List (String × SExpr))
  | keep (ns : List String)
  | drop (ns : List String)
  | rename (m : List (String × String))
  | sub (fix : List (String × Value))

def applyC (d : DExpr) : Clause → DExpr
  | .filter c => .filter d c
  | .calcC items => .calc d items
  | .keep ns => .keep d ns
  | .drop ns => .drop d ns
  | .rename m => .rename d m
  | .sub fix => .sub d fix

def chain (d : DExpr) (cs : List Clause) : DExpr := cs.foldl applyC d

theorem applyC_length_le (env : Env) (d : DExpr) (c : Clause) (x res : DS)
    (hx : evalD env d = .ok x) (h : evalD env (applyC d c) = .ok res) : res.rows.length ≤ x.rows.length := by
  cases c with
  | filter c =>
    simp only [applyC, evalD, hx, bind, Except.bind] at h
    cases hm : mapRows (filterRow c) x.rows with
    | error e => simp [hm] at h
    | ok rows => simp [hm, pure, Except.pure] at h; subst h; exact mapRows_length_le _ _ _ hm
  | calcC items =>
    simp only [applyC, evalD, hx, bind, Except.bind] at h
    split at h
    · cases h
    · cases hm : mapRows (calcRow (x.ids ++ x.meas.filter (fun m => !(items.map (·.1)).contains m)) items) x.rows with
      | error e => rw [hm] at h; cases h
      | ok rows => rw [hm] at h; simp only [pure, Except.pure, Except.ok.injEq] at h; subst h; exact mapRows_length_le _ _ _ hm
  | keep ns => simp only [applyC] at h; rw [keep_spec env d ns x hx] at h; cases h; simp
  | drop ns => simp only [applyC] at h; rw [drop_spec env d ns x hx] at h; cases h; simp
  | rename m =>
    simp only [applyC] at h
    by_cases hn : (x.comps.map (renameOf m)).Nodup
    · rw [rename_spec env d m x hx hn] at h; cases h; simp
    · rw [rename_collision_rejected env d m x hx hn] at h; cases h
  | sub fix =>
    simp only [applyC, evalD, hx, bind, Except.bind] at h
    split at h
    · cases h
    · simp only [pure, Except.pure, Except.ok.injEq] at h; subst h; simp only [List.length_map]; exact List.length_filter_le _ _

/-- evaluation of a clause needs its operand: if the clause application succeeds, so did the operand. -/
theorem applyC_operand_ok (env : Env) (d : DExpr) (c : Clause) (res : DS)
    (h : evalD env (applyC d c) = .ok res) : ∃ x, evalD env d = .ok x := by
  cases hd : evalD env d with
  | ok x => exact ⟨x, rfl⟩
  | error e => cases c <;> simp [applyC, evalD, hd, bind, Except.bind] at h

theorem chain_operand_ok (env : Env) (cs : List Clause) : ∀ (d : DExpr) (res : DS),
    evalD env (chain d cs) = .ok res → ∃ x, evalD env d = .ok x := by
  induction cs with
  | nil => intro d res h; exact ⟨res, by simpa [chain] using h⟩
  | cons c cs ih =>
    intro d res h
    have h' : evalD env (chain (applyC d c) cs) = .ok res := by simpa [chain] using h
    obtain ⟨y, hy⟩ := ih (applyC d c) res h'
    exact applyC_operand_ok env d c y hy

/-- for every clause chain (any length) the result has at most as many datapoints as the operand. -/
theorem chain_length_le (env : Env) (cs : List Clause) : ∀ (d : DExpr) (x res : DS),
    evalD env d = .ok x → evalD env (chain d cs) = .ok res → res.rows.length ≤ x.rows.length := by
  induction cs with
  | nil => intro d x res hx h; simp [chain] at h; rw [hx] at h; cases h; exact Nat.le_refl _
  | cons c cs ih =>
    intro d x res hx h
    have h' : evalD env (chain (applyC d c) cs) = .ok res := by simpa [chain] using h
    obtain ⟨y, hy⟩ := chain_operand_ok env cs (applyC d c) res h'
    exact Nat.le_trans (ih (applyC d c) y res hy h') (applyC_length_le env d c x y hx hy)

/-! ## Non-vacuity -/

def row (i : Int) (m : Value) : Row := [("Id_1", Value.int i), ("Me_1", m)]
def exD : DS := { ids := ["Id_1"], meas := ["Me_1"], rows := [row 1 (Value.int 10), row 2 Value.null, row 3 (Value.int (-5))] }
def exEnv : Env := [("A", exD)]
def cond : SExpr := .bin .gt (.col "Me_1") (.const (Value.int 0))

/-- filter Me_1 > 0 keeps key 1 only: key 2 (null condition) and key 3 (false) are dropped. -/
example : evalD exEnv (.filter (.ds "A") cond) = .ok (DS.mk ["Id_1"] ["Me_1"] [row 1 (Value.int 10)]) := by decide
example : evalD exEnv (chain (.ds "A") [.filter cond, .calcC [("Me_2", .bin .mul (.col "Me_1") (.const (Value.int 2)))], .keep ["Me_2"]]) =
    .ok (DS.mk ["Id_1"] ["Me_2"] [[("Id_1", Value.int 1), ("Me_2", Value.int 20)]]) := by decide

end VtlModel.C02

import VtlModel.Errors.Lemmas
import VtlModel.Gen.Catalogue
import VtlModel.Gen.SqlErrors
import VtlModel.Gen.ErrorMap
/-
  C32 — execution failures surface as VTL errors (VTLEngineException subclasses with catalogued codes), never
  as raw DuckDB / Python errors.

  What is proved here, over tables regenerated from the repository on every run:
  * every rule of every transcribed duckdb-error mapper produces a catalogued code with all placeholders
    supplied (`rules_ok`);
  * every engine-authored SQL `error('…')` text is, for ALL run-time values of its non-literal parts, mapped by
    the first-match if-chain of the handler of its phase to such a rule — except the certified list
    `claimedUnmapped` (`engine_errors_mapped_partial`, `_iff`, `_counter`);
  * which phases of `run()` have every DuckDB call wrapped (`all_phases_mapped_iff`, `_partial`, `_counter`);
  * which of the DuckDB-native messages (enumerated by probing the installed DuckDB — not derived) are mapped
    by the statement handler (`native_errors_mapped_partial`).
  The certified lists are recomputed by the kernel (`*_exact`); the check replays each entry on the real code.
-/
namespace VtlModel.C32
open VtlModel.Errors VtlModel.Gen.Catalogue VtlModel.Gen.SqlErrors VtlModel.Gen.ErrorMap

/-- a rule's outcomes are constructible: catalogued code, every placeholder supplied -/
def RuleOk (r : Rule) : Prop :=
  r.outs ≠ [] ∧ ∀ o ∈ r.outs, ∃ m, findMsg catalogue o.code = some m ∧
    (o.star = true ∨ ∀ n ∈ placeholders m.tmpl, n ∈ o.kwargs)

theorem ruleOkB_iff (r : Rule) : ruleOkB catalogue r = true ↔ RuleOk r := by
  unfold ruleOkB RuleOk
  simp only [Bool.and_eq_true, Bool.not_eq_true', List.all_eq_true]
  constructor
  · rintro ⟨h1, h2⟩
    refine ⟨by intro e; simp [e] at h1, fun o ho => ?_⟩
    have := h2 o ho
    unfold outcomeOkB at this
    cases hm : findMsg catalogue o.code with
    | none => rw [hm] at this; cases this
    | some m =>
      rw [hm] at this
      refine ⟨m, rfl, ?_⟩
      simp only [Bool.or_eq_true, suppliesB_iff] at this
      exact this
  · rintro ⟨h1, h2⟩
    refine ⟨?_, fun o ho => ?_⟩
    · cases hc : r.outs with
      | nil => exact absurd hc h1
      | cons _ _ => rfl
    · obtain ⟨m, hm, h⟩ := h2 o ho
      unfold outcomeOkB
      rw [hm]
      simp only [Bool.or_eq_true, suppliesB_iff]
      exact h

/-- Every rule of every mapper (`_map_query_error`, `map_duckdb_error`, coded raises in handlers) yields a
    catalogued code whose placeholders are all supplied (full strength). -/
theorem rules_ok : ∀ rules ∈ mappers, ∀ r ∈ rules, RuleOk r := by
  have h : mappers.all (fun rules => rules.all (ruleOkB catalogue)) = true := by decide +kernel
  intro rules hr r hrr
  exact (ruleOkB_iff r).1 (List.all_eq_true.1 (List.all_eq_true.1 h rules hr) r hrr)

/-- "text `e` raised in phase `p` always reaches the caller as a catalogued VTL error": the phase is wrapped and
    every handler's if-chain maps the text to an ok rule whatever the non-literal parts contain and whatever
    DuckDB puts around it. -/
def MappedIn (e : SqlError) (p : Nat) : Prop :=
  ∃ rs, phaseRules dbSites mappers p = some rs ∧ ∀ rules ∈ rs, ∀ (pre post : List Nat) (fills : List (List Nat)),
    ∃ r ∈ rules, firstMatch rules (runtimeText pre e.msg fills post) = some r ∧ RuleOk r

/-- The kernel recomputes the (error, phase) pairs without a guaranteed mapping. -/
theorem unmapped_exact : unmappedFrom dbSites mappers 0 sqlErrors = claimedUnmapped := by decide +kernel

theorem mappedIn_of_B (e : SqlError) (p : Nat) (h : mappedInB dbSites mappers e p = true) : MappedIn e p := by
  unfold mappedInB at h
  cases hp : phaseRules dbSites mappers p with
  | none => rw [hp] at h; cases h
  | some rs =>
    rw [hp] at h
    refine ⟨rs, hp, fun rules hrs pre post fills => ?_⟩
    have hst : someRuleStatic rules e.msg = true := List.all_eq_true.1 h rules hrs
    obtain ⟨r, hr, hf⟩ := mapped_of_static rules e.msg hst pre post fills
    refine ⟨r, hr, hf, ?_⟩
    -- rules is one of the transcribed mappers
    have hmem : rules ∈ mappers := by
      unfold phaseRules at hp
      split at hp
      · simp only [Option.some.injEq] at hp
        subst hp
        simp only [List.mem_map] at hrs
        obtain ⟨s, _, hs⟩ := hrs
        cases getD_nil_or_mem mappers (s.mapper - 2) with
        | inl hnil => rw [hs] at hnil; subst hnil; cases hr
        | inr hm => rw [hs] at hm; exact hm
      · cases hp
    exact rules_ok rules hmem r hr

/-- Every engine-authored SQL error text outside the certified list is mapped, in each non-load phase where it
    can be raised, for all run-time values. -/
theorem engine_errors_mapped_partial (k : Nat) (e : SqlError) (hk : sqlErrors[k]? = some e) (p : Nat)
    (hp : p ∈ e.phases) (hl : p ≠ phaseLoad) (hc : (k, p) ∉ claimedUnmapped) : MappedIn e p := by
  rw [← unmapped_exact] at hc
  apply mappedIn_of_B
  cases h : mappedInB dbSites mappers e p with
  | true => rfl
  | false =>
    exact absurd ((mem_unmappedFrom dbSites mappers sqlErrors 0 k p).2 ⟨k, e, hk, by omega, hp, hl, h⟩) hc

/-- Full-strength statement in its decidable form, and its status on this tree. -/
def EngineErrorsMapped : Prop :=
  ∀ (k : Nat) (e : SqlError), sqlErrors[k]? = some e → ∀ p ∈ e.phases, p ≠ phaseLoad → mappedInB dbSites mappers e p = true

theorem engine_errors_mapped_iff : EngineErrorsMapped ↔ claimedUnmapped = [] := by
  rw [← unmapped_exact]
  constructor
  · intro h
    cases hb : unmappedFrom dbSites mappers 0 sqlErrors with
    | nil => rfl
    | cons x t =>
      have hx : (x.1, x.2) ∈ unmappedFrom dbSites mappers 0 sqlErrors := by rw [hb]; simp
      obtain ⟨k, e, h1, h2, h3, h4, h5⟩ := (mem_unmappedFrom dbSites mappers sqlErrors 0 x.1 x.2).1 hx
      have := h k e h1 x.2 h3 h4
      rw [h5] at this; cases this
  · intro h k e hk p hp hl
    cases hm : mappedInB dbSites mappers e p with
    | true => rfl
    | false =>
      have : (k, p) ∈ unmappedFrom dbSites mappers 0 sqlErrors :=
        (mem_unmappedFrom dbSites mappers sqlErrors 0 k p).2 ⟨k, e, hk, by omega, hp, hl, hm⟩
      rw [h] at this; cases this

theorem engine_errors_mapped_counter (h : claimedUnmapped ≠ []) : ¬ EngineErrorsMapped :=
  fun hm => h (engine_errors_mapped_iff.1 hm)

/-! ### phases -/

def AllPhasesMapped : Prop := ∀ p ∈ allPhases, phaseWrappedB dbSites p = true

theorem unwrapped_exact : unwrappedPhases dbSites = claimedUnwrapped := by decide +kernel

theorem all_phases_mapped_iff : AllPhasesMapped ↔ claimedUnwrapped = [] := by
  rw [← unwrapped_exact]
  unfold AllPhasesMapped unwrappedPhases
  rw [List.filter_eq_nil_iff]
  constructor
  · intro h p hp; simp [h p hp]
  · intro h p hp
    have := h p hp
    simpa using this

/-- Statement execution — the phase in which every VTL operator's run-time failure arises — is wrapped. -/
theorem all_phases_mapped_partial : phaseWrappedB dbSites phaseStmt = true := by decide +kernel

theorem all_phases_mapped_counter (h : claimedUnwrapped ≠ []) : ¬ AllPhasesMapped :=
  fun hm => h (all_phases_mapped_iff.1 hm)

/-! ### DuckDB-native messages (enumerated by probing the installed DuckDB) -/

theorem native_unmapped_exact :
    nativeUnmappedFrom (stmtRules dbSites mappers) 0 nativeErrors = claimedNativeUnmapped := by decide +kernel

/-- Every probed DuckDB-native message outside the certified list is turned into an ok rule by the statement
    handler's if-chain. -/
theorem native_errors_mapped_partial (k : Nat) (t : List Nat) (hk : nativeErrors[k]? = some t)
    (hc : k ∉ claimedNativeUnmapped) :
    ∃ r, firstMatch (stmtRules dbSites mappers) (t.map lowerAscii) = some r ∧ RuleOk r := by
  rw [← native_unmapped_exact] at hc
  cases hf : firstMatch (stmtRules dbSites mappers) (t.map lowerAscii) with
  | none => exact absurd ((mem_nativeUnmappedFrom _ nativeErrors 0 k).2 ⟨k, t, hk, by omega, hf⟩) hc
  | some r =>
    refine ⟨r, rfl, ?_⟩
    have hr := firstMatch_mem _ _ _ hf
    have hmem : stmtRules dbSites mappers ∈ mappers := by
      unfold stmtRules at hr ⊢
      split at hr
      · cases hr
      · rename_i s _ _
        cases getD_nil_or_mem mappers (s.mapper - 2) with
        | inl hnil => rw [hnil] at hr; cases hr
        | inr hm => exact hm
    exact rules_ok _ hmem r hr

/-! ### non-vacuity -/

example : sqlErrors.length ≥ 10 ∧ mappers.length ≥ 2 ∧ dbSites.length ≥ 10 := by decide +kernel
example : (stmtRules dbSites mappers).length ≥ 5 := by decide +kernel
-- the if-chain model distinguishes texts: a division text is mapped, an unknown one is not
example : (firstMatch [⟨.has [100, 105, 118], [⟨0, 0, [], false⟩]⟩] [97, 100, 105, 118]).isSome = true := by decide
example : (firstMatch [⟨.has [100, 105, 118], [⟨0, 0, [], false⟩]⟩] [97, 100, 105]).isSome = false := by decide

end VtlModel.C32

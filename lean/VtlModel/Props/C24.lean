/-
  C24 — prettify preserves meaning and is idempotent (token-level model of ASTString + the `expr` rule).

  Proved for every tree / token stream of the fragment (constants, identifiers, prefix and infix operators
  at the grammar's precedence levels, explicit parentheses, calls, `#`, `in`/`not_in`, clause application,
  calc items), with no bound on size or depth:
    * `parse_render`      a tree as a parse produces it (NF) is recovered exactly from what ASTString prints;
    * `render_parse`      whatever the parser accepts, ASTString prints back token for token
                          (prettify changes layout only);
    * `render_idempotent` printing, re-parsing and printing again gives the same tokens — for ANY tree;
    * `reparse_stable`    the re-parsed tree is a fixpoint of parse ∘ render;
    * `prec_matches_grammar…` the precedence levels used by the model are those of Vtl.g4's alternative order
                          (table regenerated from the grammar on every run).
  `unparenthesised_counter` shows why NF is needed: ASTString never inserts parentheses.
  Number literals: see the `literal_*` theorems (model in Text/Literal.lean).
-/
import VtlModel.Text.PrettyLemmas
import VtlModel.Text.PrettyGrammar
namespace VtlModel.C24
open VtlModel.Text
open VtlModel.Gen.ExprGrammar

/-- prettify preserves the AST: for every tree in normal form (parentheses explicit, as after a parse),
    parsing the printed tokens returns exactly that tree. -/
theorem parse_render (e : Expr) (h : NF e) : parse (render e) = some e :=
  parse_render_nf e h

/-- prettify only changes layout: every accepted token stream is printed back unchanged. -/
theorem render_parse (ts : List Tok) (e : Expr) (h : parse ts = some e) : render e = ts :=
  render_parse_sound ts e h

/-- idempotence at token level, for any tree (NF or not): render ∘ parse ∘ render = render. -/
theorem render_idempotent (e e' : Expr) (h : parse (render e) = some e') : render e' = render e :=
  render_parse_sound (render e) e' h

/-- idempotence for text: prettifying the prettified text is the identity (same tokens, same tree). -/
theorem reparse_stable (ts : List Tok) (e : Expr) (h : parse ts = some e) : parse (render e) = some e := by
  rw [render_parse_sound ts e h]; exact h

/-- the levels of the model's infix operators are the ones ANTLR derives from the alternative order of
    `expr` and of `exprComponent`, and every one of them is a binary (left-associative) alternative. -/
theorem prec_matches_grammar (o : BinOp) :
    suffixLevel "expr" exprAlts o.sym.tokName = some o.prec ∧
    suffixLevel "exprComponent" exprCompAlts o.sym.tokName = some o.prec ∧
    isBinaryAlt "expr" exprAlts o.sym.tokName = true ∧
    isBinaryAlt "exprComponent" exprCompAlts o.sym.tokName = true := by
  cases o <;> decide

theorem prec_matches_grammar_postfix :
    suffixLevel "expr" exprAlts "QLPAREN" = some precClause ∧
    suffixLevel "expr" exprAlts "MEMBERSHIP" = some precMemb ∧
    suffixLevel "expr" exprAlts "IN" = some precIn ∧
    suffixLevel "expr" exprAlts "NOT_IN" = some precIn ∧
    suffixLevel "exprComponent" exprCompAlts "IN" = some precIn ∧
    suffixLevel "exprComponent" exprCompAlts "NOT_IN" = some precIn := by
  decide

theorem prec_matches_grammar_prefix (o : UnOp) :
    prefixLevel "expr" exprAlts o.sym.tokName = some precUnary ∧
    prefixLevel "exprComponent" exprCompAlts o.sym.tokName = some precUnary := by
  cases o <;> decide

/-- ASTString never inserts parentheses: a hand-built tree `(a + b) * c` without a ParFunction node prints
    as `a + b * c`, which parses to a different tree. (ASTs that come from a parse are NF.) -/
theorem unparenthesised_counter :
    let e := Expr.bin .mul (.bin .add (.var "a") (.var "b")) (.var "c")
    parse (render e) = some (.bin .add (.var "a") (.bin .mul (.var "b") (.var "c"))) ∧ ¬ NF e := by
  refine ⟨rfl, ?_⟩
  simp [NF, BinOp.prec, Expr.prec, Expr.rlevel]

/- non-vacuity: NF trees exist at every level and the theorems apply to them -/
example : NF (.bin .add (.var "a") (.bin .mul (.par (.bin .add (.var "b") (.const "1"))) (.un .minus (.var "c")))) := by
  simp [NF, BinOp.prec, Expr.prec, Expr.rlevel, precUnary]
example : NF (.clause (.memb (.call "f" (.cons (.var "x") (.cons (.const "2") .nil))) "m") "calc"
    (.cons (.asg "y" (.bin .or (.un .not (.var "p")) (.isin true (.var "q") ["1", "2"]))) .nil)) := by
  simp [NF, NFArgs, BinOp.prec, Expr.prec, Expr.rlevel, precUnary, precIn, precMemb, precClause]
example : parse [.id "a", .sym .minus, .sym .minus, .lit "1", .sym .mul, .id "b"] =
    some (.bin .sub (.var "a") (.bin .mul (.un .minus (.const "1")) (.var "b"))) := rfl

end VtlModel.C24

/-
  C24 — prettify preserves meaning and is idempotent (token-level model of ASTString + the `expr` rule).

  Proved for every tree / token stream of the fragment (constants, identifiers, prefix and infix operators
  at the grammar's precedence levels, explicit parentheses, calls, `#`, `in`/`not_in`, clause application,
  calc items), with no bound on size or depth:
    * `parse_render`      a tree as a parse produces it (NF) is recovered exactly from what ASTString prints;
    * `render_parse`      whatever the parser accepts, ASTString prints back token for token
                          (prettify changes layout only);
    * `render_idempotent` printing, re-parsing and printing again gives the same tokens — for ANY tree;
    * `reparse_stable`    the re-parsed tree is a fixpoint of parse ∘ render;
    * `prec_matches_grammar…` the precedence levels used by the model are those of Vtl.g4's alternative order
                          (table regenerated from the grammar on every run).
  `unparenthesised_counter` shows why NF is needed: ASTString never inserts parentheses.
  Number literals: see the `literal_*` theorems (model in Text/Literal.lean; `handle` = the code since 62b5ed8).
-/
import VtlModel.Text.PrettyLemmas
import VtlModel.Text.PrettyGrammar
import VtlModel.Text.LiteralLemmas
namespace VtlModel.C24
open VtlModel.Text
open VtlModel.Gen.ExprGrammar

/-- prettify preserves the AST: for every tree in normal form (parentheses explicit, as after a parse),
    parsing the printed tokens returns exactly that tree. -/
theorem parse_render (e : Expr) (h : NF e) : parse (render e) = some e :=
  parse_render_nf e h

/-- prettify only changes layout: every accepted token stream is printed back unchanged. -/
theorem render_parse (ts : List Tok) (e : Expr) (h : parse ts = some e) : render e = ts :=
  render_parse_sound ts e h

/-- idempotence at token level, for any tree (NF or not): render ∘ parse ∘ render = render. -/
theorem render_idempotent (e e' : Expr) (h : parse (render e) = some e') : render e' = render e :=
  render_parse_sound (render e) e' h

/-- idempotence for text: prettifying the prettified text is the identity (same tokens, same tree). -/
theorem reparse_stable (ts : List Tok) (e : Expr) (h : parse ts = some e) : parse (render e) = some e := by
  rw [render_parse_sound ts e h]; exact h

/-- the levels of the model's infix operators are the ones ANTLR derives from the alternative order of
    `expr` and of `exprComponent`, and every one of them is a binary (left-associative) alternative. -/
theorem prec_matches_grammar (o : BinOp) :
    suffixLevel "expr" exprAlts o.sym.tokName = some o.prec ∧
    suffixLevel "exprComponent" exprCompAlts o.sym.tokName = some o.prec ∧
    isBinaryAlt "expr" exprAlts o.sym.tokName = true ∧
    isBinaryAlt "exprComponent" exprCompAlts o.sym.tokName = true := by
  cases o <;> decide

theorem prec_matches_grammar_postfix :
    suffixLevel "expr" exprAlts "QLPAREN" = some precClause ∧
    suffixLevel "expr" exprAlts "MEMBERSHIP" = some precMemb ∧
    suffixLevel "expr" exprAlts "IN" = some precIn ∧
    suffixLevel "expr" exprAlts "NOT_IN" = some precIn ∧
    suffixLevel "exprComponent" exprCompAlts "IN" = some precIn ∧
    suffixLevel "exprComponent" exprCompAlts "NOT_IN" = some precIn := by
  decide

theorem prec_matches_grammar_prefix (o : UnOp) :
    prefixLevel "expr" exprAlts o.sym.tokName = some precUnary ∧
    prefixLevel "exprComponent" exprCompAlts o.sym.tokName = some precUnary := by
  cases o <;> decide

/-- ASTString never inserts parentheses: a hand-built tree `(a + b) * c` without a ParFunction node prints
    as `a + b * c`, which parses to a different tree. (ASTs that come from a parse are NF.) -/
theorem unparenthesised_counter :
    let e := Expr.bin .mul (.bin .add (.var "a") (.var "b")) (.var "c")
    parse (render e) = some (.bin .add (.var "a") (.bin .mul (.var "b") (.var "c"))) ∧ ¬ NF e := by
  refine ⟨rfl, ?_⟩
  simp [NF, BinOp.prec, Expr.prec, Expr.rlevel]

/- non-vacuity: NF trees exist at every level and the theorems apply to them -/
example : NF (.bin .add (.var "a") (.bin .mul (.par (.bin .add (.var "b") (.const "1"))) (.un .minus (.var "c")))) := by
  simp [NF, BinOp.prec, Expr.prec, Expr.rlevel, precUnary]
example : NF (.clause (.memb (.call "f" (.cons (.var "x") (.cons (.const "2") .nil))) "m") "calc"
    (.cons (.asg "y" (.bin .or (.un .not (.var "p")) (.isin true (.var "q") ["1", "2"]))) .nil)) := by
  simp [NF, NFArgs, BinOp.prec, Expr.prec, Expr.rlevel, precUnary, precIn, precMemb, precClause]
example : parse [.id "a", .sym .minus, .sym .minus, .lit "1", .sym .mul, .id "b"] =
    some (.bin .sub (.var "a") (.bin .mul (.un .minus (.const "1")) (.var "b"))) := rfl

/-! ## Number literals (`_handle_literal`, model in Text/Literal.lean: decimal digit lists, no Float).
    `handle (I, F)` is the string ASTString prints for the literal `I.F` since /repo 62b5ed8
    (`format(Decimal(repr(value)), "f")`, a trailing `.0` stripped); `.ok none` = outside the model's
    domain (more than 15 significant digits).  `handleLegacy` is the function of the pinned commit. -/
section Literals
open VtlModel.Text.Literal

/-- every literal of the domain whose value is not integral is printed as its canonical lexeme … -/
theorem literal_prints_canonical (I F : Digits) (hin : inD (I, F) = true) (hnz : canonF F ≠ [0]) :
    handle (I, F) = .ok (some (render (I, F))) := by
  simp [handle, hin, hnz]

/-- … and that output re-lexes to ONE NUMBER_CONSTANT with the same value (for every literal, any length). -/
theorem literal_render_preserves (I F : Digits) (hdI : ∀ d ∈ I, d < 10) (hdF : ∀ d ∈ F, d < 10) :
    preserves (I, F) (render (I, F)) = true :=
  preserves_render I F hdI hdF

/-- the two together: inside the domain a non-integral Number literal survives rendering. -/
theorem literal_roundtrip (I F : Digits) (hdI : ∀ d ∈ I, d < 10) (hdF : ∀ d ∈ F, d < 10)
    (hin : inD (I, F) = true) (hnz : canonF F ≠ [0]) :
    ∃ out, handle (I, F) = .ok (some out) ∧ preserves (I, F) out = true :=
  ⟨render (I, F), literal_prints_canonical I F hin hnz, preserves_render I F hdI hdF⟩

/-- an integral value is printed without its fraction … -/
theorem literal_integral_form (I F : Digits) (hin : inD (I, F) = true) (hz : canonF F = [0]) :
    handle (I, F) = .ok (some (text (canonI I))) := by
  simp [handle, hin, hz]

/-- … which re-lexes as an INTEGER_CONSTANT: the full statement is still FALSE for integral Number literals
    (`5.0` ↦ `5`, known finding; the form is pinned by an upstream reference output). -/
theorem literal_integral_counter :
    handle ([5], [0]) = .ok (some "5".toList) ∧ preserves ([5], [0]) "5".toList = false ∧
    handle ([1,2,3,4,5,6,7], [0]) = .ok (some "1234567".toList) ∧
    preserves ([1,2,3,4,5,6,7], [0]) "1234567".toList = false :=
  ⟨rfl, rfl, rfl, rfl⟩

/-- the function of the pinned commit failed outside two narrow bands (each witness was replayed on the real
    code before 62b5ed8): 0.123456789 ↦ 0.123457, 123.4567 ↦ 123.457, 1234567.0 ↦ 1.23457e+06,
    0.00000015 ↦ `0.`, 9.9999996 ↦ `10.`, 0.00001 and 1e20 ↦ IndexError; the present one prints them exactly. -/
theorem literal_legacy_counter_repaired :
    (handleLegacy ([0], [1,2,3,4,5,6,7,8,9]) = .ok (some "0.123457".toList) ∧
     handle ([0], [1,2,3,4,5,6,7,8,9]) = .ok (some "0.123456789".toList)) ∧
    (handleLegacy ([1,2,3], [4,5,6,7]) = .ok (some "123.457".toList) ∧
     handle ([1,2,3], [4,5,6,7]) = .ok (some "123.4567".toList)) ∧
    (handleLegacy ([0], [0,0,0,0,0,0,1,5]) = .ok (some "0.".toList) ∧
     handle ([0], [0,0,0,0,0,0,1,5]) = .ok (some "0.00000015".toList)) ∧
    (handleLegacy ([9], [9,9,9,9,9,9,6]) = .ok (some "10.".toList) ∧
     handle ([9], [9,9,9,9,9,9,6]) = .ok (some "9.9999996".toList)) ∧
    (handleLegacy ([0], [0,0,0,0,1]) = .error .indexError ∧
     handle ([0], [0,0,0,0,1]) = .ok (some "0.00001".toList)) ∧
    (handleLegacy ([1,2,3,4,5,6], [5]) = .ok (some "123456".toList) ∧
     handle ([1,2,3,4,5,6], [5]) = .ok (some "123456.5".toList)) := by
  exact ⟨⟨counter_f_rounds, rfl⟩, ⟨counter_g_rounds, rfl⟩, ⟨counter_tiny, rfl⟩, ⟨counter_dangling_dot, rfl⟩,
    ⟨counter_small_indexError, rfl⟩, ⟨rfl, rfl⟩⟩

/- non-vacuity -/
example : handle ([1,2], [5]) = .ok (some "12.5".toList) := rfl
example : inD ([1,2,3,4,5,6,7,8,9], [1,2,3,4,5,6]) = true ∧ canonF [1,2,3,4,5,6] ≠ [0] := by decide
end Literals

end VtlModel.C24

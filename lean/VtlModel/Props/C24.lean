/-
  C24 — prettify preserves meaning and is idempotent (token-level model of ASTString + the `expr` rule).

  Proved for every tree / token stream of the fragment (constants, identifiers, prefix and infix operators
  at the grammar's precedence levels, explicit parentheses, calls, `#`, `in`/`not_in`, clause application,
  calc items), with no bound on size or depth:
    * `parse_render`      a tree as a parse produces it (NF) is recovered exactly from what ASTString prints;
    * `render_parse`      whatever the parser accepts, ASTString prints back token for token
                          (prettify changes layout only);
    * `render_idempotent` printing, re-parsing and printing again gives the same tokens — for ANY tree;
    * `reparse_stable`    the re-parsed tree is a fixpoint of parse ∘ render;
    * `prec_matches_grammar…` the precedence levels used by the model are those of Vtl.g4's alternative order
                          (table regenerated from the grammar on every run).
  `unparenthesised_counter` shows why NF is needed: ASTString never inserts parentheses.
  Number literals: see the `literal_*` theorems (model in Text/Literal.lean).
-/
import VtlModel.Text.PrettyLemmas
import VtlModel.Text.PrettyGrammar
import VtlModel.Text.LiteralLemmas
namespace VtlModel.C24
open VtlModel.Text
open VtlModel.Gen.ExprGrammar

/-- prettify preserves the AST: for every tree in normal form (parentheses explicit, as after a parse),
    parsing the printed tokens returns exactly that tree. -/
theorem parse_render (e : Expr) (h : NF e) : parse (render e) = some e :=
  parse_render_nf e h

/-- prettify only changes layout: every accepted token stream is printed back unchanged. -/
theorem render_parse (ts : List Tok) (e : Expr) (h : parse ts = some e) : render e = ts :=
  render_parse_sound ts e h

/-- idempotence at token level, for any tree (NF or not): render ∘ parse ∘ render = render. -/
theorem render_idempotent (e e' : Expr) (h : parse (render e) = some e') : render e' = render e :=
  render_parse_sound (render e) e' h

/-- idempotence for text: prettifying the prettified text is the identity (same tokens, same tree). -/
theorem reparse_stable (ts : List Tok) (e : Expr) (h : parse ts = some e) : parse (render e) = some e := by
  rw [render_parse_sound ts e h]; exact h

/-- the levels of the model's infix operators are the ones ANTLR derives from the alternative order of
    `expr` and of `exprComponent`, and every one of them is a binary (left-associative) alternative. -/
theorem prec_matches_grammar (o : BinOp) :
    suffixLevel "expr" exprAlts o.sym.tokName = some o.prec ∧
    suffixLevel "exprComponent" exprCompAlts o.sym.tokName = some o.prec ∧
    isBinaryAlt "expr" exprAlts o.sym.tokName = true ∧
    isBinaryAlt "exprComponent" exprCompAlts o.sym.tokName = true := by
  cases o <;> decide

theorem prec_matches_grammar_postfix :
    suffixLevel "expr" exprAlts "QLPAREN" = some precClause ∧
    suffixLevel "expr" exprAlts "MEMBERSHIP" = some precMemb ∧
    suffixLevel "expr" exprAlts "IN" = some precIn ∧
    suffixLevel "expr" exprAlts "NOT_IN" = some precIn ∧
    suffixLevel "exprComponent" exprCompAlts "IN" = some precIn ∧
    suffixLevel "exprComponent" exprCompAlts "NOT_IN" = some precIn := by
  decide

theorem prec_matches_grammar_prefix (o : UnOp) :
    prefixLevel "expr" exprAlts o.sym.tokName = some precUnary ∧
    prefixLevel "exprComponent" exprCompAlts o.sym.tokName = some precUnary := by
  cases o <;> decide

/-- ASTString never inserts parentheses: a hand-built tree `(a + b) * c` without a ParFunction node prints
    as `a + b * c`, which parses to a different tree. (ASTs that come from a parse are NF.) -/
theorem unparenthesised_counter :
    let e := Expr.bin .mul (.bin .add (.var "a") (.var "b")) (.var "c")
    parse (render e) = some (.bin .add (.var "a") (.bin .mul (.var "b") (.var "c"))) ∧ ¬ NF e := by
  refine ⟨rfl, ?_⟩
  simp [NF, BinOp.prec, Expr.prec, Expr.rlevel]

/- non-vacuity: NF trees exist at every level and the theorems apply to them -/
example : NF (.bin .add (.var "a") (.bin .mul (.par (.bin .add (.var "b") (.const "1"))) (.un .minus (.var "c")))) := by
  simp [NF, BinOp.prec, Expr.prec, Expr.rlevel, precUnary]
example : NF (.clause (.memb (.call "f" (.cons (.var "x") (.cons (.const "2") .nil))) "m") "calc"
    (.cons (.asg "y" (.bin .or (.un .not (.var "p")) (.isin true (.var "q") ["1", "2"]))) .nil)) := by
  simp [NF, NFArgs, BinOp.prec, Expr.prec, Expr.rlevel, precUnary, precIn, precMemb, precClause]
example : parse [.id "a", .sym .minus, .sym .minus, .lit "1", .sym .mul, .id "b"] =
    some (.bin .sub (.var "a") (.bin .mul (.un .minus (.const "1")) (.var "b"))) := rfl

/-! ## Number literals (`_handle_literal`, model in Text/Literal.lean: decimal digit lists, no Float).
    `handle (I, F)` is the string ASTString prints for the literal `I.F`; `.error .indexError` is the
    IndexError of `str(value).split(".")[1]`; `.ok none` = outside the model's exact domain. -/
section Literals
open VtlModel.Text.Literal

/-- exact band of the `:f` branch: a canonical literal with 5 or 6 fractional digits, at most 9 integer
    digits and value ≥ 1e-4 is printed as itself. -/
theorem literal_roundtrip_partial_f (I F : Digits) (hI : canonI I = I) (hF : canonF F = F)
    (hk5 : 5 ≤ F.length) (hk6 : F.length ≤ 6) (hI9 : I.length ≤ 9) (hlo : I ≠ [0] ∨ lz F ≤ 3) :
    handle (I, F) = .ok (some (text I ++ '.' :: text F)) :=
  literal_roundtrip_f I F hI hF hk5 hk6 hI9 hlo

/-- exact band of the `:g` branch: a canonical, non-integral literal with at most 4 fractional digits and
    at most 6 significant digits is printed as itself. -/
theorem literal_roundtrip_partial_g (I F : Digits) (hI : canonI I = I) (hF : canonF F = F)
    (h0 : F ≠ [0]) (hk : F.length ≤ 4) (hs6 : (sig (I, F)).length ≤ 6) :
    handle (I, F) = .ok (some (text I ++ '.' :: text F)) :=
  literal_roundtrip_g I F hI hF h0 hk hs6

/-- what the property needs and a canonical decimal renderer provides for EVERY literal (the proposed patch):
    the output re-lexes to one NUMBER_CONSTANT with the same value. -/
theorem literal_render_preserves (I F : Digits) (hdI : ∀ d ∈ I, d < 10) (hdF : ∀ d ∈ F, d < 10) :
    preserves (I, F) (render (I, F)) = true :=
  preserves_render I F hdI hdF

/-- outside those bands the full statement is FALSE on this tree (each witness is replayed on the real code):
    0.123456789 ↦ 0.123457, 123.4567 ↦ 123.457, 1234567.0 ↦ 1.23457e+06, 5.0 ↦ 5, 0.00000015 ↦ `0.`,
    9.9999996 ↦ `10.`, 0.00001 and 1e20 ↦ IndexError. -/
theorem literal_counter :
    handle ([0], [1,2,3,4,5,6,7,8,9]) = .ok (some "0.123457".toList) ∧
    handle ([1,2,3], [4,5,6,7]) = .ok (some "123.457".toList) ∧
    handle ([1,2,3,4,5,6,7], [0]) = .ok (some "1.23457e+06".toList) ∧
    handle ([5], [0]) = .ok (some "5".toList) ∧
    handle ([0], [0,0,0,0,0,0,1,5]) = .ok (some "0.".toList) ∧
    handle ([9], [9,9,9,9,9,9,6]) = .ok (some "10.".toList) ∧
    handle ([0], [0,0,0,0,1]) = .error .indexError ∧
    handle ([1,0,0,0,0,0,0,0,0,0,0,0,0,0,0,0,0,0,0,0,0], [0]) = .error .indexError :=
  ⟨counter_f_rounds, counter_g_rounds, counter_g_exponent, counter_integral, counter_tiny,
   counter_dangling_dot, counter_small_indexError, counter_big_indexError⟩

/-- … and none of those outputs is a NUMBER_CONSTANT token with the value of the literal. -/
theorem literal_counter_not_preserved :
    preserves ([0], [1,2,3,4,5,6,7,8,9]) "0.123457".toList = false ∧
    preserves ([1,2,3], [4,5,6,7]) "123.457".toList = false ∧
    preserves ([1,2,3,4,5,6,7], [0]) "1.23457e+06".toList = false ∧
    preserves ([5], [0]) "5".toList = false ∧
    preserves ([0], [0,0,0,0,0,0,1,5]) "0.".toList = false ∧
    preserves ([9], [9,9,9,9,9,9,6]) "10.".toList = false ∧
    preserves ([1,2,3,4,5,6], [5]) "123456".toList = false :=
  counter_not_preserved

/- non-vacuity of the two exact bands -/
example : handle ([1,2], [5]) = .ok (some "12.5".toList) := rfl
example : handle ([1,2,3,4,5,6,7,8,9], [1,2,3,4,5,6]) = .ok (some "123456789.123456".toList) := rfl
end Literals

end VtlModel.C24

import VtlModel.Sem.Union
import VtlModel.Props.C33
/-! # C15 — results are deterministic and independent of engine configuration (model part)

DuckDB's configuration knobs (threads, in-memory vs file-backed, memory limit / spilling,
`preserve_insertion_order = false`) change only the PHYSICAL ORDER in which rows of a table are
scanned.  The model covers "any configuration, any run" as "any permutation of every input table":

* `config_independent`: for every expression of the modelled subset the outcome is the same set of
  datapoints under any two physical orders (corollary of `C33.evalD_perm`);
* the one order-sensitive construct the transpiler emits for these operators — `union`'s
  first-occurrence selection `ROW_NUMBER() OVER ()` over `UNION ALL` — is modelled by `implUnion`;
  it equals the specified union whenever the branches arrive in their textual order, whatever the
  order inside each branch (`implUnion_eq_spec`), and NOT otherwise (`implUnion_interleaving_counter`).
  That the branches of `UNION ALL` arrive in textual order is a DuckDB runtime behaviour the model
  cannot exhibit; it is named in the trusted base and exercised by the configuration matrix of the check. -/
namespace VtlModel.C15
open VtlModel.Sem VtlModel.C10 VtlModel.C33 List

/-- any two physical layouts of the same inputs (same datapoints per table, any order) give the
same outcome: both runs fail, or both succeed with the same structure and the same set of datapoints. -/
theorem config_independent (env env' : Env) (w : EnvWF env) (w' : EnvWF env') (h : EnvEquiv env env')
    (e : DExpr) (hw : ExtWF e) (hp : ExtPerm e) : REquiv (evalD env e) (evalD env' e) :=
  evalD_perm env env' w w' h e hw hp

/-- a repeated run on the same layout is trivially equal: the model is a function. -/
theorem rerun_equal (env : Env) (e : DExpr) : evalD env e = evalD env e := rfl

/-! ## union's first-occurrence selection -/

/-- the specified union of two row lists: all of the first, then those of the second whose key is new. -/
def specUnion (ids : List String) (xs ys : List Row) : List Row :=
  xs ++ ys.filter (fun r => !(xs.map (·.key ids)).contains (r.key ids))

theorem contains_perm {α : Type} [BEq α] [LawfulBEq α] {l l' : List α} (h : l.Perm l') (a : α) :
    l.contains a = l'.contains a := by
  cases h1 : l.contains a with
  | true => have := h.mem_iff.1 (by simpa using h1); simp [this]
  | false =>
    have : a ∉ l' := fun hm => by have := h.mem_iff.2 hm; simp [this] at h1
    simp [this]

/-- branches in textual order (first operand's rows, then the second's): exactly the specified union. -/
theorem implUnion_branch_order (ids : List String) (xs ys : List Row)
    (nx : (xs.map (·.key ids)).Nodup) (ny : (ys.map (·.key ids)).Nodup) :
    implUnion ids (xs ++ ys) = specUnion ids xs ys := by
  unfold implUnion specUnion
  rw [firstOcc_append_fresh ids xs ys [] nx (fun _ _ => by simp)]
  rw [firstOcc_nodup ids ys _ ny]
  congr 1
  apply List.filter_congr
  intro r _
  congr 1
  apply contains_perm
  simp only [List.append_nil]
  exact List.reverse_perm _

/-- … and the order INSIDE each branch (threads, spilling, insertion order) does not matter:
for any physical orders `xs'`, `ys'` of the two operands the selected set of datapoints is the
specified union. -/
theorem implUnion_eq_spec (ids : List String) (xs ys xs' ys' : List Row)
    (hx : xs.Perm xs') (hy : ys.Perm ys')
    (nx : (xs.map (·.key ids)).Nodup) (ny : (ys.map (·.key ids)).Nodup) :
    (implUnion ids (xs' ++ ys')).Perm (specUnion ids xs ys) := by
  have nx' : (xs'.map (·.key ids)).Nodup := ((hx.map _).nodup_iff).1 nx
  have ny' : (ys'.map (·.key ids)).Nodup := ((hy.map _).nodup_iff).1 ny
  rw [implUnion_branch_order ids xs' ys' nx' ny']
  unfold specUnion
  refine hx.symm.append ?_
  have hf : (fun r : Row => !(xs'.map (·.key ids)).contains (r.key ids)) =
            (fun r : Row => !(xs.map (·.key ids)).contains (r.key ids)) := by
    funext r
    rw [contains_perm (hx.map (·.key ids)).symm]
  rw [hf]
  exact (hy.symm).filter _

/-- if a row of the second branch is delivered BEFORE the first branch's row with the same key, the
first-occurrence selection returns the wrong operand's measures: the hypothesis above is necessary. -/
def row (i : Int) (m : Int) : Row := [("Id_1", Value.int i), ("Me_1", Value.int m)]
theorem implUnion_interleaving_counter :
    implUnion ["Id_1"] ([row 1 20] ++ [row 1 10]) ≠ specUnion ["Id_1"] [row 1 10] [row 1 20] := by decide

/-- non-vacuity: a concrete pair of operands meeting the hypotheses of `implUnion_eq_spec`. -/
example : implUnion ["Id_1"] ([row 2 1, row 1 10] ++ [row 3 5, row 1 20]) = [row 2 1, row 1 10, row 3 5] := by decide

end VtlModel.C15

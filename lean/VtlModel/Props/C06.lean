import VtlModel.Sem.AnalyticLemmas
import VtlModel.Props.C33
/-! # C06 — analytic (window) functions compute over the specified partitions and frames (model part)

For the model `VtlModel.Sem.An` (any dataset size, any number of partitions):
* `analytic_rowcount` — the invocation is row preserving: same identifiers, the same identifier key list, one
  output datapoint per input datapoint;
* `sortedPart_spec` — the sorted partition of a datapoint is a permutation of the datapoints that agree with
  it on the `partition by` components, sorted by the order key;
* `frame_spec` — for `data points between lo and hi`, the datapoint at position `i` of its sorted partition gets
  the function over exactly the datapoints at the positions `[i+lo, i+hi] ∩ partition`, in partition order;
  `range_frame_spec` — for `range between lo and hi` over exactly the datapoints whose order key lies within
  `[k+lo, k+hi]`; `default_frame_spec` — no window clause;
* `lag_lead_spec`, `rank_spec` (+ `rank_noTies`), `ratio_spec` (+ the zero-sum error);
* `analytic_WF`, `analytic_perm` (and `analyticTotal_WF` / `analyticTotal_perm` in the exact form `C10.ExtWF` /
  `C33.ExtPerm` ask for) — with a total ordering (`NoTies`) the result does not depend on the input row order;
  `evalD_analytic_perm` lifts it to every expression that contains such invocations;
* `ties_counter` — with ties the result can depend on the input row order.
The tie to the implementation is the correspondence in `harness/checks/c06.py`. -/
namespace VtlModel.C06
open VtlModel.Sem VtlModel.Sem.An VtlModel.C10 VtlModel.C33 List

/-! ### row preservation -/

/-- **Row preserving**: identifiers unchanged, the identifier keys of the result are the identifier keys of
the operand (same list, hence one output datapoint per input datapoint). -/
theorem analytic_rowcount (spec : Spec) (d res : DS) (h : analytic spec d = .ok res) :
    res.ids = d.ids ∧ res.rows.map (·.key d.ids) = d.rows.map (·.key d.ids) ∧ res.rows.length = d.rows.length := by
  unfold analytic at h
  split at h
  · cases h
  · cases ht : spec.target with
    | each =>
      simp only [ht] at h
      split at h
      · cases h
      · obtain ⟨rows, hr, h⟩ := (bind_ok _ _ _).1 h
        simp only [pure, Except.pure, Except.ok.injEq] at h
        subst h
        have hk := mapRows_keys_eq (eachRow spec d) d.ids d.rows rows hr (fun r o _ hf => eachRow_key spec d r o hf)
        exact ⟨rfl, hk, by simpa using congrArg List.length hk⟩
    | «calc» out arg =>
      simp only [ht] at h
      split at h
      · cases h
      · obtain ⟨rows, hr, h⟩ := (bind_ok _ _ _).1 h
        simp only [pure, Except.pure, Except.ok.injEq] at h
        subst h
        have hk := mapRows_keys_eq (calcARow spec d out arg) d.ids d.rows rows hr
          (fun r o _ hf => calcARow_key spec d out arg r o hf)
        exact ⟨rfl, hk, by simpa using congrArg List.length hk⟩

/-- **plug-in lemma for `C10.evalD_WF`**: unique identifier keys are preserved. -/
theorem analytic_WF (spec : Spec) (x r : DS) (w : x.WF) (h : analytic spec x = .ok r) : r.WF := by
  obtain ⟨hids, hkeys, _⟩ := analytic_rowcount spec x r h
  unfold DS.WF DS.keys at *
  rw [hids, hkeys]
  exact w

/-! ### the sorted partition -/

/-- the partition of `r`, sorted: exactly the datapoints that agree with `r` on the `partition by`
components (as a permutation of them, multiplicities included), in non-decreasing order of the order key. -/
theorem sortedPart_spec (part : List String) (o : Order) (rows : List Row) (r : Row) :
    (sortedPart part o rows r).Perm (rows.filter (fun s => s.key part == r.key part)) ∧
    (∀ s, s ∈ sortedPart part o rows r ↔ s ∈ rows ∧ s.key part = r.key part) ∧
    (sortedPart part o rows r).Pairwise (fun a b => lexLe (ordKey o a) (ordKey o b) = true) :=
  ⟨sortedPart_perm part o rows r, mem_sortedPart part o rows r, sortedPart_sorted part o rows r⟩

/-- the order on keys is a linear order (so "sorted" determines the sequence of keys). -/
theorem lexLe_linear : (∀ a, lexLe a a = true) ∧ (∀ a b, lexLe a b = true ∨ lexLe b a = true) ∧
    (∀ a b c, lexLe a b = true → lexLe b c = true → lexLe a c = true) ∧
    (∀ a b, lexLe a b = true → lexLe b a = true → a = b) :=
  ⟨lexLe_refl, lexLe_total, lexLe_trans, lexLe_antisymm⟩

theorem sortedPart_nodup (part : List String) (o : Order) (rows : List Row) (r : Row) (h : rows.Nodup) :
    (sortedPart part o rows r).Nodup :=
  (sortedPart_perm part o rows r).nodup_iff.2 (List.Nodup.sublist List.filter_sublist h)

/-- in a dataset with unique identifier keys the datapoints are pairwise distinct. -/
theorem rows_nodup_of_WF (d : DS) (w : d.WF) : d.rows.Nodup := by
  unfold DS.WF DS.keys at w
  exact List.Pairwise.of_map (fun r => Row.key r d.ids) (fun a b h e => h (by rw [e])) w

theorem idxOf_of_getElem? (sp : List Row) (r : Row) (i : Nat) (hnd : sp.Nodup) (hi : sp[i]? = some r) :
    sp.idxOf r = i := by
  obtain ⟨hlt, heq⟩ := List.getElem?_eq_some_iff.1 hi
  rw [← heq]
  exact List.Nodup.idxOf_getElem hnd i hlt

/-- the hypotheses of the specification theorems below hold for every datapoint of a dataset with unique
identifier keys: its sorted partition has no repeated datapoint and the datapoint sits at some position of it. -/
theorem position_exists (part : List String) (o : Order) (d : DS) (w : d.WF) (r : Row) (hr : r ∈ d.rows) :
    (sortedPart part o d.rows r).Nodup ∧ ∃ i : Nat, (sortedPart part o d.rows r)[i]? = some r := by
  refine ⟨sortedPart_nodup part o d.rows r (rows_nodup_of_WF d w), ?_⟩
  have hm : r ∈ sortedPart part o d.rows r := (mem_sortedPart part o d.rows r r).2 ⟨hr, rfl⟩
  exact List.getElem?_of_mem hm

/-! ### frames -/

/-- lower / upper bound of a frame relative to position `i` (`none` = unbounded). -/
def LoOk (lo : Option Int) (i j : Nat) : Prop := ∀ d, lo = some d → (i : Int) + d ≤ (j : Int)
def HiOk (hi : Option Int) (i j : Nat) : Prop := ∀ d, hi = some d → (j : Int) ≤ (i : Int) + d

theorem inLo_iff (lo : Option Int) (i j : Nat) : inLo lo i j = true ↔ LoOk lo i j := by
  cases lo <;> simp [inLo, LoOk]

theorem inHi_iff (hi : Option Int) (i j : Nat) : inHi hi i j = true ↔ HiOk hi i j := by
  cases hi <;> simp [inHi, HiOk]

/-- the rows of a `data points` frame are exactly the rows at the positions `[i+lo, i+hi]`. -/
theorem rowsFrame_mem (lo hi : Option Int) (sp : List Row) (i : Nat) (s : Row) :
    s ∈ rowsFrame lo hi sp i ↔ ∃ j, sp[j]? = some s ∧ LoOk lo i j ∧ HiOk hi i j := by
  unfold rowsFrame
  simp only [List.mem_map, List.mem_filter, Bool.and_eq_true, inLo_iff, inHi_iff]
  constructor
  · rintro ⟨⟨s', j⟩, ⟨hm, h1, h2⟩, rfl⟩
    exact ⟨j, List.mk_mem_zipIdx_iff_getElem?.1 hm, h1, h2⟩
  · rintro ⟨j, hj, h1, h2⟩
    exact ⟨(s, j), ⟨List.mk_mem_zipIdx_iff_getElem?.2 hj, h1, h2⟩, rfl⟩

theorem filter_zipIdx_sublist (p : Row × Nat → Bool) : ∀ (sp : List Row) (k : Nat),
    (((sp.zipIdx k).filter p).map (·.1)).Sublist sp
  | [], _ => by simp
  | x :: xs, k => by
    simp only [List.zipIdx_cons, List.filter_cons]
    split
    · simp only [List.map_cons]
      exact (filter_zipIdx_sublist p xs (k + 1)).cons_cons x
    · exact (filter_zipIdx_sublist p xs (k + 1)).cons x

/-- … in the order of the sorted partition. -/
theorem rowsFrame_sublist (lo hi : Option Int) (sp : List Row) (i : Nat) : (rowsFrame lo hi sp i).Sublist sp :=
  filter_zipIdx_sublist _ sp 0

/-- **`data points between lo and hi`**: the datapoint `r` at position `i` of its sorted partition gets the
function over the operand values of exactly the datapoints at the positions `[i+lo, i+hi] ∩ partition`
(`-p` = `p preceding`, `0` = current data point, `f` = `f following`, `none` = unbounded), taken in partition
order. -/
theorem frame_spec (spec : Spec) (op : AggOp) (lo hi : Option Int) (rows : List Row) (g : Row → R Value)
    (r : Row) (i : Nat)
    (hfn : spec.fn = .agg op) (hfr : spec.frame = some { range := false, lo := lo, hi := hi })
    (hnd : (sortedPart spec.part spec.order rows r).Nodup)
    (hi' : (sortedPart spec.part spec.order rows r)[i]? = some r) :
    ∃ fr : List Row,
      winVal spec rows g r = (fr.mapM g >>= aggV op) ∧
      fr.Sublist (sortedPart spec.part spec.order rows r) ∧
      ∀ s, s ∈ fr ↔ ∃ j, (sortedPart spec.part spec.order rows r)[j]? = some s ∧ LoOk lo i j ∧ HiOk hi i j := by
  refine ⟨rowsFrame lo hi (sortedPart spec.part spec.order rows r) i, ?_, rowsFrame_sublist _ _ _ _,
    rowsFrame_mem lo hi _ i⟩
  unfold winVal winCore
  rw [hfn]
  simp only [hfr, frameRows, idxOf_of_getElem? _ r i hnd hi']
  rfl

/-- key conditions of a `range` frame: `none` = unbounded; `0` = current data point (`s` does not strictly
precede / follow `r`, so peers are inside); an offset `d ≠ 0` is added to the signed numeric key
(`desc` = negated key, so that `preceding` always means "earlier in the order"). -/
def RangeLoOk (o : Order) (lo : Option Int) (r s : Row) : Prop :=
  ∀ d, lo = some d → (d = 0 → lexLe (ordKey o r) (ordKey o s) = true) ∧ (d ≠ 0 → keyD o r + (d : Rat) ≤ keyD o s)
def RangeHiOk (o : Order) (hi : Option Int) (r s : Row) : Prop :=
  ∀ d, hi = some d → (d = 0 → lexLe (ordKey o s) (ordKey o r) = true) ∧ (d ≠ 0 → keyD o s ≤ keyD o r + (d : Rat))

theorem inRangeLo_iff (o : Order) (lo : Option Int) (r s : Row) : inRangeLo o lo r s = true ↔ RangeLoOk o lo r s := by
  cases lo with
  | none => simp [inRangeLo, RangeLoOk]
  | some d =>
    by_cases hd : d = 0
    · simp [inRangeLo, RangeLoOk, hd, rowLe]
    · simp [inRangeLo, RangeLoOk, hd]

theorem inRangeHi_iff (o : Order) (hi : Option Int) (r s : Row) : inRangeHi o hi r s = true ↔ RangeHiOk o hi r s := by
  cases hi with
  | none => simp [inRangeHi, RangeHiOk]
  | some d =>
    by_cases hd : d = 0
    · simp [inRangeHi, RangeHiOk, hd, rowLe]
    · simp [inRangeHi, RangeHiOk, hd]

/-- **`range between lo and hi`**: the datapoint `r` gets the function over the operand values of exactly
the datapoints of its partition whose order key lies within `[k+lo, k+hi]` of its own key `k`, in partition
order.  (Offsets other than 0 are defined for one numeric non-null `order by` component; otherwise the
model answers `unsupported`, never a value.) -/
theorem range_frame_spec (spec : Spec) (op : AggOp) (lo hi : Option Int) (rows : List Row) (g : Row → R Value)
    (r : Row) (v : Value)
    (hfn : spec.fn = .agg op) (hfr : spec.frame = some { range := true, lo := lo, hi := hi })
    (hv : winVal spec rows g r = .ok v) :
    ∃ fr : List Row,
      (fr.mapM g >>= aggV op) = .ok v ∧
      fr.Sublist (sortedPart spec.part spec.order rows r) ∧
      ∀ s, s ∈ fr ↔ s ∈ sortedPart spec.part spec.order rows r ∧
                    RangeLoOk spec.order lo r s ∧ RangeHiOk spec.order hi r s := by
  unfold winVal winCore at hv
  rw [hfn] at hv
  simp only [hfr, frameRows, rangeFrame, if_true] at hv
  split at hv
  · cases hv
  · refine ⟨_, hv, List.filter_sublist, ?_⟩
    intro s
    simp only [List.mem_filter, Bool.and_eq_true, inRangeLo_iff, inRangeHi_iff]

/-- **no window clause**: the whole partition when there is no `order by`; otherwise the datapoints from the
start of the partition up to the current one. -/
theorem default_frame_spec (spec : Spec) (op : AggOp) (rows : List Row) (g : Row → R Value) (r : Row) (i : Nat)
    (hfn : spec.fn = .agg op) (hfr : spec.frame = none)
    (hnd : (sortedPart spec.part spec.order rows r).Nodup)
    (hi' : (sortedPart spec.part spec.order rows r)[i]? = some r) :
    (spec.order = [] → winVal spec rows g r = ((sortedPart spec.part spec.order rows r).mapM g >>= aggV op)) ∧
    (spec.order ≠ [] → ∃ fr : List Row, winVal spec rows g r = (fr.mapM g >>= aggV op) ∧
        fr.Sublist (sortedPart spec.part spec.order rows r) ∧
        ∀ s, s ∈ fr ↔ ∃ j, (sortedPart spec.part spec.order rows r)[j]? = some s ∧ j ≤ i) := by
  constructor
  · intro ho
    unfold winVal winCore
    rw [hfn]
    simp only [hfr, frameRows, ho, List.isEmpty_nil, if_true]
    rfl
  · intro ho
    refine ⟨rowsFrame none (some 0) (sortedPart spec.part spec.order rows r) i, ?_, rowsFrame_sublist _ _ _ _, ?_⟩
    · unfold winVal winCore
      rw [hfn]
      have : spec.order.isEmpty = false := by
        cases hs : spec.order with
        | nil => exact absurd hs ho
        | cons _ _ => rfl
      simp only [hfr, frameRows, this, idxOf_of_getElem? _ r i hnd hi']
      rfl
    · intro s
      rw [rowsFrame_mem]
      constructor
      · rintro ⟨j, hj, _, h2⟩
        refine ⟨j, hj, ?_⟩
        have := h2 0 rfl
        omega
      · rintro ⟨j, hj, hle⟩
        refine ⟨j, hj, fun d hd => (by cases hd), fun d hd => ?_⟩
        cases hd
        omega

/-! ### lag / lead -/

/-- **`lag(x, off, dflt)` / `lead(x, off, dflt)`**: the datapoint at position `i` of its sorted partition gets
the operand value of the datapoint `off` positions before / after it, the default (null when none is
given) when that position is outside the partition. -/
theorem lag_lead_spec (spec : Spec) (off : Nat) (dflt : Value) (rows : List Row) (g : Row → R Value) (r : Row) (i : Nat)
    (hnd : (sortedPart spec.part spec.order rows r).Nodup)
    (hi' : (sortedPart spec.part spec.order rows r)[i]? = some r) :
    (spec.fn = .lag off dflt →
      (i < off → winVal spec rows g r = .ok dflt) ∧
      (off ≤ i → ∃ s, (sortedPart spec.part spec.order rows r)[i - off]? = some s ∧ winVal spec rows g r = g s)) ∧
    (spec.fn = .lead off dflt →
      ((sortedPart spec.part spec.order rows r).length ≤ i + off → winVal spec rows g r = .ok dflt) ∧
      (∀ s, (sortedPart spec.part spec.order rows r)[i + off]? = some s → winVal spec rows g r = g s)) := by
  have hidx := idxOf_of_getElem? _ r i hnd hi'
  have hlt : i < (sortedPart spec.part spec.order rows r).length := (List.getElem?_eq_some_iff.1 hi').1
  constructor
  · intro hfn
    constructor
    · intro h
      unfold winVal winCore
      rw [hfn]
      simp only [hidx]
      rw [if_neg (by omega)]
    · intro h
      have hlt' : i - off < (sortedPart spec.part spec.order rows r).length := by omega
      refine ⟨(sortedPart spec.part spec.order rows r)[i - off], List.getElem?_eq_getElem hlt', ?_⟩
      unfold winVal winCore
      rw [hfn]
      simp only [hidx]
      rw [if_pos h, List.getElem?_eq_getElem hlt']
  · intro hfn
    constructor
    · intro h
      unfold winVal winCore
      rw [hfn]
      simp only [hidx]
      rw [List.getElem?_eq_none h]
    · intro s hs
      unfold winVal winCore
      rw [hfn]
      simp only [hidx, hs]

/-! ### rank -/

/-- **`rank`**: one plus the number of datapoints of the partition that strictly precede the datapoint in
the order (datapoints with equal order keys share a rank). -/
theorem rank_spec (spec : Spec) (rows : List Row) (g : Row → R Value) (r : Row) (hfn : spec.fn = .rank) :
    winVal spec rows g r =
      .ok (.int (1 + (((sortedPart spec.part spec.order rows r).filter
                        (fun s => !(lexLe (ordKey spec.order r) (ordKey spec.order s)))).length : Int))) := by
  unfold winVal winCore
  rw [hfn]
  rfl

/-- in a sorted list without ties exactly the first `i` elements strictly precede the element at position `i`. -/
theorem strictly_before_count (le : Row → Row → Bool) (hrefl : ∀ a, le a a = true) :
    ∀ (sp : List Row) (i : Nat) (r : Row),
      sp.Pairwise (fun a b => le a b = true ∧ le b a = false) → sp[i]? = some r →
      (sp.filter (fun s => !(le r s))).length = i
  | [], i, r, _, h => by simp at h
  | x :: xs, 0, r, hp, h => by
    simp only [List.getElem?_cons_zero, Option.some.injEq] at h
    subst h
    rw [List.pairwise_cons] at hp
    have : (x :: xs).filter (fun s => !(le x s)) = [] := by
      apply List.filter_eq_nil_iff.2
      intro s hs
      rcases List.mem_cons.1 hs with rfl | hs
      · simp [hrefl]
      · simp [(hp.1 s hs).1]
    rw [this]
    rfl
  | x :: xs, i + 1, r, hp, h => by
    simp only [List.getElem?_cons_succ] at h
    rw [List.pairwise_cons] at hp
    have hr : r ∈ xs := List.mem_of_getElem? h
    have hx : le r x = false := (hp.1 r hr).2
    simp only [List.filter_cons, hx, Bool.not_false, if_true, List.length_cons]
    rw [strictly_before_count le hrefl xs i r hp.2 h]

/-- **`rank` without ties** is the position in the sorted partition (counted from 1). -/
theorem rank_noTies (spec : Spec) (rows : List Row) (g : Row → R Value) (r : Row) (i : Nat) (hfn : spec.fn = .rank)
    (hnt : ((sortedPart spec.part spec.order rows r).map (ordKey spec.order)).Nodup)
    (hi' : (sortedPart spec.part spec.order rows r)[i]? = some r) :
    winVal spec rows g r = .ok (.int ((i : Int) + 1)) := by
  rw [rank_spec spec rows g r hfn]
  have hs := sortedPart_sorted spec.part spec.order rows r
  have hstrict : (sortedPart spec.part spec.order rows r).Pairwise
      (fun a b => rowLe spec.order a b = true ∧ rowLe spec.order b a = false) := by
    have hk : (sortedPart spec.part spec.order rows r).Pairwise (fun a b => ordKey spec.order a ≠ ordKey spec.order b) :=
      List.pairwise_map.1 hnt
    refine (hs.and hk).imp ?_
    intro a b hab
    refine ⟨hab.1, ?_⟩
    cases hba : rowLe spec.order b a with
    | false => rfl
    | true => exact absurd (rowLe_antisymm spec.order a b hab.1 hba) hab.2
  have := strictly_before_count (rowLe spec.order) (rowLe_refl spec.order) _ i r hstrict hi'
  unfold rowLe at this
  rw [this]
  congr 2
  omega

/-! ### ratio_to_report -/

/-- **`ratio_to_report`**: the operand value of the datapoint divided by the sum of the operand values over
its whole partition; when that sum is zero the invocation fails with the division-by-zero runtime error
(for every datapoint of the partition), it never produces a value. -/
theorem ratio_spec (spec : Spec) (rows : List Row) (g : Row → R Value) (r : Row) (hfn : spec.fn = .ratio) :
    winVal spec rows g r =
      ((sortedPart spec.part spec.order rows r).mapM g >>= fun vals => g r >>= fun x => ratioV x vals) ∧
    (∀ x vals s, aggV .sum vals = .ok s → s.toRat? = some 0 → ratioV x vals = .error .divZero) ∧
    (∀ q vals s t, aggV .sum vals = .ok s → s.toRat? = some t → t ≠ 0 →
        ratioV (.num q) vals = .ok (.num (q / t)) ∧ ratioV .null vals = .ok .null) ∧
    (∀ x vals, aggV .sum vals = .ok .null → ratioV x vals = .ok .null) := by
  refine ⟨?_, ?_, ?_, ?_⟩
  · unfold winVal winCore
    rw [hfn]
  · intro x vals s hs ht
    unfold ratioV
    rw [hs]
    cases s <;> simp_all [bind, Except.bind, Value.toRat?]
  · intro q vals s t hs ht hne
    unfold ratioV
    rw [hs]
    cases s <;> simp_all [bind, Except.bind, Value.toRat?]
  · intro x vals hs
    unfold ratioV
    rw [hs]
    rfl

/-! ### independence of the input row order -/

/-- **plug-in lemma for `C33.evalD_perm`**: when the ordering is total (`NoTies`: no two datapoints of a
partition share an order key) the result does not depend on the order of the input rows — equivalent
inputs give equivalent outcomes (both fail, or the same structure and `Perm`-equal rows). -/
theorem analytic_perm (spec : Spec) (x y : DS) (hn : NoTies spec x) (hxy : DSEquiv x y) :
    Rel2 DSEquiv (analytic spec x) (analytic spec y) := by
  obtain ⟨ids, meas, rows⟩ := x
  obtain ⟨ids', meas', rows'⟩ := y
  obtain ⟨h1, h2, hp⟩ := hxy
  simp only at h1 h2 hp
  subst h1 h2
  unfold NoTies at hn
  simp only at hn
  have heach : eachRow spec ⟨ids, meas, rows'⟩ = eachRow spec ⟨ids, meas, rows⟩ := by
    funext r
    unfold eachRow eachVals
    simp only
    congr 2
    funext m
    rw [winVal_congr spec rows rows' hp hn]
  have hcalc : ∀ out arg, calcARow spec ⟨ids, meas, rows'⟩ out arg = calcARow spec ⟨ids, meas, rows⟩ out arg := by
    intro out arg
    funext r
    unfold calcARow
    simp only
    rw [winVal_congr spec rows rows' hp hn]
  unfold analytic
  simp only [DS.comps]
  split
  · exact Rel2.error _ _
  · cases ht : spec.target with
    | each =>
      simp only
      split
      · exact Rel2.error _ _
      · rw [heach]
        refine Rel2.bind (rows_rel _ hp) ?_
        intro r1 r2 hrr
        exact Rel2.pure ⟨rfl, rfl, hrr⟩
    | «calc» out arg =>
      simp only
      split
      · exact Rel2.error _ _
      · rw [hcalc]
        refine Rel2.bind (rows_rel _ hp) ?_
        intro r1 r2 hrr
        exact Rel2.pure ⟨rfl, rfl, hrr⟩

theorem noTies_perm (spec : Spec) (x y : DS) (hxy : DSEquiv x y) : NoTies spec x ↔ NoTies spec y := by
  unfold NoTies
  exact (hxy.2.2.map _).nodup_iff

/-- `analyticTotal` (the invocation on its domain "the ordering is total") agrees with `analytic` there … -/
theorem analyticTotal_eq (spec : Spec) (x : DS) (hn : NoTies spec x) : analyticTotal spec x = analytic spec x := by
  unfold analyticTotal
  rw [if_pos hn]

/-- … and satisfies, for ALL operands, the two hypotheses the compositional theorems ask of an extension
operator (`C10.ExtWF`, `C33.ExtPerm`). -/
theorem analyticTotal_WF (spec : Spec) (x r : DS) (w : x.WF) (h : analyticTotal spec x = .ok r) : r.WF := by
  unfold analyticTotal at h
  split at h
  · exact analytic_WF spec x r w h
  · cases h

theorem analyticTotal_perm (spec : Spec) (x y : DS) (_w : x.WF) (hxy : DSEquiv x y) :
    Rel2 DSEquiv (analyticTotal spec x) (analyticTotal spec y) := by
  unfold analyticTotal
  by_cases hn : NoTies spec x
  · rw [if_pos hn, if_pos ((noTies_perm spec x y hxy).1 hn)]
    exact analytic_perm spec x y hn hxy
  · rw [if_neg hn, if_neg (fun h => hn ((noTies_perm spec x y hxy).2 h))]
    exact Rel2.error _ _

/-- **the property's second sentence, compositionally**: an analytic invocation with a total ordering, applied
to ANY expression of the modelled subset (itself possibly containing analytic invocations), evaluated on
inputs that are equal as sets of datapoints, gives results that are equal as sets of datapoints. -/
theorem evalD_analytic_perm (env env' : Env) (w : EnvWF env) (w' : EnvWF env') (hee : EnvEquiv env env')
    (spec : Spec) (e : DExpr) (hw : ExtWF e) (hp : ExtPerm e) :
    Rel2 DSEquiv (evalD env (.app1 (analyticTotal spec) e)) (evalD env' (.app1 (analyticTotal spec) e)) :=
  evalD_perm env env' w w' hee (.app1 (analyticTotal spec) e)
    ⟨hw, fun x r => analyticTotal_WF spec x r⟩ ⟨hp, fun x y => analyticTotal_perm spec x y⟩

/-! ### ties: the hypothesis is necessary -/

def row (i j m : Int) : Row := [("Id_1", Value.int i), ("Id_2", Value.int j), ("Me_1", Value.int m)]
def tiesA : DS := DS.mk ["Id_1", "Id_2"] ["Me_1"] [row 1 1 10, row 1 2 20]
def tiesB : DS := DS.mk ["Id_1", "Id_2"] ["Me_1"] [row 1 2 20, row 1 1 10]
/-- `first_value(DS over (partition by Id_1 order by Id_1 data points between unbounded preceding and
unbounded following))`: every datapoint of a partition has the same order key. -/
def tieSpec : Spec :=
  { fn := .agg .first, part := ["Id_1"], order := [("Id_1", false)],
    frame := some { range := false, lo := none, hi := none }, target := .each }
/-- the same invocation ordered by `Id_2`: a total ordering. -/
def totalSpec : Spec := { tieSpec with order := [("Id_2", false)] }

/-- **with ties the result can depend on the input row order**: the two inputs hold the same datapoints, yet
every datapoint gets 10 on one and 20 on the other. -/
theorem ties_counter :
    DSEquiv tiesA tiesB ∧ ¬ NoTies tieSpec tiesA ∧
    (analytic tieSpec tiesA).map (fun d => d.rows.map (·.get "Me_1")) = .ok [.int 10, .int 10] ∧
    (analytic tieSpec tiesB).map (fun d => d.rows.map (·.get "Me_1")) = .ok [.int 20, .int 20] ∧
    ¬ Rel2 DSEquiv (analytic tieSpec tiesA) (analytic tieSpec tiesB) := by
  refine ⟨⟨rfl, rfl, List.Perm.swap _ _ _⟩, by decide, by decide, by decide, ?_⟩
  have hA : analytic tieSpec tiesA = .ok (DS.mk ["Id_1", "Id_2"] ["Me_1"] [row 1 1 10, row 1 2 10]) := by decide
  have hB : analytic tieSpec tiesB = .ok (DS.mk ["Id_1", "Id_2"] ["Me_1"] [row 1 2 20, row 1 1 20]) := by decide
  rintro (⟨e, e', h1, _⟩ | ⟨a, b, h1, h2, hab⟩)
  · rw [hA] at h1; cases h1
  · rw [hA] at h1; rw [hB] at h2
    cases h1; cases h2
    have hm : row 1 1 10 ∈ [row 1 2 20, row 1 1 20] := hab.2.2.mem_iff.1 (by simp)
    revert hm
    decide

/-! ### non-vacuity -/

example : NoTies totalSpec tiesA := by decide
example : tiesA.WF := by unfold DS.WF; decide
/-- the hypotheses of `analytic_perm` are satisfiable and its conclusion is the non-trivial branch: -/
example : (analytic totalSpec tiesA).map (fun d => d.rows.map (·.get "Me_1")) = .ok [.int 10, .int 10] ∧
          (analytic totalSpec tiesB).map (fun d => d.rows.map (·.get "Me_1")) = .ok [.int 10, .int 10] := by decide
/-- a sliding sum with nulls: `sum(DS over (partition by Id_1 order by Id_2 data points between 1 preceding and
1 following))` -/
def ex1 : DS := DS.mk ["Id_1", "Id_2"] ["Me_1"]
  [row 1 3 5, row 1 1 10, [("Id_1", .int 1), ("Id_2", .int 2), ("Me_1", .null)], row 2 1 7, row 1 4 1]
def sumSpec : Spec :=
  { fn := .agg .sum, part := ["Id_1"], order := [("Id_2", false)],
    frame := some { range := false, lo := some (-1), hi := some 1 }, target := .each }
example : (analytic sumSpec ex1).map (fun d => d.rows.map (fun r => (r.get "Id_2", r.get "Me_1"))) =
    .ok [(.int 3, .int 6), (.int 1, .int 10), (.int 2, .int 15), (.int 1, .int 7), (.int 4, .int 6)] := by decide
/-- the hypotheses of `frame_spec` are satisfiable: the datapoint (1,3) is at position 2 of its partition -/
example : (sortedPart sumSpec.part sumSpec.order ex1.rows (row 1 3 5))[2]? = some (row 1 3 5) ∧
          (sortedPart sumSpec.part sumSpec.order ex1.rows (row 1 3 5)).Nodup := by decide
/-- lag with a default, rank with ties (shared rank, then a gap), ratio_to_report and its zero-sum error -/
example : (analytic { sumSpec with fn := .lag 1 (.int 0), frame := none } ex1).map
      (fun d => d.rows.map (fun r => (r.get "Id_2", r.get "Me_1"))) =
    .ok [(.int 3, .null), (.int 1, .int 0), (.int 2, .int 10), (.int 1, .int 0), (.int 4, .int 5)] := by decide
example : (analytic { fn := .rank, part := [], order := [("Id_1", true)], frame := none,
                      target := .calc "Me_2" (.const .null) } ex1).map (fun d => d.rows.map (·.get "Me_2")) =
    .ok [.int 2, .int 2, .int 2, .int 1, .int 2] := by decide
example : (analytic { fn := .ratio, part := ["Id_1"], order := [], frame := none, target := .each } ex1).map
      (fun d => d.rows.map (·.get "Me_1")) =
    .ok [.num (5 / 16), .num (10 / 16), .null, .num 1, .num (1 / 16)] := by decide +kernel
example : analytic { fn := .ratio, part := ["Id_1"], order := [], frame := none, target := .each }
    (DS.mk ["Id_1", "Id_2"] ["Me_1"] [row 1 1 5, row 1 2 (-5)]) = .error .divZero := by decide
/-- a `range` frame: keys within [k-1, k+2] -/
example : (analytic { sumSpec with frame := some { range := true, lo := some (-1), hi := some 2 } } ex1).map
      (fun d => d.rows.map (fun r => (r.get "Id_2", r.get "Me_1"))) =
    .ok [(.int 3, .int 6), (.int 1, .int 15), (.int 2, .int 16), (.int 1, .int 7), (.int 4, .int 6)] := by decide +kernel

end VtlModel.C06

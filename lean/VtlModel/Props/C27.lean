import VtlModel.Tables.LemmasSdmx
import VtlModel.Gen.Sdmx
/-!
C27 — SDMX structures map to VTL structures as documented.

`cfg` instantiates the model of `to_vtl_json` (Tables/Sdmx.lean) with the tables regenerated from
/repo on every run (Gen/Sdmx.lean: `VTL_DTYPES_MAPPING`, `VTL_ROLE_MAPPING`, the installed pysdmx
enums, the transcribed shape of the loop in `to_vtl_json`, the two tables of docs/data_structures.rst).
All theorems about component lists hold for lists of ANY length (induction), not only 1–5.
-/
namespace VtlModel.C27
open VtlModel.Tables.Sdmx
open VtlModel.Gen.Sdmx

def cfg : Cfg :=
  { dtypeMap := codeDtypeMap, roleMap := codeRoleMap, groups := componentGroups, nullNeq := nullNeq,
    nullRole := nullRole, dtypeMissIV := dtypeMissIV, roleMissIV := roleMissIV, dtypeFirst := dtypeFirst }

/-- the pysdmx data types that had no entry in the mapping when this file was written
    (hand-written; the `_partial` theorem excludes exactly these) -/
def knownUnmapped : List String := ["GeospatialInformation", "XHTML"]

/-- a pysdmx data type is handled: mapped, or turned into an input-validation error -/
def Handled (d : String) : Prop := (lookup codeDtypeMap d).isSome = true ∨ dtypeMissIV = true

instance (d : String) : Decidable (Handled d) := by unfold Handled; infer_instance

/-! ### the tables -/

/-- code table = documented table, for EVERY string key (not only the pysdmx ones) -/
theorem dtype_eq_doc (d : String) : lookup codeDtypeMap d = lookup docDtypeMap d := by
  by_cases h : d ∈ codeDtypeMap.map Prod.fst ++ docDtypeMap.map Prod.fst
  · revert d; decide +kernel
  · rw [List.mem_append, not_or] at h
    rw [lookup_none_of_not_mem _ _ h.1, lookup_none_of_not_mem _ _ h.2]

/-- role table and nullability = documented role table, for every string key -/
theorem role_eq_doc (r : String) :
    (lookup codeRoleMap r).map (fun v => (v, nullability cfg r))
      = (docRoleMap.find? (fun x => x.1 == r)).map (fun x => x.2) := by
  by_cases h : r ∈ codeRoleMap.map Prod.fst ++ docRoleMap.map Prod.fst
  · revert r; decide +kernel
  · rw [List.mem_append, not_or] at h
    rw [lookup_none_of_not_mem _ _ h.1, find_none_of_not_mem _ _ h.2]; rfl

/-- every role pysdmx can produce is mapped -/
theorem role_total : ∀ r ∈ pysdmxRoles, (lookup codeRoleMap r).isSome = true := by decide +kernel

/-- every VTL type the mapping can produce is a type name the VTL JSON loader knows -/
theorem dtype_values_are_vtl_types : ∀ p ∈ codeDtypeMap, p.2 ∈ vtlTypeNames := by decide +kernel

/-- partial: every pysdmx data type EXCEPT the known unmapped ones is mapped -/
theorem dtype_total_partial : ∀ d ∈ pysdmxDataTypes, d ∉ knownUnmapped → (lookup codeDtypeMap d).isSome = true := by
  decide +kernel

/-- full strength — or the concrete witness that refutes it on this tree: either every pysdmx data
    type is handled (mapped, or rejected as input validation), or a one-component structure with a
    known unmapped data type fails with a raw `KeyError`.  The check evaluates the witness through
    the driver and on the real `to_vtl_json` to tell which side holds. -/
theorem dtype_total_full_or_counter :
    (∀ d ∈ pysdmxDataTypes, Handled d) ∨
    (∃ d ∈ pysdmxDataTypes, d ∈ knownUnmapped ∧
        toVtlJson cfg [⟨"C", d, "DIMENSION"⟩] = .error (.keyError d)) := by
  first
    | exact Or.inl (by decide +kernel)
    | exact Or.inr (by decide +kernel)

/-! ### component lists of any length -/

/-- master statement: on success the output is, element by element and in dimension/measure/attribute
    order, the input component with its mapped type, mapped role and role-derived nullability -/
theorem to_vtl_json_pointwise (cs : List SComp) (out : List VComp) (h : toVtlJson cfg cs = .ok out) :
    Pw (fun c v => v.name = c.id ∧ lookup codeDtypeMap c.dtype = some v.type
          ∧ lookup codeRoleMap c.role = some v.role ∧ v.nullable = nullability cfg c.role)
      (ordered componentGroups cs) out :=
  forall2_imp (convAll_forall2 cfg _ _ h) (fun c v _ hcv => convOne_ok cfg c v hcv)

/-- and that is what the documentation promises for each component -/
theorem matches_doc (cs : List SComp) (out : List VComp) (h : toVtlJson cfg cs = .ok out) :
    Pw (fun c v => docConv docDtypeMap docRoleMap c = some v) (ordered componentGroups cs) out := by
  refine forall2_imp (to_vtl_json_pointwise cs out h) ?_
  intro c v _ ⟨hn, ht, hr, hnl⟩
  have hd := dtype_eq_doc c.dtype
  have hro := role_eq_doc c.role
  rw [ht] at hd
  rw [hr] at hro
  unfold docConv
  rw [← hd]
  cases hf : docRoleMap.find? (fun x => x.1 == c.role) with
  | none => rw [hf] at hro; cases hro
  | some x =>
    rw [hf] at hro
    obtain ⟨x1, x2, x3⟩ := x
    simp only [Option.map_some, Option.some.injEq, Prod.mk.injEq] at hro
    obtain ⟨h1, h2⟩ := hro
    obtain ⟨vn, vr, vt, vnl⟩ := v
    simp only at hn hnl h1 h2 ⊢
    subst hn h1
    rw [hnl, h2]

theorem groups_nodup : componentGroups.Nodup := by decide +kernel
theorem roles_in_groups : ∀ r ∈ pysdmxRoles, r ∈ componentGroups := by decide +kernel

/-- one VTL component per SDMX component: same number, and the names are the ids (as a multiset;
    the order is dimensions, measures, attributes) -/
theorem one_component_per_sdmx_component (cs : List SComp) (hr : ∀ c ∈ cs, c.role ∈ pysdmxRoles)
    (out : List VComp) (h : toVtlJson cfg cs = .ok out) :
    out.length = cs.length ∧ (out.map (·.name)).Perm (cs.map (·.id)) := by
  have hp := to_vtl_json_pointwise cs out h
  have hperm : (ordered componentGroups cs).Perm cs :=
    ordered_perm _ _ groups_nodup (fun c hc => roles_in_groups _ (hr c hc))
  have hmap : out.map (·.name) = (ordered componentGroups cs).map (·.id) :=
    forall2_map_eq (·.id) (·.name) hp (fun _ _ h => h.1)
  refine ⟨?_, ?_⟩
  · rw [← forall2_length hp]; exact hperm.length_eq
  · rw [hmap]; exact hperm.map _

theorem null_side : ∀ r ∈ pysdmxRoles, ∀ v, lookup codeRoleMap r = some v →
    ((nullability cfg r = true ↔ r ≠ "DIMENSION") ∧ (r = "DIMENSION" ↔ v = "Identifier")) := by
  decide +kernel

/-- dimensions are the only non-nullable components: in the output, `nullable` holds exactly for the
    components that are not Identifiers, and each output component is nullable exactly when the SDMX
    component it comes from is not a dimension -/
theorem nullable_iff_not_dimension (cs : List SComp) (hr : ∀ c ∈ cs, c.role ∈ pysdmxRoles)
    (out : List VComp) (h : toVtlJson cfg cs = .ok out) :
    (∀ v ∈ out, (v.nullable = true ↔ v.role ≠ "Identifier")) ∧
    Pw (fun c v => v.name = c.id ∧ (v.nullable = true ↔ c.role ≠ "DIMENSION")) (ordered componentGroups cs) out := by
  have hp := to_vtl_json_pointwise cs out h
  have hperm : (ordered componentGroups cs).Perm cs :=
    ordered_perm _ _ groups_nodup (fun c hc => roles_in_groups _ (hr c hc))
  have key : Pw (fun c v => v.name = c.id ∧ (v.nullable = true ↔ c.role ≠ "DIMENSION")
      ∧ (v.nullable = true ↔ v.role ≠ "Identifier")) (ordered componentGroups cs) out := by
    refine forall2_imp hp ?_
    intro c v hc ⟨hn, _, hro, hnl⟩
    have hs := null_side c.role (hr c (hperm.mem_iff.mp hc)) v.role hro
    refine ⟨hn, by rw [hnl]; exact hs.1, ?_⟩
    rw [hnl, hs.1]
    exact not_congr hs.2
  refine ⟨?_, forall2_imp key (fun _ _ _ h => ⟨h.1, h.2.1⟩)⟩
  intro v hv
  obtain ⟨c, _, hcv⟩ := forall2_right key v hv
  exact hcv.2.2

/-- a structure is converted exactly when every data type in it is mapped -/
theorem ok_iff_all_mapped (cs : List SComp) (hr : ∀ c ∈ cs, c.role ∈ pysdmxRoles) :
    (∃ out, toVtlJson cfg cs = .ok out) ↔ ∀ c ∈ cs, (lookup codeDtypeMap c.dtype).isSome = true := by
  have hperm : (ordered componentGroups cs).Perm cs :=
    ordered_perm _ _ groups_nodup (fun c hc => roles_in_groups _ (hr c hc))
  constructor
  · intro ⟨out, h⟩ c hc
    have hp := to_vtl_json_pointwise cs out h
    have : ∀ (l : List SComp) (o : List VComp), Pw (fun c v => v.name = c.id ∧ lookup codeDtypeMap c.dtype = some v.type
          ∧ lookup codeRoleMap c.role = some v.role ∧ v.nullable = nullability cfg c.role) l o →
          ∀ c ∈ l, (lookup codeDtypeMap c.dtype).isSome = true := by
      intro l o hpw
      induction hpw with
      | nil => intro c hc; cases hc
      | cons hab _ ih =>
        intro c hc
        rw [List.mem_cons] at hc
        rcases hc with rfl | hc
        · rw [hab.2.1]; rfl
        · exact ih c hc
    exact this _ _ hp c (hperm.mem_iff.mpr hc)
  · intro hall
    apply convAll_ok_of_forall
    intro c hc
    have hc' := hperm.mem_iff.mp hc
    have h1 := hall c hc'
    have h2 := role_total c.role (hr c hc')
    cases hd : lookup codeDtypeMap c.dtype with
    | none => rw [hd] at h1; cases h1
    | some t =>
      cases hro : lookup codeRoleMap c.role with
      | none => rw [hro] at h2; cases h2
      | some r =>
        refine ⟨⟨c.id, r, t, nullability cfg c.role⟩, ?_⟩
        show convOne cfg c = _
        unfold convOne
        show (match lookup codeDtypeMap c.dtype, lookup codeRoleMap c.role with
          | some t, some r => _ | none, some _ => _ | some _, none => _ | none, none => _) = _
        rw [hd, hro]

/-! ### non-vacuity -/
example : (match toVtlJson cfg [⟨"A1", "ReportingYear", "ATTRIBUTE"⟩, ⟨"M1", "Double", "MEASURE"⟩, ⟨"D1", "String", "DIMENSION"⟩] with
    | .ok out => out.length == 3 && out.contains ⟨"A1", "Attribute", "Time_Period", true⟩
        && out.contains ⟨"D1", "Identifier", "String", false⟩ && out.contains ⟨"M1", "Measure", "Number", true⟩
    | .error _ => false) = true := by decide +kernel

end VtlModel.C27

/-
  C19 — run() rejects every input that violates its declared structure, and accepts everything else.

  The theorems are about `InputSpec` (VtlModel.Input.Spec): the loader of the specification
  (`acceptTable`, written as the sequence of checks a loader performs) succeeds exactly when none of the
  enumerated violations — stated independently, as propositions over the raw table — is present; this holds
  for every structure and every table (any number of rows and columns, any cell text).  The tie to the real
  loaders is the correspondence run by harness/checks/c19.py and the translator of the loaders' patterns
  (Gen/InputPatterns → `implAccept`).
-/
import VtlModel.Input.Spec
import VtlModel.Input.Impl
import VtlModel.Input.LemmasSpec
import VtlModel.Gen.InputDocExamples
import VtlModel.Props.C21

namespace VtlModel.C19
open VtlModel.Input VtlModel.Time

/-- `acceptTable` succeeds ⇔ none of the enumerated violations is present (every table, any size). -/
theorem accept_iff_noViolation (s : Struct) (t : Table) :
    (∃ n, acceptTable s t = .ok n) ↔ NoViolation s t := by
  unfold NoViolation vDuplicateColumn vMissingIdentifier vMissingNonNullable vBadValue vNullRequired
    vTooManyRows vDuplicateKey
  unfold acceptTable
  cases hd : hasDup t.cols with
  | true =>
    have := (hasDup_iff t.cols).mp hd
    simp [this]
  | false =>
    have hnd := (hasDup_false_iff t.cols).mp hd
    simp only [Bool.false_eq_true, if_false, hnd, not_true_eq_false, not_false_eq_true, true_and]
    cases hc : checkColumns s t.cols with
    | error e =>
      have hcc : ¬ (checkColumns s t.cols = .ok ()) := by simp [hc]
      rw [checkColumns_ok_iff] at hcc
      simp only [reduceCtorEq, exists_false, false_iff]
      intro ⟨h1, h2, _⟩
      apply hcc
      intro c hcs
      by_cases hm : c.name ∈ t.cols
      · exact Or.inl hm
      · right
        cases hi : isId c with
        | true => exact absurd ⟨c, hcs, hi, hm⟩ h1
        | false =>
          cases hn : c.nullable with
          | true => exact ⟨rfl, rfl⟩
          | false => exact absurd ⟨c, hcs, hi, hn, hm⟩ h2
    | ok u =>
      have hcc := (checkColumns_ok_iff s t.cols).mp (by cases u; exact hc)
      have hA : ¬ ∃ c ∈ s, isId c = true ∧ c.name ∉ t.cols := by
        rintro ⟨c, hcs, hi, hm⟩
        rcases hcc c hcs with h | h
        · exact hm h
        · simp [hi] at h
      have hB : ¬ ∃ c ∈ s, isId c = false ∧ c.nullable = false ∧ c.name ∉ t.cols := by
        rintro ⟨c, hcs, _, hn, hm⟩
        rcases hcc c hcs with h | h
        · exact hm h
        · simp [hn] at h
      simp only [hA, hB, not_false_eq_true, true_and]
      cases hm : mapE (normRow s t.cols) t.rows with
      | error e =>
        have hne : ¬ ∃ ns, mapE (normRow s t.cols) t.rows = .ok ns := by simp [hm]
        rw [mapE_ok_iff] at hne
        simp only [reduceCtorEq, exists_false, false_iff]
        intro ⟨h1, h2, _⟩
        apply hne
        intro r hr
        apply (normRow_ok_iff s t.cols r).mpr
        intro c hcs
        refine ⟨fun hnone => h1 ⟨r, hr, c, hcs, hnone⟩, fun hreq => h2 ⟨r, hr, c, hcs, hreq.1, hreq.2⟩⟩
      | ok ns =>
        have hall := (mapE_ok_iff (normRow s t.cols) t.rows).mp ⟨ns, hm⟩
        have hlen := mapE_length (normRow s t.cols) t.rows ns hm
        have hC : ¬ ∃ r ∈ t.rows, ∃ c ∈ s, cellVal c (rawCell t.cols c r) = none := by
          rintro ⟨r, hr, c, hcs, hnone⟩
          exact ((normRow_ok_iff s t.cols r).mp (hall r hr) c hcs).1 hnone
        have hD : ¬ ∃ r ∈ t.rows, ∃ c ∈ s, required c = true ∧ cellVal c (rawCell t.cols c r) = some Val.null := by
          rintro ⟨r, hr, c, hcs, h1, h2⟩
          exact ((normRow_ok_iff s t.cols r).mp (hall r hr) c hcs).2 ⟨h1, h2⟩
        have hkeys := keys_nodup_iff s t.cols t.rows ns hm
        simp only [hC, hD, not_false_eq_true, true_and]
        have hnoid : (s.all (fun c => !isId c)) = true ↔ ∀ c ∈ s, isId c = false := by
          simp [List.all_eq_true]
        by_cases h1 : (s.all (fun c => !isId c)) = true ∧ ns.length > 1
        · have h1' : ((s.all fun c => !isId c) && decide (ns.length > 1)) = true := by simp [h1.1, h1.2]
          simp only [h1', if_true, reduceCtorEq, exists_false, false_iff]
          intro ⟨h, _⟩
          exact h ⟨hnoid.mp h1.1, hlen ▸ h1.2⟩
        · have h1' : ((s.all fun c => !isId c) && decide (ns.length > 1)) = false := by
            cases ha : (s.all fun c => !isId c) <;> simp_all
          simp only [h1', Bool.false_eq_true, if_false]
          have hE : ¬ ((∀ c ∈ s, isId c = false) ∧ t.rows.length > 1) := by
            intro ⟨ha, hb⟩; exact h1 ⟨hnoid.mpr ha, hlen ▸ hb⟩
          simp only [hE, not_false_eq_true, true_and]
          cases hk : hasDup (ns.map (keyOf s)) with
          | true =>
            have := (hasDup_iff _).mp hk
            simp only [if_true, reduceCtorEq, exists_false, false_iff, Classical.not_not]
            intro hn; exact this (hkeys.mpr hn)
          | false =>
            have := (hasDup_false_iff _).mp hk
            simp only [Bool.false_eq_true, if_false, Except.ok.injEq, exists_eq', true_iff, Classical.not_not]
            exact hkeys.mp this

/-- Rejection as a duplicate ⇔ no other violation is present and the identifier keys (compared as the
    values they denote) are not duplicate-free. -/
theorem dup_iff (s : Struct) (t : Table) :
    acceptTable s t = .error .duplicateKey ↔
      (¬ vDuplicateColumn t ∧ ¬ vMissingIdentifier s t ∧ ¬ vMissingNonNullable s t ∧ ¬ vBadValue s t ∧
        ¬ vNullRequired s t ∧ ¬ vTooManyRows s t) ∧ ¬ (t.rows.map (rawKey s t.cols)).Nodup := by
  have hmain := accept_iff_noViolation s t
  unfold NoViolation vDuplicateKey at hmain
  constructor
  · intro h
    -- the loader reached its last check: every earlier one passed
    have hnot : ¬ ∃ n, acceptTable s t = .ok n := by rw [h]; simp
    unfold acceptTable at h
    cases hd : hasDup t.cols with
    | true => simp [hd] at h
    | false =>
      simp only [hd, Bool.false_eq_true, if_false] at h
      cases hc : checkColumns s t.cols with
      | error e => simp only [hc, Except.error.injEq] at h; exact absurd h (checkColumns_error_ne _ _ _ hc)
      | ok u =>
        simp only [hc] at h
        cases hm : mapE (normRow s t.cols) t.rows with
        | error e => simp only [hm, Except.error.injEq] at h; exact absurd h (rows_error_ne _ _ _ _ hm)
        | ok ns =>
          simp only [hm] at h
          cases h1 : ((s.all fun c => !isId c) && decide (ns.length > 1)) with
          | true => simp [h1] at h
          | false =>
            simp only [h1, Bool.false_eq_true, if_false] at h
            cases hk : hasDup (ns.map (keyOf s)) with
            | false => simp [hk] at h
            | true =>
              -- now every other violation is absent: otherwise `accept_iff_noViolation` on the table with
              -- the key check removed; we read them off the passed checks directly
              have hkeys := keys_nodup_iff s t.cols t.rows ns hm
              have hdupk : ¬ (t.rows.map (rawKey s t.cols)).Nodup :=
                fun hn => ((hasDup_iff _).mp hk) (hkeys.mpr hn)
              refine ⟨?_, hdupk⟩
              have hnd := (hasDup_false_iff t.cols).mp hd
              have hcc := (checkColumns_ok_iff s t.cols).mp (by cases u; exact hc)
              have hall := (mapE_ok_iff (normRow s t.cols) t.rows).mp ⟨ns, hm⟩
              have hlen := mapE_length (normRow s t.cols) t.rows ns hm
              refine ⟨fun hv => hv hnd, ?_, ?_, ?_, ?_, ?_⟩
              · rintro ⟨c, hcs, hi, hmm⟩
                rcases hcc c hcs with h' | h'
                · exact hmm h'
                · simp [hi] at h'
              · rintro ⟨c, hcs, _, hn, hmm⟩
                rcases hcc c hcs with h' | h'
                · exact hmm h'
                · simp [hn] at h'
              · rintro ⟨r, hr, c, hcs, hnone⟩
                exact ((normRow_ok_iff s t.cols r).mp (hall r hr) c hcs).1 hnone
              · rintro ⟨r, hr, c, hcs, h1', h2'⟩
                exact ((normRow_ok_iff s t.cols r).mp (hall r hr) c hcs).2 ⟨h1', h2'⟩
              · rintro ⟨ha, hb⟩
                have : (s.all fun c => !isId c) = true := by simp [List.all_eq_true]; exact ha
                rw [this] at h1
                simp only [Bool.true_and, decide_eq_false_iff_not] at h1
                exact h1 (hlen ▸ hb)
  · rintro ⟨⟨h1, h2, h3, h4, h5, h6⟩, h7⟩
    -- not accepted, and the only violation present is the duplicate key
    have hnot : ¬ ∃ n, acceptTable s t = .ok n := by
      intro hex; exact (hmain.mp hex).2.2.2.2.2.2 h7
    unfold acceptTable at hnot ⊢
    have hnd : t.cols.Nodup := Classical.not_not.mp h1
    have hd := (hasDup_false_iff t.cols).mpr hnd
    simp only [hd, Bool.false_eq_true, if_false] at hnot ⊢
    have hcc : checkColumns s t.cols = .ok () := by
      rw [checkColumns_ok_iff]
      intro c hcs
      by_cases hm : c.name ∈ t.cols
      · exact Or.inl hm
      · right
        cases hi : isId c with
        | true => exact absurd ⟨c, hcs, hi, hm⟩ h2
        | false =>
          cases hn : c.nullable with
          | true => exact ⟨rfl, rfl⟩
          | false => exact absurd ⟨c, hcs, hi, hn, hm⟩ h3
    simp only [hcc] at hnot ⊢
    have hrows : ∃ ns, mapE (normRow s t.cols) t.rows = .ok ns := by
      rw [mapE_ok_iff]
      intro r hr
      apply (normRow_ok_iff s t.cols r).mpr
      intro c hcs
      exact ⟨fun hnone => h4 ⟨r, hr, c, hcs, hnone⟩, fun hreq => h5 ⟨r, hr, c, hcs, hreq.1, hreq.2⟩⟩
    obtain ⟨ns, hm⟩ := hrows
    have hlen := mapE_length (normRow s t.cols) t.rows ns hm
    simp only [hm] at hnot ⊢
    have h1' : ((s.all fun c => !isId c) && decide (ns.length > 1)) = false := by
      cases ha : (s.all fun c => !isId c) with
      | false => simp
      | true =>
        simp only [Bool.true_and, decide_eq_false_iff_not]
        intro hb
        apply h6
        refine ⟨?_, hlen ▸ hb⟩
        simpa [List.all_eq_true] using ha
    simp only [h1', Bool.false_eq_true, if_false] at hnot ⊢
    cases hk : hasDup (ns.map (keyOf s)) with
    | true => simp
    | false => simp [hk] at hnot


/-- Row order is irrelevant: a permutation of the rows is accepted exactly when the table is, and the
    normalised result is the same permutation of the normalised rows. -/
theorem accept_perm (s : Struct) (cols : List (List Char)) (rows rows' : List (List (Option (List Char))))
    (hp : rows.Perm rows') :
    ((∃ n, acceptTable s ⟨cols, rows⟩ = .ok n) ↔ (∃ n', acceptTable s ⟨cols, rows'⟩ = .ok n')) ∧
    (∀ n n', acceptTable s ⟨cols, rows⟩ = .ok n → acceptTable s ⟨cols, rows'⟩ = .ok n' → n.Perm n') := by
  constructor
  · rw [accept_iff_noViolation, accept_iff_noViolation]
    unfold NoViolation vDuplicateColumn vMissingIdentifier vMissingNonNullable vBadValue vNullRequired
      vTooManyRows vDuplicateKey
    simp only [hp.mem_iff, hp.length_eq, (hp.map (rawKey s cols)).nodup_iff]
  · intro n n' h h'
    rw [acceptTable_eq_map s _ n h, acceptTable_eq_map s _ n' h']
    exact hp.map _

/-- Acceptance depends on the columns only through the lookup `component ↦ cell`: two tables with the same
    rows-as-lookups (e.g. the same table with its columns in another order) get the same verdict and the
    same normalised result.  (That an arbitrary permutation of the columns preserves the lookup is shown on
    an instance below, not in general: partial.) -/
theorem accept_perm_cols_partial (s : Struct) (t t' : Table) (φ : List (Option (List Char)) → List (Option (List Char)))
    (hdup : hasDup t'.cols = hasDup t.cols)
    (hmem : ∀ c ∈ s, t'.cols.contains c.name = t.cols.contains c.name)
    (hrows : t'.rows = t.rows.map φ)
    (hlook : ∀ r ∈ t.rows, ∀ c ∈ s, rawCell t'.cols c (φ r) = rawCell t.cols c r) :
    acceptTable s t' = acceptTable s t := by
  have hcheck : ∀ (s0 : Struct), (∀ c ∈ s0, t'.cols.contains c.name = t.cols.contains c.name) →
      checkColumns s0 t'.cols = checkColumns s0 t.cols := by
    intro s0
    induction s0 with
    | nil => intro _; rfl
    | cons c cs ih =>
      intro h
      simp only [checkColumns, h c (by simp), ih (fun x hx => h x (by simp [hx]))]
  have hcell : ∀ r ∈ t.rows, ∀ (s0 : Struct), (∀ c ∈ s0, c ∈ s) →
      mapE (normCell t'.cols (φ r)) s0 = mapE (normCell t.cols r) s0 := by
    intro r hr s0
    induction s0 with
    | nil => intro _; rfl
    | cons c cs ih =>
      intro h
      have hc : normCell t'.cols (φ r) c = normCell t.cols r c := by
        unfold normCell; rw [hlook r hr c (h c (by simp))]
      simp only [mapE, hc, ih (fun x hx => h x (by simp [hx]))]
  have hmap : ∀ (rs : List (List (Option (List Char)))), (∀ r ∈ rs, r ∈ t.rows) →
      mapE (normRow s t'.cols) (rs.map φ) = mapE (normRow s t.cols) rs := by
    intro rs
    induction rs with
    | nil => intro _; rfl
    | cons r rs ih =>
      intro h
      have hr : normRow s t'.cols (φ r) = normRow s t.cols r := hcell r (h r (by simp)) s (fun _ hc => hc)
      simp only [List.map_cons, mapE, hr, ih (fun x hx => h x (by simp [hx]))]
  unfold acceptTable
  rw [hdup, hcheck s hmem, hrows, hmap t.rows (fun _ h => h)]

/-- `e` is the successful result `n`. -/
def isOkWith (e : Except Violation NTable) (n : NTable) : Bool :=
  match e with
  | .ok m => m == n
  | .error _ => false

/-- Column order, an instance: the two-column table and the same table with its columns swapped. -/
example :
    isOkWith (acceptTable [⟨['I'], .integer, .identifier, false⟩, ⟨['M'], .period, .measure, true⟩]
        ⟨[['M'], ['I']], [[some ['2','0','2','0','-','0','1'], some ['7']]]⟩) [[.int 7, .period ⟨2020, .M, 1⟩]] = true ∧
    isOkWith (acceptTable [⟨['I'], .integer, .identifier, false⟩, ⟨['M'], .period, .measure, true⟩]
        ⟨[['I'], ['M']], [[some ['7'], some ['2','0','2','0','-','0','1']]]⟩) [[.int 7, .period ⟨2020, .M, 1⟩]] = true := by
  decide

/-! ### what an accepted table looks like -/

/-- What is known of a denoted value of each type (null is a value of every type). -/
def hasType : Ty → Val → Prop
  | _, .null => True
  | .integer, .int i => int64Min ≤ i ∧ i ≤ int64Max
  | .number, .num _ _ _ => True
  | .string, .str _ => True
  | .boolean, .bool _ => True
  | .date, .date _ _ => True
  | .period, .period p => valid p = true
  | .interval, .interval _ _ _ _ => True
  | .duration, .dur _ => True
  | _, _ => False

/-- A recognised cell denotes a value of its component's type. -/
theorem denote_hasType (ty : Ty) (s : List Char) (v : Val) (h : denoteCell ty s = some v) : hasType ty v := by
  cases ty <;> simp only [denoteCell] at h
  · -- integer
    simp only [denoteInteger] at h
    repeat' (split at h)
    all_goals first
      | (cases h; done)
      | (cases h; first | assumption | simp [hasType, int64Min, int64Max])
  · -- number
    simp only [denoteNumber] at h
    repeat' (split at h)
    all_goals first | (cases h; done) | (cases h; trivial)
  · cases h; trivial
  · -- boolean
    simp only [denoteBoolean] at h
    repeat' (split at h)
    all_goals first | (cases h; done) | (cases h; trivial)
  · -- date
    simp only [denoteDate] at h
    repeat' (split at h)
    all_goals first | (cases h; done) | (cases h; trivial)
  · -- period
    simp only [denotePeriod] at h
    split at h
    · rename_i p hp; cases h; exact C21.parse_valid s p hp
    · cases h
  · -- interval
    simp only [denoteInterval] at h
    repeat' (split at h)
    all_goals first | (cases h; done) | (cases h; trivial)
  · -- duration
    simp only [denoteDuration] at h
    repeat' (split at h)
    all_goals first | (cases h; done) | (cases h; trivial)

/-- What an accepted table looks like: one normalised row per input row, every row aligned with the
    structure, every value of its component's type, no null where one is forbidden, at most one row when there
    is no identifier, and identifier keys without duplicates. -/
theorem accept_wellformed (s : Struct) (t : Table) (n : NTable) (h : acceptTable s t = .ok n) :
    n.length = t.rows.length ∧
    (∀ r ∈ n, r.length = s.length) ∧
    (∀ r ∈ t.rows, ∀ c ∈ s, hasType c.ty (cellGet c (rawCell t.cols c r)) ∧
        (required c = true → cellGet c (rawCell t.cols c r) ≠ .null)) ∧
    ((∀ c ∈ s, isId c = false) → n.length ≤ 1) ∧
    (n.map (keyOf s)).Nodup := by
  have hex : ∃ m, acceptTable s t = .ok m := ⟨n, h⟩
  have hnv := (accept_iff_noViolation s t).mp hex
  obtain ⟨_, _, _, hbad, hnull, hmany, hdup⟩ := hnv
  have hm := acceptTable_rows s t n h
  have hn := acceptTable_eq_map s t n h
  have hlen := mapE_length _ _ _ hm
  refine ⟨hlen, ?_, ?_, ?_, ?_⟩
  · intro r hr
    rw [hn] at hr
    simp only [List.mem_map] at hr
    obtain ⟨r0, _, rfl⟩ := hr
    simp [normRowD]
  · intro r hr c hc
    have hne : cellVal c (rawCell t.cols c r) ≠ none := fun hnone => hbad ⟨r, hr, c, hc, hnone⟩
    cases hcv : cellVal c (rawCell t.cols c r) with
    | none => exact absurd hcv hne
    | some v =>
      have hget : cellGet c (rawCell t.cols c r) = v := by simp [cellGet, hcv]
      rw [hget]
      constructor
      · unfold cellVal at hcv
        split at hcv
        · cases hcv; trivial
        · split at hcv
          · cases hcv; trivial
          · exact denote_hasType _ _ _ hcv
      · intro hreq hv
        exact hnull ⟨r, hr, c, hc, hreq, by rw [hcv, hv]⟩
  · intro hno
    have : ¬ t.rows.length > 1 := fun hgt => hmany ⟨hno, hgt⟩
    omega
  · have hk := keys_nodup_iff s t.cols t.rows n hm
    exact hk.mpr (Classical.not_not.mp hdup)

/-- Every accepted Time_Period spelling denotes a period that exists in the calendar: month ≤ 12,
    week ≤ ISO weeks of that year, day ≤ days of that year — for every text. -/
theorem accepted_period_valid (s : List Char) (p : Period) (h : denoteCell .period s = some (.period p)) :
    valid p = true ∧ 1 ≤ p.num ∧ p.num ≤ periodsInYear p.ind p.year := by
  simp only [denoteCell, denotePeriod] at h
  cases hp : parse s with
  | none => simp [hp] at h
  | some q =>
    simp only [hp, Option.some.injEq, Val.period.injEq] at h
    subst h
    have hv := C21.parse_valid s q hp
    exact ⟨hv, (valid_iff q).mp hv⟩

/-- Every documented input spelling of every calendar period with a four-digit year is accepted and
    denotes that period (∀ year, indicator, number; `spellings` = the Formats column of the docs table). -/
theorem documented_spellings_accepted (p : Period) (h : C21.WF p) (s : List Char) (hs : s ∈ spellings p) :
    denoteCell .period s = some (.period p) ∧ renderVal (.period p) ≠ [] := by
  have hp := C21.spellings_parse p s h hs
  refine ⟨by simp [denoteCell, denotePeriod, hp], ?_⟩
  cases p with
  | mk y i n => cases i <;> simp [renderVal, render, yearChars, pad]

/-- The magnitude bound of a Number is the configured DECIMAL(width, scale): width − scale integer digits. -/
theorem number_range_is_configured : numberIntDigits = Gen.decimalWidth - Gen.decimalScale := by decide

/-- Every quoted input example of docs/data_types.rst (all eight types) is accepted. -/
theorem doc_examples_accepted : Gen.docExamples.all (fun e => accepts e.1 e.2) = true := by decide

/-- `2020D-1`-style examples: the Examples column of the Daily row writes the hyphen after the letter,
    the Formats column (`YYYY-D[xx]x`) before it. -/
def isDashTypo : List Char → Bool
  | _ :: _ :: _ :: _ :: 'D' :: '-' :: _ => true
  | _ => false

/-- Every example of the "Accepted input formats" table denotes period 1 of 2020 of its row's indicator … -/
theorem doc_period_examples_denote :
    (Gen.docPeriodExamples.filter (fun e => !isDashTypo e.2)).all
      (fun e => denoteCell .period e.2 == some (.period ⟨2020, e.1, 1⟩)) = true := by decide

/-- … except the examples the table itself misspells (neither InputSpec nor any loader accepts them). -/
theorem doc_period_examples_typo_counter :
    (Gen.docPeriodExamples.filter (fun e => isDashTypo e.2)).all (fun e => !accepts .period e.2) = true := by
  decide

/-- The SQL loader's pattern checks (regex constants transcribed from io/_validation.py) let through texts
    that are not valid representations under the documented formats: no calendar check (month 13, week 53 of
    a 52-week year, day 366 of a common year, 30 February), no interval order check, letter case folded,
    one-digit month / day.  Each witness is replayed on the real loaders by the check. -/
theorem implAccept_counter :
    (implAccept .period ['2','0','2','0','M','1','3'] = some true ∧ accepts .period ['2','0','2','0','M','1','3'] = false) ∧
    (implAccept .period ['2','0','2','0','-','1','3'] = some true ∧ accepts .period ['2','0','2','0','-','1','3'] = false) ∧
    (implAccept .period ['2','0','2','1','-','W','5','3'] = some true ∧ accepts .period ['2','0','2','1','-','W','5','3'] = false) ∧
    (implAccept .period ['2','0','2','1','D','3','6','6'] = some true ∧ accepts .period ['2','0','2','1','D','3','6','6'] = false) ∧
    (implAccept .interval ['2','0','2','0','-','1','2','-','3','1','/','2','0','2','0','-','0','1','-','0','1'] = some true ∧
      accepts .interval ['2','0','2','0','-','1','2','-','3','1','/','2','0','2','0','-','0','1','-','0','1'] = false) ∧
    (implAccept .interval ['2','0','2','0','-','0','2','-','3','0','/','2','0','2','0','-','0','3','-','0','1'] = some true ∧
      accepts .interval ['2','0','2','0','-','0','2','-','3','0','/','2','0','2','0','-','0','3','-','0','1'] = false) ∧
    (implAccept .duration ['a'] = some true ∧ accepts .duration ['a'] = false) ∧
    (implAccept .date ['2','0','2','0','-','1','-','5'] = some true ∧ accepts .date ['2','0','2','0','-','1','-','5'] = false) := by
  decide

end VtlModel.C19

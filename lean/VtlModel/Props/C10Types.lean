import VtlModel.Sem.TypeSound
import VtlModel.Sem.Lemmas
/-! # C10 (continued) — every computed value conforms to the predicted component type

Type soundness of the row-level expression language (the expressions of `calc`, `filter`, and the bodies
of the element-wise dataset operators): a well-typed expression evaluated on a row that conforms to its
declared component types yields a value of the predicted type (null is a value of every type, Integer
values are Number values), for every expression and every row. -/
namespace VtlModel.C10
open VtlModel.Sem

theorem scalar_type_soundness (Γ : TEnv) (r : Row) (h1 h2 : Value) (t1 t2 : Ty) (hr : RowTyped Γ r)
    (hh1 : h1.hasTy t1 = true) (hh2 : h2.hasTy t2 = true) (e : SExpr) (τ : Ty) (v : Value)
    (ht : typeOfS Γ t1 t2 e = some τ) (hv : evalS r h1 h2 e = .ok v) : v.hasTy τ = true :=
  evalS_sound Γ r h1 h2 t1 t2 hr hh1 hh2 e τ v ht hv

/-- a `filter` condition that type-checks as Boolean only ever evaluates to TRUE, FALSE or NULL. -/
theorem filter_condition_is_logical (Γ : TEnv) (r : Row) (hr : RowTyped Γ r) (c : SExpr) (v : Value)
    (ht : typeOfS Γ .nul .nul c = some .bool) (hv : evalS r .null .null c = .ok v) :
    v = .null ∨ ∃ b, v = .bool b := by
  have := evalS_sound Γ r .null .null .nul .nul hr rfl rfl c .bool v ht hv
  cases v <;> simp_all [Value.hasTy]

/-- every component computed by a well-typed `calc` conforms to its predicted type. -/
theorem calc_values_typed (Γ : TEnv) (r : Row) (hr : RowTyped Γ r) (items : List (String × SExpr))
    (ty : String × SExpr → Ty) (hty : ∀ it ∈ items, typeOfS Γ .nul .nul it.2 = some (ty it))
    (vs : List (String × Value)) (hv : calcVals items r = .ok vs) :
    ∀ nv ∈ vs, ∃ it ∈ items, nv.1 = it.1 ∧ nv.2.hasTy (ty it) = true := by
  intro nv hnv
  unfold calcVals at hv
  obtain ⟨it, hit, hf⟩ := (mapM_ok_mem _ items vs hv nv).1 hnv
  refine ⟨it, hit, ?_⟩
  cases he : evalS r .null .null it.2 with
  | error er => simp [he, Except.map] at hf
  | ok v =>
    simp [he, Except.map] at hf
    subst hf
    exact ⟨rfl, evalS_sound Γ r .null .null .nul .nul hr rfl rfl it.2 (ty it) v (hty it hit) he⟩

/-! non-vacuity -/
example : typeOfS [("Me_1", .num), ("Me_2", .int)] .nul .nul
    (.bin .add (.col "Me_1") (.bin .mul (.col "Me_2") (.const (.int 2)))) = some .num := by decide
example : typeOfS [("Me_1", .str)] .nul .nul (.bin .add (.col "Me_1") (.const (.int 2))) = none := by decide

end VtlModel.C10

import VtlModel.Sem.ViralLemmas
/-! # C28 — viral attributes propagate according to the declared rule (model part)

Over the model `VtlModel.Sem.Viral` (rule kinds as the engine's registry holds them; `pair`, `group`, `wide` = the
three SQL fragments of `ViralPropagation/sql.py`; viral attributes carried as named columns of the core `DS`):

* `enum_pair_comm`            every enumerated rule combines two values symmetrically (all rules, all values);
* `agg_group_perm`            an aggregate rule (`min max sum avg`) over a group does not depend on the order of the group;
* `enum_group_perm_partial`   an enumerated rule whose two-value CASE is ASSOCIATIVE folds a group independently of its
                              order (commutativity is `enum_pair_comm`); `enum_group_counter`: for a non-associative rule
                              the fold `list_reduce(list(col), …)` DOES depend on the order (replayed on the real engine by
                              `harness/checks/c28.py`: the engine builds the list without ORDER BY);
* `clause_passthrough`        clauses, plain assignment and set operators of the core evaluator `evalD` leave the viral
                              column of every datapoint unchanged;
* `rowwise_viral / binary_viral / aggregation_viral / analytic_viral`  the viral value of every result datapoint of a row-preserving operator / a
                              dataset ∘ dataset operator / an aggregation is `wide` / `pair` / `group` of the values of the
                              datapoints combined into it;
* `no_rule_rejected`          a result carrying a viral attribute without a rule is rejected by semantic analysis;
* `viral_ExtWF`, `viral_ExtPerm`  the operators preserve unique identifier keys and (aggregation: for order-free rules)
                              commute with permutations of the input rows, so `C10.evalD_WF` / `C33.evalD_perm` extend to
                              expressions that contain them. -/
namespace VtlModel.C28
open VtlModel.Sem List

/-! ## the rule applied to two values -/

/-- **Every enumerated rule is symmetric in its two operands**, whatever its clauses (their conditions are
`v IN (a, b)` tests): `DS_1 op DS_2` and `DS_2 op DS_1` give every datapoint the same viral value. -/
theorem enum_pair_comm (cl : List VClause) (d : Option String) (a b : Value) :
    pair (.enum cl d) a b = pair (.enum cl d) b a := by
  simp only [pair, enumCase_comm cl d a b, Bool.and_comm]

/-- the aggregate `sum` rule is symmetric too (`min`/`max` pick one of two equal numbers, which may differ in their
Integer/Number representation, so they are symmetric only up to numeric equality). -/
theorem agg_sum_pair_comm (a b : Value) : pair (.agg .sum) a b = pair (.agg .sum) b a := by
  cases a <;> cases b <;> simp [pair, binop, arith, Int.add_comm, Rat.add_comm]

/-! ## the rule applied to a group -/

/-- **Aggregate rules do not see the order of the group** (native `MIN/MAX/SUM/AVG`). -/
theorem agg_group_perm (f : AggFn) {xs ys : List Value} (h : xs.Perm ys) : group (.agg f) xs = group (.agg f) ys :=
  aggVals_perm f.op h

/-- **Partial order-independence of enumerated rules**: when the rule's CASE is associative (it is always
commutative), the fold the engine emits gives the same value for every order of the group.  Not provable without the
hypothesis: `enum_group_counter`. -/
theorem enum_group_perm_partial (cl : List VClause) (d : Option String) (ha : Assoc cl d) {xs ys : List Value}
    (h : xs.Perm ys) : group (.enum cl d) xs = group (.enum cl d) ys :=
  group_perm (.enum cl d) ha h

/-- the same for the two other places a group is folded: the dataset-wide value of an aggregate rule does not depend
on the row order of the operand. -/
theorem wide_order_free (rule : Rule) {c c' : List Value} (h : c.Perm c') (v : Value) : wide rule c v = wide rule c' v :=
  wide_perm rule h v

/-- non-vacuity: a constant rule (`else "F"` only) and the rule of the upstream tests are associative on the values
they are used with. -/
example : Assoc [] (some "F") := by intro a b c; rfl

/-- the rule `when "A" and "B" then "C"; when "C" then "A"; else "Z"` -/
def counterRule : Rule := .enum [⟨[some "A", some "B"], some "C"⟩, ⟨[some "C"], some "A"⟩] (some "Z")

/-- **The fold of an enumerated rule depends on the order of the group** when the rule is not associative:
the same three viral values `A, B, C` give `A`, `C` or `Z`.  The engine emits `list_reduce(list(col), …)` with no
`ORDER BY`, so the order is whatever DuckDB produces for the physical row order (replayed on the real engine). -/
theorem enum_group_counter :
    [Value.str "A", .str "B", .str "C"].Perm [.str "A", .str "C", .str "B"] ∧
    [Value.str "A", .str "B", .str "C"].Perm [.str "B", .str "C", .str "A"] ∧
    group counterRule [.str "A", .str "B", .str "C"] = .ok (.str "A") ∧
    group counterRule [.str "A", .str "C", .str "B"] = .ok (.str "C") ∧
    group counterRule [.str "B", .str "C", .str "A"] = .ok (.str "Z") := by
  refine ⟨Perm.cons _ (Perm.swap _ _ _), ?_, by decide, by decide, by decide⟩
  exact (Perm.swap _ _ _).trans (Perm.cons _ (Perm.swap _ _ _))

/-- the counter-example rule is commutative but not associative. -/
theorem counterRule_not_assoc :
    ¬ Assoc [⟨[some "A", some "B"], some "C"⟩, ⟨[some "C"], some "A"⟩] (some "Z") := by
  intro h
  have := h (.str "A") (.str "B") (.str "C")
  revert this
  decide

/-! ## semantic analysis -/

/-- **A viral attribute without a rule is rejected**: if the result of a statement carries a viral attribute that the
registry has no rule for, the analysis fails with 1-3-3-6 naming un-ruled attributes, `v` among them. -/
theorem no_rule_rejected (ruled viral : List String) (v : String) (hv : v ∈ viral) (hr : v ∉ ruled) :
    ∃ ns, analyse ruled viral = .error (.noRule ns) ∧ v ∈ ns ∧ ∀ n ∈ ns, n ∈ viral ∧ n ∉ ruled := by
  unfold analyse
  have hm : v ∈ viral.filter (fun v => !ruled.contains v) := by
    apply List.mem_filter.2
    exact ⟨hv, by simpa using hr⟩
  cases hf : viral.filter (fun v => !ruled.contains v) with
  | nil => rw [hf] at hm; cases hm
  | cons a l =>
    refine ⟨a :: l, rfl, hf ▸ hm, ?_⟩
    intro n hn
    rw [← hf] at hn
    have := List.mem_filter.1 hn
    exact ⟨this.1, by simpa using this.2⟩

/-- … and only then: the analysis accepts exactly the results all of whose viral attributes have a rule. -/
theorem analyse_ok_iff (ruled viral : List String) : analyse ruled viral = .ok () ↔ ∀ v ∈ viral, v ∈ ruled := by
  unfold analyse
  constructor
  · intro h v hv
    cases hf : viral.filter (fun v => !ruled.contains v) with
    | cons a l => rw [hf] at h; cases h
    | nil =>
      by_cases hr : v ∈ ruled
      · exact hr
      · have : v ∈ viral.filter (fun v => !ruled.contains v) := List.mem_filter.2 ⟨hv, by simpa using hr⟩
        rw [hf] at this; cases this
  · intro h
    have : viral.filter (fun v => !ruled.contains v) = [] := by
      apply List.filter_eq_nil_iff.2
      intro v hv
      simpa using h v hv
    rw [this]

/-- a script is rejected at its FIRST statement whose result carries an un-ruled viral attribute. -/
theorem analyseAll_error (ruled : List String) : ∀ (shs : List VShape) (i j : Nat) (e : SemErr),
    analyseAll ruled shs i = .error (j, e) →
      ∃ sh ∈ shs, analyse ruled sh.viral = .error e := by
  intro shs
  induction shs with
  | nil => intro i j e h; cases h
  | cons sh rest ih =>
    intro i j e h
    unfold analyseAll at h
    cases ha : analyse ruled sh.viral with
    | ok u =>
      rw [ha] at h
      obtain ⟨sh', hm, he⟩ := ih (i + 1) j e h
      exact ⟨sh', List.mem_cons_of_mem _ hm, he⟩
    | error e' =>
      rw [ha] at h
      cases h
      exact ⟨sh, List.mem_cons_self, ha⟩

/-! ## clauses, plain assignment and set operators -/

/-- one clause / plain assignment / set operator of the core evaluator, applied to operand expressions. -/
inductive PassOp where
  | assign
  | filter (c : SExpr)
  | calc (items : List (String × SExpr))
  | keep (ns : List String)
  | drop (ns : List String)
  | rename (m : List (String × String))
  | sub (fix : List (String × Value))
  | union | intersect | setdiff | symdiff

def PassOp.expr : PassOp → DExpr → DExpr → DExpr
  | .assign, a, _ => a
  | .filter c, a, _ => .filter a c
  | .calc items, a, _ => .calc a items
  | .keep ns, a, _ => .keep a ns
  | .drop ns, a, _ => .drop a ns
  | .rename m, a, _ => .rename a m
  | .sub fix, a, _ => .sub a fix
  | .union, a, b => .union a b
  | .intersect, a, b => .intersect a b
  | .setdiff, a, b => .setdiff a b
  | .symdiff, a, b => .symdiff a b

/-- the script does not itself redefine, drop or rename the viral attribute `v` (`keep`: the engine keeps the viral
attributes although the script does not name them — the protocol decoder adds them to the list). -/
def PassOp.keeps (v : String) : PassOp → Prop
  | .calc items => v ∉ items.map (·.1)
  | .keep ns => v ∈ ns
  | .drop ns => v ∉ ns
  | .rename m => renameOf m v = v
  | _ => True

/-- the identifiers of the operand under which a result datapoint is found (`sub` removes the fixed ones,
`rename` renames them: the key VALUES stay). -/
def PassOp.srcIds (x : DS) : PassOp → List String
  | .sub fix => x.ids.filter (fun i => !(fix.map (·.1)).contains i)
  | _ => x.ids

/-- **Clauses, plain assignment and set operators leave the viral attribute unchanged**: the result still carries
`v`, and every result datapoint has the viral value of THE operand datapoint it comes from (same identifier values) —
the first operand `x`, or for `union` / `symdiff` possibly the second one `y`; never a combination of two values. -/
theorem clause_passthrough (env : Env) (op : PassOp) (v : String) (a b : DExpr) (x y res : DS)
    (hx : evalD env a = .ok x) (hy : evalD env b = .ok y) (hv : v ∈ x.meas) (hk : op.keeps v)
    (h : evalD env (op.expr a b) = .ok res) :
    v ∈ res.meas ∧ ∀ r' ∈ res.rows, ∃ r ∈ x.rows ++ y.rows, r'.get v = r.get v ∧ r'.key res.ids = r.key (op.srcIds x) := by
  have hvc : v ∈ x.comps := List.mem_append_right _ hv
  have hic : ∀ i ∈ x.ids, i ∈ x.comps := fun i hi => List.mem_append_left _ hi
  cases op with
  | assign =>
    simp only [PassOp.expr] at h
    rw [hx] at h; cases h
    exact ⟨hv, fun r' hr => ⟨r', List.mem_append_left _ hr, rfl, rfl⟩⟩
  | filter c =>
    simp only [PassOp.expr, evalD] at h
    obtain ⟨x', hx', h⟩ := (C10.bind_ok _ _ _).1 h
    rw [hx] at hx'; cases hx'
    obtain ⟨rows, hr, h⟩ := (C10.bind_ok _ _ _).1 h
    simp only [pure, Except.pure, Except.ok.injEq] at h
    subst h
    refine ⟨hv, fun r' hr' => ?_⟩
    obtain ⟨r, hrm, hf⟩ := (mapRows_mem _ _ _ hr r').1 hr'
    have := filterRow_eq c r r' hf
    subst this
    exact ⟨r', List.mem_append_left _ hrm, rfl, rfl⟩
  | «calc» items =>
    simp only [PassOp.expr, evalD] at h
    obtain ⟨x', hx', h⟩ := (C10.bind_ok _ _ _).1 h
    rw [hx] at hx'; cases hx'
    split at h
    · cases h
    · obtain ⟨rows, hr, h⟩ := (C10.bind_ok _ _ _).1 h
      simp only [pure, Except.pure, Except.ok.injEq] at h
      subst h
      have hkk : v ∈ x.meas.filter (fun m => !(items.map (·.1)).contains m) :=
        List.mem_filter.2 ⟨hv, by simpa [PassOp.keeps] using hk⟩
      refine ⟨List.mem_append_left _ hkk, fun r' hr' => ?_⟩
      obtain ⟨r, hrm, hf⟩ := (mapRows_mem _ _ _ hr r').1 hr'
      refine ⟨r, List.mem_append_left _ hrm, ?_, ?_⟩
      · unfold calcRow at hf
        cases hcv : calcVals items r with
        | error e => simp [hcv, Except.map] at hf
        | ok vs =>
          simp only [hcv, Except.map, Except.ok.injEq, Option.some.injEq] at hf
          subst hf
          exact get_proj_append r _ vs v (List.mem_append_right _ hkk)
      · exact calcRow_key x.ids _ items r r' (fun i hi => List.mem_append_left _ hi) hf
  | keep ns =>
    simp only [PassOp.expr, evalD] at h
    obtain ⟨x', hx', h⟩ := (C10.bind_ok _ _ _).1 h
    rw [hx] at hx'; cases hx'
    simp only [pure, Except.pure, Except.ok.injEq] at h
    subst h
    have hkk : v ∈ x.meas.filter ns.contains := List.mem_filter.2 ⟨hv, by simpa [PassOp.keeps] using hk⟩
    refine ⟨hkk, fun r' hr' => ?_⟩
    obtain ⟨r, hrm, rfl⟩ := List.mem_map.1 hr'
    exact ⟨r, List.mem_append_left _ hrm, get_proj r _ v (List.mem_append_right _ hkk),
      key_proj r _ x.ids (fun i hi => List.mem_append_left _ hi)⟩
  | drop ns =>
    simp only [PassOp.expr, evalD] at h
    obtain ⟨x', hx', h⟩ := (C10.bind_ok _ _ _).1 h
    rw [hx] at hx'; cases hx'
    simp only [pure, Except.pure, Except.ok.injEq] at h
    subst h
    have hkk : v ∈ x.meas.filter (fun m => !ns.contains m) := List.mem_filter.2 ⟨hv, by simpa [PassOp.keeps] using hk⟩
    refine ⟨hkk, fun r' hr' => ?_⟩
    obtain ⟨r, hrm, rfl⟩ := List.mem_map.1 hr'
    exact ⟨r, List.mem_append_left _ hrm, get_proj r _ v (List.mem_append_right _ hkk),
      key_proj r _ x.ids (fun i hi => List.mem_append_left _ hi)⟩
  | rename m =>
    simp only [PassOp.expr, evalD] at h
    obtain ⟨x', hx', h⟩ := (C10.bind_ok _ _ _).1 h
    rw [hx] at hx'; cases hx'
    split at h
    · cases h
    · rename_i hn
      simp only [pure, Except.pure, Except.ok.injEq] at h
      subst h
      have hn' : (x.comps.map (renameOf m)).Nodup := by simpa using hn
      have hkv : renameOf m v = v := hk
      refine ⟨List.mem_map.2 ⟨v, hv, hkv⟩, fun r' hr' => ?_⟩
      obtain ⟨r, hrm, rfl⟩ := List.mem_map.1 hr'
      refine ⟨r, List.mem_append_left _ hrm, ?_, rename_key m x r hn'⟩
      have hl := lookup_rename (renameOf m) (fun c => r.get c) x.comps v hn' hvc
      rw [hkv] at hl
      show (List.lookup v _).getD Value.null = _
      rw [hl]; rfl
  | sub fix =>
    simp only [PassOp.expr, evalD] at h
    obtain ⟨x', hx', h⟩ := (C10.bind_ok _ _ _).1 h
    rw [hx] at hx'; cases hx'
    split at h
    · cases h
    · simp only [pure, Except.pure, Except.ok.injEq] at h
      subst h
      refine ⟨hv, fun r' hr' => ?_⟩
      obtain ⟨r, hrm, rfl⟩ := List.mem_map.1 hr'
      exact ⟨r, List.mem_append_left _ (List.mem_filter.1 hrm).1, get_proj r _ v (List.mem_append_right _ hv),
        key_proj r _ _ (fun i hi => List.mem_append_left _ hi)⟩
  | union =>
    simp only [PassOp.expr, evalD] at h
    obtain ⟨x', hx', h⟩ := (C10.bind_ok _ _ _).1 h
    rw [hx] at hx'; cases hx'
    obtain ⟨y', hy', h⟩ := (C10.bind_ok _ _ _).1 h
    rw [hy] at hy'; cases hy'
    split at h
    · cases h
    · simp only [pure, Except.pure, Except.ok.injEq] at h
      subst h
      refine ⟨hv, fun r' hr' => ?_⟩
      rcases List.mem_append.1 hr' with h1 | h1
      · exact ⟨r', List.mem_append_left _ h1, rfl, rfl⟩
      · obtain ⟨r0, hr0, rfl⟩ := List.mem_map.1 h1
        exact ⟨r0, List.mem_append_right _ (List.mem_filter.1 hr0).1, get_proj r0 _ v hvc, key_proj r0 _ x.ids hic⟩
  | intersect =>
    simp only [PassOp.expr, evalD] at h
    obtain ⟨x', hx', h⟩ := (C10.bind_ok _ _ _).1 h
    rw [hx] at hx'; cases hx'
    obtain ⟨y', hy', h⟩ := (C10.bind_ok _ _ _).1 h
    rw [hy] at hy'; cases hy'
    simp only [pure, Except.pure, Except.ok.injEq] at h
    subst h
    exact ⟨hv, fun r' hr' => ⟨r', List.mem_append_left _ (List.mem_filter.1 hr').1, rfl, rfl⟩⟩
  | setdiff =>
    simp only [PassOp.expr, evalD] at h
    obtain ⟨x', hx', h⟩ := (C10.bind_ok _ _ _).1 h
    rw [hx] at hx'; cases hx'
    obtain ⟨y', hy', h⟩ := (C10.bind_ok _ _ _).1 h
    rw [hy] at hy'; cases hy'
    simp only [pure, Except.pure, Except.ok.injEq] at h
    subst h
    exact ⟨hv, fun r' hr' => ⟨r', List.mem_append_left _ (List.mem_filter.1 hr').1, rfl, rfl⟩⟩
  | symdiff =>
    simp only [PassOp.expr, evalD] at h
    obtain ⟨x', hx', h⟩ := (C10.bind_ok _ _ _).1 h
    rw [hx] at hx'; cases hx'
    obtain ⟨y', hy', h⟩ := (C10.bind_ok _ _ _).1 h
    rw [hy] at hy'; cases hy'
    split at h
    · cases h
    · simp only [pure, Except.pure, Except.ok.injEq] at h
      subst h
      refine ⟨hv, fun r' hr' => ?_⟩
      rcases List.mem_append.1 hr' with h1 | h1
      · exact ⟨r', List.mem_append_left _ (List.mem_filter.1 h1).1, rfl, rfl⟩
      · obtain ⟨r0, hr0, rfl⟩ := List.mem_map.1 h1
        exact ⟨r0, List.mem_append_right _ (List.mem_filter.1 hr0).1, get_proj r0 _ v hvc, key_proj r0 _ x.ids hic⟩

/-! ## the rule applied as the propagation model prescribes -/

/-- **Row-preserving dataset-level operators (unary, dataset ∘ scalar)**: every result datapoint comes from the
operand datapoint with the same identifiers; an enumerated rule maps that datapoint's own viral value, an aggregate
rule gives every datapoint the aggregate of the operand's WHOLE viral column. -/
theorem rowwise_viral (s : VSpec) (body : SExpr) (out : Option String) (x res : DS)
    (h : vMapm s body out x = .ok res) (hn : s.names.Nodup) (p : String × Rule) (hp : p ∈ viralOf s x)
    (hid : p.1 ∉ x.ids) (hout : p.1 ∉ (plainMeas s x).map (outName (plainMeas s x) out)) :
    ∀ r' ∈ res.rows, ∃ r ∈ x.rows, r'.key x.ids = r.key x.ids ∧
      wide p.2 (column x p.1) (r.get p.1) = .ok (r'.get p.1) :=
  VtlModel.Sem.vMapm_viral s body out x res h hn p hp hid hout

theorem wide_enum (cl : List VClause) (d : Option String) (col : List Value) (v : Value) (hv : textual v = true) :
    wide (.enum cl d) col v = .ok (enumSingle cl d v) := by simp [wide, hv]

theorem wide_agg (f : AggFn) (col : List Value) (v : Value) : wide (.agg f) col v = group (.agg f) col := rfl

/-- **Dataset ∘ dataset operators**: every result datapoint pairs a datapoint of the left operand with the datapoint
of the right operand that agrees on the common identifiers; where both operands carry the attribute its value is the
rule applied to the two values (`pair`), else the one value there is. -/
theorem binary_viral (s : VSpec) (body : SExpr) (out : Option String) (x y res : DS)
    (h : vZip s body out x y = .ok res) (hn : s.names.Nodup) (p : String × Rule) (hp : p ∈ eitherViral s x y)
    (hid : p.1 ∉ res.ids)
    (hout : p.1 ∉ ((plainMeas s x).filter (plainMeas s y).contains).map
                     (outName ((plainMeas s x).filter (plainMeas s y).contains) out)) :
    ∀ r' ∈ res.rows, ∃ l ∈ x.rows, ∃ r ∈ y.rows,
      (l.key y.ids = r.key y.ids ∨ l.key x.ids = r.key x.ids) ∧ pairVal x y l r p = .ok (r'.get p.1) :=
  VtlModel.Sem.vZip_viral s body out x y res h hn p hp hid hout

theorem pairVal_both (x y : DS) (l r : Row) (p : String × Rule) (hx : p.1 ∈ x.meas) (hy : p.1 ∈ y.meas) :
    pairVal x y l r p = pair p.2 (l.get p.1) (r.get p.1) := by
  simp [pairVal, hx, hy]

/-- **Aggregations**: the viral value of every group is the rule applied to the viral values of exactly the
datapoints of the group (`group`: native aggregate / left fold in list order). -/
theorem aggregation_viral (s : VSpec) (spec : AggSpec) (x res : DS) (h : vAggr s spec x = .ok res) (hn : s.names.Nodup)
    (p : String × Rule) (hp : p ∈ viralOf s x)
    (hout : ∀ base, aggr spec { x with meas := plainMeas s x } = .ok base → p.1 ∉ base.comps) :
    ∀ r' ∈ res.rows,
      group p.2 ((members res.ids x.rows (r'.key res.ids)).map (·.get p.1)) = .ok (r'.get p.1) :=
  VtlModel.Sem.vAggr_viral s spec x res h hn p hp hout

/-- **Analytic invocations** (`op(DS over (partition by …))`): every datapoint is kept and its viral value is the rule
applied to the viral values of exactly the datapoints of its partition. -/
theorem analytic_viral (s : VSpec) (ps : List String) (x res : DS) (h : vPartition s ps x = .ok res) (hn : s.names.Nodup)
    (p : String × Rule) (hp : p ∈ viralOf s x) (hid : p.1 ∉ x.ids) :
    ∀ r' ∈ res.rows, ∃ r ∈ x.rows, r'.key x.ids = r.key x.ids ∧
      group p.2 ((members ps x.rows (r.key ps)).map (·.get p.1)) = .ok (r'.get p.1) :=
  VtlModel.Sem.vPartition_viral s ps x res h hn p hp hid

/-- the partition operator inside expressions: keys stay unique; order independence for order-free rules (PARTIAL,
as for aggregations). -/
theorem vPartition_Ext_partial (s : VSpec) (ps : List String) (d : DExpr) (hw : C10.ExtWF d) (hp : C33.ExtPerm d) :
    C10.ExtWF (.app1 (vPartition s ps) d) ∧
    ((∀ p ∈ s, OrderFree p.2) → C33.ExtPerm (.app1 (vPartition s ps) d)) :=
  ⟨⟨hw, fun x r w h => vPartition_WF s ps x r w h⟩, fun hs => ⟨hp, fun x y w h => vPartition_perm s hs ps x y w h⟩⟩

/-- non-vacuity of the operator theorems: a dataset with a viral attribute under `aggregate max`, multiplied by a
constant, then aggregated. -/
def exSpec : VSpec := [("VAt_1", .agg .max)]
def exDS : DS := DS.mk ["Id_1"] ["Me_1", "VAt_1"]
  [[("Id_1", .int 1), ("Me_1", .int 10), ("VAt_1", .int 100)], [("Id_1", .int 2), ("Me_1", .int 20), ("VAt_1", .int 200)]]
example : (vMapm exSpec (.bin .mul .hole (.const (.int 2))) none exDS).map (fun d => d.rows.map (·.get "VAt_1")) =
    .ok [.int 200, .int 200] := by decide
example : (vAggr exSpec ⟨.none, .each .sum, none⟩ exDS).map (fun d => d.rows.map (·.get "VAt_1")) = .ok [.int 200] := by decide

/-! ## the operators inside dataset expressions -/

/-- `C10.evalD_WF` (identifier keys stay unique) extends to expressions that contain the viral-aware operators. -/
theorem viral_ExtWF (s : VSpec) (body : SExpr) (out : Option String) (spec : AggSpec) (d e : DExpr)
    (hd : C10.ExtWF d) (he : C10.ExtWF e) :
    C10.ExtWF (.app1 (vMapm s body out) d) ∧ C10.ExtWF (.app2 (vZip s body out) d e) ∧ C10.ExtWF (.app1 (vAggr s spec) d) :=
  ⟨⟨hd, fun x r w h => vMapm_WF s body out x r w h⟩,
   ⟨hd, he, fun x y r wx wy h => vZip_WF s body out x y r wx wy h⟩,
   ⟨hd, fun x r w h => vAggr_WF s spec x r w h⟩⟩

/-- `C33.evalD_perm` (the result depends only on the SET of input datapoints) extends to expressions that contain
row-preserving and dataset ∘ dataset operators over datasets with viral attributes — for EVERY rule. -/
theorem viral_ExtPerm (s : VSpec) (body : SExpr) (out : Option String) (d e : DExpr)
    (hd : C33.ExtPerm d) (he : C33.ExtPerm e) :
    C33.ExtPerm (.app1 (vMapm s body out) d) ∧ C33.ExtPerm (.app2 (vZip s body out) d e) :=
  ⟨⟨hd, fun x y w h => vMapm_perm s body out x y w h⟩,
   ⟨hd, he, fun x y x' y' wx wy hx hy => vZip_perm s body out x y x' y' wx wy hx hy⟩⟩

/-- … and to aggregations when every rule is order-free (aggregate, or enumerated with an associative CASE).
PARTIAL: for other enumerated rules the statement is false (`enum_group_counter`). -/
theorem vAggr_ExtPerm_partial (s : VSpec) (hs : ∀ p ∈ s, OrderFree p.2) (spec : AggSpec) (d : DExpr) (hd : C33.ExtPerm d) :
    C33.ExtPerm (.app1 (vAggr s spec) d) :=
  ⟨hd, fun x y w h => vAggr_perm s hs spec x y w h⟩


end VtlModel.C28

import VtlModel.Session.LemmasBracket
import VtlModel.Gen.Bracket
/-!
C16 — `run()` releases its session resources at every failure point, and a later run behaves as if the
failed run never happened.

`Gen.Bracket.pre / main` are regenerated from the source of `configured_connection` on every run, so every
theorem below that mentions them is re-proved against what the code says now.  Theorems over
`snapshotPre / snapshotMain / setDecSnapshot` are about the tree at ebd8c71 (counter-examples, replayed on
the real code by the check).
-/
namespace VtlModel.C16
open VtlModel.Session VtlModel.Gen.Bracket

/-- Index of the first fault point that lies inside the `try` (number of hook events before it). -/
def tryStart : Nat := evCount pre

/-- The decidable table: evaluated by the kernel on the generated program, for both database modes. -/
theorem clean_table : ∀ inMem : Bool, cleanFrom inMem pre main = true := by decide

/-- Core statement: if the prologue of the bracket completes, then for EVERY script (any length), every
environment, every fault index, every behaviour of `set_decimal_config` and every starting world, the run
leaves no session directory, no open connection and no database file, and never removes the directory
while a connection is open. -/
theorem clean_after_prologue (sd : SetDec) (r : RunSpec) (w : World)
    (hpre : (runBracket sd pre r w).2 = false) :
    leftovers (runBracket sd prog r w).1.res = [] ∧ (runBracket sd prog r w).1.res.hazard = false := by
  let c : Ctx := { sd := sd, env := r.env, fmt := r.fmt, script := r.script, fault := r.fault }
  have h1 := exec_sound c pre (startSt w)
  have h2 := exec_sound c main (exec c pre (startSt w)).1
  have hpre' : (exec c pre (startSt w)).2 = false := hpre
  have ht := clean_table r.env.inMemory
  simp only [cleanFrom, List.all_eq_true] at ht
  have ht1 := ht _ h1
  simp only [hpre', Bool.false_or, List.all_eq_true] at ht1
  have ht2 := ht1 _ h2
  simp only [Bool.and_eq_true, beq_iff_eq, Bool.not_eq_true'] at ht2
  have e : runBracket sd prog r w = exec c main (exec c pre (startSt w)).1 := by
    show exec c (.seq pre main) (startSt w) = _
    simp only [exec, hpre']
    rfl
  rw [e]
  exact ht2

/-- The prologue completes whenever the fault index is not before the `try` and `set_decimal_config`
accepts the environment. -/
theorem prologue_completes (sd : SetDec) (r : RunSpec) (w : World) (k : Nat)
    (hf : r.fault = some k) (hk : tryStart ≤ k) (hsd : (sd w.dec r.env).2 = false) :
    (runBracket sd pre r w).2 = false := by
  let c : Ctx := { sd := sd, env := r.env, fmt := r.fmt, script := r.script, fault := r.fault }
  have hb : hasBody pre = false := by decide
  have h0 : (startSt w).idx + evCount pre ≤ k := by
    have : (startSt w).idx = 0 := rfl
    unfold tryStart at hk
    omega
  have e := exec_fault_ge c k hf pre (startSt w) hb h0
  show (exec c pre (startSt w)).2 = false
  rw [e]
  simp [pre, seqs, exec, applyOp, connUsable, startSt, Ctx.noFault, c, hsd]

/-- C16, resource part: a fault injected at any fault point from the start of the `try` on — before any
load, statement, drop, fetch, write, at `closed` or at `rmtree`, for scripts of any length — leaves
nothing behind.  (`k ≥ tryStart`; the full statement `∀ k` is false on the tree at ebd8c71, see
`pre_try_fault_counter`.) -/
theorem clean_after_fault (sd : SetDec) (r : RunSpec) (w : World) (k : Nat)
    (hf : r.fault = some k) (hk : tryStart ≤ k) (hsd : (sd w.dec r.env).2 = false) :
    leftovers (runBracket sd prog r w).1.res = [] ∧ (runBracket sd prog r w).1.res.hazard = false :=
  clean_after_prologue sd r w (prologue_completes sd r w k hf hk hsd)

/-- Without a fault and with an accepted environment the run succeeds and is clean (non-vacuity). -/
theorem clean_without_fault (sd : SetDec) (r : RunSpec) (w : World)
    (hf : r.fault = none) (hsd : (sd w.dec r.env).2 = false) :
    (runBracket sd prog r w).2 = false ∧ leftovers (runBracket sd prog r w).1.res = [] := by
  have hp : (runBracket sd pre r w).2 = false := by
    simp [runBracket, pre, seqs, exec, applyOp, connUsable, startSt, hf, hsd]
  refine ⟨?_, (clean_after_prologue sd r w hp).1⟩
  simp [runBracket, prog, pre, main, seqs, exec, applyOp, connUsable, startSt, hf, hsd, execBody,
    execOps_noFault, execOps_res]

/-- C16, history part: after ANY history of runs (any number, failing anywhere or not), a run is observed
exactly as when it is executed alone — provided the decimal globals are re-initialised by this run
(`set_decimal_config` ignores their old value under this run's environment) or were left untouched by the
history.  Holds for every bracket program, in particular for `prog`. -/
theorem next_run_unaffected (sd : SetDec) (p : Prog) (r : RunSpec) (h : List RunSpec) (w : World)
    (hg : (∀ d d', sd d r.env = sd d' r.env) ∨ (∀ x ∈ h, (sd w.dec x.env).1 = w.dec)) :
    (runCall sd p r (runCalls sd p h w)).2 = (runCall sd p r w).2 := by
  let c : Ctx := { sd := sd, env := r.env, fmt := r.fmt, script := r.script, fault := r.fault }
  have hd : DecOk c (startSt (runCalls sd p h w)) (startSt w) := by
    cases hg with
    | inl hg => exact Or.inr hg
    | inr hg =>
      left
      show (runCalls sd p h w).dec = w.dec
      induction h generalizing w with
      | nil => rfl
      | cons x rest ih =>
        have hx : (runCall sd p x w).1.dec = w.dec := by
          simp only [runCall, runBracket]
          exact exec_dec_stable _ w.dec (hg x (by simp)) p (startSt w) rfl
        simp only [runCalls]
        rw [ih (runCall sd p x w).1 (by intro y hy; rw [hx]; exact hg y (by simp [hy])), hx]
  have hs : Same (startSt (runCalls sd p h w)) (startSt w) := ⟨rfl, rfl, rfl, rfl, rfl⟩
  have := exec_same c p _ _ hs hd
  obtain ⟨⟨h1, _, _, h4, h5⟩, hf, _⟩ := this
  simp only [runCall, runBracket, obsOf]
  show Obs.mk _ _ _ _ _ = Obs.mk _ _ _ _ _
  congr 1
  · rw [h1]
  · rw [h1]

/-- With both decimal variables given as integers, `set_decimal_config` (ebd8c71) ignores the old globals. -/
theorem snapshot_reinit_when_pinned (env : Env) (a b : Int) (hw : env.width = .int a) (hs : env.scale = .int b) :
    ∀ d d', setDecSnapshot d env = setDecSnapshot d' env := by
  intro d d'
  simp [setDecSnapshot, hw, hs]

/-! ### counter-examples on the tree at ebd8c71 (each is replayed on the real code by the check) -/

def demoScript : List BodyOp := [.load 1, .stmt 1, .fetch 1, .results]

/-- A fault at any of the four fault points before the `try` (`session_dir`, `connect`, `configure`,
`connected`) leaves the session directory behind; from `configure` on also an unclosed connection, and in
file-backed mode the database file. -/
theorem pre_try_fault_counter :
    (∀ k < 4, Leak.dir ∈ leftovers (runBracket setDecSnapshot (.seq snapshotPre snapshotMain)
        { script := demoScript, fault := some k } {}).1.res) ∧
    leftovers (runBracket setDecSnapshot (.seq snapshotPre snapshotMain)
        { script := demoScript, fault := some 2, env := { inMemory := false } } {}).1.res = [.dir, .conn, .file] := by
  decide

/-- A rejected OUTPUT_NUMBER_SIGNIFICANT_DIGITS (=3): the run raises, leaves directory and connection
behind, and the NEXT run — with the variable unset again — fails too, while alone it succeeds. -/
theorem config_fault_counter :
    let p := Prog.seq snapshotPre snapshotMain
    let bad : RunSpec := { script := demoScript, env := { scale := .int 3 } }
    let good : RunSpec := { script := demoScript }
    (runCall setDecSnapshot p bad {}).2.raised = true ∧
    (runCall setDecSnapshot p bad {}).2.left = [.dir, .conn] ∧
    (runCall setDecSnapshot p good {}).2.raised = false ∧
    (runCall setDecSnapshot p good (runCalls setDecSnapshot p [bad] {})).2.raised = true := by
  decide

/-- A valid but non-default setting used by a run that fails later (fault at a statement) survives into
the next run that has the variable unset: it computes with DECIMAL(28,8) instead of DECIMAL(28,10). -/
theorem sticky_config_counter :
    let p := Prog.seq snapshotPre snapshotMain
    let failing : RunSpec := { script := demoScript, env := { scale := .int 8 }, fault := some 5 }
    let good : RunSpec := { script := demoScript }
    (runCall setDecSnapshot p failing {}).2.raised = true ∧
    (runCall setDecSnapshot p failing {}).2.left = [] ∧
    (runCall setDecSnapshot p good {}).2.seen ≠
      (runCall setDecSnapshot p good (runCalls setDecSnapshot p [failing] {})).2.seen := by
  decide

/-- Non-vacuity of `next_run_unaffected`: its hypothesis holds for the default environment after a history
of runs that fail at injected faults (the decimal globals are left untouched). -/
example : ∀ x ∈ [({ script := demoScript, fault := some 5 } : RunSpec), { script := demoScript, fault := some 0 }],
    (setDecSnapshot ({} : World).dec x.env).1 = ({} : World).dec := by decide

end VtlModel.C16

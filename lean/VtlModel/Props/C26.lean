import VtlModel.Errors.Lemmas
import VtlModel.Gen.Catalogue
import VtlModel.Gen.RaiseSites
/-
  C26 — every VTL error raised carries a catalogued code and its arguments fill every placeholder, so
  constructing the error never fails.

  `Gen/Catalogue.lean` and `Gen/RaiseSites.lean` are regenerated from the repository's source on every run.
  `claimedBad` is a certificate written by the translator; `bad_sites_exact` makes the kernel recompute it.
  The check replays every claimed bad site on the real constructors (KNOWN-FINDING / VIOLATION).
-/
namespace VtlModel.C26
open VtlModel.Errors VtlModel.Gen.Catalogue VtlModel.Gen.RaiseSites

/-- The property of one raise site. -/
abbrev Ok (s : Site) : Prop := SiteOk catalogue s

/-- Full-strength statement: every raise site is ok. -/
def SitesOk : Prop := ∀ s ∈ raiseSites, Ok s

/-! ### the model of message rendering: constructing never fails when the names are supplied -/

/-- `str.format(**kwargs)` over a template succeeds for all argument *values* as soon as every placeholder
    *name* has a key. -/
theorem render_never_fails (txt : Nat → String) (t : List Piece) (a : Args)
    (h : ∀ n ∈ placeholders t, ∃ v, lookupArg a n = some v) : ∃ s, render txt t a = .ok s :=
  render_total txt t a h

/-- … and fails with the `KeyError` of a missing name otherwise (so the hypothesis above is necessary). -/
theorem render_fails_without_name (txt : Nat → String) (t : List Piece) (a : Args)
    (h : ∃ n ∈ placeholders t, lookupArg a n = none) :
    ∃ k, render txt t a = .error (.missingKey k) ∧ k ∈ placeholders t ∧ lookupArg a k = none :=
  render_missing txt t a h

/-! ### the raise sites of this source tree -/

/-- The kernel recomputes the list of sites that violate the property; it is the translator's certificate. -/
theorem bad_sites_exact : badIdx catalogue raiseSites = claimedBad := by decide +kernel

/-- Every site outside the certified list satisfies the property (literal and dynamic codes alike). -/
theorem sites_ok_partial (k : Nat) (s : Site) (hk : raiseSites[k]? = some s) (hb : k ∉ claimedBad) : Ok s := by
  rw [← bad_sites_exact] at hb
  apply (siteOkB_iff catalogue s).1
  cases h : siteOkB catalogue s with
  | true => rfl
  | false => exact absurd ((mem_badIdx catalogue raiseSites k).2 ⟨s, hk, h⟩) hb

/-- The full statement holds exactly when the certified list is empty. -/
theorem sites_ok_iff : SitesOk ↔ claimedBad = [] := by
  rw [← bad_sites_exact]
  constructor
  · intro h
    cases hb : badIdx catalogue raiseSites with
    | nil => rfl
    | cons j t =>
      have : j ∈ badIdx catalogue raiseSites := by simp [hb]
      obtain ⟨s, hs, hf⟩ := (mem_badIdx catalogue raiseSites j).1 this
      have hmem : s ∈ raiseSites := List.mem_of_getElem? hs
      have := (siteOkB_iff catalogue s).2 (h s hmem)
      rw [hf] at this; cases this
  · intro h s hs
    obtain ⟨k, hk⟩ := List.getElem?_of_mem hs
    exact sites_ok_partial k s hk (by rw [← bad_sites_exact, h]; simp)

/-- Counter-example form: any certified bad site refutes the full statement. -/
theorem sites_ok_counter (h : claimedBad ≠ []) : ¬ SitesOk := fun hs => h (sites_ok_iff.1 hs)

/-- Sites whose code is an f-string / variable: every value of the code's finite value set is catalogued and
    filled (full strength: holds on this tree). -/
theorem dynamic_sites_ok : ∀ s ∈ raiseSites, s.literal = false → Ok s := by
  have h : (raiseSites.filter (fun s => !s.literal)).all (siteOkB catalogue) = true := by decide +kernel
  intro s hs hl
  apply (siteOkB_iff catalogue s).1
  exact (List.all_eq_true.1 h) s (List.mem_filter.2 ⟨hs, by simp [hl]⟩)

/-- Constructing the exception at an ok site succeeds for every argument value. -/
theorem construct_never_fails (k : Nat) (s : Site) (hk : raiseSites[k]? = some s) (hb : k ∉ claimedBad)
    (hstar : s.star = false) (c : Nat) (hc : c ∈ s.codes) (txt : Nat → String) (vals : List String)
    (hl : vals.length = s.kwargs.length) :
    ∃ msg, construct txt catalogue c (zipArgs s.kwargs vals) = .ok msg := by
  obtain ⟨_, h⟩ := sites_ok_partial k s hk hb
  obtain ⟨_, m, hm, hsup⟩ := h c hc
  have : ∀ n ∈ placeholders m.tmpl, n ∈ s.kwargs := by
    cases hsup with
    | inl h => rw [hstar] at h; cases h
    | inr h => exact h
  exact construct_ok txt catalogue c m s.kwargs vals hm ((suppliesB_iff _ _).2 this) hl

/-- At a site whose code reaches the catalogue lookup but is uncatalogued or leaves a placeholder unfilled,
    constructing the exception fails (KeyError) for every argument value: this is what the check replays. -/
theorem construct_fails_at_bad (s : Site) (c : Nat)
    (hbad : (match findMsg catalogue c with | none => false | some m => suppliesB s.kwargs m.tmpl) = false)
    (txt : Nat → String) (vals : List String) :
    ∃ e, construct txt catalogue c (zipArgs s.kwargs vals) = .error e :=
  construct_fails txt catalogue c s.kwargs vals hbad

/-! ### non-vacuity -/

example : raiseSites.length > 300 ∧ catalogue.length > 200 := by decide +kernel
example : ∃ s ∈ raiseSites, s.literal = false := by decide +kernel
-- the model's renderer really distinguishes the two cases
example : render (fun _ => "x") [.lit 0, .ph 7] [(7, "v")] = .ok "xv" := rfl
example : render (fun _ => "x") [.lit 0, .ph 7] [(8, "v")] = .error (.missingKey 7) := rfl

end VtlModel.C26

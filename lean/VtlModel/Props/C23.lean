import VtlModel.Text.ParserState
import VtlModel.Text.SrcLineLemmas
import VtlModel.Gen.ParserState
/-!
C23 — parser robustness (PARTIAL).

(a) `do_parse` (bindings.cpp), as transcribed into `Gen.doParseSteps` on every run, is a function of
    the text alone: what it leaves in every member of `g_state` and what it returns do not depend on
    what earlier parses left behind — for EVERY behaviour of the ANTLR objects (`Oracles`).  The error
    that `get_syntax_error()` reports is the FIRST error event of this parse, built from this text.
(b) `extract_source_line_expanded` + the listener's column arithmetic + `create_ast`'s `column + 1` +
    `VTLSyntaxError`'s caret (Text/SrcLine.lean, tied to the C++ by compiling the function): for a
    text as `create_ast` parses it (ends in "\n") and an error located, as ANTLR locates it, at a
    character offset of the text that is not a newline or at the end of the text, the reported line
    is a line of the text, the reported column is between 1 and (length of the echoed line) + 1, the
    caret starts inside or just past the echoed line, and no caret is printed when the echoed line is
    empty.  Units are BYTES (what the C++ counts).  Two proved counter-examples delimit this:
    with CR on a line whose end is the end of the text (only reachable by calling `parse` without
    the trailing newline `create_ast` adds), and with multi-byte characters when the column is
    counted in code points (as ANTLR's C++ runtime does) the caret can leave the echoed line.

NOT covered (residual): memory safety, termination and error recovery of the C++ ANTLR runtime and
of the generated Vtl.cpp / VtlTokens.cpp — the extension cannot be built or run in the sandbox.
-/
namespace VtlModel.C23
open VtlModel.Text.ParserState
open VtlModel.Text.SrcLine
open VtlModel.Gen.ParserState

/-! ### (a) module state -/

/-- `do_parse(text)` on the state left by earlier parses -/
def doParse {V : Type} (o : Oracles V) (prev : State V) (text : String) : State V :=
  exec o listener text doParseSteps prev

/-- everything Python can get at: every member of `g_state` and the returned root node -/
def observed {V : Type} (s : State V) : List V := observable (stateFields ++ [retSlot]) s

/-- **the result of a parse does not depend on earlier parses**: every member of `g_state` and the
    returned node are the same whatever state `s₁` / `s₂` the earlier parses left, for every text and
    every behaviour of the runtime objects -/
theorem doParse_history_free {V : Type} (o : Oracles V) (s₁ s₂ : State V) (t : String) :
    observed (doParse o s₁ t) = observed (doParse o s₂ t) :=
  (exec_history_free o listener doParseSteps (stateFields ++ [retSlot]) (by decide) t s₁ s₂).1

/-- the runtime is also asked the same questions: the delivered error events do not depend on the
    earlier parses either -/
theorem doParse_events_history_free {V : Type} (o : Oracles V) (s₁ s₂ : State V) (t : String) :
    (run o listener t doParseSteps s₁).2 = (run o listener t doParseSteps s₂).2 :=
  (exec_history_free o listener doParseSteps (stateFields ++ [retSlot]) (by decide) t s₁ s₂).2

/-- **the first error of THIS parse is the one reported**: after `do_parse`, `g_state.syntax_error`
    is empty when the runtime delivered no error event during this parse, and otherwise holds the
    error built from the FIRST event and from this text (never an error of an earlier parse, never a
    later event of error recovery) -/
theorem first_error_kept {V : Type} (o : Oracles V) (law : Lawful o) (s : State V) (t : String) :
    doParse o s t listener.errSlot = firstErr o listener t (run o listener t doParseSteps s).2 :=
  exec_first_error o law listener (by decide) (by decide) doParseSteps (by decide) t s

/-- the slots the three getters read are members that `doParse_history_free` covers, and the error
    getter reads the slot the listener writes -/
theorem getters_covered :
    (∀ f, f ∈ getterReads → f ∈ stateFields) ∧ listener.errSlot ∈ getterReads := by decide

/-- before the parse starts, the default (printing) listeners are removed from lexer and parser and
    the collecting listener is attached to both (in this order, before `parser->start()`) — otherwise a
    syntax error would go unreported and the recovered tree would be returned as if the text were valid -/
theorem listener_installed :
    listenerAttached = ["lexer", "parser"] ∧
    (∀ obj, obj ∈ ["lexer", "parser"] →
      isSubseq [Step.call obj "removeErrorListeners" none, Step.call obj "addErrorListener" none,
                Step.call "parser" "start" (some "%tree")] doParseSteps = true) := by
  decide

/-- bindings.cpp has no mutable file-scope variable besides the three the model accounts for
    (`g_state`; `g_type_map`, filled once behind an emptiness guard; the stateless listener object) -/
theorem statics_accounted :
    (∀ x, x ∈ fileStatics → x ∈ ["g_type_map", "g_state", "g_collecting_listener"]) ∧ typeMapInitGuarded = true := by
  decide

/-- non-vacuity (kernel-checked, `tiny` interpretation): an invalid text records an error built from
    that text; the valid text parsed next gets exactly what a first parse gives -/
theorem demo_second_parse_is_fresh :
    parseSeq tiny listener doParseSteps ["syntax_error", "comments"] tinyInit ["bad", "ok"] =
      [[[9, 7], [1, 5]], [[], [1, 5]]] := by decide

/-- the check is discriminating: without `g_state.syntax_error.reset()` / `g_state.comments.clear()`
    the step list fails `historyFree`, and the `tiny` interpretation shows the stale error /
    the accumulated comments on the second parse -/
theorem history_check_discriminates :
    historyFree listener (doParseSteps.filter (· != Step.reset "syntax_error")) (stateFields ++ [retSlot]) = false ∧
    parseSeq tiny listener (doParseSteps.filter (· != Step.reset "syntax_error")) ["syntax_error"] (fun _ => []) ["bad", "ok"] =
      [[[9, 7]], [[9, 7]]] ∧
    historyFree listener (doParseSteps.filter (· != Step.clear "comments")) (stateFields ++ [retSlot]) = false ∧
    parseSeq tiny listener (doParseSteps.filter (· != Step.clear "comments")) ["comments"] tinyInit ["ok", "ok"] =
      [[[3, 5]], [[3, 5, 5]]] := by decide

/-- … and without the first-error guard the LAST event would win -/
theorem unguarded_last_error_wins :
    (listen tiny { listener with guarded := false } (listen tiny { listener with guarded := false }
        (set tinyInit "syntax_error" []) { line := 1, cpos := 0, msg := "first" }) { line := 1, cpos := 5, msg := "second" }) "syntax_error"
      = tiny.mkErr { line := 1, cpos := 5, msg := "second" } [[3]] := by decide

/-! ### (b) where the error is reported -/

/-- what `create_ast` reports for an error that ANTLR locates at line `line`, 0-based column `cpos` -/
def reported (src : List Char) (line : Int) (cpos : Nat) : ErrInfo :=
  report tabWidth listenerColIn listenerColOut columnOffset src line cpos

/-- the first line of the message, without echo and caret -/
def header (line column : Int) (detail : List Char) : List Char :=
  "VTL syntax error at line ".toList ++ showInt line ++ ", column ".toList ++ showInt column ++ ": ".toList ++ detail

theorem reported_eq (src : List Char) (line : Int) (cpos : Nat) :
    reported src line cpos =
      { line := line, column := (extract tabWidth src line ((cpos : Int) + 1)).2,
        sourceLine := (extract tabWidth src line ((cpos : Int) + 1)).1 } := by
  simp only [reported, report, listenerInfo, listenerColIn, listenerColOut, columnOffset]
  congr 1
  omega

/-- **General bound** (any text): the error is located at offset `k` of the text — a character that
    is not a newline, or the end of the text — and ANTLR reports `posOf src k` (line − 1, column).
    If, in the end-of-text case, the last line has no CR, then the reported line is a line of the
    text, the echoed line is that line with tabs expanded and CR dropped, and the reported column
    lies between 1 and (echoed length) + 1. -/
theorem location_bounds (src : List Char) (k : Nat) (hk : k ≤ src.length)
    (hpos : ∀ c, src[k]? = some c → c ≠ '\n')
    (hcr : k = src.length → ∀ rest, skipLines src (posOf src k).1 = some rest → '\r' ∉ lineOf rest) :
    let r := reported src ((posOf src k).1 + 1 : Nat) (posOf src k).2
    1 ≤ r.line ∧ r.line ≤ numLines src ∧
    (∃ rest, skipLines src (posOf src k).1 = some rest ∧ r.sourceLine = expand tabWidth (lineOf rest)) ∧
    1 ≤ r.column ∧ r.column ≤ (r.sourceLine.length : Int) + 1 := by
  intro r
  obtain ⟨rest, hs, hlen, hline⟩ := posOf_line_length src k hk
  have hle := skipLines_some_le src _ rest hs
  have hl1 : (1 : Int) ≤ (((posOf src k).1 + 1 : Nat) : Int) := by omega
  have hs' : skipLines src ((((posOf src k).1 + 1 : Nat) : Int) - 1).toNat = some rest := by
    have : ((((posOf src k).1 + 1 : Nat) : Int) - 1).toNat = (posOf src k).1 := by omega
    rw [this]; exact hs
  obtain ⟨e1, e2, e3, _⟩ := extract_spec tabWidth src rest (((posOf src k).1 + 1 : Nat) : Int) (((posOf src k).2 : Int) + 1) hl1 hs'
  have hr : r = { line := (((posOf src k).1 + 1 : Nat) : Int),
                  column := (extract tabWidth src (((posOf src k).1 + 1 : Nat) : Int) (((posOf src k).2 : Int) + 1)).2,
                  sourceLine := (extract tabWidth src (((posOf src k).1 + 1 : Nat) : Int) (((posOf src k).2 : Int) + 1)).1 } :=
    reported_eq _ _ _
  rw [hr]
  simp only
  refine ⟨hl1, ?_, ⟨rest, hs, e1⟩, ?_⟩
  · unfold numLines; omega
  · rw [e1]
    -- either a character of the line (column < length) or the end of the text (column = length)
    by_cases hend : k = src.length
    · have hdrop : src.drop k = [] := by rw [hend]; exact List.drop_length ..
      simp only [hdrop, lineOf_nil, List.length_nil, Nat.add_zero] at hlen
      have hcol : (((posOf src k).2 : Int) + 1) = ((lineOf rest).length : Int) + 1 := by omega
      rw [e3 hcol]
      have hge := expand_length_ge tabWidth (by decide) (lineOf rest) (hcr hend rest hs)
      constructor <;> omega
    · have hlt : k < src.length := by omega
      have hc := hpos (src[k]) (by simp [hlt])
      have hd : src.drop k = src[k] :: src.drop (k + 1) := by
        rw [List.drop_eq_getElem_cons hlt]
      rw [hd, lineOf_cons_ne _ _ hc, List.length_cons] at hlen
      have hin : (1 : Int) ≤ ((posOf src k).2 : Int) + 1 ∧ ((posOf src k).2 : Int) + 1 ≤ ((lineOf rest).length : Int) := by
        omega
      exact e2 hin

/-- **`create_ast`'s case**: the parsed text ends in the newline `create_ast` appends
    (`Gen.appendsNewline`).  For every error position ANTLR can report (a non-newline character of
    the text, or the end of the text): the reported line is a line of the text, the reported column
    is between 1 and (echoed line length) + 1, the caret padding is no longer than the echoed line,
    and when the echoed line is empty the message is the header alone (no caret). -/
theorem location_in_input (t : List Char) (k : Nat) (hk : k ≤ (t ++ ['\n']).length)
    (hpos : ∀ c, (t ++ ['\n'])[k]? = some c → c ≠ '\n') :
    let src := t ++ ['\n']
    let r := reported src ((posOf src k).1 + 1 : Nat) (posOf src k).2
    appendsNewline = true ∧
    1 ≤ r.line ∧ r.line ≤ numLines src ∧
    (∃ rest, skipLines src (posOf src k).1 = some rest ∧ r.sourceLine = expand tabWidth (lineOf rest)) ∧
    1 ≤ r.column ∧ r.column ≤ (r.sourceLine.length : Int) + 1 ∧
    (caretPad r.column).length ≤ r.sourceLine.length ∧
    (r.sourceLine = [] → ∀ d ul, message r.line r.column d r.sourceLine ul = header r.line r.column d) := by
  intro src r
  have hcr : k = src.length → ∀ rest, skipLines src (posOf src k).1 = some rest → '\r' ∉ lineOf rest := by
    intro hend rest hs
    -- at the end of a text that ends in "\n" the current line is empty
    obtain ⟨rest', hs', _, hdrop, hnonl⟩ := posOf_spec src k hk
    rw [hs] at hs'
    have hrr : rest' = rest := by simpa using hs'.symm
    subst hrr
    have hd : src.drop k = [] := by rw [hend]; exact List.drop_length ..
    rw [hd] at hdrop
    have htake : rest'.take (posOf src k).2 = rest' := by
      have := List.take_append_drop (posOf src k).2 rest'
      rw [hdrop, List.append_nil] at this
      exact this
    have hnn : ∀ c, c ∈ rest' → c ≠ '\n' := by
      intro c hc; rw [← htake] at hc; exact hnonl c hc
    obtain ⟨pre, hp⟩ := skipLines_suffix src _ rest' hs
    have hempty : rest' = [] := by
      cases hre : rest'.reverse with
      | nil => simpa using hre
      | cons x xs =>
        have hlast : rest' = xs.reverse ++ [x] := by
          have := congrArg List.reverse hre; simpa using this
        have : src = (pre ++ xs.reverse) ++ [x] := by rw [hp, hlast, List.append_assoc]
        have hx : x = '\n' := by
          have h2 : t ++ ['\n'] = (pre ++ xs.reverse) ++ [x] := this
          have := List.append_inj_right' h2 rfl
          simpa using this.symm
        exact absurd hx (hnn x (by rw [hlast]; simp))
    rw [hempty, lineOf_nil]
    simp
  obtain ⟨b1, b2, b3, b4, b5⟩ := location_bounds src k hk hpos hcr
  refine ⟨by decide, b1, b2, b3, b4, b5, ?_, ?_⟩
  · unfold caretPad
    rw [List.length_replicate]
    have h4 : (1 : Int) ≤ r.column := b4
    have h5 : r.column ≤ (r.sourceLine.length : Int) + 1 := b5
    omega
  · intro he d ul
    unfold message header
    simp [he]

/-- for ASCII texts the byte counts above are also what Python's `len()` of the echoed line sees -/
theorem location_in_input_ascii (t : List Char) (k : Nat) (hk : k ≤ (t ++ ['\n']).length)
    (hpos : ∀ c, (t ++ ['\n'])[k]? = some c → c ≠ '\n') (hascii : ∀ c, c ∈ t → c.toNat < 128) :
    let src := t ++ ['\n']
    let r := reported src ((posOf src k).1 + 1 : Nat) (posOf src k).2
    1 ≤ r.column ∧ r.column ≤ (cpLen r.sourceLine : Int) + 1 := by
  intro src r
  obtain ⟨_, _, _, ⟨rest, hs, hsl⟩, b4, b5, _, _⟩ := location_in_input t k hk hpos
  refine ⟨b4, ?_⟩
  have hasc : ∀ c, c ∈ r.sourceLine → c.toNat < 128 := by
    intro c hc
    have hc' : c ∈ expand tabWidth (lineOf rest) := hsl ▸ hc
    rcases mem_expand _ _ _ hc' with rfl | hm
    · decide
    · obtain ⟨pre, hp⟩ := skipLines_suffix src _ rest hs
      have h1 : c ∈ rest := mem_lineOf _ _ hm
      have h2 : c ∈ src := by rw [hp]; exact List.mem_append_right _ h1
      rcases List.mem_append.mp h2 with h | h
      · exact hascii c h
      · have : c = '\n' := by simpa using h
        subst this; decide
  rw [cpLen_ascii _ hasc]
  exact b5

/-- a line that is not a line of the text (outside ANTLR's contract): empty echo, column passed
    through unchanged, hence no caret -/
theorem location_no_such_line (src : List Char) (line : Int) (cpos : Nat)
    (h : line < 1 ∨ skipLines src (line - 1).toNat = none) :
    (reported src line cpos).sourceLine = [] ∧ (reported src line cpos).column = (cpos : Int) + 1 := by
  rw [reported_eq, extract_no_line tabWidth src line _ h]
  exact ⟨rfl, rfl⟩

/-- a column past the end of an existing line is snapped to (echoed length) + 1 -/
theorem location_snap (src rest : List Char) (line : Int) (cpos : Nat) (hl : 1 ≤ line)
    (hs : skipLines src (line - 1).toNat = some rest) (hc : (lineOf rest).length < cpos) :
    (reported src line cpos).column = ((expand tabWidth (lineOf rest)).length : Int) + 1 := by
  rw [reported_eq]
  exact (extract_spec tabWidth src rest line _ hl hs).2.2.2 (by omega)

/-- COUNTER-EXAMPLE (latent, not reachable through `create_ast`): text `a\r` WITHOUT a trailing
    newline, error at the end of the text (line 1, column 2): the column is left at 3 while the
    echoed line `a` has length 1 — the snap-to-end test is `>` where `>=` is needed. -/
theorem location_eol_cr_counter :
    let src := ['a', '\r']
    posOf src 2 = (0, 2) ∧ (reported src 1 2).sourceLine = ['a'] ∧ (reported src 1 2).column = 3 ∧
      ¬ ((reported src 1 2).column ≤ ((reported src 1 2).sourceLine.length : Int) + 1) := by
  decide

/-- the same off-by-one misplaces (inside the line) the caret of an end-of-text error after a tab:
    text `\tab` without trailing newline, error at end of text: column 4, echoed `    ab` (6 chars) -/
theorem location_eol_tab_counter :
    (reported ['\t', 'a', 'b'] 1 3).sourceLine = "    ab".toList ∧ (reported ['\t', 'a', 'b'] 1 3).column = 4 := by
  decide

/-- the UTF-8 bytes of `a := "éééé"⏎⏎⏎⏎b;` + newline (⏎ = CR) -/
def nonAsciiWitness : List Char :=
  "a := \"".toList ++ (List.replicate 4 [Char.ofNat 0xC3, Char.ofNat 0xA9]).flatten ++ "\"\r\r\r\rb;\n".toList

/-- COUNTER-EXAMPLE (bytes vs code points): ANTLR's C++ runtime counts columns in code points, the
    function walks bytes.  For the offending token `b` at byte offset 19 = code-point column 15 the
    reported column is 16, while the echoed line is 17 bytes = 13 code points long: the caret is
    printed two columns past the end of what Python shows. -/
theorem location_nonascii_counter :
    cpLen (nonAsciiWitness.take 19) = 15 ∧ nonAsciiWitness[19]? = some 'b' ∧
    (reported nonAsciiWitness 1 15).column = 16 ∧
    cpLen (reported nonAsciiWitness 1 15).sourceLine = 13 ∧
    ¬ ((reported nonAsciiWitness 1 15).column ≤ (cpLen (reported nonAsciiWitness 1 15).sourceLine : Int) + 1) := by
  decide

/-- non-vacuity of `location_in_input`: tab-indented line, error at the `;` -/
theorem location_example_tab : (reported "\t\ta := b +;\n".toList 1 10).column = 17 ∧
    (reported "\t\ta := b +;\n".toList 1 10).sourceLine = "        a := b +;".toList := by decide

end VtlModel.C23

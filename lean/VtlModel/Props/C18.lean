/-
  C18 — CSV, DataFrame and Parquet inputs with the same content behave identically.

  In the model the DataFrame and Parquet presentations of a table *are* its abstract cells (typed cells,
  identity by construction); the CSV presentation is the file text `encode (header :: rows)`.  The theorems
  say that InputSpec's verdict and normalised result on the CSV file equal those on the abstract cells, for
  every structure and every table (with at least one column) — acceptance depends on the cells only.
  That the three real loaders agree with InputSpec (and hence with each other) is the correspondence of
  harness/checks/c18.py.
-/
import VtlModel.Input.Spec
import VtlModel.Input.Csv
import VtlModel.Input.LemmasCsv

namespace VtlModel.C18
open VtlModel.Input VtlModel.Input.Csv

/-- The CSV presentation of an abstract table: header row, then the rows. -/
def toCsv (t : Table) : Tbl := t.cols.map some :: t.rows

/-- Reading a decoded CSV table back as an abstract table; a null header cell has no name. -/
def ofCsv : Tbl → Option Table
  | [] => none
  | h :: rows => if h.all Option.isSome then some ⟨h.filterMap id, rows⟩ else none

/-- What the specification's loader does with a CSV file. -/
def acceptFile (s : Struct) (file : List Char) : Option (Except Violation NTable) :=
  match decode file with
  | none => none
  | some tbl => match ofCsv tbl with
    | none => none
    | some t => some (acceptTable s t)

theorem ofCsv_toCsv (t : Table) : ofCsv (toCsv t) = some t := by
  have h1 : (t.cols.map some).all Option.isSome = true := by simp [List.all_eq_true]
  have h2 : (t.cols.map some).filterMap id = t.cols := by
    induction t.cols with
    | nil => rfl
    | cons c cs ih => simp [ih]
  simp [ofCsv, toCsv, h1, h2]

/-- The CSV file of a table is read back as the same abstract cells. -/
theorem csv_roundtrip (t : Table) (hc : t.cols ≠ []) (hr : ∀ r ∈ t.rows, r ≠ []) :
    (decode (encode (toCsv t))).bind ofCsv = some t := by
  have wf : WF (toCsv t) := by
    intro r hr'
    simp only [toCsv, List.mem_cons] at hr'
    rcases hr' with rfl | h
    · simpa using hc
    · exact hr r h
  unfold decode
  rw [go_table _ [] wf]
  simp [ofCsv_toCsv]

/-- Acceptance (and the normalised result) of the CSV presentation equals that of the abstract cells. -/
theorem accept_csv_eq_cells (s : Struct) (t : Table) (hc : t.cols ≠ []) (hr : ∀ r ∈ t.rows, r ≠ []) :
    acceptFile s (encode (toCsv t)) = some (acceptTable s t) := by
  have h := csv_roundtrip t hc hr
  unfold acceptFile
  cases hd : decode (encode (toCsv t)) with
  | none => simp [hd] at h
  | some tbl =>
    simp only [hd, Option.bind_some] at h
    simp [h]

/-- Two tables with the same cells get the same verdict whichever way they were presented. -/
theorem same_cells_same_outcome (s : Struct) (t : Table) (hc : t.cols ≠ []) (hr : ∀ r ∈ t.rows, r ≠ []) :
    (∃ n, acceptFile s (encode (toCsv t)) = some (.ok n)) ↔ (∃ n, acceptTable s t = .ok n) := by
  rw [accept_csv_eq_cells s t hc hr]; simp

end VtlModel.C18

import VtlModel.Tables.Flow
import VtlModel.Gen.Effects
/-!
C22 — public API calls never modify the caller's arguments (static half).

`Gen/Effects.lean` is the alias-flow graph the `effects` translator extracts from /repo's current source on
every run: nodes = (definition of a variable, level), `sources` = the parameters of the six public API
functions, `mutationSites` = in-place operations whose receiver may be an object the caller owns.
`Reaches` (Tables/Flow.lean) is reachability in that graph; the theorems below are about every path, of any
length.  What the graph abstracts (and what it cannot see) is written in harness/translate/effects.py.
-/
namespace VtlModel.C22
open VtlModel.Tables.Flow
open VtlModel.Gen.Effects

/-- node ids of the API parameters (parameters annotated with immutable types only have no node) -/
def srcIds : List Nat := sources.filterMap (fun e => e.2.2)

def keyOf (m : Nat) : Option String := (siteKeys.find? (fun p => p.1 == m)).map (fun p => p.2)

/-- the mutation sites that were reachable when this file was written (hand-written; each one is a
    recorded finding, see known_findings.d/C22.json) -/
def knownSites : List String :=
  [ "API/__init__.py:run:store:datapoints[url_name] = …",
    "API/__init__.py:run:del:del datapoints[url_name]",
    "files/parser/__init__.py:_validate_pandas:store:data.columns = …",
    "files/parser/__init__.py:_validate_pandas:store:data[name] = …",
    "files/parser/__init__.py:_validate_pandas:store:data[comp_name] = …" ]

/-- the (api function, parameter) pairs from which a known site was reachable (hand-written) -/
def knownDirtyParams : List (String × String) := [("run", "datapoints"), ("validate_dataset", "datapoints")]

def isKnown (m : Nat) : Bool :=
  match keyOf m with
  | some k => knownSites.contains k
  | none => false

/-- node ids of the parameters that are not in `knownDirtyParams` -/
def cleanSrcIds : List Nat :=
  sources.filterMap (fun e => if knownDirtyParams.contains (e.1, e.2.1) then none else e.2.2)

/-- the full statement: no in-place mutation site is reachable from any parameter of any public API function -/
def NoArgMutation : Prop :=
  ∀ e ∈ sources, ∀ id, e.2.2 = some id → ∀ m ∈ mutationSites, ¬ Reaches graph id m

/-- the emitted graph is self-contained: every successor id is a node of the graph (the translator prunes to
    the forward closure of the API parameters; this re-checks that nothing points outside) -/
theorem graph_closed : wellFormed graph = true := by decide +kernel

theorem src_mem (e : String × String × Option Nat) (he : e ∈ sources) (id : Nat) (h : e.2.2 = some id) :
    id ∈ srcIds := by
  unfold srcIds
  rw [List.mem_filterMap]
  exact ⟨e, he, h⟩

/-- partial: from every parameter of every public API function, along every path of the graph, the only
    in-place mutation sites that can be reached are the known ones -/
theorem no_arg_mutation_partial :
    ∀ e ∈ sources, ∀ id, e.2.2 = some id → ∀ m, Reaches graph id m → m ∈ mutationSites → isKnown m = true := by
  intro e he id hid m hr hm
  have hall : allReached graph srcIds mutationSites isKnown = true := by decide +kernel
  exact allReached_spec graph srcIds mutationSites _ hall id m (src_mem e he id hid) hm hr

/-- partial, per parameter: apart from the known dirty parameters (`datapoints` of `run` and of
    `validate_dataset`), NO parameter of any of the six functions reaches any mutation site -/
theorem no_arg_mutation_except_known_params :
    ∀ e ∈ sources, (e.1, e.2.1) ∉ knownDirtyParams → ∀ id, e.2.2 = some id →
      ∀ m ∈ mutationSites, ¬ Reaches graph id m := by
  intro e he hk id hid m hm hr
  have hall : allReached graph cleanSrcIds mutationSites (fun _ => false) = true := by decide +kernel
  have hmem : id ∈ cleanSrcIds := by
    unfold cleanSrcIds
    rw [List.mem_filterMap]
    refine ⟨e, he, ?_⟩
    have hf : knownDirtyParams.contains (e.1, e.2.1) = false := by
      cases hc : knownDirtyParams.contains (e.1, e.2.1) with
      | false => rfl
      | true => exact absurd (by simpa using hc) hk
    rw [hf]; simpa using hid
  have := allReached_spec graph cleanSrcIds mutationSites _ hall id m hmem hm hr
  cases this

/-- full strength — or a concrete reachable mutation site (the check asks the driver which parameter reaches
    which site along which path, and replays that call on the real code) -/
theorem no_arg_mutation_full_or_counter :
    NoArgMutation ∨ (∃ e ∈ sources, ∃ id m, e.2.2 = some id ∧ m ∈ mutationSites ∧ Reaches graph id m) := by
  first
    | (right
       have h : someReached graph srcIds mutationSites = true := by decide +kernel
       obtain ⟨s, hs, m, hm, hr⟩ := someReached_spec graph srcIds mutationSites h
       unfold srcIds at hs
       rw [List.mem_filterMap] at hs
       obtain ⟨e, he, hid⟩ := hs
       exact ⟨e, he, s, m, hid, hm, hr⟩)
    | (left
       intro e he id hid m hm hr
       have hall : allReached graph srcIds mutationSites (fun _ => false) = true := by decide +kernel
       have := allReached_spec graph srcIds mutationSites _ hall id m (src_mem e he id hid) hm hr
       cases this)

/-- the six public API functions are all present among the sources -/
theorem all_six_apis_covered :
    ∀ a ∈ ["run", "run_sdmx", "semantic_analysis", "validate_dataset", "prettify", "generate_sdmx"],
      sources.any (fun e => e.1 == a) = true := by decide +kernel

/-! ### non-vacuity: the graph is not trivially disconnected -/
example : (closureOf graph srcIds).isSome = true := by decide +kernel
example : (graph.length > srcIds.length) = true := by decide +kernel

end VtlModel.C22

import VtlModel.Tables.Flow
import VtlModel.Gen.Effects
/-!
C22 — public API calls never modify the caller's arguments (static half).

`Gen/Effects.lean` is the alias-flow graph the `effects` translator extracts from /repo's current source on
every run: nodes = (definition of a variable, level), `sources` = the parameters of the six public API
functions, `mutationSites` = in-place operations whose receiver may be an object the caller owns.
`Reaches` (Tables/Flow.lean) is reachability in that graph; the theorems below are about every path, of any
length.  What the graph abstracts (and what it cannot see) is written in harness/translate/effects.py.
-/
namespace VtlModel.C22
open VtlModel.Tables.Flow
open VtlModel.Gen.Effects

/-- node ids of the API parameters (parameters annotated with immutable types only have no node) -/
def srcIds : List Nat := sources.filterMap (fun e => e.2.2)

/-- nodes found by the search from all API parameters together -/
def closure : List Nat := reachableFrom graph srcIds

def keyOf (m : Nat) : Option String := (siteKeys.find? (fun p => p.1 == m)).map (fun p => p.2)

/-- the mutation sites that were reachable when this file was written (hand-written; each one is a
    recorded finding, see known_findings.d/C22.json) -/
def knownSites : List String :=
  [ "API/__init__.py:run:store:datapoints[url_name] = …",
    "API/__init__.py:run:del:del datapoints[url_name]",
    "files/parser/__init__.py:_validate_pandas:store:data.columns = …",
    "files/parser/__init__.py:_validate_pandas:store:data[name] = …",
    "files/parser/__init__.py:_validate_pandas:store:data[comp_name] = …" ]

def isKnown (m : Nat) : Bool :=
  match keyOf m with
  | some k => knownSites.contains k
  | none => false

/-- the full statement: no in-place mutation site is reachable from any parameter of any public API function -/
def NoArgMutation : Prop :=
  ∀ e ∈ sources, ∀ id, e.2.2 = some id → ∀ m ∈ mutationSites, ¬ Reaches graph id m

/-- the emitted graph is self-contained: every successor id is a node of the graph (the translator prunes to
    the forward closure of the API parameters; this re-checks that nothing points outside) -/
theorem graph_closed : wellFormed graph = true := by decide +kernel

/-- the searched node set contains every API parameter and is closed under successors -/
theorem closure_closed : closed graph closure = true ∧ srcIds.all (fun s => closure.contains s) = true := by
  decide +kernel

theorem src_mem (e : String × String × Option Nat) (he : e ∈ sources) (id : Nat) (h : e.2.2 = some id) :
    id ∈ closure := by
  have h1 : id ∈ srcIds := by
    unfold srcIds
    rw [List.mem_filterMap]
    exact ⟨e, he, h⟩
  have h2 := closure_closed.2
  rw [List.all_eq_true] at h2
  simpa using h2 id h1

/-- partial: from every parameter of every public API function, along every path of the graph, the only
    in-place mutation sites that can be reached are the known ones -/
theorem no_arg_mutation_partial :
    ∀ e ∈ sources, ∀ id, e.2.2 = some id → ∀ m, Reaches graph id m → m ∈ mutationSites → isKnown m = true := by
  intro e he id hid m hr hm
  have hmem : m ∈ closure := mem_of_reaches_closed graph closure closure_closed.1 id m (src_mem e he id hid) hr
  have hall : closure.all (fun m => !mutationSites.contains m || isKnown m) = true := by decide +kernel
  rw [List.all_eq_true] at hall
  have := hall m hmem
  have hc : mutationSites.contains m = true := by simpa using hm
  simpa [hc] using this

/-- Bool form of "some mutation site is found from some API parameter" -/
def counterFound : Bool :=
  sources.any (fun e => match e.2.2 with
    | some id => mutationSites.any (fun m => (reachable graph id).contains m)
    | none => false)

theorem counter_of_found (h : counterFound = true) :
    ∃ e ∈ sources, ∃ id m, e.2.2 = some id ∧ m ∈ mutationSites ∧ Reaches graph id m := by
  unfold counterFound at h
  rw [List.any_eq_true] at h
  obtain ⟨e, he, h⟩ := h
  cases hid : e.2.2 with
  | none => rw [hid] at h; cases h
  | some id =>
    rw [hid] at h
    simp only [List.any_eq_true] at h
    obtain ⟨m, hm, hc⟩ := h
    have hc' : m ∈ reachable graph id := by simpa using hc
    exact ⟨e, he, id, m, rfl, hm, reaches_of_mem_reachable graph id m hc'⟩

/-- full strength — or a concrete reachable mutation site (the check asks the driver which parameter reaches
    which site along which path, and replays that call on the real code) -/
theorem no_arg_mutation_full_or_counter :
    NoArgMutation ∨ (∃ e ∈ sources, ∃ id m, e.2.2 = some id ∧ m ∈ mutationSites ∧ Reaches graph id m) := by
  first
    | exact Or.inr (counter_of_found (by decide +kernel))
    | (left
       intro e he id hid m hm hr
       have hmem : m ∈ closure := mem_of_reaches_closed graph closure closure_closed.1 id m (src_mem e he id hid) hr
       have hall : closure.all (fun m => !mutationSites.contains m) = true := by decide +kernel
       rw [List.all_eq_true] at hall
       have := hall m hmem
       have hc : mutationSites.contains m = true := by simpa using hm
       simp [hc] at this)

/-- the six public API functions are all present among the sources -/
theorem all_six_apis_covered :
    ∀ a ∈ ["run", "run_sdmx", "semantic_analysis", "validate_dataset", "prettify", "generate_sdmx"],
      sources.any (fun e => e.1 == a) = true := by decide +kernel

/-! ### non-vacuity: the graph is not trivially disconnected -/
example : (closure.length > srcIds.length) = true := by decide +kernel

end VtlModel.C22

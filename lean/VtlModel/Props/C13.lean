/-
  C13 — the dataset load/release schedule is safe and results are selected correctly.

  Model: VtlModel/Dag/Schedule.lean (`usage` = hand transcription of
  `DAGAnalyzer._ds_usage_analysis`), VtlModel/Dag/Store.lean (`Store` = the DuckDB catalog as
  `execute_queries` uses it; `replay` = the events of `execute_queries`' loop under that schedule).

  `s` is the statement list *in execution order* (after `sort_ast`); the hypotheses are the two facts
  the engine establishes before it executes anything: no name is assigned twice
  (`check_overwriting`) and the order is valid (`create_dag`; re-validated on every check run).
  All theorems hold for any number of statements and any fan-in / fan-out.
-/
import VtlModel.Dag.SafeProof
import VtlModel.Dag.SafeMeaning
namespace VtlModel.C13
open VtlModel.Dag

/-- **The schedule is safe.**  Replaying `execute_queries` under the schedule computed by `usage`,
    the table store accepts every event — every read and every fetch hits a live table, no input is
    loaded twice or over an existing table, every result is created once, only live tables are
    dropped (so each at most once, and never before its last reader since a dropped table is never
    re-created) — and nothing is left in the catalog at the end (every loaded input and every
    created result is released exactly once). -/
theorem schedule_safe (s : List Stmt) (rop : Bool) (hnd : (outs s).Nodup)
    (hv : isValidOrder s = true) : Safe (replay rop s) := by
  obtain ⟨σ, hr, hl, _⟩ := replay_spec s rop hnd hv
  exact ⟨σ, hr, hl⟩

/-- the executable checker used by the driver agrees with `Safe` -/
theorem safeB_iff (tr : List Event) : safeB tr = true ↔ Safe tr := by
  unfold safeB Safe
  cases h : Store.run Store.init tr with
  | none => simp
  | some σ => simp [List.isEmpty_iff]

/-- **Results.**  The names fetched during the run — the keys of the dict `run()` returns — are,
    without repetition, exactly the persistent assignments when `return_only_persistent`, and all
    assignments otherwise. -/
theorem results_eq (s : List Stmt) (rop : Bool) (hnd : (outs s).Nodup) (hv : isValidOrder s = true) :
    (fetches (replay rop s)).Perm (expectedResults rop s) := by
  obtain ⟨σ, _, _, hf, hfn, hmem, _⟩ := replay_spec s rop hnd hv
  rw [← hf]
  have hexp : (expectedResults rop s).Nodup := by
    unfold expectedResults
    split
    · exact hnd.sublist ((List.filter_sublist).map _)
    · exact hnd
  exact (List.perm_ext_iff_of_nodup hfn hexp).mpr hmem

/-- every result that is returned is fetched while its table is still in the catalog (it is part of
    `schedule_safe`, restated: the store never rejects a fetch) and no result is fetched after the
    loop: under `usage` the "final results not yet processed" pass of `execute_queries` is empty -/
theorem final_pass_empty (s : List Stmt) (rop : Bool) (hnd : (outs s).Nodup) (hv : isValidOrder s = true) :
    replay rop s = loopEvents (usage s) rop 1 s := by
  obtain ⟨_, _, _, _, _, _, h⟩ := replay_spec s rop hnd hv
  exact h

/-! ### what `Safe` means on the event history (for *any* history, not only replays) -/

/-- **No use after release**: once a table is dropped, no later event reads, fetches, drops, loads
    or creates it — so every drop comes after the table's last reader, and at most once. -/
theorem safe_no_use_after_drop (tr a b : List Event) (x : Name) (hs : Safe tr)
    (h : tr = a ++ Event.drop x :: b) : ∀ e ∈ b, e ∉ touches x := by
  obtain ⟨σ, hr, _⟩ := hs
  subst h
  obtain ⟨σ1, σ2, h1, h2, h3⟩ := run_split hr
  have hk := liveKnown_run a _ _ (by intro y hy; simp [Store.init] at hy) h1
  have hd : Dead x σ2 := by
    simp only [Store.step] at h2
    split at h2
    · rename_i hc
      simp at h2; subst h2
      have hx : x ∈ σ1.live := by simpa using hc
      exact ⟨by simp, hk x hx⟩
    · simp at h2
  exact dead_run b σ2 σ hd h3

/-- **Every read hits a live table** (loaded or created before, not yet dropped). -/
theorem safe_read_live (tr a b : List Event) (x : Name) (hs : Safe tr)
    (h : tr = a ++ Event.read x :: b) : ∃ σ, Store.run Store.init a = some σ ∧ x ∈ σ.live := by
  obtain ⟨σ, hr, _⟩ := hs
  subst h
  obtain ⟨σ1, σ2, h1, h2, _⟩ := run_split hr
  refine ⟨σ1, h1, ?_⟩
  simp only [Store.step] at h2
  split at h2
  · rename_i hc; simpa using hc
  · simp at h2

/-- **Loaded / created at most once**: after a table is loaded or created, it is never loaded or
    created again. -/
theorem safe_load_create_once (tr a b : List Event) (x : Name) (hs : Safe tr)
    (h : tr = a ++ Event.load x :: b ∨ tr = a ++ Event.create x :: b) :
    Event.load x ∉ b ∧ Event.create x ∉ b := by
  obtain ⟨σ, hr, _⟩ := hs
  rcases h with h | h <;> subst h <;> obtain ⟨σ1, σ2, _, h2, h3⟩ := run_split hr <;>
    apply known_stays b σ2 σ _ h3 <;> simp only [Store.step] at h2 <;> split at h2 <;>
    simp at h2 <;> subst h2 <;> simp

/-- **Everything is released**: a table that was loaded or created is dropped later. -/
theorem safe_released (tr a b : List Event) (x : Name) (hs : Safe tr)
    (h : tr = a ++ Event.load x :: b ∨ tr = a ++ Event.create x :: b) : Event.drop x ∈ b := by
  obtain ⟨σ, hr, hl⟩ := hs
  apply Classical.byContradiction
  intro hnd
  have : x ∈ σ.live := by
    rcases h with h | h <;> subst h <;> obtain ⟨σ1, σ2, _, h2, h3⟩ := run_split hr <;>
      apply live_stays b σ2 σ _ h3 hnd <;> simp only [Store.step] at h2 <;> split at h2 <;>
      simp at h2 <;> subst h2 <;> simp
  rw [hl] at this
  simp at this

/-! ### non-vacuity and sensitivity -/

/-- `r1 := i1 + i2; r2 <- r1 * 2; r3 <- r1 + i1` in execution order -/
def ex : List Stmt := [⟨10, [1, 2], false⟩, ⟨11, [10], true⟩, ⟨12, [10, 1], true⟩]

example : (usage ex).insertion 1 = [1, 2] ∧ (usage ex).deletion 1 = [2] ∧ (usage ex).deletion 2 = [11]
    ∧ (usage ex).deletion 3 = [10, 12, 1] ∧ (usage ex).globalInputs = [1, 2]
    ∧ (usage ex).persistent = [11, 12] := by decide
example : safeB (replay true ex) = true ∧ fetches (replay true ex) = [11, 12] := by decide
example : fetches (replay false ex) = [11, 10, 12] := by decide
/-- the hypotheses matter: in an invalid order the same schedule machinery is unsafe -/
example : safeB (replay true [⟨11, [10], true⟩, ⟨10, [1, 2], false⟩]) = false := by decide
/-- `Safe` is falsifiable: releasing at the *first* instead of the last consumer (r1 after
    statement 2) makes statement 3 read a dropped table -/
def badFirstConsumer : Sched :=
  { usage ex with slots := [(2, 10), (2, 11), (3, 12), (1, 2), (3, 1)] }
example : safeB (replayWith badFirstConsumer true ex) = false := by decide
/-- forgetting that r3 is persistent: r3 is dropped unfetched and the final pass then fetches a table
    that no longer exists -/
example : safeB (replayWith { usage ex with persistent := [11] } true ex) = false := by decide
/-- never releasing an input leaves a table behind -/
example : safeB (replayWith { usage ex with slots := (usage ex).slots.filter (·.2 != 1) } true ex) = false := by decide
/-- loading an input twice is rejected -/
example : safeB [.load 1, .load 1, .drop 1] = false := by decide

end VtlModel.C13

/-
  C14 — writing results to an output folder preserves them exactly.

  `decode_encode`: for EVERY table of optional strings whose rows have at least one field — any characters,
  including quotes, commas, CR and LF — the strict reader of the dialect returns exactly the table that was
  written.  Null/empty convention: `none` (NULL) is the empty unquoted field, the empty string is written as two double quotes.
  `file_eq_memory`: in the model of the result-selection loop, with an output folder there is exactly one
  file per returned dataset, the file decodes to the in-memory data of the same run without a folder, and the
  returned datasets carry no data.
  Parquet output is not modelled (the check reads it with pyarrow): partial.
-/
import VtlModel.Input.Csv
import VtlModel.Input.LemmasCsv
import VtlModel.Input.Output

namespace VtlModel.C14
open VtlModel.Input.Csv VtlModel.Input.Out

/-- The reader inverts the writer on every well-formed table. -/
theorem decode_encode (t : Tbl) (h : WF t) : decode (encode t) = some t := by
  unfold decode
  rw [go_table t [] h]; simp

/-- Different tables never produce the same file. -/
theorem encode_injective (t t' : Tbl) (h : WF t) (h' : WF t') (e : encode t = encode t') : t = t' := by
  have a := decode_encode t h
  have b := decode_encode t' h'
  rw [e, b] at a
  exact (Option.some.inj a).symm

/-- NULL and the empty string are written differently and read back as what they were. -/
theorem null_vs_empty :
    encode [[none, some []]] = [',', dq, dq, '\n'] ∧
    decode [',', dq, dq, '\n'] = some [[none, some []]] ∧
    decode [dq, 'a', dq, dq, 'b', ',', '\n', 'c', dq, ',', 'x', '\n'] =
      some [[some ['a', dq, 'b', ',', '\n', 'c'], some ['x']]] := by
  decide

/-- With an output folder: one file per returned dataset, each file decodes to the in-memory data of the
    run without a folder, and no returned dataset carries data. -/
theorem file_eq_memory (onlyPersistent : Bool) (qs : List Query) (view : List Char → Tbl)
    (hv : ∀ n, WF (view n)) :
    ((runFolder onlyPersistent qs view).2.map (fun f => (f.name, decode f.text)) =
      (runMemory onlyPersistent qs view).map (fun r => (csvName r.name, r.data))) ∧
    (∀ r ∈ (runFolder onlyPersistent qs view).1, r.data = none) ∧
    ((runFolder onlyPersistent qs view).1.map (·.name) = (runMemory onlyPersistent qs view).map (·.name)) ∧
    ((runFolder onlyPersistent qs view).2.length = (runFolder onlyPersistent qs view).1.length) := by
  refine ⟨?_, ?_, ?_, ?_⟩
  · simp only [runFolder, runMemory, List.map_map]
    apply List.map_congr_left
    intro q _
    simp [decode_encode _ (hv q.name)]
  · intro r hr
    simp only [runFolder, List.mem_map] at hr
    obtain ⟨q, _, rfl⟩ := hr
    rfl
  · simp [runFolder, runMemory, List.map_map, Function.comp_def]
  · simp [runFolder]

/-- Only persistent results are returned when `return_only_persistent` is set; all of them otherwise. -/
theorem returned_spec (qs : List Query) :
    returned false qs = qs ∧ returned true qs = qs.filter (·.persistent) := by
  constructor
  · simp [returned]
  · simp [returned]

/-- The scalars file decodes to the header and the `name, value` rows (sorted by name). -/
theorem scalars_file (scalars : List (List Char × Option (List Char))) :
    decode (encode (scalarsTable scalars)) = some (scalarsTable scalars) := by
  apply decode_encode
  intro r hr
  simp only [scalarsTable, List.mem_cons, List.mem_map] at hr
  rcases hr with rfl | ⟨p, _, rfl⟩ <;> simp

example : decode (encode [[some ['I','d'], some ['M']], [some ['1'], none], [some ['2'], some []]]) =
    some [[some ['I','d'], some ['M']], [some ['1'], none], [some ['2'], some []]] := by decide

end VtlModel.C14

import VtlModel.Sem.PivotLemmas
import VtlModel.Props.C03
/-! # C02 (extension) — `unpivot`, `pivot`, the `aggr` clause, `calc` with an explicit role

Model: `VtlModel.Sem.Pivot` (functions `DS → R DS` plugged into dataset expressions through `DExpr.app1`) and
`VtlModel.Sem.Aggr` for the `aggr` clause.  Everything is proved for ALL datasets (no bound on datapoints, measures,
items).  Attributes are non-identifier components of the model's `DS`; keep / drop / rename / filter over them are the
theorems of `Props/C02.lean` (they never distinguish measures from attributes); the operators that do distinguish the
two roles take the attribute names as a parameter (`unpivot atts`).

* unpivot: `unpivot_rows` (exactly one datapoint per input datapoint and MEASURE with a non-null value, with the stated
  identifier and measure), `unpivot_struct`, `unpivot_values`, `unpivot_count`, `unpivot_skips_attributes`;
* pivot: `pivot_struct`, `pivot_measures_iff`, `pivot_keys_iff` + `pivot_one_per_key`, `pivot_value`, `pivot_missing_null`;
* round trip: `pivot_unpivot_value` (every non-null measure value of every datapoint is found again, under its own
  name, in the datapoint with the same key of `pivot (unpivot x)`) and `pivot_unpivot_struct`;
* calc with roles: `calcRole_struct`, `calcRole_rows`, `calcRole_rowcount`, `calcRole_keys_unique`,
  `calcRole_identifier_value`, `calcRole_frame`, `calcRole_null_identifier_rejected`, `calcRole_identifier_protected`;
* aggr clause: `aggrClause_eq_operator` (the clause that aggregates every measure under its own name IS the aggregation
  operator on the same grouping), `aggrClause_struct`;
* `clauseExt_ExtWF`, `clauseExt_ExtPerm`: `C10.evalD_WF` and `C33.evalD_perm` extend to expressions containing them. -/
namespace VtlModel.C02
open VtlModel.Sem List

/-! ## unpivot -/

/-- **exactly one datapoint per (input datapoint, measure with a non-null value)**: a row is in the result iff it is
the identifiers of an operand datapoint, followed by the NAME of one of its measures whose value is not null (in the new
identifier) and that value (in the new measure). -/
theorem unpivot_rows (atts : List String) (idn mn : String) (x res : DS) (h : unpivot atts idn mn x = .ok res) (r' : Row) :
    r' ∈ res.rows ↔ ∃ r ∈ x.rows, ∃ m ∈ unpivotMeas atts x, (r.get m).isNull = false ∧
      r' = r.proj x.ids ++ [(idn, Value.str m), (mn, r.get m)] := by
  obtain ⟨_, _, _, _, _, rfl⟩ := unpivot_ok atts idn mn x res h
  simp only [List.mem_flatMap, mem_unpivotRow]

theorem unpivot_struct (atts : List String) (idn mn : String) (x res : DS) (h : unpivot atts idn mn x = .ok res) :
    res.ids = x.ids ++ [idn] ∧ res.meas = [mn] := by
  obtain ⟨_, _, _, _, _, rfl⟩ := unpivot_ok atts idn mn x res h
  exact ⟨rfl, rfl⟩

/-- the components of a result datapoint: the operand's identifiers unchanged, the measure's name, the measure's value. -/
theorem unpivot_values (atts : List String) (idn mn : String) (x res : DS) (h : unpivot atts idn mn x = .ok res)
    (r : Row) (m : String) :
    (∀ i ∈ x.ids, (r.proj x.ids ++ [(idn, Value.str m), (mn, r.get m)]).get i = r.get i) ∧
    (r.proj x.ids ++ [(idn, Value.str m), (mn, r.get m)]).get idn = .str m ∧
    (r.proj x.ids ++ [(idn, Value.str m), (mn, r.get m)]).get mn = r.get m := by
  obtain ⟨_, hid, hmn, hne, _, _⟩ := unpivot_ok atts idn mn x res h
  have hid' : idn ∉ x.ids := fun hm => hid (List.mem_append_left _ hm)
  refine ⟨fun i hi => get_proj_append r x.ids _ i hi, ?_, ?_⟩
  · rw [get_proj_append_not_mem r x.ids _ idn hid']; simp [Row.get]
  · rw [get_proj_append_not_mem r x.ids _ mn hmn]
    have : (mn == idn) = false := by simpa using hne
    simp [Row.get, List.lookup, this]

/-- the number of datapoints of the result: the number of non-null measure values of the operand. -/
theorem unpivot_count (atts : List String) (idn mn : String) (x res : DS) (h : unpivot atts idn mn x = .ok res) :
    res.rows.length = (x.rows.map (fun r => ((unpivotMeas atts x).filter (fun m => !(r.get m).isNull)).length)).sum := by
  obtain ⟨_, _, _, _, _, rfl⟩ := unpivot_ok atts idn mn x res h
  simp only [List.length_flatMap, unpivotRow, List.length_map]

/-- attributes are not turned into datapoints. -/
theorem unpivot_skips_attributes (atts : List String) (idn mn : String) (x res : DS) (h : unpivot atts idn mn x = .ok res)
    (r' : Row) (hr : r' ∈ res.rows) (a : String) (ha : a ∈ atts) : r'.get idn ≠ .str a := by
  obtain ⟨r, _, m, hm, _, rfl⟩ := (unpivot_rows atts idn mn x res h r').1 hr
  rw [(unpivot_values atts idn mn x res h r m).2.1]
  intro he
  injection he with he
  subst he
  simp [unpivotMeas, List.mem_filter, ha] at hm

/-! ## pivot -/

theorem pivot_struct (idn mn : String) (x res : DS) (h : pivot idn mn x = .ok res) :
    res.ids = x.ids.filter (fun i => i != idn) ∧ res.meas = pivotCols idn x.rows := by
  obtain ⟨_, _, _, _, rfl⟩ := pivot_ok idn mn x res h
  exact ⟨rfl, rfl⟩

/-- the measures of the result are exactly the values the pivoted identifier takes in the operand. -/
theorem pivot_measures_iff (idn mn : String) (x res : DS) (h : pivot idn mn x = .ok res) (c : String) :
    c ∈ res.meas ↔ ∃ r ∈ x.rows, r.get idn = .str c := by
  rw [(pivot_struct idn mn x res h).2]
  exact mem_pivotCols idn x.rows c

/-- **one datapoint per distinct key over the remaining identifiers** … -/
theorem pivot_one_per_key (idn mn : String) (x res : DS) (h : pivot idn mn x = .ok res) : res.keys.Nodup :=
  pivot_keys_nodup idn mn x res h

/-- … and no other: `k` is a key of the result iff some operand datapoint has it. -/
theorem pivot_keys_iff (idn mn : String) (x res : DS) (h : pivot idn mn x = .ok res) (k : List Value) :
    k ∈ res.keys ↔ ∃ r ∈ x.rows, r.key (x.ids.filter (fun i => i != idn)) = k := by
  obtain ⟨_, _, _, _, rfl⟩ := pivot_ok idn mn x res h
  simp only [DS.keys, List.mem_map]
  constructor
  · rintro ⟨r', ⟨kr, hkr, rfl⟩, rfl⟩
    obtain ⟨r, hr, rfl⟩ := (mem_keyRows _ x.rows kr).1 hkr
    exact ⟨r, hr, (pivotRow_key x _ _ idn mn r).symm⟩
  · rintro ⟨r, hr, rfl⟩
    exact ⟨_, ⟨r.proj _, (mem_keyRows _ x.rows _).2 ⟨r, hr, rfl⟩, rfl⟩, pivotRow_key x _ _ idn mn r⟩

/-- **the value of the matching input datapoint**: for every operand datapoint `r` (unique keys), the result datapoint
with `r`'s remaining key holds `r`'s value of the pivoted measure under the name `r` carries in the pivoted identifier. -/
theorem pivot_value (idn mn : String) (x res : DS) (w : x.WF) (h : pivot idn mn x = .ok res)
    (r : Row) (hr : r ∈ x.rows) (c : String) (hc : r.get idn = .str c) :
    ∃ r' ∈ res.rows, r'.key res.ids = r.key res.ids ∧ r'.get c = r.get mn := by
  obtain ⟨_, _, _, hclash, rfl⟩ := pivot_ok idn mn x res h
  have hcm : c ∈ pivotCols idn x.rows := (mem_pivotCols idn x.rows c).2 ⟨r, hr, hc⟩
  refine ⟨pivotRow x _ (pivotCols idn x.rows) idn mn (r.proj _), ?_, pivotRow_key x _ _ idn mn r, ?_⟩
  · exact List.mem_map.2 ⟨r.proj _, (mem_keyRows _ x.rows _).2 ⟨r, hr, rfl⟩, rfl⟩
  · rw [pivotRow_get x _ _ idn mn r c hcm (hclash c hcm)]
    exact pivotCell_hit x w idn mn r hr c hc

/-- a cell without a matching input datapoint is null. -/
theorem pivot_missing_null (idn mn : String) (x res : DS) (h : pivot idn mn x = .ok res)
    (r' : Row) (hr' : r' ∈ res.rows) (c : String) (hc : c ∈ res.meas)
    (hno : ∀ r ∈ x.rows, ¬ (r.key res.ids = r'.key res.ids ∧ r.get idn = .str c)) : r'.get c = .null := by
  obtain ⟨_, _, _, hclash, rfl⟩ := pivot_ok idn mn x res h
  obtain ⟨kr, hkr, rfl⟩ := List.mem_map.1 hr'
  obtain ⟨r0, _, rfl⟩ := (mem_keyRows _ x.rows kr).1 hkr
  rw [pivotRow_get x _ _ idn mn r0 c hc (hclash c hc)]
  apply pivotCell_miss
  intro r hr hh
  apply hno r hr
  refine ⟨?_, hh.2⟩
  simp only
  rw [pivotRow_key]
  exact hh.1

/-! ## pivot ∘ unpivot -/

theorem filter_ne_append_self (ids : List String) (idn : String) (h : idn ∉ ids) :
    (ids ++ [idn]).filter (fun i => i != idn) = ids := by
  rw [List.filter_append]
  have h1 : ids.filter (fun i => i != idn) = ids := by
    apply List.filter_eq_self.2
    intro i hi
    have : i ≠ idn := fun e => h (e ▸ hi)
    simpa using this
  simp [h1]

/-- the round trip gives the operand's identifiers back, and as measures the names of the operand's measures that
carry a value somewhere. -/
theorem pivot_unpivot_struct (atts : List String) (idn mn : String) (x u p : DS)
    (hu : unpivot atts idn mn x = .ok u) (hp : pivot idn mn u = .ok p) :
    p.ids = x.ids ∧ ∀ c, c ∈ p.meas ↔ ∃ r ∈ x.rows, c ∈ unpivotMeas atts x ∧ (r.get c).isNull = false := by
  obtain ⟨_, hid, _, _, _, _⟩ := unpivot_ok atts idn mn x u hu
  have hid' : idn ∉ x.ids := fun hm => hid (List.mem_append_left _ hm)
  refine ⟨?_, ?_⟩
  · rw [(pivot_struct idn mn u p hp).1, (unpivot_struct atts idn mn x u hu).1]
    exact filter_ne_append_self x.ids idn hid'
  · intro c
    rw [pivot_measures_iff idn mn u p hp c]
    constructor
    · rintro ⟨ur, hur, hc⟩
      obtain ⟨r, hr, m, hm, hn, rfl⟩ := (unpivot_rows atts idn mn x u hu ur).1 hur
      rw [(unpivot_values atts idn mn x u hu r m).2.1] at hc
      injection hc with hc
      subst hc
      exact ⟨r, hr, hm, hn⟩
    · rintro ⟨r, hr, hm, hn⟩
      exact ⟨_, (unpivot_rows atts idn mn x u hu _).2 ⟨r, hr, c, hm, hn, rfl⟩, (unpivot_values atts idn mn x u hu r c).2.1⟩

/-- **round trip**: unpivot, then pivot on the same two names.  Every non-null value of every measure of every operand
datapoint (unique keys) is found again under the measure's own name in the datapoint with the same identifiers. -/
theorem pivot_unpivot_value (atts : List String) (idn mn : String) (x u p : DS) (w : x.WF)
    (hu : unpivot atts idn mn x = .ok u) (hp : pivot idn mn u = .ok p)
    (r : Row) (hr : r ∈ x.rows) (m : String) (hm : m ∈ unpivotMeas atts x) (hn : (r.get m).isNull = false) :
    ∃ r' ∈ p.rows, r'.key x.ids = r.key x.ids ∧ r'.get m = r.get m := by
  have hmem := (unpivot_rows atts idn mn x u hu _).2 ⟨r, hr, m, hm, hn, rfl⟩
  obtain ⟨hids, hidn, hmn⟩ := unpivot_values atts idn mn x u hu r m
  obtain ⟨r', hr', hk, hv⟩ := pivot_value idn mn u p (unpivot_WF atts idn mn x u w hu) hp _ hmem m hidn
  rw [(pivot_unpivot_struct atts idn mn x u p hu hp).1] at hk
  refine ⟨r', hr', ?_, ?_⟩
  · rw [hk]
    unfold Row.key
    apply List.map_congr_left
    intro i hi
    exact hids i hi
  · rw [hv, hmn]

/-! ## calc with an explicit role -/

theorem calcRole_struct (idItems others : List (String × SExpr)) (x res : DS) (h : calcRole idItems others x = .ok res) :
    res.ids = x.ids ++ idItems.map (·.1) ∧ res.meas = calcRoleKept idItems others x ++ others.map (·.1) := by
  obtain ⟨_, _, rows, _, rfl⟩ := calcRole_ok idItems others x res h
  exact ⟨rfl, rfl⟩

/-- result rows: one per operand datapoint — the components the clause does not name, then the identifier items, then
the other items, ALL evaluated on the operand datapoint (simultaneous assignment); no identifier value is null. -/
theorem calcRole_rows (idItems others : List (String × SExpr)) (x res : DS) (h : calcRole idItems others x = .ok res) (r' : Row) :
    r' ∈ res.rows ↔ ∃ r ∈ x.rows, ∃ ivs ovs, calcVals idItems r = .ok ivs ∧ (∀ p ∈ ivs, p.2.isNull = false) ∧
      calcVals others r = .ok ovs ∧ r' = r.proj (x.ids ++ calcRoleKept idItems others x) ++ (ivs ++ ovs) := by
  obtain ⟨_, _, rows, hr, rfl⟩ := calcRole_ok idItems others x res h
  rw [mapRows_mem _ _ _ hr r']
  constructor
  · rintro ⟨r, hr0, hf⟩; exact ⟨r, hr0, (calcRoleRow_some _ _ _ _ _).1 hf⟩
  · rintro ⟨r, hr0, hf⟩; exact ⟨r, hr0, (calcRoleRow_some _ _ _ _ _).2 hf⟩

theorem mapRows_length_of_some (f : Row → R (Option Row)) :
    ∀ (rows out : List Row), mapRows f rows = .ok out → (∀ r ∈ rows, ∀ o, f r = .ok o → o.isSome = true) →
      out.length = rows.length := by
  intro rows
  induction rows with
  | nil =>
    intro out h _
    obtain ⟨xs, hx, rfl⟩ := (mapRows_ok_iff f [] out).1 h
    simp [List.mapM_nil, pure, Except.pure] at hx
    subst hx; rfl
  | cons a l ih =>
    intro out h hs
    obtain ⟨xs, hx, rfl⟩ := (mapRows_ok_iff f (a :: l) out).1 h
    obtain ⟨b, bs, hb, hbs, rfl⟩ := (mapM_ok_cons f a l xs).1 hx
    have hl : mapRows f l = .ok (bs.filterMap id) := (mapRows_ok_iff f l _).2 ⟨bs, hbs, rfl⟩
    have := ih _ hl (fun r hr o ho => hs r (List.mem_cons_of_mem _ hr) o ho)
    cases b with
    | none => have := hs a List.mem_cons_self none hb; cases this
    | some r' => simp [this]

/-- calc neither loses nor invents a datapoint. -/
theorem calcRole_rowcount (idItems others : List (String × SExpr)) (x res : DS) (h : calcRole idItems others x = .ok res) :
    res.rows.length = x.rows.length := by
  obtain ⟨_, _, rows, hr, rfl⟩ := calcRole_ok idItems others x res h
  refine mapRows_length_of_some _ x.rows rows hr ?_
  intro r _ o ho
  cases o with
  | some _ => rfl
  | none =>
    exfalso
    unfold calcRoleRow at ho
    cases hi : calcVals idItems r with
    | error e => simp [hi, bind, Except.bind] at ho
    | ok ivs =>
      simp only [hi, bind, Except.bind] at ho
      split at ho
      · cases ho
      · cases ho2 : calcVals others r with
        | error e => simp [ho2] at ho
        | ok ovs => simp [ho2, pure, Except.pure] at ho

/-- **calc with role identifier keeps keys unique**: the new identifiers extend the key. -/
theorem calcRole_keys_unique (idItems others : List (String × SExpr)) (x res : DS) (w : x.WF)
    (h : calcRole idItems others x = .ok res) : res.WF := calcRole_WF idItems others x res w h

/-- a single `identifier` item: the new identifier holds the (non-null) value of the expression on the operand datapoint. -/
theorem calcRole_identifier_value (name : String) (e : SExpr) (x res : DS) (h : calcRole [(name, e)] [] x = .ok res)
    (r' : Row) (hr' : r' ∈ res.rows) :
    name ∈ res.ids ∧ ∃ r ∈ x.rows, ∃ v, evalS r .null .null e = .ok v ∧ v.isNull = false ∧ r'.get name = v ∧
      ∀ n ∈ x.ids, r'.get n = r.get n := by
  have hs := calcRole_struct _ _ x res h
  obtain ⟨hnid, hnd, _⟩ := calcRole_ok _ _ x res h
  obtain ⟨r, hr, ivs, ovs, hi, hnn, ho, rfl⟩ := (calcRole_rows _ _ x res h r').1 hr'
  refine ⟨by rw [hs.1]; simp, r, hr, ?_⟩
  cases hv : evalS r .null .null e with
  | error er => simp [calcVals, hv, Except.map, bind, Except.bind] at hi
  | ok v =>
    simp [calcVals, hv, Except.map, bind, Except.bind, pure, Except.pure] at hi ho
    subst hi; subst ho
    have hname : name ∉ x.ids := hnid name (by simp [calcRoleNames])
    have hkept : name ∉ calcRoleKept [(name, e)] [] x := by simp [calcRoleKept, calcRoleNames, List.mem_filter]
    refine ⟨v, rfl, hnn (name, v) (by simp), ?_, ?_⟩
    · rw [get_proj_append_not_mem r _ _ name (by simp [hname, hkept])]
      simp [Row.get]
    · intro n hn
      exact get_proj_append r _ _ n (List.mem_append_left _ hn)

/-- frame condition: a component the clause does not name keeps its value. -/
theorem calcRole_frame (keep : List String) (idItems others : List (String × SExpr)) (r r' : Row) (n : String)
    (h : calcRoleRow keep idItems others r = .ok (some r')) (hn : n ∈ keep) : r'.get n = r.get n := by
  obtain ⟨ivs, ovs, _, _, _, rfl⟩ := (calcRoleRow_some keep idItems others r r').1 h
  exact get_proj_append r keep _ n hn

/-- identifiers are not nullable: one datapoint on which an `identifier` item evaluates to null fails the clause. -/
theorem calcRole_null_identifier_rejected (idItems others : List (String × SExpr)) (x : DS) (r : Row) (hr : r ∈ x.rows)
    (ivs : List (String × Value)) (hi : calcVals idItems r = .ok ivs) (p : String × Value) (hp : p ∈ ivs)
    (hnull : p.2.isNull = true) : ∃ e, calcRole idItems others x = .error e := by
  unfold calcRole
  split
  · exact ⟨_, rfl⟩
  · have hrow : ∃ e, calcRoleRow (x.ids ++ calcRoleKept idItems others x) idItems others r = .error e := by
      unfold calcRoleRow
      have : ivs.any (fun p => p.2.isNull) = true := List.any_eq_true.2 ⟨p, hp, hnull⟩
      simp [hi, bind, Except.bind, this]
    obtain ⟨e, he⟩ := hrow
    obtain ⟨e', he'⟩ := (mapRows_error_iff _ x.rows).2 ⟨r, hr, e, he⟩
    exact ⟨e', by simp [he', bind, Except.bind]⟩

/-- no item, whatever its role, may overwrite an identifier. -/
theorem calcRole_identifier_protected (idItems others : List (String × SExpr)) (x : DS) (n : String)
    (hn : n ∈ calcRoleNames idItems others) (hid : n ∈ x.ids) : calcRole idItems others x = .error .type := by
  unfold calcRole
  have : (calcRoleNames idItems others).any x.ids.contains = true :=
    List.any_eq_true.2 ⟨n, hn, by simpa using hid⟩
  simp [this]

/-! ## the aggr clause -/

/-- **the aggr clause equals the aggregation operator on the same grouping**: `DS[aggr Me_1 := op(Me_1), …, Me_n := op(Me_n)
grouping having]` is `op(DS grouping having)`, for every operator but `count` (whose dataset form yields the single
measure `int_var`) on a dataset the operator form accepts. -/
theorem aggrClause_eq_operator (g : Grouping) (op : AggOp) (having : Option (List AggItem × SExpr)) (x : DS)
    (hop : op ≠ .count) (hm : (x.meas.isEmpty && op != .min && op != .max) = false) :
    aggrClause g (eachItems op x) having x = aggr { grouping := g, items := .each op, having := having } x := by
  unfold aggrClause aggr
  cases hg : groupIds g x with
  | error e => rfl
  | ok gids =>
    simp only [bind, Except.bind]
    have : itemsFor (.each op) x gids = .ok (eachItems op x) := by
      cases op <;> simp_all [itemsFor, eachItems]
    rw [this]
    rfl

theorem aggrClause_struct (g : Grouping) (items : List AggItem) (having : Option (List AggItem × SExpr)) (x res : DS)
    (h : aggrClause g items having x = .ok res) :
    groupIds g x = .ok res.ids ∧ res.meas = items.map (·.out) ∧ res.keys.Nodup := by
  have hn := C03.groups_nodup _ x res h
  obtain ⟨gids, its, rows, hg, hi, _, _, _, rfl⟩ := aggr_ok _ x res h
  simp only [itemsFor] at hi
  injection hi with hi
  subst hi
  exact ⟨hg, rfl, hn⟩

/-! ## the compositional theorems extend -/

/-- `C10.evalD_WF` extends to expressions that contain unpivot, pivot, calc with roles and the aggr clause. -/
theorem clauseExt_ExtWF (d : DExpr) (h : C10.ExtWF d) (atts : List String) (idn mn : String)
    (idItems others : List (String × SExpr)) (g : Grouping) (items : List AggItem) (having : Option (List AggItem × SExpr)) :
    C10.ExtWF (.app1 (unpivot atts idn mn) d) ∧ C10.ExtWF (.app1 (pivot idn mn) d) ∧
    C10.ExtWF (.app1 (calcRole idItems others) d) ∧ C10.ExtWF (.app1 (aggrClause g items having) d) :=
  ⟨⟨h, fun x r hx hr => unpivot_WF atts idn mn x r hx hr⟩, ⟨h, fun x r hx hr => pivot_WF idn mn x r hx hr⟩,
   ⟨h, fun x r hx hr => calcRole_WF idItems others x r hx hr⟩, ⟨h, fun x r hx hr => C03.aggr_WF _ x r hx hr⟩⟩

/-- `C33.evalD_perm` extends likewise: permuting the operand's datapoints permutes the result's datapoints (pivot: the
measure list is sorted, so even the structure is independent of the order). -/
theorem clauseExt_ExtPerm (d : DExpr) (h : C33.ExtPerm d) (atts : List String) (idn mn : String)
    (idItems others : List (String × SExpr)) (g : Grouping) (items : List AggItem) (having : Option (List AggItem × SExpr)) :
    C33.ExtPerm (.app1 (unpivot atts idn mn) d) ∧ C33.ExtPerm (.app1 (pivot idn mn) d) ∧
    C33.ExtPerm (.app1 (calcRole idItems others) d) ∧ C33.ExtPerm (.app1 (aggrClause g items having) d) :=
  ⟨⟨h, fun x y hx hxy => unpivot_perm atts idn mn x y hx hxy⟩, ⟨h, fun x y hx hxy => pivot_perm idn mn x y hx hxy⟩,
   ⟨h, fun x y hx hxy => calcRole_perm idItems others x y hx hxy⟩, ⟨h, fun x y hx hxy => C03.aggr_perm _ x y hx hxy⟩⟩

/-! ## Non-vacuity: the Reference Manual examples -/

def prow (i : Int) (k : String) (m : Int) (a : String) : Row := [("Id_1", .int i), ("Id_2", .str k), ("Me_1", .int m), ("At_1", .str a)]
/-- Reference Manual, `pivot` (RM172): input with an attribute -/
def rm172 : DS := ⟨["Id_1", "Id_2"], ["Me_1", "At_1"],
  [prow 1 "A" 5 "E", prow 1 "B" 2 "F", prow 1 "C" 7 "F", prow 2 "A" 3 "E", prow 2 "B" 4 "E", prow 2 "C" 9 "F"]⟩
def wrow (i a b c : Int) : Row := [("Id_1", .int i), ("A", .int a), ("B", .int b), ("C", .int c)]
def rm173 : DS := ⟨["Id_1"], ["A", "B", "C"], [wrow 1 5 2 7, wrow 2 3 4 9]⟩

example : pivot "Id_2" "Me_1" rm172 = .ok rm173 := by decide +kernel
example : (unpivot [] "Id_2" "Me_1" rm173).map (fun d => (d.ids, d.meas, d.rows.length)) = .ok (["Id_1", "Id_2"], ["Me_1"], 6) := by
  decide +kernel
/-- a null measure value yields no datapoint; an attribute is left behind -/
example : unpivot ["C"] "Id_2" "Me_1" ⟨["Id_1"], ["A", "B", "C"], [[("Id_1", .int 1), ("A", .int 5), ("B", .null), ("C", .int 7)]]⟩
    = .ok ⟨["Id_1", "Id_2"], ["Me_1"], [[("Id_1", .int 1), ("Id_2", .str "A"), ("Me_1", .int 5)]]⟩ := by decide +kernel
/-- calc identifier: a null value is refused, a non-null one extends the key -/
example : calcRole [("Id_3", .col "B")] [] ⟨["Id_1"], ["B"], [[("Id_1", .int 1), ("B", .null)]]⟩ = .error .type := by decide +kernel
example : calcRole [("Id_3", .col "B")] [("At_1", .const (.int 0))] ⟨["Id_1"], ["B"], [[("Id_1", .int 1), ("B", .int 4)]]⟩
    = .ok ⟨["Id_1", "Id_3"], ["B", "At_1"], [[("Id_1", .int 1), ("B", .int 4), ("Id_3", .int 4), ("At_1", .int 0)]]⟩ := by decide +kernel

end VtlModel.C02

import VtlModel.Sem.Wf
/-! # C10 — results conform to the predicted structure (model part)

Proved here for the modelled operator subset, for every expression (any nesting depth) and every
input: **identifiers stay unique per datapoint** (`evalD_WF`), by induction over the expression.
The implementation side of C10 (names, roles, types, nullability, column order of what `run()`
returns vs what `semantic_analysis()` predicts; key uniqueness and non-null identifiers of every
returned dataset) is decided by the conformance monitor in `harness/checks/c10.py`. -/
namespace VtlModel.C10
open VtlModel.Sem List

theorem bind_ok {α β : Type} (a : R α) (f : α → R β) (r : β) :
    (a >>= f) = .ok r ↔ ∃ x, a = .ok x ∧ f x = .ok r := by
  cases a <;> simp [bind, Except.bind]

/-- the extension operators occurring in an expression preserve key uniqueness. -/
def ExtWF : DExpr → Prop
  | .ds _ => True
  | .mapm d _ _ => ExtWF d
  | .zip a b _ _ => ExtWF a ∧ ExtWF b
  | .filter d _ => ExtWF d
  | .calc d _ => ExtWF d
  | .keep d _ => ExtWF d
  | .drop d _ => ExtWF d
  | .rename d _ => ExtWF d
  | .sub d _ => ExtWF d
  | .union a b => ExtWF a ∧ ExtWF b
  | .intersect a b => ExtWF a ∧ ExtWF b
  | .setdiff a b => ExtWF a ∧ ExtWF b
  | .symdiff a b => ExtWF a ∧ ExtWF b
  | .app1 f d => ExtWF d ∧ ∀ x r, x.WF → f x = .ok r → r.WF
  | .app2 f a b => ExtWF a ∧ ExtWF b ∧ ∀ x y r, x.WF → y.WF → f x y = .ok r → r.WF
  | .app3 f a b c => ExtWF a ∧ ExtWF b ∧ ExtWF c ∧ ∀ x y z r, x.WF → y.WF → z.WF → f x y z = .ok r → r.WF

/-- all inputs have unique identifier keys. -/
def EnvWF (env : Env) : Prop := ∀ n d, env.lookup n = some d → d.WF

theorem keys_proj_eq (rows : List Row) (ids comps : List String) (h : ∀ i ∈ ids, i ∈ comps) :
    (rows.map (·.proj comps)).map (·.key ids) = rows.map (·.key ids) := by
  rw [List.map_map]
  apply List.map_congr_left
  intro r _
  exact key_proj r comps ids h

/-- **Key uniqueness is an invariant of evaluation**: for every expression of the modelled subset,
any nesting depth, any inputs with unique keys, every successfully computed dataset has one datapoint
per identifier key. -/
theorem evalD_WF (env : Env) (henv : EnvWF env) : ∀ (e : DExpr) (res : DS),
    ExtWF e → evalD env e = .ok res → res.WF := by
  intro e
  induction e with
  | ds n =>
    intro res _ h
    simp only [evalD] at h
    cases hl : env.lookup n with
    | none => simp [hl] at h
    | some d => simp [hl] at h; subst h; exact henv n d hl
  | mapm d body out ih =>
    intro res he h
    simp only [evalD] at h
    obtain ⟨x, hx, h⟩ := (bind_ok _ _ _).1 h
    obtain ⟨rows, hr, h⟩ := (bind_ok _ _ _).1 h
    simp only [pure, Except.pure, Except.ok.injEq] at h
    subst h
    exact mapRows_WF _ x.ids x.ids x.rows rows hr (fun r r' _ hf => mapmRow_key x body out r r' hf) (ih x he hx)
  | zip a b body out iha ihb =>
    intro res he h
    simp only [evalD] at h
    obtain ⟨x, hx, h⟩ := (bind_ok _ _ _).1 h
    obtain ⟨y, hy, h⟩ := (bind_ok _ _ _).1 h
    split at h
    · obtain ⟨rows, hr, h⟩ := (bind_ok _ _ _).1 h
      simp only [pure, Except.pure, Except.ok.injEq] at h
      subst h
      exact mapRows_WF _ x.ids x.ids x.rows rows hr (fun r r' _ hf => zipRow_key x y true _ body out r r' hf) (iha x he.1 hx)
    · split at h
      · obtain ⟨rows, hr, h⟩ := (bind_ok _ _ _).1 h
        simp only [pure, Except.pure, Except.ok.injEq] at h
        subst h
        exact mapRows_WF _ y.ids y.ids y.rows rows hr (fun r r' _ hf => zipRow_key y x false _ body out r r' hf) (ihb y he.2 hy)
      · cases h
  | filter d c ih =>
    intro res he h
    simp only [evalD] at h
    obtain ⟨x, hx, h⟩ := (bind_ok _ _ _).1 h
    obtain ⟨rows, hr, h⟩ := (bind_ok _ _ _).1 h
    simp only [pure, Except.pure, Except.ok.injEq] at h
    subst h
    exact mapRows_WF _ x.ids x.ids x.rows rows hr (fun r r' _ hf => by rw [filterRow_eq c r r' hf]) (ih x he hx)
  | «calc» d items ih =>
    intro res he h
    simp only [evalD] at h
    obtain ⟨x, hx, h⟩ := (bind_ok _ _ _).1 h
    split at h
    · cases h
    · obtain ⟨rows, hr, h⟩ := (bind_ok _ _ _).1 h
      simp only [pure, Except.pure, Except.ok.injEq] at h
      subst h
      exact mapRows_WF _ x.ids x.ids x.rows rows hr
        (fun r r' _ hf => calcRow_key x.ids _ items r r' (fun i hi => List.mem_append_left _ hi) hf) (ih x he hx)
  | keep d ns ih =>
    intro res he h
    simp only [evalD] at h
    obtain ⟨x, hx, h⟩ := (bind_ok _ _ _).1 h
    simp only [pure, Except.pure, Except.ok.injEq] at h
    subst h
    show ((x.rows.map _).map _).Nodup
    rw [keys_proj_eq x.rows x.ids _ (fun i hi => List.mem_append_left _ hi)]
    exact ih x he hx
  | drop d ns ih =>
    intro res he h
    simp only [evalD] at h
    obtain ⟨x, hx, h⟩ := (bind_ok _ _ _).1 h
    simp only [pure, Except.pure, Except.ok.injEq] at h
    subst h
    show ((x.rows.map _).map _).Nodup
    rw [keys_proj_eq x.rows x.ids _ (fun i hi => List.mem_append_left _ hi)]
    exact ih x he hx
  | rename d m ih =>
    intro res he h
    simp only [evalD] at h
    obtain ⟨x, hx, h⟩ := (bind_ok _ _ _).1 h
    split at h
    · cases h
    · rename_i hn
      simp only [pure, Except.pure, Except.ok.injEq] at h
      subst h
      have hn' : (x.comps.map (renameOf m)).Nodup := by simpa using hn
      show ((x.rows.map _).map _).Nodup
      rw [List.map_map]
      have : (x.rows.map ((fun r => Row.key r (x.ids.map (renameOf m))) ∘
                (fun r => x.comps.map (fun n => (renameOf m n, r.get n))))) = x.rows.map (·.key x.ids) := by
        apply List.map_congr_left
        intro r _
        exact rename_key m x r hn'
      rw [this]
      exact ih x he hx
  | sub d fix ih =>
    intro res he h
    simp only [evalD] at h
    obtain ⟨x, hx, h⟩ := (bind_ok _ _ _).1 h
    split at h
    · cases h
    · simp only [pure, Except.pure, Except.ok.injEq] at h
      subst h
      show ((((x.rows.filter (subMatch fix)).map _)).map _).Nodup
      rw [keys_proj_eq _ _ _ (fun i hi => List.mem_append_left _ hi)]
      have hx' : ((x.rows.filter (subMatch fix)).map (·.key x.ids)).Nodup :=
        (List.filter_sublist.map _).nodup (ih x he hx)
      refine nodup_map_of_nodup_map (·.key x.ids) _ _ hx' ?_
      intro a ha b hb hk
      exact sub_key_inj x.ids fix a b (List.mem_filter.1 ha).2 (List.mem_filter.1 hb).2 hk
  | union a b iha ihb =>
    intro res he h
    simp only [evalD] at h
    obtain ⟨x, hx, h⟩ := (bind_ok _ _ _).1 h
    obtain ⟨y, hy, h⟩ := (bind_ok _ _ _).1 h
    split at h
    · cases h
    · rename_i hid
      simp only [pure, Except.pure, Except.ok.injEq] at h
      subst h
      have hid' : y.ids = x.ids := by simpa using hid
      have hyk : (y.rows.map (·.key x.ids)).Nodup := by
        have := ihb y he.2 hy
        unfold DS.WF DS.keys at this
        rw [hid'] at this
        exact this
      show ((x.rows ++ (List.filter (fun r => !keyIn x.ids x.keys r) y.rows).map (fun r => r.proj x.comps)).map
              (fun r => r.key x.ids)).Nodup
      rw [List.map_append, keys_proj_eq (List.filter (fun r => !keyIn x.ids x.keys r) y.rows) x.ids x.comps
            (fun i hi => List.mem_append_left x.meas hi)]
      refine List.nodup_append.2 ⟨iha x he.1 hx, (List.filter_sublist.map _).nodup hyk, ?_⟩
      intro k hk1 k' hk2 hkk
      subst hkk
      obtain ⟨r0, hr0, rfl⟩ := List.mem_map.1 hk2
      have h2 := (List.mem_filter.1 hr0).2
      have : keyIn x.ids x.keys r0 = true := by
        unfold keyIn; simp only [List.contains_iff_mem]; exact hk1
      simp [this] at h2
  | intersect a b iha ihb =>
    intro res he h
    simp only [evalD] at h
    obtain ⟨x, hx, h⟩ := (bind_ok _ _ _).1 h
    obtain ⟨y, hy, h⟩ := (bind_ok _ _ _).1 h
    simp only [pure, Except.pure, Except.ok.injEq] at h
    subst h
    exact (List.filter_sublist.map _).nodup (iha x he.1 hx)
  | setdiff a b iha ihb =>
    intro res he h
    simp only [evalD] at h
    obtain ⟨x, hx, h⟩ := (bind_ok _ _ _).1 h
    obtain ⟨y, hy, h⟩ := (bind_ok _ _ _).1 h
    simp only [pure, Except.pure, Except.ok.injEq] at h
    subst h
    exact (List.filter_sublist.map _).nodup (iha x he.1 hx)
  | symdiff a b iha ihb =>
    intro res he h
    simp only [evalD] at h
    obtain ⟨x, hx, h⟩ := (bind_ok _ _ _).1 h
    obtain ⟨y, hy, h⟩ := (bind_ok _ _ _).1 h
    split at h
    · cases h
    · rename_i hid
      simp only [pure, Except.pure, Except.ok.injEq] at h
      subst h
      have hid' : y.ids = x.ids := by simpa using hid
      have hyk : (y.rows.map (·.key x.ids)).Nodup := by
        have := ihb y he.2 hy
        unfold DS.WF DS.keys at this
        rw [hid'] at this
        exact this
      show ((List.filter (fun r => !keyIn x.ids (y.rows.map (fun r => r.key x.ids)) r) x.rows ++
              (List.filter (fun r => !keyIn x.ids x.keys r) y.rows).map (fun r => r.proj x.comps)).map
              (fun r => r.key x.ids)).Nodup
      rw [List.map_append, keys_proj_eq (List.filter (fun r => !keyIn x.ids x.keys r) y.rows) x.ids x.comps
            (fun i hi => List.mem_append_left x.meas hi)]
      refine List.nodup_append.2 ⟨(List.filter_sublist.map _).nodup (iha x he.1 hx),
        (List.filter_sublist.map _).nodup hyk, ?_⟩
      intro k hk1 k' hk2 hkk
      subst hkk
      obtain ⟨r1, hr1, rfl⟩ := List.mem_map.1 hk1
      obtain ⟨r0, hr0, hk0⟩ := List.mem_map.1 hk2
      have h2 := (List.mem_filter.1 hr0).2
      have hin : r0.key x.ids ∈ x.keys := by
        rw [hk0]; exact List.mem_map.2 ⟨r1, (List.mem_filter.1 hr1).1, rfl⟩
      have : keyIn x.ids x.keys r0 = true := by
        unfold keyIn; simp only [List.contains_iff_mem]; exact hin
      simp [this] at h2
  | app1 f d ih =>
    intro res he h
    simp only [evalD] at h
    obtain ⟨x, hx, h⟩ := (bind_ok _ _ _).1 h
    exact he.2 x res (ih x he.1 hx) h
  | app2 f a b iha ihb =>
    intro res he h
    simp only [evalD] at h
    obtain ⟨x, hx, h⟩ := (bind_ok _ _ _).1 h
    obtain ⟨y, hy, h⟩ := (bind_ok _ _ _).1 h
    exact he.2.2 x y res (iha x he.1 hx) (ihb y he.2.1 hy) h
  | app3 f a b c iha ihb ihc =>
    intro res he h
    simp only [evalD] at h
    obtain ⟨x, hx, h⟩ := (bind_ok _ _ _).1 h
    obtain ⟨y, hy, h⟩ := (bind_ok _ _ _).1 h
    obtain ⟨z, hz, h⟩ := (bind_ok _ _ _).1 h
    exact he.2.2.2 x y z res (iha x he.1 hx) (ihb y he.2.1 hy) (ihc z he.2.2.1 hz) h

/-- without unique keys the matching of dataset operands is ambiguous: non-vacuity of the hypothesis
and an example of what it excludes. -/
def row (i : Int) (m : Int) : Row := [("Id_1", Value.int i), ("Me_1", Value.int m)]
def good : DS := DS.mk ["Id_1"] ["Me_1"] [row 1 10, row 2 20]
def dup : DS := DS.mk ["Id_1"] ["Me_1"] [row 1 10, row 1 20]
example : good.WF := by unfold DS.WF; decide
example : ¬ dup.WF := by unfold DS.WF; decide
example : EnvWF [("A", good)] := by
  intro n d h
  simp only [List.lookup_cons] at h
  split at h
  · cases h; unfold DS.WF; decide
  · cases h

end VtlModel.C10

/-
  VtlModel.Types.Spec — the DOCUMENTED rules (oracle side) for C11 / C09, stated over the tables that
  `harness/translate/docs_tables.py` regenerates from docs/data_types.rst (`VtlModel.Gen.DocTables`), and the
  operator signatures of the VTL reference manual (hand-written table `opSpec`, the only place where the
  operand / result type of an operator is documented — the repository's docs have no operator pages).

  Nothing here looks at the code tables; the theorems in Props/C11.lean and Props/C09.lean relate the two.
-/
import VtlModel.Gen.DocTables
import VtlModel.Gen.Operators

namespace VtlModel.Spec
open VtlModel VtlModel.Gen.DocTables VtlModel.Gen.Operators

/-- "a implicitly promotes to b" as documented: the implicit-cast table for the eight basic types, plus the
    sentence "Null is compatible with every type" (`nullRule`); nothing but Null promotes to Null. -/
def docImplicit (a b : Ty) : Bool :=
  match a, b with
  | .null, _ => nullRule
  | _, .null => false
  | a, b => implicitCell a b

/-- c is a documented common type of l and r -/
def docCommon (l r c : Ty) : Bool := docImplicit l c && docImplicit r c

/-- the operator admits type c: it has no operand type of its own, or c promotes to it -/
def admits (ttc : Option Ty) (c : Ty) : Bool :=
  match ttc with
  | none => true
  | some t => docImplicit c t

/-- documented acceptance of a binary operator with operand type `ttc` (C11: "the documented implicit promotion
    table gives them a common type admitted by the operator") -/
def docAcceptsBinary (ttc : Option Ty) (l r : Ty) : Bool :=
  Ty.all.any (fun c => docCommon l r c && admits ttc c)

def docAcceptsUnary (ttc : Option Ty) (x : Ty) : Bool :=
  Ty.all.any (fun c => docImplicit x c && admits ttc c)

/-- strict documented subtype (transitive closure is not needed: the documented hierarchy has depth 1) -/
def strictSub (a b : Ty) : Bool := subtypeOf a b

/-- A result type `res` is a documented result for operands l, r: both operands promote to it, the operator
    admits it, and it is not narrower than an operand (not a strict documented subtype of l or of r:
    "Integer is a subtype of Number", so Integer cannot be the type of a result that may hold a Number). -/
def docResultOk (ttc : Option Ty) (l r res : Ty) : Bool :=
  docCommon l r res && admits ttc res && !strictSub res l && !strictSub res r

def docResultOkUnary (ttc : Option Ty) (x res : Ty) : Bool :=
  docImplicit x res && admits ttc res && !strictSub res x

/-- the one pair of distinct types that promote to each other -/
def intNumPair (l r : Ty) : Bool :=
  (l == .integer && r == .number) || (l == .number && r == .integer)

/-! ### Commutative operators (decision recorded here, see harness/checks/c11.py `COMMUTATIVE`):
    Binary operator classes whose `op` token is one of `+ * = <> and or xor`, and the set operators
    `union`, `intersect`, `symdiff` (classes Union / Intersection / Symdiff, whose promotion is the direct call in
    `Set.validate` / `Set.check_same_structure`).  `-  /  mod  power  log  ||  >  <  nvl  setdiff …` are not. -/
def commutativeOps : List String := ["+", "*", "=", "<>", "and", "or", "xor"]
def commutativeSetClasses : List Cls := [.Set_Union, .Set_Intersection, .Set_Symdiff]

/-- indices (into `Gen.Operators.ops`) of the commutative tokens -/
def commOpIxs : List Nat := (List.range ops.length).filter (fun i => commutativeOps.contains (ops.getD i ""))

def commClasses : List OpClass := classes.filter (fun c => c.kind == 2 && commOpIxs.contains c.opIx)
def commSites : List Site :=
  sites.filter (fun s => s.fn == 0 && (match s.cls with | some c => commutativeSetClasses.contains c | none => false))

/-- VTL reference-manual signature of an operator class: operand type the operator requires (`none` = any scalar
    type, operands only have to agree) and declared result type (`none` = the promoted operand type). -/
structure OpSig where
  cls : Cls
  ttc : Option Ty
  rt : Option Ty

def opSpec : List OpSig := [
  -- numeric
  ⟨.Numeric_BinPlus, some .number, none⟩, ⟨.Numeric_BinMinus, some .number, none⟩,
  ⟨.Numeric_Mult, some .number, none⟩, ⟨.Numeric_Div, some .number, some .number⟩,
  ⟨.Numeric_Modulo, some .number, none⟩, ⟨.Numeric_Power, some .number, some .number⟩,
  ⟨.Numeric_Logarithm, some .number, some .number⟩,
  ⟨.Numeric_UnPlus, some .number, none⟩, ⟨.Numeric_UnMinus, some .number, none⟩,
  ⟨.Numeric_AbsoluteValue, some .number, none⟩, ⟨.Numeric_Exponential, some .number, some .number⟩,
  ⟨.Numeric_NaturalLogarithm, some .number, some .number⟩, ⟨.Numeric_SquareRoot, some .number, some .number⟩,
  ⟨.Numeric_Ceil, some .number, some .integer⟩, ⟨.Numeric_Floor, some .number, some .integer⟩,
  -- string
  ⟨.String_Concatenate, some .string, some .string⟩,
  ⟨.String_Upper, some .string, some .string⟩, ⟨.String_Lower, some .string, some .string⟩,
  ⟨.String_Trim, some .string, some .string⟩, ⟨.String_Ltrim, some .string, some .string⟩,
  ⟨.String_Rtrim, some .string, some .string⟩, ⟨.String_Length, some .string, some .integer⟩,
  ⟨.String_Substr, some .string, some .string⟩, ⟨.String_Replace, some .string, some .string⟩,
  ⟨.String_Instr, some .string, some .integer⟩,
  -- boolean
  ⟨.Boolean_And, some .boolean, some .boolean⟩, ⟨.Boolean_Or, some .boolean, some .boolean⟩,
  ⟨.Boolean_Xor, some .boolean, some .boolean⟩, ⟨.Boolean_Not, some .boolean, some .boolean⟩,
  -- comparison
  ⟨.Comparison_Equal, none, some .boolean⟩, ⟨.Comparison_NotEqual, none, some .boolean⟩,
  ⟨.Comparison_Greater, none, some .boolean⟩, ⟨.Comparison_GreaterEqual, none, some .boolean⟩,
  ⟨.Comparison_Less, none, some .boolean⟩, ⟨.Comparison_LessEqual, none, some .boolean⟩,
  ⟨.Comparison_In, none, some .boolean⟩, ⟨.Comparison_NotIn, none, some .boolean⟩,
  ⟨.Comparison_IsNull, none, some .boolean⟩, ⟨.Comparison_Match, some .string, some .boolean⟩,
  -- aggregate / analytic
  ⟨.Aggregation_Sum, some .number, none⟩, ⟨.Aggregation_Avg, some .number, some .number⟩,
  ⟨.Aggregation_Count, none, some .integer⟩, ⟨.Aggregation_Min, none, none⟩, ⟨.Aggregation_Max, none, none⟩,
  ⟨.Aggregation_Median, some .number, some .number⟩,
  ⟨.Analytic_Avg, some .number, some .number⟩, ⟨.Analytic_Count, none, some .integer⟩,
  ⟨.Analytic_Rank, none, some .integer⟩, ⟨.Analytic_Min, none, none⟩, ⟨.Analytic_Max, none, none⟩,
  ⟨.Analytic_FirstValue, none, none⟩, ⟨.Analytic_LastValue, none, none⟩,
  ⟨.Analytic_Lag, none, none⟩, ⟨.Analytic_Lead, none, none⟩,
  ⟨.Analytic_RatioToReport, some .number, some .number⟩,
  -- time
  ⟨.Time_Date_Diff, some .time, some .integer⟩, ⟨.Time_Year, none, some .integer⟩,
  ⟨.Time_Month, none, some .integer⟩, ⟨.Time_Day_of_Month, none, some .integer⟩,
  ⟨.Time_Day_of_Year, none, some .integer⟩
]

def sigHolds (s : OpSig) : Bool :=
  classes.any (fun c => c.id == s.cls && c.ttc == s.ttc && c.rt == s.rt)

end VtlModel.Spec

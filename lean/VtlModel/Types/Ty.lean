/-
  VtlModel.Types.Ty — the nine scalar types of vtlengine (`vtlengine.DataTypes.SCALAR_TYPES`) and finite
  sets of them.  Hand-written, import-free.  The generated tables (`VtlModel/Gen/*.lean`) and the four
  transcribed promotion functions are stated over this vocabulary.

  The constructor order is the interning used by the translators and the line protocol
  (`Ty.toNat` / `Ty.ofNat?`): the translator checks on every run that the live `SCALAR_TYPES` has exactly
  these nine entries (otherwise ShapeError).
-/
namespace VtlModel

inductive Ty where
  | string | number | integer | time | date | timePeriod | duration | boolean | null
  deriving DecidableEq, Repr, Inhabited

namespace Ty

def all : List Ty := [string, number, integer, time, date, timePeriod, duration, boolean, null]

/-- The eight types that have a row in the documented tables (everything but `Null`). -/
def basic : List Ty := [string, number, integer, time, date, timePeriod, duration, boolean]

theorem mem_all (t : Ty) : t ∈ all := by cases t <;> simp [all]

def toNat : Ty → Nat
  | string => 0 | number => 1 | integer => 2 | time => 3 | date => 4
  | timePeriod => 5 | duration => 6 | boolean => 7 | null => 8

def ofNat? : Nat → Option Ty
  | 0 => some string | 1 => some number | 2 => some integer | 3 => some time | 4 => some date
  | 5 => some timePeriod | 6 => some duration | 7 => some boolean | 8 => some null | _ => none

theorem ofNat_toNat (t : Ty) : ofNat? t.toNat = some t := by cases t <;> rfl

/-- User-facing name (keys of `SCALAR_TYPES`, column heads of the documented tables). -/
def name : Ty → String
  | string => "String" | number => "Number" | integer => "Integer" | time => "Time" | date => "Date"
  | timePeriod => "Time_Period" | duration => "Duration" | boolean => "Boolean" | null => "Null"

/-- `∀ t : Ty, P t` is decidable by enumeration (used by `decide +kernel` in the Props files). -/
instance decForall (P : Ty → Prop) [DecidablePred P] : Decidable (∀ t, P t) :=
  decidable_of_iff (∀ t ∈ all, P t) ⟨fun h t => h t (mem_all t), fun h t _ => h t⟩

instance decExists (P : Ty → Prop) [DecidablePred P] : Decidable (∃ t, P t) :=
  decidable_of_iff (∃ t ∈ all, P t) ⟨fun ⟨t, _, h⟩ => ⟨t, h⟩, fun ⟨t, h⟩ => ⟨t, mem_all t, h⟩⟩

end Ty

/-- All values of `Option Ty` (an operator attribute `type_to_check` / `return_type` is a type or `None`). -/
def optTyAll : List (Option Ty) := none :: Ty.all.map some

theorem mem_optTyAll (o : Option Ty) : o ∈ optTyAll := by
  cases o with
  | none => simp [optTyAll]
  | some t => cases t <;> simp [optTyAll, Ty.all]

instance decForallOptTy (P : Option Ty → Prop) [DecidablePred P] : Decidable (∀ o, P o) :=
  decidable_of_iff (∀ o ∈ optTyAll, P o) ⟨fun h o => h o (mem_optTyAll o), fun h o _ => h o⟩

/-- Finite sets of types: lists (the generated tables list members in `Ty.all` order, without repeats;
    the operations below never depend on order except `TySet.discard`/`inter`, which preserve it). -/
abbrev TySet := List Ty

namespace TySet
/-- Python `x in s` (the metaclass hashes by identity, so membership is identity of the class). -/
def mem (x : Ty) (s : TySet) : Bool := s.contains x
/-- Python `a.intersection(b)`. -/
def inter (a b : TySet) : TySet := a.filter (fun x => b.contains x)
/-- Python `s.discard(x)` (as a rebinding of `s`). -/
def discard (s : TySet) (x : Ty) : TySet := s.filter (fun y => y != x)
/-- Python `bool(s)`. -/
def truthy (s : TySet) : Bool := !s.isEmpty
/-- Python `len(s)`. -/
def len (s : TySet) : Nat := s.length
end TySet

/-- Outcome of a transcribed Python function: a value or the `code` of the raised VTL exception
    (`"1-1-1-2"` is represented as `[1, 1, 1, 2]`). -/
abbrev PyRes (α : Type) := Except (List Nat) α

def codeString (c : List Nat) : String := "-".intercalate (c.map toString)

instance instDecEqExcept {ε α} [DecidableEq ε] [DecidableEq α] : DecidableEq (Except ε α)
  | .ok a, .ok b => if h : a = b then isTrue (by rw [h]) else isFalse (fun h' => h (by cases h'; rfl))
  | .error a, .error b => if h : a = b then isTrue (by rw [h]) else isFalse (fun h' => h (by cases h'; rfl))
  | .ok _, .error _ => isFalse (fun h => by cases h)
  | .error _, .ok _ => isFalse (fun h => by cases h)

def PyRes.isOk {α} : PyRes α → Bool
  | .ok _ => true
  | .error _ => false

def PyRes.toOption {α} : PyRes α → Option α
  | .ok a => some a
  | .error _ => none

end VtlModel

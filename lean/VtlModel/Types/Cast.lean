/-
  VtlModel.Types.Cast — value-level model of the DOCUMENTED `cast` (docs/data_types.rst, "Type Casting"):
  `castSpec src tgt v` = what the documentation says the conversion of value `v` from type `src` to type `tgt`
  gives: a value, a semantic error (the pair is not in the documented tables), a run-time error (the value cannot
  be converted), or `unmodelled` (the documentation is silent or the case is outside this small model; the
  harness then only compares the three levels scalar / component / dataset with each other).

  Numbers are exact decimals `dec m e` = m / 10^e (no Float).  Time values are strings in the engine's default
  ("vtl") representation.  Adopted where the docs are silent: Number -> Integer truncates toward zero (VTL 2.2).
-/
import VtlModel.Types.Spec

namespace VtlModel.Cast
open VtlModel VtlModel.Gen.DocTables VtlModel.Spec

inductive Val where
  | null
  | int (i : Int)
  | dec (m : Int) (e : Nat)
  | str (s : String)
  | bool (b : Bool)
  deriving DecidableEq, Repr

inductive Res where
  | ok (v : Val)
  | semErr
  | runErr
  | unmodelled
  deriving DecidableEq, Repr

/-- documented acceptance of `cast(src -> tgt)` without mask: a ✓ in the explicit table or in the implicit one
    (an implicit promotion needs no explicit support; adopted reading, see DESIGN C09) -/
def docAllowed (s t : Ty) : Bool := explicitCell s t || docImplicit s t

/-! ### small parsers over `List Char` -/
def isDigit (c : Char) : Bool := '0' ≤ c && c ≤ '9'
def digitVal (c : Char) : Nat := c.toNat - '0'.toNat

def natOfDigits : List Char → Nat → Nat
  | [], acc => acc
  | c :: cs, acc => natOfDigits cs (acc * 10 + digitVal c)

def parseNat (cs : List Char) : Option Nat :=
  if cs.isEmpty || !cs.all isDigit then none else some (natOfDigits cs 0)

def splitSign : List Char → Bool × List Char
  | '-' :: cs => (true, cs)
  | '+' :: cs => (false, cs)
  | cs => (false, cs)

def parseInt (cs : List Char) : Option Int :=
  let (neg, r) := splitSign cs
  (parseNat r).map (fun n => if neg then -(n : Int) else (n : Int))

/-- `[+-]?digits(.digits*)?` or `[+-]?.digits+`  ->  (mantissa, scale) -/
def parseDec (cs : List Char) : Option (Int × Nat) :=
  let (neg, r) := splitSign cs
  let ip := r.takeWhile isDigit
  let rest := r.dropWhile isDigit
  let mk (ds : List Char) (e : Nat) : Option (Int × Nat) :=
    (parseNat ds).map (fun n => ((if neg then -(n : Int) else (n : Int)), e))
  match rest with
  | [] => mk ip 0
  | '.' :: fp => if !fp.all isDigit || (ip.isEmpty && fp.isEmpty) then none else mk (ip ++ fp) fp.length
  | _ => none

/-- only characters of plain decimal literals: such a string is decided by `parseInt` / `parseDec` alone -/
def plainNumeric (cs : List Char) : Bool := cs.all (fun c => isDigit c || c == '.' || c == '+' || c == '-')
/-- letters only (no digit, no blank): certainly not a number / date / interval -/
def lettersOnly (cs : List Char) : Bool := !cs.isEmpty && cs.all Char.isAlpha

/-! ### calendar (proleptic Gregorian) -/
def isLeap (y : Nat) : Bool := (y % 4 == 0 && y % 100 != 0) || y % 400 == 0
def daysInMonth (y m : Nat) : Nat :=
  match m with
  | 1 => 31 | 2 => if isLeap y then 29 else 28 | 3 => 31 | 4 => 30 | 5 => 31 | 6 => 30
  | 7 => 31 | 8 => 31 | 9 => 30 | 10 => 31 | 11 => 30 | 12 => 31 | _ => 0
def validDate (y m d : Nat) : Bool := 1 ≤ m && m ≤ 12 && 1 ≤ d && d ≤ daysInMonth y m
def dayOfYear (y m d : Nat) : Nat := ((List.range (m - 1)).map (fun i => daysInMonth y (i + 1))).sum + d
def daysInYear (y : Nat) : Nat := if isLeap y then 366 else 365
/-- (month, day) of the n-th day of year y (n ≥ 1), by walking the months; fuel 12 -/
def dateOfDoyAux (y : Nat) : Nat → Nat → Nat → Option (Nat × Nat)
  | 0, _, _ => none
  | fuel + 1, m, n => if m > 12 then none else
      let dm := daysInMonth y m
      if n ≤ dm then some (m, n) else dateOfDoyAux y fuel (m + 1) (n - dm)
def dateOfDoy (y n : Nat) : Option (Nat × Nat) := if n == 0 then none else dateOfDoyAux y 12 1 n

def pad (w : Nat) (n : Nat) : String :=
  let s := toString n
  String.ofList (List.replicate (w - s.length) '0') ++ s
def isoDate (y m d : Nat) : String := pad 4 y ++ "-" ++ pad 2 m ++ "-" ++ pad 2 d

/-- "YYYY-MM-DD" -/
def parseDate (cs : List Char) : Option (Nat × Nat × Nat) :=
  match cs with
  | [y1, y2, y3, y4, '-', m1, m2, '-', d1, d2] =>
    match parseNat [y1, y2, y3, y4], parseNat [m1, m2], parseNat [d1, d2] with
    | some y, some m, some d => if validDate y m d then some (y, m, d) else none
    | _, _, _ => none
  | _ => none

/-- vtl representation of a period: "YYYY" | "YYYYSn" | "YYYYQn" | "YYYYMn" | "YYYYDn"  ->  (year, indicator, number) -/
def parsePeriod (cs : List Char) : Option (Nat × Char × Nat) :=
  match parseNat (cs.take 4) with
  | none => none
  | some y =>
    if cs.length < 4 then none else
    match cs.drop 4 with
    | [] => some (y, 'A', 1)
    | ind :: ds =>
      match parseNat ds with
      | none => none
      | some n =>
        let maxN := match ind with
          | 'S' => 2 | 'Q' => 4 | 'M' => 12 | 'D' => daysInYear y | _ => 0
        if 1 ≤ n && n ≤ maxN then some (y, ind, n) else none

/-- first and last day of a period, as "d1/d2" (weeks are outside this model) -/
def periodInterval (y : Nat) (ind : Char) (n : Nat) : Option String :=
  let span (m1 m2 : Nat) : Option String := some (isoDate y m1 1 ++ "/" ++ isoDate y m2 (daysInMonth y m2))
  match ind with
  | 'A' => span 1 12
  | 'S' => span (6 * (n - 1) + 1) (6 * n)
  | 'Q' => span (3 * (n - 1) + 1) (3 * n)
  | 'M' => span n n
  | 'D' => (dateOfDoy y n).map (fun (m, d) => isoDate y m d ++ "/" ++ isoDate y m d)
  | _ => none

def durations : List String := ["A", "S", "Q", "M", "W", "D"]

def pow10 (e : Nat) : Int := ((10 ^ e : Nat) : Int)

/-! ### the documented conversion -/
def castValue (src tgt : Ty) (v : Val) : Res :=
  match src, tgt, v with
  -- numbers and booleans
  | .integer, .integer, .int i => .ok (.int i)
  | .integer, .number, .int i => .ok (.dec i 0)
  | .integer, .boolean, .int i => .ok (.bool (i != 0))            -- "0 becomes false, any other value becomes true"
  | .integer, .string, .int i => .ok (.str (toString i))
  | .number, .number, .dec m e => .ok (.dec m e)
  | .number, .integer, .dec m e => .ok (.int (m.tdiv (pow10 e)))  -- adopted: truncation toward zero
  | .number, .boolean, .dec m _ => .ok (.bool (m != 0))
  | .number, .string, .dec _ _ => .unmodelled                    -- rendering of a Number is not documented
  | .boolean, .boolean, .bool b => .ok (.bool b)
  | .boolean, .integer, .bool b => .ok (.int (if b then 1 else 0))    -- "true becomes 1, false becomes 0"
  | .boolean, .number, .bool b => .ok (.dec (if b then 1 else 0) 0)
  | .boolean, .string, .bool b =>                                  -- "true becomes "True", false becomes "False""
      if boolStrRule then .ok (.str (if b then "True" else "False")) else .unmodelled
  -- strings
  | .string, .string, .str s => .ok (.str s)
  | .string, .integer, .str s =>                                    -- "Must be a valid integer string (rejects "3.5")"
      let cs := s.toList
      match parseInt cs with
      | some i => .ok (.int i)
      | none => if plainNumeric cs || lettersOnly cs || cs.isEmpty then .runErr else .unmodelled
  | .string, .number, .str s =>
      let cs := s.toList
      match parseDec cs with
      | some (m, e) => .ok (.dec m e)
      | none => if plainNumeric cs || lettersOnly cs || cs.isEmpty then .runErr else .unmodelled
  | .string, .date, .str s =>
      let cs := s.toList
      match parseDate cs with
      | some _ => .ok (.str s)
      | none => if cs.length == 10 || lettersOnly cs || plainNumeric cs then .runErr else .unmodelled
  | .string, .duration, .str s =>
      if durations.contains s then .ok (.str s)
      else if s.toList.all Char.isAlpha && s.length != 1 || plainNumeric s.toList then .runErr else .unmodelled
  | .string, .time, .str s =>
      match s.splitOn "/" with
      | [a, b] =>
        match parseDate a.toList, parseDate b.toList with
        | some _, some _ => if a ≤ b then .ok (.str s) else .runErr
        | _, _ => .unmodelled
      | _ => if lettersOnly s.toList then .runErr else .unmodelled
  | .string, .timePeriod, .str s => if lettersOnly s.toList then .runErr else .unmodelled
  -- dates, periods, intervals, durations
  | .date, .date, .str s => .ok (.str s)
  | .date, .string, .str s => .ok (.str s)
  | .date, .time, .str s =>                                         -- ""2020-01-15" becomes "2020-01-15/2020-01-15""
      match parseDate s.toList with
      | some _ => if dateTimeRule then .ok (.str (s ++ "/" ++ s)) else .unmodelled
      | none => .unmodelled
  | .date, .timePeriod, .str s =>                                   -- "Converts to daily period (… "2020D15")"
      match parseDate s.toList with
      | some (y, m, d) => .ok (.str (toString y ++ "D" ++ toString (dayOfYear y m d)))
      | none => .unmodelled
  | .timePeriod, .timePeriod, .str s => .ok (.str s)
  | .timePeriod, .string, .str s => .ok (.str s)
  | .timePeriod, .time, .str s =>                                   -- ""2020-Q1" becomes "2020-01-01/2020-03-31""
      match parsePeriod s.toList with
      | some (y, ind, n) => match periodInterval y ind n with
          | some r => .ok (.str r)
          | none => .unmodelled
      | none => .unmodelled
  | .time, .time, .str s => .ok (.str s)
  | .time, .string, .str s => .ok (.str s)
  | .duration, .duration, .str s => .ok (.str s)
  | .duration, .string, .str s => .ok (.str s)
  | _, _, _ => .unmodelled

def castSpec (src tgt : Ty) (v : Val) : Res :=
  if !docAllowed src tgt then .semErr
  else match v with
    | .null => .ok .null
    | v => castValue src tgt v

end VtlModel.Cast

def hello := "world"

/-
  C24 — token-level model of `ASTString` (render) and of the `expr` rule of `Vtl.g4` (parse).

  Fragment: constants, identifiers, the three prefix operators, the infix operators of the grammar's
  `expr` rule with their precedence levels (alternative order of `Vtl.g4`, see `Gen/ExprGrammar.lean`),
  explicit parenthesis nodes (`ParFunction`), function calls `f(a, b, …)`, membership `e#c`,
  `e in {…}` / `e not_in {…}`, clause application `e[kw a, b, …]` and the `x := e` items of `calc`.

  `parse` is the precedence-climbing parser that ANTLR's left-recursion rewrite of `expr` denotes:
      expr[p] : primary ( {prec(op) ≥ p}? op expr[prec(op)+1] | {12 ≥ p}? '#' id | … )*
  Import-free; recursion is on an explicit fuel argument.
-/
namespace VtlModel.Text

/-- Operator symbols (one per lexer token that the `expr` rule uses as an operator). -/
inductive Sym
  | plus | minus | not
  | mul | div | concat
  | eq | neq | lt | le | gt | ge
  | and | or | xor
  | in_ | notIn
  deriving DecidableEq, Repr, Inhabited

inductive Tok
  | lp | rp | lb | rb | lc | rc | comma | hash | assign
  | sym (s : Sym)
  | id (s : String)
  | lit (s : String)
  | kw (s : String)
  deriving DecidableEq, Repr, Inhabited

inductive UnOp | plus | minus | not
  deriving DecidableEq, Repr, Inhabited

inductive BinOp
  | mul | div | add | sub | concat
  | eq | neq | lt | le | gt | ge
  | and | or | xor
  deriving DecidableEq, Repr, Inhabited

def UnOp.sym : UnOp → Sym
  | .plus => .plus | .minus => .minus | .not => .not

def BinOp.sym : BinOp → Sym
  | .mul => .mul | .div => .div | .add => .plus | .sub => .minus | .concat => .concat
  | .eq => .eq | .neq => .neq | .lt => .lt | .le => .le | .gt => .gt | .ge => .ge
  | .and => .and | .or => .or | .xor => .xor

def Sym.toUn : Sym → Option UnOp
  | .plus => some .plus | .minus => some .minus | .not => some .not | _ => none

def Sym.toBin : Sym → Option BinOp
  | .mul => some .mul | .div => some .div | .plus => some .add | .minus => some .sub
  | .concat => some .concat
  | .eq => some .eq | .neq => some .neq | .lt => some .lt | .le => some .le | .gt => some .gt
  | .ge => some .ge
  | .and => some .and | .or => some .or | .xor => some .xor
  | _ => none

def Sym.toIn : Sym → Option Bool
  | .in_ => some false | .notIn => some true | _ => none

def inSym (neg : Bool) : Sym := if neg then .notIn else .in_

/-- Precedence levels: 15 alternatives in `expr`, level = 15 − (0-based index of the alternative). -/
def precClause : Nat := 13
def precMemb : Nat := 12
def precUnary : Nat := 11
def precIn : Nat := 7

def BinOp.prec : BinOp → Nat
  | .mul | .div => 10
  | .add | .sub | .concat => 9
  | .eq | .neq | .lt | .le | .gt | .ge => 8
  | .and => 6
  | .or | .xor => 5

mutual
  inductive Expr
    | const (c : String)
    | var (x : String)
    | un (o : UnOp) (e : Expr)
    | bin (o : BinOp) (l r : Expr)
    | par (e : Expr)
    | call (f : String) (args : Args)
    | memb (e : Expr) (c : String)
    | isin (neg : Bool) (e : Expr) (items : List String)
    | clause (e : Expr) (k : String) (body : Args)
    | asg (x : String) (e : Expr)
  inductive Args
    | nil
    | cons (e : Expr) (rest : Args)
end

mutual
  def Expr.beq : Expr → Expr → Bool
    | .const a, .const b => a == b
    | .var a, .var b => a == b
    | .un o e, .un o' e' => o == o' && Expr.beq e e'
    | .bin o l r, .bin o' l' r' => o == o' && Expr.beq l l' && Expr.beq r r'
    | .par e, .par e' => Expr.beq e e'
    | .call f a, .call f' a' => f == f' && Args.beq a a'
    | .memb e c, .memb e' c' => Expr.beq e e' && c == c'
    | .isin n e i, .isin n' e' i' => n == n' && Expr.beq e e' && i == i'
    | .clause e k b, .clause e' k' b' => Expr.beq e e' && k == k' && Args.beq b b'
    | .asg x e, .asg x' e' => x == x' && Expr.beq e e'
    | _, _ => false
  def Args.beq : Args → Args → Bool
    | .nil, .nil => true
    | .cons e r, .cons e' r' => Expr.beq e e' && Args.beq r r'
    | _, _ => false
end

/-- comma-separated literals of an `in` list -/
def renderItems : List String → List Tok
  | [] => []
  | [c] => [.lit c]
  | c :: cs => .lit c :: .comma :: renderItems cs

mutual
  /-- `ASTString` on the fragment, as a token stream. -/
  def render : Expr → List Tok
    | .const c => [.lit c]
    | .var x => [.id x]
    | .un o e => .sym o.sym :: render e
    | .bin o l r => render l ++ .sym o.sym :: render r
    | .par e => .lp :: (render e ++ [.rp])
    | .call f as => .id f :: .lp :: (renderArgs as ++ [.rp])
    | .memb e c => render e ++ [.hash, .id c]
    | .isin neg e items => render e ++ .sym (inSym neg) :: .lc :: (renderItems items ++ [.rc])
    | .clause e k body => render e ++ .lb :: .kw k :: (renderArgs body ++ [.rb])
    | .asg x e => .id x :: .assign :: render e
  def renderArgs : Args → List Tok
    | .nil => []
    | .cons e rest => render e ++ renderTail rest
  def renderTail : Args → List Tok
    | .nil => []
    | .cons e rest => .comma :: (render e ++ renderTail rest)
end

/-- lowest level among the suffix operators on the left spine of the tree: `expr[p]` can return `e` iff
    `p ≤ e.prec` (primaries — atoms and prefix operators — are returned at every level; a calc item
    `x := e` only at level 0). -/
def Expr.prec : Expr → Nat
  | .const _ | .var _ | .par _ | .call _ _ | .un _ _ => 15
  | .clause e _ _ => min precClause e.prec
  | .memb e _ => min precMemb e.prec
  | .bin o l _ => min o.prec l.prec
  | .isin _ e _ => min precIn e.prec
  | .asg _ _ => 0

/-- level at which the right-most open sub-parse of `e` runs: a suffix operator of level ≥ `e.rlevel`
    that follows the tokens of `e` is absorbed INTO `e` (so it cannot be applied TO `e`). -/
def Expr.rlevel : Expr → Nat
  | .un _ _ => precUnary
  | .bin o _ _ => o.prec + 1
  | .asg _ _ => 1
  | _ => 16

mutual
  /-- ASTs as a parse produces them: parentheses are explicit nodes, so every operand already sits at a
      level the grammar allows in that position: a suffix operator is applied to a left operand that does
      not absorb it, the right operand of a binary operator contains only higher levels (left
      associativity), the operand of a prefix operator contains only levels ≥ 11. -/
  def NF : Expr → Prop
    | .const _ => True
    | .var _ => True
    | .un _ e => NF e ∧ precUnary ≤ e.prec
    | .bin o l r => NF l ∧ NF r ∧ o.prec < l.rlevel ∧ o.prec + 1 ≤ r.prec
    | .par e => NF e
    | .call _ as => NFArgs as
    | .memb e _ => NF e ∧ precMemb < e.rlevel
    | .isin _ e items => NF e ∧ precIn < e.rlevel ∧ items ≠ []
    | .clause e _ body => NF e ∧ precClause < e.rlevel ∧ NFArgs body
    | .asg _ e => NF e
  def NFArgs : Args → Prop
    | .nil => True
    | .cons e rest => NF e ∧ NFArgs rest
end

mutual
  def nfb : Expr → Bool
    | .const _ => true
    | .var _ => true
    | .un _ e => nfb e && decide (precUnary ≤ e.prec)
    | .bin o l r => nfb l && nfb r && decide (o.prec < l.rlevel) && decide (o.prec + 1 ≤ r.prec)
    | .par e => nfb e
    | .call _ as => nfbArgs as
    | .memb e _ => nfb e && decide (precMemb < e.rlevel)
    | .isin _ e items => nfb e && decide (precIn < e.rlevel) && !items.isEmpty
    | .clause e _ body => nfb e && decide (precClause < e.rlevel) && nfbArgs body
    | .asg _ e => nfb e
  def nfbArgs : Args → Bool
    | .nil => true
    | .cons e rest => nfb e && nfbArgs rest
end

/-- `lit (',' lit)* '}'` -/
def parseItems : List Tok → Option (List String × List Tok)
  | .lit c :: .rc :: ts => some ([c], ts)
  | .lit c :: .comma :: ts =>
      match parseItems ts with
      | some (cs, ts') => some (c :: cs, ts')
      | none => none
  | _ => none

mutual
  def parseExpr : Nat → Nat → List Tok → Option (Expr × List Tok)
    | 0, _, _ => none
    | n+1, p, ts =>
      match parsePrimary n ts with
      | some (l, ts') => parseLoop n p l ts'
      | none => none

  def parsePrimary : Nat → List Tok → Option (Expr × List Tok)
    | 0, _ => none
    | n+1, ts =>
      match ts with
      | .lit c :: ts' => some (.const c, ts')
      | .id f :: .lp :: ts' =>
          match parseArgs n ts' with
          | some (as, .rp :: ts'') => some (.call f as, ts'')
          | _ => none
      | .id x :: .assign :: ts' =>
          match parseExpr n 0 ts' with
          | some (e, ts'') => some (.asg x e, ts'')
          | none => none
      | .id x :: ts' => some (.var x, ts')
      | .lp :: ts' =>
          match parseExpr n 0 ts' with
          | some (e, .rp :: ts'') => some (.par e, ts'')
          | _ => none
      | .sym s :: ts' =>
          match s.toUn with
          | some o =>
              match parseExpr n precUnary ts' with
              | some (e, ts'') => some (.un o e, ts'')
              | none => none
          | none => none
      | _ => none

  def parseLoop : Nat → Nat → Expr → List Tok → Option (Expr × List Tok)
    | 0, _, _, _ => none
    | n+1, p, l, ts =>
      match ts with
      | .lb :: .kw k :: ts' =>
          if p ≤ precClause then
            match parseArgs n ts' with
            | some (as, .rb :: ts'') => parseLoop n p (.clause l k as) ts''
            | _ => none
          else some (l, ts)
      | .hash :: .id c :: ts' =>
          if p ≤ precMemb then parseLoop n p (.memb l c) ts' else some (l, ts)
      | .sym s :: ts' =>
          match s.toBin with
          | some o =>
              if p ≤ o.prec then
                match parseExpr n (o.prec + 1) ts' with
                | some (r, ts'') => parseLoop n p (.bin o l r) ts''
                | none => none
              else some (l, ts)
          | none =>
              match s.toIn with
              | some neg =>
                  if p ≤ precIn then
                    match ts' with
                    | .lc :: ts'' =>
                        match parseItems ts'' with
                        | some (items, ts3) => parseLoop n p (.isin neg l items) ts3
                        | none => none
                    | _ => none
                  else some (l, ts)
              | none => some (l, ts)
      | _ => some (l, ts)

  /-- `(expr (',' expr)*)?` -/
  def parseArgs : Nat → List Tok → Option (Args × List Tok)
    | 0, _ => none
    | n+1, ts =>
      match parseExpr n 0 ts with
      | none => some (.nil, ts)
      | some (e, ts') =>
          match parseTail n ts' with
          | some (rest, ts'') => some (.cons e rest, ts'')
          | none => none

  def parseTail : Nat → List Tok → Option (Args × List Tok)
    | 0, _ => none
    | n+1, ts =>
      match ts with
      | .comma :: ts' =>
          match parseExpr n 0 ts' with
          | some (e, ts'') =>
              match parseTail n ts'' with
              | some (rest, ts3) => some (.cons e rest, ts3)
              | none => none
          | none => none
      | _ => some (.nil, ts)
end

def fuelFor (ts : List Tok) : Nat := 3 * ts.length + 3

/-- parse a complete token stream as one expression -/
def parse (ts : List Tok) : Option Expr :=
  match parseExpr (fuelFor ts) 0 ts with
  | some (e, []) => some e
  | _ => none

/-- `ASTString` never inserts parentheses: it prints operands as they are. `norm` is what a re-parse of the
    printed text yields for an arbitrary (possibly non-NF) tree; used by the driver only. -/
def reparse (e : Expr) : Option Expr := parse (render e)

end VtlModel.Text

/-!
# C23 (b) — where a syntax error is reported

Transcription of `extract_source_line_expanded` (bindings.cpp), of the column arithmetic in
`CollectingErrorListener::syntaxError`, of `create_ast`'s `column=error["column"] + 1` and of
`VTLSyntaxError.__init__`'s message / caret.

The C++ function works on the BYTES of `g_state.input_text`; the model text is a `List Char` whose
elements stand for bytes (any alphabet: the theorems hold for every list).  `int` is modelled by
`Int` (no 32-bit wrap: texts of ≥ 2³¹ bytes / lines are outside the model).

The tie to the source is a correspondence run: the C++ text of the function is cut out of
bindings.cpp, compiled alone and compared with `extract` (harness/checks/c23.py).

Import-free, total, computable.
-/
namespace VtlModel.Text.SrcLine

/-- `while (current_line < line_1based && start < src.size()) { if (src[start]=='\n') ++current_line; ++start; }`
    followed by `if (current_line != line_1based) return "";` — `k` = newlines still to skip;
    `none` = the text ended first -/
def skipLines : List Char → Nat → Option (List Char)
  | s, 0 => some s
  | [], _ + 1 => none
  | c :: s, k + 1 => if c = '\n' then skipLines s k else skipLines s (k + 1)

/-- what one source byte appends to `out` (kept reversed) -/
def pushOut (tab : Nat) (c : Char) (outR : List Char) : List Char :=
  if c = '\t' then List.replicate tab ' ' ++ outR else if c = '\r' then outR else c :: outR

/-- the `for` loop: `outR` = `out` reversed, `orig` = `orig_col`, `rem` = `remapped` -/
def walk (tab : Nat) (target : Int) : List Char → List Char → Int → Int → List Char × Int × Int
  | [], outR, orig, rem => (outR, orig, rem)
  | c :: s, outR, orig, rem =>
    if c = '\n' then (outR, orig, rem)
    else walk tab target s (pushOut tab c outR) (orig + 1) (if orig = target then (outR.length : Int) + 1 else rem)

/-- `extract_source_line_expanded(line_1based, column_in_out)`: the returned string and the value left
    in `column_in_out` -/
def extract (tab : Nat) (src : List Char) (line : Int) (col : Int) : List Char × Int :=
  if line < 1 then ([], col) else
  match skipLines src (line - 1).toNat with
  | none => ([], col)
  | some rest =>
    let r := walk tab col rest [] 1 col
    (r.1.reverse, if col > r.2.1 then (r.1.length : Int) + 1 else r.2.2)

/-- what `get_syntax_error()` hands to Python -/
structure ErrInfo where
  line : Int
  column : Int
  sourceLine : List Char
  deriving DecidableEq, Repr

/-- `syntaxError`: `column_1based = charPositionInLine + colIn`, `extract…(line, column_1based)`, stored
    column `column_1based + colOut` (`colIn = 1`, `colOut = -1` in the source) -/
def listenerInfo (tab : Nat) (colIn colOut : Int) (src : List Char) (line : Int) (cpos : Nat) : ErrInfo :=
  let r := extract tab src line ((cpos : Int) + colIn)
  { line := line, column := r.2 + colOut, sourceLine := r.1 }

/-- what `create_ast` passes to `VTLSyntaxError` (`column=error["column"] + off`) -/
def report (tab : Nat) (colIn colOut off : Int) (src : List Char) (line : Int) (cpos : Nat) : ErrInfo :=
  let e := listenerInfo tab colIn colOut src line cpos
  { e with column := e.column + off }

/-- `" " * (column - 1)` (Python: a negative count gives the empty string) -/
def caretPad (column : Int) : List Char := List.replicate (column - 1).toNat ' '

/-- `" " * (column - 1) + "^" * max(1, underline_length)` -/
def caret (column : Int) (ul : Int) : List Char := caretPad column ++ List.replicate (max 1 ul).toNat '^'

/-- decimal rendering of a Python `int` in an f-string -/
def showInt (i : Int) : List Char := (toString i).toList

/-- the message of `VTLSyntaxError(line, column, detail, source_line, underline_length)` -/
def message (line column : Int) (detail sourceLine : List Char) (ul : Int) : List Char :=
  let head := "VTL syntax error at line ".toList ++ showInt line ++ ", column ".toList ++ showInt column ++ ": ".toList ++ detail
  if sourceLine.isEmpty then head
  else head ++ "\n    ".toList ++ sourceLine ++ "\n    ".toList ++ caret column ul

/-! ## vocabulary of the theorems -/

/-- number of lines of a text in the sense of `text.split("\n")` -/
def numLines (src : List Char) : Nat := src.count '\n' + 1

/-- the part of `rest` up to (not including) the next newline -/
def lineOf (rest : List Char) : List Char := rest.takeWhile (· ≠ '\n')

/-- the echoed form of a line: tabs → `tab` spaces, CR dropped -/
def expand (tab : Nat) : List Char → List Char
  | [] => []
  | c :: s => (if c = '\t' then List.replicate tab ' ' else if c = '\r' then [] else [c]) ++ expand tab s

/-- ANTLR's position of the character offset `k` of a text: (newlines before it, distance from the
    start of its line) — `Lexer::consume`: a newline increments the line and resets the column,
    every other character increments the column -/
def posOf : List Char → Nat → Nat × Nat
  | _, 0 => (0, 0)
  | [], _ + 1 => (0, 0)
  | c :: s, k + 1 =>
    let p := posOf s k
    if c = '\n' then (p.1 + 1, p.2) else if p.1 = 0 then (0, p.2 + 1) else p

/-- UTF-8 continuation byte -/
def isCont (c : Char) : Bool := 128 ≤ c.toNat && c.toNat < 192

/-- number of code points of a UTF-8 byte string = `len()` of the Python `str` pybind11 builds -/
def cpLen (l : List Char) : Nat := (l.filter (fun c => !isCont c)).length

end VtlModel.Text.SrcLine

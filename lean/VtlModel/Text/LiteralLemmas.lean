/-
  Text/LiteralLemmas — theorems about the Number-literal model `VtlModel.Text.Literal` (C24).

  Universally quantified over digit lists (induction, no enumeration):
    * `pad_rstrip`, `rstrip0_render`   zero padding followed by `rstrip("0")` is the identity on a
                                        fraction that ends in a non-zero digit
    * `literal_roundtrip_f`            `_handle_literal` is exact on canonical literals with 5 or 6
                                        fractional digits, at most 9 integer digits and `v >= 1e-4`
    * `literal_roundtrip_g`            … and on canonical literals with at most 4 fractional digits
                                        (not integral) and at most 6 significant digits
    * `relex_text`, `preserves_text`   the canonical text re-lexes as the same NUMBER_CONSTANT
    * `preserves_render`               printing the canonical lexeme (`render`, the proposed patch)
                                        preserves EVERY literal
  and, by evaluation of the model, the outputs outside those bands (`counter_*`).
-/
import VtlModel.Text.Literal
namespace VtlModel.Text.Literal

theorem digitChar_ne_dot (d : Nat) : digitChar d ≠ '.' := by
  unfold digitChar; split <;> decide

theorem digitChar_eq_zero (d : Nat) : digitChar d = '0' ↔ d = 0 := by
  unfold digitChar; split <;> simp_all

theorem digitVal_digitChar (d : Nat) (h : d < 10) : digitVal? (digitChar d) = some d := by
  match d, h with
  | 0, _ | 1, _ | 2, _ | 3, _ | 4, _ | 5, _ | 6, _ | 7, _ | 8, _ | 9, _ => rfl
  | n + 10, h => omega

theorem rstrip0_zeros (n : Nat) : rstrip0 (List.replicate n '0') = [] := by
  induction n with
  | zero => rfl
  | succ n ih => simp [List.replicate_succ, rstrip0, ih]

theorem rstrip0_append_zeros (cs : List Char) (n : Nat) :
    rstrip0 (cs ++ List.replicate n '0') = rstrip0 cs := by
  induction cs with
  | nil => simp [rstrip0_zeros, rstrip0]
  | cons c r ih => simp [rstrip0, ih]

theorem rstrip0_append_of_ne (A B : List Char) (h : rstrip0 B ≠ []) :
    rstrip0 (A ++ B) = A ++ rstrip0 B := by
  induction A with
  | nil => rfl
  | cons c r ih => simp [rstrip0, ih, h]

theorem stripTrail_zeros (n : Nat) : stripTrail (List.replicate n 0) = [] := by
  induction n with
  | zero => rfl
  | succ n ih => simp [List.replicate_succ, stripTrail, ih]

theorem stripTrail_append_zeros (F : Digits) (n : Nat) :
    stripTrail (F ++ List.replicate n 0) = stripTrail F := by
  induction F with
  | nil => simp [stripTrail_zeros, stripTrail]
  | cons c r ih => simp [stripTrail, ih]

theorem stripTrail_append_of_ne (A B : Digits) (h : stripTrail B ≠ []) :
    stripTrail (A ++ B) = A ++ stripTrail B := by
  induction A with
  | nil => rfl
  | cons c r ih => simp [stripTrail, ih, h]

theorem rstrip0_text (F : Digits) : rstrip0 (text F) = text (stripTrail F) := by
  induction F with
  | nil => rfl
  | cons d r ih =>
    simp only [text, List.map_cons, rstrip0, stripTrail] at *
    rw [ih]
    by_cases h : d = 0 ∧ stripTrail r = []
    · simp [h, digitChar]
    · have : ¬ (digitChar d = '0' ∧ List.map digitChar (stripTrail r) = []) := by
        rw [digitChar_eq_zero]; simpa using h
      rw [if_neg h, if_neg this]; rfl

theorem stripTrail_length_le (F : Digits) : (stripTrail F).length ≤ F.length := by
  induction F with
  | nil => simp [stripTrail]
  | cons d r ih => simp only [stripTrail]; split <;> simp <;> omega

theorem stripLead_length_le (F : Digits) : (stripLead F).length ≤ F.length := by
  induction F with
  | nil => simp [stripLead]
  | cons d r ih => simp only [stripLead]; split <;> simp <;> omega

theorem lz_append_stripLead (F : Digits) : List.replicate (lz F) 0 ++ stripLead F = F := by
  induction F with
  | nil => rfl
  | cons d r ih =>
    by_cases h : d = 0
    · subst h; simp [lz, stripLead, List.replicate_succ, ih]
    · simp [lz, stripLead, h]

theorem stripLead_nil_stripTrail (F : Digits) (h : stripLead F = []) : stripTrail F = [] := by
  induction F with
  | nil => rfl
  | cons d r ih =>
    by_cases hd : d = 0
    · subst hd; simp [stripLead] at h; simp [stripTrail, ih h]
    · simp [stripLead, hd] at h

theorem stripLead_head_ne (F : Digits) (d : Nat) (r : Digits) (h : stripLead F = d :: r) : d ≠ 0 := by
  induction F with
  | nil => simp [stripLead] at h
  | cons x xs ih =>
    by_cases hx : x = 0
    · subst hx; simp [stripLead] at h; exact ih h
    · simp [stripLead, hx] at h; omega

theorem stripTrail_cons_ne (d : Nat) (r : Digits) (h : d ≠ 0) : stripTrail (d :: r) ≠ [] := by
  simp [stripTrail, h]

theorem afterDot_text (I : Digits) (r : List Char) : afterDot (text I ++ '.' :: r) = some r := by
  induction I with
  | nil => simp [text, afterDot]
  | cons d ds ih =>
    simp only [text, List.map_cons, List.cons_append, afterDot] at *
    simp [digitChar_ne_dot, ih]

theorem untilDot_text (F : Digits) : untilDot (text F) = text F := by
  induction F with
  | nil => rfl
  | cons d ds ih =>
    simp only [text, List.map_cons, untilDot] at *
    simp [digitChar_ne_dot, ih]

theorem splitDot1_text (I F : Digits) : splitDot1 (text I ++ '.' :: text F) = some (text F) := by
  simp [splitDot1, afterDot_text, untilDot_text]


/-! ### canonical literals -/

theorem canonF_strip (F : Digits) (hF : canonF F = F) (h0 : F ≠ [0]) : stripTrail F = F := by
  unfold canonF at hF
  split at hF
  · exact absurd hF.symm h0
  · exact hF

theorem canonI_cases (I : Digits) (hI : canonI I = I) :
    (stripLead I = [] ∧ I = [0]) ∨ (stripLead I ≠ [] ∧ stripLead I = I) := by
  unfold canonI at hI
  split at hI
  · next h => exact .inl ⟨h, hI.symm⟩
  · next h => exact .inr ⟨h, hI⟩

theorem text_length (F : Digits) : (text F).length = F.length := by simp [text]

theorem text_append_zeros (F : Digits) (n : Nat) :
    text (F ++ List.replicate n 0) = text F ++ List.replicate n '0' := by
  simp [text, digitChar]

theorem text_ne_nil (F : Digits) (h : F ≠ []) : text F ≠ [] := by
  cases F with
  | nil => exact absurd rfl h
  | cons d r => simp [text]

/-- `rstrip("0")` undoes the zero padding of `:f` when the fraction ends in a non-zero digit -/
theorem rstrip0_render (I F : Digits) (n : Nat) (hF : stripTrail F = F) (hne : F ≠ []) :
    rstrip0 (text I ++ '.' :: text (F ++ List.replicate n 0)) = text I ++ '.' :: text F := by
  have h1 : rstrip0 (text (F ++ List.replicate n 0)) = text F := by
    rw [text_append_zeros, rstrip0_append_zeros, rstrip0_text, hF]
  have h2 : rstrip0 (text (F ++ List.replicate n 0)) ≠ [] := by rw [h1]; exact text_ne_nil F hne
  have : text I ++ '.' :: text (F ++ List.replicate n 0)
      = (text I ++ ['.']) ++ text (F ++ List.replicate n 0) := by simp
  rw [this, rstrip0_append_of_ne _ _ h2, h1]; simp

theorem sig_length_le (I F : Digits) : (sig (I, F)).length ≤ I.length + F.length := by
  have h1 := stripTrail_length_le (stripLead (I ++ F))
  have h2 := stripLead_length_le (I ++ F)
  simp only [sig]; simp at h2; omega

theorem isZero_false (I F : Digits) (hF : stripTrail F ≠ []) : isZero (I, F) = false := by
  simp [isZero, hF]

theorem pyStr_positional (I F : Digits) (hI : canonI I = I) (hF : canonF F = F)
    (hs : (sig (I, F)).length ≤ 15) (hz : isZero (I, F) = false)
    (hlo : -4 ≤ expo (I, F)) (hhi : expo (I, F) < 16) :
    pyStr (I, F) = some (text I ++ '.' :: text F) := by
  unfold pyStr
  have h1 : ¬ 15 < (sig (I, F)).length := by omega
  have h2 : ¬ (expo (I, F) < -4 ∨ 16 ≤ expo (I, F)) := by omega
  simp only [h1, hz, h2, if_false, hI, hF]; simp

theorem expo_hi (I F : Digits) : expo (I, F) ≤ (I.length : Int) - 1 := by
  unfold expo
  have := stripLead_length_le I
  split <;> simp <;> omega

/-- `:f` then `rstrip("0")` is exact for 5 or 6 fractional digits, at most 9 integer digits, `v >= 1e-4` -/
theorem literal_roundtrip_f (I F : Digits) (hI : canonI I = I) (hF : canonF F = F)
    (hk5 : 5 ≤ F.length) (hk6 : F.length ≤ 6) (hI9 : I.length ≤ 9)
    (hlo : I ≠ [0] ∨ lz F ≤ 3) :
    handleLegacy (I, F) = .ok (some (text I ++ '.' :: text F)) := by
  have h0 : F ≠ [0] := by intro h; rw [h] at hk5; simp at hk5
  have hne : F ≠ [] := by intro h; rw [h] at hk5; simp at hk5
  have hFs := canonF_strip F hF h0
  have hs : (sig (I, F)).length ≤ 15 := by have := sig_length_le I F; omega
  have hz := isZero_false I F (by rw [hFs]; exact hne)
  have hhi := expo_hi I F
  have hX : -4 ≤ expo (I, F) := by
    unfold expo
    rcases canonI_cases I hI with ⟨h, hI0⟩ | ⟨h, _⟩
    · have : lz F ≤ 3 := by
        rcases hlo with hlo | hlo
        · exact absurd hI0 hlo
        · exact hlo
      simp [h]; omega
    · simp [h]; omega
  have hp := pyStr_positional I F hI hF hs hz hX (by omega)
  have hf : fmtF6 (I, F) = some (text I ++ '.' :: text (F ++ List.replicate (6 - F.length) 0)) := by
    unfold fmtF6
    have h1 : ¬ 15 < (sig (I, F)).length := by omega
    simp only [h1, hI, hF, hk6, h0, hI9, if_true, if_false]
  unfold handleLegacy
  simp only [hp, splitDot1_text, text_length, hf]
  have : 4 < F.length := by omega
  simp only [this, if_true, Option.map, rstrip0_render I F _ hFs hne]

/-! ### the `:g` branch -/

theorem stripLead_cons_ne (d : Nat) (r : Digits) (h : d ≠ 0) : stripLead (d :: r) = d :: r := by
  simp [stripLead, h]

/-- a canonical integer part other than `0` starts with a non-zero digit -/
theorem canonI_head (I : Digits) (h : stripLead I ≠ []) (hI : stripLead I = I) :
    ∃ d r, I = d :: r ∧ d ≠ 0 := by
  cases hI' : stripLead I with
  | nil => exact absurd hI' h
  | cons d r => exact ⟨d, r, by rw [← hI, hI'], stripLead_head_ne I d r hI'⟩

theorem round6_short (D : Digits) (X : Int) (h : D.length ≤ 6) :
    round6 D X = some (D ++ List.replicate (6 - D.length) 0, false) := by
  simp [round6, h]

/-- `:g` is exact for at most 4 fractional digits (not integral) and at most 6 significant digits -/
theorem literal_roundtrip_g (I F : Digits) (hI : canonI I = I) (hF : canonF F = F)
    (h0 : F ≠ [0]) (hk : F.length ≤ 4) (hs6 : (sig (I, F)).length ≤ 6) :
    handleLegacy (I, F) = .ok (some (text I ++ '.' :: text F)) := by
  have hFs := canonF_strip F hF h0
  have hne : F ≠ [] := by
    intro h; rw [h] at hF; simp [canonF, stripTrail] at hF
  have hFs' : stripTrail F ≠ [] := by rw [hFs]; exact hne
  have hz := isZero_false I F hFs'
  have hs : (sig (I, F)).length ≤ 15 := by omega
  have hs' : ¬ 15 < (sig (I, F)).length := by omega
  rcases canonI_cases I hI with ⟨hl, hI0⟩ | ⟨hl, hIs⟩
  · -- I = [0]: v < 1, F = 0…0 G
    subst hI0
    have hG : stripLead F ≠ [] := fun h => hFs' (stripLead_nil_stripTrail F h)
    have hsplit := lz_append_stripLead F
    have hlen : lz F + (stripLead F).length = F.length := by
      have := congrArg List.length hsplit; simpa using this
    have hGpos : 0 < (stripLead F).length := List.length_pos_iff.mpr hG
    have hGt : stripTrail (stripLead F) = stripLead F := by
      obtain ⟨d, r, hdr⟩ : ∃ d r, stripLead F = d :: r := by
        cases h : stripLead F with
        | nil => exact absurd h hG
        | cons d r => exact ⟨d, r, rfl⟩
      have hd := stripLead_head_ne F d r hdr
      have hne' : stripTrail (stripLead F) ≠ [] := by rw [hdr]; exact stripTrail_cons_ne d r hd
      have h1 := stripTrail_append_of_ne (List.replicate (lz F) 0) (stripLead F) hne'
      rw [hsplit, hFs] at h1
      have h2 : List.replicate (lz F) 0 ++ stripLead F
          = List.replicate (lz F) 0 ++ stripTrail (stripLead F) := by rw [hsplit]; exact h1
      exact (List.append_cancel_left h2).symm
    have hsig : sig ([0], F) = stripLead F := by
      simp [sig, stripLead, hGt]
    have hexpo : expo ([0], F) = -((lz F : Int) + 1) := by simp [expo, stripLead]
    have hX : -4 ≤ expo ([0], F) := by rw [hexpo]; omega
    have hX2 : expo ([0], F) < 0 := by rw [hexpo]; omega
    have hp := pyStr_positional [0] F hI hF hs hz hX (by omega)
    have hg : fmtG6 ([0], F) = some (text [0] ++ '.' :: text F) := by
      unfold fmtG6
      rw [hsig] at hs6 hs'
      have hr := round6_short (stripLead F) (expo ([0], F)) hs6
      simp only [hs', hsig, hz, if_false, hr]
      have hc : (-4 ≤ expo ([0], F) ∧ expo ([0], F) < 6) := ⟨hX, by omega⟩
      have hneg : ¬ (0 ≤ expo ([0], F)) := by omega
      simp only [Bool.false_eq_true, if_false, hc, and_self, if_true, gPositional, hneg,
        stripTrail_append_zeros, hGt]
      have : (-expo ([0], F)).toNat - 1 = lz F := by rw [hexpo]; omega
      rw [this, hsplit]; rfl
    unfold handleLegacy
    simp only [hp, splitDot1_text, text_length, hg]
    have : ¬ 4 < F.length := by omega
    simp only [this, if_false]
  · -- I starts with a non-zero digit: the significant digits are I ++ F
    obtain ⟨d, r, hdr, hd⟩ := canonI_head I hl hIs
    have hsig : sig (I, F) = I ++ F := by
      simp only [sig]
      rw [hdr, List.cons_append, stripLead_cons_ne d _ hd, ← List.cons_append, ← hdr,
        stripTrail_append_of_ne I F hFs', hFs]
    have hexpo : expo (I, F) = (I.length : Int) - 1 := by
      simp only [expo]; rw [if_neg hl, hIs]
    have hIpos : 0 < I.length := by rw [hdr]; simp
    have hlen : I.length + F.length ≤ 6 := by rw [hsig] at hs6; simpa using hs6
    have hp := pyStr_positional I F hI hF hs hz (by rw [hexpo]; omega) (by rw [hexpo]; omega)
    have hg : fmtG6 (I, F) = some (text I ++ '.' :: text F) := by
      unfold fmtG6
      have hr := round6_short (I ++ F) (expo (I, F)) (by simpa using hlen)
      rw [hsig] at hs'
      simp only [hsig, hs', hz, if_false, hr]
      have hc : (-4 ≤ expo (I, F) ∧ expo (I, F) < 6) := by rw [hexpo]; omega
      have hpos : 0 ≤ expo (I, F) := by rw [hexpo]; omega
      have hn : (expo (I, F)).toNat + 1 = I.length := by rw [hexpo]; omega
      simp only [Bool.false_eq_true, if_false, hc, and_self, if_true, gPositional, hpos, hn]
      have ht : List.take I.length (I ++ F ++ List.replicate (6 - (I ++ F).length) 0) = I := by
        rw [List.append_assoc]; exact List.take_left
      have hdp : List.drop I.length (I ++ F ++ List.replicate (6 - (I ++ F).length) 0)
          = F ++ List.replicate (6 - (I ++ F).length) 0 := by
        rw [List.append_assoc]; exact List.drop_left
      rw [ht, hdp, stripTrail_append_zeros, hFs]
      simp [hne]
    unfold handleLegacy
    simp only [hp, splitDot1_text, text_length, hg]
    have : ¬ 4 < F.length := by omega
    simp only [this, if_false]

/-! ### the statement asked for: zero padding followed by `rstrip("0")` -/

theorem stripTrail_of_getLast (F : Digits) (h : F ≠ []) (hl : F.getLast h ≠ 0) : stripTrail F = F := by
  induction F with
  | nil => exact absurd rfl h
  | cons d r ih =>
    cases r with
    | nil => simp at hl; simp [stripTrail, hl]
    | cons e t =>
      have h' : e :: t ≠ [] := by simp
      have hl' : (e :: t).getLast h' ≠ 0 := by simpa [List.getLast_cons h'] using hl
      have := ih h' hl'
      have e1 : stripTrail (d :: e :: t)
          = if d = 0 ∧ stripTrail (e :: t) = [] then [] else d :: stripTrail (e :: t) := rfl
      rw [e1, this]; simp

/-- `"ddd" + "0"*n` then `.rstrip("0")` gives back `"ddd"` when its last digit is not `0` -/
theorem pad_rstrip (F : Digits) (n : Nat) (h : F ≠ []) (hl : F.getLast h ≠ 0) :
    rstrip0 (text (F ++ List.replicate n 0)) = text F := by
  rw [text_append_zeros, rstrip0_append_zeros, rstrip0_text, stripTrail_of_getLast F h hl]

/-! ### re-lexing a rendered literal -/

theorem spanDigits_text (I : Digits) (h : ∀ d ∈ I, d < 10) : spanDigits (text I) = (I, []) := by
  induction I with
  | nil => rfl
  | cons d r ih =>
    have hd := digitVal_digitChar d (h d (by simp))
    have hr := ih (fun x hx => h x (by simp [hx]))
    simp only [text, List.map_cons, spanDigits] at *
    rw [hd]; simp [hr]

theorem spanDigits_text_dot (I : Digits) (rest : List Char) (h : ∀ d ∈ I, d < 10) :
    spanDigits (text I ++ '.' :: rest) = (I, '.' :: rest) := by
  induction I with
  | nil => rfl
  | cons d r ih =>
    have hd := digitVal_digitChar d (h d (by simp))
    have hr := ih (fun x hx => h x (by simp [hx]))
    simp only [text, List.map_cons, List.cons_append, spanDigits] at *
    rw [hd]; simp [hr]

/-- `I.F` written with digits re-lexes as the NUMBER_CONSTANT `I.F` -/
theorem relex_text (I F : Digits) (hI : I ≠ []) (hF : F ≠ [])
    (hdI : ∀ d ∈ I, d < 10) (hdF : ∀ d ∈ F, d < 10) :
    relex (text I ++ '.' :: text F) = .number I F := by
  unfold relex
  rw [spanDigits_text_dot I _ hdI]
  cases I with
  | nil => exact absurd rfl hI
  | cons a as =>
    simp only [if_true]
    rw [spanDigits_text F hdF]
    cases F with
    | nil => exact absurd rfl hF
    | cons b bs => rfl

theorem sameValue_refl (l : Lit) : sameValue l l = true := by simp [sameValue]

/-- the canonical text of a literal satisfies the property predicate -/
theorem preserves_text (I F : Digits) (hI : I ≠ []) (hF : F ≠ [])
    (hdI : ∀ d ∈ I, d < 10) (hdF : ∀ d ∈ F, d < 10) :
    preserves (I, F) (text I ++ '.' :: text F) = true := by
  simp [preserves, relex_text I F hI hF hdI hdF, sameValue_refl]

/-! ### counter-examples: what the model of the current code returns -/

theorem counter_f_rounds :
    handleLegacy ([0], [1,2,3,4,5,6,7,8,9]) = .ok (some "0.123457".toList) := rfl
theorem counter_small_indexError :
    handleLegacy ([0], [0,0,0,0,1]) = .error .indexError := rfl
theorem counter_big_indexError :
    handleLegacy ([1,0,0,0,0,0,0,0,0,0,0,0,0,0,0,0,0,0,0,0,0], [0]) = .error .indexError := rfl
theorem counter_g_rounds :
    handleLegacy ([1,2,3], [4,5,6,7]) = .ok (some "123.457".toList) := rfl
theorem counter_g_exponent :
    handleLegacy ([1,2,3,4,5,6,7], [0]) = .ok (some "1.23457e+06".toList) := rfl
theorem counter_integral :
    handleLegacy ([5], [0]) = .ok (some "5".toList) := rfl
theorem counter_tiny :
    handleLegacy ([0], [0,0,0,0,0,0,1,5]) = .ok (some "0.".toList) := rfl
theorem counter_dangling_dot :
    handleLegacy ([9], [9,9,9,9,9,9,6]) = .ok (some "10.".toList) := rfl
theorem counter_big_dangling_dot :
    handleLegacy ([1,5,0,0,0,0,0,0,0,0,0,0,0,0,0,0,0,0,0,0], [0]) = .ok (some "15000000000000000000.".toList) := rfl
theorem counter_g_integer :
    handleLegacy ([1,2,3,4,5,6], [5]) = .ok (some "123456".toList) := rfl

/-- none of these outputs is a NUMBER_CONSTANT with the value of the literal -/
theorem counter_not_preserved :
    preserves ([0], [1,2,3,4,5,6,7,8,9]) "0.123457".toList = false ∧
    preserves ([1,2,3], [4,5,6,7]) "123.457".toList = false ∧
    preserves ([1,2,3,4,5,6,7], [0]) "1.23457e+06".toList = false ∧
    preserves ([5], [0]) "5".toList = false ∧
    preserves ([0], [0,0,0,0,0,0,1,5]) "0.".toList = false ∧
    preserves ([9], [9,9,9,9,9,9,6]) "10.".toList = false ∧
    preserves ([1,2,3,4,5,6], [5]) "123456".toList = false := by decide

/-- the model declines to answer where the binary neighbour decides -/
theorem unknown_examples :
    handleLegacy ([9,2,3,4,5,6,7,8,9,0], [1,2,3,4,5]) = .ok none ∧      -- 10 integer digits, 5 fractional
    handleLegacy ([1,2,3,4,5], [6,5]) = .ok none ∧                        -- :g tie below 1e5
    handleLegacy ([0], [1,2,3,4,5,6,5]) = .ok none ∧                      -- :f tie
    handleLegacy ([1,2,3,4,5,6,7,8,9,0,1,2,3,4,5,6], [5]) = .ok none :=   -- 17 significant digits
  ⟨rfl, rfl, rfl, rfl⟩

/-! ### the two exact bands are not empty -/

example : handleLegacy ([1,2], [5]) = .ok (some "12.5".toList) :=
  literal_roundtrip_g [1,2] [5] (by decide) (by decide) (by decide) (by decide) (by decide)
example : handleLegacy ([0], [0,0,0,1]) = .ok (some "0.0001".toList) :=
  literal_roundtrip_g [0] [0,0,0,1] (by decide) (by decide) (by decide) (by decide) (by decide)
example : handleLegacy ([1,2,3,4,5,6,7,8,9], [1,2,3,4,5,6]) = .ok (some "123456789.123456".toList) :=
  literal_roundtrip_f _ _ (by decide) (by decide) (by decide) (by decide) (by decide) (by decide)
example : handleLegacy ([0], [0,0,0,1,5]) = .ok (some "0.00015".toList) :=
  literal_roundtrip_f _ _ (by decide) (by decide) (by decide) (by decide) (by decide) (by decide)

/-! ### the meaning-preserving renderer `render` (what the proposed patch prints) -/

theorem stripLead_idem (I : Digits) : stripLead (stripLead I) = stripLead I := by
  induction I with
  | nil => rfl
  | cons d r ih =>
    by_cases h : d = 0
    · simp [stripLead, h, ih]
    · simp [stripLead, h]

theorem stripTrail_idem (F : Digits) : stripTrail (stripTrail F) = stripTrail F := by
  induction F with
  | nil => rfl
  | cons d r ih =>
    by_cases h : d = 0 ∧ stripTrail r = []
    · simp [stripTrail, h]
    · have e1 : stripTrail (d :: r) = d :: stripTrail r := by simp only [stripTrail]; rw [if_neg h]
      rw [e1]
      simp only [stripTrail]; rw [ih, if_neg h]

theorem canonI_idem (I : Digits) : canonI (canonI I) = canonI I := by
  unfold canonI
  by_cases h : stripLead I = []
  · simp [h, stripLead]
  · simp [h, stripLead_idem]

theorem canonF_idem (F : Digits) : canonF (canonF F) = canonF F := by
  unfold canonF
  by_cases h : stripTrail F = []
  · simp [h, stripTrail]
  · simp [h, stripTrail_idem]

theorem mem_stripLead (I : Digits) (d : Nat) (h : d ∈ stripLead I) : d ∈ I := by
  induction I with
  | nil => simp [stripLead] at h
  | cons x r ih =>
    by_cases hx : x = 0
    · simp [stripLead, hx] at h; simp [ih h]
    · simpa [stripLead, hx] using h

theorem mem_stripTrail (F : Digits) (d : Nat) (h : d ∈ stripTrail F) : d ∈ F := by
  induction F with
  | nil => simp [stripTrail] at h
  | cons x r ih =>
    simp only [stripTrail] at h
    split at h
    · simp at h
    · rcases List.mem_cons.mp h with h | h
      · simp [h]
      · simp [ih h]

theorem canonI_ne_nil (I : Digits) : canonI I ≠ [] := by
  unfold canonI; split <;> simp [*]

theorem canonF_ne_nil (F : Digits) : canonF F ≠ [] := by
  unfold canonF; split <;> simp [*]

theorem canonI_digits (I : Digits) (h : ∀ d ∈ I, d < 10) : ∀ d ∈ canonI I, d < 10 := by
  intro d hd
  unfold canonI at hd
  split at hd
  · simp at hd; omega
  · exact h d (mem_stripLead I d hd)

theorem canonF_digits (F : Digits) (h : ∀ d ∈ F, d < 10) : ∀ d ∈ canonF F, d < 10 := by
  intro d hd
  unfold canonF at hd
  split at hd
  · simp at hd; omega
  · exact h d (mem_stripTrail F d hd)

/-- printing the canonical lexeme preserves the literal: for EVERY lexeme (leading / trailing zeros,
    any length) the output is one NUMBER_CONSTANT token with the same value -/
theorem preserves_render (I F : Digits) (hdI : ∀ d ∈ I, d < 10) (hdF : ∀ d ∈ F, d < 10) :
    preserves (I, F) (render (I, F)) = true := by
  simp only [render, preserves]
  rw [relex_text (canonI I) (canonF F) (canonI_ne_nil I) (canonF_ne_nil F)
    (canonI_digits I hdI) (canonF_digits F hdF)]
  simp [sameValue, canonI_idem, canonF_idem]

/-- `render` is idempotent on re-lexing: rendering the re-lexed output prints the same text -/
theorem render_idem (I F : Digits) : render (canonI I, canonF F) = render (I, F) := by
  simp [render, canonI_idem, canonF_idem]

end VtlModel.Text.Literal

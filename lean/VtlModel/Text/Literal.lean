/-
  Text/Literal — how `ASTString._handle_literal` renders a Number literal (C24).  Import-free,
  total, computable, no `Float` anywhere.

  The code under study (`src/vtlengine/AST/ASTString.py`):

      elif isinstance(value, float):
          decimal = str(value).split(".")[1]
          if len(decimal) > 4:
              return f"{value:f}".rstrip("0")
          else:
              return f"{value:g}"

  `value = float(text)` where `text` is a VTL NUMBER_CONSTANT lexeme `[0-9]+ '.' [0-9]+`.  A literal
  is the pair `(I, F)` of its digit lists (integer part, fractional part).  Strings are `List Char`.

  DOMAIN.  IEEE-754 is not modelled.  The model relies on one fact about doubles (an ASSUMPTION,
  validated against Python on every generated literal by the correspondence tie): a decimal with at
  most 15 significant digits survives decimal -> double -> shortest-repr, so `repr(float(text))`
  is the canonical decimal of `text`, and the double `b` differs from the decimal `v` by at most
  `v * 2^-53`.  Every function answers `none` ("unknown") when the literal has more than 15
  significant digits, and wherever the binary neighbour of `v` (not `v` itself) decides a digit:

    * `:f` / `:g` at an exact decimal tie (discarded part is exactly `5`), except the `:g` ties
      with `1e5 <= v < 1e16`, where `v` is a double and Python rounds half-even;
    * `:f` of a value with 5 or 6 fractional digits and 10 or more integer digits (half an ulp is
      no longer below `0.5e-6`: `9234567890.12345 -> 9234567890.123449`);
    * `:f` of an integral value that is not provably a double (`m * 5^e >= 2^53` for `v = m * 10^e`).

  Where a function answers `some s`, `s` is exactly what Python produces (under the assumption).
-/
namespace VtlModel.Text.Literal

abbrev Digits := List Nat

/-- `(I, F)`: the digits before and after the `.` of the lexeme, most significant first -/
abbrev Lit := Digits × Digits

inductive Err where
  | indexError
  deriving DecidableEq, Repr

/-! ### digits and characters -/

def digitChar : Nat → Char
  | 0 => '0' | 1 => '1' | 2 => '2' | 3 => '3' | 4 => '4'
  | 5 => '5' | 6 => '6' | 7 => '7' | 8 => '8' | 9 => '9'
  | _ => '?'

def text (ds : Digits) : List Char := ds.map digitChar

/-- drop leading zeros -/
def stripLead : Digits → Digits
  | [] => []
  | d :: r => if d = 0 then stripLead r else d :: r

/-- drop trailing zeros -/
def stripTrail : Digits → Digits
  | [] => []
  | d :: r =>
    let t := stripTrail r          -- shared: one recursive call per digit
    if d = 0 ∧ t = [] then [] else d :: t

/-- number of leading zeros -/
def lz : Digits → Nat
  | [] => 0
  | d :: r => if d = 0 then lz r + 1 else 0

/-- integer part without leading zeros, one digit kept -/
def canonI (I : Digits) : Digits := if stripLead I = [] then [0] else stripLead I

/-- fractional part without trailing zeros, one digit kept -/
def canonF (F : Digits) : Digits := if stripTrail F = [] then [0] else stripTrail F

/-- a literal that is its own canonical form -/
def Canon (l : Lit) : Prop := canonI l.1 = l.1 ∧ canonF l.2 = l.2

instance (l : Lit) : Decidable (Canon l) := by unfold Canon; exact inferInstance

/-- two lexemes denote the same decimal value -/
def sameValue (a b : Lit) : Bool := canonI a.1 == canonI b.1 && canonF a.2 == canonF b.2

def isZero (l : Lit) : Bool := stripLead l.1 == [] && stripTrail l.2 == []

/-- the significant digits `d1 d2 … ds` of `v = d1.d2…ds × 10^expo` (empty for zero) -/
def sig (l : Lit) : Digits := stripTrail (stripLead (l.1 ++ l.2))

/-- `floor (log10 v)` for `v ≠ 0` -/
def expo (l : Lit) : Int :=
  if stripLead l.1 = [] then -((lz l.2 : Int) + 1) else ((stripLead l.1).length : Int) - 1

/-- the domain on which the model answers: at most 15 significant digits -/
def inD (l : Lit) : Bool := (sig l).length ≤ 15

def natOf (ds : Digits) : Nat := ds.foldl (fun a d => a * 10 + d) 0

def natDigitsAux : Nat → Nat → Digits → Digits
  | 0, _, acc => acc
  | fuel + 1, n, acc => if n < 10 then n :: acc else natDigitsAux fuel (n / 10) ((n % 10) :: acc)

def natDigits (n : Nat) : Digits := natDigitsAux (n + 1) n []

/-! ### `str(value)` -/

/-- exponent suffix of Python's scientific notation: sign and at least two digits -/
def expText (X : Int) : List Char :=
  (if X < 0 then '-' else '+') ::
    (if X.natAbs < 10 then '0' :: text (natDigits X.natAbs) else text (natDigits X.natAbs))

/-- `d.ddde±XX` with the zeros at the end of the mantissa (and then a dangling `.`) removed -/
def sciText (D : Digits) (X : Int) : List Char :=
  match D with
  | [] => []
  | d :: m =>
    (digitChar d :: (if stripTrail m = [] then [] else '.' :: text (stripTrail m))) ++ 'e' :: expText X

/-- `str(float(text))` = `repr`: positional when `1e-4 <= v < 1e16` (and for zero), else
    scientific.  `none` outside the domain. -/
def pyStr (l : Lit) : Option (List Char) :=
  if 15 < (sig l).length then none
  else if isZero l then some ['0', '.', '0']
  else if expo l < -4 ∨ 16 ≤ expo l then some (sciText (sig l) (expo l))
  else some (text (canonI l.1) ++ '.' :: text (canonF l.2))

/-! ### `.split(".")[1]` -/

def afterDot : List Char → Option (List Char)
  | [] => none
  | c :: r => if c = '.' then some r else afterDot r

def untilDot : List Char → List Char
  | [] => []
  | c :: r => if c = '.' then [] else c :: untilDot r

/-- `s.split(".")[1]`; `none` is Python's IndexError (no `.` in `s`) -/
def splitDot1 (s : List Char) : Option (List Char) := (afterDot s).map untilDot

/-! ### rounding a digit string -/

inductive Round where
  | down | up | tie
  deriving DecidableEq, Repr

/-- direction decided by the discarded digits (which have no trailing zeros) -/
def roundDir : Digits → Round
  | [] => .down
  | d :: r => if d < 5 then .down else if d = 5 ∧ r = [] then .tie else .up

/-- add one unit in the last place; same length, and the carry out -/
def incr : Digits → Digits × Bool
  | [] => ([], true)
  | d :: r =>
    let p := incr r
    if p.2 then (if d = 9 then (0 :: p.1, true) else ((d + 1) :: p.1, false))
    else (d :: p.1, false)

/-! ### `f"{value:f}"` and `.rstrip("0")` -/

/-- `v = m × 10^e` is an integer and `m × 5^e < 2^53`: then `v` is a double -/
def exactInt (l : Lit) : Bool :=
  natOf (sig l) * 5 ^ ((canonI l.1).length - (sig l).length) < 2 ^ 53

/-- all digits, the last six of them after the point -/
def splitFrac6 (ds : Digits) : List Char :=
  text (ds.take (ds.length - 6)) ++ '.' :: text (ds.drop (ds.length - 6))

/-- `f"{value:f}"`: exactly six fractional digits -/
def fmtF6 (l : Lit) : Option (List Char) :=
  if 15 < (sig l).length then none
  else if (canonF l.2).length ≤ 6 then
    if (if canonF l.2 = [0] then exactInt l = true else (canonI l.1).length ≤ 9) then
      some (text (canonI l.1) ++ '.' :: text (canonF l.2 ++ List.replicate (6 - (canonF l.2).length) 0))
    else none
  else
    match roundDir ((canonF l.2).drop 6) with
    | .tie => none
    | .down => some (text (canonI l.1) ++ '.' :: text ((canonF l.2).take 6))
    | .up =>
      let r := incr (canonI l.1 ++ (canonF l.2).take 6)
      some (splitFrac6 (if r.2 then 1 :: r.1 else r.1))

/-- `s.rstrip("0")` -/
def rstrip0 : List Char → List Char
  | [] => []
  | c :: r =>
    let t := rstrip0 r
    if c = '0' ∧ t = [] then [] else c :: t

/-! ### `f"{value:g}"` -/

/-- six significant digits and whether the rounding carried into a new leading digit -/
def round6 (D : Digits) (X : Int) : Option (Digits × Bool) :=
  if D.length ≤ 6 then some (D ++ List.replicate (6 - D.length) 0, false)
  else
    let up : Option Bool :=
      match roundDir (D.drop 6) with
      | .down => some false
      | .up => some true
      | .tie => if 5 ≤ X ∧ X ≤ 15 then some ((D.take 6).getLastD 0 % 2 = 1) else none
    match up with
    | none => none
    | some false => some (D.take 6, false)
    | some true =>
      let r := incr (D.take 6)
      if r.2 then some (1 :: r.1.dropLast, true) else some (r.1, false)

/-- positional `:g` output for six digits `d6` and `-4 <= X < 6` -/
def gPositional (d6 : Digits) (X : Int) : List Char :=
  if 0 ≤ X then
    text (d6.take (X.toNat + 1)) ++
      (if stripTrail (d6.drop (X.toNat + 1)) = [] then []
       else '.' :: text (stripTrail (d6.drop (X.toNat + 1))))
  else
    '0' :: '.' :: text (List.replicate ((-X).toNat - 1) 0 ++ stripTrail d6)

/-- `f"{value:g}"`: six significant digits, positional when `-4 <= X < 6`, else scientific -/
def fmtG6 (l : Lit) : Option (List Char) :=
  if 15 < (sig l).length then none
  else if isZero l then some ['0']
  else
    match round6 (sig l) (expo l) with
    | none => none
    | some (d6, c) =>
      let X' := if c then expo l + 1 else expo l
      some (if -4 ≤ X' ∧ X' < 6 then gPositional d6 X' else sciText d6 X')

/-! ### `_handle_literal`, float branch -/

/-- `.error .indexError`: the call raises; `.ok none`: outside the model's domain -/
def handleLegacy (l : Lit) : Except Err (Option (List Char)) :=
  match pyStr l with
  | none => .ok none
  | some s =>
    match splitDot1 s with
    | none => .error .indexError
    | some decimal =>
      if 4 < decimal.length then .ok ((fmtF6 l).map rstrip0)
      else .ok (fmtG6 l)

/-- what a meaning-preserving renderer prints: the canonical lexeme -/
def render (l : Lit) : List Char := text (canonI l.1) ++ '.' :: text (canonF l.2)

/-! ### `_handle_literal`, float branch, as it is since /repo 62b5ed8

      text = format(Decimal(repr(value)), "f")
      return text[:-2] if text.endswith(".0") else text

    Inside the domain (`inD`, at most 15 significant digits) `repr(float(text))` is the canonical decimal of the
    lexeme, so the function prints the canonical lexeme, except that an integral value loses its `.0`
    (kept as it was: an upstream reference output pins `cast(3.0, string)` ↦ `cast(3, string)`).
    `handleLegacy` above is the function as it was at the pinned commit. -/
def handle (l : Lit) : Except Err (Option (List Char)) :=
  if !inD l then .ok none
  else if canonF l.2 = [0] then .ok (some (text (canonI l.1)))
  else .ok (some (render l))

/-! ### re-lexing the output -/

inductive Tok where
  | number (I F : Digits)   -- NUMBER_CONSTANT  [0-9]+ '.' [0-9]+
  | integer (I : Digits)    -- INTEGER_CONSTANT [0-9]+
  | other                   -- not a single literal token
  deriving DecidableEq, Repr

def digitVal? : Char → Option Nat
  | '0' => some 0 | '1' => some 1 | '2' => some 2 | '3' => some 3 | '4' => some 4
  | '5' => some 5 | '6' => some 6 | '7' => some 7 | '8' => some 8 | '9' => some 9
  | _ => none

/-- longest prefix of digits, and the rest -/
def spanDigits : List Char → Digits × List Char
  | [] => ([], [])
  | c :: r =>
    match digitVal? c with
    | some d =>
      let p := spanDigits r
      (d :: p.1, p.2)
    | none => ([], c :: r)

def relex (s : List Char) : Tok :=
  match spanDigits s with
  | ([], _) => .other
  | (I, []) => .integer I
  | (I, c :: r) =>
    if c = '.' then
      match spanDigits r with
      | ([], _) => .other
      | (F, []) => .number I F
      | (_, _ :: _) => .other
    else .other

/-- the property predicate on an output: one NUMBER_CONSTANT token with the value of `l` -/
def preserves (l : Lit) (out : List Char) : Bool :=
  match relex out with
  | .number I F => sameValue l (I, F)
  | _ => false

end VtlModel.Text.Literal

/-!
# C23 (a) — `do_parse` as a function of (previous module state, text)

Model of `static ParserState g_state` and `do_parse` in
`src/vtlengine/AST/Grammar/_cpp_parser/bindings.cpp`.

* The step list of `do_parse` is NOT written here: it is regenerated from the C++ text on every run
  (`Gen/ParserState.lean`, translator `harness/translate/parser_state.py`).  This file only gives the
  steps a meaning, for EVERY interpretation of the opaque parts (`Oracles`): the ANTLR input stream,
  lexer, token stream, parser, what `parser->start()` returns, which syntax-error events the runtime
  delivers, how comments are collected.  Nothing about ANTLR is assumed except that these are
  functions of the objects they are called on.
* The listener (`CollectingErrorListener::syntaxError`) is modelled as a fold over the delivered
  events: with the first-error guard it writes the error slot only while the slot is empty; without
  the guard the last error wins.
* `historyFree` is a decidable syntactic check on a step list ("every slot is (re)written in this
  parse before it is read, appended to or kept; every slot of the struct ends up written"), and
  `exec_history_free` proves, by induction over ANY step list, that the check implies the final
  state does not depend on the previous state.  `errDiscipline` / `exec_first_error` do the same for
  "the recorded error is the first event of this parse, built from this text".

Import-free, total, computable.
-/
namespace VtlModel.Text.ParserState

/-- one `syntaxError` callback of the ANTLR runtime (opaque payload; only identity matters) -/
structure Ev where
  line : Int
  cpos : Nat
  msg : String
  deriving DecidableEq, Repr, Inhabited

/-- one effect of `do_parse` on `g_state` (slot names are the C++ field names; locals are `%name`) -/
inductive Step where
  /-- `g_state.f = text;` -/
  | assignText (f : String)
  /-- `g_state.f.clear();` -/
  | clear (f : String)
  /-- `g_state.f.reset();` -/
  | reset (f : String)
  /-- `g_state.f = std::make_unique<cls>(args)`; args are `text` and/or `g_state.d.get()` -/
  | make (f cls : String) (usesText : Bool) (deps : List String)
  /-- `g_state.f->m(…)`, optionally `auto* x = g_state.f->m(…)`: reads and mutates the object in slot `f`,
      may deliver syntax-error events to the listener -/
  | call (f m : String) (into : Option String)
  /-- `for (… : g_state.src->…) { … g_state.f.push_back(…) … }` -/
  | push (f : String) (srcs : List String)
  /-- `return py::cast(LazyParseNode(x));` -/
  | ret (x : String)
  /-- a call that does not mention `g_state` (`init_type_map()`) -/
  | other (name : String)
  deriving DecidableEq, Repr

/-- what the translator read about `CollectingErrorListener::syntaxError` -/
structure Listener where
  /-- `if (g_state.<errSlot>.has_value()) return;` is present -/
  guarded : Bool
  /-- the single slot the listener writes -/
  errSlot : String
  /-- other slots the listener reads to build the error (`input_text`, through
      `extract_source_line_expanded`) -/
  reads : List String
  deriving Repr

/-- the slot that receives the value returned to Python -/
def retSlot : String := "%ret"

/-- the opaque parts; `V` is the type of slot contents -/
structure Oracles (V : Type) where
  none : V
  empty : V
  ofText : String → V
  make : String → List V → V
  /-- the object after `->m(…)` -/
  call : String → V → V
  /-- the value returned by `->m(…)` -/
  result : String → V → V
  /-- the syntax-error events delivered while `->m(…)` runs -/
  events : String → V → List Ev
  /-- `SyntaxErrorInfo{…}` from an event and the slots the listener reads -/
  mkErr : Ev → List V → V
  isNone : V → Bool
  /-- the vector after the `push_back` loop -/
  push : V → List V → V
  wrap : V → V

/-- the two facts about `std::optional` the first-error theorem needs -/
structure Lawful {V : Type} (o : Oracles V) : Prop where
  none_isNone : o.isNone o.none = true
  err_notNone : ∀ e vs, o.isNone (o.mkErr e vs) = false

abbrev State (V : Type) := String → V

def set {V : Type} (s : State V) (f : String) (v : V) : State V := fun g => if g = f then v else s g

/-- one `syntaxError` callback -/
def listen {V : Type} (o : Oracles V) (L : Listener) (s : State V) (e : Ev) : State V :=
  if L.guarded && !(o.isNone (s L.errSlot)) then s
  else set s L.errSlot (o.mkErr e (L.reads.map s))

/-- one step: new state and the events it delivered -/
def stepT {V : Type} (o : Oracles V) (L : Listener) (t : String) (st : Step) (s : State V) : State V × List Ev :=
  match st with
  | .assignText f => (set s f (o.ofText t), [])
  | .clear f => (set s f o.empty, [])
  | .reset f => (set s f o.none, [])
  | .make f cls ut deps => (set s f (o.make cls ((if ut then [o.ofText t] else []) ++ deps.map s)), [])
  | .call f m into =>
      let recv := s f
      let evs := o.events m recv
      let s1 := evs.foldl (listen o L) s
      let s2 := set s1 f (o.call m recv)
      (match into with
       | some x => set s2 x (o.result m recv)
       | Option.none => s2, evs)
  | .push f srcs => (set s f (o.push (s f) (srcs.map s)), [])
  | .ret x => (set s retSlot (o.wrap (s x)), [])
  | .other _ => (s, [])

/-- run a step list: final state and all delivered events, in order -/
def run {V : Type} (o : Oracles V) (L : Listener) (t : String) : List Step → State V → State V × List Ev
  | [], s => (s, [])
  | st :: r, s =>
      let p := stepT o L t st s
      let q := run o L t r p.1
      (q.1, p.2 ++ q.2)

def exec {V : Type} (o : Oracles V) (L : Listener) (t : String) (steps : List Step) (s : State V) : State V :=
  (run o L t steps s).1

def observable {V : Type} (fields : List String) (s : State V) : List V := fields.map s

/-! ## history freedom -/

def reads (L : Listener) : Step → List String
  | .assignText _ | .clear _ | .reset _ | .other _ => []
  | .make _ _ _ deps => deps
  | .call f _ _ => f :: L.errSlot :: L.reads
  | .push f srcs => f :: srcs
  | .ret x => [x]

def writes (L : Listener) : Step → List String
  | .assignText f | .clear f | .reset f | .make f _ _ _ | .push f _ => [f]
  | .call f _ into => f :: L.errSlot :: into.toList
  | .ret _ => [retSlot]
  | .other _ => []

/-- slots whose content is determined by this parse alone, after the steps; `none` when a step
    reads a slot that is not yet determined -/
def defined (L : Listener) : List String → List Step → Option (List String)
  | d, [] => some d
  | d, st :: r => if (reads L st).all (fun x => d.contains x) then defined L (writes L st ++ d) r else Option.none

/-- the decidable check -/
def historyFree (L : Listener) (steps : List Step) (fields : List String) : Bool :=
  match defined L [] steps with
  | some d => fields.all (fun x => d.contains x)
  | Option.none => false

def Agree {V : Type} (d : List String) (s₁ s₂ : State V) : Prop := ∀ f, f ∈ d → s₁ f = s₂ f

theorem Agree.mono {V : Type} {d d' : List String} {s₁ s₂ : State V} (h : Agree d s₁ s₂)
    (sub : ∀ f, f ∈ d' → f ∈ d) : Agree d' s₁ s₂ := fun f hf => h f (sub f hf)

theorem agree_set {V : Type} {d : List String} {s₁ s₂ : State V} (h : Agree d s₁ s₂) (f : String) {v₁ v₂ : V}
    (hv : v₁ = v₂) : Agree (f :: d) (set s₁ f v₁) (set s₂ f v₂) := by
  intro g hg
  unfold set
  by_cases e : g = f
  · simp [e, hv]
  · simp [e]
    cases hg with
    | head => exact absurd rfl e
    | tail _ h' => exact h g h'

theorem agree_map {V : Type} {d : List String} {s₁ s₂ : State V} (h : Agree d s₁ s₂) (xs : List String)
    (sub : ∀ x, x ∈ xs → x ∈ d) : xs.map s₁ = xs.map s₂ := by
  induction xs with
  | nil => rfl
  | cons x r ih =>
    simp only [List.map]
    rw [h x (sub x (List.mem_cons_self ..)), ih (fun y hy => sub y (List.mem_cons_of_mem _ hy))]

theorem agree_listen {V : Type} (o : Oracles V) (L : Listener) {d : List String} {s₁ s₂ : State V}
    (h : Agree d s₁ s₂) (he : L.errSlot ∈ d) (hr : ∀ x, x ∈ L.reads → x ∈ d) (e : Ev) :
    Agree d (listen o L s₁ e) (listen o L s₂ e) := by
  unfold listen
  rw [h _ he, agree_map h _ hr]
  split
  · exact h
  · exact (agree_set h L.errSlot rfl).mono (fun f hf => List.mem_cons_of_mem _ hf)

theorem agree_fold {V : Type} (o : Oracles V) (L : Listener) {d : List String}
    (he : L.errSlot ∈ d) (hr : ∀ x, x ∈ L.reads → x ∈ d) (evs : List Ev) :
    ∀ {s₁ s₂ : State V}, Agree d s₁ s₂ → Agree d (evs.foldl (listen o L) s₁) (evs.foldl (listen o L) s₂) := by
  induction evs with
  | nil => intro s₁ s₂ h; exact h
  | cons e r ih => intro s₁ s₂ h; exact ih (agree_listen o L h he hr e)

theorem all_contains {d xs : List String} (h : xs.all (fun x => d.contains x) = true) : ∀ x, x ∈ xs → x ∈ d := by
  intro x hx
  have := List.all_eq_true.mp h x hx
  simpa using this

/-- one step keeps the two runs in agreement, and they deliver the same events -/
theorem agree_step {V : Type} (o : Oracles V) (L : Listener) (t : String) (st : Step) {d : List String}
    {s₁ s₂ : State V} (h : Agree d s₁ s₂) (hr : ∀ x, x ∈ reads L st → x ∈ d) :
    Agree (writes L st ++ d) (stepT o L t st s₁).1 (stepT o L t st s₂).1 ∧
      (stepT o L t st s₁).2 = (stepT o L t st s₂).2 := by
  cases st with
  | assignText f => exact ⟨agree_set h f rfl, rfl⟩
  | clear f => exact ⟨agree_set h f rfl, rfl⟩
  | reset f => exact ⟨agree_set h f rfl, rfl⟩
  | other n => exact ⟨h, rfl⟩
  | make f cls ut deps =>
    refine ⟨?_, rfl⟩
    simp only [stepT, writes]
    exact agree_set h f (by rw [agree_map h deps hr])
  | push f srcs =>
    refine ⟨?_, rfl⟩
    simp only [stepT, writes]
    have hf : s₁ f = s₂ f := h f (hr f (List.mem_cons_self ..))
    have hs : srcs.map s₁ = srcs.map s₂ := agree_map h srcs (fun x hx => hr x (List.mem_cons_of_mem _ hx))
    exact agree_set h f (by rw [hf, hs])
  | ret x =>
    refine ⟨?_, rfl⟩
    simp only [stepT, writes]
    exact agree_set h retSlot (by rw [h x (hr x (List.mem_cons_self ..))])
  | call f m into =>
    have hf : s₁ f = s₂ f := h f (hr f (List.mem_cons_self ..))
    have he : L.errSlot ∈ d := hr _ (List.mem_cons_of_mem _ (List.mem_cons_self ..))
    have hrd : ∀ x, x ∈ L.reads → x ∈ d := fun x hx =>
      hr x (List.mem_cons_of_mem _ (List.mem_cons_of_mem _ hx))
    simp only [stepT, writes, hf, and_true]
    have h1 := agree_fold o L he hrd (o.events m (s₂ f)) h
    have h2 := agree_set h1 f (v₁ := o.call m (s₂ f)) rfl
    cases into with
    | none =>
      exact h2.mono (by
        intro g hg
        simp only [Option.toList, List.cons_append, List.nil_append, List.mem_cons] at hg
        rcases hg with rfl | rfl | hg
        · exact List.mem_cons_self ..
        · exact List.mem_cons_of_mem _ he
        · exact List.mem_cons_of_mem _ hg)
    | some x =>
      have h3 := agree_set h2 x (v₁ := o.result m (s₂ f)) rfl
      exact h3.mono (by
        intro g hg
        simp only [Option.toList, List.cons_append, List.nil_append, List.mem_cons] at hg
        rcases hg with rfl | rfl | rfl | hg
        · exact List.mem_cons_of_mem _ (List.mem_cons_self ..)
        · exact List.mem_cons_of_mem _ (List.mem_cons_of_mem _ he)
        · exact List.mem_cons_self ..
        · exact List.mem_cons_of_mem _ (List.mem_cons_of_mem _ hg))

theorem agree_run {V : Type} (o : Oracles V) (L : Listener) (t : String) (steps : List Step) :
    ∀ {d d' : List String} {s₁ s₂ : State V}, Agree d s₁ s₂ → defined L d steps = some d' →
      Agree d' (run o L t steps s₁).1 (run o L t steps s₂).1 ∧ (run o L t steps s₁).2 = (run o L t steps s₂).2 := by
  induction steps with
  | nil =>
    intro d d' s₁ s₂ h hd
    simp only [defined, Option.some.injEq] at hd
    subst hd
    exact ⟨h, rfl⟩
  | cons st r ih =>
    intro d d' s₁ s₂ h hd
    simp only [defined] at hd
    split at hd
    · rename_i hall
      have hs := agree_step o L t st h (all_contains hall)
      have hr := ih hs.1 hd
      simp only [run]
      exact ⟨hr.1, by rw [hs.2, hr.2]⟩
    · exact absurd hd (by simp)

/-- **General theorem**: a step list that passes `historyFree` leaves, in every slot of `fields`, a
    content that does not depend on the state left by earlier parses — for every interpretation of
    the opaque parts and every text. -/
theorem exec_history_free {V : Type} (o : Oracles V) (L : Listener) (steps : List Step) (fields : List String)
    (hf : historyFree L steps fields = true) (t : String) (s₁ s₂ : State V) :
    observable fields (exec o L t steps s₁) = observable fields (exec o L t steps s₂) ∧
      (run o L t steps s₁).2 = (run o L t steps s₂).2 := by
  unfold historyFree at hf
  split at hf
  · rename_i d hd
    have h0 : Agree ([] : List String) s₁ s₂ := fun f hf => absurd hf (by simp)
    have := agree_run o L t steps h0 hd
    exact ⟨agree_map this.1 fields (all_contains hf), this.2⟩
  · exact absurd hf (by simp)

/-! ## the recorded error is the first event of this parse -/

/-- what the error slot must hold after a parse of `t` that delivered `evs` -/
def firstErr {V : Type} (o : Oracles V) (L : Listener) (t : String) : List Ev → V
  | [] => o.none
  | e :: _ => o.mkErr e (L.reads.map (fun _ => o.ofText t))

/-- a slot the listener owns or reads: nothing else may write it once the runtime has been called -/
def Protected (L : Listener) (f : String) : Prop := f = L.errSlot ∨ f ∈ L.reads

instance (L : Listener) (f : String) : Decidable (Protected L f) := by unfold Protected; infer_instance

/-- flags of the discipline: `fe` = error slot was reset in this parse, `called` = a call into the
    runtime happened, `est` = listener-read slots already assigned from the text.  `none` = the step
    breaks the discipline. -/
def flagStep (L : Listener) (fe called : Bool) (est : List String) : Step → Option (Bool × Bool × List String)
  | .reset f =>
      if f = L.errSlot then (if called = true then Option.none else some (true, called, est))
      else if f ∈ L.reads then Option.none else some (fe, called, est)
  | .assignText f =>
      if f = L.errSlot then Option.none
      else if f ∈ L.reads then (if called = true then Option.none else some (fe, called, f :: est))
      else some (fe, called, est)
  | .clear f | .make f _ _ _ | .push f _ => if Protected L f then Option.none else some (fe, called, est)
  | .ret _ => if Protected L retSlot then Option.none else some (fe, called, est)
  | .other _ => some (fe, called, est)
  | .call f _ into =>
      if Protected L f then Option.none
      else if (∃ x, into = some x ∧ Protected L x) then Option.none
      else if fe = true ∧ (∀ x, x ∈ L.reads → x ∈ est) then some (fe, true, est) else Option.none

/-- decidable discipline: the error slot is `reset` and every slot the listener reads is assigned
    from `text`, both before the first call into the runtime, and neither is written by anything but
    the listener afterwards. -/
def errDiscipline (L : Listener) : Bool → Bool → List String → List Step → Bool
  | fe, _, _, [] => fe
  | fe, called, est, st :: r =>
    match flagStep L fe called est st with
    | Option.none => false
    | some (fe', called', est') => errDiscipline L fe' called' est' r

/-- invariant carried along the steps (`evs` = events delivered so far) -/
structure Inv {V : Type} (o : Oracles V) (L : Listener) (t : String) (fe called : Bool) (est : List String)
    (s : State V) (evs : List Ev) : Prop where
  err : fe = true → s L.errSlot = firstErr o L t evs
  txt : ∀ r, r ∈ est → s r = o.ofText t
  quiet : called = false → evs = []
  sub : ∀ r, r ∈ est → r ∈ L.reads

theorem set_other {V : Type} (s : State V) {f g : String} (v : V) (h : g ≠ f) : set s f v g = s g := by
  unfold set; simp [h]

theorem set_same {V : Type} (s : State V) (f : String) (v : V) : set s f v f = v := by
  unfold set; simp

/-- writing a slot that is neither the error slot nor read by the listener keeps the invariant -/
theorem Inv.set_irrelevant {V : Type} {o : Oracles V} {L : Listener} {t : String} {fe called : Bool}
    {est : List String} {s : State V} {evs : List Ev} (h : Inv o L t fe called est s evs)
    (f : String) (v : V) (hp : ¬ Protected L f) :
    Inv o L t fe called est (set s f v) evs where
  err := fun hfe => by
    have : L.errSlot ≠ f := fun e => hp (Or.inl e.symm)
    rw [set_other _ _ this]; exact h.err hfe
  txt := fun r hr => by
    have : r ≠ f := fun e => hp (Or.inr (e ▸ h.sub r hr))
    rw [set_other _ _ this]; exact h.txt r hr
  quiet := h.quiet
  sub := h.sub

theorem map_est {V : Type} {o : Oracles V} {L : Listener} {t : String} {est : List String} {s : State V}
    (htxt : ∀ r, r ∈ est → s r = o.ofText t) (hall : ∀ x, x ∈ L.reads → x ∈ est) :
    L.reads.map s = L.reads.map (fun _ => o.ofText t) := by
  apply List.map_congr_left
  intro r hr
  exact htxt r (hall r hr)

/-- the listener fold, with the guard, turns `firstErr evs₀` into `firstErr (evs₀ ++ evs)` and leaves
    every other slot alone -/
theorem fold_listen {V : Type} (o : Oracles V) (law : Lawful o) (L : Listener) (hg : L.guarded = true)
    (t : String) (est : List String) (hall : ∀ x, x ∈ L.reads → x ∈ est)
    (hne : ∀ r, r ∈ est → r ≠ L.errSlot) :
    ∀ (evs evs₀ : List Ev) (s : State V), s L.errSlot = firstErr o L t evs₀ → (∀ r, r ∈ est → s r = o.ofText t) →
      (evs.foldl (listen o L) s) L.errSlot = firstErr o L t (evs₀ ++ evs) ∧
      (∀ g, g ≠ L.errSlot → (evs.foldl (listen o L) s) g = s g) := by
  intro evs
  induction evs with
  | nil => intro evs₀ s h _; simp [h]
  | cons e r ih =>
    intro evs₀ s h htxt
    simp only [List.foldl_cons]
    have key : (listen o L s e) L.errSlot = firstErr o L t (evs₀ ++ [e]) ∧
        (∀ g, g ≠ L.errSlot → (listen o L s e) g = s g) := by
      unfold listen
      cases evs₀ with
      | nil =>
        have hn : o.isNone (s L.errSlot) = true := by rw [h]; exact law.none_isNone
        simp only [hn, hg, Bool.not_true, Bool.and_false, Bool.false_eq_true, if_false]
        refine ⟨?_, fun g hgne => set_other _ _ hgne⟩
        rw [set_same]
        simp only [List.nil_append, firstErr]
        rw [map_est htxt hall]
      | cons e0 r0 =>
        have hn : o.isNone (s L.errSlot) = false := by rw [h]; exact law.err_notNone _ _
        simp only [hn, hg, Bool.not_false, Bool.and_true, if_true]
        refine ⟨?_, ?_⟩
        · rw [h]; rfl
        · intros; first | trivial | rfl
    have htxt' : ∀ r, r ∈ est → (listen o L s e) r = o.ofText t := by
      intro x hx; rw [key.2 x (hne x hx)]; exact htxt x hx
    have := ih (evs₀ ++ [e]) (listen o L s e) key.1 htxt'
    refine ⟨by rw [this.1]; simp, fun g hgne => ?_⟩
    rw [this.2 g hgne, key.2 g hgne]

/-- one step that respects the discipline carries the invariant to the new flags -/
theorem flagStep_inv {V : Type} (o : Oracles V) (law : Lawful o) (L : Listener) (hg : L.guarded = true)
    (hnr : L.errSlot ∉ L.reads) (t : String) (st : Step) {fe called fe' called' : Bool} {est est' : List String}
    {s : State V} {evs₀ : List Ev} (inv : Inv o L t fe called est s evs₀)
    (hfs : flagStep L fe called est st = some (fe', called', est')) :
    Inv o L t fe' called' est' (stepT o L t st s).1 (evs₀ ++ (stepT o L t st s).2) := by
  have hne : ∀ r, r ∈ est → r ≠ L.errSlot := fun r hr e => hnr (e ▸ inv.sub r hr)
  cases st with
  | other n =>
    simp only [flagStep, Option.some.injEq, Prod.mk.injEq] at hfs
    obtain ⟨rfl, rfl, rfl⟩ := hfs
    simpa [stepT] using inv
  | reset f =>
    simp only [flagStep] at hfs
    split at hfs
    · rename_i hf
      split at hfs
      · exact absurd hfs (by simp)
      · rename_i hcalled
        simp only [Option.some.injEq, Prod.mk.injEq] at hfs
        obtain ⟨rfl, rfl, rfl⟩ := hfs
        have hq : evs₀ = [] := inv.quiet (by simpa using hcalled)
        subst hq; subst hf
        simp only [stepT, List.append_nil]
        exact { err := fun _ => by rw [set_same]; rfl
                txt := fun x hx => by rw [set_other _ _ (hne x hx)]; exact inv.txt x hx
                quiet := fun _ => rfl
                sub := inv.sub }
    · rename_i hf
      split at hfs
      · exact absurd hfs (by simp)
      · rename_i hrd
        simp only [Option.some.injEq, Prod.mk.injEq] at hfs
        obtain ⟨rfl, rfl, rfl⟩ := hfs
        simp only [stepT, List.append_nil]
        exact inv.set_irrelevant f o.none (fun h => h.elim hf hrd)
  | assignText f =>
    simp only [flagStep] at hfs
    split at hfs
    · exact absurd hfs (by simp)
    · rename_i hf
      split at hfs
      · rename_i hrd
        split at hfs
        · exact absurd hfs (by simp)
        · rename_i hcalled
          simp only [Option.some.injEq, Prod.mk.injEq] at hfs
          obtain ⟨rfl, rfl, rfl⟩ := hfs
          have hq : evs₀ = [] := inv.quiet (by simpa using hcalled)
          subst hq
          simp only [stepT, List.append_nil]
          exact { err := fun hfe => by rw [set_other _ _ (Ne.symm hf)]; exact inv.err hfe
                  txt := fun x hx => by
                    by_cases e : x = f
                    · subst e; rw [set_same]
                    · rw [set_other _ _ e]
                      cases hx with
                      | head => exact absurd rfl e
                      | tail _ h' => exact inv.txt x h'
                  quiet := fun _ => rfl
                  sub := fun x hx => by
                    cases hx with
                    | head => exact hrd
                    | tail _ h' => exact inv.sub x h' }
      · rename_i hrd
        simp only [Option.some.injEq, Prod.mk.injEq] at hfs
        obtain ⟨rfl, rfl, rfl⟩ := hfs
        simp only [stepT, List.append_nil]
        exact inv.set_irrelevant f _ (fun h => h.elim hf hrd)
  | clear f =>
    simp only [flagStep] at hfs
    split at hfs
    · exact absurd hfs (by simp)
    · rename_i hp
      simp only [Option.some.injEq, Prod.mk.injEq] at hfs
      obtain ⟨rfl, rfl, rfl⟩ := hfs
      simp only [stepT, List.append_nil]
      exact inv.set_irrelevant f _ hp
  | make f cls ut deps =>
    simp only [flagStep] at hfs
    split at hfs
    · exact absurd hfs (by simp)
    · rename_i hp
      simp only [Option.some.injEq, Prod.mk.injEq] at hfs
      obtain ⟨rfl, rfl, rfl⟩ := hfs
      simp only [stepT, List.append_nil]
      exact inv.set_irrelevant f _ hp
  | push f srcs =>
    simp only [flagStep] at hfs
    split at hfs
    · exact absurd hfs (by simp)
    · rename_i hp
      simp only [Option.some.injEq, Prod.mk.injEq] at hfs
      obtain ⟨rfl, rfl, rfl⟩ := hfs
      simp only [stepT, List.append_nil]
      exact inv.set_irrelevant f _ hp
  | ret x =>
    simp only [flagStep] at hfs
    split at hfs
    · exact absurd hfs (by simp)
    · rename_i hp
      simp only [Option.some.injEq, Prod.mk.injEq] at hfs
      obtain ⟨rfl, rfl, rfl⟩ := hfs
      simp only [stepT, List.append_nil]
      exact inv.set_irrelevant retSlot _ hp
  | call f m into =>
    simp only [flagStep] at hfs
    split at hfs
    · exact absurd hfs (by simp)
    · rename_i hp
      split at hfs
      · exact absurd hfs (by simp)
      · rename_i hinto
        split at hfs
        · rename_i hok
          simp only [Option.some.injEq, Prod.mk.injEq] at hfs
          obtain ⟨rfl, rfl, rfl⟩ := hfs
          obtain ⟨hfe, hall⟩ := hok
          have hfold := fold_listen o law L hg t est hall hne (o.events m (s f)) evs₀ s (inv.err hfe) inv.txt
          have inv1 : Inv o L t fe true est ((o.events m (s f)).foldl (listen o L) s) (evs₀ ++ o.events m (s f)) :=
            { err := fun _ => hfold.1
              txt := fun x hx => by rw [hfold.2 x (hne x hx)]; exact inv.txt x hx
              quiet := fun h => absurd h (by simp)
              sub := inv.sub }
          have inv2 := inv1.set_irrelevant f (o.call m (s f)) hp
          cases into with
          | none => simpa [stepT] using inv2
          | some x =>
            have hx : ¬ Protected L x := fun h => hinto ⟨x, rfl, h⟩
            simpa [stepT] using inv2.set_irrelevant x (o.result m (s f)) hx
        · exact absurd hfs (by simp)

/-- **General theorem**: with the first-error guard and the discipline above, after the steps the
    error slot holds exactly the first event delivered during THIS run (built from THIS text), or is
    empty when no event was delivered — whatever the previous state was. -/
theorem run_first_error {V : Type} (o : Oracles V) (law : Lawful o) (L : Listener) (hg : L.guarded = true)
    (hnr : L.errSlot ∉ L.reads) (t : String) (steps : List Step) :
    ∀ (fe called : Bool) (est : List String) (s : State V) (evs₀ : List Ev),
      Inv o L t fe called est s evs₀ → errDiscipline L fe called est steps = true →
      (run o L t steps s).1 L.errSlot = firstErr o L t (evs₀ ++ (run o L t steps s).2) := by
  induction steps with
  | nil =>
    intro fe called est s evs₀ inv hd
    simp only [errDiscipline] at hd
    simp only [run, List.append_nil]
    exact inv.err hd
  | cons st r ih =>
    intro fe called est s evs₀ inv hd
    simp only [errDiscipline] at hd
    split at hd
    · exact absurd hd (by simp)
    · rename_i fe' called' est' hfs
      have inv' := flagStep_inv o law L hg hnr t st inv hfs
      have := ih fe' called' est' _ _ inv' hd
      simp only [run]
      rw [this, List.append_assoc]

theorem exec_first_error {V : Type} (o : Oracles V) (law : Lawful o) (L : Listener) (hg : L.guarded = true)
    (hnr : L.errSlot ∉ L.reads) (steps : List Step)
    (hd : errDiscipline L false false [] steps = true) (t : String) (s : State V) :
    exec o L t steps s L.errSlot = firstErr o L t (run o L t steps s).2 := by
  have inv : Inv o L t false false [] s [] :=
    { err := fun h => absurd h (by simp), txt := fun r hr => absurd hr (by simp), quiet := fun _ => rfl,
      sub := fun r hr => absurd hr (by simp) }
  have := run_first_error o law L hg hnr t steps false false [] s [] inv hd
  simpa [exec] using this

/-! ## a concrete interpretation (terms as strings) for executable witnesses

`demo`: every slot content is rendered as a string; the runtime delivers one syntax-error event per
`@` character of the text the receiver was (transitively) built from, when the method is `start`
(the parse) — enough to exhibit "parse an invalid text, then a valid one". -/

def joinWith (sep : String) : List String → String
  | [] => ""
  | [x] => x
  | x :: r => x ++ sep ++ joinWith sep r

def atEvents (s : String) : List Ev :=
  let rec go : List Char → Nat → List Ev
    | [], _ => []
    | c :: r, i => if c = '@' then { line := 1, cpos := i, msg := "token recognition error at: '@'" } :: go r (i + 1) else go r (i + 1)
  go s.toList 0

def demo : Oracles String where
  none := "none"
  empty := "[]"
  ofText t := "text<" ++ t ++ ">"
  make cls args := cls ++ "(" ++ joinWith "," args ++ ")"
  call m v := v ++ "." ++ m
  result m v := "result:" ++ m ++ ":" ++ v
  events m v := if m = "start" then atEvents v else []
  mkErr e vs := "err@" ++ toString e.cpos ++ "{" ++ joinWith "," vs ++ "}"
  isNone v := v == "none"
  push v srcs := v ++ "+comments(" ++ joinWith "," srcs ++ ")"
  wrap v := "node:" ++ v

/-- parse the texts one after the other, starting from `s₀`; observable after each parse -/
def parseSeq {V : Type} (o : Oracles V) (L : Listener) (steps : List Step) (fields : List String) :
    State V → List String → List (List V)
  | _, [] => []
  | s, t :: r => let s' := exec o L t steps s; observable fields s' :: parseSeq o L steps fields s' r

def initState : State String := fun _ => "uninit"

/-- `needle` occurs in `hay` as a (not necessarily contiguous) subsequence -/
def isSubseq : List Step → List Step → Bool
  | [], _ => true
  | _ :: _, [] => false
  | a :: r, b :: hay => if a = b then isSubseq r hay else isSubseq (a :: r) hay

/-- the state of a process that has not parsed yet: empty optional, empty vector, null pointers -/
def freshState (L : Listener) : State String :=
  fun f => if f = L.errSlot then demo.none else if f = "comments" then demo.empty else "null"

/-- a second, string-free interpretation small enough for kernel-checked examples: the text `"bad"`
    is the only invalid one (marker 7 travels from the text into every object built from it); an
    error is `9 :: …`, every comment loop appends one 5 -/
def tiny : Oracles (List Nat) where
  none := []
  empty := [1]
  ofText t := if t = "bad" then [7] else [0]
  make _ args := args.flatten
  call _ v := v
  result _ v := v
  events m v := if m = "start" && v.contains 7 then [{ line := 1, cpos := 0, msg := "" }] else []
  mkErr _ vs := 9 :: vs.flatten
  isNone v := v.isEmpty
  push v _ := v ++ [5]
  wrap v := v

theorem tiny_lawful : Lawful tiny := ⟨rfl, fun _ _ => rfl⟩

def tinyInit : State (List Nat) := fun _ => [3]

end VtlModel.Text.ParserState

/-
  C24 — lemmas about `Text/Pretty.lean`:
  * completeness of the parser on rendered normal-form trees (`expr_ok`, `args_ok`, `tail_ok`):
    by mutual structural recursion on the tree, generalised over the loop continuation
    ("if the operator loop started with `e` as left operand ends in `res` for every large enough fuel,
    then parsing the tokens of `e` first ends in `res` too");
  * fuel bound (`cost_le`);
  * soundness of the parser (`sound_all`): whatever it accepts, `render` prints back token by token.
-/
import VtlModel.Text.Pretty
namespace VtlModel.Text

def sprec : List Tok → Nat
  | .lb :: _ => precClause
  | .hash :: _ => precMemb
  | .sym s :: _ =>
      match s.toBin with
      | some o => o.prec
      | none => match s.toIn with
                | some _ => precIn
                | none => 0
  | _ => 0

def follow : List Tok → Bool
  | [] => true
  | .rp :: _ | .rb :: _ | .comma :: _ | .sym _ :: _ | .hash :: _ | .lb :: _ => true
  | _ => false

theorem loop_stops (n p : Nat) (l : Expr) (rest : List Tok)
    (h : sprec rest = 0 ∨ sprec rest < p) : parseLoop (n+1) p l rest = some (l, rest) := by
  cases rest with
  | nil => simp [parseLoop]
  | cons t ts =>
    cases t <;> try (simp [parseLoop]; done)
    case lb =>
      have hp : ¬ p ≤ precClause := by
        rcases h with h | h <;> simp [sprec, precClause] at h ⊢ <;> omega
      cases ts with
      | nil => simp [parseLoop]
      | cons t2 ts2 => cases t2 <;> simp [parseLoop, hp]
    case hash =>
      have hp : ¬ p ≤ precMemb := by
        rcases h with h | h <;> simp [sprec, precMemb] at h ⊢ <;> omega
      cases ts with
      | nil => simp [parseLoop]
      | cons t2 ts2 => cases t2 <;> simp [parseLoop, hp]
    case sym s =>
      simp only [parseLoop]
      cases hb : s.toBin with
      | some o =>
        have hp : ¬ p ≤ o.prec := by
          rcases h with h | h
          · simp [sprec, hb] at h; cases o <;> simp [BinOp.prec] at h
          · simp [sprec, hb] at h; omega
        simp [hp]
      | none =>
        cases hi : s.toIn with
        | none => simp
        | some neg =>
          have hp : ¬ p ≤ precIn := by
            rcases h with h | h <;> simp [sprec, hb, hi, precIn] at h ⊢ <;> omega
          simp [hp]


def closes : List Tok → Bool
  | .rp :: _ | .rb :: _ => true
  | _ => false

mutual
  def cost : Expr → Nat
    | .const _ => 2
    | .var _ => 2
    | .un _ e => cost e + 3
    | .par e => cost e + 3
    | .asg _ e => cost e + 3
    | .bin _ l r => cost l + cost r + 2
    | .call _ as => costArgs as + 3
    | .memb e _ => cost e + 1
    | .isin _ e _ => cost e + 1
    | .clause e _ b => cost e + costArgs b + 1
  def costArgs : Args → Nat
    | .nil => 1
    | .cons e r => cost e + costTail r + 2
  def costTail : Args → Nat
    | .nil => 1
    | .cons e r => cost e + costTail r + 2
end

theorem rlevel_pos (e : Expr) : 0 < e.rlevel := by
  cases e <;> simp [Expr.rlevel, precUnary]

theorem rlevel_ge (r : Expr) (q : Nat) (h : q ≤ r.prec) (hq : q ≤ precUnary) : q ≤ r.rlevel := by
  cases r <;> simp [Expr.rlevel, Expr.prec, precUnary, precClause, precMemb, precIn] at * <;> omega

theorem toBin_sym (o : BinOp) : o.sym.toBin = some o := by cases o <;> rfl
theorem toUn_sym (o : UnOp) : o.sym.toUn = some o := by cases o <;> rfl
theorem binprec_le (o : BinOp) : o.prec ≤ 10 := by cases o <;> simp [BinOp.prec]
theorem binprec_pos (o : BinOp) : 5 ≤ o.prec := by cases o <;> simp [BinOp.prec]

theorem primary_var (m : Nat) (x : String) (rest : List Tok) (h : follow rest = true) :
    parsePrimary (m+1) (.id x :: rest) = some (.var x, rest) := by
  cases rest with
  | nil => simp [parsePrimary]
  | cons t ts => cases t <;> simp_all [parsePrimary, follow]

theorem closes_follow (rest : List Tok) (h : closes rest = true) : follow rest = true := by
  cases rest with
  | nil => simp [closes] at h
  | cons t ts => cases t <;> simp_all [closes, follow]

theorem closes_sprec (rest : List Tok) (h : closes rest = true) : sprec rest = 0 := by
  cases rest with
  | nil => simp [sprec]
  | cons t ts => cases t <;> simp_all [closes, sprec]

theorem closes_noexpr (rest : List Tok) (h : closes rest = true) (k : Nat) : parseExpr k 0 rest = none := by
  cases rest with
  | nil => simp [closes] at h
  | cons t ts =>
    cases k with
    | zero => simp [parseExpr]
    | succ k =>
      cases k with
      | zero => simp [parseExpr, parsePrimary]
      | succ k => cases t <;> simp_all [closes, parseExpr, parsePrimary]

theorem closes_tail (rest : List Tok) (h : closes rest = true) (k : Nat) :
    parseTail (k+1) rest = some (.nil, rest) := by
  cases rest with
  | nil => simp [closes] at h
  | cons t ts => cases t <;> simp_all [closes, parseTail]

theorem items_ok (items : List String) (h : items ≠ []) (rest : List Tok) :
    parseItems (renderItems items ++ .rc :: rest) = some (items, rest) := by
  induction items with
  | nil => exact absurd rfl h
  | cons c cs ih =>
    cases cs with
    | nil => simp [renderItems, parseItems]
    | cons c2 cs2 =>
      have := ih (by simp)
      simp [renderItems, parseItems] at this ⊢
      simp [this]

theorem tail_follow (r : Args) (rest : List Tok) (h : closes rest = true) :
    follow (renderTail r ++ rest) = true ∧ sprec (renderTail r ++ rest) = 0 := by
  cases r with
  | nil => simp [renderTail, closes_follow rest h, closes_sprec rest h]
  | cons e r' => simp [renderTail, follow, sprec]



theorem stops1 (p : Nat) (e : Expr) (rest : List Tok) (h : sprec rest = 0 ∨ sprec rest < p) :
    ∀ n, 1 ≤ n → parseLoop n p e rest = some (e, rest) := by
  intro n hn
  obtain ⟨m, rfl⟩ : ∃ m, n = m + 1 := ⟨n - 1, by omega⟩
  exact loop_stops m p e rest h

mutual
  theorem expr_ok : (e : Expr) → NF e → ∀ (p : Nat), p ≤ e.prec → ∀ rest, follow rest = true →
      sprec rest < e.rlevel → ∀ res N, (∀ n, N ≤ n → parseLoop n p e rest = some res) →
      ∀ n, N + cost e ≤ n → parseExpr n p (render e ++ rest) = some res
    | .const c, _, p, _, rest, _, _, res, N, hloop, n, hn => by
        simp only [cost] at hn
        obtain ⟨m, rfl⟩ : ∃ m, n = m + 2 := ⟨n - 2, by omega⟩
        simp only [render, List.cons_append, List.nil_append, parseExpr, parsePrimary]
        exact hloop (m+1) (by omega)
    | .var x, _, p, _, rest, hf, _, res, N, hloop, n, hn => by
        simp only [cost] at hn
        obtain ⟨m, rfl⟩ : ∃ m, n = m + 2 := ⟨n - 2, by omega⟩
        simp only [render, List.cons_append, List.nil_append, parseExpr, primary_var m x rest hf]
        exact hloop (m+1) (by omega)
    | .un o e, hnf, p, _, rest, hf, hs, res, N, hloop, n, hn => by
        simp only [NF] at hnf
        obtain ⟨he, hpe⟩ := hnf
        simp only [Expr.rlevel] at hs
        simp only [cost] at hn
        obtain ⟨k, rfl⟩ : ∃ k, n = k + 2 := ⟨n - 2, by omega⟩
        have h1 := expr_ok e he precUnary hpe rest hf
          (Nat.lt_of_lt_of_le hs (rlevel_ge e precUnary hpe (Nat.le_refl _))) (e, rest) 1
          (stops1 precUnary e rest (Or.inr hs)) k (by omega)
        simp only [render, List.cons_append, parseExpr, parsePrimary, toUn_sym, h1]
        exact hloop (k+1) (by omega)
    | .bin o l r, hnf, p, hp, rest, hf, hs, res, N, hloop, n, hn => by
        simp only [NF] at hnf
        obtain ⟨hl, hr, hpl, hpr⟩ := hnf
        simp only [Expr.prec] at hp
        simp only [Expr.rlevel] at hs
        simp only [cost] at hn
        simp only [render, List.append_assoc, List.cons_append]
        have hbp := binprec_le o
        have hb := toBin_sym o
        apply expr_ok l hl p (by omega) (.sym o.sym :: (render r ++ rest)) rfl
          (by simp only [sprec, hb]; exact hpl)
          res (N + cost r + 2) _ n (by omega)
        intro k hk
        obtain ⟨k', rfl⟩ : ∃ k', k = k' + 1 := ⟨k - 1, by omega⟩
        have h1 := expr_ok r hr (o.prec + 1) hpr rest hf
          (Nat.lt_of_lt_of_le hs (rlevel_ge r (o.prec + 1) hpr (by simp [precUnary]; omega))) (r, rest) 1
          (stops1 (o.prec + 1) r rest (Or.inr hs)) k' (by omega)
        have hp1 : p ≤ o.prec := by omega
        simp only [parseLoop, hb, hp1, if_true, h1]
        exact hloop k' (by omega)
    | .par e, hnf, p, _, rest, _, _, res, N, hloop, n, hn => by
        simp only [NF] at hnf
        simp only [cost] at hn
        obtain ⟨k, rfl⟩ : ∃ k, n = k + 2 := ⟨n - 2, by omega⟩
        have h1 := expr_ok e hnf 0 (Nat.zero_le _) (.rp :: rest) rfl (rlevel_pos e) (e, .rp :: rest) 1
          (stops1 0 e (.rp :: rest) (Or.inl rfl)) k (by omega)
        simp only [render, List.append_assoc, List.cons_append, List.nil_append, parseExpr, parsePrimary, h1]
        exact hloop (k+1) (by omega)
    | .asg x e, hnf, p, _, rest, hf, hs, res, N, hloop, n, hn => by
        simp only [NF] at hnf
        simp only [Expr.rlevel] at hs
        simp only [cost] at hn
        have hs0 : sprec rest = 0 := by omega
        obtain ⟨k, rfl⟩ : ∃ k, n = k + 2 := ⟨n - 2, by omega⟩
        have h1 := expr_ok e hnf 0 (Nat.zero_le _) rest hf (by rw [hs0]; exact rlevel_pos e) (e, rest) 1
          (stops1 0 e rest (Or.inl hs0)) k (by omega)
        simp only [render, List.cons_append, parseExpr, parsePrimary, h1]
        exact hloop (k+1) (by omega)
    | .call f as, hnf, p, _, rest, _, _, res, N, hloop, n, hn => by
        simp only [NF] at hnf
        simp only [cost] at hn
        obtain ⟨k, rfl⟩ : ∃ k, n = k + 2 := ⟨n - 2, by omega⟩
        have h1 := args_ok as hnf (.rp :: rest) rfl k (by omega)
        simp only [render, List.append_assoc, List.cons_append, List.nil_append, parseExpr, parsePrimary, h1]
        exact hloop (k+1) (by omega)
    | .memb e c, hnf, p, hp, rest, _, _, res, N, hloop, n, hn => by
        simp only [NF] at hnf
        obtain ⟨he, hpe⟩ := hnf
        simp only [Expr.prec] at hp
        simp only [cost] at hn
        simp only [render, List.append_assoc, List.cons_append, List.nil_append]
        apply expr_ok e he p (by omega) (.hash :: .id c :: rest) rfl
          (by simp only [sprec]; exact hpe)
          res (N + 1) _ n (by omega)
        intro k hk
        obtain ⟨k', rfl⟩ : ∃ k', k = k' + 1 := ⟨k - 1, by omega⟩
        have hp1 : p ≤ precMemb := by omega
        simp only [parseLoop, hp1, if_true]
        exact hloop k' (by omega)
    | .isin neg e items, hnf, p, hp, rest, _, _, res, N, hloop, n, hn => by
        simp only [NF] at hnf
        obtain ⟨he, hpe, hi⟩ := hnf
        simp only [Expr.prec] at hp
        simp only [cost] at hn
        simp only [render, List.append_assoc, List.cons_append, List.nil_append]
        have hb : (inSym neg).toBin = none := by cases neg <;> rfl
        have hin : (inSym neg).toIn = some neg := by cases neg <;> rfl
        apply expr_ok e he p (by omega) (.sym (inSym neg) :: .lc :: (renderItems items ++ .rc :: rest)) rfl
          (by simp only [sprec, hb, hin]; exact hpe)
          res (N + 1) _ n (by omega)
        intro k hk
        obtain ⟨k', rfl⟩ : ∃ k', k = k' + 1 := ⟨k - 1, by omega⟩
        have hp1 : p ≤ precIn := by omega
        simp only [parseLoop, hb, hin, hp1, if_true, items_ok items hi rest]
        exact hloop k' (by omega)
    | .clause e kw body, hnf, p, hp, rest, _, _, res, N, hloop, n, hn => by
        simp only [NF] at hnf
        obtain ⟨he, hpe, hb⟩ := hnf
        simp only [Expr.prec] at hp
        simp only [cost] at hn
        simp only [render, List.append_assoc, List.cons_append, List.nil_append]
        apply expr_ok e he p (by omega) (.lb :: .kw kw :: (renderArgs body ++ .rb :: rest)) rfl
          (by simp only [sprec]; exact hpe)
          res (N + costArgs body + 1) _ n (by omega)
        intro k hk
        obtain ⟨k', rfl⟩ : ∃ k', k = k' + 1 := ⟨k - 1, by omega⟩
        have h1 := args_ok body hb (.rb :: rest) rfl k' (by omega)
        have hp1 : p ≤ precClause := by omega
        simp only [parseLoop, hp1, if_true, h1]
        exact hloop k' (by omega)

  theorem args_ok : (as : Args) → NFArgs as → ∀ rest, closes rest = true →
      ∀ n, costArgs as ≤ n → parseArgs n (renderArgs as ++ rest) = some (as, rest)
    | .nil, _, rest, hc, n, hn => by
        simp only [costArgs] at hn
        obtain ⟨k, rfl⟩ : ∃ k, n = k + 1 := ⟨n - 1, by omega⟩
        simp only [renderArgs, List.nil_append, parseArgs, closes_noexpr rest hc k]
    | .cons e r, hnf, rest, hc, n, hn => by
        simp only [NFArgs] at hnf
        obtain ⟨he, hr⟩ := hnf
        simp only [costArgs] at hn
        obtain ⟨k, rfl⟩ : ∃ k, n = k + 1 := ⟨n - 1, by omega⟩
        have ht := tail_follow r rest hc
        have h1 := expr_ok e he 0 (Nat.zero_le _) (renderTail r ++ rest) ht.1
          (by rw [ht.2]; exact rlevel_pos e) (e, renderTail r ++ rest) 1
          (stops1 0 e _ (Or.inl ht.2)) k (by omega)
        have h2 := tail_ok r hr rest hc k (by omega)
        simp only [renderArgs, List.append_assoc, parseArgs, h1, h2]

  theorem tail_ok : (as : Args) → NFArgs as → ∀ rest, closes rest = true →
      ∀ n, costTail as ≤ n → parseTail n (renderTail as ++ rest) = some (as, rest)
    | .nil, _, rest, hc, n, hn => by
        simp only [costTail] at hn
        obtain ⟨k, rfl⟩ : ∃ k, n = k + 1 := ⟨n - 1, by omega⟩
        simp only [renderTail, List.nil_append, closes_tail rest hc k]
    | .cons e r, hnf, rest, hc, n, hn => by
        simp only [NFArgs] at hnf
        obtain ⟨he, hr⟩ := hnf
        simp only [costTail] at hn
        obtain ⟨k, rfl⟩ : ∃ k, n = k + 1 := ⟨n - 1, by omega⟩
        have ht := tail_follow r rest hc
        have h1 := expr_ok e he 0 (Nat.zero_le _) (renderTail r ++ rest) ht.1
          (by rw [ht.2]; exact rlevel_pos e) (e, renderTail r ++ rest) 1
          (stops1 0 e _ (Or.inl ht.2)) k (by omega)
        have h2 := tail_ok r hr rest hc k (by omega)
        simp only [renderTail, List.append_assoc, List.cons_append, parseTail, h1, h2]
end


mutual
  theorem cost_le : (e : Expr) → cost e ≤ 3 * (render e).length
    | .const _ => by simp [cost, render]
    | .var _ => by simp [cost, render]
    | .un _ e => by have := cost_le e; simp [cost, render]; omega
    | .par e => by have := cost_le e; simp [cost, render]; omega
    | .asg _ e => by have := cost_le e; simp [cost, render]; omega
    | .bin _ l r => by have := cost_le l; have := cost_le r; simp [cost, render]; omega
    | .call _ as => by have := costArgs_le as; simp [cost, render]; omega
    | .memb e _ => by have := cost_le e; simp [cost, render]; omega
    | .isin _ e _ => by have := cost_le e; simp [cost, render]; omega
    | .clause e _ b => by have := cost_le e; have := costArgs_le b; simp [cost, render]; omega
  theorem costArgs_le : (as : Args) → costArgs as ≤ 3 * (renderArgs as).length + 3
    | .nil => by simp [costArgs, renderArgs]
    | .cons e r => by have := cost_le e; have := costTail_le r; simp [costArgs, renderArgs]; omega
  theorem costTail_le : (as : Args) → costTail as ≤ 3 * (renderTail as).length + 1
    | .nil => by simp [costTail, renderTail]
    | .cons e r => by have := cost_le e; have := costTail_le r; simp [costTail, renderTail]; omega
end

/-- completeness: a normal-form tree is recovered from its own token stream -/
theorem parse_render_nf (e : Expr) (h : NF e) : parse (render e) = some e := by
  have hb := cost_le e
  have h1 := expr_ok e h 0 (Nat.zero_le _) [] rfl (rlevel_pos e) (e, []) 1
    (stops1 0 e [] (Or.inl rfl)) (fuelFor (render e)) (by simp only [fuelFor]; omega)
  simp only [List.append_nil] at h1
  simp only [parse, h1]

theorem items_sound : ∀ (ts : List Tok) (items : List String) (rest : List Tok),
    parseItems ts = some (items, rest) → ts = renderItems items ++ .rc :: rest ∧ items ≠ [] := by
  intro ts
  induction ts using parseItems.induct with
  | case1 c ts =>
    intro items rest h
    simp [parseItems] at h
    obtain ⟨rfl, rfl⟩ := h
    simp [renderItems]
  | case2 c ts cs ts' hrec ih =>
    intro items rest h
    simp [parseItems, hrec] at h
    obtain ⟨rfl, rfl⟩ := h
    obtain ⟨h1, h2⟩ := ih cs ts' hrec
    cases cs with
    | nil => exact absurd rfl h2
    | cons c2 cs2 => rw [h1]; simp [renderItems]
  | case3 c ts hrec =>
    intro items rest h
    simp [parseItems, hrec] at h
  | case4 ts h1 h2 =>
    intro items rest h
    simp [parseItems] at h

def Sound (n : Nat) : Prop :=
  (∀ p ts e rest, parseExpr n p ts = some (e, rest) → ts = render e ++ rest) ∧
  (∀ ts e rest, parsePrimary n ts = some (e, rest) → ts = render e ++ rest) ∧
  (∀ p l ts e rest, parseLoop n p l ts = some (e, rest) → render l ++ ts = render e ++ rest) ∧
  (∀ ts as rest, parseArgs n ts = some (as, rest) → ts = renderArgs as ++ rest) ∧
  (∀ ts as rest, parseTail n ts = some (as, rest) → ts = renderTail as ++ rest)

theorem toUn_some (s : Sym) (o : UnOp) (h : s.toUn = some o) : s = o.sym := by
  cases s <;> cases o <;> simp_all [Sym.toUn, UnOp.sym]
theorem toBin_some (s : Sym) (o : BinOp) (h : s.toBin = some o) : s = o.sym := by
  cases s <;> cases o <;> simp_all [Sym.toBin, BinOp.sym]
theorem toIn_some (s : Sym) (b : Bool) (h : s.toIn = some b) : s = inSym b := by
  cases s <;> cases b <;> simp_all [Sym.toIn, inSym]

theorem sound_all : ∀ n, Sound n := by
  intro n
  induction n with
  | zero => refine ⟨?_, ?_, ?_, ?_, ?_⟩ <;> intros <;> simp_all [parseExpr, parsePrimary, parseLoop, parseArgs, parseTail]
  | succ n ih =>
    obtain ⟨ihE, ihP, ihL, ihA, ihT⟩ := ih
    refine ⟨?_, ?_, ?_, ?_, ?_⟩
    · intro p ts e rest h
      simp only [parseExpr] at h
      split at h
      · rename_i l ts' hp
        rw [ihP ts l ts' hp]
        exact ihL p l ts' e rest h
      · simp at h
    · intro ts e rest h
      simp only [parsePrimary] at h
      split at h
      · simp at h; obtain ⟨rfl, rfl⟩ := h; simp [render]
      · split at h
        · rename_i as ts'' ha
          simp at h; obtain ⟨rfl, rfl⟩ := h
          rw [ihA _ _ _ ha]; simp [render]
        · simp at h
      · split at h
        · rename_i e' ts'' he
          simp at h; obtain ⟨rfl, rfl⟩ := h
          rw [ihE _ _ _ _ he]; simp [render]
        · simp at h
      · simp at h; obtain ⟨rfl, rfl⟩ := h; simp [render]
      · split at h
        · rename_i e' ts'' he
          simp at h; obtain ⟨rfl, rfl⟩ := h
          rw [ihE _ _ _ _ he]; simp [render]
        · simp at h
      · split at h
        · rename_i o ho
          split at h
          · rename_i e' ts'' he
            simp at h; obtain ⟨rfl, rfl⟩ := h
            rw [ihE _ _ _ _ he, toUn_some _ _ ho]; simp [render]
          · simp at h
        · simp at h
      · simp at h
    · intro p l ts e rest h
      simp only [parseLoop] at h
      split at h
      · split at h
        · split at h
          · rename_i as ts'' ha
            have := ihL _ _ _ _ _ h
            rw [ihA _ _ _ ha]
            simpa [render] using this
          · simp at h
        · simp at h; obtain ⟨rfl, rfl⟩ := h; rfl
      · split at h
        · have := ihL _ _ _ _ _ h
          simpa [render] using this
        · simp at h; obtain ⟨rfl, rfl⟩ := h; rfl
      · split at h
        · rename_i o ho
          split at h
          · split at h
            · rename_i r ts'' hr
              have := ihL _ _ _ _ _ h
              rw [ihE _ _ _ _ hr, toBin_some _ _ ho]
              simpa [render] using this
            · simp at h
          · simp at h; obtain ⟨rfl, rfl⟩ := h; rfl
        · split at h
          · rename_i neg hneg
            split at h
            · split at h
              · split at h
                · rename_i items ts3 hi
                  have := ihL _ _ _ _ _ h
                  rw [(items_sound _ _ _ hi).1, toIn_some _ _ hneg]
                  simpa [render] using this
                · simp at h
              · simp at h
            · simp at h; obtain ⟨rfl, rfl⟩ := h; rfl
          · simp at h; obtain ⟨rfl, rfl⟩ := h; rfl
      · simp at h; obtain ⟨rfl, rfl⟩ := h; rfl
    · intro ts as rest h
      simp only [parseArgs] at h
      split at h
      · simp at h; obtain ⟨rfl, rfl⟩ := h; simp [renderArgs]
      · rename_i e ts' he
        split at h
        · rename_i r ts'' hr
          simp at h; obtain ⟨rfl, rfl⟩ := h
          rw [ihE _ _ _ _ he, ihT _ _ _ hr]; simp [renderArgs]
        · simp at h
    · intro ts as rest h
      simp only [parseTail] at h
      split at h
      · split at h
        · rename_i e ts'' he
          split at h
          · rename_i r ts3 hr
            simp at h; obtain ⟨rfl, rfl⟩ := h
            rw [ihE _ _ _ _ he, ihT _ _ _ hr]; simp [renderTail]
          · simp at h
        · simp at h
      · simp at h; obtain ⟨rfl, rfl⟩ := h; simp [renderTail]

/-- soundness: an accepted token stream is exactly what `render` prints for the resulting tree -/
theorem render_parse_sound (ts : List Tok) (e : Expr) (h : parse ts = some e) : render e = ts := by
  simp only [parse] at h
  split at h
  · rename_i e' he
    simp at h; subst h
    have := (sound_all (fuelFor ts)).1 0 ts e' [] he
    simpa using this.symm
  · simp at h

end VtlModel.Text

/-
  Text/SchemeLemmas — helper lemmas for Props/C25.lean (core `List` lemmas only, no Mathlib).
  The loop of `ast_to_sdmx` (`foldl step`) is characterised by three structurally recursive
  functions that carry the running counter; everything in Props/C25 is derived from them.
-/
import VtlModel.Text.Scheme
namespace VtlModel.Text.Scheme

/-! constructor-wise values of the four classifiers (kept as `simp` lemmas so that the classifiers
are never unfolded under a binder) -/
@[simp] theorem isAssign_assign (p : Bool) (n e : String) : (Stmt.assign p n e).isAssign = true := rfl
@[simp] theorem isAssign_ruleset (k : RulesetKind) (n : String) (sc : Scope) (d : String) : (Stmt.ruleset k n sc d).isAssign = false := rfl
@[simp] theorem isAssign_udo (n d : String) : (Stmt.udo n d).isAssign = false := rfl
@[simp] theorem isAssign_viral (n d : String) : (Stmt.viral n d).isAssign = false := rfl
@[simp] theorem isRuleset_assign (p : Bool) (n e : String) : (Stmt.assign p n e).isRuleset = false := rfl
@[simp] theorem isRuleset_ruleset (k : RulesetKind) (n : String) (sc : Scope) (d : String) : (Stmt.ruleset k n sc d).isRuleset = true := rfl
@[simp] theorem isRuleset_udo (n d : String) : (Stmt.udo n d).isRuleset = false := rfl
@[simp] theorem isRuleset_viral (n d : String) : (Stmt.viral n d).isRuleset = false := rfl
@[simp] theorem isUdo_assign (p : Bool) (n e : String) : (Stmt.assign p n e).isUdo = false := rfl
@[simp] theorem isUdo_ruleset (k : RulesetKind) (n : String) (sc : Scope) (d : String) : (Stmt.ruleset k n sc d).isUdo = false := rfl
@[simp] theorem isUdo_udo (n d : String) : (Stmt.udo n d).isUdo = true := rfl
@[simp] theorem isUdo_viral (n d : String) : (Stmt.viral n d).isUdo = false := rfl
@[simp] theorem isViral_assign (p : Bool) (n e : String) : (Stmt.assign p n e).isViral = false := rfl
@[simp] theorem isViral_ruleset (k : RulesetKind) (n : String) (sc : Scope) (d : String) : (Stmt.ruleset k n sc d).isViral = false := rfl
@[simp] theorem isViral_udo (n d : String) : (Stmt.udo n d).isViral = false := rfl
@[simp] theorem isViral_viral (n d : String) : (Stmt.viral n d).isViral = true := rfl
@[simp] theorem notViral_assign (p : Bool) (n e : String) : (Stmt.assign p n e).notViral = true := rfl
@[simp] theorem notViral_ruleset (k : RulesetKind) (n : String) (sc : Scope) (d : String) : (Stmt.ruleset k n sc d).notViral = true := rfl
@[simp] theorem notViral_udo (n d : String) : (Stmt.udo n d).notViral = true := rfl
@[simp] theorem notViral_viral (n d : String) : (Stmt.viral n d).notViral = false := rfl

def itemsFrom (c : Nat) : Script → List Transformation
  | [] => []
  | .assign p n e :: r => ⟨c + 1, n, e, p⟩ :: itemsFrom (c + 1) r
  | .ruleset .. :: r => itemsFrom c r
  | .udo .. :: r => itemsFrom c r
  | .viral .. :: r => itemsFrom c r

def rulesFrom (c : Nat) : Script → List RulesetItem
  | [] => []
  | .ruleset k n sc d :: r => ⟨c + 1, k, n, sc, d⟩ :: rulesFrom (c + 1) r
  | .assign .. :: r => rulesFrom c r
  | .udo .. :: r => rulesFrom c r
  | .viral .. :: r => rulesFrom c r

def udosFrom (c : Nat) : Script → List UdoItem
  | [] => []
  | .udo n d :: r => ⟨c + 1, n, d⟩ :: udosFrom (c + 1) r
  | .assign .. :: r => udosFrom c r
  | .ruleset .. :: r => udosFrom c r
  | .viral .. :: r => udosFrom c r

theorem foldl_step (s : Script) : ∀ a : Acc,
    (s.foldl step a).items = a.items ++ itemsFrom a.ct s
    ∧ (s.foldl step a).rulesets = a.rulesets ++ rulesFrom a.cr s
    ∧ (s.foldl step a).udos = a.udos ++ udosFrom a.cu s := by
  induction s with
  | nil => intro a; simp [itemsFrom, rulesFrom, udosFrom]
  | cons st r ih =>
    intro a
    cases st <;> simp [List.foldl_cons, step, ih, itemsFrom, rulesFrom, udosFrom, List.append_assoc]

theorem ofScript_items (s : Script) : (ofScript s).items = itemsFrom 0 s := by
  have h := (foldl_step s {}).1
  simpa [ofScript] using h

theorem ofScript_rulesets (s : Script) : (ofScript s).rulesets = rulesFrom 0 s := by
  have h := (foldl_step s {}).2.1
  simpa [ofScript] using h

theorem ofScript_udos (s : Script) : (ofScript s).udos = udosFrom 0 s := by
  have h := (foldl_step s {}).2.2
  simpa [ofScript] using h

theorem itemsFrom_triples (s : Script) : ∀ c,
    (itemsFrom c s).map (fun t => (t.result, t.expr, t.persistent)) = assignmentsOf s := by
  induction s with
  | nil => intro c; rfl
  | cons st r ih => intro c; cases st <;> simp [itemsFrom, assignmentsOf, ih]

theorem itemsFrom_idx (s : Script) : ∀ c,
    (itemsFrom c s).map (·.idx) = List.range' (c + 1) (assignmentsOf s).length := by
  induction s with
  | nil => intro c; rfl
  | cons st r ih => intro c; cases st <;> simp [itemsFrom, assignmentsOf, ih, List.range'_succ]

theorem itemsFrom_stmts (s : Script) : ∀ c,
    (itemsFrom c s).map (fun t => Stmt.assign t.persistent t.result t.expr) = s.filter Stmt.isAssign := by
  induction s with
  | nil => intro c; rfl
  | cons st r ih => intro c; cases st <;> simp [itemsFrom, List.filter_cons, ih]

theorem rulesFrom_stmts (s : Script) : ∀ c,
    (rulesFrom c s).map (fun r => Stmt.ruleset r.kind r.name r.scope r.defn) = s.filter Stmt.isRuleset := by
  induction s with
  | nil => intro c; rfl
  | cons st r ih => intro c; cases st <;> simp [rulesFrom, List.filter_cons, ih]

theorem rulesFrom_idx (s : Script) : ∀ c,
    (rulesFrom c s).map (·.idx) = List.range' (c + 1) (s.filter Stmt.isRuleset).length := by
  induction s with
  | nil => intro c; rfl
  | cons st r ih => intro c; cases st <;> simp [rulesFrom, List.filter_cons, ih, List.range'_succ]

theorem udosFrom_stmts (s : Script) : ∀ c,
    (udosFrom c s).map (fun u => Stmt.udo u.name u.defn) = s.filter Stmt.isUdo := by
  induction s with
  | nil => intro c; rfl
  | cons st r ih => intro c; cases st <;> simp [udosFrom, List.filter_cons, ih]

theorem udosFrom_idx (s : Script) : ∀ c,
    (udosFrom c s).map (·.idx) = List.range' (c + 1) (s.filter Stmt.isUdo).length := by
  induction s with
  | nil => intro c; rfl
  | cons st r ih => intro c; cases st <;> simp [udosFrom, List.filter_cons, ih, List.range'_succ]

/-- the whole round trip, for every script: three order-preserving filters, concatenated -/
theorem toScript_ofScript (s : Script) :
    toScript (ofScript s) = s.filter Stmt.isRuleset ++ s.filter Stmt.isUdo ++ s.filter Stmt.isAssign := by
  simp [toScript, ofScript_items, ofScript_rulesets, ofScript_udos, itemsFrom_stmts, rulesFrom_stmts,
    udosFrom_stmts]

def Stmt.triple? : Stmt → Option (String × String × Bool)
  | .assign p n e => some (n, e, p)
  | _ => none

theorem assignmentsOf_eq (s : Script) :
    assignmentsOf s = (s.filter Stmt.isAssign).filterMap Stmt.triple? := by
  induction s with
  | nil => rfl
  | cons st r ih => cases st <;> simp [assignmentsOf, List.filter_cons, Stmt.triple?, ih]

theorem three_filters_perm (s : Script) :
    (s.filter Stmt.isRuleset ++ s.filter Stmt.isUdo ++ s.filter Stmt.isAssign).Perm
      (s.filter Stmt.notViral) := by
  induction s with
  | nil => simp
  | cons st r ih =>
    cases st with
    | assign p n e =>
      simp only [List.filter_cons, isRuleset_assign, isUdo_assign, isAssign_assign, notViral_assign,
        Bool.false_eq_true, if_false, if_true]
      exact List.perm_middle.trans (List.Perm.cons _ ih)
    | ruleset k n sc d =>
      simp only [List.filter_cons, isRuleset_ruleset, isUdo_ruleset, isAssign_ruleset, notViral_ruleset,
        Bool.false_eq_true, if_false, if_true, List.cons_append]
      exact List.Perm.cons _ ih
    | udo n d =>
      simp only [List.filter_cons, isRuleset_udo, isUdo_udo, isAssign_udo, notViral_udo,
        Bool.false_eq_true, if_false, if_true, List.append_assoc, List.cons_append]
      have ih' := ih
      simp only [List.append_assoc] at ih'
      exact List.perm_middle.trans (List.Perm.cons _ ih')
    | viral n d =>
      simp only [List.filter_cons, isRuleset_viral, isUdo_viral, isAssign_viral, notViral_viral,
        Bool.false_eq_true, if_false]
      exact ih

theorem filter_notViral_of_noViral {s : Script} (h : NoViralDefs s) :
    s.filter Stmt.notViral = s := by
  apply List.filter_eq_self.mpr
  intro a ha
  simp [Stmt.notViral, h a ha]

theorem filter_isRuleset_nil_of_phase {t : Script} (h : ∀ b ∈ t, 2 ≤ b.phase) :
    t.filter Stmt.isRuleset = [] := by
  apply List.filter_eq_nil_iff.mpr
  intro b hb
  have := h b hb
  cases b <;> simp [Stmt.phase] at *

theorem filter_isUdo_nil_of_phase {t : Script} (h : ∀ b ∈ t, 3 ≤ b.phase) :
    t.filter Stmt.isUdo = [] := by
  apply List.filter_eq_nil_iff.mpr
  intro b hb
  have := h b hb
  cases b <;> simp [Stmt.phase] at *

theorem three_filters_of_hoisted (s : Script) (h : Hoisted s) :
    s.filter Stmt.isRuleset ++ s.filter Stmt.isUdo ++ s.filter Stmt.isAssign
      = s.filter Stmt.notViral := by
  induction s with
  | nil => simp
  | cons st r ih =>
    have hp := List.pairwise_cons.mp h
    have ih := ih hp.2
    cases st with
    | assign p n e =>
      have h3 : ∀ b ∈ r, 3 ≤ b.phase := fun b hb => by simpa [Stmt.phase] using hp.1 b hb
      have h2 : ∀ b ∈ r, 2 ≤ b.phase := fun b hb => Nat.le_trans (by decide) (h3 b hb)
      rw [filter_isRuleset_nil_of_phase h2, filter_isUdo_nil_of_phase h3] at ih
      simp only [List.filter_cons, isRuleset_assign, isUdo_assign, isAssign_assign, notViral_assign,
        Bool.false_eq_true, if_false, if_true]
      rw [filter_isRuleset_nil_of_phase h2, filter_isUdo_nil_of_phase h3]
      simpa using ih
    | ruleset k n sc d =>
      simp only [List.filter_cons, isRuleset_ruleset, isUdo_ruleset, isAssign_ruleset, notViral_ruleset,
        Bool.false_eq_true, if_false, if_true, List.cons_append]
      rw [ih]
    | udo n d =>
      have h2 : ∀ b ∈ r, 2 ≤ b.phase := fun b hb => by simpa [Stmt.phase] using hp.1 b hb
      rw [filter_isRuleset_nil_of_phase h2] at ih
      simp only [List.filter_cons, isRuleset_udo, isUdo_udo, isAssign_udo, notViral_udo,
        Bool.false_eq_true, if_false, if_true]
      rw [filter_isRuleset_nil_of_phase h2]
      simpa using ih
    | viral n d =>
      simp only [List.filter_cons, isRuleset_viral, isUdo_viral, isAssign_viral, notViral_viral,
        Bool.false_eq_true, if_false]
      exact ih

theorem isHoisted_iff (s : Script) : isHoisted s = true ↔ Hoisted s := by
  induction s with
  | nil => simp [isHoisted, Hoisted]
  | cons a r ih =>
    simp only [isHoisted, Hoisted, List.pairwise_cons, Bool.and_eq_true, List.all_eq_true,
      decide_eq_true_eq]
    exact ⟨fun h => ⟨h.1, ih.mp h.2⟩, fun h => ⟨h.1, ih.mpr h.2⟩⟩

theorem pairwise_phase_of_const {l : Script} {k : Nat} (h : ∀ a ∈ l, a.phase = k) :
    l.Pairwise (fun a b => a.phase ≤ b.phase) := by
  induction l with
  | nil => exact List.Pairwise.nil
  | cons a r ih =>
    refine List.pairwise_cons.mpr ⟨?_, ih (fun b hb => h b (List.mem_cons_of_mem _ hb))⟩
    intro b hb
    rw [h a (List.mem_cons_self ..), h b (List.mem_cons_of_mem _ hb)]
    exact Nat.le_refl _

end VtlModel.Text.Scheme

/-
  Text/Names — name scopes keyed exactly vs keyed through a fold function.  Import-free, total,
  computable.

  A *scope* (the components of a dataset, the datasets of a run) is an association list
  `List (String × α)`: the name as it was spelled when the entry was created, and what the name
  stands for (`α`: a column of values, a table, …; every theorem holds for all `α`).

  Every operation is parameterised by the key comparison `eqv : String → String → Bool`:

    * `exact`     — `a == b`: what VTL prescribes (names are case-sensitive) and what vtlengine's
                    semantic layer does (Python dicts keyed by the name);
    * `folded f`  — `f a == f b` for an arbitrary `f : String → String`: what a catalog does that
                    normalises names before comparing them (DuckDB: `f = lower`, even for quoted
                    identifiers).  An entry keeps the spelling it was created with.

  Operations mirror what a VTL script does to a scope: `insert` (calc / assignment: overwrite or
  add), `erase` (drop; keep = erase the others), `rename`, `lookup` (any reference).  Failure is
  an observation (`unknown` name, `clash` with an existing name), never a silent default.
-/
namespace VtlModel.Names

abbrev Eqv := String → String → Bool

abbrev Env (α : Type) := List (String × α)

/-- exact (case-sensitive) comparison of names -/
def exact : Eqv := fun a b => a == b

/-- comparison after normalising both names with `f` -/
def folded (f : String → String) : Eqv := fun a b => f a == f b

/-- the fold DuckDB's catalog applies (ASCII lower-casing, character by character; written over the
    character list so that the kernel evaluates it quickly) -/
def lower (s : String) : String := String.ofList (s.toList.map Char.toLower)

def keys {α : Type} (env : Env α) : List String := env.map (·.1)

def lookupBy {α : Type} (eqv : Eqv) (k : String) : Env α → Option α
  | [] => none
  | (k', v) :: r => if eqv k' k then some v else lookupBy eqv k r

def hasBy {α : Type} (eqv : Eqv) (k : String) : Env α → Bool
  | [] => false
  | (k', _) :: r => eqv k' k || hasBy eqv k r

/-- remove every entry whose key matches `k` -/
def eraseBy {α : Type} (eqv : Eqv) (k : String) : Env α → Env α
  | [] => []
  | (k', v) :: r => if eqv k' k then eraseBy eqv k r else (k', v) :: eraseBy eqv k r

/-- overwrite the first entry whose key matches `k` (it keeps its spelling), else append `(k, v)` -/
def setBy {α : Type} (eqv : Eqv) (k : String) (v : α) : Env α → Env α
  | [] => [(k, v)]
  | (k', v') :: r => if eqv k' k then (k', v) :: r else (k', v') :: setBy eqv k v r

/-- give the first entry whose key matches `k` the name `k'` -/
def renameBy {α : Type} (eqv : Eqv) (k k' : String) : Env α → Env α
  | [] => []
  | (k0, v) :: r => if eqv k0 k then (k', v) :: r else (k0, v) :: renameBy eqv k k' r

inductive Op (α : Type) where
  | insert (k : String) (v : α)
  | erase (k : String)
  | rename (k k' : String)
  | lookup (k : String)
deriving Repr

inductive Obs (α : Type) where
  | done
  | got (v : Option α)
  | unknown (k : String)
  | clash (k : String)
deriving Repr, DecidableEq

def opNames {α : Type} : Op α → List String
  | .insert k _ => [k]
  | .erase k => [k]
  | .rename k k' => [k, k']
  | .lookup k => [k]

def opsNames {α : Type} : List (Op α) → List String
  | [] => []
  | op :: ops => opNames op ++ opsNames ops

/-- every name an execution can touch: the initial keys and the names written in the operations -/
def mentioned {α : Type} (env : Env α) (ops : List (Op α)) : List String := keys env ++ opsNames ops

def step {α : Type} (eqv : Eqv) (env : Env α) : Op α → Env α × Obs α
  | .insert k v => (setBy eqv k v env, .done)
  | .erase k => if hasBy eqv k env then (eraseBy eqv k env, .done) else (env, .unknown k)
  | .rename k k' =>
      if hasBy eqv k env then
        -- the new name may only match the entry that is being renamed (re-spelling `Me_1` as `me_1`
        -- is accepted by a folding catalog as well: DuckDB `RENAME COLUMN "Me_1" TO "me_1"`)
        (if hasBy eqv k' (eraseBy eqv k env) then (env, .clash k') else (renameBy eqv k k' env, .done))
      else (env, .unknown k)
  | .lookup k => (env, .got (lookupBy eqv k env))

/-- run a sequence; result = the observation of every operation, and the final scope -/
def run {α : Type} (eqv : Eqv) : Env α → List (Op α) → List (Obs α) × Env α
  | env, [] => ([], env)
  | env, op :: ops =>
      ((step eqv env op).2 :: (run eqv (step eqv env op).1 ops).1, (run eqv (step eqv env op).1 ops).2)

def runCS {α : Type} (env : Env α) (ops : List (Op α)) : List (Obs α) × Env α := run exact env ops

def runCI {α : Type} (f : String → String) (env : Env α) (ops : List (Op α)) : List (Obs α) × Env α :=
  run (folded f) env ops

/-- `f` separates the names of `S` -/
def InjOn (f : String → String) (S : List String) : Prop :=
  ∀ a, a ∈ S → ∀ b, b ∈ S → f a = f b → a = b

/-- executable: some two different names of the list have the same fold -/
def collides (f : String → String) : List String → Bool
  | [] => false
  | a :: r => r.any (fun b => a != b && f a == f b) || collides f r

end VtlModel.Names

/-
  C24 — reading the precedence levels of the model off the transcribed grammar (`Gen/ExprGrammar.lean`,
  regenerated from Vtl.g4 on every run).  ANTLR gives alternative number i (0-based) of a left-recursive
  rule with N alternatives the level N − i; binary alternatives `self op self` are left-associative
  (right operand parsed at level+1), prefix alternatives `op self` parse their operand at their own level.
-/
import VtlModel.Text.Pretty
import VtlModel.Gen.ExprGrammar
namespace VtlModel.Text

def Sym.tokName : Sym → String
  | .plus => "PLUS" | .minus => "MINUS" | .not => "NOT"
  | .mul => "MUL" | .div => "DIV" | .concat => "CONCAT"
  | .eq => "EQ" | .neq => "NEQ" | .lt => "LT" | .le => "LE" | .gt => "MT" | .ge => "ME"
  | .and => "AND" | .or => "OR" | .xor => "XOR"
  | .in_ => "IN" | .notIn => "NOT_IN"

/-- level of the first alternative that starts with the rule itself (a suffix alternative) and mentions `t` -/
def suffixLevel (self : String) : List (String × List String) → String → Option Nat
  | [], _ => none
  | (_, syms) :: rest, t =>
      if syms.head? == some self && syms.contains t then some (rest.length + 1)
      else suffixLevel self rest t

/-- level of the first alternative that starts with token `t` and ends with the rule itself -/
def prefixLevel (self : String) : List (String × List String) → String → Option Nat
  | [], _ => none
  | (_, syms) :: rest, t =>
      if syms.head? != some self && syms.getLast? == some self && syms.contains t
          && (syms.filter (· == self)).length == 1 then some (rest.length + 1)
      else prefixLevel self rest t

/-- a binary alternative is `self ops… self` -/
def isBinaryAlt (self : String) (alts : List (String × List String)) (t : String) : Bool :=
  alts.any fun (_, syms) => syms.head? == some self && syms.getLast? == some self && syms.contains t

end VtlModel.Text

/-
  Text/NamesLemmas — helper lemmas for Props/C29 (congruence of the scope operations under two key
  comparisons that agree on the names in play; frame lemmas of the exact scope; the folded scope
  never holds two names with the same fold).
-/
import VtlModel.Text.Names

namespace VtlModel.Names

variable {α : Type}

/-! ### two comparisons that agree on a set of names give the same execution -/

def Agree (e1 e2 : Eqv) (S : List String) : Prop := ∀ a, a ∈ S → ∀ b, b ∈ S → e1 a b = e2 a b

theorem agree_of_injOn {f : String → String} {S : List String} (h : InjOn f S) :
    Agree (folded f) exact S := by
  intro a ha b hb
  simp only [folded, exact]
  by_cases hab : a = b
  · subst hab; simp
  · have hf : f a ≠ f b := fun e => hab (h a ha b hb e)
    have h1 : (f a == f b) = false := by simp [hf]
    have h2 : (a == b) = false := by simp [hab]
    rw [h1, h2]

theorem keys_cons (k : String) (v : α) (r : Env α) : keys ((k, v) :: r) = k :: keys r := rfl

theorem lookupBy_congr {e1 e2 : Eqv} {S : List String} (h : Agree e1 e2 S) {k : String} (hk : k ∈ S) :
    ∀ env : Env α, (∀ x, x ∈ keys env → x ∈ S) → lookupBy e1 k env = lookupBy e2 k env
  | [], _ => rfl
  | (k', v) :: r, hS => by
    have hk' : k' ∈ S := hS k' (by simp [keys])
    have ih := lookupBy_congr h hk r (fun x hx => hS x (by simp [keys] at hx ⊢; exact Or.inr hx))
    simp [lookupBy, h k' hk' k hk, ih]

theorem hasBy_congr {e1 e2 : Eqv} {S : List String} (h : Agree e1 e2 S) {k : String} (hk : k ∈ S) :
    ∀ env : Env α, (∀ x, x ∈ keys env → x ∈ S) → hasBy e1 k env = hasBy e2 k env
  | [], _ => rfl
  | (k', v) :: r, hS => by
    have hk' : k' ∈ S := hS k' (by simp [keys])
    have ih := hasBy_congr h hk r (fun x hx => hS x (by simp [keys] at hx ⊢; exact Or.inr hx))
    simp [hasBy, h k' hk' k hk, ih]

theorem eraseBy_congr {e1 e2 : Eqv} {S : List String} (h : Agree e1 e2 S) {k : String} (hk : k ∈ S) :
    ∀ env : Env α, (∀ x, x ∈ keys env → x ∈ S) → eraseBy e1 k env = eraseBy e2 k env
  | [], _ => rfl
  | (k', v) :: r, hS => by
    have hk' : k' ∈ S := hS k' (by simp [keys])
    have ih := eraseBy_congr h hk r (fun x hx => hS x (by simp [keys] at hx ⊢; exact Or.inr hx))
    simp [eraseBy, h k' hk' k hk, ih]

theorem setBy_congr {e1 e2 : Eqv} {S : List String} (h : Agree e1 e2 S) {k : String} (hk : k ∈ S) (v : α) :
    ∀ env : Env α, (∀ x, x ∈ keys env → x ∈ S) → setBy e1 k v env = setBy e2 k v env
  | [], _ => rfl
  | (k', v') :: r, hS => by
    have hk' : k' ∈ S := hS k' (by simp [keys])
    have ih := setBy_congr h hk v r (fun x hx => hS x (by simp [keys] at hx ⊢; exact Or.inr hx))
    simp [setBy, h k' hk' k hk, ih]

theorem renameBy_congr {e1 e2 : Eqv} {S : List String} (h : Agree e1 e2 S) {k : String} (hk : k ∈ S)
    (k2 : String) :
    ∀ env : Env α, (∀ x, x ∈ keys env → x ∈ S) → renameBy e1 k k2 env = renameBy e2 k k2 env
  | [], _ => rfl
  | (k', v') :: r, hS => by
    have hk' : k' ∈ S := hS k' (by simp [keys])
    have ih := renameBy_congr h hk k2 r (fun x hx => hS x (by simp [keys] at hx ⊢; exact Or.inr hx))
    simp [renameBy, h k' hk' k hk, ih]

/-! ### the keys of a scope after an operation come from the scope or from the operation -/

theorem keys_eraseBy (e : Eqv) (k : String) :
    ∀ env : Env α, ∀ x, x ∈ keys (eraseBy e k env) → x ∈ keys env
  | [], x, hx => by simp [eraseBy, keys] at hx
  | (k', v) :: r, x, hx => by
    by_cases c : e k' k = true
    · simp [eraseBy, c] at hx
      have := keys_eraseBy e k r x hx
      simp [keys] at this ⊢; exact Or.inr this
    · simp [eraseBy, c, keys] at hx
      rcases hx with hx | hx
      · simp [keys, hx]
      · have := keys_eraseBy e k r x (by simpa [keys] using hx)
        simp [keys] at this ⊢; exact Or.inr this

theorem keys_setBy (e : Eqv) (k : String) (v : α) :
    ∀ env : Env α, ∀ x, x ∈ keys (setBy e k v env) → x = k ∨ x ∈ keys env
  | [], x, hx => by simp [setBy, keys] at hx; exact Or.inl hx
  | (k', v') :: r, x, hx => by
    by_cases c : e k' k = true
    · simp [setBy, c, keys] at hx
      right; simpa [keys] using hx
    · simp [setBy, c, keys] at hx
      rcases hx with hx | hx
      · right; simp [keys, hx]
      · rcases keys_setBy e k v r x (by simpa [keys] using hx) with h | h
        · exact Or.inl h
        · right; simp [keys] at h ⊢; exact Or.inr h

theorem keys_renameBy (e : Eqv) (k k2 : String) :
    ∀ env : Env α, ∀ x, x ∈ keys (renameBy e k k2 env) → x = k2 ∨ x ∈ keys env
  | [], x, hx => by simp [renameBy, keys] at hx
  | (k', v') :: r, x, hx => by
    by_cases c : e k' k = true
    · simp [renameBy, c, keys] at hx
      rcases hx with hx | hx
      · exact Or.inl hx
      · right; simp [keys]; exact Or.inr hx
    · simp [renameBy, c, keys] at hx
      rcases hx with hx | hx
      · right; simp [keys, hx]
      · rcases keys_renameBy e k k2 r x (by simpa [keys] using hx) with h | h
        · exact Or.inl h
        · right; simp [keys] at h ⊢; exact Or.inr h

theorem keys_step (e : Eqv) (env : Env α) (op : Op α) :
    ∀ x, x ∈ keys (step e env op).1 → x ∈ keys env ∨ x ∈ opNames op := by
  intro x hx
  cases op with
  | insert k v =>
    rcases keys_setBy e k v env x hx with h | h
    · right; simp [opNames, h]
    · exact Or.inl h
  | erase k =>
    simp only [step] at hx
    split at hx
    · exact Or.inl (keys_eraseBy e k env x hx)
    · exact Or.inl hx
  | rename k k2 =>
    simp only [step] at hx
    split at hx
    · split at hx
      · exact Or.inl hx
      · rcases keys_renameBy e k k2 env x hx with h | h
        · right; simp [opNames, h]
        · exact Or.inl h
    · exact Or.inl hx
  | lookup k => exact Or.inl hx

theorem step_congr {e1 e2 : Eqv} {S : List String} (h : Agree e1 e2 S) (env : Env α) (op : Op α)
    (hE : ∀ x, x ∈ keys env → x ∈ S) (hO : ∀ x, x ∈ opNames op → x ∈ S) :
    step e1 env op = step e2 env op := by
  cases op with
  | insert k v =>
    have hk : k ∈ S := hO k (by simp [opNames])
    simp [step, setBy_congr h hk v env hE]
  | erase k =>
    have hk : k ∈ S := hO k (by simp [opNames])
    simp [step, hasBy_congr h hk env hE, eraseBy_congr h hk env hE]
  | rename k k2 =>
    have hk : k ∈ S := hO k (by simp [opNames])
    have hk2 : k2 ∈ S := hO k2 (by simp [opNames])
    have hE2 : ∀ x, x ∈ keys (eraseBy e2 k env) → x ∈ S := fun x hx => hE x (keys_eraseBy e2 k env x hx)
    simp [step, hasBy_congr h hk env hE, eraseBy_congr h hk env hE, hasBy_congr h hk2 _ hE2,
      renameBy_congr h hk k2 env hE]
  | lookup k =>
    have hk : k ∈ S := hO k (by simp [opNames])
    simp [step, lookupBy_congr h hk env hE]

theorem run_congr {e1 e2 : Eqv} {S : List String} (h : Agree e1 e2 S) :
    ∀ (ops : List (Op α)) (env : Env α), (∀ x, x ∈ keys env → x ∈ S) → (∀ x, x ∈ opsNames ops → x ∈ S) →
      run e1 env ops = run e2 env ops
  | [], _, _, _ => rfl
  | op :: ops, env, hE, hO => by
    have hop : ∀ x, x ∈ opNames op → x ∈ S := fun x hx => hO x (by simp [opsNames]; exact Or.inl hx)
    have hs := step_congr h env op hE hop
    have hE' : ∀ x, x ∈ keys (step e2 env op).1 → x ∈ S := by
      intro x hx
      rcases keys_step e2 env op x hx with h1 | h1
      · exact hE x h1
      · exact hop x h1
    have ih := run_congr h ops (step e2 env op).1 hE'
      (fun x hx => hO x (by simp [opsNames]; exact Or.inr hx))
    simp only [run, hs, ih]

/-! ### frame lemmas of the exact scope -/

theorem exact_eq_true {a b : String} : exact a b = true ↔ a = b := by simp [exact]

theorem lookup_setBy_exact_ne {a k : String} (hne : k ≠ a) (v : α) :
    ∀ env : Env α, lookupBy exact a (setBy exact k v env) = lookupBy exact a env
  | [] => by
    have : exact k a = false := by simp [exact, hne]
    simp [setBy, lookupBy, this]
  | (k', v') :: r => by
    by_cases c : exact k' k = true
    · have hk : k' = k := exact_eq_true.mp c
      have : exact k' a = false := by simp [exact, hk, hne]
      simp [setBy, c, lookupBy, this]
    · have ih := lookup_setBy_exact_ne hne v r
      simp [setBy, c, lookupBy, ih]

theorem lookup_eraseBy_exact_ne {a k : String} (hne : k ≠ a) :
    ∀ env : Env α, lookupBy exact a (eraseBy exact k env) = lookupBy exact a env
  | [] => rfl
  | (k', v') :: r => by
    have ih := lookup_eraseBy_exact_ne hne r
    by_cases c : exact k' k = true
    · have hk : k' = k := exact_eq_true.mp c
      have : exact k' a = false := by simp [exact, hk, hne]
      simp [eraseBy, c, lookupBy, this, ih]
    · simp [eraseBy, c, lookupBy, ih]

theorem lookup_renameBy_exact_ne {a k k2 : String} (hne : k ≠ a) (hne2 : k2 ≠ a) :
    ∀ env : Env α, lookupBy exact a (renameBy exact k k2 env) = lookupBy exact a env
  | [] => rfl
  | (k', v') :: r => by
    have ih := lookup_renameBy_exact_ne hne hne2 r
    by_cases c : exact k' k = true
    · have hk : k' = k := exact_eq_true.mp c
      have h1 : exact k' a = false := by simp [exact, hk, hne]
      have h2 : exact k2 a = false := by simp [exact, hne2]
      simp [renameBy, c, lookupBy, h1, h2]
    · simp [renameBy, c, lookupBy, ih]

theorem lookup_step_exact_frame {a : String} (env : Env α) (op : Op α) (h : a ∉ opNames op) :
    lookupBy exact a (step exact env op).1 = lookupBy exact a env := by
  cases op with
  | insert k v =>
    have : k ≠ a := by intro e; apply h; simp [opNames, e]
    exact lookup_setBy_exact_ne this v env
  | erase k =>
    have : k ≠ a := by intro e; apply h; simp [opNames, e]
    simp only [step]
    split
    · exact lookup_eraseBy_exact_ne this env
    · rfl
  | rename k k2 =>
    have h1 : k ≠ a := by intro e; apply h; simp [opNames, e]
    have h2 : k2 ≠ a := by intro e; apply h; simp [opNames, e]
    simp only [step]
    split
    · split
      · rfl
      · exact lookup_renameBy_exact_ne h1 h2 env
    · rfl
  | lookup k => rfl

/-! ### a folded scope never holds two names with the same fold -/

theorem hasBy_false_not_mem {f : String → String} {k : String} :
    ∀ env : Env α, hasBy (folded f) k env = false → f k ∉ (keys env).map f
  | [], _ => by simp [keys]
  | (k', v) :: r, h => by
    simp only [hasBy, Bool.or_eq_false_iff] at h
    have ih := hasBy_false_not_mem r h.2
    have h1 : f k' ≠ f k := by
      have := h.1; simp only [folded] at this
      intro e; simp [e] at this
    simp only [keys_cons, List.map_cons, List.mem_cons, not_or]
    exact ⟨fun e => h1 e.symm, ih⟩

theorem foldKeys_eraseBy_sublist (e : Eqv) (f : String → String) (k : String) :
    ∀ env : Env α, ((keys (eraseBy e k env)).map f).Sublist ((keys env).map f)
  | [] => by simp [eraseBy, keys]
  | (k', v) :: r => by
    have ih := foldKeys_eraseBy_sublist e f k r
    by_cases c : e k' k = true
    · simp only [eraseBy, c, if_true, keys_cons, List.map_cons]
      exact List.Sublist.cons _ ih
    · simp only [eraseBy, c, keys_cons, List.map_cons]
      exact List.Sublist.cons_cons _ ih

theorem foldKeys_setBy_nodup (f : String → String) (k : String) (v : α) :
    ∀ env : Env α, ((keys env).map f).Nodup → ((keys (setBy (folded f) k v env)).map f).Nodup
  | [], _ => by simp [setBy, keys]
  | (k', v') :: r, h => by
    by_cases c : folded f k' k = true
    · simpa [setBy, c, keys] using h
    · simp only [keys_cons, List.map_cons, List.nodup_cons] at h
      have ih := foldKeys_setBy_nodup f k v r h.2
      simp only [setBy, c, Bool.false_eq_true, ↓reduceIte, keys_cons, List.map_cons, List.nodup_cons]
      refine ⟨?_, ih⟩
      intro hm
      rcases List.mem_map.mp hm with ⟨x, hx, hfx⟩
      rcases keys_setBy (folded f) k v r x hx with hxk | hxr
      · apply c; simp [folded, ← hfx, hxk]
      · exact h.1 (List.mem_map.mpr ⟨x, hxr, hfx⟩)

theorem eraseBy_of_no_match {f : String → String} {k : String} :
    ∀ env : Env α, f k ∉ (keys env).map f → eraseBy (folded f) k env = env
  | [], _ => rfl
  | (k', v) :: r, h => by
    simp only [keys_cons, List.map_cons, List.mem_cons, not_or] at h
    have c : folded f k' k = false := by
      simp only [folded]
      have : f k' ≠ f k := fun e => h.1 e.symm
      simp [this]
    simp only [eraseBy, c, Bool.false_eq_true, ↓reduceIte, eraseBy_of_no_match r h.2]

theorem foldKeys_renameBy_nodup (f : String → String) (k k2 : String) :
    ∀ env : Env α, ((keys env).map f).Nodup → hasBy (folded f) k2 (eraseBy (folded f) k env) = false →
      ((keys (renameBy (folded f) k k2 env)).map f).Nodup
  | [], _, _ => by simp [renameBy, keys]
  | (k', v') :: r, h, hn => by
    simp only [keys_cons, List.map_cons, List.nodup_cons] at h
    cases c : folded f k' k with
    | true =>
      have hfk : f k' = f k := by simpa [folded] using c
      have her : eraseBy (folded f) k r = r := eraseBy_of_no_match r (by rw [← hfk]; exact h.1)
      simp only [eraseBy, c, if_true, her] at hn
      simp only [renameBy, c, if_true, keys_cons, List.map_cons, List.nodup_cons]
      exact ⟨hasBy_false_not_mem r hn, h.2⟩
    | false =>
      simp only [eraseBy, c, Bool.false_eq_true, ↓reduceIte, hasBy, Bool.or_eq_false_iff] at hn
      have ih := foldKeys_renameBy_nodup f k k2 r h.2 hn.2
      simp only [renameBy, c, Bool.false_eq_true, ↓reduceIte, keys_cons, List.map_cons, List.nodup_cons]
      refine ⟨?_, ih⟩
      intro hm
      rcases List.mem_map.mp hm with ⟨x, hx, hfx⟩
      rcases keys_renameBy (folded f) k k2 r x hx with hxk | hxr
      · have : folded f k' k2 = true := by simp [folded, ← hfx, hxk]
        rw [this] at hn; exact Bool.noConfusion hn.1
      · exact h.1 (List.mem_map.mpr ⟨x, hxr, hfx⟩)

theorem foldKeys_step_nodup (f : String → String) (env : Env α) (op : Op α)
    (h : ((keys env).map f).Nodup) : ((keys (step (folded f) env op).1).map f).Nodup := by
  cases op with
  | insert k v => exact foldKeys_setBy_nodup f k v env h
  | erase k =>
    simp only [step]
    split
    · exact List.Nodup.sublist (foldKeys_eraseBy_sublist _ f k env) h
    · exact h
  | rename k k2 =>
    simp only [step]
    split
    · split
      · exact h
      · rename_i _ hh
        have : hasBy (folded f) k2 (eraseBy (folded f) k env) = false := by simpa using hh
        exact foldKeys_renameBy_nodup f k k2 env h this
    · exact h
  | lookup k => exact h

theorem eq_of_nodup_map {f : String → String} :
    ∀ {l : List String}, (l.map f).Nodup → ∀ {a b : String}, a ∈ l → b ∈ l → f a = f b → a = b
  | [], _, _, _, ha, _, _ => by simp at ha
  | x :: r, h, a, b, ha, hb, hf => by
    simp only [List.map_cons, List.nodup_cons] at h
    rcases List.mem_cons.mp ha with ha | ha <;> rcases List.mem_cons.mp hb with hb | hb
    · rw [ha, hb]
    · exfalso; apply h.1; rw [← ha, hf]; exact List.mem_map.mpr ⟨b, hb, rfl⟩
    · exfalso; apply h.1; rw [← hb, ← hf]; exact List.mem_map.mpr ⟨a, ha, rfl⟩
    · exact eq_of_nodup_map h.2 ha hb hf

end VtlModel.Names

import VtlModel.Text.SrcLine
/-!
Lemmas about `SrcLine` (C23 b): what the loop of `extract_source_line_expanded` computes, for texts
and lines of any length (induction over the text).
-/
namespace VtlModel.Text.SrcLine

/-- the piece one source byte contributes to the echoed line -/
def piece (tab : Nat) (c : Char) : List Char :=
  if c = '\t' then List.replicate tab ' ' else if c = '\r' then [] else [c]

theorem expand_cons (tab : Nat) (c : Char) (s : List Char) : expand tab (c :: s) = piece tab c ++ expand tab s := rfl

theorem pushOut_reverse (tab : Nat) (c : Char) (outR : List Char) :
    (pushOut tab c outR).reverse = outR.reverse ++ piece tab c := by
  unfold pushOut piece
  split
  · simp [List.reverse_append]
  · split <;> simp

theorem pushOut_length (tab : Nat) (c : Char) (outR : List Char) : outR.length ≤ (pushOut tab c outR).length := by
  unfold pushOut
  split
  · simp
  · split <;> simp

theorem lineOf_nil : lineOf [] = [] := rfl

theorem lineOf_cons_nl (s : List Char) : lineOf ('\n' :: s) = [] := by
  simp [lineOf, List.takeWhile]

theorem lineOf_cons_ne (c : Char) (s : List Char) (h : c ≠ '\n') : lineOf (c :: s) = c :: lineOf s := by
  simp [lineOf, List.takeWhile, h]

/-- what the loop returns: the echoed line, the final `orig_col`, and `remapped` -/
theorem walk_spec (tab : Nat) (target : Int) : ∀ (rest outR : List Char) (orig rem : Int),
    (walk tab target rest outR orig rem).1.reverse = outR.reverse ++ expand tab (lineOf rest) ∧
    (walk tab target rest outR orig rem).2.1 = orig + ((lineOf rest).length : Int) ∧
    outR.length ≤ (walk tab target rest outR orig rem).1.length ∧
    ((orig ≤ target ∧ target < orig + ((lineOf rest).length : Int)) →
        (outR.length : Int) + 1 ≤ (walk tab target rest outR orig rem).2.2 ∧
        (walk tab target rest outR orig rem).2.2 ≤ ((walk tab target rest outR orig rem).1.length : Int) + 1) ∧
    (¬ (orig ≤ target ∧ target < orig + ((lineOf rest).length : Int)) →
        (walk tab target rest outR orig rem).2.2 = rem) := by
  intro rest
  induction rest with
  | nil =>
    intro outR orig rem
    simp [walk, lineOf_nil, expand]
    omega
  | cons c s ih =>
    intro outR orig rem
    by_cases hc : c = '\n'
    · subst hc
      simp [walk, lineOf_cons_nl, expand]
      omega
    · have ih' := ih (pushOut tab c outR) (orig + 1) (if orig = target then (outR.length : Int) + 1 else rem)
      obtain ⟨h1, h2, h3, h4, h5⟩ := ih'
      have hlen := pushOut_length tab c outR
      simp only [walk, hc, if_false, lineOf_cons_ne c s hc, List.length_cons]
      refine ⟨?_, ?_, ?_, ?_, ?_⟩
      · rw [h1, pushOut_reverse, expand_cons, List.append_assoc]
      · rw [h2]; push_cast; omega
      · omega
      · intro hr
        by_cases he : orig = target
        · subst he
          have hn : ¬ (orig + 1 ≤ orig ∧ orig < orig + 1 + ((lineOf s).length : Int)) := by omega
          have h5' := h5 hn
          simp only [if_true] at h5' h3 ⊢
          rw [h5']
          constructor
          · omega
          · have : (outR.length : Int) ≤ ((walk tab orig s (pushOut tab c outR) (orig + 1)
                ((outR.length : Int) + 1)).1.length : Int) := by
              have := Nat.le_trans hlen h3
              exact_mod_cast this
            omega
        · have hin : orig + 1 ≤ target ∧ target < orig + 1 + ((lineOf s).length : Int) := by
            push_cast at hr; omega
          have := h4 hin
          constructor
          · have hl : (outR.length : Int) ≤ ((pushOut tab c outR).length : Int) := by exact_mod_cast hlen
            omega
          · exact this.2
      · intro hr
        have he : orig ≠ target := by
          intro e; apply hr; push_cast; omega
        have hn : ¬ (orig + 1 ≤ target ∧ target < orig + 1 + ((lineOf s).length : Int)) := by
          intro h; apply hr; push_cast; omega
        have := h5 hn
        simpa [he] using this

/-- the echoed line is the expansion of the requested line; the caret column obeys three cases -/
theorem extract_spec (tab : Nat) (src rest : List Char) (line : Int) (col : Int) (hl : 1 ≤ line)
    (hs : skipLines src (line - 1).toNat = some rest) :
    (extract tab src line col).1 = expand tab (lineOf rest) ∧
    ((1 ≤ col ∧ col ≤ ((lineOf rest).length : Int)) →
        1 ≤ (extract tab src line col).2 ∧
        (extract tab src line col).2 ≤ ((expand tab (lineOf rest)).length : Int) + 1) ∧
    (col = ((lineOf rest).length : Int) + 1 → (extract tab src line col).2 = col) ∧
    (col > ((lineOf rest).length : Int) + 1 →
        (extract tab src line col).2 = ((expand tab (lineOf rest)).length : Int) + 1) := by
  have hnl : ¬ line < 1 := by omega
  obtain ⟨h1, h2, _, h4, h5⟩ := walk_spec tab col rest [] 1 col
  have hrev : (walk tab col rest [] 1 col).1.length = (expand tab (lineOf rest)).length := by
    have := congrArg List.length h1
    simpa using this
  simp only [extract, hnl, if_false, hs]
  refine ⟨by simpa using h1, ?_, ?_, ?_⟩
  · intro hr
    have hin : (1 : Int) ≤ col ∧ col < 1 + ((lineOf rest).length : Int) := by omega
    have := h4 hin
    have hng : ¬ col > (walk tab col rest [] 1 col).2.1 := by rw [h2]; omega
    simp only [hng, if_false]
    rw [← hrev]
    simp at this
    omega
  · intro he
    have hn : ¬ ((1 : Int) ≤ col ∧ col < 1 + ((lineOf rest).length : Int)) := by omega
    have := h5 hn
    have hng : ¬ col > (walk tab col rest [] 1 col).2.1 := by rw [h2]; omega
    simp only [hng, if_false]
    exact this
  · intro hg
    have hgt : col > (walk tab col rest [] 1 col).2.1 := by rw [h2]; omega
    simp only [hgt, if_true]
    rw [hrev]

/-- a line that is not among the lines of the text: empty string, column untouched -/
theorem extract_no_line (tab : Nat) (src : List Char) (line col : Int)
    (h : line < 1 ∨ skipLines src (line - 1).toNat = none) : extract tab src line col = ([], col) := by
  by_cases hl : line < 1
  · simp only [extract, hl, if_true]
  · cases h with
    | inl h => exact absurd h hl
    | inr h => simp only [extract, hl, if_false, h]

theorem piece_length_ge (tab : Nat) (ht : 1 ≤ tab) (c : Char) (hc : c ≠ '\r') : 1 ≤ (piece tab c).length := by
  unfold piece
  split
  · simpa using ht
  · simp [hc]

/-- without CR (and with a tab width ≥ 1) the echoed line is at least as long as the line -/
theorem expand_length_ge (tab : Nat) (ht : 1 ≤ tab) : ∀ l : List Char, '\r' ∉ l → l.length ≤ (expand tab l).length := by
  intro l
  induction l with
  | nil => intro _; simp [expand]
  | cons c s ih =>
    intro h
    have hc : c ≠ '\r' := fun e => h (e ▸ List.mem_cons_self ..)
    have hs : '\r' ∉ s := fun m => h (List.mem_cons_of_mem _ m)
    rw [expand_cons, List.length_append, List.length_cons]
    have := piece_length_ge tab ht c hc
    have := ih hs
    omega

theorem skipLines_zero (s : List Char) : skipLines s 0 = some s := by
  cases s <;> rfl

theorem skipLines_cons_nl (s : List Char) (k : Nat) : skipLines ('\n' :: s) (k + 1) = skipLines s k := by
  simp [skipLines]

theorem skipLines_cons_ne (c : Char) (s : List Char) (k : Nat) (h : c ≠ '\n') :
    skipLines (c :: s) (k + 1) = skipLines s (k + 1) := by
  simp [skipLines, h]

/-- the requested line exists only when the text has enough newlines -/
theorem skipLines_some_le : ∀ (src : List Char) (k : Nat) (rest : List Char),
    skipLines src k = some rest → k ≤ src.count '\n' := by
  intro src
  induction src with
  | nil =>
    intro k rest h
    cases k with
    | zero => simp
    | succ k => simp [skipLines] at h
  | cons c s ih =>
    intro k rest h
    cases k with
    | zero => simp
    | succ k =>
      by_cases hc : c = '\n'
      · subst hc
        rw [skipLines_cons_nl] at h
        have := ih k rest h
        simp [List.count_cons]
        omega
      · rw [skipLines_cons_ne c s k hc] at h
        have := ih (k + 1) rest h
        have hne : ¬ (c == '\n') = true := by simpa using hc
        simp [List.count_cons, hne]
        omega

/-- the requested line is a suffix of the text -/
theorem skipLines_suffix : ∀ (src : List Char) (k : Nat) (rest : List Char),
    skipLines src k = some rest → ∃ pre, src = pre ++ rest := by
  intro src
  induction src with
  | nil =>
    intro k rest h
    cases k with
    | zero => rw [skipLines_zero] at h; exact ⟨[], by simpa using h⟩
    | succ k => simp [skipLines] at h
  | cons c s ih =>
    intro k rest h
    cases k with
    | zero => rw [skipLines_zero] at h; exact ⟨[], by simpa using h⟩
    | succ k =>
      by_cases hc : c = '\n'
      · subst hc
        rw [skipLines_cons_nl] at h
        obtain ⟨pre, hp⟩ := ih k rest h
        exact ⟨'\n' :: pre, by rw [hp]; rfl⟩
      · rw [skipLines_cons_ne c s k hc] at h
        obtain ⟨pre, hp⟩ := ih (k + 1) rest h
        exact ⟨c :: pre, by rw [hp]; rfl⟩

theorem lineOf_length_le (l : List Char) : (lineOf l).length ≤ l.length := by
  induction l with
  | nil => simp [lineOf_nil]
  | cons c s ih =>
    by_cases hc : c = '\n'
    · subst hc; simp [lineOf_cons_nl]
    · rw [lineOf_cons_ne c s hc]; simp only [List.length_cons]; omega

theorem mem_lineOf : ∀ (l : List Char) (c : Char), c ∈ lineOf l → c ∈ l := by
  intro l
  induction l with
  | nil => intro c h; simp [lineOf_nil] at h
  | cons x s ih =>
    intro c h
    by_cases hx : x = '\n'
    · subst hx; simp [lineOf_cons_nl] at h
    · rw [lineOf_cons_ne x s hx] at h
      cases h with
      | head => exact List.mem_cons_self ..
      | tail _ h' => exact List.mem_cons_of_mem _ (ih c h')

/-- ANTLR's position of offset `k` names a line of the text, a column inside that line, and the
    rest of that line from the column on is the text from offset `k` on -/
theorem posOf_spec : ∀ (src : List Char) (k : Nat), k ≤ src.length →
    ∃ rest, skipLines src (posOf src k).1 = some rest ∧
      (posOf src k).2 ≤ rest.length ∧
      rest.drop (posOf src k).2 = src.drop k ∧
      (∀ c, c ∈ rest.take (posOf src k).2 → c ≠ '\n') := by
  intro src
  induction src with
  | nil =>
    intro k hk
    have : k = 0 := by simpa using hk
    subst this
    exact ⟨[], by simp [posOf, skipLines]⟩
  | cons c s ih =>
    intro k hk
    cases k with
    | zero => exact ⟨c :: s, by simp [posOf, skipLines]⟩
    | succ k =>
      have hk' : k ≤ s.length := by simpa using hk
      obtain ⟨rest, h1, h2, h3, h4⟩ := ih k hk'
      by_cases hc : c = '\n'
      · subst hc
        refine ⟨rest, ?_, ?_, ?_, ?_⟩ <;> simp only [posOf, if_true]
        · rw [skipLines_cons_nl]; exact h1
        · exact h2
        · simpa using h3
        · exact h4
      · by_cases hz : (posOf s k).1 = 0
        · rw [hz, skipLines_zero] at h1
          have hr : rest = s := by simpa using h1.symm
          subst hr
          refine ⟨c :: rest, ?_, ?_, ?_, ?_⟩ <;> simp only [posOf, hc, if_false, hz, if_true]
          · exact skipLines_zero _
          · simpa using h2
          · simpa using h3
          · intro x hx
            simp only [List.take_succ_cons, List.mem_cons] at hx
            cases hx with
            | inl e => exact e ▸ hc
            | inr m => exact h4 x m
        · obtain ⟨m, hm⟩ : ∃ m, (posOf s k).1 = m + 1 := ⟨(posOf s k).1 - 1, by omega⟩
          refine ⟨rest, ?_, ?_, ?_, ?_⟩ <;> simp only [posOf, hc, if_false, hz]
          · rw [hm, skipLines_cons_ne c s m hc, ← hm]; exact h1
          · exact h2
          · simpa using h3
          · exact h4

theorem lineOf_append_of_no_nl (l₁ l₂ : List Char) (h : ∀ c, c ∈ l₁ → c ≠ '\n') :
    lineOf (l₁ ++ l₂) = l₁ ++ lineOf l₂ := by
  induction l₁ with
  | nil => rfl
  | cons c s ih =>
    have hc : c ≠ '\n' := h c (List.mem_cons_self ..)
    rw [List.cons_append, lineOf_cons_ne _ _ hc, ih (fun x hx => h x (List.mem_cons_of_mem _ hx))]
    rfl

/-- the length of the line named by `posOf` = column + length of what follows offset `k` on that line -/
theorem posOf_line_length (src : List Char) (k : Nat) (hk : k ≤ src.length) :
    ∃ rest, skipLines src (posOf src k).1 = some rest ∧
      (lineOf rest).length = (posOf src k).2 + (lineOf (src.drop k)).length ∧
      lineOf rest = rest.take (posOf src k).2 ++ lineOf (src.drop k) := by
  obtain ⟨rest, h1, h2, h3, h4⟩ := posOf_spec src k hk
  refine ⟨rest, h1, ?_⟩
  have hsplit : rest = rest.take (posOf src k).2 ++ rest.drop (posOf src k).2 := (List.take_append_drop _ _).symm
  have hl : lineOf rest = rest.take (posOf src k).2 ++ lineOf (src.drop k) := by
    conv => lhs; rw [hsplit]
    rw [lineOf_append_of_no_nl _ _ h4, h3]
  refine ⟨?_, hl⟩
  rw [hl, List.length_append, List.length_take, Nat.min_eq_left h2]

theorem cpLen_ascii : ∀ l : List Char, (∀ c, c ∈ l → c.toNat < 128) → cpLen l = l.length := by
  intro l
  induction l with
  | nil => intro _; rfl
  | cons c s ih =>
    intro h
    have hc : c.toNat < 128 := h c (List.mem_cons_self ..)
    have hnc : isCont c = false := by
      unfold isCont
      have : ¬ 128 ≤ c.toNat := by omega
      simp [this]
    have := ih (fun x hx => h x (List.mem_cons_of_mem _ hx))
    unfold cpLen at this ⊢
    simp [List.filter_cons, hnc, this]

theorem mem_expand (tab : Nat) : ∀ (l : List Char) (x : Char), x ∈ expand tab l → x = ' ' ∨ x ∈ l := by
  intro l
  induction l with
  | nil => intro x h; simp [expand] at h
  | cons c s ih =>
    intro x h
    rw [expand_cons, List.mem_append] at h
    cases h with
    | inl h =>
      unfold piece at h
      split at h
      · exact Or.inl (List.eq_of_mem_replicate h)
      · split at h
        · simp at h
        · right; simp at h; simp [h]
    | inr h =>
      cases ih x h with
      | inl e => exact Or.inl e
      | inr m => exact Or.inr (List.mem_cons_of_mem _ m)

end VtlModel.Text.SrcLine

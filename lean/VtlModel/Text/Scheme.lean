/-
  Text/Scheme — C25: model of `vtlengine.API._InternalApi.ast_to_sdmx` (script → TransformationScheme)
  and of pysdmx `generate_vtl_script` (TransformationScheme → script text), at the level of the
  top-level statement list.  Import-free, total, computable.

  A script is the list `ast.children` that `create_ast` hands to `ast_to_sdmx`: one entry per
  top-level statement.  What a statement *says* (the right-hand side of an assignment, the body of a
  definition) is an opaque `String` — the text `ASTString().render` produces for it.  That this text
  re-parses to the same AST is NOT modelled here; it is checked on the real code by the correspondence
  (harness/checks/c25.py, steps b/c).  What IS modelled, statement for statement:

    for child in ast.children:
        PersistentAssignment -> count_transformation += 1; items.append(T<count>, result, expr, True)
        Assignment           -> count_transformation += 1; items.append(T<count>, result, expr, False)
        DPRuleset | HRuleset -> count_ruleset += 1;        rulesets.append(R<count>, type, scope, defn)
        Operator             -> count_udo += 1;            udos.append(UDO<count>, defn)
        (anything else, i.e. ViralPropagationDef: no branch matches — the child is skipped)

  and pysdmx `generate_vtl_script`: ruleset definitions, then operator definitions, then
  `result <- expr;` / `result := expr;` for the items, each list in its own order.
-/
namespace VtlModel.Text.Scheme

inductive RulesetKind | dp | hr
deriving DecidableEq, Repr

inductive Scope | variable | valuedomain
deriving DecidableEq, Repr

inductive Stmt
  | assign (persistent : Bool) (name : String) (expr : String)
  | ruleset (kind : RulesetKind) (name : String) (scope : Scope) (defn : String)
  | udo (name : String) (defn : String)
  | viral (name : String) (defn : String)
deriving DecidableEq, Repr

abbrev Script := List Stmt

/-- `pysdmx.model.Transformation`; `idx` is the counter, the SDMX id is `T<idx>` (`Transformation.id`). -/
structure Transformation where
  idx : Nat
  result : String
  expr : String
  persistent : Bool
deriving DecidableEq, Repr

/-- `pysdmx.model.Ruleset`: id `R<idx>`, ruleset_type, ruleset_scope, ruleset_definition.
`name` is the ruleset's own name (the code stores it inside the display name and the definition). -/
structure RulesetItem where
  idx : Nat
  kind : RulesetKind
  name : String
  scope : Scope
  defn : String
deriving DecidableEq, Repr

/-- `pysdmx.model.UserDefinedOperator`: id `UDO<idx>`, operator_definition. -/
structure UdoItem where
  idx : Nat
  name : String
  defn : String
deriving DecidableEq, Repr

structure Scheme where
  items : List Transformation
  rulesets : List RulesetItem
  udos : List UdoItem
deriving DecidableEq, Repr

def Transformation.id (t : Transformation) : String := "T" ++ toString t.idx
def RulesetItem.id (r : RulesetItem) : String := "R" ++ toString r.idx
def UdoItem.id (u : UdoItem) : String := "UDO" ++ toString u.idx

/-- loop state of `ast_to_sdmx`: the three lists and the three counters -/
structure Acc where
  items : List Transformation := []
  rulesets : List RulesetItem := []
  udos : List UdoItem := []
  ct : Nat := 0
  cr : Nat := 0
  cu : Nat := 0
deriving Repr

/-- one iteration of `for child in ast.children` -/
def step (a : Acc) : Stmt → Acc
  | .assign p n e => { a with ct := a.ct + 1, items := a.items ++ [⟨a.ct + 1, n, e, p⟩] }
  | .ruleset k n sc d => { a with cr := a.cr + 1, rulesets := a.rulesets ++ [⟨a.cr + 1, k, n, sc, d⟩] }
  | .udo n d => { a with cu := a.cu + 1, udos := a.udos ++ [⟨a.cu + 1, n, d⟩] }
  | .viral _ _ => a      -- no `isinstance` branch matches a ViralPropagationDef: dropped

/-- `ast_to_sdmx` -/
def ofScript (s : Script) : Scheme :=
  let a := s.foldl step {}
  ⟨a.items, a.rulesets, a.udos⟩

/-- pysdmx `generate_vtl_script`: `_process_ruleset_scheme` ++ `_process_udo_scheme` ++
`_process_transformation`, one statement per line. -/
def toScript (sc : Scheme) : Script :=
  sc.rulesets.map (fun r => Stmt.ruleset r.kind r.name r.scope r.defn)
    ++ sc.udos.map (fun u => Stmt.udo u.name u.defn)
    ++ sc.items.map (fun t => Stmt.assign t.persistent t.result t.expr)

/-! ### the vocabulary of the property -/

def Stmt.isAssign : Stmt → Bool | .assign .. => true | _ => false
def Stmt.isRuleset : Stmt → Bool | .ruleset .. => true | _ => false
def Stmt.isUdo : Stmt → Bool | .udo .. => true | _ => false
def Stmt.isViral : Stmt → Bool | .viral .. => true | _ => false
/-- everything `ast_to_sdmx` has a branch for -/
def Stmt.notViral (st : Stmt) : Bool := !st.isViral

/-- (result, expression, persistent) of the assignments of a script, in script order -/
def assignmentsOf : Script → List (String × String × Bool)
  | [] => []
  | .assign p n e :: r => (n, e, p) :: assignmentsOf r
  | _ :: r => assignmentsOf r

def NoViralDefs (s : Script) : Prop := ∀ st ∈ s, st.isViral = false

instance (s : Script) : Decidable (NoViralDefs s) := by unfold NoViralDefs; infer_instance

/-- 0 = viral propagation, 1 = ruleset, 2 = operator, 3 = assignment: the block order that
`DAGAnalyzer.sort_ast` (run by `create_ast`) gives `ast.children`
(`vp + hr + dp + do + sorted assignments`). -/
def Stmt.phase : Stmt → Nat
  | .viral .. => 0 | .ruleset .. => 1 | .udo .. => 2 | .assign .. => 3

/-- definitions hoisted before transformations, rulesets before operators (what `sort_ast` returns) -/
def Hoisted (s : Script) : Prop := s.Pairwise (fun a b => a.phase ≤ b.phase)

def isHoisted : Script → Bool
  | [] => true
  | a :: r => r.all (fun b => a.phase ≤ b.phase) && isHoisted r

/-- `DAGAnalyzer.sort_ast` without the topological permutation of the assignments (C12's subject):
hoists viral definitions, hierarchical rulesets, datapoint rulesets, operators, in that order. -/
def hoist (s : Script) : Script :=
  s.filter Stmt.isViral
    ++ s.filter (fun st => match st with | .ruleset .hr .. => true | _ => false)
    ++ s.filter (fun st => match st with | .ruleset .dp .. => true | _ => false)
    ++ s.filter Stmt.isUdo ++ s.filter Stmt.isAssign

end VtlModel.Text.Scheme

/-
  Model for C26 (error codes / placeholders) and C32 (failures surface as VTL errors).
  Import-free, total, computable.  Strings of the repository are interned as `Nat` ids by the translators
  (`Gen/Catalogue.strs` is the table); SQL error texts are lists of code points so that the kernel can decide
  substring tests with GMP-accelerated `Nat` comparisons.
-/
namespace VtlModel.Errors

/-! ## C26: catalogue, raise sites, message rendering -/

/-- One piece of a catalogue message as `string.Formatter().parse` splits it. -/
inductive Piece where
  | lit (s : Nat)      -- literal text (string-table id)
  | ph (name : Nat)    -- `{name}` (string-table id of the name)
deriving DecidableEq, Repr

structure Msg where
  code : Nat
  tmpl : List Piece
deriving Repr

/-- One constructor call `Cls(code, **kw)` found in the source tree. -/
structure Site where
  file : Nat
  func : Nat
  line : Nat
  cls : Nat
  codes : List Nat     -- singleton for a literal code; the finite value set of an f-string / variable code
  literal : Bool
  inSlot : Bool        -- the code is passed in the constructor's `code` parameter
  kwargs : List Nat    -- keyword names that end up in `**kwargs` (named parameters removed)
  star : Bool          -- the call passes `**something`
deriving Repr

def placeholders : List Piece → List Nat
  | [] => []
  | .lit _ :: t => placeholders t
  | .ph n :: t => n :: placeholders t

def findMsg : List Msg → Nat → Option Msg
  | [], _ => none
  | m :: t, c => if m.code == c then some m else findMsg t c

/-- `kwargs` supplies every placeholder of `t`. -/
def suppliesB (kwargs : List Nat) (t : List Piece) : Bool :=
  (placeholders t).all (fun n => kwargs.contains n)

def codeOkB (cat : List Msg) (s : Site) (c : Nat) : Bool :=
  s.inSlot && (match findMsg cat c with
    | none => false
    | some m => s.star || suppliesB s.kwargs m.tmpl)

def siteOkB (cat : List Msg) (s : Site) : Bool :=
  !s.codes.isEmpty && s.codes.all (codeOkB cat s)

/-- indices (from `i`) of the sites that are not ok -/
def badFrom (cat : List Msg) : Nat → List Site → List Nat
  | _, [] => []
  | i, s :: t => if siteOkB cat s then badFrom cat (i + 1) t else i :: badFrom cat (i + 1) t

def badIdx (cat : List Msg) (sites : List Site) : List Nat := badFrom cat 0 sites

/-! ### rendering: `centralised_messages[code]["message"].format(**kwargs)` -/

inductive RenderErr where
  | unknownCode (c : Nat)     -- KeyError on the catalogue
  | missingKey (n : Nat)      -- KeyError inside str.format
deriving DecidableEq, Repr

/-- keyword arguments with their values already turned into text by `format(v, "")` -/
abbrev Args := List (Nat × String)

def lookupArg : Args → Nat → Option String
  | [], _ => none
  | (k, v) :: t, n => if k == n then some v else lookupArg t n

/-- `txt` is the string table. Fails exactly like `str.format`: at the first placeholder without a key. -/
def render (txt : Nat → String) : List Piece → Args → Except RenderErr String
  | [], _ => .ok ""
  | .lit s :: t, a =>
    match render txt t a with
    | .ok r => .ok (txt s ++ r)
    | .error e => .error e
  | .ph n :: t, a =>
    match lookupArg a n with
    | none => .error (.missingKey n)
    | some v =>
      match render txt t a with
      | .ok r => .ok (v ++ r)
      | .error e => .error e

/-- what every coded constructor does first -/
def construct (txt : Nat → String) (cat : List Msg) (code : Nat) (a : Args) : Except RenderErr String :=
  match findMsg cat code with
  | none => .error (.unknownCode code)
  | some m => render txt m.tmpl a

def zipArgs : List Nat → List String → Args
  | k :: ks, v :: vs => (k, v) :: zipArgs ks vs
  | _, _ => []

/-! ## C32: SQL error texts, the decision lists of the error mappers, phases -/

/-- piece of an engine-authored `error(...)` argument: SQL string literal text, or anything else (a column,
    a Python-formatted value …) whose run-time text is unknown -/
inductive SPiece where
  | lit (cs : List Nat)
  | hole
deriving Repr

structure SqlError where
  file : Nat
  unit : Nat            -- macro name / Python function
  line : Nat
  phases : List Nat     -- phases in which the text can be raised
  msg : List SPiece
deriving Repr

def lowerAscii (c : Nat) : Nat := if 65 ≤ c && c ≤ 90 then c + 32 else c

def isPrefixB : List Nat → List Nat → Bool
  | [], _ => true
  | _ :: _, [] => false
  | a :: as, b :: bs => a == b && isPrefixB as bs

/-- `needle in hay` -/
def containsB (needle : List Nat) : List Nat → Bool
  | [] => needle.isEmpty
  | h :: t => isPrefixB needle (h :: t) || containsB needle t

/-- condition of one `if` of a mapper, over the lower-cased message -/
inductive Cond where
  | has (needle : List Nat)
  | and (a b : Cond)
  | or (a b : Cond)
  | not (a : Cond)
  | tt
deriving Repr

def Cond.eval : Cond → List Nat → Bool
  | .has n, m => containsB n m
  | .and a b, m => a.eval m && b.eval m
  | .or a b, m => a.eval m || b.eval m
  | .not a, m => !a.eval m
  | .tt, _ => true

structure Outcome where
  cls : Nat
  code : Nat
  kwargs : List Nat
  star : Bool
deriving Repr

structure Rule where
  cond : Cond
  outs : List Outcome    -- every `return Cls(code, …)` reachable in the branch
deriving Repr

/-- the `if`-chain: first condition that holds decides -/
def firstMatch : List Rule → List Nat → Option Rule
  | [], _ => none
  | r :: t, m => if r.cond.eval m then some r else firstMatch t m

def firstMatchIdx : List Rule → List Nat → Nat → Option Nat
  | [], _, _ => none
  | r :: t, m, i => if r.cond.eval m then some i else firstMatchIdx t m (i + 1)

/-- the lower-cased run-time text: literal pieces lower-cased, holes filled (in order) with arbitrary text;
    `pre` is what DuckDB puts in front ("Invalid Input Error: "), `post` anything appended -/
def fillLower : List SPiece → List (List Nat) → List Nat
  | [], _ => []
  | .lit cs :: t, fs => cs.map lowerAscii ++ fillLower t fs
  | .hole :: t, [] => fillLower t []
  | .hole :: t, f :: fs => f ++ fillLower t fs

def runtimeText (pre : List Nat) (m : List SPiece) (fills : List (List Nat)) (post : List Nat) : List Nat :=
  pre ++ fillLower m fills ++ post

/-- sound static test: the condition holds whatever the holes contain -/
def Cond.static : Cond → List SPiece → Bool
  | .has n, m => m.any (fun p => match p with | .lit cs => containsB n (cs.map lowerAscii) | .hole => false)
  | .and a b, m => a.static m && b.static m
  | .or a b, m => a.static m || b.static m
  | .not _, _ => false
  | .tt, _ => true

def outcomeOkB (cat : List Msg) (o : Outcome) : Bool :=
  match findMsg cat o.code with
  | none => false
  | some m => o.star || suppliesB o.kwargs m.tmpl

def ruleOkB (cat : List Msg) (r : Rule) : Bool := !r.outs.isEmpty && r.outs.all (outcomeOkB cat)

def someRuleStatic (rules : List Rule) (m : List SPiece) : Bool := rules.any (fun r => r.cond.static m)

/-- phases of a `run()` in which DuckDB executes something -/
def phaseLoad : Nat := 0
def phaseStmt : Nat := 1
def phaseRepr : Nat := 2
def phaseFetch : Nat := 3
def phaseWrite : Nat := 4
def allPhases : List Nat := [0, 1, 2, 3, 4]

/-- a call into DuckDB (`conn.execute`, `.fetchdf()` …) in the execution path of `run()` -/
structure DbSite where
  file : Nat
  func : Nat
  line : Nat
  phase : Nat
  mapper : Nat      -- 0 = a duckdb.Error raised here reaches the caller of run() unchanged;
                    -- 1 = a handler swallows it (nothing escapes);
                    -- k+2 = a handler passes it through mapper k of `Gen.ErrorMap.mappers`
deriving Repr

def phaseWrappedB (sites : List DbSite) (p : Nat) : Bool :=
  sites.all (fun s => s.phase != p || s.mapper != 0)

def unwrappedPhases (sites : List DbSite) : List Nat := allPhases.filter (fun p => !phaseWrappedB sites p)

def getD {α} (d : α) : List α → Nat → α
  | [], _ => d
  | x :: _, 0 => x
  | _ :: t, n + 1 => getD d t n

/-- the decision lists every duckdb.Error of phase `p` goes through; `none` when some DuckDB call of the phase
    is not wrapped at all -/
def phaseRules (sites : List DbSite) (mappers : List (List Rule)) (p : Nat) : Option (List (List Rule)) :=
  if phaseWrappedB sites p then
    some (((sites.filter (fun s => s.phase == p && s.mapper ≥ 2)).map (fun s => getD [] mappers (s.mapper - 2))))
  else none

def mappedInB (sites : List DbSite) (mappers : List (List Rule)) (e : SqlError) (p : Nat) : Bool :=
  match phaseRules sites mappers p with
  | none => false
  | some rs => rs.all (fun rules => someRuleStatic rules e.msg)

/-- (error index, phase) pairs, phase ≠ load, for which no mapping is guaranteed -/
def unmappedFrom (sites : List DbSite) (mappers : List (List Rule)) : Nat → List SqlError → List (Nat × Nat)
  | _, [] => []
  | i, e :: t =>
    ((e.phases.filter (fun p => p != phaseLoad && !mappedInB sites mappers e p)).map (fun p => (i, p)))
    ++ unmappedFrom sites mappers (i + 1) t

/-- rules of the handler around the statement execution (first wrapped DuckDB call of the stmt phase) -/
def stmtRules (sites : List DbSite) (mappers : List (List Rule)) : List Rule :=
  match sites.filter (fun s => s.phase == phaseStmt && s.mapper ≥ 2) with
  | [] => []
  | s :: _ => getD [] mappers (s.mapper - 2)

/-- indices of the concrete (DuckDB-native) texts that no rule matches: they leave `_map_query_error` unchanged -/
def nativeUnmappedFrom (rules : List Rule) : Nat → List (List Nat) → List Nat
  | _, [] => []
  | i, t :: ts =>
    if (firstMatch rules (t.map lowerAscii)).isSome then nativeUnmappedFrom rules (i + 1) ts
    else i :: nativeUnmappedFrom rules (i + 1) ts

end VtlModel.Errors

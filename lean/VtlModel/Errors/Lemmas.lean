import VtlModel.Errors.Model
/-
  Lemmas about the C26 / C32 model (no Mathlib needed).
-/
namespace VtlModel.Errors

/-! ### rendering -/

theorem lookupArg_zipArgs {ks : List Nat} {vs : List String} (h : vs.length = ks.length) {n : Nat}
    (hn : n ∈ ks) : ∃ v, lookupArg (zipArgs ks vs) n = some v := by
  induction ks generalizing vs with
  | nil => cases hn
  | cons k ks ih =>
    cases vs with
    | nil => simp at h
    | cons v vs =>
      simp only [zipArgs, lookupArg]
      by_cases hk : (k == n) = true
      · exact ⟨v, by simp [hk]⟩
      · have hne : k ≠ n := by intro e; apply hk; simp [e]
        have : n ∈ ks := by
          cases hn with
          | head => exact absurd rfl hne
          | tail _ h' => exact h'
        have hl : vs.length = ks.length := by simpa using h
        obtain ⟨w, hw⟩ := ih hl this
        exact ⟨w, by simp [hk, hw]⟩

theorem render_total (txt : Nat → String) (t : List Piece) (a : Args)
    (h : ∀ n ∈ placeholders t, ∃ v, lookupArg a n = some v) : ∃ s, render txt t a = .ok s := by
  induction t with
  | nil => exact ⟨"", rfl⟩
  | cons p t ih =>
    cases p with
    | lit s =>
      have h' : ∀ n ∈ placeholders t, ∃ v, lookupArg a n = some v := fun n hn => h n (by simpa [placeholders] using hn)
      obtain ⟨r, hr⟩ := ih h'
      exact ⟨txt s ++ r, by simp [render, hr]⟩
    | ph n =>
      have h' : ∀ m ∈ placeholders t, ∃ v, lookupArg a m = some v :=
        fun m hm => h m (by simp [placeholders, hm])
      obtain ⟨r, hr⟩ := ih h'
      obtain ⟨v, hv⟩ := h n (by simp [placeholders])
      exact ⟨v ++ r, by simp [render, hv, hr]⟩

theorem render_missing (txt : Nat → String) (t : List Piece) (a : Args)
    (h : ∃ n ∈ placeholders t, lookupArg a n = none) :
    ∃ k, render txt t a = .error (.missingKey k) ∧ k ∈ placeholders t ∧ lookupArg a k = none := by
  induction t with
  | nil => obtain ⟨n, hn, _⟩ := h; cases hn
  | cons p t ih =>
    cases p with
    | lit s =>
      obtain ⟨n, hn, hl⟩ := h
      obtain ⟨k, hk, hk1, hk2⟩ := ih ⟨n, by simpa [placeholders] using hn, hl⟩
      exact ⟨k, by simp [render, hk], by simpa [placeholders] using hk1, hk2⟩
    | ph m =>
      cases hm : lookupArg a m with
      | none => exact ⟨m, by simp [render, hm], by simp [placeholders], hm⟩
      | some v =>
        obtain ⟨n, hn, hl⟩ := h
        have hn' : n ∈ placeholders t := by
          simp only [placeholders, List.mem_cons] at hn
          cases hn with
          | inl e => subst e; rw [hm] at hl; cases hl
          | inr h' => exact h'
        obtain ⟨k, hk, hk1, hk2⟩ := ih ⟨n, hn', hl⟩
        exact ⟨k, by simp [render, hm, hk], by simp [placeholders, hk1], hk2⟩

theorem suppliesB_iff (ks : List Nat) (t : List Piece) :
    suppliesB ks t = true ↔ ∀ n ∈ placeholders t, n ∈ ks := by
  simp [suppliesB, List.all_eq_true]

theorem lookupArg_none_of_not_mem {ks : List Nat} {vs : List String} {n : Nat} (hn : n ∉ ks) :
    lookupArg (zipArgs ks vs) n = none := by
  induction ks generalizing vs with
  | nil => simp [zipArgs, lookupArg]
  | cons k ks ih =>
    cases vs with
    | nil => simp [zipArgs, lookupArg]
    | cons v vs =>
      have hk : k ≠ n := fun e => hn (by simp [e])
      have : n ∉ ks := fun h => hn (by simp [h])
      simp [zipArgs, lookupArg, hk, ih this]

theorem construct_ok (txt : Nat → String) (cat : List Msg) (c : Nat) (m : Msg) (ks : List Nat) (vs : List String)
    (hm : findMsg cat c = some m) (hs : suppliesB ks m.tmpl = true) (hl : vs.length = ks.length) :
    ∃ s, construct txt cat c (zipArgs ks vs) = .ok s := by
  unfold construct; rw [hm]
  exact render_total txt _ _ (fun n hn => lookupArg_zipArgs hl ((suppliesB_iff ks m.tmpl).1 hs n hn))

theorem construct_fails (txt : Nat → String) (cat : List Msg) (c : Nat) (ks : List Nat) (vs : List String)
    (h : (match findMsg cat c with | none => false | some m => suppliesB ks m.tmpl) = false) :
    ∃ e, construct txt cat c (zipArgs ks vs) = .error e := by
  unfold construct
  cases hm : findMsg cat c with
  | none => exact ⟨_, rfl⟩
  | some m =>
    rw [hm] at h
    simp only at h
    have : ¬ ∀ n ∈ placeholders m.tmpl, n ∈ ks := fun hh => by
      rw [(suppliesB_iff ks m.tmpl).2 hh] at h; cases h
    have : ∃ n ∈ placeholders m.tmpl, n ∉ ks := by
      apply Classical.byContradiction; intro hne; apply this
      intro n hn; apply Classical.byContradiction; intro hn'; exact hne ⟨n, hn, hn'⟩
    obtain ⟨n, hn, hnk⟩ := this
    obtain ⟨k, hk, _, _⟩ := render_missing txt m.tmpl (zipArgs ks vs) ⟨n, hn, lookupArg_none_of_not_mem hnk⟩
    exact ⟨_, hk⟩

/-! ### the bad-site list is exactly the set of sites that fail `siteOkB` -/

theorem mem_badFrom (cat : List Msg) (sites : List Site) (i j : Nat) :
    j ∈ badFrom cat i sites ↔ ∃ k s, sites[k]? = some s ∧ j = i + k ∧ siteOkB cat s = false := by
  induction sites generalizing i with
  | nil => simp [badFrom]
  | cons s t ih =>
    simp only [badFrom]
    constructor
    · intro h
      by_cases hs : siteOkB cat s = true
      · rw [if_pos hs] at h
        obtain ⟨k, s', h1, h2, h3⟩ := (ih (i + 1)).1 h
        exact ⟨k + 1, s', by simpa using h1, by omega, h3⟩
      · rw [if_neg hs] at h
        cases h with
        | head => exact ⟨0, s, by simp, by omega, by simpa using hs⟩
        | tail _ h' =>
          obtain ⟨k, s', h1, h2, h3⟩ := (ih (i + 1)).1 h'
          exact ⟨k + 1, s', by simpa using h1, by omega, h3⟩
    · rintro ⟨k, s', h1, h2, h3⟩
      cases k with
      | zero =>
        simp at h1; subst h1
        have : ¬ siteOkB cat s = true := by simp [h3]
        rw [if_neg this]; simp [h2]
      | succ k =>
        have h1' : t[k]? = some s' := by simpa using h1
        have : j ∈ badFrom cat (i + 1) t := (ih (i + 1)).2 ⟨k, s', h1', by omega, h3⟩
        by_cases hs : siteOkB cat s = true
        · rw [if_pos hs]; exact this
        · rw [if_neg hs]; exact List.mem_cons_of_mem _ this

theorem mem_badIdx (cat : List Msg) (sites : List Site) (j : Nat) :
    j ∈ badIdx cat sites ↔ ∃ s, sites[j]? = some s ∧ siteOkB cat s = false := by
  unfold badIdx
  rw [mem_badFrom]
  constructor
  · rintro ⟨k, s, h1, h2, h3⟩; exact ⟨s, by simpa [h2] using h1, h3⟩
  · rintro ⟨s, h1, h3⟩; exact ⟨j, s, h1, by omega, h3⟩

/-- the property of one raise site, as a proposition -/
def SiteOk (cat : List Msg) (s : Site) : Prop :=
  s.codes ≠ [] ∧ ∀ c ∈ s.codes, s.inSlot = true ∧
    ∃ m, findMsg cat c = some m ∧ (s.star = true ∨ ∀ n ∈ placeholders m.tmpl, n ∈ s.kwargs)

theorem codeOkB_iff (cat : List Msg) (s : Site) (c : Nat) :
    codeOkB cat s c = true ↔ (s.inSlot = true ∧
      ∃ m, findMsg cat c = some m ∧ (s.star = true ∨ ∀ n ∈ placeholders m.tmpl, n ∈ s.kwargs)) := by
  unfold codeOkB
  cases hm : findMsg cat c with
  | none => simp
  | some m => simp [suppliesB_iff]

theorem siteOkB_iff (cat : List Msg) (s : Site) : siteOkB cat s = true ↔ SiteOk cat s := by
  unfold siteOkB SiteOk
  simp only [Bool.and_eq_true, Bool.not_eq_true', List.all_eq_true, codeOkB_iff]
  constructor
  · rintro ⟨h1, h2⟩; exact ⟨by intro e; simp [e] at h1, h2⟩
  · rintro ⟨h1, h2⟩
    refine ⟨?_, h2⟩
    cases hc : s.codes with
    | nil => exact absurd hc h1
    | cons _ _ => rfl

/-! ### substring tests survive any context (C32) -/

theorem isPrefixB_append (n a b : List Nat) (h : isPrefixB n a = true) : isPrefixB n (a ++ b) = true := by
  induction n generalizing a with
  | nil => simp [isPrefixB]
  | cons x n ih =>
    cases a with
    | nil => simp [isPrefixB] at h
    | cons y a =>
      simp only [isPrefixB, Bool.and_eq_true] at h
      simp [isPrefixB, h.1, ih a h.2]

theorem containsB_append_right (n a b : List Nat) (h : containsB n a = true) : containsB n (a ++ b) = true := by
  induction a with
  | nil =>
    simp only [containsB, List.isEmpty_iff] at h
    subst h
    cases b <;> simp [containsB, isPrefixB]
  | cons x a ih =>
    simp only [containsB, Bool.or_eq_true] at h
    simp only [List.cons_append, containsB, Bool.or_eq_true]
    cases h with
    | inl h => exact Or.inl (by simpa using isPrefixB_append n (x :: a) b h)
    | inr h => exact Or.inr (ih h)

theorem containsB_append_left (n a b : List Nat) (h : containsB n b = true) : containsB n (a ++ b) = true := by
  induction a with
  | nil => simpa using h
  | cons x a ih =>
    simp only [List.cons_append]
    cases hab : a ++ b with
    | nil =>
      rw [hab] at ih
      simp only [containsB, List.isEmpty_iff] at ih
      subst ih
      simp [containsB, isPrefixB]
    | cons y r =>
      rw [hab] at ih
      simp only [containsB, Bool.or_eq_true]
      exact Or.inr (by simpa [containsB] using ih)

theorem containsB_context (n pre mid post : List Nat) (h : containsB n mid = true) :
    containsB n (pre ++ mid ++ post) = true := by
  rw [List.append_assoc]
  exact containsB_append_left n pre _ (containsB_append_right n mid post h)

theorem has_static_sound (n : List Nat) (m : List SPiece) (fills : List (List Nat))
    (h : (Cond.has n).static m = true) : containsB n (fillLower m fills) = true := by
  induction m generalizing fills with
  | nil => simp [Cond.static] at h
  | cons p t ih =>
    simp only [Cond.static, List.any_cons, Bool.or_eq_true] at h
    cases p with
    | lit cs =>
      cases h with
      | inl h => simp only [fillLower]; exact containsB_append_right n _ _ h
      | inr h =>
        simp only [fillLower]
        exact containsB_append_left n _ _ (ih fills (by simpa [Cond.static] using h))
    | hole =>
      cases h with
      | inl h => simp at h
      | inr h =>
        cases fills with
        | nil => simp only [fillLower]; exact ih [] (by simpa [Cond.static] using h)
        | cons f fs =>
          simp only [fillLower]
          exact containsB_append_left n _ _ (ih fs (by simpa [Cond.static] using h))

theorem static_sound (c : Cond) (m : List SPiece) (pre post : List Nat) (fills : List (List Nat))
    (h : c.static m = true) : c.eval (runtimeText pre m fills post) = true := by
  induction c with
  | has n => exact containsB_context n pre _ post (has_static_sound n m fills h)
  | and a b iha ihb =>
    simp only [Cond.static, Bool.and_eq_true] at h
    simp [Cond.eval, iha h.1, ihb h.2]
  | or a b iha ihb =>
    simp only [Cond.static, Bool.or_eq_true] at h
    cases h with
    | inl h => simp [Cond.eval, iha h]
    | inr h => simp [Cond.eval, ihb h]
  | not a _ => simp [Cond.static] at h
  | tt => rfl

theorem firstMatch_some_of_eval (rules : List Rule) (t : List Nat)
    (h : ∃ r ∈ rules, r.cond.eval t = true) : ∃ r ∈ rules, firstMatch rules t = some r := by
  induction rules with
  | nil => obtain ⟨r, hr, _⟩ := h; cases hr
  | cons r rs ih =>
    by_cases hr : r.cond.eval t = true
    · exact ⟨r, by simp, by simp [firstMatch, hr]⟩
    · obtain ⟨r', hr', he⟩ := h
      have : r' ∈ rs := by
        cases hr' with
        | head => exact absurd he hr
        | tail _ h' => exact h'
      obtain ⟨q, hq, hf⟩ := ih ⟨r', this, he⟩
      exact ⟨q, List.mem_cons_of_mem _ hq, by simp [firstMatch, hr, hf]⟩

/-- a statically matched text is mapped by the if-chain to one of its rules, whatever the holes contain -/
theorem mapped_of_static (rules : List Rule) (m : List SPiece) (h : someRuleStatic rules m = true)
    (pre post : List Nat) (fills : List (List Nat)) :
    ∃ r ∈ rules, firstMatch rules (runtimeText pre m fills post) = some r := by
  simp only [someRuleStatic, List.any_eq_true] at h
  obtain ⟨r, hr, hs⟩ := h
  exact firstMatch_some_of_eval rules _ ⟨r, hr, static_sound r.cond m pre post fills hs⟩

theorem mem_unmappedFrom (sites : List DbSite) (mappers : List (List Rule)) (errs : List SqlError) (i j p : Nat) :
    (j, p) ∈ unmappedFrom sites mappers i errs ↔
      ∃ k e, errs[k]? = some e ∧ j = i + k ∧ p ∈ e.phases ∧ p ≠ phaseLoad ∧ mappedInB sites mappers e p = false := by
  induction errs generalizing i with
  | nil => simp [unmappedFrom]
  | cons e t ih =>
    simp only [unmappedFrom, List.mem_append, List.mem_map, List.mem_filter, Prod.mk.injEq]
    constructor
    · intro h
      cases h with
      | inl h =>
        obtain ⟨q, ⟨hq1, hq2⟩, hq3, hq4⟩ := h
        subst hq4
        simp only [Bool.and_eq_true, bne_iff_ne, ne_eq, Bool.not_eq_true'] at hq2
        exact ⟨0, e, by simp, by omega, hq1, hq2.1, hq2.2⟩
      | inr h =>
        obtain ⟨k, e', h1, h2, h3⟩ := (ih (i + 1)).1 h
        exact ⟨k + 1, e', by simpa using h1, by omega, h3⟩
    · rintro ⟨k, e', h1, h2, h3, h4, h5⟩
      cases k with
      | zero =>
        simp at h1; subst h1
        exact Or.inl ⟨p, ⟨h3, by simp [h4, h5]⟩, by omega, rfl⟩
      | succ k =>
        exact Or.inr ((ih (i + 1)).2 ⟨k, e', by simpa using h1, by omega, h3, h4, h5⟩)

theorem mem_nativeUnmappedFrom (rules : List Rule) (ts : List (List Nat)) (i j : Nat) :
    j ∈ nativeUnmappedFrom rules i ts ↔
      ∃ k t, ts[k]? = some t ∧ j = i + k ∧ firstMatch rules (t.map lowerAscii) = none := by
  induction ts generalizing i with
  | nil => simp [nativeUnmappedFrom]
  | cons t ts ih =>
    simp only [nativeUnmappedFrom]
    cases hf : firstMatch rules (t.map lowerAscii) with
    | some r =>
      simp only [Option.isSome_some, if_true]
      constructor
      · intro h
        obtain ⟨k, t', h1, h2, h3⟩ := (ih (i + 1)).1 h
        exact ⟨k + 1, t', by simpa using h1, by omega, h3⟩
      · rintro ⟨k, t', h1, h2, h3⟩
        cases k with
        | zero => simp at h1; subst h1; rw [hf] at h3; cases h3
        | succ k => exact (ih (i + 1)).2 ⟨k, t', by simpa using h1, by omega, h3⟩
    | none =>
      simp only [Option.isSome_none, Bool.false_eq_true, if_false, List.mem_cons]
      constructor
      · intro h
        cases h with
        | inl h => exact ⟨0, t, by simp, by omega, hf⟩
        | inr h =>
          obtain ⟨k, t', h1, h2, h3⟩ := (ih (i + 1)).1 h
          exact ⟨k + 1, t', by simpa using h1, by omega, h3⟩
      · rintro ⟨k, t', h1, h2, h3⟩
        cases k with
        | zero => exact Or.inl (by omega)
        | succ k => exact Or.inr ((ih (i + 1)).2 ⟨k, t', by simpa using h1, by omega, h3⟩)

theorem getD_nil_or_mem {α} (l : List (List α)) (n : Nat) : getD [] l n = [] ∨ getD [] l n ∈ l := by
  induction l generalizing n with
  | nil => left; rfl
  | cons x t ih =>
    cases n with
    | zero => right; simp [getD]
    | succ n =>
      cases ih n with
      | inl h => left; simpa [getD] using h
      | inr h => right; simp only [getD]; exact List.mem_cons_of_mem _ h

theorem firstMatch_mem (rules : List Rule) (t : List Nat) (r : Rule) (h : firstMatch rules t = some r) : r ∈ rules := by
  induction rules with
  | nil => simp [firstMatch] at h
  | cons q qs ih =>
    simp only [firstMatch] at h
    by_cases hq : q.cond.eval t = true
    · rw [if_pos hq] at h; cases h; simp
    · rw [if_neg hq] at h; exact List.mem_cons_of_mem _ (ih h)

end VtlModel.Errors

import VtlModel.Errors.Model
import VtlModel.Gen.Catalogue
import VtlModel.Gen.RaiseSites
import VtlModel.Gen.SqlErrors
import VtlModel.Gen.ErrorMap
/- umbrella for Drivers/Errors.lean (one `lake build` instead of five) -/

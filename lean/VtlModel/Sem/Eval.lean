import VtlModel.Sem.Value
/-! Datasets, row-level expressions, dataset-level expressions and their evaluation
(the modelled VTL subset for C01 element-wise operators, C02 clauses, C05 set operators).

A dataset is a list of rows; nothing in the semantics depends on the order of that list except
through `List.Perm` (see `Props/C33`).  A row is an association list component-name ↦ value. -/
namespace VtlModel.Sem

abbrev Row := List (String × Value)

def Row.get (r : Row) (n : String) : Value := (r.lookup n).getD .null

/-- projection of a row on a list of component names (canonical column order). -/
def Row.proj (r : Row) (ns : List String) : Row := ns.map (fun n => (n, r.get n))

def Row.key (r : Row) (ids : List String) : List Value := ids.map r.get

structure DS where
  ids : List String
  meas : List String
  rows : List Row
  deriving Repr, Inhabited, DecidableEq

def DS.comps (d : DS) : List String := d.ids ++ d.meas
def DS.keys (d : DS) : List (List Value) := d.rows.map (·.key d.ids)

abbrev Env := List (String × DS)

/-! ### Row-level expressions -/

inductive TernOp where
  | between | substr | replace | ite
  deriving DecidableEq, Repr, Inhabited

inductive SExpr where
  | const (v : Value)
  | col (n : String)          -- component of the current row (clauses)
  | hole                      -- the current measure (`mapm`) / the left operand's measure (`zip`)
  | hole2                     -- the right operand's measure (`zip`)
  | un (op : UnOp) (e : SExpr)
  | bin (op : BinOp) (a b : SExpr)
  | tern (op : TernOp) (a b c : SExpr)
  | isin (neg : Bool) (x : SExpr) (vs : List Value)
  | round (trunc : Bool) (x n : SExpr)
  deriving Repr, Inhabited

def evalS (r : Row) (h1 h2 : Value) : SExpr → R Value
  | .const v => .ok v
  | .col n => .ok (r.get n)
  | .hole => .ok h1
  | .hole2 => .ok h2
  | .un op e => do unop op (← evalS r h1 h2 e)
  | .bin op a b => do binop op (← evalS r h1 h2 a) (← evalS r h1 h2 b)
  | .tern .ite c t e => do
      match ← evalS r h1 h2 c with
      | .bool true => evalS r h1 h2 t
      | .bool false => evalS r h1 h2 e
      | .null => evalS r h1 h2 e
      | _ => .error .type
  | .tern .between x lo hi => do between (← evalS r h1 h2 x) (← evalS r h1 h2 lo) (← evalS r h1 h2 hi)
  | .tern .substr s a b => do substr (← evalS r h1 h2 s) (← evalS r h1 h2 a) (← evalS r h1 h2 b)
  | .tern .replace s a b => do replace (← evalS r h1 h2 s) (← evalS r h1 h2 a) (← evalS r h1 h2 b)
  | .isin neg x vs => do
      let v ← evalS r h1 h2 x
      if neg then vnotin v vs else vin v vs
  | .round tr x n => do roundV tr (← evalS r h1 h2 x) (← evalS r h1 h2 n)

/-! ### Row-wise combinator: every row-preserving / row-dropping operator is an instance -/

/-- apply `f` to every row; a row for which `f` gives `none` is absent from the result; an error on
any row fails the whole operator (as one failing row fails the SQL statement). -/
def mapRows (f : Row → R (Option Row)) (rows : List Row) : R (List Row) := do
  let xs ← rows.mapM f
  pure (xs.filterMap id)

/-! ### Dataset-level expressions -/

inductive DExpr where
  | ds (n : String)
  /-- apply `body` (over `hole`) to every measure of every datapoint; identifiers pass through;
      `out = some n` renames the single measure (e.g. `bool_var`). -/
  | mapm (d : DExpr) (body : SExpr) (out : Option String)
  /-- dataset ∘ dataset: datapoints matched on the common identifiers, `body` (over `hole`,`hole2`)
      applied per common measure; unmatched datapoints are absent. -/
  | zip (a b : DExpr) (body : SExpr) (out : Option String)
  | filter (d : DExpr) (c : SExpr)
  | calc (d : DExpr) (items : List (String × SExpr))
  | keep (d : DExpr) (ns : List String)
  | drop (d : DExpr) (ns : List String)
  | rename (d : DExpr) (m : List (String × String))
  | sub (d : DExpr) (fix : List (String × Value))
  | union (a b : DExpr)
  | intersect (a b : DExpr)
  | setdiff (a b : DExpr)
  | symdiff (a b : DExpr)
  /-- extension points: operator families modelled in their own modules (aggregation, joins,
      analytic functions, validation …) plug in as functions on evaluated datasets. -/
  | app1 (f : DS → R DS) (d : DExpr)
  | app2 (f : DS → DS → R DS) (a b : DExpr)
  | app3 (f : DS → DS → DS → R DS) (a b c : DExpr)
  deriving Inhabited

def outName (meas : List String) (out : Option String) (m : String) : String :=
  match out, meas with
  | some n, [_] => n
  | _, _ => m

/-- the measures of the output row of `mapm`: `body` applied to every measure of `r`. -/
def measVals (d : DS) (body : SExpr) (out : Option String) (r : Row) : R (List (String × Value)) :=
  d.meas.mapM (fun m => (evalS r (r.get m) .null body).map (fun v => (outName d.meas out m, v)))

def mapmRow (d : DS) (body : SExpr) (out : Option String) (r : Row) : R (Option Row) :=
  (measVals d body out r).map (fun ms => some (r.proj d.ids ++ ms))

def subset (xs ys : List String) : Bool := xs.all ys.contains

/-- the row of `small` that agrees with `rb` on `small`'s identifiers. -/
def partner (small : DS) (rb : Row) : Option Row :=
  small.rows.find? (fun rs => rs.key small.ids == rb.key small.ids)

/-- the measures of the output row of `zip` for a matched pair (`l` = left operand's row). -/
def zipVals (ms : List String) (body : SExpr) (out : Option String) (l r : Row) : R (List (String × Value)) :=
  ms.mapM (fun m => (evalS [] (l.get m) (r.get m) body).map (fun v => (outName ms out m, v)))

def zipRow (big small : DS) (bigIsLeft : Bool) (ms : List String) (body : SExpr) (out : Option String)
    (rb : Row) : R (Option Row) :=
  match partner small rb with
  | none => .ok none
  | some rs =>
      (zipVals ms body out (if bigIsLeft then rb else rs) (if bigIsLeft then rs else rb)).map
        (fun vals => some (rb.proj big.ids ++ vals))

def renameOf (m : List (String × String)) (n : String) : String := (m.lookup n).getD n

/-- `filter`: keep the row iff the condition is TRUE (false and null drop it). -/
def filterRow (c : SExpr) (r : Row) : R (Option Row) :=
  match evalS r .null .null c with
  | .ok (.bool true) => .ok (some r)
  | .ok (.bool false) => .ok none
  | .ok .null => .ok none
  | .ok _ => .error .type
  | .error e => .error e

/-- the named components computed by `calc`, all from the INPUT row (simultaneous assignment). -/
def calcVals (items : List (String × SExpr)) (r : Row) : R (List (String × Value)) :=
  items.mapM (fun it => (evalS r .null .null it.2).map (fun v => (it.1, v)))

def calcRow (keep : List String) (items : List (String × SExpr)) (r : Row) : R (Option Row) :=
  (calcVals items r).map (fun vs => some (r.proj keep ++ vs))

def subMatch (fix : List (String × Value)) (r : Row) : Bool := fix.all (fun fv => r.get fv.1 == fv.2)

def keyIn (ids : List String) (keys : List (List Value)) (r : Row) : Bool := keys.contains (r.key ids)

def evalD (env : Env) : DExpr → R DS
  | .ds n => match env.lookup n with
             | some d => .ok d
             | none => .error .name
  | .mapm d body out => do
      let x ← evalD env d
      let rows ← mapRows (mapmRow x body out) x.rows
      pure { ids := x.ids, meas := x.meas.map (outName x.meas out), rows }
  | .zip a b body out => do
      let x ← evalD env a
      let y ← evalD env b
      let ms := x.meas.filter y.meas.contains
      if subset y.ids x.ids then
        let rows ← mapRows (zipRow x y true ms body out) x.rows
        pure { ids := x.ids, meas := ms.map (outName ms out), rows }
      else if subset x.ids y.ids then
        let rows ← mapRows (zipRow y x false ms body out) y.rows
        pure { ids := y.ids, meas := ms.map (outName ms out), rows }
      else .error .type
  | .filter d c => do
      let x ← evalD env d
      let rows ← mapRows (filterRow c) x.rows
      pure { x with rows }
  | .calc d items => do
      let x ← evalD env d
      let names := items.map (·.1)
      if names.any x.ids.contains then .error .type else
      let rows ← mapRows (calcRow (x.ids ++ x.meas.filter (fun m => !names.contains m)) items) x.rows
      pure { ids := x.ids, meas := x.meas.filter (fun m => !names.contains m) ++ names, rows }
  | .keep d ns => do
      let x ← evalD env d
      let ms := x.meas.filter ns.contains
      pure { ids := x.ids, meas := ms, rows := x.rows.map (·.proj (x.ids ++ ms)) }
  | .drop d ns => do
      let x ← evalD env d
      let ms := x.meas.filter (fun m => !ns.contains m)
      pure { ids := x.ids, meas := ms, rows := x.rows.map (·.proj (x.ids ++ ms)) }
  | .rename d m => do
      let x ← evalD env d
      -- two components may not end up with the same name (semantic analysis rejects it)
      if !((x.comps.map (renameOf m)).Nodup) then .error .type else
      pure { ids := x.ids.map (renameOf m), meas := x.meas.map (renameOf m),
             rows := x.rows.map (fun r => x.comps.map (fun n => (renameOf m n, r.get n))) }
  | .sub d fix => do
      let x ← evalD env d
      let fixed := fix.map (·.1)
      if !(subset fixed x.ids) then .error .type else
      let ids := x.ids.filter (fun i => !fixed.contains i)
      let rows := x.rows.filter (subMatch fix)
      pure { ids, meas := x.meas, rows := rows.map (·.proj (ids ++ x.meas)) }
  | .union a b => do
      let x ← evalD env a
      let y ← evalD env b
      -- operands of a set operator have the same structure; the model asks for the same identifier list
      if y.ids != x.ids then .error .unsupported else
      pure { x with rows := x.rows ++ (y.rows.filter (fun r => !keyIn x.ids x.keys r)).map (·.proj x.comps) }
  | .intersect a b => do
      let x ← evalD env a
      let y ← evalD env b
      pure { x with rows := x.rows.filter (keyIn x.ids (y.rows.map (·.key x.ids))) }
  | .setdiff a b => do
      let x ← evalD env a
      let y ← evalD env b
      pure { x with rows := x.rows.filter (fun r => !keyIn x.ids (y.rows.map (·.key x.ids)) r) }
  | .app1 f d => do f (← evalD env d)
  | .app2 f a b => do f (← evalD env a) (← evalD env b)
  | .app3 f a b c => do f (← evalD env a) (← evalD env b) (← evalD env c)
  | .symdiff a b => do
      let x ← evalD env a
      let y ← evalD env b
      if y.ids != x.ids then .error .unsupported else
      pure { x with rows := x.rows.filter (fun r => !keyIn x.ids (y.rows.map (·.key x.ids)) r)
                          ++ (y.rows.filter (fun r => !keyIn x.ids x.keys r)).map (·.proj x.comps) }

end VtlModel.Sem

import VtlModel.Sem.Codec
import VtlModel.Sem.Analytic
/-! Protocol of the analytic model: `(eval (<datasets>) <aexpr>)` where
`<aexpr> ::= (analytic <spec> <aexpr>) | (analytic-total <spec> <aexpr>) | <dexpr of Sem/Codec>` and
`<spec> ::= (spec <fn> (part n…) (order (n asc|desc)…) <frame> <target>)`,
`<fn> ::= (agg <op>) | (lag k <value>) | (lead k <value>) | rank | ratio`,
`<frame> ::= _ | (rows <bound> <bound>) | (range <bound> <bound>)`, `<bound> ::= u | <signed integer>`
(`-p` = `p preceding`, `0` = current data point, `f` = `f following`, `u` = unbounded),
`<target> ::= each | (calc <name> <sexpr>)`.
The answer is `encDS` of the result followed by `(squared n…)`: the output measures whose model value is the
square of the VTL value (stddev). -/
namespace VtlModel.Sem.An
open VtlModel VtlModel.Sem

def decAggOp : String → Option AggOp
  | "sum" => some .sum | "avg" => some .avg | "count" => some .count | "min" => some .min | "max" => some .max
  | "median" => some .median | "stddev_pop" => some .stddevPop | "stddev_samp" => some .stddevSamp
  | "var_pop" => some .varPop | "var_samp" => some .varSamp
  | "first_value" => some .first | "last_value" => some .last
  | _ => none

def decFn : Sexp → Option Fn
  | .list [.atom "agg", .atom op] => (decAggOp op).map .agg
  | .list [.atom "lag", .atom k, v] => do pure (.lag (← k.toNat?) (← decValue v))
  | .list [.atom "lead", .atom k, v] => do pure (.lead (← k.toNat?) (← decValue v))
  | .atom "rank" => some .rank
  | .atom "ratio" => some .ratio
  | _ => none

def decBound : Sexp → Option (Option Int)
  | .atom "u" => some none
  | .atom k => (parseInt? k).map some
  | _ => none

def decFrame : Sexp → Option (Option Frame)
  | .atom "_" => some none
  | .list [.atom "rows", a, b] => do pure (some { range := false, lo := (← decBound a), hi := (← decBound b) })
  | .list [.atom "range", a, b] => do pure (some { range := true, lo := (← decBound a), hi := (← decBound b) })
  | _ => none

def decOrderItem : Sexp → Option (String × Bool)
  | .list [n, .atom "asc"] => (name? n).map (fun s => (s, false))
  | .list [n, .atom "desc"] => (name? n).map (fun s => (s, true))
  | _ => none

def decTarget : Sexp → Option Target
  | .atom "each" => some .each
  | .list [.atom "calc", n, e] => do pure (.calc (← name? n) (← decS (depth e + 1) e))
  | _ => none

def decSpec : Sexp → Option Spec
  | .list [.atom "spec", fn, .list (.atom "part" :: ps), .list (.atom "order" :: os), fr, tg] => do
      pure { fn := (← decFn fn), part := (← ps.mapM name?), order := (← os.mapM decOrderItem),
             frame := (← decFrame fr), target := (← decTarget tg) }
  | _ => none

/-- an analytic invocation applied to an expression: `.app1 (analytic spec) d`; also returns the spec and
operand of the outermost invocation (for the `squared` tag). -/
def decA : Nat → Sexp → Option (DExpr × Option (Spec × DExpr))
  | 0, _ => none
  | k+1, .list [.atom "analytic", s, d] => do
      let spec ← decSpec s
      let (de, _) ← decA k d
      pure (.app1 (analytic spec) de, some (spec, de))
  | k+1, .list [.atom "analytic-total", s, d] => do
      let spec ← decSpec s
      let (de, _) ← decA k d
      pure (.app1 (analyticTotal spec) de, some (spec, de))
  | _+1, e => (decD (depth e + 1) e).map (fun d => (d, none))

def handleA (req : Sexp) : Sexp :=
  match req with
  | .list [.atom "eval", .list dss, e] =>
      match dss.mapM decDS, decA (depth e + 1) e with
      | some env, some (de, top) =>
          match evalD env de with
          | .ok d =>
              let sq : List String := match top with
                | some (spec, operand) => (match evalD env operand with
                                           | .ok x => squaredOuts spec x
                                           | .error _ => [])
                | none => []
              match encDS d with
              | .list xs => .list (xs ++ [.list (.atom "squared" :: sq.map .str)])
              | s => s
          | .error er => encErr er
      | _, _ => .list [.atom "bad-request"]
  | _ => .list [.atom "bad-request"]

def handleLineA (line : String) : String :=
  match Sexp.parse line with
  | some r => (handleA r).toString
  | none => "(bad-request)"

end VtlModel.Sem.An

import VtlModel.Sem.Valid
/-! Hierarchical rulesets: `check_hierarchy` and `hierarchy` (C07, part 3).

A hierarchical rule is `[when cond then] L cmp ±R1 ±R2 …` over the code items of the rule component
`rc` of a mono-measure dataset.  The datapoints are grouped by the other identifiers; within a group a
code item has a value, is null, or has no datapoint (`St`).  The validation mode decides what a
missing item is worth (`valueOf`: 0 in the `*_zero` modes, null otherwise) and which groups a rule is
applied to (`modeFilterC` / `modeFilterH`).

* `check_hierarchy`: per rule and group, `bool_var = L cmp ΣR`, `imbalance = L − ΣR`; a rule whose
  `when` is FALSE holds (TRUE, null imbalance); `errorcode`/`errorlevel` are set where `bool_var` is
  FALSE; `invalid` keeps the FALSE rows (without `bool_var`, with the measure = value of `L`).
* `hierarchy`: the `=` rules are applied in the given order; a rule that fires stores its computed
  value as the value of `L` for the rules after it (`rule_priority`: only a non-null computed value
  replaces what the dataset had); `computed` returns the computed items, `all` the input overridden by
  them.  The engine treats input mode `dataset` like `rule` (recorded as a finding); the model has the
  specified `dataset` behaviour too (values always taken from the operand).

Import-free apart from the core; total; computable. -/
namespace VtlModel.Sem

inductive HMode where
  | nonNull | nonZero | partialNull | partialZero | alwaysNull | alwaysZero
  deriving DecidableEq, Repr, Inhabited

def HMode.zero : HMode → Bool
  | .nonZero | .partialZero | .alwaysZero => true
  | _ => false

inductive HInput where
  | rule | dataset | rulePriority
  deriving DecidableEq, Repr, Inhabited

structure HRule where
  name : String
  left : String
  cmp : BinOp
  /-- signed code items of the right-hand side: `(true, c)` is `- c`. -/
  right : List (Bool × String)
  /-- `when` condition over the other identifiers of the group. -/
  cond : Option SExpr
  ec : Value
  el : Value
  deriving Repr, Inhabited

/-- the code items of one group: `none` = no datapoint, `some none` = null measure. -/
abbrev St := String → Option (Option Rat)

def St.set (st : St) (ci : String) (v : Option Rat) : St := fun c => if c = ci then some v else st c

def valueOf (mode : HMode) (st : St) (ci : String) : Option Rat :=
  match st ci with
  | none => if mode.zero then some 0 else none
  | some v => v

/-- the signed sum of the right-hand side; null as soon as one component is null. -/
def rhs (mode : HMode) (st : St) : List (Bool × String) → Option Rat
  | [] => some 0
  | (neg, ci) :: rest =>
      match valueOf mode st ci, rhs mode st rest with
      | some v, some s => some ((if neg then -v else v) + s)
      | _, _ => none

def cmp3 (op : BinOp) (l r : Option Rat) : Value :=
  match l, r with
  | some a, some b =>
      match op with
      | .eq => .bool (a == b)
      | .ne => .bool (a != b)
      | .lt => .bool (a < b)
      | .le => .bool (a ≤ b)
      | .gt => .bool (b < a)
      | .ge => .bool (b ≤ a)
      | _ => .null
  | _, _ => .null

def sub3 (l r : Option Rat) : Option Rat :=
  match l, r with
  | some a, some b => some (a - b)
  | _, _ => none

def ratV : Option Rat → Value
  | some q => .num q
  | none => .null

def hasValue (st : St) (ci : String) : Bool :=
  match st ci with
  | some (some _) => true
  | _ => false

def present (st : St) (ci : String) : Bool := (st ci).isSome

def HRule.rightItems (ρ : HRule) : List String := ρ.right.map (·.2)
def HRule.items (ρ : HRule) : List String := ρ.left :: ρ.rightItems

/-- the `when` condition on the group (a rule without one: TRUE). -/
def condOf (ρ : HRule) (g : Row) : R Value :=
  match ρ.cond with
  | none => .ok (.bool true)
  | some c => do asBool3 (← evalS g .null .null c)

/-! ### check_hierarchy -/

/-- is the rule applied to the group (validation mode)? -/
def modeFilterC (mode : HMode) (st : St) (ρ : HRule) : Bool :=
  match mode with
  | .nonNull => ρ.items.all (hasValue st)
  | .nonZero => !(valueOf mode st ρ.left == some 0 && rhs mode st ρ.right == some 0)
  | .partialNull | .partialZero => ρ.items.any (hasValue st)
  | .alwaysNull | .alwaysZero => ρ.items.any (present st)

def chMeas (out : DPOut) (m : String) : List String :=
  match out with
  | .invalid => [m, "imbalance", "errorcode", "errorlevel"]
  | .all => ["bool_var", "imbalance", "errorcode", "errorlevel"]
  | .allMeasures => [m, "bool_var", "imbalance", "errorcode", "errorlevel"]

/-- Boolean and imbalance of a rule on a group. -/
def chBool (mode : HMode) (ρ : HRule) (st : St) (w : Value) : Value :=
  if w == .bool false then .bool true else cmp3 ρ.cmp (valueOf mode st ρ.left) (rhs mode st ρ.right)

def chImb (mode : HMode) (ρ : HRule) (st : St) (w : Value) : Option Rat :=
  if w == .bool false then none else sub3 (valueOf mode st ρ.left) (rhs mode st ρ.right)

def chRowOf (mode : HMode) (out : DPOut) (other : List String) (rc m : String) (ρ : HRule) (g : Row) (st : St)
    (w : Value) : Row :=
  let b := chBool mode ρ st w
  g.proj other ++ ([(rc, Value.str ρ.left), ("ruleid", Value.str ρ.name)] ++
    ((match out with
      | .invalid => [(m, ratV (valueOf mode st ρ.left))]
      | .all => [("bool_var", b)]
      | .allMeasures => [(m, ratV (valueOf mode st ρ.left)), ("bool_var", b)]) ++
     ([("imbalance", ratV (chImb mode ρ st w))] ++ errCols ρ.ec ρ.el b)))

def chRow (mode : HMode) (out : DPOut) (other : List String) (rc m : String) (ρ : HRule) (st : Row → St) (g : Row) :
    R (Option Row) := do
  let w ← condOf ρ g
  if !modeFilterC mode (st g) ρ then pure none
  else if out == .invalid && (w != .bool true || !isFalse (chBool mode ρ (st g) w)) then pure none
  else pure (some (chRowOf mode out other rc m ρ g (st g) w))

/-- first occurrences, in order. -/
def hdedup {α : Type} [DecidableEq α] : List α → List α
  | [] => []
  | a :: l => a :: (hdedup l).filter (fun b => b != a)

def isItem (rc : String) (items : List String) (r : Row) : Bool :=
  match r.get rc with
  | .str s => items.contains s
  | _ => false

/-- the groups (values of the other identifiers) that hold at least one code item of the ruleset. -/
def groupsOf (x : DS) (rc : String) (other items : List String) : List Row :=
  hdedup ((x.rows.filter (isItem rc items)).map (·.proj other))

/-- the datapoint of code item `ci` in group `g`. -/
def probe (rc : String) (g : Row) (ci : String) : Row := g ++ [(rc, Value.str ci)]

def initSt (x : DS) (rc m : String) (g : Row) : St :=
  fun ci => (partner x (probe rc g ci)).map (fun r => (r.get m).toRat?)

def allItems (rules : List HRule) : List String := rules.flatMap (·.items)

def chRows (mode : HMode) (out : DPOut) (other : List String) (rc m : String) (st : Row → St) (groups : List Row) :
    List HRule → R (List Row)
  | [] => .ok []
  | ρ :: rest => do
      let a ← mapRows (chRow mode out other rc m ρ st) groups
      let b ← chRows mode out other rc m st groups rest
      pure (a ++ b)

def hrGuard (x : DS) (rc : String) (rules : List HRule) : Bool :=
  x.ids.contains rc && !x.ids.contains "ruleid" && (rules.map (·.name)).Nodup

def checkHierarchy (rules : List HRule) (mode : HMode) (out : DPOut) (rc : String) (x : DS) : R DS := do
  let m ← mono x
  if !hrGuard x rc rules then .error .type else
  let other := x.ids.filter (fun i => i != rc)
  let groups := groupsOf x rc other (allItems rules)
  let rows ← chRows mode out other rc m (initSt x rc m) groups rules
  pure { ids := x.ids ++ ["ruleid"], meas := chMeas out m, rows }

/-! ### hierarchy -/

def modeFilterH (mode : HMode) (st : St) (ρ : HRule) : Bool :=
  (match mode with
   | .nonNull => ρ.rightItems.all (hasValue st)
   | .nonZero => !(ρ.rightItems.all (fun ci => valueOf mode st ci == some 0))
   | .partialNull | .partialZero => ρ.rightItems.any (hasValue st)
   | .alwaysNull | .alwaysZero => true)
  && ρ.rightItems.any (present st)

/-- is the computed value part of the result (the `non_*` modes drop null / zero results)? -/
def emits (mode : HMode) (c : Option Rat) : Bool :=
  match mode with
  | .nonNull => c.isSome
  | .nonZero => c != some 0
  | _ => true

/-- the value the following rules read for the left item: the computed one, except that under
`rule_priority` a null result leaves what the item had (null if it had no datapoint). -/
def newVal (imode : HInput) (c : Option Rat) (old : Option (Option Rat)) : Option Rat :=
  match imode, c with
  | .rulePriority, none => (match old with | some o => o | none => none)
  | _, _ => c

/-- the computed value: the signed sum where the `when` condition is TRUE, null otherwise. -/
def compOf (mode : HMode) (w : Value) (src : St) (ρ : HRule) : Option Rat :=
  if w == .bool true then rhs mode src ρ.right else none

/-- one rule on one group: the state seen by the following rules, and the computed item if any.
`src` is the state the right-hand side reads (`dataset` input mode: always the operand). -/
def hStep (mode : HMode) (imode : HInput) (g : Row) (st0 : St) (ρ : HRule) (st : St) :
    R (St × Option (String × Option Rat)) := do
  let w ← condOf ρ g
  let src := if imode == .dataset then st0 else st
  if !modeFilterH mode src ρ then pure (st, none) else
  pure (st.set ρ.left (newVal imode (compOf mode w src ρ) (st ρ.left)),
        if emits mode (compOf mode w src ρ) then some (ρ.left, compOf mode w src ρ) else none)

def hRun (mode : HMode) (imode : HInput) (g : Row) (st0 : St) : List HRule → St → R (St × List (String × Option Rat))
  | [], st => .ok (st, [])
  | ρ :: rest, st => do
      let (st1, o) ← hStep mode imode g st0 ρ st
      let (st2, os) ← hRun mode imode g st0 rest st1
      pure (st2, o.toList ++ os)

def hRowOf (other : List String) (rc m : String) (g : Row) (o : String × Option Rat) : Row :=
  g.proj other ++ [(rc, Value.str o.1), (m, ratV o.2)]

def hGroup (mode : HMode) (imode : HInput) (other : List String) (rc m : String) (rules : List HRule) (st : Row → St)
    (g : Row) : R (List Row) := do
  let (_, os) ← hRun mode imode g (st g) rules (st g)
  pure (os.map (hRowOf other rc m g))

def usesItem (ρ : HRule) (ci : String) : Bool := ρ.rightItems.contains ci

/-- no rule reads a code item that it defines itself or that a LATER rule defines, and no item is
defined twice: the order in which `hierarchy` may apply the rules. -/
def isValidOrder : List HRule → Bool
  | [] => true
  | ρ :: rest => !usesItem ρ ρ.left && rest.all (fun σ => !usesItem ρ σ.left && σ.left != ρ.left) && isValidOrder rest

def hierarchy (rules : List HRule) (mode : HMode) (imode : HInput) (all : Bool) (rc : String) (x : DS) : R DS := do
  let m ← mono x
  let eqs := rules.filter (fun ρ => ρ.cmp == .eq)
  if !(x.ids.contains rc) || !((eqs.map (·.left)).Nodup) then .error .type else
  let other := x.ids.filter (fun i => i != rc)
  let groups := groupsOf x rc other (allItems eqs)
  let per ← groups.mapM (hGroup mode imode other rc m eqs (initSt x rc m))
  let computed := per.flatten
  if all then
    let keys := computed.map (·.key x.ids)
    pure { x with rows := (x.rows.filter (fun r => !keyIn x.ids keys r)).map (·.proj x.comps) ++ computed }
  else pure { x with rows := computed }

end VtlModel.Sem

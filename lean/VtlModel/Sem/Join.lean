import VtlModel.Sem.Eval
/-! Joins (C04): n-ary `inner_join / left_join / full_join / cross_join` over a list of
(alias, dataset) operands, optional `using`, `alias#comp` qualification of duplicated non-key
components, a trailing clause body and the final removal of the alias prefixes.

Pipeline of `joinBody` (the meaning of one VTL join expression):

1. `prep`     every operand is renamed to its *virtual* column names: join columns keep their name,
              a non-join component exposed by two or more operands becomes `alias#comp`;
2. `joinFold` the prepared operands are combined left to right by the binary relational join
              `join2` on the pairwise keys (common identifiers of the accumulated result and the next
              operand, or the `using` list);
3. the body (a clause chain `filter / calc / keep / drop / rename` of the core, a `DExpr` over the
   dataset name `jname`) is evaluated on the join result;
4. `strip`    the remaining `alias#` prefixes are removed; a clash of names is an error.

Everything VTL rejects is an `Except` branch.  Import-free beyond the Sem core, total, computable. -/
namespace VtlModel.Sem

inductive JoinKind where
  | inner | left | full | cross
  deriving DecidableEq, Repr, Inhabited

/-! ### names -/

def qual (al c : String) : String := al ++ "#" ++ c

def afterHash : List Char → Option (List Char)
  | [] => none
  | c :: cs => if c = '#' then some cs else afterHash cs

/-- the component name without its alias prefix (text after the first `#`). -/
def unqual (n : String) : String :=
  match afterHash n.toList with
  | some cs => String.ofList cs
  | none => n

abbrev Operand := String × DS

/-- columns that are matched, emitted once and never qualified: every identifier of every operand
and the `using` components (none for a cross join). -/
def joinCols (kind : JoinKind) (us : Option (List String)) (ops : List Operand) : List String :=
  match kind with
  | .cross => []
  | _ => ops.flatMap (·.2.ids) ++ us.getD []

/-- how many operands expose component `c`. -/
def occurrences (ops : List Operand) (c : String) : Nat :=
  (ops.filter (fun o => o.2.comps.contains c)).length

/-- the name of component `c` of the operand with alias `al` in the virtual join result. -/
def virtName (jc : List String) (ops : List Operand) (al c : String) : String :=
  if jc.contains c then c else if occurrences ops c ≥ 2 then qual al c else c

/-- rename the components of a dataset by `f`; two components may not end up with the same name. -/
def renameDS (f : String → String) (x : DS) : R DS :=
  if !((x.comps.map f).Nodup) then .error .type else
  .ok { ids := x.ids.map f, meas := x.meas.map f,
        rows := x.rows.map (fun r => x.comps.map (fun n => (f n, r.get n))) }

def prep (jc : List String) (ops : List Operand) (o : Operand) : R DS :=
  renameDS (virtName jc ops o.1) o.2

/-! ### the binary relational join on prepared operands -/

/-- `a` (left) and `b` (right) agree on the join keys; a key that is a MEASURE of the left operand
(`mk`) does not match when it is null (SQL equality). -/
def matchK (mk keys : List String) (a b : Row) : Bool :=
  keys.all (fun k => a.get k == b.get k) && mk.all (fun k => a.get k != .null)

def nullRow (ns : List String) : Row := ns.map (fun n => (n, Value.null))

/-- components of the right operand that are not join keys. -/
def rest (keys : List String) (y : DS) : List String := y.comps.filter (fun c => !keys.contains c)

/-- a matched pair: all components of the left row, then the non-key components of the right row. -/
def combine (xc yr : List String) (a b : Row) : Row := a.proj xc ++ b.proj yr
/-- a left row without partner: the right side is null. -/
def padRight (xc yr : List String) (a : Row) : Row := a.proj xc ++ nullRow yr
/-- a right row without partner: keys come from the right row, the rest of the left side is null. -/
def padLeft (keys xc yr : List String) (b : Row) : Row :=
  xc.map (fun c => (c, if keys.contains c then b.get c else Value.null)) ++ b.proj yr

def partners (mk keys : List String) (y : DS) (a : Row) : List Row := y.rows.filter (matchK mk keys a)

def innerRows (mk keys : List String) (x y : DS) : List Row :=
  x.rows.flatMap (fun a => (partners mk keys y a).map (combine x.comps (rest keys y) a))

def unmatchedL (mk keys : List String) (x y : DS) : List Row :=
  x.rows.filter (fun a => !(y.rows.any (matchK mk keys a)))

def unmatchedR (mk keys : List String) (x y : DS) : List Row :=
  y.rows.filter (fun b => !(x.rows.any (fun a => matchK mk keys a b)))

def leftRows (mk keys : List String) (x y : DS) : List Row :=
  innerRows mk keys x y ++ (unmatchedL mk keys x y).map (padRight x.comps (rest keys y))

def fullRows (mk keys : List String) (x y : DS) : List Row :=
  leftRows mk keys x y ++ (unmatchedR mk keys x y).map (padLeft keys x.comps (rest keys y))

def join2Rows (kind : JoinKind) (mk keys : List String) (x y : DS) : List Row :=
  match kind with
  | .inner => innerRows mk keys x y
  | .cross => innerRows mk keys x y
  | .left => leftRows mk keys x y
  | .full => fullRows mk keys x y

/-- the structural conditions of VTL under which the binary step is defined:
keys exist on both sides; only join keys are shared; for the outer joins every identifier of the
right operand is a key (left) / the identifiers of both sides are exactly the keys (full);
a cross join has no keys. -/
def kindOk (kind : JoinKind) (keys : List String) (x y : DS) : Bool :=
  match kind with
  | .inner => true
  | .cross => keys.isEmpty
  | .left => subset y.ids keys
  | .full => subset y.ids keys && subset x.ids keys && subset keys x.ids && keys.all (fun k => !x.meas.contains k)

def shareOnlyKeys (keys : List String) (x y : DS) : Bool :=
  x.comps.all (fun c => !y.comps.contains c || keys.contains c)

def join2 (kind : JoinKind) (keys : List String) (x y : DS) : R DS :=
  if !(subset keys x.comps && subset keys y.comps) then .error .type
  else if !(subset keys y.ids) then .error .unsupported   -- a key that is a measure of the RIGHT operand
  else if !(shareOnlyKeys keys x y) then .error .type
  else if !(kindOk kind keys x y) then .error .type
  else
    let mk := keys.filter x.meas.contains
    .ok { ids := x.ids ++ y.ids.filter (fun c => !keys.contains c),
          meas := x.meas ++ y.meas.filter (fun c => !keys.contains c),
          rows := join2Rows kind mk keys x y }

/-- pairwise keys of one step: the `using` list, else the common identifiers. -/
def stepKeys (kind : JoinKind) (us : Option (List String)) (x y : DS) : List String :=
  match kind with
  | .cross => []
  | _ => match us with
         | some u => u
         | none => x.ids.filter y.ids.contains

def joinFold (kind : JoinKind) (us : Option (List String)) : DS → List DS → R DS
  | acc, [] => .ok acc
  | acc, y :: ys => do
      let j ← join2 kind (stepKeys kind us acc y) acc y
      joinFold kind us j ys

/-- `using` is not allowed on full and cross joins. -/
def usingOk (kind : JoinKind) (us : Option (List String)) : Bool :=
  match kind, us with
  | .full, some _ => false
  | .cross, some _ => false
  | _, _ => true

/-- the virtual dataset of the join, before the body. -/
def joinN (kind : JoinKind) (us : Option (List String)) (ops : List Operand) : R DS :=
  if !(usingOk kind us) then .error .type else do
  let ps ← ops.mapM (prep (joinCols kind us ops) ops)
  match ps with
  | [] => .error .type
  | p :: ps' => joinFold kind us p ps'

/-- the name under which the body refers to the join result. -/
def jname : String := "$join"

/-- remove the alias prefixes that are left after the body. -/
def strip (d : DS) : R DS := renameDS unqual d

/-- the meaning of `kind_join(op₁ as a₁, …, opₙ as aₙ [using us] body)`. -/
def joinBody (kind : JoinKind) (us : Option (List String)) (body : DExpr) (ops : List Operand) : R DS := do
  let j ← joinN kind us ops
  let r ← evalD [(jname, j)] body
  strip r

/-- the binary join as an operator on two evaluated datasets (plugs into `DExpr.app2`). -/
def join2F (kind : JoinKind) (us : Option (List String)) (body : DExpr) (a1 a2 : String) (x y : DS) : R DS :=
  joinBody kind us body [(a1, x), (a2, y)]

/-- a join of two dataset expressions as a dataset expression. -/
def joinE (kind : JoinKind) (us : Option (List String)) (body : DExpr) (a1 : String) (e1 : DExpr)
    (a2 : String) (e2 : DExpr) : DExpr :=
  .app2 (join2F kind us body a1 a2) e1 e2

/-- n-ary join of dataset expressions: operands are evaluated left to right, then joined. -/
def evalJoin (env : Env) (kind : JoinKind) (us : Option (List String)) (body : DExpr)
    (ops : List (String × DExpr)) : R DS := do
  let ds ← ops.mapM (fun o => (evalD env o.2).map (fun d => (o.1, d)))
  joinBody kind us body ds

end VtlModel.Sem

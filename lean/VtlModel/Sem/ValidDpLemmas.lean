import VtlModel.Sem.ValidLemmas
/-! Lemmas about `check_datapoint`: membership, the `ruleid` identifier, key uniqueness, permutation. -/
namespace VtlModel.Sem
open List

theorem bind_ok' {α β : Type} (a : R α) (f : α → R β) (r : β) :
    (a >>= f) = .ok r ↔ ∃ x, a = .ok x ∧ f x = .ok r := by
  cases a <;> simp [bind, Except.bind]

theorem isFalse_iff (b : Value) : isFalse b = true ↔ b = .bool false := by
  simp [isFalse]

/-- a row produced for (rule, datapoint). -/
theorem dpRow_some (out : DPOut) (x : DS) (rule : DPRule) (r r' : Row) (h : dpRow out x rule r = .ok (some r')) :
    ∃ b, dpBool rule r = .ok b ∧ r' = dpRowOf out x rule r b ∧ (out = .invalid → b = .bool false) := by
  unfold dpRow at h
  obtain ⟨b, hb, h⟩ := (bind_ok' _ _ _).1 h
  refine ⟨b, hb, ?_⟩
  split at h
  · simp [pure, Except.pure] at h
  · rename_i hn
    simp only [pure, Except.pure, Except.ok.injEq, Option.some.injEq] at h
    refine ⟨h.symm, ?_⟩
    intro ho
    subst ho
    cases hf : isFalse b with
    | true => exact (isFalse_iff b).1 hf
    | false => simp [hf] at hn

theorem dpRow_of_bool (out : DPOut) (x : DS) (rule : DPRule) (r : Row) (b : Value) (hb : dpBool rule r = .ok b)
    (hk : out = .invalid → b = .bool false) : dpRow out x rule r = .ok (some (dpRowOf out x rule r b)) := by
  unfold dpRow
  rw [hb]
  simp only [bind, Except.bind]
  split
  · rename_i hc
    exfalso
    simp only [Bool.and_eq_true, beq_iff_eq, Bool.not_eq_eq_eq_not, Bool.not_true] at hc
    have := hk hc.1
    subst this
    simp [isFalse] at hc
  · rfl

theorem dpRow_not_invalid_some (out : DPOut) (x : DS) (rule : DPRule) (r : Row) (b : Value) (hb : dpBool rule r = .ok b)
    (ho : out ≠ .invalid) : dpRow out x rule r = .ok (some (dpRowOf out x rule r b)) :=
  dpRow_of_bool out x rule r b hb (fun h => absurd h ho)

/-- membership in the result of all rules over all datapoints. -/
theorem dpRows_mem (out : DPOut) (x : DS) : ∀ (rules : List DPRule) (rows : List Row), dpRows out x rules = .ok rows →
    ∀ r', r' ∈ rows ↔ ∃ rule ∈ rules, ∃ r ∈ x.rows, dpRow out x rule r = .ok (some r') := by
  intro rules
  induction rules with
  | nil =>
    intro rows h r'
    simp only [dpRows, Except.ok.injEq] at h
    subst h
    simp
  | cons rule rest ih =>
    intro rows h r'
    simp only [dpRows] at h
    obtain ⟨a, ha, h⟩ := (bind_ok' _ _ _).1 h
    obtain ⟨b, hb, h⟩ := (bind_ok' _ _ _).1 h
    simp only [pure, Except.pure, Except.ok.injEq] at h
    subst h
    rw [List.mem_append, mapRows_mem _ _ _ ha r', ih b hb r']
    constructor
    · rintro (⟨r, hr, hf⟩ | ⟨ru, hru, r, hr, hf⟩)
      · exact ⟨rule, List.mem_cons_self, r, hr, hf⟩
      · exact ⟨ru, List.mem_cons_of_mem _ hru, r, hr, hf⟩
    · rintro ⟨ru, hru, r, hr, hf⟩
      rcases List.mem_cons.1 hru with rfl | hru'
      · exact Or.inl ⟨r, hr, hf⟩
      · exact Or.inr ⟨ru, hru', r, hr, hf⟩

theorem checkDatapoint_ok {rules : List DPRule} {out : DPOut} {x res : DS} (h : checkDatapoint rules out x = .ok res) :
    "ruleid" ∉ x.ids ∧ (rules.map (·.name)).Nodup ∧
      ∃ rows, dpRows out x rules = .ok rows ∧ res = { ids := x.ids ++ ["ruleid"], meas := dpMeas out x.meas, rows } := by
  unfold checkDatapoint at h
  split at h
  · cases h
  · rename_i h1
    split at h
    · cases h
    · rename_i h2
      obtain ⟨rows, hr, h⟩ := (bind_ok' _ _ _).1 h
      simp only [pure, Except.pure, Except.ok.injEq] at h
      refine ⟨by simpa using h1, by simpa using h2, rows, hr, h.symm⟩

/-! ### the identifiers of an output row -/

theorem key_snoc (r : Row) (ids : List String) (n : String) : r.key (ids ++ [n]) = r.key ids ++ [r.get n] := by
  simp [Row.key]

theorem dpRowOf_key (out : DPOut) (x : DS) (rule : DPRule) (r : Row) (b : Value) :
    (dpRowOf out x rule r b).key x.ids = r.key x.ids := by
  unfold dpRowOf
  exact key_proj_append r x.ids x.ids _ (fun i hi => hi)

theorem dpRowOf_ruleid (out : DPOut) (x : DS) (rule : DPRule) (r : Row) (b : Value) (h : "ruleid" ∉ x.ids) :
    (dpRowOf out x rule r b).get "ruleid" = .str rule.name := by
  unfold dpRowOf
  rw [get_proj_append_not_mem r x.ids _ "ruleid" h]
  simp [Row.get, List.lookup]

theorem dpRow_key (out : DPOut) (x : DS) (rule : DPRule) (r r' : Row) (h : dpRow out x rule r = .ok (some r')) :
    r'.key x.ids = r.key x.ids := by
  obtain ⟨b, _, rfl, _⟩ := dpRow_some out x rule r r' h
  exact dpRowOf_key out x rule r b

/-- one rule: the output keys (identifiers + ruleid) are unique. -/
theorem dp_block_nodup (out : DPOut) (x : DS) (rule : DPRule) (rows : List Row) (w : x.WF)
    (h : mapRows (dpRow out x rule) x.rows = .ok rows) : (rows.map (·.key (x.ids ++ ["ruleid"]))).Nodup := by
  have h1 : (rows.map (·.key x.ids)).Nodup :=
    mapRows_WF _ x.ids x.ids x.rows rows h (fun r r' _ hf => dpRow_key out x rule r r' hf) w
  refine nodup_map_of_nodup_map (·.key x.ids) _ rows h1 ?_
  intro a _ b _ hk
  simp only [key_snoc] at hk
  have hl : (a.key x.ids).length = (b.key x.ids).length := by simp [Row.key]
  exact (List.append_inj hk hl).1

theorem dpRows_WF (out : DPOut) (x : DS) (w : x.WF) (hid : "ruleid" ∉ x.ids) : ∀ (rules : List DPRule) (rows : List Row),
    (rules.map (·.name)).Nodup → dpRows out x rules = .ok rows → (rows.map (·.key (x.ids ++ ["ruleid"]))).Nodup := by
  intro rules
  induction rules with
  | nil =>
    intro rows _ h
    simp only [dpRows, Except.ok.injEq] at h
    subst h
    exact List.nodup_nil
  | cons rule rest ih =>
    intro rows hn h
    simp only [List.map_cons, List.nodup_cons] at hn
    simp only [dpRows] at h
    obtain ⟨a, ha, h⟩ := (bind_ok' _ _ _).1 h
    obtain ⟨b, hb, h⟩ := (bind_ok' _ _ _).1 h
    simp only [pure, Except.pure, Except.ok.injEq] at h
    subst h
    rw [List.map_append]
    refine List.nodup_append.2 ⟨dp_block_nodup out x rule a w ha, ih b hn.2 hb, ?_⟩
    intro k hk1 k' hk2 hkk
    subst hkk
    obtain ⟨ra, hra, rfl⟩ := List.mem_map.1 hk1
    obtain ⟨rb, hrb, hkb⟩ := List.mem_map.1 hk2
    obtain ⟨r1, _, hf1⟩ := (mapRows_mem _ _ _ ha ra).1 hra
    obtain ⟨ru, hru, r2, _, hf2⟩ := (dpRows_mem out x rest b hb rb).1 hrb
    obtain ⟨b1, _, rfl, _⟩ := dpRow_some out x rule r1 ra hf1
    obtain ⟨b2, _, rfl, _⟩ := dpRow_some out x ru r2 rb hf2
    simp only [key_snoc, dpRowOf_ruleid _ _ _ _ _ hid] at hkb
    have hl : ((dpRowOf out x ru r2 b2).key x.ids).length = ((dpRowOf out x rule r1 b1).key x.ids).length := by simp [Row.key]
    have h2 := (List.append_inj hkb hl).2
    simp only [List.cons.injEq, Value.str.injEq, and_true] at h2
    apply hn.1
    rw [← h2]
    exact List.mem_map.2 ⟨ru, hru, rfl⟩

theorem checkDatapoint_WF_aux (rules : List DPRule) (out : DPOut) (x res : DS) (w : x.WF)
    (h : checkDatapoint rules out x = .ok res) : res.WF := by
  obtain ⟨hid, hn, rows, hr, rfl⟩ := checkDatapoint_ok h
  exact dpRows_WF out x w hid rules rows hn hr

/-! ### permutation -/

theorem dpRow_congr (out : DPOut) (x x' : DS) (h1 : x.ids = x'.ids) (h2 : x.meas = x'.meas) :
    dpRow out x = dpRow out x' := by
  funext rule r
  simp only [dpRow, dpRowOf, h1, h2]

theorem dpRows_perm (out : DPOut) (x x' : DS) (hx : DSEquiv x x') : ∀ rules : List DPRule,
    Rel2 Perm (dpRows out x rules) (dpRows out x' rules) := by
  intro rules
  induction rules with
  | nil => exact Or.inr ⟨[], [], rfl, rfl, Perm.refl _⟩
  | cons rule rest ih =>
    simp only [dpRows]
    rw [← dpRow_congr out x x' hx.1 hx.2.1]
    refine Rel2.bind (mapRows_perm _ hx.2.2) ?_
    intro a a' hp
    refine Rel2.bind ih ?_
    intro b b' hq
    exact Rel2.pure (hp.append hq)

theorem checkDatapoint_perm_aux (rules : List DPRule) (out : DPOut) (x x' : DS) (hx : DSEquiv x x') :
    Rel2 DSEquiv (checkDatapoint rules out x) (checkDatapoint rules out x') := by
  unfold checkDatapoint
  rw [← hx.1, ← hx.2.1]
  by_cases h1 : (x.ids.contains "ruleid") = true
  · simp only [h1, if_true]
    exact Rel2.error _ _
  · simp only [h1, if_false]
    by_cases h2 : (!decide ((rules.map (·.name)).Nodup)) = true
    · simp only [h2, if_true]
      exact Rel2.error _ _
    · simp only [h2, if_false]
      refine Rel2.bind (dpRows_perm out x x' hx rules) ?_
      intro rows rows' hp
      exact Rel2.pure ⟨rfl, rfl, hp⟩

end VtlModel.Sem

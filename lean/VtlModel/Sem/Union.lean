import VtlModel.Sem.Eval
/-! The implementation's `union`: `UNION ALL` of the operand branches, then, per identifier key, the
row with the smallest `ROW_NUMBER() OVER ()` — i.e. the FIRST OCCURRENCE in whatever physical order
DuckDB delivers the concatenated rows.  `firstOcc` is that selection over an arbitrary physical order. -/
namespace VtlModel.Sem
open List

/-- keep the first row of every key, scanning the physical order left to right. -/
def firstOcc (ids : List String) : List (List Value) → List Row → List Row
  | _, [] => []
  | seen, r :: rs =>
      if seen.contains (r.key ids) then firstOcc ids seen rs
      else r :: firstOcc ids (r.key ids :: seen) rs

/-- what the engine computes for `union(a, b)` when the rows arrive in physical order `phys`. -/
def implUnion (ids : List String) (phys : List Row) : List Row := firstOcc ids [] phys

/-- only membership in `seen` matters. -/
theorem firstOcc_seen_congr (ids : List String) : ∀ (l : List Row) (s s' : List (List Value)),
    (∀ k, k ∈ s ↔ k ∈ s') → firstOcc ids s l = firstOcc ids s' l := by
  intro l
  induction l with
  | nil => intro _ _ _; rfl
  | cons r rs ih =>
    intro s s' h
    simp only [firstOcc]
    have hc : s.contains (r.key ids) = s'.contains (r.key ids) := by
      cases h1 : s.contains (r.key ids) with
      | true => have := (h _).1 (by simpa using h1); simp [this]
      | false =>
        have : r.key ids ∉ s' := fun hm => by have := (h _).2 hm; simp [this] at h1
        simp [this]
    rw [hc]
    split
    · exact ih s s' h
    · rw [ih (r.key ids :: s) (r.key ids :: s') (fun k => by simp [h k])]

/-- rows with pairwise distinct keys, none seen before, are all kept, and become `seen`. -/
theorem firstOcc_append_fresh (ids : List String) : ∀ (xs ys : List Row) (seen : List (List Value)),
    (xs.map (·.key ids)).Nodup → (∀ x ∈ xs, x.key ids ∉ seen) →
    firstOcc ids seen (xs ++ ys) = xs ++ firstOcc ids ((xs.map (·.key ids)).reverse ++ seen) ys := by
  intro xs
  induction xs with
  | nil => intro ys seen _ _; simp
  | cons a l ih =>
    intro ys seen hn hf
    simp only [List.map_cons, List.nodup_cons] at hn
    have ha : seen.contains (a.key ids) = false := by
      have := hf a List.mem_cons_self
      simpa using this
    simp only [List.cons_append, firstOcc, ha]
    rw [ih ys (a.key ids :: seen) hn.2 (fun x hx => by
      intro hm
      rcases List.mem_cons.1 hm with h1 | h1
      · exact hn.1 (h1 ▸ List.mem_map.2 ⟨x, hx, rfl⟩)
      · exact hf x (List.mem_cons_of_mem _ hx) h1)]
    simp only [Bool.false_eq_true, if_false, List.cons_append]
    congr 2
    apply firstOcc_seen_congr
    intro k
    simp only [List.map_cons, List.reverse_cons, List.mem_append, List.mem_reverse, List.mem_cons,
      List.mem_singleton, List.not_mem_nil, or_false]
    constructor
    · rintro (h | h | h)
      · exact Or.inl (Or.inl h)
      · exact Or.inl (Or.inr h)
      · exact Or.inr h
    · rintro ((h | h) | h)
      · exact Or.inl h
      · exact Or.inr (Or.inl h)
      · exact Or.inr (Or.inr h)

/-- on rows with pairwise distinct keys, first-occurrence selection is a plain filter on `seen`. -/
theorem firstOcc_nodup (ids : List String) : ∀ (ys : List Row) (seen : List (List Value)),
    (ys.map (·.key ids)).Nodup → firstOcc ids seen ys = ys.filter (fun r => !seen.contains (r.key ids)) := by
  intro ys
  induction ys with
  | nil => intro _ _; rfl
  | cons a l ih =>
    intro seen hn
    simp only [List.map_cons, List.nodup_cons] at hn
    simp only [firstOcc, List.filter_cons]
    cases hc : seen.contains (a.key ids) with
    | true => simp only [if_true, Bool.not_true]; exact ih seen hn.2
    | false =>
      simp only [Bool.not_false, if_true]
      have : firstOcc ids (a.key ids :: seen) l = firstOcc ids seen l := by
        rw [ih _ hn.2, ih _ hn.2]
        apply List.filter_congr
        intro r hr
        have hne : r.key ids ≠ a.key ids := fun e => hn.1 (e ▸ List.mem_map.2 ⟨r, hr, rfl⟩)
        simp [List.contains_cons, hne]
      simp only [Bool.false_eq_true, if_false]
      rw [this, ih seen hn.2]

end VtlModel.Sem

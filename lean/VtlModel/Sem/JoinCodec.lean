import VtlModel.Sem.Codec
import VtlModel.Sem.Join
/-! Protocol of the join driver.

request  `(evaljoin (<ds>…) (join <kind> ((<alias> <dexpr>) …) <using> <body>))`
         `<kind>`  = inner | left | full | cross
         `<using>` = `_` (absent) or a list of component names
         `<body>`  = a `<dexpr>` over `(ds "$join")` (the virtual join result; `(ds "$join")` alone = no body)
answer   as `Sem.Codec`: `(ok (ids…) (meas…) (rows…))` or `(err <kind>)`.
Requests of the core protocol (`eval`, `scalar`) are answered by the core handler. -/
namespace VtlModel.Sem
open VtlModel

def decKind : String → Option JoinKind
  | "inner" => some .inner | "left" => some .left | "full" => some .full | "cross" => some .cross
  | _ => none

def decUsing : Sexp → Option (Option (List String))
  | .atom "_" => some none
  | s => (decNames s).map some

def decOperand : Sexp → Option (String × DExpr)
  | .list [al, e] => do pure ((← name? al), (← decD (depth e + 1) e))
  | _ => none

structure JoinReq where
  kind : JoinKind
  ops : List (String × DExpr)
  us : Option (List String)
  body : DExpr

def decJoin : Sexp → Option JoinReq
  | .list [.atom "join", .atom k, .list ops, us, body] => do
      pure { kind := (← decKind k), ops := (← ops.mapM decOperand), us := (← decUsing us),
             body := (← decD (depth body + 1) body) }
  | _ => none

def handleJoin (req : Sexp) : Sexp :=
  match req with
  | .list [.atom "evaljoin", .list dss, j] =>
      match dss.mapM decDS, decJoin j with
      | some env, some q =>
          match evalJoin env q.kind q.us q.body q.ops with
          | .ok d => encDS d
          | .error er => encErr er
      | _, _ => .list [.atom "bad-request"]
  | other => handle other

def handleJoinLine (line : String) : String :=
  match Sexp.parse line with
  | some r => (handleJoin r).toString
  | none => "(bad-request)"

end VtlModel.Sem

import VtlModel.Sem.AggrCodec
import VtlModel.Sem.Pivot
/-! Protocol of the clause-operator extension (C02): `(eval (<datasets>) <xexpr>)` where
`<xexpr> ::= (unpivot (<attribute>…) <idn> <mn> <xexpr>) | (pivot <idn> <mn> <xexpr>)
           | (calcrole ((<name> <sexpr>)…) ((<name> <sexpr>)…) <xexpr>)      -- identifier items, other items
           | (aggrc <grouping> (<item>…) <having> <xexpr>)                    -- syntax of Sem/AggrCodec
           | (filter|calc|keep|drop|rename|sub|mapm … <xexpr> …)              -- the clauses of Sem/Codec over an <xexpr>
           | <dexpr of Sem/Codec>`. -/
namespace VtlModel.Sem
open VtlModel

def decPairsX (items : List Sexp) : Option (List (String × SExpr)) :=
  items.mapM (fun it => match it with
    | .list [n, e] => do pure ((← name? n), (← decS (depth e + 1) e))
    | _ => none)

def decX : Nat → Sexp → Option DExpr
  | 0, _ => none
  | k+1, .list [.atom "unpivot", atts, idn, mn, d] => do
      pure (.app1 (unpivot (← decNames atts) (← name? idn) (← name? mn)) (← decX k d))
  | k+1, .list [.atom "pivot", idn, mn, d] => do
      pure (.app1 (pivot (← name? idn) (← name? mn)) (← decX k d))
  | k+1, .list [.atom "calcrole", .list ids, .list others, d] => do
      pure (.app1 (calcRole (← decPairsX ids) (← decPairsX others)) (← decX k d))
  | k+1, .list [.atom "aggrc", g, .list items, h, d] => do
      pure (.app1 (aggrClause (← decGrouping g) (← items.mapM decItem) (← decHaving h)) (← decX k d))
  | k+1, .list [.atom "mapm", d, body, out] => do
      pure (.mapm (← decX k d) (← decS (depth body + 1) body) (← decOut out))
  | k+1, .list [.atom "filter", d, c] => do pure (.filter (← decX k d) (← decS (depth c + 1) c))
  | k+1, .list [.atom "calc", d, .list items] => do pure (.calc (← decX k d) (← decPairsX items))
  | k+1, .list [.atom "keep", d, ns] => do pure (.keep (← decX k d) (← decNames ns))
  | k+1, .list [.atom "drop", d, ns] => do pure (.drop (← decX k d) (← decNames ns))
  | k+1, .list [.atom "rename", d, .list ps] => do
      let m ← ps.mapM (fun p => match p with
        | .list [a, b] => do pure ((← name? a), (← name? b))
        | _ => none)
      pure (.rename (← decX k d) m)
  | k+1, .list [.atom "sub", d, .list ps] => do
      let m ← ps.mapM (fun p => match p with
        | .list [a, v] => do pure ((← name? a), (← decValue v))
        | _ => none)
      pure (.sub (← decX k d) m)
  | _+1, e => decD (depth e + 1) e

def handleX (req : Sexp) : Sexp :=
  match req with
  | .list [.atom "eval", .list dss, e] =>
      match dss.mapM decDS, decX (depth e + 1) e with
      | some env, some de =>
          match evalD env de with
          | .ok d => encDS d
          | .error er => encErr er
      | _, _ => .list [.atom "bad-request"]
  | _ => .list [.atom "bad-request"]

def handleLineX (line : String) : String :=
  match Sexp.parse line with
  | some r => (handleX r).toString
  | none => "(bad-request)"

end VtlModel.Sem

import VtlModel.Sem.Aggr
import VtlModel.Sem.Perm
/-! Lemmas about the aggregation model: sorting, permutation invariance of every aggregate, `dedup`,
the relational lifting needed for `aggr_perm`. -/
namespace VtlModel.Sem
open List

/-! ### insertion sort -/

theorem insertBy_perm {α : Type} (le : α → α → Bool) (x : α) : ∀ l : List α, (insertBy le x l).Perm (x :: l)
  | [] => Perm.refl _
  | y :: ys => by
    unfold insertBy
    split
    · exact Perm.refl _
    · exact ((insertBy_perm le x ys).cons y).trans (Perm.swap x y ys)

theorem isort_perm {α : Type} (le : α → α → Bool) : ∀ l : List α, (isort le l).Perm l
  | [] => Perm.refl _
  | x :: xs => (insertBy_perm le x (isort le xs)).trans ((isort_perm le xs).cons x)

theorem insertBy_pairwise {α : Type} (le : α → α → Bool)
    (trans : ∀ a b c, le a b = true → le b c = true → le a c = true)
    (total : ∀ a b, le a b = true ∨ le b a = true) (x : α) :
    ∀ l : List α, l.Pairwise (fun a b => le a b = true) → (insertBy le x l).Pairwise (fun a b => le a b = true)
  | [], _ => by simp [insertBy]
  | y :: ys, h => by
    unfold insertBy
    have hy := List.pairwise_cons.1 h
    split
    · rename_i hxy
      refine List.pairwise_cons.2 ⟨?_, h⟩
      intro b hb
      rcases List.mem_cons.1 hb with rfl | hb
      · exact hxy
      · exact trans _ _ _ hxy (hy.1 b hb)
    · rename_i hxy
      have hyx : le y x = true := by
        rcases total x y with h1 | h1
        · exact absurd h1 hxy
        · exact h1
      refine List.pairwise_cons.2 ⟨?_, insertBy_pairwise le trans total x ys hy.2⟩
      intro b hb
      rcases List.mem_cons.1 ((insertBy_perm le x ys).subset hb) with rfl | hb
      · exact hyx
      · exact hy.1 b hb

theorem isort_pairwise {α : Type} (le : α → α → Bool)
    (trans : ∀ a b c, le a b = true → le b c = true → le a c = true)
    (total : ∀ a b, le a b = true ∨ le b a = true) :
    ∀ l : List α, (isort le l).Pairwise (fun a b => le a b = true)
  | [] => List.Pairwise.nil
  | x :: xs => insertBy_pairwise le trans total x _ (isort_pairwise le trans total xs)

/-- **the sorted list is unique**: sorting forgets the order of its input. -/
theorem isort_eq_of_perm {α : Type} (le : α → α → Bool)
    (trans : ∀ a b c, le a b = true → le b c = true → le a c = true)
    (total : ∀ a b, le a b = true ∨ le b a = true)
    (antisymm : ∀ a b, le a b = true → le b a = true → a = b)
    {l l' : List α} (h : l.Perm l') : isort le l = isort le l' := by
  apply List.Perm.eq_of_pairwise (le := fun a b => le a b = true)
  · intro a b _ _ h1 h2; exact antisymm a b h1 h2
  · exact isort_pairwise le trans total l
  · exact isort_pairwise le trans total l'
  · exact (isort_perm le l).trans (h.trans (isort_perm le l').symm)

theorem ratLe_trans (a b c : Rat) : ratLe a b = true → ratLe b c = true → ratLe a c = true := by
  simp only [ratLe, decide_eq_true_eq]; exact Rat.le_trans
theorem ratLe_total (a b : Rat) : ratLe a b = true ∨ ratLe b a = true := by
  simp only [ratLe, decide_eq_true_eq]; exact Rat.le_total
theorem ratLe_antisymm (a b : Rat) : ratLe a b = true → ratLe b a = true → a = b := by
  simp only [ratLe, decide_eq_true_eq]; exact Rat.le_antisymm

theorem intLe_trans (a b c : Int) : intLe a b = true → intLe b c = true → intLe a c = true := by
  simp only [intLe, decide_eq_true_eq]; exact Int.le_trans
theorem intLe_total (a b : Int) : intLe a b = true ∨ intLe b a = true := by
  simp only [intLe, decide_eq_true_eq]; exact Int.le_total a b
theorem intLe_antisymm (a b : Int) : intLe a b = true → intLe b a = true → a = b := by
  simp only [intLe, decide_eq_true_eq]; exact Int.le_antisymm

theorem strLe_trans (a b c : String) : strLe a b = true → strLe b c = true → strLe a c = true := by
  simp only [strLe, decide_eq_true_eq]; exact String.le_trans
theorem strLe_total (a b : String) : strLe a b = true ∨ strLe b a = true := by
  simp only [strLe, decide_eq_true_eq]; exact String.le_total a b
theorem strLe_antisymm (a b : String) : strLe a b = true → strLe b a = true → a = b := by
  simp only [strLe, decide_eq_true_eq]; exact String.le_antisymm

theorem boolLe_trans (a b c : Bool) : boolLe a b = true → boolLe b c = true → boolLe a c = true := by
  cases a <;> cases b <;> cases c <;> simp [boolLe]
theorem boolLe_total (a b : Bool) : boolLe a b = true ∨ boolLe b a = true := by
  cases a <;> cases b <;> simp [boolLe]
theorem boolLe_antisymm (a b : Bool) : boolLe a b = true → boolLe b a = true → a = b := by
  cases a <;> cases b <;> simp [boolLe]

/-! ### sums -/

theorem ratSum_perm {l l' : List Rat} (h : l.Perm l') : ratSum l = ratSum l' := by
  unfold ratSum
  exact h.foldr_eq' (fun x _ y _ z => Rat.add_left_comm y x z) 0

theorem intSum_perm {l l' : List Int} (h : l.Perm l') : intSum l = intSum l' := by
  unfold intSum
  exact h.foldr_eq' (fun x _ y _ z => Int.add_left_comm y x z) 0

theorem mean_perm {l l' : List Rat} (h : l.Perm l') : mean l = mean l' := by
  unfold mean; rw [ratSum_perm h, h.length_eq]

theorem sqDev_perm {l l' : List Rat} (h : l.Perm l') : sqDev l = sqDev l' := by
  unfold sqDev; rw [mean_perm h]; exact ratSum_perm (h.map _)

theorem median_perm {l l' : List Rat} (h : l.Perm l') : median l = median l' := by
  unfold median; rw [isort_eq_of_perm ratLe ratLe_trans ratLe_total ratLe_antisymm h]

/-! ### every aggregate forgets the order of the values -/

theorem kindOf_perm {l l' : List Value} (h : l.Perm l') : kindOf l = kindOf l' := by
  unfold kindOf; rw [h.all_eq, h.all_eq, h.all_eq, h.all_eq]

theorem isEmpty_perm {α : Type} {l l' : List α} (h : l.Perm l') : l.isEmpty = l'.isEmpty := by
  cases l <;> cases l' <;> simp_all

theorem minmax_perm (b : Bool) {l l' : List Value} (h : l.Perm l') : minmax b l = minmax b l' := by
  have h1 : isort intLe (ints l) = isort intLe (ints l') :=
    isort_eq_of_perm intLe intLe_trans intLe_total intLe_antisymm (h.filterMap Value.int?)
  have h2 : isort ratLe (rats l) = isort ratLe (rats l') :=
    isort_eq_of_perm ratLe ratLe_trans ratLe_total ratLe_antisymm (h.filterMap Value.toRat?)
  have h3 : isort strLe (strs l) = isort strLe (strs l') :=
    isort_eq_of_perm strLe strLe_trans strLe_total strLe_antisymm (h.filterMap Value.str?)
  have h4 : isort boolLe (bools l) = isort boolLe (bools l') :=
    isort_eq_of_perm boolLe boolLe_trans boolLe_total boolLe_antisymm (h.filterMap Value.bool?)
  unfold minmax
  rw [kindOf_perm h, h1, h2, h3, h4]

theorem aggNN_perm (op : AggOp) {l l' : List Value} (h : l.Perm l') : aggNN op l = aggNN op l' := by
  have hr : (rats l).Perm (rats l') := h.filterMap _
  have hi : (ints l).Perm (ints l') := h.filterMap _
  have hk := kindOf_perm h
  have he := isEmpty_perm h
  have hlen := h.length_eq
  have hm := fun b => minmax_perm b h
  have h1 := intSum_perm hi
  have h2 := ratSum_perm hr
  have h3 := mean_perm hr
  have h4 := median_perm hr
  have h5 := sqDev_perm hr
  have h6 := hr.length_eq
  cases op <;> simp only [aggNN, hk, he, hlen, hm, h1, h2, h3, h4, h5, h6]

theorem nonNull_perm {l l' : List Value} (h : l.Perm l') : (nonNull l).Perm (nonNull l') := h.filter _

/-! ### dedup -/

theorem mem_dedup {α : Type} [DecidableEq α] (a : α) : ∀ l : List α, a ∈ dedup l ↔ a ∈ l
  | [] => by simp [dedup]
  | b :: l => by
    simp only [dedup, List.mem_cons, List.mem_filter, mem_dedup a l]
    by_cases hab : a = b
    · simp [hab]
    · simp [hab]

theorem nodup_dedup {α : Type} [DecidableEq α] : ∀ l : List α, (dedup l).Nodup
  | [] => by simp [dedup]
  | b :: l => by
    simp only [dedup, List.nodup_cons, List.mem_filter]
    refine ⟨?_, (List.filter_sublist).nodup (nodup_dedup l)⟩
    rintro ⟨_, h⟩
    simp at h

theorem dedup_perm {α : Type} [DecidableEq α] {l l' : List α} (h : l.Perm l') : (dedup l).Perm (dedup l') := by
  rw [List.perm_ext_iff_of_nodup (nodup_dedup l) (nodup_dedup l')]
  intro a
  rw [mem_dedup, mem_dedup]
  exact h.mem_iff

/-! ### keys of projected rows -/

theorem proj_eq_of_key_eq (a b : Row) (ids : List String) (h : a.key ids = b.key ids) : a.proj ids = b.proj ids := by
  unfold Row.key at h
  unfold Row.proj
  apply List.map_congr_left
  intro n hn
  rw [(List.map_inj_left.1 h) n hn]

theorem key_proj_self (a : Row) (ids : List String) : (a.proj ids).key ids = a.key ids :=
  key_proj a ids ids (fun _ h => h)

theorem proj_proj_append (a : Row) (ids : List String) (rest : Row) : (a.proj ids ++ rest).proj ids = a.proj ids := by
  apply proj_eq_of_key_eq
  rw [key_proj_append a ids ids rest (fun _ h => h)]

theorem mem_keyRows (gids : List String) (rows : List Row) (kr : Row) :
    kr ∈ keyRows gids rows ↔ ∃ r ∈ rows, kr = r.proj gids := by
  unfold keyRows
  rw [mem_dedup, List.mem_map]
  constructor
  · rintro ⟨r, hr, rfl⟩; exact ⟨r, hr, rfl⟩
  · rintro ⟨r, hr, rfl⟩; exact ⟨r, hr, rfl⟩

theorem keyRows_keys_nodup (gids : List String) (rows : List Row) :
    ((keyRows gids rows).map (·.key gids)).Nodup := by
  refine nodup_map_of_nodup_map id (·.key gids) (keyRows gids rows) (by rw [List.map_id]; exact nodup_dedup _) ?_
  intro a ha b hb hk
  obtain ⟨ra, _, rfl⟩ := (mem_keyRows gids rows a).1 ha
  obtain ⟨rb, _, rfl⟩ := (mem_keyRows gids rows b).1 hb
  rw [key_proj_self, key_proj_self] at hk
  exact proj_eq_of_key_eq ra rb gids hk

theorem keyRows_perm (gids : List String) {rows rows' : List Row} (h : rows.Perm rows') :
    (keyRows gids rows).Perm (keyRows gids rows') := dedup_perm (h.map _)

theorem members_perm (gids : List String) {rows rows' : List Row} (h : rows.Perm rows') (k : List Value) :
    (members gids rows k).Perm (members gids rows' k) := h.filter _

/-! ### monadic plumbing -/

theorem bindOk {α β : Type} (a : R α) (f : α → R β) (r : β) :
    (a >>= f) = .ok r ↔ ∃ x, a = .ok x ∧ f x = .ok r := by
  cases a <;> simp [bind, Except.bind]

theorem mapM_ok_all {α β : Type} (f : α → R β) (l : List α) (out : List β) (h : l.mapM f = .ok out) :
    ∀ a ∈ l, ∃ b, f a = .ok b := by
  intro a ha
  cases hf : f a with
  | ok b => exact ⟨b, rfl⟩
  | error e =>
    obtain ⟨e', he'⟩ := (mapM_error_iff f l).2 ⟨a, ha, e, hf⟩
    rw [h] at he'; cases he'

theorem mapRows_ok_all (f : Row → R (Option Row)) (rows out : List Row) (h : mapRows f rows = .ok out) :
    ∀ a ∈ rows, ∃ b, f a = .ok b := by
  obtain ⟨xs, hx, _⟩ := (mapRows_ok_iff f rows out).1 h
  exact mapM_ok_all f rows xs hx

/-- what a successful aggregation consists of. -/
theorem aggr_ok (spec : AggSpec) (d r : DS) (h : aggr spec d = .ok r) :
    ∃ gids items rows,
      groupIds spec.grouping d = .ok gids ∧ itemsFor spec.items d gids = .ok items ∧
      (items.map (·.out)).Nodup ∧ (∀ it ∈ items, it.out ∉ gids) ∧
      mapRows (groupRow d.meas gids items spec.having d.rows) (keyRows gids d.rows) = .ok rows ∧
      r = { ids := gids, meas := items.map (·.out), rows := rows } := by
  unfold aggr at h
  obtain ⟨gids, hg, h⟩ := (bindOk _ _ _).1 h
  obtain ⟨items, hi, h⟩ := (bindOk _ _ _).1 h
  split at h
  · cases h
  · rename_i hc
    split at h
    · cases h
    · obtain ⟨rows, hr, h⟩ := (bindOk _ _ _).1 h
      simp only [pure, Except.pure, Except.ok.injEq] at h
      simp only [Bool.or_eq_true, Bool.not_eq_true', decide_eq_false_iff_not, not_or, Decidable.not_not,
        List.any_eq_true, List.contains_iff_mem, not_exists, not_and] at hc
      refine ⟨gids, items, rows, hg, hi, hc.1, ?_, hr, h.symm⟩
      intro it hit hmem
      exact hc.2 it.out (List.mem_map.2 ⟨it, hit, rfl⟩) hmem

/-- the shape of a group's output row. -/
theorem groupRow_some (meas gids : List String) (items : List AggItem) (having : Option (List AggItem × SExpr))
    (rows : List Row) (kr r' : Row) (h : groupRow meas gids items having rows kr = .ok (some r')) :
    ∃ vals, itemVals meas items (members gids rows (kr.key gids)) = .ok vals ∧
      havingOk meas having kr (members gids rows (kr.key gids)) = .ok true ∧ r' = kr ++ vals := by
  unfold groupRow at h
  obtain ⟨vals, hv, h⟩ := (bindOk _ _ _).1 h
  obtain ⟨keep, hk, h⟩ := (bindOk _ _ _).1 h
  simp only [pure, Except.pure, Except.ok.injEq] at h
  cases keep with
  | true => simp at h; exact ⟨vals, hv, hk, h.symm⟩
  | false => simp at h

theorem groupRow_ok (meas gids : List String) (items : List AggItem) (having : Option (List AggItem × SExpr))
    (rows : List Row) (kr : Row) (o : Option Row) (h : groupRow meas gids items having rows kr = .ok o) :
    ∃ vals keep, itemVals meas items (members gids rows (kr.key gids)) = .ok vals ∧
      havingOk meas having kr (members gids rows (kr.key gids)) = .ok keep ∧
      o = if keep then some (kr ++ vals) else none := by
  unfold groupRow at h
  obtain ⟨vals, hv, h⟩ := (bindOk _ _ _).1 h
  obtain ⟨keep, hk, h⟩ := (bindOk _ _ _).1 h
  simp only [pure, Except.pure, Except.ok.injEq] at h
  exact ⟨vals, keep, hv, hk, h.symm⟩

/-! ### relational lifting for permutation invariance -/

theorem aggVals_perm (op : AggOp) {l l' : List Value} (h : l.Perm l') : aggVals op l = aggVals op l' :=
  aggNN_perm op (nonNull_perm h)

theorem Rel2.refl_eq {α : Type} (a : R α) : Rel2 Eq a a := by
  cases a with
  | error e => exact Or.inl ⟨e, e, rfl, rfl⟩
  | ok x => exact Or.inr ⟨x, x, rfl, rfl, rfl⟩

theorem Rel2.trans_eq {α : Type} {P : α → α → Prop} {a b c : R α} (h1 : Rel2 P a b) (h2 : Rel2 Eq b c) : Rel2 P a c := by
  rcases h1 with ⟨e, e', rfl, rfl⟩ | ⟨x, y, rfl, rfl, hp⟩
  · rcases h2 with ⟨_, e'', _, rfl⟩ | ⟨_, _, h, _, _⟩
    · exact Or.inl ⟨e, e'', rfl, rfl⟩
    · cases h
  · rcases h2 with ⟨_, _, h, _⟩ | ⟨y', z, h, rfl, rfl⟩
    · cases h
    · cases h; exact Or.inr ⟨x, y, rfl, rfl, hp⟩

theorem mapM_rel_eq {α β : Type} (f g : α → R β) :
    ∀ l : List α, (∀ a ∈ l, Rel2 Eq (f a) (g a)) → Rel2 Eq (l.mapM f) (l.mapM g)
  | [], _ => by simp only [List.mapM_nil]; exact Rel2.refl_eq _
  | a :: l, h => by
    simp only [List.mapM_cons]
    refine Rel2.bind (h a List.mem_cons_self) ?_
    rintro x x' rfl
    refine Rel2.bind (mapM_rel_eq f g l (fun b hb => h b (List.mem_cons_of_mem _ hb))) ?_
    rintro y y' rfl
    exact Rel2.refl_eq _

theorem mapM_perm_rel {α β : Type} (f : α → R β) {l l' : List α} (hp : l.Perm l') :
    Rel2 Perm (l.mapM f) (l'.mapM f) := by
  rcases mapM_ok_or_error f l with ⟨xs, hx⟩ | ⟨e, he⟩
  · obtain ⟨xs', hx', hpx⟩ := mapM_perm f hp xs hx
    exact Or.inr ⟨xs, xs', hx, hx', hpx⟩
  · obtain ⟨a, ha, e1, he1⟩ := (mapM_error_iff f l).1 ⟨e, he⟩
    obtain ⟨e3, he3⟩ := (mapM_error_iff f l').2 ⟨a, hp.mem_iff.1 ha, e1, he1⟩
    exact Or.inl ⟨e, e3, he, he3⟩

theorem itemVal_perm (meas : List String) (it : AggItem) {ms ms' : List Row} (h : ms.Perm ms') :
    Rel2 Eq (itemVal meas it ms) (itemVal meas it ms') := by
  unfold itemVal
  refine Rel2.bind (mapM_perm_rel _ h) ?_
  intro vals vals' hv
  rw [aggVals_perm it.op hv]
  exact Rel2.refl_eq _

theorem itemVals_perm (meas : List String) (items : List AggItem) {ms ms' : List Row} (h : ms.Perm ms') :
    Rel2 Eq (itemVals meas items ms) (itemVals meas items ms') := by
  unfold itemVals
  apply mapM_rel_eq
  intro it _
  refine Rel2.bind (itemVal_perm meas it h) ?_
  rintro v v' rfl
  exact Rel2.refl_eq _

theorem havingOk_perm (meas : List String) (having : Option (List AggItem × SExpr)) (kr : Row) {ms ms' : List Row}
    (h : ms.Perm ms') : Rel2 Eq (havingOk meas having kr ms) (havingOk meas having kr ms') := by
  unfold havingOk
  cases having with
  | none => exact Rel2.refl_eq _
  | some hc =>
    obtain ⟨hitems, cond⟩ := hc
    refine Rel2.bind (itemVals_perm meas hitems h) ?_
    rintro hs hs' rfl
    exact Rel2.refl_eq _

theorem groupRow_perm (meas gids : List String) (items : List AggItem) (having : Option (List AggItem × SExpr))
    {rows rows' : List Row} (h : rows.Perm rows') (kr : Row) :
    Rel2 Eq (groupRow meas gids items having rows kr) (groupRow meas gids items having rows' kr) := by
  unfold groupRow
  refine Rel2.bind (itemVals_perm meas items (members_perm gids h _)) ?_
  rintro vals vals' rfl
  refine Rel2.bind (havingOk_perm meas having kr (members_perm gids h _)) ?_
  rintro k k' rfl
  exact Rel2.refl_eq _

theorem mapRows_rel_eq (f g : Row → R (Option Row)) (l : List Row) (h : ∀ a ∈ l, Rel2 Eq (f a) (g a)) :
    Rel2 Eq (mapRows f l) (mapRows g l) := by
  unfold mapRows
  refine Rel2.bind (mapM_rel_eq f g l h) ?_
  rintro xs xs' rfl
  exact Rel2.refl_eq _

/-! ### the value of an item in the output row -/

theorem itemVals_cons (meas : List String) (it : AggItem) (items : List AggItem) (ms : List Row) (out : List (String × Value)) :
    itemVals meas (it :: items) ms = .ok out ↔
      ∃ v rest, itemVal meas it ms = .ok v ∧ itemVals meas items ms = .ok rest ∧ out = (it.out, v) :: rest := by
  unfold itemVals
  rw [mapM_ok_cons]
  constructor
  · rintro ⟨b, bs, h1, h2, rfl⟩
    obtain ⟨v, hv, h1⟩ := (bindOk _ _ _).1 h1
    simp only [pure, Except.pure, Except.ok.injEq] at h1
    exact ⟨v, bs, hv, h2, by rw [h1]⟩
  · rintro ⟨v, rest, h1, h2, rfl⟩
    exact ⟨(it.out, v), rest, by rw [h1]; rfl, h2, rfl⟩

/-- with distinct output names, the output row carries under `it.out` the value of item `it`. -/
theorem itemVals_get (meas : List String) (ms : List Row) :
    ∀ (items : List AggItem) (vals : List (String × Value)), itemVals meas items ms = .ok vals →
      (items.map (·.out)).Nodup → ∀ it ∈ items, itemVal meas it ms = .ok (Row.get vals it.out)
  | [], _, _, _, it, hit => by cases hit
  | i0 :: items, vals, h, hn, it, hit => by
    obtain ⟨v, rest, h1, h2, rfl⟩ := (itemVals_cons meas i0 items ms vals).1 h
    simp only [List.map_cons, List.nodup_cons] at hn
    rcases List.mem_cons.1 hit with rfl | hit'
    · rw [h1]; simp [Row.get]
    · have hne : it.out ≠ i0.out := by
        intro e; apply hn.1; rw [← e]; exact List.mem_map.2 ⟨it, hit', rfl⟩
      have : Row.get ((i0.out, v) :: rest) it.out = Row.get rest it.out := by
        have hb : (it.out == i0.out) = false := by simpa using hne
        simp [Row.get, List.lookup_cons, hb]
      rw [this]
      exact itemVals_get meas ms items rest h2 hn.2 it hit'

/-! ### min / max are the least / greatest element -/


theorem pick_min_spec {α : Type} (le : α → α → Bool)
    (trans : ∀ a b c, le a b = true → le b c = true → le a c = true)
    (total : ∀ a b, le a b = true ∨ le b a = true) (l : List α) (a : α)
    (h : pick false (isort le l) = some a) : a ∈ l ∧ ∀ b ∈ l, le a b = true := by
  simp only [pick, Bool.false_eq_true, if_false] at h
  have hs := isort_pairwise le trans total l
  have hp := isort_perm le l
  cases hl : isort le l with
  | nil => rw [hl] at h; cases h
  | cons x t =>
    rw [hl] at h hs hp
    simp only [List.head?_cons, Option.some.injEq] at h
    subst h
    refine ⟨hp.subset List.mem_cons_self, ?_⟩
    intro b hb
    rcases List.mem_cons.1 (hp.symm.subset hb) with rfl | hb'
    · rcases total b b with h1 | h1 <;> exact h1
    · exact (List.pairwise_cons.1 hs).1 b hb'

theorem pick_max_spec {α : Type} (le : α → α → Bool)
    (trans : ∀ a b c, le a b = true → le b c = true → le a c = true)
    (total : ∀ a b, le a b = true ∨ le b a = true) (l : List α) (a : α)
    (h : pick true (isort le l) = some a) : a ∈ l ∧ ∀ b ∈ l, le b a = true := by
  simp only [pick, if_true] at h
  have hs := isort_pairwise le trans total l
  have hp := isort_perm le l
  obtain ⟨ys, hy⟩ := List.getLast?_eq_some_iff.1 h
  rw [hy] at hs hp
  refine ⟨hp.subset (by simp), ?_⟩
  intro b hb
  have hb' := hp.symm.subset hb
  rcases List.mem_append.1 hb' with h1 | h1
  · exact (List.pairwise_append.1 hs).2.2 b h1 a (by simp)
  · simp at h1; subst h1
    rcases total b b with h2 | h2 <;> exact h2


theorem minmax_num (b : Bool) (nn : List Value) (q : Rat) (h : minmax b nn = .ok (.num q)) :
    pick b (isort ratLe (rats nn)) = some q := by
  unfold minmax at h
  cases hk : kindOf nn <;> rw [hk] at h <;> simp only [Except.ok.injEq] at h
  · cases hp : pick b (isort intLe (ints nn)) <;> rw [hp] at h <;> simp [optV] at h
  · cases hp : pick b (isort ratLe (rats nn)) <;> rw [hp] at h <;> simp [optV] at h
    rw [h]
  · cases hp : pick b (isort strLe (strs nn)) <;> rw [hp] at h <;> simp [optV] at h
  · cases hp : pick b (isort boolLe (bools nn)) <;> rw [hp] at h <;> simp [optV] at h
  · cases h

theorem minmax_int (b : Bool) (nn : List Value) (i : Int) (h : minmax b nn = .ok (.int i)) :
    pick b (isort intLe (ints nn)) = some i := by
  unfold minmax at h
  cases hk : kindOf nn <;> rw [hk] at h <;> simp only [Except.ok.injEq] at h
  · cases hp : pick b (isort intLe (ints nn)) <;> rw [hp] at h <;> simp [optV] at h
    rw [h]
  · cases hp : pick b (isort ratLe (rats nn)) <;> rw [hp] at h <;> simp [optV] at h
  · cases hp : pick b (isort strLe (strs nn)) <;> rw [hp] at h <;> simp [optV] at h
  · cases hp : pick b (isort boolLe (bools nn)) <;> rw [hp] at h <;> simp [optV] at h
  · cases h

theorem aggVals_min_eq (xs : List Value) (v : Value) (hv : v ≠ .null) (h : aggVals .min xs = .ok v) :
    minmax false (nonNull xs) = .ok v := by
  unfold aggVals aggNN at h
  simp only at h
  split at h
  · simp only [Except.ok.injEq] at h; exact absurd h.symm hv
  · exact h

theorem aggVals_max_eq (xs : List Value) (v : Value) (hv : v ≠ .null) (h : aggVals .max xs = .ok v) :
    minmax true (nonNull xs) = .ok v := by
  unfold aggVals aggNN at h
  simp only at h
  split at h
  · simp only [Except.ok.injEq] at h; exact absurd h.symm hv
  · exact h
end VtlModel.Sem

/-! Scalar values and the element-wise operator semantics (VTL 2.1 as restated for the
modelled subset; see DESIGN.md §4 C01).  Import-free, total, computable.

Numbers are exact rationals (core `Rat`); there is no `Float` anywhere.  Every place where VTL
(or the engine) rejects an input is an `Except` branch, never a default value. -/
namespace VtlModel.Sem

inductive Value where
  | null
  | int (i : Int)
  | num (q : Rat)
  | str (s : String)
  | bool (b : Bool)
  deriving DecidableEq, Repr, Inhabited

inductive Err where
  | divZero      -- VTL 2-1-15-6
  | domain       -- logarithm / root of a non-positive number etc.
  | type         -- operand of the wrong type (ill-typed program; excluded by semantic analysis)
  | unsupported  -- outside the modelled subset
  | name         -- unknown dataset / component
  | unstable     -- exact result sits on a rounding boundary that binary floating point cannot decide
                 -- (the harness does not compare such cases; never produced for exact operators)
  deriving DecidableEq, Repr, Inhabited

abbrev R := Except Err

deriving instance DecidableEq for Except

namespace Value

def isNull : Value → Bool
  | null => true
  | _ => false

def toRat? : Value → Option Rat
  | int i => some (i : Rat)
  | num q => some q
  | _ => none

end Value

open Value

/-! ### Arithmetic -/

inductive BinOp where
  | add | sub | mul | div | mod
  | eq | ne | lt | le | gt | ge
  | and | or | xor
  | concat
  | power | log
  | nvl
  deriving DecidableEq, Repr, Inhabited

inductive UnOp where
  | neg | plus | not | abs | ceil | floor | isnull
  | upper | lower | trim | ltrim | rtrim | len
  deriving DecidableEq, Repr, Inhabited

/-- integer/rational arithmetic with Integer ⊂ Number promotion; null is absorbing. -/
def arith (fi : Int → Int → Int) (fq : Rat → Rat → Rat) : Value → Value → R Value
  | .null, _ => .ok .null
  | _, .null => .ok .null
  | .int a, .int b => .ok (.int (fi a b))
  | .int a, .num b => .ok (.num (fq a b))
  | .num a, .int b => .ok (.num (fq a b))
  | .num a, .num b => .ok (.num (fq a b))
  | _, _ => .error .type

/-- VTL `/`: a zero divisor is a runtime error (also when the dividend is null, as the engine's
`vtl_div` tests the divisor first); a null divisor gives null. -/
def vdiv : Value → Value → R Value
  | a, b =>
    match b.toRat? with
    | some d => if d = 0 then .error .divZero else
        match a with
        | .null => .ok .null
        | _ => match a.toRat? with
               | some n => .ok (.num (n / d))
               | none => .error .type
    | none => match b with
              | .null => (match a with | .str _ | .bool _ => .error .type | _ => .ok .null)
              | _ => .error .type

/-- truncated remainder (sign of the dividend); the zero-divisor case is handled by `vmod`. -/
def ratMod (a b : Rat) : Rat :=
  if b = 0 then a else
    let q := a / b
    let t : Int := if q < 0 then -((-q).floor) else q.floor
    a - b * t

/-- `mod`: adopted behaviour (DESIGN §4 C01): remainder of the truncated division (sign of the
dividend) and a null result for a zero divisor, as the engine computes it; the VTL text is not
available offline to arbitrate `mod(x, 0)`. -/
def isPow2 : Nat → Nat → Bool
  | 0, _ => false
  | _, 0 => false
  | _, 1 => true
  | fuel + 1, n => n % 2 == 0 && isPow2 fuel (n / 2)

/-- exactly representable in binary floating point (denominator a power of two). -/
def dyadic (q : Rat) : Bool := isPow2 (q.den + 1) q.den

def vmod : Value → Value → R Value
  | .null, _ => .ok .null
  | _, .null => .ok .null
  | .int a, .int b => .ok (if b = 0 then .null else .int (Int.tmod a b))
  | a, b => match a.toRat?, b.toRat? with
            | some x, some y =>
                if y = 0 then .ok .null
                else if !(dyadic x && dyadic y) then .error .unstable
                else .ok (.num (ratMod x y))
            | _, _ => .error .type

/-! ### Comparison -/

def strLt (a b : String) : Bool := decide (a < b)

/-- three-way comparison on values of comparable type; `none` when a side is null. -/
def cmp? : Value → Value → R (Option Ordering)
  | .null, _ => .ok none
  | _, .null => .ok none
  | .str a, .str b => .ok (some (if a = b then .eq else if strLt a b then .lt else .gt))
  | .bool a, .bool b => .ok (some (if a = b then .eq else if !a && b then .lt else .gt))
  | a, b => match a.toRat?, b.toRat? with
            | some x, some y => .ok (some (if x = y then .eq else if x < y then .lt else .gt))
            | _, _ => .error .type

def cmpOp (f : Ordering → Bool) (a b : Value) : R Value := do
  match ← cmp? a b with
  | none => pure .null
  | some o => pure (.bool (f o))

/-! ### Three-valued (Kleene) logic -/

def and3 : Value → Value → R Value
  | .bool false, .bool _ => .ok (.bool false)
  | .bool false, .null => .ok (.bool false)
  | .bool _, .bool false => .ok (.bool false)
  | .null, .bool false => .ok (.bool false)
  | .bool true, .bool true => .ok (.bool true)
  | .bool true, .null => .ok .null
  | .null, .bool true => .ok .null
  | .null, .null => .ok .null
  | _, _ => .error .type

def or3 : Value → Value → R Value
  | .bool true, .bool _ => .ok (.bool true)
  | .bool true, .null => .ok (.bool true)
  | .bool _, .bool true => .ok (.bool true)
  | .null, .bool true => .ok (.bool true)
  | .bool false, .bool false => .ok (.bool false)
  | .bool false, .null => .ok .null
  | .null, .bool false => .ok .null
  | .null, .null => .ok .null
  | _, _ => .error .type

def not3 : Value → R Value
  | .bool b => .ok (.bool (!b))
  | .null => .ok .null
  | _ => .error .type

def xor3 : Value → Value → R Value
  | .bool a, .bool b => .ok (.bool (a != b))
  | .null, .bool _ => .ok .null
  | .bool _, .null => .ok .null
  | .null, .null => .ok .null
  | _, _ => .error .type

/-! ### Strings -/

def boolStr (b : Bool) : String := if b then "True" else "False"

def concat : Value → Value → R Value
  | .null, _ => .ok .null
  | _, .null => .ok .null
  | .str a, .str b => .ok (.str (a ++ b))
  | _, _ => .error .type

def dropWhileSpace : List Char → List Char
  | [] => []
  | c :: cs => if c = ' ' then dropWhileSpace cs else c :: cs

def ltrimS (s : String) : String := String.ofList (dropWhileSpace s.toList)
def rtrimS (s : String) : String := String.ofList (dropWhileSpace s.toList.reverse).reverse
def trimS (s : String) : String := ltrimS (rtrimS s)

def asciiUpper (c : Char) : Char := if 'a' ≤ c ∧ c ≤ 'z' then Char.ofNat (c.toNat - 32) else c
def asciiLower (c : Char) : Char := if 'A' ≤ c ∧ c ≤ 'Z' then Char.ofNat (c.toNat + 32) else c

def strFn (f : String → Value) : Value → R Value
  | .null => .ok .null
  | .str s => .ok (f s)
  | _ => .error .type

/-! ### Numeric functions -/

def ratAbs (q : Rat) : Rat := if q < 0 then -q else q

def pow10 : Nat → Rat
  | 0 => 1
  | n + 1 => 10 * pow10 n

/-- round half away from zero to `n` decimal places (`n` may be negative). -/
def ratRound (q : Rat) (n : Int) : Rat :=
  let scale : Rat := if n ≥ 0 then pow10 n.toNat else 1 / pow10 (-n).toNat
  let x := q * scale
  let r : Int := if x < 0 then -((-x + 1/2).floor) else (x + 1/2).floor
  (r : Rat) / scale

/-- truncate toward zero to `n` decimal places. -/
def ratTrunc (q : Rat) (n : Int) : Rat :=
  let scale : Rat := if n ≥ 0 then pow10 n.toNat else 1 / pow10 (-n).toNat
  let x := q * scale
  let r : Int := if x < 0 then -((-x).floor) else x.floor
  (r : Rat) / scale

def ratPowNat (q : Rat) : Nat → Rat
  | 0 => 1
  | n + 1 => q * ratPowNat q n

/-- `power` with an integer exponent (exact); other exponents are outside the exact model. -/
def vpower : Value → Value → R Value
  | .null, _ => .ok .null
  | _, .null => .ok .null
  | a, .int e =>
      match a.toRat? with
      | some q =>
          if e ≥ 0 then .ok (.num (ratPowNat q e.toNat))
          else if q = 0 then .error .domain else .ok (.num (1 / ratPowNat q (-e).toNat))
      | none => .error .type
  | _, _ => .error .unsupported

def unop : UnOp → Value → R Value
  | .isnull, v => .ok (.bool v.isNull)
  | _, .null => .ok .null
  | .neg, .int i => .ok (.int (-i))
  | .neg, .num q => .ok (.num (-q))
  | .plus, .int i => .ok (.int i)
  | .plus, .num q => .ok (.num q)
  | .not, v => not3 v
  | .abs, .int i => .ok (.int (if i < 0 then -i else i))
  | .abs, .num q => .ok (.num (ratAbs q))
  | .ceil, .int i => .ok (.int i)
  | .ceil, .num q => .ok (.int q.ceil)
  | .floor, .int i => .ok (.int i)
  | .floor, .num q => .ok (.int q.floor)
  | .upper, .str s => .ok (.str (s.map asciiUpper))
  | .lower, .str s => .ok (.str (s.map asciiLower))
  | .trim, .str s => .ok (.str (trimS s))
  | .ltrim, .str s => .ok (.str (ltrimS s))
  | .rtrim, .str s => .ok (.str (rtrimS s))
  | .len, .str s => .ok (.int s.length)
  | _, _ => .error .type

def nvl : Value → Value → R Value
  | .null, d => .ok d
  | v, _ => .ok v

def binop : BinOp → Value → Value → R Value
  | .add => arith (· + ·) (· + ·)
  | .sub => arith (· - ·) (· - ·)
  | .mul => arith (· * ·) (· * ·)
  | .div => vdiv
  | .mod => vmod
  | .eq => cmpOp (· == .eq)
  | .ne => cmpOp (· != .eq)
  | .lt => cmpOp (· == .lt)
  | .le => cmpOp (· != .gt)
  | .gt => cmpOp (· == .gt)
  | .ge => cmpOp (· != .lt)
  | .and => and3
  | .or => or3
  | .xor => xor3
  | .concat => concat
  | .power => vpower
  | .log => fun _ _ => .error .unsupported
  | .nvl => nvl

/-- operators for which a null operand gives a null result (all but the boolean connectives,
`nvl`, and `/` whose zero-divisor test comes first). -/
def BinOp.strict : BinOp → Bool
  | .and | .or | .nvl | .div | .log => false
  | _ => true

/-! ### between / in / substr / instr / replace / round / trunc -/

/-- `between(x, lo, hi)`: null if any operand is null (the engine guards the SQL BETWEEN). -/
def between (x lo hi : Value) : R Value := do
  match x, lo, hi with
  | .null, _, _ => pure .null
  | _, .null, _ => pure .null
  | _, _, .null => pure .null
  | _, _, _ =>
    match ← cmp? lo x, ← cmp? x hi with
    | some a, some b => pure (.bool (a != .gt && b != .gt))
    | _, _ => pure .null

/-- SQL `IN` over a literal list: true if some element equals, else null if x or an element is null. -/
def veq (a b : Value) : Bool :=
  match a.toRat?, b.toRat? with
  | some x, some y => x == y
  | _, _ => a == b

def vin (x : Value) (xs : List Value) : R Value :=
  match x with
  | .null => .ok .null
  | _ => if xs.any (veq x) then .ok (.bool true)
         else if xs.contains .null then .ok .null else .ok (.bool false)

def vnotin (x : Value) (xs : List Value) : R Value := do not3 (← vin x xs)

/-- `substr(s, start, length)` (1-based; missing/null start = 1, missing/null length = rest). -/
def substr (s : Value) (start len : Value) : R Value :=
  match s with
  | .null => .ok .null
  | .str t =>
    let st : Int := match start with | .int i => i | _ => 1
    let chars := t.toList
    let from0 : Nat := (st - 1).toNat
    let tail := chars.drop from0
    match len with
    | .int l => .ok (.str (String.ofList (tail.take l.toNat)))
    | _ => .ok (.str (String.ofList tail))
  | _ => .error .type

def isPrefixL : List Char → List Char → Bool
  | [], _ => true
  | _ :: _, [] => false
  | p :: ps, c :: cs => p = c && isPrefixL ps cs

/-- 1-based index of the first occurrence of `pat` in `cs` (0 if none); `off` = chars already skipped. -/
def findFrom (pat : List Char) : List Char → Nat → Nat
  | [], off => if pat.isEmpty then off + 1 else 0
  | c :: cs, off => if isPrefixL pat (c :: cs) then off + 1 else findFrom pat cs (off + 1)

/-- all occurrences replaced, left to right, non-overlapping; an empty pattern leaves `s` unchanged. -/
def replaceL (pat rep : List Char) : Nat → List Char → List Char
  | 0, cs => cs
  | _, [] => []
  | n + 1, c :: cs =>
      if pat.isEmpty then c :: cs
      else if isPrefixL pat (c :: cs) then rep ++ replaceL pat rep n ((c :: cs).drop pat.length)
      else c :: replaceL pat rep n cs

def replace (s pat rep : Value) : R Value :=
  match s, pat, rep with
  | .null, _, _ => .ok .null
  | _, .null, _ => .ok .null
  | _, _, .null => .ok .null
  | .str a, .str p, .str r => .ok (.str (String.ofList (replaceL p.toList r.toList (a.length + 1) a.toList)))
  | _, _, _ => .error .type

/-- `q * 10^k` (or `+ 1/2` for rounding) is an exact integer although `q` is not a binary fraction:
the engine computes on IEEE doubles there and may land on either side. -/
def onBoundary (trunc : Bool) (q : Rat) (k : Int) : Bool :=
  let scale : Rat := if k ≥ 0 then pow10 k.toNat else 1 / pow10 (-k).toNat
  let x := if trunc then q * scale else q * scale + 1/2
  !(dyadic q) && x.den == 1

def roundV (trunc : Bool) (x n : Value) : R Value :=
  match x with
  | .null => .ok .null
  | _ =>
    match x.toRat? with
    | none => .error .type
    | some q =>
      let k : Int := match n with | .int i => i | _ => 0
      if onBoundary trunc q k then .error .unstable
      else .ok (.num (if trunc then ratTrunc q k else ratRound q k))

end VtlModel.Sem

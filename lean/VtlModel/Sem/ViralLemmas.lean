import VtlModel.Sem.Viral
import VtlModel.Sem.AggrLemmas
import VtlModel.Props.C03
import VtlModel.Props.C33
/-! Lemmas about the viral-propagation model: symmetry of the enumerated CASE, order (in)dependence of the group
fold, and the two plug-in lemmas per operator (`*_WF`, `*_perm`) that `C10.evalD_WF` / `C33.evalD_perm` need. -/
namespace VtlModel.Sem
open List

/-! ### the enumerated CASE is symmetric -/

theorem inPair_comm (v : Option String) (a b : Value) : inPair v a b = inPair v b a := by
  cases v <;> simp [inPair, Bool.or_comm]

theorem matches_comm (c : VClause) (a b : Value) : c.matches a b = c.matches b a := by
  unfold VClause.matches
  split
  · exact inPair_comm _ a b
  · rw [inPair_comm _ a b, inPair_comm _ a b]
  · rfl

theorem enumCase_comm (cl : List VClause) (d : Option String) (a b : Value) : enumCase cl d a b = enumCase cl d b a := by
  unfold enumCase
  have : (fun c : VClause => c.matches a b) = (fun c => c.matches b a) := by
    funext c; exact matches_comm c a b
  rw [this]

/-! ### the group fold -/

/-- the two-value CASE of an enumerated rule is associative on all values. -/
def Assoc (cl : List VClause) (d : Option String) : Prop :=
  ∀ a b c : Value, enumCase cl d (enumCase cl d a b) c = enumCase cl d a (enumCase cl d b c)

theorem foldEnum_perm (cl : List VClause) (d : Option String) (ha : Assoc cl d) {xs ys : List Value} (h : xs.Perm ys) :
    foldEnum cl d xs = foldEnum cl d ys := by
  have rc : ∀ z x y : Value, enumCase cl d (enumCase cl d z x) y = enumCase cl d (enumCase cl d z y) x := by
    intro z x y
    rw [ha z x y, enumCase_comm cl d x y, ← ha z y x]
  induction h with
  | nil => rfl
  | cons a p _ => exact Perm.foldl_eq' p (fun x _ y _ z => rc z x y) a
  | swap a b l =>
    show foldl _ (enumCase cl d b a) l = foldl _ (enumCase cl d a b) l
    rw [enumCase_comm cl d b a]
  | trans _ _ ih1 ih2 => exact ih1.trans ih2

theorem all_perm {α : Type} (p : α → Bool) {xs ys : List α} (h : xs.Perm ys) : xs.all p = ys.all p := by
  cases h1 : xs.all p with
  | true =>
    have : ∀ y ∈ ys, p y = true := fun y hy => (List.all_eq_true.1 h1) y (h.mem_iff.2 hy)
    exact (List.all_eq_true.2 this).symm
  | false =>
    cases h2 : ys.all p with
    | false => rfl
    | true =>
      have : ∀ x ∈ xs, p x = true := fun x hx => (List.all_eq_true.1 h2) x (h.mem_iff.1 hx)
      rw [List.all_eq_true.2 this] at h1; cases h1

/-- rules whose group value does not depend on the order of the group: aggregate rules, and enumerated rules with
an associative CASE. -/
def OrderFree : Rule → Prop
  | .agg _ => True
  | .enum cl d => Assoc cl d

theorem group_perm (rule : Rule) (hr : OrderFree rule) {xs ys : List Value} (h : xs.Perm ys) :
    group rule xs = group rule ys := by
  cases rule with
  | agg f => exact aggVals_perm f.op h
  | enum cl d =>
    simp only [group]
    rw [all_perm textual h, foldEnum_perm cl d hr h]

theorem wide_perm (rule : Rule) {c c' : List Value} (h : c.Perm c') (v : Value) : wide rule c v = wide rule c' v := by
  cases rule with
  | agg f => exact aggVals_perm f.op h
  | enum cl d => rfl

theorem mapM_congr' {α β : Type} (f g : α → R β) : ∀ l : List α, (∀ a ∈ l, f a = g a) → l.mapM f = l.mapM g
  | [], _ => rfl
  | a :: l, h => by
    simp only [List.mapM_cons]
    rw [h a List.mem_cons_self, mapM_congr' f g l (fun b hb => h b (List.mem_cons_of_mem _ hb))]

/-! ### structure congruence -/

theorem plainMeas_congr (s : VSpec) (x y : DS) (h : x.meas = y.meas) : plainMeas s x = plainMeas s y := by
  unfold plainMeas; rw [h]

theorem viralOf_congr (s : VSpec) (x y : DS) (h : x.meas = y.meas) : viralOf s x = viralOf s y := by
  unfold viralOf; rw [h]

theorem column_perm (x y : DS) (h : x.rows.Perm y.rows) (v : String) : (column x v).Perm (column y v) := h.map _

/-! ### row-preserving operators -/

theorem vMapmRow_key (s : VSpec) (d : DS) (body : SExpr) (out : Option String) (r r' : Row)
    (h : vMapmRow s d body out r = .ok (some r')) : r'.key d.ids = r.key d.ids := by
  unfold vMapmRow at h
  obtain ⟨ms, _, h⟩ := (bindOk _ _ _).1 h
  obtain ⟨vs, _, h⟩ := (bindOk _ _ _).1 h
  simp only [pure, Except.pure, Except.ok.injEq, Option.some.injEq] at h
  subst h
  exact key_proj_append r d.ids d.ids (ms ++ vs) (fun i hi => hi)

/-- plug-in lemma for `C10.evalD_WF`. -/
theorem vMapm_WF (s : VSpec) (body : SExpr) (out : Option String) (x r : DS) (w : x.WF)
    (h : vMapm s body out x = .ok r) : r.WF := by
  unfold vMapm at h
  obtain ⟨rows, hr, h⟩ := (bindOk _ _ _).1 h
  simp only [pure, Except.pure, Except.ok.injEq] at h
  subst h
  exact mapRows_WF _ x.ids x.ids x.rows rows hr (fun r r' _ hf => vMapmRow_key s x body out r r' hf) w

theorem vMapmRow_congr (s : VSpec) (x y : DS) (body : SExpr) (out : Option String) (h : DSEquiv x y) :
    vMapmRow s x body out = vMapmRow s y body out := by
  funext r
  have hw : wideVals (viralOf s x) x r = wideVals (viralOf s y) y r := by
    unfold wideVals
    rw [viralOf_congr s x y h.2.1]
    apply mapM_congr'
    intro p _
    rw [wide_perm p.2 (column_perm x y h.2.2 p.1)]
  simp only [vMapmRow, measVals, hw, plainMeas_congr s x y h.2.1, h.1]

/-- plug-in lemma for `C33.evalD_perm`. -/
theorem vMapm_perm (s : VSpec) (body : SExpr) (out : Option String) (x y : DS) (_ : x.WF) (h : DSEquiv x y) :
    Rel2 DSEquiv (vMapm s body out x) (vMapm s body out y) := by
  unfold vMapm
  rw [vMapmRow_congr s x y body out h]
  refine Rel2.bind (P := Perm) (mapRows_perm _ h.2.2) ?_
  intro rows rows' hrr
  exact Rel2.pure ⟨h.1, by rw [plainMeas_congr s x y h.2.1, viralOf_congr s x y h.2.1], hrr⟩

/-! ### dataset ∘ dataset -/

theorem vZipRow_key (s : VSpec) (x y : DS) (b : Bool) (ms : List String) (body : SExpr) (out : Option String)
    (rb r' : Row) (h : vZipRow s x y b ms body out rb = .ok (some r')) :
    r'.key (if b then x else y).ids = rb.key (if b then x else y).ids := by
  unfold vZipRow at h
  cases hp : partner (if b then y else x) rb with
  | none => simp [hp] at h
  | some rs =>
    simp only [hp] at h
    obtain ⟨vals, _, h⟩ := (bindOk _ _ _).1 h
    obtain ⟨vs, _, h⟩ := (bindOk _ _ _).1 h
    simp only [pure, Except.pure, Except.ok.injEq, Option.some.injEq] at h
    subst h
    exact key_proj_append rb _ _ (vals ++ vs) (fun i hi => hi)

/-- plug-in lemma for `C10.evalD_WF`. -/
theorem vZip_WF (s : VSpec) (body : SExpr) (out : Option String) (x y r : DS) (wx : x.WF) (wy : y.WF)
    (h : vZip s body out x y = .ok r) : r.WF := by
  unfold vZip at h
  split at h
  · obtain ⟨rows, hr, h⟩ := (bindOk _ _ _).1 h
    simp only [pure, Except.pure, Except.ok.injEq] at h
    subst h
    exact mapRows_WF _ x.ids x.ids x.rows rows hr
      (fun r r' _ hf => by simpa using vZipRow_key s x y true _ body out r r' hf) wx
  · split at h
    · obtain ⟨rows, hr, h⟩ := (bindOk _ _ _).1 h
      simp only [pure, Except.pure, Except.ok.injEq] at h
      subst h
      exact mapRows_WF _ y.ids y.ids y.rows rows hr
        (fun r r' _ hf => by simpa using vZipRow_key s x y false _ body out r r' hf) wy
    · cases h

theorem pairVals_congr (s : VSpec) (x x' y y' : DS) (hx : x.meas = x'.meas) (hy : y.meas = y'.meas) :
    pairVals s x y = pairVals s x' y' := by
  funext l r
  unfold pairVals pairVal eitherViral
  rw [hx, hy]

theorem vZipRow_congr (s : VSpec) (x x' y y' : DS) (b : Bool) (ms : List String) (body : SExpr) (out : Option String)
    (wx : x.WF) (wy : y.WF) (hx : DSEquiv x x') (hy : DSEquiv y y') :
    vZipRow s x y b ms body out = vZipRow s x' y' b ms body out := by
  funext rb
  cases b with
  | true =>
    simp only [vZipRow, if_true, partner_congr y y' wy hy rb, pairVals_congr s x x' y y' hx.2.1 hy.2.1, hx.1]
  | false =>
    simp only [vZipRow, Bool.false_eq_true, if_false, partner_congr x x' wx hx rb,
      pairVals_congr s x x' y y' hx.2.1 hy.2.1, hy.1]

/-- plug-in lemma for `C33.evalD_perm`. -/
theorem vZip_perm (s : VSpec) (body : SExpr) (out : Option String) (x y x' y' : DS) (wx : x.WF) (wy : y.WF)
    (hx : DSEquiv x x') (hy : DSEquiv y y') :
    Rel2 DSEquiv (vZip s body out x y) (vZip s body out x' y') := by
  unfold vZip
  rw [← hx.1, ← hy.1, ← plainMeas_congr s x x' hx.2.1, ← plainMeas_congr s y y' hy.2.1]
  have hev : eitherViral s x' y' = eitherViral s x y := by unfold eitherViral; rw [hx.2.1, hy.2.1]
  rw [hev]
  split
  · rw [vZipRow_congr s x x' y y' true _ body out wx wy hx hy]
    refine Rel2.bind (P := Perm) (mapRows_perm _ hx.2.2) ?_
    intro rows rows' hrr
    exact Rel2.pure ⟨rfl, rfl, hrr⟩
  · split
    · rw [vZipRow_congr s x x' y y' false _ body out wx wy hx hy]
      refine Rel2.bind (P := Perm) (mapRows_perm _ hy.2.2) ?_
      intro rows rows' hrr
      exact Rel2.pure ⟨rfl, rfl, hrr⟩
    · exact Rel2.error _ _

/-! ### aggregation -/

theorem vAggrRow_key (vs : VSpec) (gids comps : List String) (rows : List Row) (kr r' : Row)
    (hsub : ∀ i ∈ gids, i ∈ comps) (h : vAggrRow vs gids comps rows kr = .ok (some r')) :
    r'.key gids = kr.key gids := by
  unfold vAggrRow at h
  obtain ⟨g, _, h⟩ := (bindOk _ _ _).1 h
  simp only [pure, Except.pure, Except.ok.injEq, Option.some.injEq] at h
  subst h
  exact key_proj_append kr comps gids g hsub

/-- plug-in lemma for `C10.evalD_WF`. -/
theorem vAggr_WF (s : VSpec) (spec : AggSpec) (x r : DS) (_ : x.WF) (h : vAggr s spec x = .ok r) : r.WF := by
  unfold vAggr at h
  split at h
  · cases h
  · obtain ⟨base, hb, h⟩ := (bindOk _ _ _).1 h
    obtain ⟨rows, hr, h⟩ := (bindOk _ _ _).1 h
    simp only [pure, Except.pure, Except.ok.injEq] at h
    subst h
    have wb : base.WF := C03.groups_nodup spec _ base hb
    exact mapRows_WF _ base.ids base.ids base.rows rows hr
      (fun r r' _ hf => vAggrRow_key _ base.ids base.comps x.rows r r' (fun i hi => List.mem_append_left _ hi) hf) wb

theorem groupVals_perm (vs : VSpec) (hs : ∀ p ∈ vs, OrderFree p.2) {ms ms' : List Row} (h : ms.Perm ms') :
    groupVals vs ms = groupVals vs ms' := by
  unfold groupVals
  apply mapM_congr'
  intro p hp
  rw [group_perm p.2 (hs p hp) (h.map _)]

/-- plug-in lemma for `C33.evalD_perm`, for ORDER-FREE rules (aggregate rules, associative enumerated rules): an
enumerated rule that is not associative makes the result depend on the row order (`C28.enum_group_counter`). -/
theorem vAggr_perm (s : VSpec) (hs : ∀ p ∈ s, OrderFree p.2) (spec : AggSpec) (x y : DS) (_ : x.WF) (h : DSEquiv x y) :
    Rel2 DSEquiv (vAggr s spec x) (vAggr s spec y) := by
  unfold vAggr
  split
  · exact Rel2.error _ _
  · have h0 : DSEquiv { x with meas := plainMeas s x } { y with meas := plainMeas s y } :=
      ⟨h.1, plainMeas_congr s x y h.2.1, h.2.2⟩
    refine Rel2.bind (C03.aggr_perm_any spec _ _ h0) ?_
    intro base base' hb
    have hf : vAggrRow (viralOf s x) base.ids base.comps x.rows = vAggrRow (viralOf s y) base'.ids base'.comps y.rows := by
      funext kr
      unfold vAggrRow DS.comps
      rw [← hb.1, ← hb.2.1, ← viralOf_congr s x y h.2.1]
      rw [groupVals_perm (viralOf s x) (fun p hp => hs p (List.mem_filter.1 hp).1) (members_perm base.ids h.2.2 (kr.key base.ids))]
    rw [hf]
    refine Rel2.bind (P := Perm) (mapRows_perm _ hb.2.2) ?_
    intro rows rows' hrr
    exact Rel2.pure ⟨hb.1, by rw [hb.2.1, viralOf_congr s x y h.2.1], hrr⟩

/-! ### what the viral value of a result datapoint is (specification lemmas) -/

theorem map_ok {α β : Type} (a : R α) (g : α → β) (b : β) : a.map g = .ok b ↔ ∃ v, a = .ok v ∧ b = g v := by
  cases a with
  | error e => simp [Except.map]
  | ok v =>
    simp only [Except.map, Except.ok.injEq]
    constructor
    · intro h; exact ⟨v, rfl, h.symm⟩
    · rintro ⟨w, hw, rfl⟩; rw [hw]

/-- the names of the pairs produced by a named `mapM`. -/
theorem mapM_named_keys {α : Type} (f : α → R Value) (nm : α → String) :
    ∀ (vs : List α) (out : List (String × Value)),
      vs.mapM (fun p => (f p).map (fun v => (nm p, v))) = .ok out → out.map (·.1) = vs.map nm := by
  intro vs
  induction vs with
  | nil => intro out h; simp [List.mapM_nil, pure, Except.pure] at h; subst h; rfl
  | cons a l ih =>
    intro out h
    obtain ⟨b, bs, h1, h2, rfl⟩ := (mapM_ok_cons _ a l out).1 h
    obtain ⟨v, _, rfl⟩ := (map_ok _ _ _).1 h1
    simp only [List.map_cons, ih bs h2]

/-- with distinct names, the pair named after `p` holds the value computed for `p`. -/
theorem mapM_named_lookup {α : Type} (f : α → R Value) (nm : α → String) :
    ∀ (vs : List α) (out : List (String × Value)),
      vs.mapM (fun p => (f p).map (fun v => (nm p, v))) = .ok out → (vs.map nm).Nodup →
      ∀ p ∈ vs, ∃ v, f p = .ok v ∧ out.lookup (nm p) = some v := by
  intro vs
  induction vs with
  | nil => intro out _ _ p hp; cases hp
  | cons a l ih =>
    intro out h hn p hp
    obtain ⟨b, bs, h1, h2, rfl⟩ := (mapM_ok_cons _ a l out).1 h
    obtain ⟨v, hv, rfl⟩ := (map_ok _ _ _).1 h1
    simp only [List.map_cons, List.nodup_cons] at hn
    rcases List.mem_cons.1 hp with rfl | hp'
    · exact ⟨v, hv, by simp⟩
    · obtain ⟨w, hw, hl⟩ := ih bs h2 hn.2 p hp'
      refine ⟨w, hw, ?_⟩
      have hne : nm p ≠ nm a := fun e => hn.1 (e ▸ List.mem_map.2 ⟨p, hp', rfl⟩)
      have : (nm p == nm a) = false := by simpa using hne
      simp only [List.lookup_cons, this]
      exact hl

theorem lookup_append_not_key (v : String) : ∀ (ms rest : Row), v ∉ ms.map (·.1) →
    List.lookup v (ms ++ rest) = List.lookup v rest := by
  intro ms
  induction ms with
  | nil => intro rest _; rfl
  | cons a l ih =>
    intro rest h
    simp only [List.map_cons, List.mem_cons, not_or] at h
    have : (v == a.1) = false := by simpa using h.1
    obtain ⟨k, w⟩ := a
    simp only [List.cons_append, List.lookup_cons, this]
    exact ih rest h.2

/-- the viral value carried by an output row `r.proj ids ++ (ms ++ vs)`. -/
theorem get_viral_of_row (r : Row) (ids : List String) (ms vs : Row) (v : String) (val : Value)
    (hid : v ∉ ids) (hms : v ∉ ms.map (·.1)) (hl : vs.lookup v = some val) :
    Row.get (r.proj ids ++ (ms ++ vs)) v = val := by
  rw [get_proj_append_not_mem r ids (ms ++ vs) v hid]
  unfold Row.get
  rw [lookup_append_not_key v ms vs hms, hl]
  rfl

theorem viralOf_names_nodup (s : VSpec) (d : DS) (hn : s.names.Nodup) : ((viralOf s d).map (·.1)).Nodup :=
  (List.filter_sublist.map _).nodup hn

/-- **row-preserving operators**: every result datapoint comes from the operand datapoint with the same identifiers,
and its viral value is the rule executed dataset-wide (`wide`: the datapoint's own value mapped by an enumerated
rule; the aggregate of the WHOLE viral column for an aggregate rule). -/
theorem vMapm_viral (s : VSpec) (body : SExpr) (out : Option String) (x res : DS)
    (h : vMapm s body out x = .ok res) (hn : s.names.Nodup) (p : String × Rule) (hp : p ∈ viralOf s x)
    (hid : p.1 ∉ x.ids) (hout : p.1 ∉ (plainMeas s x).map (outName (plainMeas s x) out)) :
    ∀ r' ∈ res.rows, ∃ r ∈ x.rows, r'.key x.ids = r.key x.ids ∧
      wide p.2 (column x p.1) (r.get p.1) = .ok (r'.get p.1) := by
  unfold vMapm at h
  obtain ⟨rows, hr, h⟩ := (bindOk _ _ _).1 h
  simp only [pure, Except.pure, Except.ok.injEq] at h
  subst h
  intro r' hr'
  obtain ⟨r, hrm, hf⟩ := (mapRows_mem _ _ _ hr r').1 hr'
  refine ⟨r, hrm, vMapmRow_key s x body out r r' hf, ?_⟩
  unfold vMapmRow at hf
  obtain ⟨ms, hms, hf⟩ := (bindOk _ _ _).1 hf
  obtain ⟨vs, hvs, hf⟩ := (bindOk _ _ _).1 hf
  simp only [pure, Except.pure, Except.ok.injEq, Option.some.injEq] at hf
  subst hf
  unfold wideVals at hvs
  obtain ⟨val, hval, hl⟩ := mapM_named_lookup (fun p => wide p.2 (column x p.1) (r.get p.1)) (·.1) _ vs hvs
    (viralOf_names_nodup s x hn) p hp
  have hk : ms.map (·.1) = (plainMeas s x).map (outName (plainMeas s x) out) :=
    mapM_named_keys (fun m => evalS r (r.get m) .null body) (outName (plainMeas s x) out) _ ms hms
  rw [get_viral_of_row r x.ids ms vs p.1 val hid (hk ▸ hout) hl]
  exact hval

theorem partner_some (small : DS) (rb rs : Row) (h : partner small rb = some rs) :
    rs ∈ small.rows ∧ rs.key small.ids = rb.key small.ids := by
  unfold partner at h
  exact ⟨List.mem_of_find?_eq_some h, by simpa using List.find?_some h⟩

/-- **dataset ∘ dataset operators**: every result datapoint pairs a datapoint `l` of the left operand with a datapoint
`r` of the right operand that agree on the identifiers of the operand with fewer identifiers, and its viral value is
`pairVal`: the rule applied to the two values (`pair`) when both operands carry the attribute, else the one value. -/
theorem vZip_viral (s : VSpec) (body : SExpr) (out : Option String) (x y res : DS)
    (h : vZip s body out x y = .ok res) (hn : s.names.Nodup) (p : String × Rule) (hp : p ∈ eitherViral s x y)
    (hid : p.1 ∉ res.ids)
    (hout : p.1 ∉ ((plainMeas s x).filter (plainMeas s y).contains).map
                     (outName ((plainMeas s x).filter (plainMeas s y).contains) out)) :
    ∀ r' ∈ res.rows, ∃ l ∈ x.rows, ∃ r ∈ y.rows,
      (l.key y.ids = r.key y.ids ∨ l.key x.ids = r.key x.ids) ∧ pairVal x y l r p = .ok (r'.get p.1) := by
  have hnn : ((eitherViral s x y).map (·.1)).Nodup := (List.filter_sublist.map _).nodup hn
  unfold vZip at h
  split at h
  · obtain ⟨rows, hr, h⟩ := (bindOk _ _ _).1 h
    simp only [pure, Except.pure, Except.ok.injEq] at h
    subst h
    intro r' hr'
    obtain ⟨rb, hrm, hf⟩ := (mapRows_mem _ _ _ hr r').1 hr'
    unfold vZipRow at hf
    simp only [if_true] at hf
    cases hpa : partner y rb with
    | none => simp [hpa] at hf
    | some rs =>
      simp only [hpa] at hf
      obtain ⟨vals, hvals, hf⟩ := (bindOk _ _ _).1 hf
      obtain ⟨vs, hvs, hf⟩ := (bindOk _ _ _).1 hf
      simp only [pure, Except.pure, Except.ok.injEq, Option.some.injEq] at hf
      subst hf
      obtain ⟨hrs, hks⟩ := partner_some y rb rs hpa
      obtain ⟨val, hval, hl⟩ := mapM_named_lookup (pairVal x y rb rs) (·.1) _ vs hvs hnn p hp
      have hk : vals.map (·.1) = _ := mapM_named_keys (fun m => evalS [] (rb.get m) (rs.get m) body) _ _ vals hvals
      refine ⟨rb, hrm, rs, hrs, Or.inl hks.symm, ?_⟩
      rw [get_viral_of_row rb x.ids vals vs p.1 val hid (hk ▸ hout) hl]
      exact hval
  · split at h
    · obtain ⟨rows, hr, h⟩ := (bindOk _ _ _).1 h
      simp only [pure, Except.pure, Except.ok.injEq] at h
      subst h
      intro r' hr'
      obtain ⟨rb, hrm, hf⟩ := (mapRows_mem _ _ _ hr r').1 hr'
      unfold vZipRow at hf
      simp only [Bool.false_eq_true, if_false] at hf
      cases hpa : partner x rb with
      | none => simp [hpa] at hf
      | some rs =>
        simp only [hpa] at hf
        obtain ⟨vals, hvals, hf⟩ := (bindOk _ _ _).1 hf
        obtain ⟨vs, hvs, hf⟩ := (bindOk _ _ _).1 hf
        simp only [pure, Except.pure, Except.ok.injEq, Option.some.injEq] at hf
        subst hf
        obtain ⟨hrs, hks⟩ := partner_some x rb rs hpa
        obtain ⟨val, hval, hl⟩ := mapM_named_lookup (pairVal x y rs rb) (·.1) _ vs hvs hnn p hp
        have hk : vals.map (·.1) = _ := mapM_named_keys (fun m => evalS [] (rs.get m) (rb.get m) body) _ _ vals hvals
        refine ⟨rs, hrs, rb, hrm, Or.inr hks, ?_⟩
        rw [get_viral_of_row rb y.ids vals vs p.1 val hid (hk ▸ hout) hl]
        exact hval
    · cases h

/-- **aggregation**: the viral value of every group is the rule applied to the viral values of the datapoints of
the group (`group`: the left fold of an enumerated rule in list order / the native aggregate). -/
theorem vAggr_viral (s : VSpec) (spec : AggSpec) (x res : DS) (h : vAggr s spec x = .ok res) (hn : s.names.Nodup)
    (p : String × Rule) (hp : p ∈ viralOf s x) (hout : ∀ base, aggr spec { x with meas := plainMeas s x } = .ok base → p.1 ∉ base.comps) :
    ∀ r' ∈ res.rows,
      group p.2 ((members res.ids x.rows (r'.key res.ids)).map (·.get p.1)) = .ok (r'.get p.1) := by
  unfold vAggr at h
  split at h
  · cases h
  · obtain ⟨base, hb, h⟩ := (bindOk _ _ _).1 h
    obtain ⟨rows, hr, h⟩ := (bindOk _ _ _).1 h
    simp only [pure, Except.pure, Except.ok.injEq] at h
    subst h
    intro r' hr'
    obtain ⟨kr, _, hf⟩ := (mapRows_mem _ _ _ hr r').1 hr'
    have hkey := vAggrRow_key _ base.ids base.comps x.rows kr r' (fun i hi => List.mem_append_left _ hi) hf
    unfold vAggrRow at hf
    obtain ⟨g, hg, hf⟩ := (bindOk _ _ _).1 hf
    simp only [pure, Except.pure, Except.ok.injEq, Option.some.injEq] at hf
    subst hf
    unfold groupVals at hg
    obtain ⟨val, hval, hl⟩ := mapM_named_lookup
      (fun p => group p.2 ((members base.ids x.rows (kr.key base.ids)).map (·.get p.1))) (·.1) _ g hg
      (viralOf_names_nodup s x hn) p hp
    show group p.2 ((members base.ids x.rows (Row.key (kr.proj base.comps ++ g) base.ids)).map (·.get p.1)) = _
    rw [hkey, get_proj_append_not_mem kr base.comps g p.1 (hout base hb)]
    unfold Row.get
    rw [hl]
    exact hval

/-! ### analytic partitions -/

theorem vPartRow_key (vs : VSpec) (ids ps : List String) (rows : List Row) (r r' : Row)
    (h : vPartRow vs ids ps rows r = .ok (some r')) : r'.key ids = r.key ids := by
  unfold vPartRow at h
  obtain ⟨g, _, h⟩ := (bindOk _ _ _).1 h
  simp only [pure, Except.pure, Except.ok.injEq, Option.some.injEq] at h
  subst h
  exact key_proj_append r ids ids g (fun i hi => hi)

/-- plug-in lemma for `C10.evalD_WF`. -/
theorem vPartition_WF (s : VSpec) (ps : List String) (x r : DS) (w : x.WF) (h : vPartition s ps x = .ok r) : r.WF := by
  unfold vPartition at h
  split at h
  · cases h
  · obtain ⟨rows, hr, h⟩ := (bindOk _ _ _).1 h
    simp only [pure, Except.pure, Except.ok.injEq] at h
    subst h
    exact mapRows_WF _ x.ids x.ids x.rows rows hr (fun r r' _ hf => vPartRow_key _ x.ids ps x.rows r r' hf) w

/-- plug-in lemma for `C33.evalD_perm`, for ORDER-FREE rules (see `vAggr_perm`). -/
theorem vPartition_perm (s : VSpec) (hs : ∀ p ∈ s, OrderFree p.2) (ps : List String) (x y : DS) (_ : x.WF)
    (h : DSEquiv x y) : Rel2 DSEquiv (vPartition s ps x) (vPartition s ps y) := by
  unfold vPartition
  rw [← h.1]
  split
  · exact Rel2.error _ _
  · have hf : vPartRow (viralOf s x) x.ids ps x.rows = vPartRow (viralOf s y) x.ids ps y.rows := by
      funext r
      unfold vPartRow
      rw [← viralOf_congr s x y h.2.1,
        groupVals_perm (viralOf s x) (fun p hp => hs p (List.mem_filter.1 hp).1) (members_perm ps h.2.2 (r.key ps))]
    rw [hf]
    refine Rel2.bind (P := Perm) (mapRows_perm _ h.2.2) ?_
    intro rows rows' hrr
    exact Rel2.pure ⟨rfl, by rw [viralOf_congr s x y h.2.1], hrr⟩

/-- **analytic invocations**: every datapoint is kept, and its viral value is the rule applied to the viral values of
exactly the datapoints of its partition. -/
theorem vPartition_viral (s : VSpec) (ps : List String) (x res : DS) (h : vPartition s ps x = .ok res) (hn : s.names.Nodup)
    (p : String × Rule) (hp : p ∈ viralOf s x) (hid : p.1 ∉ x.ids) :
    ∀ r' ∈ res.rows, ∃ r ∈ x.rows, r'.key x.ids = r.key x.ids ∧
      group p.2 ((members ps x.rows (r.key ps)).map (·.get p.1)) = .ok (r'.get p.1) := by
  unfold vPartition at h
  split at h
  · cases h
  · obtain ⟨rows, hr, h⟩ := (bindOk _ _ _).1 h
    simp only [pure, Except.pure, Except.ok.injEq] at h
    subst h
    intro r' hr'
    obtain ⟨r, hrm, hf⟩ := (mapRows_mem _ _ _ hr r').1 hr'
    refine ⟨r, hrm, vPartRow_key _ x.ids ps x.rows r r' hf, ?_⟩
    unfold vPartRow at hf
    obtain ⟨g, hg, hf⟩ := (bindOk _ _ _).1 hf
    simp only [pure, Except.pure, Except.ok.injEq, Option.some.injEq] at hf
    subst hf
    unfold groupVals at hg
    obtain ⟨val, hval, hl⟩ := mapM_named_lookup
      (fun p => group p.2 ((members ps x.rows (r.key ps)).map (·.get p.1))) (·.1) _ g hg
      (viralOf_names_nodup s x hn) p hp
    rw [get_proj_append_not_mem r x.ids g p.1 hid]
    unfold Row.get
    rw [hl]
    exact hval

end VtlModel.Sem

import VtlModel.Sem.Codec
import VtlModel.Sem.AggrCodec
import VtlModel.Sem.Viral
/-! Protocol of the viral-propagation model.

Fragments (`ViralPropagation/sql.py` executed directly in DuckDB on the other side):
* `(pair <rule> <value> <value>)`            → `(ok <value>)`
* `(group <rule> (<value>…))`                → `(ok <value>)`
* `(wide <rule> (<value>…))`                 → `(okl (<value>…))`  the value of every row of the column
* `(reduce <rule> (<value>…))`               → `(ok <value>)`      `vp_reduce_refs`

`<rule> ::= (enum (<clause>…) <optstr>) | (agg min|max|sum|avg)`, `<clause> ::= (when (<optstr>…) <optstr>)`,
`<optstr> ::= n | (s "…")`.

Scripts: `(vprog (<name> <rule>)…) (<datasets>) ((<result name> <vexpr>)…))` — statements evaluated in order,
every result added to the environment; the answer is the LAST statement's dataset (or the first error).
`<vexpr>` = the clause / set-operator forms of `Sem/Codec` over `<vexpr>` operands, plus
`(vmapm <vexpr> <sexpr> <out>)`, `(vzip <vexpr> <vexpr> <sexpr> <out>)`, `(vaggr <aggregation spec> <vexpr>)`,
`(vpart <vexpr> (<partition identifier>…))` (analytic invocation: identifiers + viral attributes only).
Convention owned HERE: `keep` keeps the viral attributes although the script does not name them
(`(keep d ns)` decodes to `.keep d (ns ++ viral names)`); datasets list their viral attributes among `meas`.

Semantic analysis: `(analyse (<ruled name>…) (<vshape>…))` → `(ok)` | `(norule <statement index> <name>…)`. -/
namespace VtlModel.Sem
open VtlModel

def decOptStr : Sexp → Option (Option String)
  | .atom "n" => some none
  | .list [.atom "s", .str s] => some (some s)
  | _ => none

def decClause : Sexp → Option VClause
  | .list [.atom "when", .list vs, r] => do pure { values := (← vs.mapM decOptStr), result := (← decOptStr r) }
  | _ => none

def decAggFn : String → Option AggFn
  | "min" => some .min | "max" => some .max | "sum" => some .sum | "avg" => some .avg
  | _ => none

def decRule : Sexp → Option Rule
  | .list [.atom "enum", .list cls, d] => do pure (.enum (← cls.mapM decClause) (← decOptStr d))
  | .list [.atom "agg", .atom f] => (decAggFn f).map .agg
  | _ => none

def decVSpec : Sexp → Option VSpec
  | .list ps => ps.mapM (fun p => match p with
      | .list [n, r] => do pure ((← name? n), (← decRule r))
      | _ => none)
  | _ => none

def decPairs {α : Type} (f : Sexp → Option α) (ps : List Sexp) : Option (List (String × α)) :=
  ps.mapM (fun p => match p with
    | .list [a, b] => do pure ((← name? a), (← f b))
    | _ => none)

def decViral (s : VSpec) : Nat → Sexp → Option DExpr
  | 0, _ => none
  | _+1, .list [.atom "ds", n] => (name? n).map .ds
  | k+1, .list [.atom "vmapm", d, body, out] => do
      pure (.app1 (vMapm s (← decS (depth body + 1) body) (← decOut out)) (← decViral s k d))
  | k+1, .list [.atom "vzip", a, b, body, out] => do
      pure (.app2 (vZip s (← decS (depth body + 1) body) (← decOut out)) (← decViral s k a) (← decViral s k b))
  | k+1, .list [.atom "vaggr", sp, d] => do
      pure (.app1 (vAggr s (← decSpec sp)) (← decViral s k d))
  | k+1, .list [.atom "vpart", d, ps] => do pure (.app1 (vPartition s (← decNames ps)) (← decViral s k d))
  | k+1, .list [.atom "filter", d, c] => do pure (.filter (← decViral s k d) (← decS (depth c + 1) c))
  | k+1, .list [.atom "calc", d, .list items] => do
      let its ← items.mapM (fun it => match it with
        | .list [n, e] => do pure ((← name? n), (← decS (depth e + 1) e))
        | _ => none)
      pure (.calc (← decViral s k d) its)
  | k+1, .list [.atom "keep", d, ns] => do pure (.keep (← decViral s k d) ((← decNames ns) ++ s.names))
  | k+1, .list [.atom "drop", d, ns] => do pure (.drop (← decViral s k d) (← decNames ns))
  | k+1, .list [.atom "rename", d, .list ps] => do pure (.rename (← decViral s k d) (← decPairs name? ps))
  | k+1, .list [.atom "sub", d, .list ps] => do pure (.sub (← decViral s k d) (← decPairs decValue ps))
  | k+1, .list [.atom "union", a, b] => do pure (.union (← decViral s k a) (← decViral s k b))
  | k+1, .list [.atom "intersect", a, b] => do pure (.intersect (← decViral s k a) (← decViral s k b))
  | k+1, .list [.atom "setdiff", a, b] => do pure (.setdiff (← decViral s k a) (← decViral s k b))
  | k+1, .list [.atom "symdiff", a, b] => do pure (.symdiff (← decViral s k a) (← decViral s k b))
  | _+1, _ => none

def decStmts (s : VSpec) (xs : List Sexp) : Option (List (String × DExpr)) :=
  xs.mapM (fun p => match p with
    | .list [n, e] => do pure ((← name? n), (← decViral s (depth e + 1) e))
    | _ => none)

/-- statements in order; every result is bound in the environment for the following ones. -/
def runStmts (env : Env) : List (String × DExpr) → Option DS → R (Option DS)
  | [], last => .ok last
  | (n, e) :: rest, _ =>
      match evalD env e with
      | .ok d => runStmts ((n, d) :: env) rest (some d)
      | .error er => .error er

def decVShape : Nat → Sexp → Option VShape
  | 0, _ => none
  | _+1, .list [.atom "src", ns] => (decNames ns).map .src
  | k+1, .list [.atom "same", a] => (decVShape k a).map .same
  | k+1, .list [.atom "first", a, b] => do pure (.first (← decVShape k a) (← decVShape k b))
  | k+1, .list [.atom "both", a, b] => do pure (.both (← decVShape k a) (← decVShape k b))
  | k+1, .list [.atom "drop", a, ns] => do pure (.drop (← decVShape k a) (← decNames ns))
  | k+1, .list [.atom "calcv", a, n] => do pure (.calcv (← decVShape k a) (← name? n))
  | k+1, .list [.atom "ren", a, o, n] => do pure (.ren (← decVShape k a) (← name? o) (← name? n))
  | _+1, _ => none

def encR (r : R Value) : Sexp :=
  match r with
  | .ok v => .list [.atom "ok", encValue v]
  | .error e => encErr e

def handleViral (req : Sexp) : Sexp :=
  match req with
  | .list [.atom "pair", r, a, b] =>
      match decRule r, decValue a, decValue b with
      | some rule, some x, some y => encR (pair rule x y)
      | _, _, _ => .list [.atom "bad-request"]
  | .list [.atom "group", r, .list vs] =>
      match decRule r, vs.mapM decValue with
      | some rule, some xs => encR (group rule xs)
      | _, _ => .list [.atom "bad-request"]
  | .list [.atom "reduce", r, .list vs] =>
      match decRule r, vs.mapM decValue with
      | some rule, some xs => encR (reduceRefs rule xs)
      | _, _ => .list [.atom "bad-request"]
  | .list [.atom "wide", r, .list vs] =>
      match decRule r, vs.mapM decValue with
      | some rule, some xs =>
          match xs.mapM (wide rule xs) with
          | .ok ys => .list [.atom "okl", .list (ys.map encValue)]
          | .error e => encErr e
      | _, _ => .list [.atom "bad-request"]
  | .list [.atom "vprog", sp, .list dss, .list stmts] =>
      match decVSpec sp with
      | none => .list [.atom "bad-request"]
      | some s =>
        match dss.mapM decDS, decStmts s stmts with
        | some env, some prog =>
            match runStmts env prog none with
            | .ok (some d) => encDS d
            | .ok none => .list [.atom "bad-request"]
            | .error er => encErr er
        | _, _ => .list [.atom "bad-request"]
  | .list [.atom "analyse", ruled, .list shapes] =>
      match decNames ruled, shapes.mapM (fun sh => decVShape (depth sh + 1) sh) with
      | some rs, some shs =>
          match analyseAll rs shs 0 with
          | .ok _ => .list [.atom "ok"]
          | .error (i, .noRule ns) => .list (.atom "norule" :: .atom (toString i) :: ns.map .str)
      | _, _ => .list [.atom "bad-request"]
  | _ => .list [.atom "bad-request"]

def handleLineViral (line : String) : String :=
  match Sexp.parse line with
  | some r => (handleViral r).toString
  | none => "(bad-request)"

end VtlModel.Sem

import VtlModel.Sem.Codec
import VtlModel.Sem.Aggr
/-! Protocol of the aggregation model: `(eval (<datasets>) <aexpr>)` where
`<aexpr> ::= (aggr <spec> <aexpr>) | <dexpr of Sem/Codec>` and
`<spec> ::= (spec <grouping> <items> <having>)`,
`<grouping> ::= (by n…) | (except n…) | none | (all <time identifier>)` (the last: `group all time_agg("A")`),
`<items> ::= (each <op>) | (list (item <out> <op> <arg>)…)`, `<arg> ::= (expr <sexpr>) | any | all`,
`<having> ::= _ | (having ((item <name> <op> <arg>)…) <sexpr>)`.
In a clause (`list`, `having`) a `count` item carries the engine's `NULLIF(count, 0)`; this is fixed here, the
harness cannot choose it.  The answer is `encDS` of the result followed by `(squared n…)`: the output measures
whose model value is the square of the VTL value (stddev). -/
namespace VtlModel.Sem
open VtlModel

def decAggOp : String → Option AggOp
  | "sum" => some .sum | "avg" => some .avg | "count" => some .count | "min" => some .min | "max" => some .max
  | "median" => some .median | "stddev_pop" => some .stddevPop | "stddev_samp" => some .stddevSamp
  | "var_pop" => some .varPop | "var_samp" => some .varSamp
  | _ => none

def decAggArg : Sexp → Option AggArg
  | .atom "any" => some .anyMeasure
  | .atom "all" => some .allMeasures
  | .list [.atom "expr", e] => (decS (depth e + 1) e).map .expr
  | _ => none

def decItem : Sexp → Option AggItem
  | .list [.atom "item", n, .atom op, a] => do
      let o ← decAggOp op
      pure { out := (← name? n), op := o, arg := (← decAggArg a), nz := o == .count }
  | _ => none

def decGrouping : Sexp → Option Grouping
  | .atom "none" => some .none
  | .list (.atom "by" :: ns) => (ns.mapM name?).map .by
  | .list (.atom "except" :: ns) => (ns.mapM name?).map .except
  | .list [.atom "all", n] => (name? n).map .all
  | _ => none

def decItems : Sexp → Option Items
  | .list [.atom "each", .atom op] => (decAggOp op).map .each
  | .list (.atom "list" :: its) => (its.mapM decItem).map .list
  | _ => none

def decHaving : Sexp → Option (Option (List AggItem × SExpr))
  | .atom "_" => some none
  | .list [.atom "having", .list its, c] => do
      pure (some ((← its.mapM decItem), (← decS (depth c + 1) c)))
  | _ => none

def decSpec : Sexp → Option AggSpec
  | .list [.atom "spec", g, its, h] => do
      pure { grouping := (← decGrouping g), items := (← decItems its), having := (← decHaving h) }
  | _ => none

/-- an aggregation applied to an expression: `.app1 (aggrT spec) d`; also returns the spec and operand of the
outermost aggregation (for the `squared` tag). -/
def decA : Nat → Sexp → Option (DExpr × Option (AggSpec × DExpr))
  | 0, _ => none
  | k+1, .list [.atom "aggr", s, d] => do
      let spec ← decSpec s
      let (de, _) ← decA k d
      pure (.app1 (aggrT spec) de, some (spec, de))
  | _+1, e => (decD (depth e + 1) e).map (fun d => (d, none))

def handleA (req : Sexp) : Sexp :=
  match req with
  | .list [.atom "eval", .list dss, e] =>
      match dss.mapM decDS, decA (depth e + 1) e with
      | some env, some (de, top) =>
          match evalD env de with
          | .ok d =>
              let sq : List String := match top with
                | some (spec, operand) => (match evalD env operand with
                                           | .ok x => squaredOuts spec x
                                           | .error _ => [])
                | none => []
              match encDS d with
              | .list xs => .list (xs ++ [.list (.atom "squared" :: sq.map .str)])
              | s => s
          | .error er => encErr er
      | _, _ => .list [.atom "bad-request"]
  | _ => .list [.atom "bad-request"]

def handleLineA (line : String) : String :=
  match Sexp.parse line with
  | some r => (handleA r).toString
  | none => "(bad-request)"

end VtlModel.Sem

import VtlModel.Sem.Join
import VtlModel.Sem.Perm
/-! Helper lemmas for the join model: component lookup in combined / padded rows, membership in the
row sets of the binary join, unique keys (`join2_WF`, `joinFold_WF`, `joinN_WF`) and invariance under
permutation of the operands' rows (`join2_perm`, `joinFold_perm`, `joinN_perm`). -/
namespace VtlModel.Sem
open List

/-! ### small facts -/

theorem key_eq_iff (r r' : Row) (ids : List String) :
    r.key ids = r'.key ids ↔ ∀ i ∈ ids, r.get i = r'.get i := List.map_inj_left

theorem subset_iff (xs ys : List String) : subset xs ys = true ↔ ∀ i ∈ xs, i ∈ ys := by
  simp [subset]

theorem inj_of_nodup_map {α β : Type} (f : α → β) : ∀ (l : List α), (l.map f).Nodup →
    ∀ a ∈ l, ∀ b ∈ l, f a = f b → a = b := by
  intro l
  induction l with
  | nil => intro _ a ha; cases ha
  | cons c l ih =>
    intro hn a ha b hb hab
    simp only [List.map_cons, List.nodup_cons] at hn
    rcases List.mem_cons.1 ha with rfl | ha' <;> rcases List.mem_cons.1 hb with rfl | hb'
    · rfl
    · exact absurd (hab ▸ List.mem_map.2 ⟨b, hb', rfl⟩) hn.1
    · exact absurd (hab ▸ List.mem_map.2 ⟨a, ha', rfl⟩) hn.1
    · exact ih hn.2 a ha' b hb' hab

/-- in a dataset with unique keys a datapoint is determined by its key. -/
theorem WF_inj (x : DS) (w : x.WF) (a b : Row) (ha : a ∈ x.rows) (hb : b ∈ x.rows)
    (h : a.key x.ids = b.key x.ids) : a = b := by
  unfold DS.WF DS.keys at w
  exact inj_of_nodup_map (fun r => Row.key r x.ids) x.rows w a ha b hb h

theorem WF_pairwise (x : DS) (w : x.WF) : Pairwise (fun a b => a.key x.ids ≠ b.key x.ids) x.rows := by
  unfold DS.WF DS.keys at w
  exact List.pairwise_map.1 w

theorem nodup_keys_of_pairwise (ids : List String) (rows : List Row)
    (h : Pairwise (fun a b => a.key ids ≠ b.key ids) rows) : (rows.map (·.key ids)).Nodup :=
  List.pairwise_map.2 h

/-! ### lookup in combined and padded rows -/

theorem get_nullRow (ns : List String) (n : String) : Row.get (nullRow ns) n = .null := by
  unfold Row.get nullRow
  by_cases h : n ∈ ns
  · have := lookup_map_pair (fun _ => Value.null) ns [] n h
    simp only [List.append_nil] at this
    rw [this]; rfl
  · have := lookup_map_pair_not_mem (fun _ => Value.null) ns [] n h
    simp only [List.append_nil] at this
    rw [this]; rfl

theorem get_combine_left (xc yr : List String) (a b : Row) (c : String) (h : c ∈ xc) :
    (combine xc yr a b).get c = a.get c := get_proj_append a xc _ c h

theorem get_combine_right (xc yr : List String) (a b : Row) (c : String) (h1 : c ∉ xc) (h2 : c ∈ yr) :
    (combine xc yr a b).get c = b.get c := by
  unfold combine
  rw [get_proj_append_not_mem a xc _ c h1]
  exact get_proj b yr c h2

theorem get_padRight_left (xc yr : List String) (a : Row) (c : String) (h : c ∈ xc) :
    (padRight xc yr a).get c = a.get c := get_proj_append a xc _ c h

theorem get_padRight_right (xc yr : List String) (a : Row) (c : String) (h1 : c ∉ xc) :
    (padRight xc yr a).get c = .null := by
  unfold padRight
  rw [get_proj_append_not_mem a xc _ c h1]
  exact get_nullRow yr c

theorem get_padLeft_left (keys xc yr : List String) (b : Row) (c : String) (h : c ∈ xc) :
    (padLeft keys xc yr b).get c = if keys.contains c then b.get c else .null := by
  show (List.lookup c (xc.map (fun c => (c, if keys.contains c then Row.get b c else Value.null)) ++ b.proj yr)).getD Value.null = _
  rw [lookup_map_pair (fun c => if keys.contains c then Row.get b c else Value.null) xc _ c h]
  rfl

theorem get_padLeft_right (keys xc yr : List String) (b : Row) (c : String) (h1 : c ∉ xc) (h2 : c ∈ yr) :
    (padLeft keys xc yr b).get c = b.get c := by
  show (List.lookup c (xc.map (fun c => (c, if keys.contains c then Row.get b c else Value.null)) ++ b.proj yr)).getD Value.null = _
  rw [lookup_map_pair_not_mem (fun c => if keys.contains c then Row.get b c else Value.null) xc _ c h1]
  exact get_proj b yr c h2

/-! ### matching -/

theorem matchK_iff (mk keys : List String) (a b : Row) :
    matchK mk keys a b = true ↔ (∀ k ∈ keys, a.get k = b.get k) ∧ ∀ k ∈ mk, a.get k ≠ .null := by
  simp [matchK, List.all_eq_true]

/-! ### membership in the row sets -/

theorem mem_innerRows (mk keys : List String) (x y : DS) (r : Row) :
    r ∈ innerRows mk keys x y ↔
      ∃ a ∈ x.rows, ∃ b ∈ y.rows, matchK mk keys a b = true ∧ r = combine x.comps (rest keys y) a b := by
  simp only [innerRows, partners, List.mem_flatMap, List.mem_map, List.mem_filter]
  constructor
  · rintro ⟨a, ha, b, ⟨hb, hm⟩, rfl⟩; exact ⟨a, ha, b, hb, hm, rfl⟩
  · rintro ⟨a, ha, b, hb, hm, rfl⟩; exact ⟨a, ha, b, ⟨hb, hm⟩, rfl⟩

theorem mem_unmatchedL (mk keys : List String) (x y : DS) (a : Row) :
    a ∈ unmatchedL mk keys x y ↔ a ∈ x.rows ∧ ∀ b ∈ y.rows, matchK mk keys a b = false := by
  simp [unmatchedL, List.mem_filter]

theorem mem_unmatchedR (mk keys : List String) (x y : DS) (b : Row) :
    b ∈ unmatchedR mk keys x y ↔ b ∈ y.rows ∧ ∀ a ∈ x.rows, matchK mk keys a b = false := by
  simp [unmatchedR, List.mem_filter]

/-- every row of a left join carries all components of some row of the left operand. -/
theorem leftRows_from_left (mk keys : List String) (x y : DS) (r : Row) (h : r ∈ leftRows mk keys x y) :
    ∃ a ∈ x.rows, ∀ c ∈ x.comps, r.get c = a.get c := by
  unfold leftRows at h
  rcases List.mem_append.1 h with h | h
  · obtain ⟨a, ha, b, _, _, rfl⟩ := (mem_innerRows mk keys x y r).1 h
    exact ⟨a, ha, fun c hc => get_combine_left _ _ a b c hc⟩
  · obtain ⟨a, ha, rfl⟩ := List.mem_map.1 h
    exact ⟨a, ((mem_unmatchedL mk keys x y a).1 ha).1, fun c hc => get_padRight_left _ _ a c hc⟩

/-! ### the conditions under which `join2` is defined -/

theorem join2_ok {kind : JoinKind} {keys : List String} {x y r : DS} (h : join2 kind keys x y = .ok r) :
    subset keys x.comps = true ∧ subset keys y.comps = true ∧ subset keys y.ids = true ∧
    shareOnlyKeys keys x y = true ∧ kindOk kind keys x y = true ∧
    r = { ids := x.ids ++ y.ids.filter (fun c => !keys.contains c),
          meas := x.meas ++ y.meas.filter (fun c => !keys.contains c),
          rows := join2Rows kind (keys.filter x.meas.contains) keys x y } := by
  unfold join2 at h
  by_cases h1 : (subset keys x.comps && subset keys y.comps) = true
  · by_cases h2 : subset keys y.ids = true
    · by_cases h3 : shareOnlyKeys keys x y = true
      · by_cases h4 : kindOk kind keys x y = true
        · simp only [h1, h2, h3, h4, Bool.not_true, Bool.false_eq_true, if_false, Except.ok.injEq] at h
          simp only [Bool.and_eq_true] at h1
          exact ⟨h1.1, h1.2, h2, h3, h4, h.symm⟩
        · simp [h1, h2, h3, h4] at h
      · simp [h1, h2, h3] at h
    · simp [h1, h2] at h
  · simp [h1] at h

theorem shareOnlyKeys_iff (keys : List String) (x y : DS) :
    shareOnlyKeys keys x y = true ↔ ∀ c ∈ x.comps, c ∈ y.comps → c ∈ keys := by
  simp only [shareOnlyKeys, List.all_eq_true, Bool.or_eq_true, Bool.not_eq_true', List.contains_iff_mem]
  constructor
  · intro h c hc hy
    rcases h c hc with h' | h'
    · have : y.comps.contains c = true := List.contains_iff_mem.2 hy
      rw [this] at h'; cases h'
    · exact h'
  · intro h c hc
    by_cases hy : c ∈ y.comps
    · exact Or.inr (h c hc hy)
    · left
      cases hcc : y.comps.contains c with
      | false => rfl
      | true => exact absurd (List.contains_iff_mem.1 hcc) hy

/-! ### unique keys -/

section WF
variable (mk keys : List String) (x y : DS)

/-- the identifiers of the result. -/
abbrev resIds : List String := x.ids ++ y.ids.filter (fun c => !keys.contains c)

/-- hypotheses shared by the uniqueness lemmas. -/
structure StepOk : Prop where
  kx : ∀ k ∈ keys, k ∈ x.comps
  ky : ∀ k ∈ keys, k ∈ y.ids
  share : ∀ c ∈ x.comps, c ∈ y.comps → c ∈ keys

variable {mk keys x y}

theorem x_ids_comps (i : String) (h : i ∈ x.ids) : i ∈ x.comps := List.mem_append_left _ h
theorem y_ids_comps (i : String) (h : i ∈ y.ids) : i ∈ y.comps := List.mem_append_left _ h

theorem mem_rest (c : String) : c ∈ rest keys y ↔ c ∈ y.comps ∧ c ∉ keys := by
  simp [rest, List.mem_filter]

/-- two matched pairs with the same result key have the same right row key. -/
theorem right_key_of_combine (ok : StepOk keys x y) (a b b' : Row)
    (hm : matchK mk keys a b = true) (hm' : matchK mk keys a b' = true)
    (h : (combine x.comps (rest keys y) a b).key (resIds keys x y) = (combine x.comps (rest keys y) a b').key (resIds keys x y)) :
    b.key y.ids = b'.key y.ids := by
  rw [key_eq_iff] at h ⊢
  intro i hi
  by_cases hk : i ∈ keys
  · have h1 := ((matchK_iff mk keys a b).1 hm).1 i hk
    have h2 := ((matchK_iff mk keys a b').1 hm').1 i hk
    rw [← h1, ← h2]
  · have hx : i ∉ x.comps := fun hx => hk (ok.share i hx (y_ids_comps i hi))
    have hr : i ∈ rest keys y := (mem_rest i).2 ⟨y_ids_comps i hi, hk⟩
    have hmem : i ∈ resIds keys x y := by
      apply List.mem_append_right
      apply List.mem_filter.2
      refine ⟨hi, ?_⟩
      cases hc : keys.contains i with
      | false => rfl
      | true => exact absurd (List.contains_iff_mem.1 hc) hk
    have := h i hmem
    rwa [get_combine_right _ _ a b i hx hr, get_combine_right _ _ a b' i hx hr] at this

theorem left_key_of_eq (r r' a a' : Row) (hr : ∀ c ∈ x.comps, r.get c = a.get c) (hr' : ∀ c ∈ x.comps, r'.get c = a'.get c)
    (h : r.key (resIds keys x y) = r'.key (resIds keys x y)) : a.key x.ids = a'.key x.ids := by
  rw [key_eq_iff] at h ⊢
  intro i hi
  have := h i (List.mem_append_left _ hi)
  rwa [hr i (x_ids_comps i hi), hr' i (x_ids_comps i hi)] at this

theorem innerRows_pairwise (ok : StepOk keys x y) (wx : x.WF) (wy : y.WF) :
    Pairwise (fun r r' => r.key (resIds keys x y) ≠ r'.key (resIds keys x y)) (innerRows mk keys x y) := by
  unfold innerRows
  rw [List.pairwise_flatMap]
  constructor
  · intro a _
    rw [List.pairwise_map]
    unfold partners
    have hp := (WF_pairwise y wy).filter (matchK mk keys a)
    refine hp.imp_of_mem ?_
    intro b b' hb hb' hne heq
    exact hne (right_key_of_combine ok a b b' (List.mem_filter.1 hb).2 (List.mem_filter.1 hb').2 heq)
  · refine (WF_pairwise x wx).imp ?_
    intro a a' hne r hr r' hr' heq
    obtain ⟨b, _, rfl⟩ := List.mem_map.1 hr
    obtain ⟨b', _, rfl⟩ := List.mem_map.1 hr'
    exact hne (left_key_of_eq _ _ a a' (fun c hc => get_combine_left _ _ a b c hc)
      (fun c hc => get_combine_left _ _ a' b' c hc) heq)

theorem leftRows_pairwise (ok : StepOk keys x y) (wx : x.WF) (wy : y.WF) :
    Pairwise (fun r r' => r.key (resIds keys x y) ≠ r'.key (resIds keys x y)) (leftRows mk keys x y) := by
  unfold leftRows
  rw [List.pairwise_append]
  refine ⟨innerRows_pairwise ok wx wy, ?_, ?_⟩
  · rw [List.pairwise_map]
    unfold unmatchedL
    refine ((WF_pairwise x wx).filter _).imp ?_
    intro a a' hne heq
    exact hne (left_key_of_eq _ _ a a' (fun c hc => get_padRight_left _ _ a c hc)
      (fun c hc => get_padRight_left _ _ a' c hc) heq)
  · intro r hr r' hr' heq
    obtain ⟨a, ha, b, hb, hm, rfl⟩ := (mem_innerRows mk keys x y r).1 hr
    obtain ⟨a', ha', rfl⟩ := List.mem_map.1 hr'
    have hu := (mem_unmatchedL mk keys x y a').1 ha'
    have hk := left_key_of_eq _ _ a a' (fun c hc => get_combine_left _ _ a b c hc)
      (fun c hc => get_padRight_left _ _ a' c hc) heq
    have : a = a' := WF_inj x wx a a' ha hu.1 hk
    subst this
    rw [hu.2 b hb] at hm
    cases hm

theorem fullRows_pairwise (ok : StepOk keys x y) (wx : x.WF) (wy : y.WF)
    (hyk : ∀ i ∈ y.ids, i ∈ keys) (hkx : ∀ k ∈ keys, k ∈ x.ids) (hmk : mk = []) :
    Pairwise (fun r r' => r.key (resIds keys x y) ≠ r'.key (resIds keys x y)) (fullRows mk keys x y) := by
  unfold fullRows
  rw [List.pairwise_append]
  refine ⟨leftRows_pairwise ok wx wy, ?_, ?_⟩
  · rw [List.pairwise_map]
    unfold unmatchedR
    refine ((WF_pairwise y wy).filter _).imp ?_
    intro b b' hne heq
    apply hne
    rw [key_eq_iff] at heq ⊢
    intro i hi
    have hk := hyk i hi
    have hxi := hkx i hk
    have := heq i (List.mem_append_left _ hxi)
    rw [get_padLeft_left _ _ _ b i (x_ids_comps i hxi), get_padLeft_left _ _ _ b' i (x_ids_comps i hxi)] at this
    simpa [hk] using this
  · intro r hr r' hr' heq
    obtain ⟨a, ha, hra⟩ := leftRows_from_left mk keys x y r hr
    obtain ⟨b', hb', rfl⟩ := List.mem_map.1 hr'
    have hu := (mem_unmatchedR mk keys x y b').1 hb'
    have hm : matchK mk keys a b' = true := by
      rw [matchK_iff]
      refine ⟨?_, by rw [hmk]; intro k hk; cases hk⟩
      intro k hk
      rw [key_eq_iff] at heq
      have hxi := hkx k hk
      have := heq k (List.mem_append_left _ hxi)
      rw [hra k (x_ids_comps k hxi), get_padLeft_left _ _ _ b' k (x_ids_comps k hxi)] at this
      simpa [hk] using this
    rw [hu.2 a ha] at hm
    cases hm

end WF

theorem kindOk_full {keys : List String} {x y : DS} (h : kindOk .full keys x y = true) :
    (∀ i ∈ y.ids, i ∈ keys) ∧ (∀ k ∈ keys, k ∈ x.ids) ∧ keys.filter x.meas.contains = [] := by
  simp only [kindOk, Bool.and_eq_true] at h
  obtain ⟨⟨⟨h1, _⟩, h3⟩, h4⟩ := h
  refine ⟨(subset_iff _ _).1 h1, (subset_iff _ _).1 h3, ?_⟩
  rw [List.filter_eq_nil_iff]
  intro k hk
  simp only [List.all_eq_true] at h4
  have := h4 k hk
  simpa using this

/-- **the binary join step preserves unique identifier keys** (all four kinds). -/
theorem join2_WF (kind : JoinKind) (keys : List String) (x y r : DS) (wx : x.WF) (wy : y.WF)
    (h : join2 kind keys x y = .ok r) : r.WF := by
  obtain ⟨h1, _, h3, h4, h5, rfl⟩ := join2_ok h
  have ok : StepOk keys x y :=
    ⟨(subset_iff _ _).1 h1, (subset_iff _ _).1 h3, (shareOnlyKeys_iff keys x y).1 h4⟩
  unfold DS.WF DS.keys
  apply nodup_keys_of_pairwise
  show Pairwise _ (join2Rows kind _ keys x y)
  cases kind with
  | inner => exact innerRows_pairwise ok wx wy
  | cross => exact innerRows_pairwise ok wx wy
  | left => exact leftRows_pairwise ok wx wy
  | full =>
    obtain ⟨a1, a2, a3⟩ := kindOk_full h5
    exact fullRows_pairwise ok wx wy a1 a2 a3

theorem joinFold_WF (kind : JoinKind) (us : Option (List String)) : ∀ (ys : List DS) (acc r : DS),
    acc.WF → (∀ y ∈ ys, y.WF) → joinFold kind us acc ys = .ok r → r.WF := by
  intro ys
  induction ys with
  | nil =>
    intro acc r w _ h
    simp only [joinFold, Except.ok.injEq] at h
    subst h; exact w
  | cons y ys ih =>
    intro acc r w hy h
    simp only [joinFold] at h
    cases hj : join2 kind (stepKeys kind us acc y) acc y with
    | error e => simp [hj, bind, Except.bind] at h
    | ok j =>
      simp only [hj, bind, Except.bind] at h
      exact ih j r (join2_WF kind _ acc y j w (hy y List.mem_cons_self) hj)
        (fun y' hy' => hy y' (List.mem_cons_of_mem _ hy')) h

/-! ### renaming -/

theorem rename_key_f (f : String → String) (x : DS) (r : Row) (hn : (x.comps.map f).Nodup) :
    Row.key (x.comps.map (fun n => (f n, r.get n))) (x.ids.map f) = r.key x.ids := by
  unfold Row.key
  rw [List.map_map]
  apply List.map_congr_left
  intro i hi
  simp only [Function.comp, Row.get]
  rw [lookup_rename f (fun c => (r.lookup c).getD .null) x.comps i hn (List.mem_append_left _ hi)]
  rfl

theorem renameDS_ok {f : String → String} {x r : DS} (h : renameDS f x = .ok r) :
    (x.comps.map f).Nodup ∧ r = DS.mk (x.ids.map f) (x.meas.map f)
      (x.rows.map (fun r => x.comps.map (fun n => (f n, r.get n)))) := by
  unfold renameDS at h
  by_cases hn : (x.comps.map f).Nodup
  · simp only [hn, decide_true, Bool.not_true, Bool.false_eq_true, if_false, Except.ok.injEq] at h
    exact ⟨hn, h.symm⟩
  · simp [hn] at h

theorem renameDS_WF (f : String → String) (x r : DS) (w : x.WF) (h : renameDS f x = .ok r) : r.WF := by
  obtain ⟨hn, rfl⟩ := renameDS_ok h
  unfold DS.WF DS.keys
  show ((x.rows.map _).map _).Nodup
  rw [List.map_map]
  have : (x.rows.map ((fun r => Row.key r (x.ids.map f)) ∘ (fun r => x.comps.map (fun n => (f n, r.get n)))))
      = x.rows.map (·.key x.ids) := by
    apply List.map_congr_left
    intro r _
    exact rename_key_f f x r hn
  rw [this]
  exact w

/-- **the virtual dataset of an n-ary join has unique identifier keys.** -/
theorem joinN_WF (kind : JoinKind) (us : Option (List String)) (ops : List Operand) (r : DS)
    (w : ∀ o ∈ ops, o.2.WF) (h : joinN kind us ops = .ok r) : r.WF := by
  unfold joinN at h
  split at h
  · cases h
  · cases hp : ops.mapM (prep (joinCols kind us ops) ops) with
    | error e => simp [hp, bind, Except.bind] at h
    | ok ps =>
      simp only [hp, bind, Except.bind] at h
      have hw : ∀ p ∈ ps, p.WF := by
        intro p hpm
        obtain ⟨o, ho, hpo⟩ := (mapM_ok_mem _ ops ps hp p).1 hpm
        exact renameDS_WF _ o.2 p (w o ho) hpo
      cases ps with
      | nil => cases h
      | cons p ps' =>
        exact joinFold_WF kind us ps' p r (hw p List.mem_cons_self)
          (fun y hy => hw y (List.mem_cons_of_mem _ hy)) h

/-! ### component names of the result are distinct -/

theorem join2_comps_nodup (kind : JoinKind) (keys : List String) (x y r : DS)
    (nx : x.comps.Nodup) (ny : y.comps.Nodup) (h : join2 kind keys x y = .ok r) : r.comps.Nodup := by
  obtain ⟨_, _, _, h4, _, rfl⟩ := join2_ok h
  have share := (shareOnlyKeys_iff keys x y).1 h4
  show ((x.ids ++ y.ids.filter (fun c => !keys.contains c)) ++ (x.meas ++ y.meas.filter (fun c => !keys.contains c))).Nodup
  have hperm : ((x.ids ++ y.ids.filter (fun c => !keys.contains c)) ++ (x.meas ++ y.meas.filter (fun c => !keys.contains c))).Perm
      ((x.ids ++ x.meas) ++ (y.ids ++ y.meas).filter (fun c => !keys.contains c)) := by
    rw [List.filter_append, List.append_assoc, List.append_assoc]
    refine Perm.append_left x.ids ?_
    rw [← List.append_assoc, ← List.append_assoc]
    exact Perm.append_right _ List.perm_append_comm
  rw [hperm.nodup_iff]
  refine List.nodup_append.2 ⟨nx, List.filter_sublist.nodup ny, ?_⟩
  intro c hc c' hc' hcc
  subst hcc
  have hf := List.mem_filter.1 hc'
  have hk : c ∈ keys := share c hc hf.1
  simp at hf
  exact hf.2 hk

theorem joinFold_comps_nodup (kind : JoinKind) (us : Option (List String)) : ∀ (ys : List DS) (acc r : DS),
    acc.comps.Nodup → (∀ y ∈ ys, y.comps.Nodup) → joinFold kind us acc ys = .ok r → r.comps.Nodup := by
  intro ys
  induction ys with
  | nil =>
    intro acc r w _ h
    simp only [joinFold, Except.ok.injEq] at h
    subst h; exact w
  | cons y ys ih =>
    intro acc r w hy h
    simp only [joinFold] at h
    cases hj : join2 kind (stepKeys kind us acc y) acc y with
    | error e => simp [hj, bind, Except.bind] at h
    | ok j =>
      simp only [hj, bind, Except.bind] at h
      exact ih j r (join2_comps_nodup kind _ acc y j w (hy y List.mem_cons_self) hj)
        (fun y' hy' => hy y' (List.mem_cons_of_mem _ hy')) h

theorem renameDS_comps (f : String → String) (x r : DS) (h : renameDS f x = .ok r) :
    r.comps = x.comps.map f ∧ r.comps.Nodup := by
  obtain ⟨hn, rfl⟩ := renameDS_ok h
  have : (DS.mk (x.ids.map f) (x.meas.map f) (x.rows.map (fun r => x.comps.map (fun n => (f n, r.get n))))).comps
      = x.comps.map f := by
    show x.ids.map f ++ x.meas.map f = (x.ids ++ x.meas).map f
    rw [List.map_append]
  rw [this]
  exact ⟨rfl, hn⟩

theorem joinN_comps_nodup (kind : JoinKind) (us : Option (List String)) (ops : List Operand) (r : DS)
    (h : joinN kind us ops = .ok r) : r.comps.Nodup := by
  unfold joinN at h
  split at h
  · cases h
  · cases hp : ops.mapM (prep (joinCols kind us ops) ops) with
    | error e => simp [hp, bind, Except.bind] at h
    | ok ps =>
      simp only [hp, bind, Except.bind] at h
      have hw : ∀ p ∈ ps, p.comps.Nodup := by
        intro p hpm
        obtain ⟨o, _, hpo⟩ := (mapM_ok_mem _ ops ps hp p).1 hpm
        exact (renameDS_comps _ o.2 p hpo).2
      cases ps with
      | nil => cases h
      | cons p ps' =>
        exact joinFold_comps_nodup kind us ps' p r (hw p List.mem_cons_self)
          (fun y hy => hw y (List.mem_cons_of_mem _ hy)) h

/-! ### invariance under permutation of the operands' rows -/

theorem flatMap_perm_congr {α β : Type} (l : List α) (f g : α → List β) (h : ∀ a ∈ l, (f a).Perm (g a)) :
    (l.flatMap f).Perm (l.flatMap g) := by
  induction l with
  | nil => exact Perm.refl _
  | cons a l ih =>
    simp only [List.flatMap_cons]
    exact (h a List.mem_cons_self).append (ih (fun b hb => h b (List.mem_cons_of_mem _ hb)))

theorem DSEquiv.comps {x x' : DS} (h : DSEquiv x x') : x'.comps = x.comps := by
  unfold DS.comps; rw [h.1, h.2.1]

theorem rest_congr (keys : List String) {y y' : DS} (h : DSEquiv y y') : rest keys y' = rest keys y := by
  unfold rest; rw [h.comps]

theorem innerRows_perm (mk keys : List String) (x x' y y' : DS) (hx : DSEquiv x x') (hy : DSEquiv y y') :
    (innerRows mk keys x y).Perm (innerRows mk keys x' y') := by
  unfold innerRows partners
  rw [hx.comps, rest_congr keys hy]
  refine (Perm.flatMap_right _ hx.2.2).trans ?_
  apply flatMap_perm_congr
  intro a _
  exact (hy.2.2.filter _).map _

theorem unmatchedL_perm (mk keys : List String) (x x' y y' : DS) (hx : DSEquiv x x') (hy : DSEquiv y y') :
    (unmatchedL mk keys x y).Perm (unmatchedL mk keys x' y') := by
  unfold unmatchedL
  have hp : (fun a => !(y'.rows.any (matchK mk keys a))) = (fun a => !(y.rows.any (matchK mk keys a))) := by
    funext a; rw [hy.2.2.any_eq]
  rw [hp]
  exact hx.2.2.filter _

theorem unmatchedR_perm (mk keys : List String) (x x' y y' : DS) (hx : DSEquiv x x') (hy : DSEquiv y y') :
    (unmatchedR mk keys x y).Perm (unmatchedR mk keys x' y') := by
  unfold unmatchedR
  have hp : (fun b => !(x'.rows.any (fun a => matchK mk keys a b))) = (fun b => !(x.rows.any (fun a => matchK mk keys a b))) := by
    funext b; rw [hx.2.2.any_eq]
  rw [hp]
  exact hy.2.2.filter _

theorem leftRows_perm (mk keys : List String) (x x' y y' : DS) (hx : DSEquiv x x') (hy : DSEquiv y y') :
    (leftRows mk keys x y).Perm (leftRows mk keys x' y') := by
  unfold leftRows
  rw [hx.comps, rest_congr keys hy]
  exact (innerRows_perm mk keys x x' y y' hx hy).append ((unmatchedL_perm mk keys x x' y y' hx hy).map _)

theorem fullRows_perm (mk keys : List String) (x x' y y' : DS) (hx : DSEquiv x x') (hy : DSEquiv y y') :
    (fullRows mk keys x y).Perm (fullRows mk keys x' y') := by
  unfold fullRows
  rw [hx.comps, rest_congr keys hy]
  exact (leftRows_perm mk keys x x' y y' hx hy).append ((unmatchedR_perm mk keys x x' y y' hx hy).map _)

theorem join2Rows_perm (kind : JoinKind) (mk keys : List String) (x x' y y' : DS) (hx : DSEquiv x x') (hy : DSEquiv y y') :
    (join2Rows kind mk keys x y).Perm (join2Rows kind mk keys x' y') := by
  cases kind with
  | inner => exact innerRows_perm mk keys x x' y y' hx hy
  | cross => exact innerRows_perm mk keys x x' y y' hx hy
  | left => exact leftRows_perm mk keys x x' y y' hx hy
  | full => exact fullRows_perm mk keys x x' y y' hx hy

/-- **the binary join step does not depend on the order of the operands' rows.** -/
theorem join2_perm (kind : JoinKind) (keys : List String) (x x' y y' : DS) (hx : DSEquiv x x') (hy : DSEquiv y y') :
    Rel2 DSEquiv (join2 kind keys x y) (join2 kind keys x' y') := by
  have hc := hx.comps
  have hcy := hy.comps
  have e1 : shareOnlyKeys keys x' y' = shareOnlyKeys keys x y := by unfold shareOnlyKeys; rw [hc, hcy]
  have e2 : kindOk kind keys x' y' = kindOk kind keys x y := by unfold kindOk; rw [hx.1, hx.2.1, hy.1]
  have hrows := join2Rows_perm kind (keys.filter x.meas.contains) keys x x' y y' hx hy
  unfold join2
  rw [hc, hcy, e1, e2, ← hy.1, ← hx.1, ← hx.2.1, ← hy.2.1]
  by_cases h1 : (subset keys x.comps && subset keys y.comps) = true
  · by_cases h2 : subset keys y.ids = true
    · by_cases h3 : shareOnlyKeys keys x y = true
      · by_cases h4 : kindOk kind keys x y = true
        · simp only [h1, h2, h3, h4, Bool.not_true, Bool.false_eq_true, if_false]
          exact Or.inr ⟨_, _, rfl, rfl, ⟨rfl, rfl, hrows⟩⟩
        · simp only [h1, h2, h3, h4, Bool.not_true, Bool.false_eq_true, if_false]
          simp
          exact Rel2.error _ _
      · simp [h1, h2, h3]
        exact Rel2.error _ _
    · simp [h1, h2]
      exact Rel2.error _ _
  · simp [h1]
    exact Rel2.error _ _

/-- lists of datasets that are pairwise equivalent. -/
def DSListEquiv : List DS → List DS → Prop
  | [], [] => True
  | a :: l, b :: l' => DSEquiv a b ∧ DSListEquiv l l'
  | _, _ => False

theorem joinFold_perm (kind : JoinKind) (us : Option (List String)) : ∀ (ys ys' : List DS) (acc acc' : DS),
    DSEquiv acc acc' → DSListEquiv ys ys' →
    Rel2 DSEquiv (joinFold kind us acc ys) (joinFold kind us acc' ys') := by
  intro ys
  induction ys with
  | nil =>
    intro ys' acc acc' ha hl
    cases ys' with
    | nil => exact Or.inr ⟨acc, acc', rfl, rfl, ha⟩
    | cons _ _ => simp [DSListEquiv] at hl
  | cons y ys ih =>
    intro ys' acc acc' ha hl
    cases ys' with
    | nil => simp [DSListEquiv] at hl
    | cons y' ys' =>
      simp only [DSListEquiv] at hl
      simp only [joinFold]
      have hk : stepKeys kind us acc' y' = stepKeys kind us acc y := by
        unfold stepKeys; rw [ha.1, hl.1.1]
      rw [hk]
      exact Rel2.bind (join2_perm kind _ acc acc' y y' ha hl.1) (fun j j' hj => ih ys' j j' hj hl.2)

theorem renameDS_perm_aux (f : String → String) (x x' : DS) (h : DSEquiv x x') :
    Rel2 DSEquiv (renameDS f x) (renameDS f x') := by
  unfold renameDS
  rw [h.comps, ← h.1, ← h.2.1]
  split
  · exact Rel2.error _ _
  · exact Or.inr ⟨_, _, rfl, rfl, ⟨rfl, rfl, h.2.2.map _⟩⟩

/-- operand lists with the same aliases and equivalent datasets. -/
def OpsEquiv : List Operand → List Operand → Prop
  | [], [] => True
  | a :: l, b :: l' => a.1 = b.1 ∧ DSEquiv a.2 b.2 ∧ OpsEquiv l l'
  | _, _ => False

theorem opsEquiv_ids : ∀ (ops ops' : List Operand), OpsEquiv ops ops' →
    ops'.flatMap (·.2.ids) = ops.flatMap (·.2.ids) := by
  intro ops
  induction ops with
  | nil => intro ops' h; cases ops' with
    | nil => rfl
    | cons _ _ => simp [OpsEquiv] at h
  | cons a l ih => intro ops' h; cases ops' with
    | nil => simp [OpsEquiv] at h
    | cons b l' =>
      simp only [OpsEquiv] at h
      simp only [List.flatMap_cons]
      rw [ih l' h.2.2, h.2.1.1]

theorem opsEquiv_occ (c : String) : ∀ (ops ops' : List Operand), OpsEquiv ops ops' →
    occurrences ops' c = occurrences ops c := by
  intro ops
  induction ops with
  | nil => intro ops' h; cases ops' with
    | nil => rfl
    | cons _ _ => simp [OpsEquiv] at h
  | cons a l ih => intro ops' h; cases ops' with
    | nil => simp [OpsEquiv] at h
    | cons b l' =>
      simp only [OpsEquiv] at h
      have := ih l' h.2.2
      unfold occurrences at this ⊢
      simp only [List.filter_cons, h.2.1.comps]
      split <;> simp only [List.length_cons, this]

theorem virtName_congr (kind : JoinKind) (us : Option (List String)) (ops ops' : List Operand) (h : OpsEquiv ops ops') :
    virtName (joinCols kind us ops') ops' = virtName (joinCols kind us ops) ops := by
  funext al c
  have hj : joinCols kind us ops' = joinCols kind us ops := by
    unfold joinCols
    cases kind <;> simp only [opsEquiv_ids ops ops' h]
  unfold virtName
  rw [hj, opsEquiv_occ c ops ops' h]

theorem mapM_rename_perm (f : String → String → String) : ∀ (ops ops' : List Operand), OpsEquiv ops ops' →
    Rel2 DSListEquiv (ops.mapM (fun o => renameDS (f o.1) o.2)) (ops'.mapM (fun o => renameDS (f o.1) o.2)) := by
  intro ops
  induction ops with
  | nil => intro ops' h; cases ops' with
    | nil => exact Or.inr ⟨[], [], rfl, rfl, trivial⟩
    | cons _ _ => simp [OpsEquiv] at h
  | cons a l ih => intro ops' h; cases ops' with
    | nil => simp [OpsEquiv] at h
    | cons b l' =>
      simp only [OpsEquiv] at h
      simp only [List.mapM_cons]
      rw [← h.1]
      refine Rel2.bind (renameDS_perm_aux (f a.1) a.2 b.2 h.2.1) ?_
      intro p p' hp
      refine Rel2.bind (ih l' h.2.2) ?_
      intro ps ps' hps
      exact Rel2.pure (by simp only [DSListEquiv]; exact ⟨hp, hps⟩)

end VtlModel.Sem


import VtlModel.Sem.Lemmas
import VtlModel.Sem.RowLemmas
/-! Key uniqueness ("identifiers are unique per datapoint") is preserved by every modelled operator. -/
namespace VtlModel.Sem
open List

/-- one datapoint per identifier key. -/
def DS.WF (d : DS) : Prop := d.keys.Nodup

/-- transfer of `Nodup` between two keyings of the same list. -/
theorem nodup_map_of_nodup_map {α β γ : Type} (f : α → β) (g : α → γ) :
    ∀ (l : List α), (l.map f).Nodup → (∀ a ∈ l, ∀ b ∈ l, g a = g b → f a = f b) → (l.map g).Nodup := by
  intro l
  induction l with
  | nil => intro _ _; exact List.nodup_nil
  | cons a l ih =>
    intro hn hinj
    simp only [List.map_cons, List.nodup_cons] at hn ⊢
    refine ⟨?_, ih hn.2 (fun x hx y hy => hinj x (List.mem_cons_of_mem _ hx) y (List.mem_cons_of_mem _ hy))⟩
    intro hmem
    obtain ⟨b, hb, hgb⟩ := List.mem_map.1 hmem
    apply hn.1
    have := hinj b (List.mem_cons_of_mem _ hb) a List.mem_cons_self hgb
    rw [← this]
    exact List.mem_map.2 ⟨b, hb, rfl⟩

/-- the keys of the rows produced by `mapRows` are a sublist of the input keys, when `f` keeps keys. -/
theorem mapRows_keys_sublist (f : Row → R (Option Row)) (ids ids' : List String) :
    ∀ (rows out : List Row), mapRows f rows = .ok out →
      (∀ r r', r ∈ rows → f r = .ok (some r') → r'.key ids' = r.key ids) →
      (out.map (·.key ids')).Sublist (rows.map (·.key ids)) := by
  intro rows
  induction rows with
  | nil =>
    intro out h _
    obtain ⟨xs, hx, rfl⟩ := (mapRows_ok_iff f [] out).1 h
    simp [List.mapM_nil, pure, Except.pure] at hx
    subst hx
    simp
  | cons a l ih =>
    intro out h hk
    obtain ⟨xs, hx, rfl⟩ := (mapRows_ok_iff f (a :: l) out).1 h
    obtain ⟨b, bs, hb, hbs, rfl⟩ := (mapM_ok_cons f a l xs).1 hx
    have hl : mapRows f l = .ok (bs.filterMap id) := (mapRows_ok_iff f l _).2 ⟨bs, hbs, rfl⟩
    have ih' := ih (bs.filterMap id) hl (fun r r' hr hf => hk r r' (List.mem_cons_of_mem _ hr) hf)
    cases b with
    | none =>
      simp only [List.filterMap_cons, id, List.map_cons]
      exact List.Sublist.cons _ ih'
    | some r' =>
      simp only [List.filterMap_cons, id, List.map_cons]
      rw [hk a r' List.mem_cons_self hb]
      exact List.Sublist.cons₂ _ ih'

theorem mapRows_WF (f : Row → R (Option Row)) (ids ids' : List String) (rows out : List Row)
    (h : mapRows f rows = .ok out)
    (hk : ∀ r r', r ∈ rows → f r = .ok (some r') → r'.key ids' = r.key ids)
    (hn : (rows.map (·.key ids)).Nodup) : (out.map (·.key ids')).Nodup :=
  (mapRows_keys_sublist f ids ids' rows out h hk).nodup hn

/-! ### per-operator key facts -/

theorem mapmRow_key (x : DS) (body : SExpr) (out : Option String) (r r' : Row)
    (h : mapmRow x body out r = .ok (some r')) : r'.key x.ids = r.key x.ids := by
  unfold mapmRow at h
  cases hv : measVals x body out r with
  | error e => simp [hv, Except.map] at h
  | ok vals =>
    simp [hv, Except.map] at h
    subst h
    exact key_proj_append r x.ids x.ids vals (fun i hi => hi)

theorem zipRow_key (big small : DS) (l : Bool) (ms : List String) (body : SExpr) (out : Option String)
    (rb r' : Row) (h : zipRow big small l ms body out rb = .ok (some r')) : r'.key big.ids = rb.key big.ids := by
  unfold zipRow at h
  cases hp : partner small rb with
  | none => simp [hp] at h
  | some rs =>
    simp only [hp] at h
    cases hv : zipVals ms body out (if l then rb else rs) (if l then rs else rb) with
    | error e => simp [hv, Except.map] at h
    | ok vals =>
      simp [hv, Except.map] at h
      subst h
      exact key_proj_append rb big.ids big.ids vals (fun i hi => hi)

theorem filterRow_eq (c : SExpr) (r r' : Row) (h : filterRow c r = .ok (some r')) : r' = r := by
  unfold filterRow at h
  cases hc : evalS r .null .null c with
  | error e => simp [hc] at h
  | ok v =>
    cases v with
    | bool b => cases b <;> simp [hc] at h; exact h.symm
    | _ => simp [hc] at h

theorem calcRow_key (ids keep : List String) (items : List (String × SExpr)) (r r' : Row)
    (hsub : ∀ i ∈ ids, i ∈ keep) (h : calcRow keep items r = .ok (some r')) : r'.key ids = r.key ids := by
  unfold calcRow at h
  cases hv : calcVals items r with
  | error e => simp [hv, Except.map] at h
  | ok vs =>
    simp [hv, Except.map] at h
    subst h
    exact key_proj_append r keep ids vs hsub

/-- lookup in a renamed row: with collision-free renaming the value of component `n` is found
under its new name. -/
theorem lookup_rename (ren : String → String) (g : String → Value) :
    ∀ (comps : List String) (n : String), (comps.map ren).Nodup → n ∈ comps →
      List.lookup (ren n) (comps.map (fun c => (ren c, g c))) = some (g n) := by
  intro comps
  induction comps with
  | nil => intro n _ h; cases h
  | cons a l ih =>
    intro n hn hmem
    simp only [List.map_cons, List.nodup_cons] at hn
    simp only [List.map_cons, List.lookup_cons]
    rcases List.mem_cons.1 hmem with rfl | hm
    · simp
    · have hne : ren n ≠ ren a := by
        intro e
        apply hn.1
        rw [← e]
        exact List.mem_map.2 ⟨n, hm, rfl⟩
      have : (ren n == ren a) = false := by simpa using hne
      rw [this]
      exact ih n hn.2 hm

theorem rename_key (m : List (String × String)) (x : DS) (r : Row)
    (hn : (x.comps.map (renameOf m)).Nodup) :
    Row.key (x.comps.map (fun n => (renameOf m n, r.get n))) (x.ids.map (renameOf m)) = r.key x.ids := by
  unfold Row.key
  rw [List.map_map]
  apply List.map_congr_left
  intro i hi
  simp only [Function.comp, Row.get]
  rw [lookup_rename (renameOf m) (fun c => (r.lookup c).getD .null) x.comps i hn (List.mem_append_left _ hi)]
  rfl

/-- rows that agree on the fixed identifiers and on the remaining ones agree on all identifiers. -/
theorem sub_key_inj (ids : List String) (fix : List (String × Value)) (a b : Row)
    (ha : subMatch fix a = true) (hb : subMatch fix b = true)
    (hk : a.key (ids.filter (fun i => !(fix.map (·.1)).contains i)) = b.key (ids.filter (fun i => !(fix.map (·.1)).contains i))) :
    a.key ids = b.key ids := by
  unfold Row.key at *
  apply List.map_congr_left
  intro i hi
  by_cases hf : (fix.map (·.1)).contains i = true
  · -- fixed identifier: both rows carry the fixed value
    have : i ∈ fix.map (·.1) := by simpa using hf
    obtain ⟨fv, hfv, rfl⟩ := List.mem_map.1 this
    simp only [subMatch, List.all_eq_true, beq_iff_eq] at ha hb
    rw [ha fv hfv, hb fv hfv]
  · have hmem : i ∈ ids.filter (fun i => !(fix.map (·.1)).contains i) := by
      apply List.mem_filter.2
      exact ⟨hi, by simpa using hf⟩
    exact (List.map_inj_left.1 hk) i hmem

end VtlModel.Sem

import VtlModel.Sem.Valid
import VtlModel.Sem.Perm
/-! Lemmas about `check` and `check_datapoint`: shape of the produced rows, filter form of `invalid`,
key uniqueness, permutation invariance. -/
namespace VtlModel.Sem
open List

/-! ### generic: `mapRows` and a filter on the produced rows -/

def keepIf (p : Row → Bool) : Option Row → Option Row
  | some r => if p r then some r else none
  | none => none

theorem mapM_map_comp {α β γ : Type} (f : α → R β) (h : β → γ) :
    ∀ l : List α, l.mapM (fun a => (f a).map h) = (l.mapM f).map (List.map h) := by
  intro l
  induction l with
  | nil => simp [List.mapM_nil, pure, Except.pure, Except.map]
  | cons a l ih =>
    simp only [List.mapM_cons, ih]
    cases f a with
    | error e => simp [bind, Except.bind, Except.map]
    | ok b =>
      cases l.mapM f with
      | error e => simp [bind, Except.bind, Except.map]
      | ok bs => simp [bind, Except.bind, Except.map, pure, Except.pure]

theorem filterMap_keepIf (p : Row → Bool) : ∀ xs : List (Option Row),
    xs.filterMap (keepIf p) = (xs.filterMap id).filter p := by
  intro xs
  induction xs with
  | nil => rfl
  | cons o xs ih =>
    cases o with
    | none =>
      simp only [List.filterMap_cons, keepIf, id]
      exact ih
    | some r =>
      by_cases hp : p r = true
      · simp [keepIf, hp, ih]
      · have hp' : p r = false := by simpa using hp
        simp [keepIf, hp', ih]

/-- a row function that is another one followed by a filter: `mapRows` commutes with the filter. -/
theorem mapRows_keepIf (f g : Row → R (Option Row)) (p : Row → Bool)
    (h : ∀ r, g r = (f r).map (keepIf p)) (rows : List Row) :
    mapRows g rows = (mapRows f rows).map (List.filter p) := by
  have hg : g = fun r => (f r).map (keepIf p) := funext h
  subst hg
  unfold mapRows
  rw [mapM_map_comp f (keepIf p) rows]
  cases rows.mapM f with
  | error e => simp [bind, Except.bind, Except.map]
  | ok xs =>
    simp only [bind, Except.bind, Except.map, pure, Except.pure, Except.ok.injEq]
    rw [List.filterMap_map]
    exact filterMap_keepIf p xs

/-! ### lookups in the fixed tail of a `check` row -/

theorem get_tail_bool (ids : List String) (r : Row) (b v : Value) (e : Row) (h : "bool_var" ∉ ids) :
    Row.get (r.proj ids ++ ([("bool_var", b), ("imbalance", v)] ++ e)) "bool_var" = b := by
  rw [get_proj_append_not_mem r ids _ "bool_var" h]
  simp [Row.get, List.lookup]

theorem get_tail_imb (ids : List String) (r : Row) (b v : Value) (e : Row) (h : "imbalance" ∉ ids) :
    Row.get (r.proj ids ++ ([("bool_var", b), ("imbalance", v)] ++ e)) "imbalance" = v := by
  rw [get_proj_append_not_mem r ids _ "imbalance" h]
  simp [Row.get, List.lookup]

theorem get_tail_ec (ids : List String) (r : Row) (b v ec el : Value) (h : "errorcode" ∉ ids) :
    Row.get (r.proj ids ++ ([("bool_var", b), ("imbalance", v)] ++ errCols ec el b)) "errorcode" =
      (if isFalse b then ec else .null) := by
  rw [get_proj_append_not_mem r ids _ "errorcode" h]
  simp [Row.get, List.lookup, errCols]

theorem get_tail_el (ids : List String) (r : Row) (b v ec el : Value) (h : "errorlevel" ∉ ids) :
    Row.get (r.proj ids ++ ([("bool_var", b), ("imbalance", v)] ++ errCols ec el b)) "errorlevel" =
      (if isFalse b then el else .null) := by
  rw [get_proj_append_not_mem r ids _ "errorlevel" h]
  simp [Row.get, List.lookup, errCols]

/-- the shape of an `all` row. -/
theorem checkRowAll_shape (ec el : Value) (inner : Bool) (ids : List String) (bm : String) (imb : Option (DS × String))
    (r r' : Row) (h : checkRowAll ec el inner ids bm imb r = .ok (some r')) :
    ∃ v, r' = r.proj ids ++ ([("bool_var", r.get bm), ("imbalance", v)] ++ errCols ec el (r.get bm)) ∧
      (imbOf imb r = some v ∨ (imbOf imb r = none ∧ v = .null ∧ inner = false)) := by
  unfold checkRowAll at h
  cases hb : r.get bm with
  | int i => simp [hb] at h
  | num q => simp [hb] at h
  | str s => simp [hb] at h
  | null =>
    simp only [hb] at h
    cases hi : imbOf imb r with
    | some v =>
      simp only [hi, Except.ok.injEq, Option.some.injEq] at h
      exact ⟨v, h.symm, Or.inl rfl⟩
    | none =>
      simp only [hi] at h
      cases inner with
      | true => simp at h
      | false =>
        simp only [Bool.false_eq_true, if_false, Except.ok.injEq, Option.some.injEq] at h
        exact ⟨.null, h.symm, Or.inr ⟨rfl, rfl, rfl⟩⟩
  | bool b =>
    simp only [hb] at h
    cases hi : imbOf imb r with
    | some v =>
      simp only [hi, Except.ok.injEq, Option.some.injEq] at h
      exact ⟨v, h.symm, Or.inl rfl⟩
    | none =>
      simp only [hi] at h
      cases inner with
      | true => simp at h
      | false =>
        simp only [Bool.false_eq_true, if_false, Except.ok.injEq, Option.some.injEq] at h
        exact ⟨.null, h.symm, Or.inr ⟨rfl, rfl, rfl⟩⟩

/-- a row produced by `checkRow` (either mode) is the `all` row of its datapoint. -/
theorem checkRow_some (spec : CheckSpec) (ids : List String) (bm : String) (imb : Option (DS × String)) (r r' : Row)
    (h : checkRow spec ids bm imb r = .ok (some r')) :
    checkRowAll spec.ec spec.el spec.imbInner ids bm imb r = .ok (some r') ∧
      (spec.invalid = true → isFalse (r.get bm) = true) := by
  unfold checkRow at h
  split at h
  · cases hc : checkRowAll spec.ec spec.el spec.imbInner ids bm imb r with
    | error e => simp [hc, Except.map] at h
    | ok o => simp [hc, Except.map] at h
  · rename_i hn
    refine ⟨h, ?_⟩
    intro hinv
    cases hf : isFalse (r.get bm) with
    | true => rfl
    | false => simp [hinv, hf] at hn

theorem checkRow_key (spec : CheckSpec) (ids : List String) (bm : String) (imb : Option (DS × String)) (r r' : Row)
    (h : checkRow spec ids bm imb r = .ok (some r')) : r'.key ids = r.key ids := by
  obtain ⟨v, rfl, _⟩ := checkRowAll_shape _ _ _ ids bm imb r r' (checkRow_some spec ids bm imb r r' h).1
  exact key_proj_append r ids ids _ (fun i hi => hi)

/-- `invalid` = `all` followed by the filter "bool_var is FALSE", row by row. -/
theorem checkRow_invalid (spec : CheckSpec) (ids : List String) (bm : String) (imb : Option (DS × String))
    (hb : "bool_var" ∉ ids) (r : Row) :
    checkRow { spec with invalid := true } ids bm imb r =
      (checkRow { spec with invalid := false } ids bm imb r).map (keepIf (fun r' => isFalse (r'.get "bool_var"))) := by
  have hall : checkRow { spec with invalid := false } ids bm imb r = checkRowAll spec.ec spec.el spec.imbInner ids bm imb r := by
    simp [checkRow]
  rw [hall]
  cases hc : checkRowAll spec.ec spec.el spec.imbInner ids bm imb r with
  | error e => simp [checkRow, hc, Except.map]
  | ok o =>
    cases o with
    | none => simp [checkRow, hc, Except.map, keepIf]
    | some r' =>
      obtain ⟨v, rfl, _⟩ := checkRowAll_shape _ _ _ ids bm imb r r' hc
      have hg := get_tail_bool ids r (r.get bm) v (errCols spec.ec spec.el (r.get bm)) hb
      simp only [List.cons_append, List.nil_append] at hg
      cases hf : isFalse (r.get bm) with
      | true => simp [checkRow, hc, Except.map, keepIf, hg, hf]
      | false => simp [checkRow, hc, Except.map, keepIf, hg, hf]

theorem checkMeas_not_mem (x : DS) (h : checkMeas.any x.ids.contains = false) :
    "bool_var" ∉ x.ids ∧ "imbalance" ∉ x.ids ∧ "errorcode" ∉ x.ids ∧ "errorlevel" ∉ x.ids := by
  simp [checkMeas] at h
  exact ⟨h.1, h.2.1, h.2.2.1, h.2.2.2⟩

/-- what `check` computes, unfolded: the guards hold and the rows are `mapRows checkRow`. -/
theorem check_ok {spec : CheckSpec} {x : DS} {imb : Option DS} {res : DS} (h : check spec x imb = .ok res) :
    ∃ bm im rows, mono x = .ok bm ∧ checkMeas.any x.ids.contains = false ∧ imbArg x imb = .ok im ∧
      mapRows (checkRow spec x.ids bm im) x.rows = .ok rows ∧ res = { ids := x.ids, meas := checkMeas, rows } := by
  unfold check at h
  cases hm : mono x with
  | error e => simp [hm, bind, Except.bind] at h
  | ok bm =>
    simp only [hm, bind, Except.bind] at h
    split at h
    · cases h
    · rename_i hg
      have hg' : checkMeas.any x.ids.contains = false := by simpa using hg
      cases hi : imbArg x imb with
      | error e => simp [hi] at h
      | ok im =>
        simp only [hi] at h
        cases hr : mapRows (checkRow spec x.ids bm im) x.rows with
        | error e => simp [hr] at h
        | ok rows =>
          simp only [hr, pure, Except.pure, Except.ok.injEq] at h
          exact ⟨bm, im, rows, rfl, hg', rfl, hr, h.symm⟩

theorem imbArg_some {x y : DS} {im : Option (DS × String)} (h : imbArg x (some y) = .ok im) :
    ∃ m, y.ids = x.ids ∧ mono y = .ok m ∧ im = some (y, m) := by
  simp only [imbArg] at h
  split at h
  · cases h
  · rename_i hid
    have hid' : y.ids = x.ids := by simpa using hid
    cases hmy : mono y with
    | error e => simp [hmy, Except.map] at h
    | ok m =>
      simp only [hmy, Except.map, Except.ok.injEq] at h
      exact ⟨m, hid', rfl, h.symm⟩

theorem check_WF_aux (spec : CheckSpec) (x : DS) (imb : Option DS) (res : DS) (w : x.WF)
    (h : check spec x imb = .ok res) : res.WF := by
  obtain ⟨bm, im, rows, _, _, _, hr, rfl⟩ := check_ok h
  exact mapRows_WF _ x.ids x.ids x.rows rows hr (fun r r' _ hf => checkRow_key spec x.ids bm im r r' hf) w

/-! ### permutation invariance of `check` -/

theorem mono_congr {x x' : DS} (h : x.meas = x'.meas) : mono x = mono x' := by
  unfold mono; rw [h]

theorem imbOf_congr (y y' : DS) (m : String) (wy : y.WF) (hy : DSEquiv y y') :
    imbOf (some (y, m)) = imbOf (some (y', m)) := by
  funext r
  simp only [imbOf, partner_congr y y' wy hy r]

theorem checkRow_congr (spec : CheckSpec) (ids : List String) (bm : String) (i i' : Option (DS × String))
    (h : imbOf i = imbOf i') : checkRow spec ids bm i = checkRow spec ids bm i' := by
  funext r
  simp only [checkRow, checkRowAll, h]

theorem Rel2.rfl_eq {α : Type} (a : R α) : Rel2 Eq a a := by
  cases a with
  | error e => exact Or.inl ⟨e, e, rfl, rfl⟩
  | ok x => exact Or.inr ⟨x, x, rfl, rfl, rfl⟩

theorem check_perm_gen (spec : CheckSpec) (x x' : DS) (i i' : Option DS) (hx : DSEquiv x x')
    (hi : Rel2 (fun a b => imbOf a = imbOf b) (imbArg x i) (imbArg x' i')) :
    Rel2 DSEquiv (check spec x i) (check spec x' i') := by
  unfold check
  refine Rel2.bind (P := Eq) (by rw [mono_congr hx.2.1]; exact Rel2.rfl_eq _) ?_
  intro bm bm' hbm
  subst hbm
  rw [← hx.1]
  by_cases hc : (checkMeas.any x.ids.contains) = true
  · simp only [hc, if_true]
    exact Rel2.error _ _
  · simp only [hc, if_false]
    refine Rel2.bind hi ?_
    intro im im' him
    rw [← checkRow_congr spec x.ids bm im im' him]
    refine Rel2.bind (mapRows_perm _ hx.2.2) ?_
    intro rows rows' hp
    exact Rel2.pure ⟨rfl, rfl, hp⟩

theorem check_perm_none (spec : CheckSpec) (x x' : DS) (hx : DSEquiv x x') :
    Rel2 DSEquiv (check spec x none) (check spec x' none) :=
  check_perm_gen spec x x' none none hx (Or.inr ⟨none, none, rfl, rfl, rfl⟩)

theorem check_perm_some (spec : CheckSpec) (x x' y y' : DS) (wy : y.WF) (hx : DSEquiv x x') (hy : DSEquiv y y') :
    Rel2 DSEquiv (check spec x (some y)) (check spec x' (some y')) := by
  apply check_perm_gen spec x x' (some y) (some y') hx
  simp only [imbArg, ← hy.1, ← hx.1, ← mono_congr hy.2.1]
  by_cases hc : (y.ids != x.ids) = true
  · simp only [hc, if_true]
    exact Rel2.error _ _
  · simp only [hc, if_false]
    cases mono y with
    | error e => exact Rel2.error _ _
    | ok m => exact Or.inr ⟨_, _, rfl, rfl, imbOf_congr y y' m wy hy⟩

end VtlModel.Sem

import VtlModel.Sem.Value
/-! `instr(string, pattern, start, occurrence)` on `List Char` (the scalar `substr` / `replace` / `findFrom`
live in `Value.lean`).  Conventions: positions are 1-based, 0 = not found, `start` and `occurrence` default to 1
and must be ≥ 1 (a smaller constant is rejected by semantic analysis, code 1-1-18-4: an `Except` branch here).
Occurrences may overlap: the search for occurrence n+1 resumes one character after the START of occurrence n
(`instr("aaa", "aa", 1, 2) = 2`), as the engine's `vtl_instr` macro does. -/
namespace VtlModel.Sem

/-- 1-based position of the first occurrence of `pat` in `cs` at or after the 1-based position `start`; 0 if none. -/
def instrFirst (pat cs : List Char) (start : Nat) : Nat :=
  findFrom pat (cs.drop (start - 1)) (start - 1)

/-- position of the `occ`-th occurrence (overlapping occurrences count) searching from `start`; 0 if there are fewer. -/
def instrOcc (pat cs : List Char) (start : Nat) : Nat → Nat
  | 0 => 0
  | n + 1 =>
      if n = 0 then instrFirst pat cs start
      else
        let p := instrOcc pat cs start n
        if p = 0 then 0 else instrFirst pat cs (p + 1)

/-- an optional positive integer parameter: null/absent = 1; below 1 is rejected. -/
def posParam : Value → R Nat
  | .null => .ok 1
  | .int i => if i ≥ 1 then .ok i.toNat else .error .type
  | _ => .error .type

def instr (s pat start occ : Value) : R Value := do
  let st ← posParam start
  let oc ← posParam occ
  match s, pat with
  | .null, .null => .ok .null
  | .null, .str _ => .ok .null
  | .str _, .null => .ok .null
  | .str a, .str p => .ok (.int (instrOcc p.toList a.toList st oc))
  | _, _ => .error .type

end VtlModel.Sem

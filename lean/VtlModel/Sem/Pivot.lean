import VtlModel.Sem.Aggr
/-! The clause operators `unpivot`, `pivot` and `calc` with an explicit role (C02, DESIGN.md §4 C02), as functions
`DS → R DS` that plug into dataset expressions through `DExpr.app1`.  No Mathlib import, total, computable.

The model's `DS` has identifiers and non-identifier components (`meas`); whether a non-identifier component is a
measure or an attribute is a static fact of the structure.  The operators that treat the two roles differently take
the names of the operand's ATTRIBUTES as a parameter (`atts`):

* `unpivot atts idn mn` — one datapoint per (input datapoint, MEASURE with a non-null value): the identifiers of the
  input datapoint, the measure's name in the new String identifier `idn`, its value in the single measure `mn`.
  Attributes are not carried over.
* `pivot idn mn` — the inverse: one datapoint per distinct key over the remaining identifiers, one measure per distinct
  value of the identifier `idn` (in lexicographic order of the names, so that the structure does not depend on the order
  of the datapoints), holding the value of `mn` in the input datapoint with that key and that value of `idn` (null when
  there is none).  All other measures and attributes are dropped (Reference Manual, example of `pivot`).
* `calcRole idItems others` — `calc identifier X := e, measure Y := f, attribute Z := g`: all expressions are evaluated
  on the INPUT datapoint; the `identifier` items extend the identifier list (a null value is an error: identifiers are
  not nullable), the other items are added to / overwrite the non-identifier components as plain `calc` does.  An `identifier` item
  may also overwrite a measure or attribute (the component changes role); no item may overwrite an identifier. -/
namespace VtlModel.Sem

/-! ### unpivot -/

/-- the measures `unpivot` turns into datapoints: the non-identifier components that are not attributes. -/
def unpivotMeas (atts : List String) (d : DS) : List String := d.meas.filter (fun m => !atts.contains m)

/-- the datapoints one input datapoint unfolds into: one per measure whose value is not null. -/
def unpivotRow (ids ms : List String) (idn mn : String) (r : Row) : List Row :=
  (ms.filter (fun m => !(r.get m).isNull)).map (fun m => r.proj ids ++ [(idn, Value.str m), (mn, r.get m)])

def unpivot (atts : List String) (idn mn : String) (d : DS) : R DS :=
  if d.ids.isEmpty || d.comps.contains idn || d.ids.contains mn || mn == idn then .error .type
  else if !(decide (unpivotMeas atts d).Nodup) then .error .type
  else .ok { ids := d.ids ++ [idn], meas := [mn],
             rows := d.rows.flatMap (unpivotRow d.ids (unpivotMeas atts d) idn mn) }

/-! ### pivot -/

/-- the measures of the result: the distinct values of the pivoted identifier, sorted. -/
def pivotCols (idn : String) (rows : List Row) : List String :=
  isort strLe (dedup (rows.filterMap (fun r => (r.get idn).str?)))

/-- the operand, keyed by the remaining identifiers followed by the pivoted one. -/
def pivotAux (d : DS) (rest : List String) (idn : String) : DS :=
  { ids := rest ++ [idn], meas := d.meas, rows := d.rows }

/-- the value of `mn` in the input datapoint with key `kr` and `idn = c`; null when there is none. -/
def pivotCell (d : DS) (rest : List String) (idn mn : String) (kr : Row) (c : String) : Value :=
  match partner (pivotAux d rest idn) (kr ++ [(idn, Value.str c)]) with
  | some r => r.get mn
  | none => .null

def pivotRow (d : DS) (rest cols : List String) (idn mn : String) (kr : Row) : Row :=
  kr ++ cols.map (fun c => (c, pivotCell d rest idn mn kr c))

def pivot (idn mn : String) (d : DS) : R DS :=
  if !(d.ids.contains idn) || !(d.meas.contains mn) then .error .type
  else if d.rows.any (fun r => (r.get idn).str?.isNone) then .error .unsupported   -- names are strings
  else if (pivotCols idn d.rows).any (d.ids.filter (fun i => i != idn)).contains then .error .type
  else .ok { ids := d.ids.filter (fun i => i != idn), meas := pivotCols idn d.rows,
             rows := (keyRows (d.ids.filter (fun i => i != idn)) d.rows).map
                       (pivotRow d (d.ids.filter (fun i => i != idn)) (pivotCols idn d.rows) idn mn) }

/-! ### calc with roles -/

def calcRoleRow (keep : List String) (idItems others : List (String × SExpr)) (r : Row) : R (Option Row) :=
  (calcVals idItems r) >>= fun ivs =>
  if ivs.any (fun p => p.2.isNull) then .error .type      -- an identifier may not be null
  else (calcVals others r) >>= fun ovs => pure (some (r.proj keep ++ (ivs ++ ovs)))

/-- the names `calc` assigns (identifier items first). -/
def calcRoleNames (idItems others : List (String × SExpr)) : List String := idItems.map (·.1) ++ others.map (·.1)

/-- the non-identifier components `calc` leaves alone. -/
def calcRoleKept (idItems others : List (String × SExpr)) (d : DS) : List String :=
  d.meas.filter (fun m => !(calcRoleNames idItems others).contains m)

def calcRole (idItems others : List (String × SExpr)) (d : DS) : R DS :=
  -- an identifier cannot be overwritten; a measure or attribute can (also by an `identifier` item: it changes role)
  if (calcRoleNames idItems others).any d.ids.contains || !(decide (calcRoleNames idItems others).Nodup) then .error .type
  else
    (mapRows (calcRoleRow (d.ids ++ calcRoleKept idItems others d) idItems others) d.rows) >>= fun rows =>
    pure { ids := d.ids ++ idItems.map (·.1), meas := calcRoleKept idItems others d ++ others.map (·.1), rows := rows }

/-! ### the `aggr` clause -/

/-- `DS[aggr out := op(e), … grouping having]`: the aggregation operator of `Sem/Aggr` with an explicit item list. -/
def aggrClause (g : Grouping) (items : List AggItem) (having : Option (List AggItem × SExpr)) (d : DS) : R DS :=
  aggr { grouping := g, items := .list items, having := having } d

/-- the item list with which the `aggr` clause spells `op(DS grouping)` out: every measure aggregated under its own name. -/
def eachItems (op : AggOp) (d : DS) : List AggItem :=
  d.meas.map (fun m => { out := m, op := op, arg := .expr (.col m), nz := false })

end VtlModel.Sem

import VtlModel.Sem.Strings
import VtlModel.Sem.Perm
/-! Extension operators of the element-wise family that are not `SExpr` nodes: a scalar function applied to every
measure of every datapoint (`mapValD`; `instr` at dataset level is the instance `instrD`).  Plugs into
`DExpr.app1`; `mapValD_WF` / `mapValD_perm` are the two lemmas `C10.evalD_WF` / `C33.evalD_perm` ask for. -/
namespace VtlModel.Sem
open List

/-- the measures of the output row: `f` applied to the value of every measure. -/
def valVals (d : DS) (f : Value → R Value) (out : Option String) (r : Row) : R (List (String × Value)) :=
  d.meas.mapM (fun m => (f (r.get m)).map (fun v => (outName d.meas out m, v)))

def valRow (d : DS) (f : Value → R Value) (out : Option String) (r : Row) : R (Option Row) :=
  (valVals d f out r).map (fun ms => some (r.proj d.ids ++ ms))

/-- apply the scalar function `f` to every measure of every datapoint; identifiers pass through; `out` renames
the single measure (`int_var`, `bool_var`). -/
def mapValD (f : Value → R Value) (out : Option String) (x : DS) : R DS :=
  (mapRows (valRow x f out) x.rows).map
    (fun rows => { ids := x.ids, meas := x.meas.map (outName x.meas out), rows })

/-- dataset-level `instr(DS, pattern, start, occurrence)`. -/
def instrD (pat start occ : Value) (out : Option String) : DS → R DS :=
  mapValD (fun s => instr s pat start occ) out

theorem valRow_key (x : DS) (f : Value → R Value) (out : Option String) (r r' : Row)
    (h : valRow x f out r = .ok (some r')) : r'.key x.ids = r.key x.ids := by
  unfold valRow at h
  cases hv : valVals x f out r with
  | error e => simp [hv, Except.map] at h
  | ok vals =>
    simp [hv, Except.map] at h
    subst h
    exact key_proj_append r x.ids x.ids vals (fun i hi => hi)

/-- key uniqueness is preserved (what `C10.ExtWF` asks of an `app1` operator). -/
theorem mapValD_WF (f : Value → R Value) (out : Option String) (x r : DS) (wx : x.WF)
    (h : mapValD f out x = .ok r) : r.WF := by
  unfold mapValD at h
  cases hm : mapRows (valRow x f out) x.rows with
  | error er => simp [hm, Except.map] at h
  | ok rows =>
    simp [hm, Except.map] at h
    subst h
    exact mapRows_WF _ x.ids x.ids x.rows rows hm (fun rc r' _ hf => valRow_key x f out rc r' hf) wx

theorem valRow_congr (x x' : DS) (f : Value → R Value) (out : Option String) (h1 : x.ids = x'.ids)
    (h2 : x.meas = x'.meas) : valRow x f out = valRow x' f out := by
  funext r
  simp only [valRow, valVals, h1, h2]

/-- permuting the operand's rows permutes the result's rows and preserves failure (`C33.ExtPerm`). -/
theorem mapValD_perm (f : Value → R Value) (out : Option String) (x y : DS) (h : DSEquiv x y) :
    Rel2 DSEquiv (mapValD f out x) (mapValD f out y) := by
  unfold mapValD
  rw [← valRow_congr x y f out h.1 h.2.1]
  rcases mapRows_perm (valRow x f out) h.2.2 with ⟨a, b, h1, h2⟩ | ⟨a, b, h1, h2, hp⟩
  · rw [h1, h2]; exact Or.inl ⟨a, b, rfl, rfl⟩
  · rw [h1, h2]
    refine Or.inr ⟨_, _, rfl, rfl, ?_⟩
    exact ⟨h.1, by rw [h.2.1], hp⟩

end VtlModel.Sem

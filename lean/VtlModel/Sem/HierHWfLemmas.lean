import VtlModel.Sem.HierWfLemmas
/-! Key uniqueness and permutation invariance of `hierarchy`. -/
namespace VtlModel.Sem
open List

theorem hStepP_out (mode : HMode) (imode : HInput) (st0 : St) (ρ : HRule) (w : Value) (st : St) :
    (hStepP mode imode st0 ρ w st).2 = none ∨ ∃ c, (hStepP mode imode st0 ρ w st).2 = some (ρ.left, c) := by
  simp only [hStepP]
  cases hm : modeFilterH mode (if imode == .dataset then st0 else st) ρ with
  | false => rw [hEffect_idle mode imode st0 ρ w st hm]; exact Or.inl rfl
  | true =>
    rw [hEffect_fired mode imode st0 ρ w st hm]
    by_cases he : emits mode (compOf mode w (if imode == .dataset then st0 else st) ρ) = true
    · right; exact ⟨_, if_pos he⟩
    · left; exact if_neg he

/-- the computed items of a run are items defined by the rules, in rule order, at most once per rule. -/
theorem hRunP_items (mode : HMode) (imode : HInput) (st0 : St) : ∀ (l : List (HRule × Value)) (st : St),
    ((hRunP mode imode st0 l st).2.map (·.1)).Sublist (l.map (·.1.left)) := by
  intro l
  induction l with
  | nil => intro st; simp [hRunP]
  | cons a rest ih =>
    intro st
    obtain ⟨ρ, w⟩ := a
    simp only [hRunP, List.map_append, List.map_cons]
    rcases hStepP_out mode imode st0 ρ w st with h | ⟨c, h⟩
    · rw [h]
      simp only [Option.toList_none, List.map_nil, List.nil_append]
      exact List.Sublist.cons _ (ih _)
    · rw [h]
      simp only [Option.toList_some, List.map_cons, List.map_nil, List.cons_append, List.nil_append]
      exact List.Sublist.cons_cons _ (ih _)

theorem hRun_items (mode : HMode) (imode : HInput) (g : Row) (st0 : St) (rules : List HRule) (st st' : St)
    (os : List (String × Option Rat)) (h : hRun mode imode g st0 rules st = .ok (st', os)) :
    (os.map (·.1)).Sublist (rules.map (·.left)) := by
  rw [hRun_eq] at h
  cases hc : condsOf g rules with
  | error e => simp [hc, Except.map] at h
  | ok l =>
    simp only [hc, Except.map, Except.ok.injEq] at h
    have := hRunP_items mode imode st0 l st
    rw [h] at this
    have hf := condsOf_fst g rules l hc
    rw [← hf, List.map_map]
    exact this

theorem hGroup_ok {mode : HMode} {imode : HInput} {other : List String} {rc m : String} {rules : List HRule} {st : Row → St}
    {g : Row} {rows : List Row} (h : hGroup mode imode other rc m rules st g = .ok rows) :
    ∃ st' os, hRun mode imode g (st g) rules (st g) = .ok (st', os) ∧ rows = os.map (hRowOf other rc m g) := by
  unfold hGroup at h
  obtain ⟨p, hp, h⟩ := (bind_ok' _ _ _).1 h
  obtain ⟨st', os⟩ := p
  simp only [pure, Except.pure, Except.ok.injEq] at h
  exact ⟨st', os, hp, h.symm⟩

theorem hRowOf_get_other (other : List String) (rc m : String) (g : Row) (o : String × Option Rat) (i : String) (hi : i ∈ other) :
    (hRowOf other rc m g o).get i = g.get i := by
  unfold hRowOf
  exact get_proj_append g other _ i hi

theorem hRowOf_get_rc (other : List String) (rc m : String) (g : Row) (o : String × Option Rat) (h : rc ∉ other) :
    (hRowOf other rc m g o).get rc = .str o.1 := by
  unfold hRowOf
  rw [get_proj_append_not_mem g other _ rc h]
  simp [Row.get, List.lookup]

theorem rc_not_other (x : DS) (rc : String) : rc ∉ x.ids.filter (fun i => i != rc) := by
  intro h
  have := (List.mem_filter.1 h).2
  simp at this

theorem mem_other (x : DS) (rc i : String) (hi : i ∈ x.ids) (hne : i ≠ rc) : i ∈ x.ids.filter (fun i => i != rc) :=
  List.mem_filter.2 ⟨hi, by simpa using hne⟩

/-- equal keys of two computed rows: same item, same group values. -/
theorem h_key_inj (x : DS) (rc m : String) (g1 g2 : Row) (o1 o2 : String × Option Rat) (hrc : rc ∈ x.ids)
    (hk : (hRowOf (x.ids.filter (fun i => i != rc)) rc m g1 o1).key x.ids = (hRowOf (x.ids.filter (fun i => i != rc)) rc m g2 o2).key x.ids) :
    o1.1 = o2.1 ∧ ∀ i ∈ x.ids.filter (fun i => i != rc), g1.get i = g2.get i := by
  have hg := key_eq_get _ _ x.ids hk
  constructor
  · have := hg rc hrc
    rw [hRowOf_get_rc _ rc m g1 o1 (rc_not_other x rc), hRowOf_get_rc _ rc m g2 o2 (rc_not_other x rc)] at this
    simpa using this
  · intro i hi
    have := hg i (List.mem_filter.1 hi).1
    rwa [hRowOf_get_other _ rc m g1 o1 i hi, hRowOf_get_other _ rc m g2 o2 i hi] at this

theorem hier_computed_nodup (x : DS) (rc m : String) (mode : HMode) (imode : HInput) (eqs : List HRule) (items : List String)
    (hrc : rc ∈ x.ids) (hnd : (eqs.map (·.left)).Nodup) :
    ∀ (groups : List Row) (per : List (List Row)), groups.Nodup →
      (∀ g ∈ groups, g ∈ groupsOf x rc (x.ids.filter (fun i => i != rc)) items) →
      groups.mapM (hGroup mode imode (x.ids.filter (fun i => i != rc)) rc m eqs (initSt x rc m)) = .ok per →
      (per.flatten.map (·.key x.ids)).Nodup := by
  intro groups
  induction groups with
  | nil =>
    intro per _ _ h
    simp [List.mapM_nil, pure, Except.pure] at h
    subst h
    exact List.nodup_nil
  | cons g gs ih =>
    intro per hn hin h
    obtain ⟨rows, per', hrows, hper', rfl⟩ := (mapM_ok_cons _ g gs per).1 h
    have hn' := List.nodup_cons.1 hn
    simp only [List.flatten_cons, List.map_append]
    obtain ⟨st', os, hrun, rfl⟩ := hGroup_ok hrows
    have hos : (os.map (·.1)).Nodup := (hRun_items mode imode g _ eqs _ st' os hrun).nodup hnd
    refine List.nodup_append.2 ⟨?_, ih per' hn'.2 (fun g' hg' => hin g' (List.mem_cons_of_mem _ hg')) hper', ?_⟩
    · rw [List.map_map]
      refine nodup_map_of_nodup_map (·.1) _ os hos ?_
      intro a _ b _ hk
      exact (h_key_inj x rc m g g a b hrc hk).1
    · intro k hk1 k' hk2 hkk
      subst hkk
      obtain ⟨ra, hra, rfl⟩ := List.mem_map.1 hk1
      obtain ⟨rb, hrb, hkb⟩ := List.mem_map.1 hk2
      obtain ⟨oa, _, rfl⟩ := List.mem_map.1 hra
      obtain ⟨rows', hrows', hrb'⟩ := List.mem_flatten.1 hrb
      obtain ⟨g', hg', hf'⟩ := (mapM_ok_mem _ gs per' hper' rows').1 hrows'
      obtain ⟨st'', os', _, rfl⟩ := hGroup_ok hf'
      obtain ⟨ob, _, rfl⟩ := List.mem_map.1 hrb'
      have hgg := (h_key_inj x rc m g' g ob oa hrc hkb).2
      have : g' = g := group_ext x rc _ items g' g (hin g' (List.mem_cons_of_mem _ hg')) (hin g List.mem_cons_self) hgg
      exact hn'.1 (this ▸ hg')

theorem keys_proj_eq' (rows : List Row) (ids comps : List String) (h : ∀ i ∈ ids, i ∈ comps) :
    (rows.map (·.proj comps)).map (·.key ids) = rows.map (·.key ids) := by
  rw [List.map_map]
  apply List.map_congr_left
  intro r _
  exact key_proj r comps ids h

theorem hierarchy_ok {rules : List HRule} {mode : HMode} {imode : HInput} {all : Bool} {rc : String} {x res : DS}
    (h : hierarchy rules mode imode all rc x = .ok res) :
    ∃ m per, mono x = .ok m ∧ rc ∈ x.ids ∧ ((rules.filter (fun ρ => ρ.cmp == .eq)).map (·.left)).Nodup ∧
      (groupsOf x rc (x.ids.filter (fun i => i != rc)) (allItems (rules.filter (fun ρ => ρ.cmp == .eq)))).mapM
        (hGroup mode imode (x.ids.filter (fun i => i != rc)) rc m (rules.filter (fun ρ => ρ.cmp == .eq)) (initSt x rc m)) = .ok per ∧
      res = (if all then
               { x with rows := (x.rows.filter (fun r => !keyIn x.ids (per.flatten.map (·.key x.ids)) r)).map (·.proj x.comps) ++ per.flatten }
             else { x with rows := per.flatten }) := by
  unfold hierarchy at h
  obtain ⟨m, hm, h⟩ := (bind_ok' _ _ _).1 h
  by_cases hg : (!x.ids.contains rc || !decide ((rules.filter (fun ρ => ρ.cmp == .eq)).map (·.left)).Nodup) = true
  · rw [if_pos hg] at h
    cases h
  · rw [if_neg hg] at h
    simp only [Bool.or_eq_true, Bool.not_eq_eq_eq_not, Bool.not_true, decide_eq_false_iff_not, not_or, Decidable.not_not,
      Bool.not_eq_false, List.contains_iff_mem] at hg
    obtain ⟨per, hper, h⟩ := (bind_ok' _ _ _).1 h
    refine ⟨m, per, hm, hg.1, hg.2, hper, ?_⟩
    cases all with
    | true => simp only [if_true, pure, Except.pure, Except.ok.injEq] at h ⊢; exact h.symm
    | false => simp only [Bool.false_eq_true, if_false, pure, Except.pure, Except.ok.injEq] at h ⊢; exact h.symm

theorem hierarchy_WF_aux (rules : List HRule) (mode : HMode) (imode : HInput) (all : Bool) (rc : String) (x res : DS)
    (w : x.WF) (h : hierarchy rules mode imode all rc x = .ok res) : res.WF := by
  obtain ⟨m, per, _, hrc, hnd, hper, rfl⟩ := hierarchy_ok h
  have hc : (per.flatten.map (·.key x.ids)).Nodup :=
    hier_computed_nodup x rc m mode imode _ _ hrc hnd _ per (hdedup_nodup _) (fun g hg => hg) hper
  cases all with
  | false => exact hc
  | true =>
    simp only [if_true]
    show ((List.map (fun r => r.proj x.comps) (List.filter (fun r => !keyIn x.ids (per.flatten.map (·.key x.ids)) r) x.rows)
            ++ per.flatten).map (·.key x.ids)).Nodup
    rw [List.map_append, keys_proj_eq' _ x.ids x.comps (fun i hi => List.mem_append_left _ hi)]
    refine List.nodup_append.2 ⟨(List.filter_sublist.map _).nodup w, hc, ?_⟩
    intro k hk1 k' hk2 hkk
    subst hkk
    obtain ⟨r0, hr0, rfl⟩ := List.mem_map.1 hk1
    have h2 : (!keyIn x.ids (per.flatten.map (·.key x.ids)) r0) = true := (List.mem_filter.1 hr0).2
    have : keyIn x.ids (per.flatten.map (·.key x.ids)) r0 = true := by
      unfold keyIn; simp only [List.contains_iff_mem]; exact hk2
    rw [this] at h2
    exact absurd h2 (by decide)

/-! ### permutation -/

theorem perm_flatten {α : Type} {l l' : List (List α)} (h : l.Perm l') : l.flatten.Perm l'.flatten := by
  induction h with
  | nil => exact Perm.refl _
  | cons a _ ih => simp only [List.flatten_cons]; exact Perm.append_left _ ih
  | swap a b l =>
    simp only [List.flatten_cons, ← List.append_assoc]
    exact Perm.append_right _ perm_append_comm
  | trans _ _ ih1 ih2 => exact ih1.trans ih2

theorem mapM_flatten_perm_list {α : Type} (f : α → R (List Row)) {l l' : List α} (h : l.Perm l') :
    Rel2 Perm ((l.mapM f).map List.flatten) ((l'.mapM f).map List.flatten) := by
  rcases mapM_ok_or_error f l with ⟨xs, hx⟩ | ⟨e, he⟩
  · obtain ⟨xs', hx', hp⟩ := mapM_perm f h xs hx
    rw [hx, hx']
    exact Or.inr ⟨_, _, rfl, rfl, perm_flatten hp⟩
  · obtain ⟨a, ha, e1, he1⟩ := (mapM_error_iff f l).1 ⟨e, he⟩
    obtain ⟨e2, he2⟩ := (mapM_error_iff f l').2 ⟨a, h.mem_iff.1 ha, e1, he1⟩
    rw [he, he2]
    exact Rel2.error _ _

theorem hierarchy_perm_aux (rules : List HRule) (mode : HMode) (imode : HInput) (all : Bool) (rc : String) (x x' : DS)
    (w : x.WF) (hx : DSEquiv x x') :
    Rel2 DSEquiv (hierarchy rules mode imode all rc x) (hierarchy rules mode imode all rc x') := by
  unfold hierarchy
  refine Rel2.bind (P := Eq) (by rw [mono_congr hx.2.1]; exact Rel2.rfl_eq _) ?_
  intro m m' hm
  subst hm
  have hcomps : x'.comps = x.comps := by unfold DS.comps; rw [hx.1, hx.2.1]
  rw [← hx.1, ← initSt_congr x x' rc m w hx, hcomps]
  by_cases hc : (!x.ids.contains rc || !decide ((rules.filter (fun ρ => ρ.cmp == .eq)).map (·.left)).Nodup) = true
  · simp only [hc, if_true]
    exact Rel2.error _ _
  · simp only [hc, if_false]
    have key := mapM_flatten_perm_list
      (hGroup mode imode (x.ids.filter (fun i => i != rc)) rc m (rules.filter (fun ρ => ρ.cmp == .eq)) (initSt x rc m))
      (groupsOf_perm x x' rc (x.ids.filter (fun i => i != rc)) (allItems (rules.filter (fun ρ => ρ.cmp == .eq))) hx.2.2)
    generalize List.mapM (hGroup mode imode (x.ids.filter (fun i => i != rc)) rc m (rules.filter (fun ρ => ρ.cmp == .eq)) (initSt x rc m))
      (groupsOf x rc (x.ids.filter (fun i => i != rc)) (allItems (rules.filter (fun ρ => ρ.cmp == .eq)))) = A at key ⊢
    generalize List.mapM (hGroup mode imode (x.ids.filter (fun i => i != rc)) rc m (rules.filter (fun ρ => ρ.cmp == .eq)) (initSt x rc m))
      (groupsOf x' rc (x.ids.filter (fun i => i != rc)) (allItems (rules.filter (fun ρ => ρ.cmp == .eq)))) = B at key ⊢
    cases A with
    | error e =>
      cases B with
      | error e' => exact Rel2.error _ _
      | ok v =>
        rcases key with ⟨_, _, _, h2⟩ | ⟨_, _, h1, _, _⟩
        · simp [Except.map] at h2
        · simp [Except.map] at h1
    | ok v =>
      cases B with
      | error e' =>
        rcases key with ⟨_, _, h1, _⟩ | ⟨_, _, _, h2, _⟩
        · simp [Except.map] at h1
        · simp [Except.map] at h2
      | ok v' =>
        have hp : v.flatten.Perm v'.flatten := by
          rcases key with ⟨_, _, h1, _⟩ | ⟨a, b, h1, h2, hp⟩
          · simp [Except.map] at h1
          · simp only [Except.map, Except.ok.injEq] at h1 h2
            subst h1 h2
            exact hp
        simp only [bind, Except.bind]
        cases all with
        | false => exact Or.inr ⟨_, _, rfl, rfl, rfl, hx.2.1, hp⟩
        | true =>
          simp only [if_true, pure, Except.pure]
          refine Or.inr ⟨_, _, rfl, rfl, rfl, hx.2.1, ?_⟩
          have hk : (fun r => !keyIn x.ids (v'.flatten.map (·.key x.ids)) r) = (fun r => !keyIn x.ids (v.flatten.map (·.key x.ids)) r) := by
            funext r
            rw [keyIn_perm x.ids _ _ (hp.symm.map _) r]
          simp only [hk]
          exact ((hx.2.2.filter _).map _).append hp

end VtlModel.Sem

import VtlModel.Sem.HierOrderLemmas
/-! Lemmas about `check_hierarchy`: which (rule, group) pairs produce a row, and what the row holds. -/
namespace VtlModel.Sem
open List

/-- a row is produced for (rule, group) exactly when the validation mode applies the rule to the group
and — in `invalid` mode — the `when` condition is TRUE and the comparison FALSE. -/
theorem chRow_some_iff (mode : HMode) (out : DPOut) (other : List String) (rc m : String) (ρ : HRule) (st : Row → St)
    (g r' : Row) :
    chRow mode out other rc m ρ st g = .ok (some r') ↔
      ∃ w, condOf ρ g = .ok w ∧ modeFilterC mode (st g) ρ = true ∧
        (out = .invalid → w = .bool true ∧ chBool mode ρ (st g) w = .bool false) ∧
        r' = chRowOf mode out other rc m ρ g (st g) w := by
  unfold chRow
  cases hc : condOf ρ g with
  | error e => simp [bind, Except.bind]
  | ok w =>
    simp only [bind, Except.bind]
    constructor
    · intro h
      refine ⟨w, rfl, ?_⟩
      cases hm : modeFilterC mode (st g) ρ with
      | false => simp [hm, pure, Except.pure] at h
      | true =>
        simp only [hm, Bool.not_true, Bool.false_eq_true, if_false] at h
        split at h
        · simp [pure, Except.pure] at h
        · rename_i hn
          simp only [pure, Except.pure, Except.ok.injEq, Option.some.injEq] at h
          refine ⟨rfl, ?_, h.symm⟩
          intro ho
          subst ho
          cases hw : (w != Value.bool true) with
          | true => simp [hw] at hn
          | false =>
            cases hf : isFalse (chBool mode ρ (st g) w) with
            | false => simp [hw, hf] at hn
            | true => exact ⟨by simpa using hw, (isFalse_iff _).1 hf⟩
    · rintro ⟨w', hw', hm, hinv, rfl⟩
      simp only [Except.ok.injEq] at hw'
      subst hw'
      simp only [hm, Bool.not_true, Bool.false_eq_true, if_false]
      split
      · rename_i hc2
        exfalso
        cases out with
        | invalid =>
          obtain ⟨h1, h2⟩ := hinv rfl
          subst h1
          simp [(isFalse_iff _).2 h2] at hc2
        | all =>
          have : (DPOut.all == DPOut.invalid) = false := by decide
          simp [this] at hc2
        | allMeasures =>
          have : (DPOut.allMeasures == DPOut.invalid) = false := by decide
          simp [this] at hc2
      · rfl

theorem chRows_mem (mode : HMode) (out : DPOut) (other : List String) (rc m : String) (st : Row → St) (groups : List Row) :
    ∀ (rules : List HRule) (rows : List Row), chRows mode out other rc m st groups rules = .ok rows →
      ∀ r', r' ∈ rows ↔ ∃ ρ ∈ rules, ∃ g ∈ groups, chRow mode out other rc m ρ st g = .ok (some r') := by
  intro rules
  induction rules with
  | nil =>
    intro rows h r'
    simp only [chRows, Except.ok.injEq] at h
    subst h
    simp
  | cons ρ rest ih =>
    intro rows h r'
    simp only [chRows] at h
    obtain ⟨a, ha, h⟩ := (bind_ok' _ _ _).1 h
    obtain ⟨b, hb, h⟩ := (bind_ok' _ _ _).1 h
    simp only [pure, Except.pure, Except.ok.injEq] at h
    subst h
    rw [List.mem_append, mapRows_mem _ _ _ ha r', ih b hb r']
    constructor
    · rintro (⟨g, hg, hf⟩ | ⟨σ, hσ, g, hg, hf⟩)
      · exact ⟨ρ, List.mem_cons_self, g, hg, hf⟩
      · exact ⟨σ, List.mem_cons_of_mem _ hσ, g, hg, hf⟩
    · rintro ⟨σ, hσ, g, hg, hf⟩
      rcases List.mem_cons.1 hσ with rfl | hσ'
      · exact Or.inl ⟨g, hg, hf⟩
      · exact Or.inr ⟨σ, hσ', g, hg, hf⟩

theorem checkHierarchy_ok {rules : List HRule} {mode : HMode} {out : DPOut} {rc : String} {x res : DS}
    (h : checkHierarchy rules mode out rc x = .ok res) :
    ∃ m rows, mono x = .ok m ∧ hrGuard x rc rules = true ∧
      chRows mode out (x.ids.filter (fun i => i != rc)) rc m (initSt x rc m)
        (groupsOf x rc (x.ids.filter (fun i => i != rc)) (allItems rules)) rules = .ok rows ∧
      res = { ids := x.ids ++ ["ruleid"], meas := chMeas out m, rows } := by
  unfold checkHierarchy at h
  obtain ⟨m, hm, h⟩ := (bind_ok' _ _ _).1 h
  split at h
  · cases h
  · rename_i hg
    obtain ⟨rows, hr, h⟩ := (bind_ok' _ _ _).1 h
    simp only [pure, Except.pure, Except.ok.injEq] at h
    exact ⟨m, rows, hm, by simpa using hg, hr, h.symm⟩

/-! ### the columns of a `check_hierarchy` row (`all` output) -/

theorem chRowOf_all_get (mode : HMode) (other : List String) (rc m : String) (ρ : HRule) (g : Row) (st : St) (w : Value)
    (n : String) (h1 : n ∉ other) (h2 : n ≠ rc) (h3 : n ≠ "ruleid") :
    (chRowOf mode .all other rc m ρ g st w).get n =
      Row.get ([("bool_var", chBool mode ρ st w), ("imbalance", ratV (chImb mode ρ st w))] ++ errCols ρ.ec ρ.el (chBool mode ρ st w)) n := by
  unfold chRowOf
  rw [get_proj_append_not_mem g other _ n h1]
  have e1 : (n == rc) = false := by simpa using h2
  have e2 : (n == "ruleid") = false := by simpa using h3
  simp [Row.get, List.lookup, e1, e2]

end VtlModel.Sem

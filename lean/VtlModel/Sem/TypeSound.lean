import VtlModel.Sem.Types
/-! Soundness of the type system of `Types.lean` for the scalar operators. -/
namespace VtlModel.Sem

theorem unop_sound (op : UnOp) (v w : Value) (t τ : Ty) (ht : tyUn op t = some τ) (hv : v.hasTy t = true)
    (h : unop op v = .ok w) : w.hasTy τ = true := by
  cases op <;> cases v <;> cases t <;>
    simp_all [tyUn, unop, Value.hasTy, Ty.numeric, not3] <;>
    (try (subst_vars; simp_all [Value.hasTy])) <;>
    (try (split at ht <;> simp_all [Value.hasTy]))

theorem unop_no_type_error (op : UnOp) (v : Value) (t τ : Ty) (ht : tyUn op t = some τ) (hv : v.hasTy t = true) :
    unop op v ≠ .error .type := by
  cases op <;> cases v <;> cases t <;> simp_all [tyUn, unop, Value.hasTy, Ty.numeric, not3]

theorem arith_sound (fi : Int → Int → Int) (fq : Rat → Rat → Rat) (a b w : Value) (ta tb : Ty)
    (hn : ta.numeric = true ∧ tb.numeric = true) (ha : a.hasTy ta = true) (hb : b.hasTy tb = true)
    (h : arith fi fq a b = .ok w) :
    w.hasTy (if ta == .num || tb == .num then .num else .int) = true := by
  cases a <;> cases b <;> cases ta <;> cases tb <;>
    simp_all [arith, Value.hasTy, Ty.numeric] <;> (subst_vars; simp [Value.hasTy])

end VtlModel.Sem

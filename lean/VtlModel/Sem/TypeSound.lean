import VtlModel.Sem.Types
/-! Soundness of the type system of `Types.lean`: operators first, then `evalS` by induction. -/
namespace VtlModel.Sem

/-! ### inversion of `hasTy` -/

inductive NumV : Value → Prop
  | null : NumV .null
  | int (i) : NumV (.int i)
  | num (q) : NumV (.num q)

inductive IntV : Value → Prop
  | null : IntV .null
  | int (i) : IntV (.int i)

inductive BoolV : Value → Prop
  | null : BoolV .null
  | bool (b) : BoolV (.bool b)

inductive StrV : Value → Prop
  | null : StrV .null
  | str (s) : StrV (.str s)

theorem inv_num (v : Value) (t : Ty) (h : v.hasTy t = true) (ht : t.numeric = true) : NumV v := by
  cases v <;> cases t <;> simp_all [Value.hasTy, Ty.numeric] <;> constructor

theorem inv_int (v : Value) (t : Ty) (h : v.hasTy t = true) (ht : t = .int ∨ t = .nul) : IntV v := by
  rcases ht with rfl | rfl <;> cases v <;> simp_all [Value.hasTy] <;> constructor

theorem inv_bool (v : Value) (t : Ty) (h : v.hasTy t = true) (ht : t = .bool ∨ t = .nul) : BoolV v := by
  rcases ht with rfl | rfl <;> cases v <;> simp_all [Value.hasTy] <;> constructor

theorem inv_str (v : Value) (t : Ty) (h : v.hasTy t = true) (ht : t = .str ∨ t = .nul) : StrV v := by
  rcases ht with rfl | rfl <;> cases v <;> simp_all [Value.hasTy] <;> constructor

theorem NumV.hasTy_num {v : Value} (h : NumV v) : v.hasTy .num = true := by cases h <;> rfl
theorem IntV.hasTy_int {v : Value} (h : IntV v) : v.hasTy .int = true := by cases h <;> rfl
theorem BoolV.hasTy_bool {v : Value} (h : BoolV v) : v.hasTy .bool = true := by cases h <;> rfl
theorem StrV.hasTy_str {v : Value} (h : StrV v) : v.hasTy .str = true := by cases h <;> rfl

theorem beq_or_nul (t x : Ty) (h : (t == x || t == Ty.nul) = true) : t = x ∨ t = .nul := by
  cases t <;> cases x <;> simp_all

/-- for numeric operand types, the "integer result" case means both operands are integers or null. -/
theorem int_case (ta tb : Ty) (hn : ta.numeric = true ∧ tb.numeric = true) (h : (ta == Ty.num || tb == Ty.num) = false) :
    (ta = .int ∨ ta = .nul) ∧ (tb = .int ∨ tb = .nul) := by
  cases ta <;> cases tb <;> simp_all [Ty.numeric]

/-! ### operators -/

theorem unop_sound (op : UnOp) (v w : Value) (t τ : Ty) (ht : tyUn op t = some τ) (hv : v.hasTy t = true)
    (h : unop op v = .ok w) : w.hasTy τ = true := by
  cases op <;> cases v <;> cases t <;>
    simp_all [tyUn, unop, Value.hasTy, Ty.numeric, not3] <;>
    (try (subst_vars; simp_all [Value.hasTy])) <;>
    (try (split at ht <;> simp_all [Value.hasTy]))

theorem arith_int (fi : Int → Int → Int) (fq : Rat → Rat → Rat) (a b w : Value) (ha : IntV a) (hb : IntV b)
    (h : arith fi fq a b = .ok w) : IntV w := by
  cases ha <;> cases hb <;> simp [arith] at h <;> subst h <;> constructor

theorem arith_num (fi : Int → Int → Int) (fq : Rat → Rat → Rat) (a b w : Value) (ha : NumV a) (hb : NumV b)
    (h : arith fi fq a b = .ok w) : NumV w := by
  cases ha <;> cases hb <;> simp [arith] at h <;> subst h <;> constructor

theorem vmod_int (a b w : Value) (ha : IntV a) (hb : IntV b) (h : vmod a b = .ok w) : IntV w := by
  cases ha <;> cases hb <;> simp [vmod] at h
  · subst h; constructor
  · subst h; constructor
  · subst h; constructor
  · split at h <;> (subst h; constructor)

theorem vmod_num (a b w : Value) (ha : NumV a) (hb : NumV b) (h : vmod a b = .ok w) : NumV w := by
  cases ha <;> cases hb <;> simp [vmod, Value.toRat?] at h <;>
    (try (subst h; constructor)) <;>
    (repeat' (split at h)) <;> (try (cases h)) <;> (try (subst h; constructor)) <;>
    (try (simp at h; subst h; constructor)) <;> (try constructor)

theorem vdiv_num (a b w : Value) (ha : NumV a) (hb : NumV b) (h : vdiv a b = .ok w) : NumV w := by
  cases ha <;> cases hb <;> simp [vdiv, Value.toRat?] at h <;>
    (try (subst h; constructor)) <;>
    (repeat' (split at h)) <;> (try (cases h)) <;> (try (subst h; constructor)) <;>
    (try (simp at h; subst h; constructor)) <;> (try constructor)

theorem vpower_num (a b w : Value) (ha : NumV a) (hb : IntV b) (h : vpower a b = .ok w) : NumV w := by
  cases ha <;> cases hb <;> simp [vpower, Value.toRat?] at h <;>
    (try (subst h; constructor)) <;>
    (repeat' (split at h)) <;> (try (cases h)) <;> (try (subst h; constructor)) <;>
    (try (simp at h; subst h; constructor)) <;> (try constructor)

theorem cmpOp_sound (f : Ordering → Bool) (a b w : Value) (h : cmpOp f a b = .ok w) : BoolV w := by
  unfold cmpOp at h
  cases hc : cmp? a b with
  | error e => simp [hc, bind, Except.bind] at h
  | ok o =>
    cases o with
    | none => simp [hc, bind, Except.bind, pure, Except.pure] at h; subst h; constructor
    | some x => simp [hc, bind, Except.bind, pure, Except.pure] at h; subst h; constructor

theorem and3_bool (a b w : Value) (ha : BoolV a) (hb : BoolV b) (h : and3 a b = .ok w) : BoolV w := by
  cases ha <;> cases hb <;> (try (rename_i x y; cases x <;> cases y)) <;> (try (rename_i x; cases x)) <;>
    simp [and3] at h <;> subst h <;> constructor

theorem or3_bool (a b w : Value) (ha : BoolV a) (hb : BoolV b) (h : or3 a b = .ok w) : BoolV w := by
  cases ha <;> cases hb <;> (try (rename_i x y; cases x <;> cases y)) <;> (try (rename_i x; cases x)) <;>
    simp [or3] at h <;> subst h <;> constructor

theorem xor3_bool (a b w : Value) (ha : BoolV a) (hb : BoolV b) (h : xor3 a b = .ok w) : BoolV w := by
  cases ha <;> cases hb <;> simp [xor3] at h <;> subst h <;> constructor

theorem concat_str (a b w : Value) (ha : StrV a) (hb : StrV b) (h : concat a b = .ok w) : StrV w := by
  cases ha <;> cases hb <;> simp [concat] at h <;> subst h <;> constructor

theorem binop_sound (op : BinOp) (a b w : Value) (ta tb τ : Ty) (ht : tyBin op ta tb = some τ)
    (ha : a.hasTy ta = true) (hb : b.hasTy tb = true) (h : binop op a b = .ok w) : w.hasTy τ = true := by
  cases op
  case add | sub | mul =>
    simp only [tyBin] at ht
    split at ht
    · rename_i hn
      have hn' : ta.numeric = true ∧ tb.numeric = true := by simpa using hn
      cases hnum : (ta == Ty.num || tb == Ty.num) with
      | true =>
        simp [hnum] at ht; subst ht
        exact (arith_num _ _ a b w (inv_num a ta ha hn'.1) (inv_num b tb hb hn'.2) h).hasTy_num
      | false =>
        simp [hnum] at ht; subst ht
        obtain ⟨h1, h2⟩ := int_case ta tb hn' hnum
        exact (arith_int _ _ a b w (inv_int a ta ha h1) (inv_int b tb hb h2) h).hasTy_int
    · cases ht
  case mod =>
    simp only [tyBin] at ht
    split at ht
    · rename_i hn
      have hn' : ta.numeric = true ∧ tb.numeric = true := by simpa using hn
      cases hnum : (ta == Ty.num || tb == Ty.num) with
      | true =>
        simp [hnum] at ht; subst ht
        exact (vmod_num a b w (inv_num a ta ha hn'.1) (inv_num b tb hb hn'.2) h).hasTy_num
      | false =>
        simp [hnum] at ht; subst ht
        obtain ⟨h1, h2⟩ := int_case ta tb hn' hnum
        exact (vmod_int a b w (inv_int a ta ha h1) (inv_int b tb hb h2) h).hasTy_int
    · cases ht
  case div =>
    simp only [tyBin] at ht
    split at ht
    · rename_i hn
      have hn' : ta.numeric = true ∧ tb.numeric = true := by simpa using hn
      simp at ht; subst ht
      exact (vdiv_num a b w (inv_num a ta ha hn'.1) (inv_num b tb hb hn'.2) h).hasTy_num
    · cases ht
  case eq | ne | lt | le | gt | ge =>
    simp only [tyBin] at ht
    cases hj : Ty.join ta tb with
    | none => simp [hj] at ht
    | some tj =>
      simp [hj] at ht
      subst ht
      exact (cmpOp_sound _ a b w h).hasTy_bool
  case and =>
    simp only [tyBin] at ht
    split at ht
    · rename_i hc
      simp at ht; subst ht
      have hc' := Bool.and_eq_true_iff.mp hc
      exact (and3_bool a b w (inv_bool a ta ha (beq_or_nul _ _ hc'.1)) (inv_bool b tb hb (beq_or_nul _ _ hc'.2)) h).hasTy_bool
    · cases ht
  case or =>
    simp only [tyBin] at ht
    split at ht
    · rename_i hc
      simp at ht; subst ht
      have hc' := Bool.and_eq_true_iff.mp hc
      exact (or3_bool a b w (inv_bool a ta ha (beq_or_nul _ _ hc'.1)) (inv_bool b tb hb (beq_or_nul _ _ hc'.2)) h).hasTy_bool
    · cases ht
  case xor =>
    simp only [tyBin] at ht
    split at ht
    · rename_i hc
      simp at ht; subst ht
      have hc' := Bool.and_eq_true_iff.mp hc
      exact (xor3_bool a b w (inv_bool a ta ha (beq_or_nul _ _ hc'.1)) (inv_bool b tb hb (beq_or_nul _ _ hc'.2)) h).hasTy_bool
    · cases ht
  case concat =>
    simp only [tyBin] at ht
    split at ht
    · rename_i hc
      simp at ht; subst ht
      have hc' := Bool.and_eq_true_iff.mp hc
      exact (concat_str a b w (inv_str a ta ha (beq_or_nul _ _ hc'.1)) (inv_str b tb hb (beq_or_nul _ _ hc'.2)) h).hasTy_str
    · cases ht
  case power =>
    simp only [tyBin] at ht
    split at ht
    · rename_i hc
      simp at ht; subst ht
      have hc' := Bool.and_eq_true_iff.mp hc
      exact (vpower_num a b w (inv_num a ta ha hc'.1) (inv_int b tb hb (beq_or_nul _ _ hc'.2)) h).hasTy_num
    · cases ht
  case log => simp [tyBin] at ht
  case nvl =>
    simp only [tyBin] at ht
    obtain ⟨h1, h2⟩ := join_ub ta tb τ ht
    cases a <;> simp [binop, nvl] at h <;> subst h
    · exact hasTy_mono _ _ _ h2 hb
    all_goals exact hasTy_mono _ _ _ h1 ha

end VtlModel.Sem

namespace VtlModel.Sem

theorem between_bool (x lo hi w : Value) (h : between x lo hi = .ok w) : BoolV w := by
  unfold between at h
  split at h
  all_goals (try (simp only [pure, Except.pure, Except.ok.injEq] at h; subst h; constructor))
  simp only [bind, Except.bind] at h
  cases h1 : cmp? lo x with
  | error e => simp [h1] at h
  | ok o1 =>
    cases h2 : cmp? x hi with
    | error e => simp [h1, h2] at h
    | ok o2 =>
      simp only [h1, h2] at h
      cases o1 <;> cases o2 <;> simp [pure, Except.pure] at h <;> subst h <;> constructor

theorem vin_bool (x : Value) (xs : List Value) (w : Value) (h : vin x xs = .ok w) : BoolV w := by
  unfold vin at h
  cases x <;> simp at h <;> (try (subst h; constructor)) <;>
    (repeat' (split at h)) <;> (simp at h; subst h; constructor)

theorem not3_bool (v w : Value) (hv : BoolV v) (h : not3 v = .ok w) : BoolV w := by
  cases hv <;> simp [not3] at h <;> subst h <;> constructor

theorem substr_str (s a b w : Value) (hs : StrV s) (h : substr s a b = .ok w) : StrV w := by
  cases hs <;> simp [substr] at h
  · subst h; constructor
  · split at h <;> (simp at h; subst h; constructor)

theorem replace_str (s a b w : Value) (hs : StrV s) (ha : StrV a) (hb : StrV b) (h : replace s a b = .ok w) : StrV w := by
  cases hs <;> cases ha <;> cases hb <;> simp [replace] at h <;> subst h <;> constructor

theorem roundV_num (tr : Bool) (x n w : Value) (hx : NumV x) (h : roundV tr x n = .ok w) : NumV w := by
  cases hx
  · simp [roundV] at h; subst h; constructor
  all_goals
    simp only [roundV, Value.toRat?] at h
    repeat' split at h
    all_goals first | (cases h; done) | (simp only [Except.ok.injEq] at h; subst h; constructor)

/-- **Type soundness of row-level expressions**: a well-typed expression evaluated on a row that
conforms to its declared types yields, when it yields a value, a value of the predicted type. -/
theorem evalS_sound (Γ : TEnv) (r : Row) (h1 h2 : Value) (t1 t2 : Ty) (hr : RowTyped Γ r)
    (hh1 : h1.hasTy t1 = true) (hh2 : h2.hasTy t2 = true) :
    ∀ (e : SExpr) (τ : Ty) (v : Value), typeOfS Γ t1 t2 e = some τ → evalS r h1 h2 e = .ok v → v.hasTy τ = true := by
  intro e
  induction e with
  | const c => intro τ v ht hv; simp [typeOfS] at ht; simp [evalS] at hv; subst ht; subst hv; exact hasTy_typeOfValue c
  | col n => intro τ v ht hv; simp [typeOfS] at ht; simp [evalS] at hv; subst hv; exact hr n τ ht
  | hole => intro τ v ht hv; simp [typeOfS] at ht; simp [evalS] at hv; subst ht; subst hv; exact hh1
  | hole2 => intro τ v ht hv; simp [typeOfS] at ht; simp [evalS] at hv; subst ht; subst hv; exact hh2
  | un op e ih =>
    intro τ v ht hv
    simp only [typeOfS] at ht
    cases hte : typeOfS Γ t1 t2 e with
    | none => simp [hte] at ht
    | some te =>
      simp [hte] at ht
      simp only [evalS] at hv
      cases hve : evalS r h1 h2 e with
      | error er => simp [hve, bind, Except.bind] at hv
      | ok ve =>
        simp [hve, bind, Except.bind] at hv
        exact unop_sound op ve v te τ ht (ih te ve hte hve) hv
  | bin op a b iha ihb =>
    intro τ v ht hv
    simp only [typeOfS] at ht
    cases hta : typeOfS Γ t1 t2 a with
    | none => simp [hta] at ht
    | some ta =>
      cases htb : typeOfS Γ t1 t2 b with
      | none => simp [hta, htb] at ht
      | some tb =>
        simp [hta, htb] at ht
        simp only [evalS] at hv
        cases hva : evalS r h1 h2 a with
        | error er => simp [hva, bind, Except.bind] at hv
        | ok va =>
          cases hvb : evalS r h1 h2 b with
          | error er => simp [hva, hvb, bind, Except.bind] at hv
          | ok vb =>
            simp [hva, hvb, bind, Except.bind] at hv
            exact binop_sound op va vb v ta tb τ ht (iha ta va hta hva) (ihb tb vb htb hvb) hv
  | tern op a b c iha ihb ihc =>
    intro τ v ht hv
    cases op
    case ite =>
      simp only [typeOfS] at ht
      cases hta : typeOfS Γ t1 t2 a with
      | none => simp [hta] at ht
      | some ta =>
        simp [hta] at ht
        obtain ⟨_, ht⟩ := ht
        cases htb : typeOfS Γ t1 t2 b with
        | none => simp [htb] at ht
        | some tb =>
          cases htc : typeOfS Γ t1 t2 c with
          | none => simp [htb, htc] at ht
          | some tc =>
            simp [htb, htc] at ht
            obtain ⟨l1, l2⟩ := join_ub tb tc τ ht
            simp only [evalS] at hv
            cases hva : evalS r h1 h2 a with
            | error er => simp [hva, bind, Except.bind] at hv
            | ok va =>
              simp [hva, bind, Except.bind] at hv
              split at hv
              · exact hasTy_mono _ _ _ l1 (ihb tb v htb hv)
              · exact hasTy_mono _ _ _ l2 (ihc tc v htc hv)
              · exact hasTy_mono _ _ _ l2 (ihc tc v htc hv)
              · cases hv
    case between =>
      simp only [evalS] at hv
      cases hva : evalS r h1 h2 a with
      | error er => simp [hva, bind, Except.bind] at hv
      | ok va =>
        cases hvb : evalS r h1 h2 b with
        | error er => simp [hva, hvb, bind, Except.bind] at hv
        | ok vb =>
          cases hvc : evalS r h1 h2 c with
          | error er => simp [hva, hvb, hvc, bind, Except.bind] at hv
          | ok vc =>
            simp [hva, hvb, hvc, bind, Except.bind] at hv
            have hb := (between_bool va vb vc v hv).hasTy_bool
            simp only [typeOfS] at ht
            cases hta : typeOfS Γ t1 t2 a <;> cases htb : typeOfS Γ t1 t2 b <;> cases htc : typeOfS Γ t1 t2 c <;>
              simp [hta, htb, htc] at ht
            rename_i ta tb tc
            cases hj1 : Ty.join tb ta <;> cases hj2 : Ty.join ta tc <;> simp [hj1, hj2] at ht
            subst ht; exact hb
    case substr =>
      simp only [typeOfS] at ht
      cases hta : typeOfS Γ t1 t2 a <;> cases htb : typeOfS Γ t1 t2 b <;> cases htc : typeOfS Γ t1 t2 c <;>
        simp [hta, htb, htc] at ht
      rename_i ta tb tc
      simp only [evalS] at hv
      cases hva : evalS r h1 h2 a with
      | error er => simp [hva, bind, Except.bind] at hv
      | ok va =>
        cases hvb : evalS r h1 h2 b with
        | error er => simp [hva, hvb, bind, Except.bind] at hv
        | ok vb =>
          cases hvc : evalS r h1 h2 c with
          | error er => simp [hva, hvb, hvc, bind, Except.bind] at hv
          | ok vc =>
            simp [hva, hvb, hvc, bind, Except.bind] at hv
            obtain ⟨hs, rfl⟩ := ht
            exact (substr_str va vb vc v (inv_str va ta (iha ta va hta hva) (by
              rcases hs with h | h <;> simp [h])) hv).hasTy_str
    case replace =>
      simp only [typeOfS] at ht
      cases hta : typeOfS Γ t1 t2 a <;> cases htb : typeOfS Γ t1 t2 b <;> cases htc : typeOfS Γ t1 t2 c <;>
        simp [hta, htb, htc] at ht
      rename_i ta tb tc
      simp only [evalS] at hv
      cases hva : evalS r h1 h2 a with
      | error er => simp [hva, bind, Except.bind] at hv
      | ok va =>
        cases hvb : evalS r h1 h2 b with
        | error er => simp [hva, hvb, bind, Except.bind] at hv
        | ok vb =>
          cases hvc : evalS r h1 h2 c with
          | error er => simp [hva, hvb, hvc, bind, Except.bind] at hv
          | ok vc =>
            simp [hva, hvb, hvc, bind, Except.bind] at hv
            obtain ⟨⟨⟨hsa, hsb⟩, hsc⟩, rfl⟩ := ht
            exact (replace_str va vb vc v
              (inv_str va ta (iha ta va hta hva) (by rcases hsa with h | h <;> simp [h]))
              (inv_str vb tb (ihb tb vb htb hvb) (by rcases hsb with h | h <;> simp [h]))
              (inv_str vc tc (ihc tc vc htc hvc) (by rcases hsc with h | h <;> simp [h])) hv).hasTy_str
  | isin neg x vs ih =>
    intro τ v ht hv
    simp only [typeOfS] at ht
    cases htx : typeOfS Γ t1 t2 x with
    | none => simp [htx] at ht
    | some tx =>
      simp [htx] at ht; subst ht
      simp only [evalS] at hv
      cases hvx : evalS r h1 h2 x with
      | error er => simp [hvx, bind, Except.bind] at hv
      | ok vx =>
        simp [hvx, bind, Except.bind] at hv
        split at hv
        · unfold vnotin at hv
          cases hin : vin vx vs with
          | error er => simp [hin, bind, Except.bind] at hv
          | ok wi =>
            simp [hin, bind, Except.bind] at hv
            exact (not3_bool wi v (vin_bool vx vs wi hin) hv).hasTy_bool
        · exact (vin_bool vx vs v hv).hasTy_bool
  | round tr x n ihx ihn =>
    intro τ v ht hv
    simp only [typeOfS] at ht
    cases htx : typeOfS Γ t1 t2 x <;> cases htn : typeOfS Γ t1 t2 n <;> simp [htx, htn] at ht
    rename_i tx tn
    obtain ⟨hnum, rfl⟩ := ht
    simp only [evalS] at hv
    cases hvx : evalS r h1 h2 x with
    | error er => simp [hvx, bind, Except.bind] at hv
    | ok vx =>
      cases hvn : evalS r h1 h2 n with
      | error er => simp [hvx, hvn, bind, Except.bind] at hv
      | ok vn =>
        simp [hvx, hvn, bind, Except.bind] at hv
        exact (roundV_num tr vx vn v (inv_num vx tx (ihx tx vx htx hvx) hnum) hv).hasTy_num

end VtlModel.Sem

import VtlModel.Sem.Eval
/-! Aggregation (VTL aggregate operators, DESIGN.md §4 C03): `sum avg count min max median stddev_pop
stddev_samp var_pop var_samp` with `group by / group except / no grouping`, inside the `aggr` clause or
applied to a whole dataset, with an optional `having` condition.

Import-free beyond the Sem core, total, computable.  Numbers are exact rationals; there is no `Float`:
`stddev_*` return the exact VARIANCE and are *tagged* (`AggOp.squared`, `AggSpec.squaredOuts`) so that the
harness compares the square of what the engine returns.

An aggregate looks only at the non-null values of its group (`aggVals op xs = aggNN op (nonNull xs)`).
A dataset is aggregated by (1) projecting every datapoint on the grouping identifiers, (2) keeping one
key per distinct projection (`keyRows`, first-occurrence order), (3) computing every item over the
datapoints that project to the key (`members`), (4) keeping the group iff the `having` condition is TRUE. -/
namespace VtlModel.Sem

inductive AggOp where
  | sum | avg | count | min | max | median | stddevPop | stddevSamp | varPop | varSamp
  deriving DecidableEq, Repr, Inhabited

/-- operators whose model value is the SQUARE of the VTL value (exact variance instead of its root). -/
def AggOp.squared : AggOp → Bool
  | .stddevPop | .stddevSamp => true
  | _ => false

/-! ### sorting (structural insertion sort, so that closed examples reduce by `decide`) -/

def insertBy {α : Type} (le : α → α → Bool) (x : α) : List α → List α
  | [] => [x]
  | y :: ys => if le x y then x :: y :: ys else y :: insertBy le x ys

def isort {α : Type} (le : α → α → Bool) : List α → List α
  | [] => []
  | x :: xs => insertBy le x (isort le xs)

def ratLe (a b : Rat) : Bool := decide (a ≤ b)
def intLe (a b : Int) : Bool := decide (a ≤ b)
def strLe (a b : String) : Bool := decide (a ≤ b)
def boolLe (a b : Bool) : Bool := !a || b

/-! ### the values an aggregate sees -/

def nonNull (xs : List Value) : List Value := xs.filter (fun v => !v.isNull)

def Value.int? : Value → Option Int
  | .int i => some i
  | _ => none

def Value.str? : Value → Option String
  | .str s => some s
  | _ => none

def Value.bool? : Value → Option Bool
  | .bool b => some b
  | _ => none

def ints (xs : List Value) : List Int := xs.filterMap Value.int?
def rats (xs : List Value) : List Rat := xs.filterMap Value.toRat?
def strs (xs : List Value) : List String := xs.filterMap Value.str?
def bools (xs : List Value) : List Bool := xs.filterMap Value.bool?

inductive Kind where
  | int | num | str | bool | mixed
  deriving DecidableEq, Repr

/-- the common type of a list of (non-null) values; Integer ⊂ Number. -/
def kindOf (nn : List Value) : Kind :=
  if nn.all (fun v => v.int?.isSome) then .int
  else if nn.all (fun v => v.toRat?.isSome) then .num
  else if nn.all (fun v => v.str?.isSome) then .str
  else if nn.all (fun v => v.bool?.isSome) then .bool
  else .mixed

def ratSum (l : List Rat) : Rat := l.foldr (· + ·) 0
def intSum (l : List Int) : Int := l.foldr (· + ·) 0

def mean (rs : List Rat) : Rat := ratSum rs / (rs.length : Rat)

/-- sum of the squared deviations from the mean. -/
def sqDev (rs : List Rat) : Rat :=
  ratSum (rs.map (fun x => (x - mean rs) * (x - mean rs)))

/-- median of a non-empty list: the middle element of the sorted list, the mean of the two middle
elements when the length is even. -/
def median (rs : List Rat) : Rat :=
  let s := isort ratLe rs
  let n := s.length
  if n % 2 = 1 then s.getD (n / 2) 0 else (s.getD (n / 2 - 1) 0 + s.getD (n / 2) 0) / 2

/-- first (min) or last (max) element of a sorted list. -/
def pick {α : Type} (isMax : Bool) (s : List α) : Option α := if isMax then s.getLast? else s.head?

def optV {α : Type} (f : α → Value) : Option α → Value
  | some a => f a
  | none => .null

def minmax (isMax : Bool) (nn : List Value) : R Value :=
  match kindOf nn with
  | .int => .ok (optV .int (pick isMax (isort intLe (ints nn))))
  | .num => .ok (optV .num (pick isMax (isort ratLe (rats nn))))
  | .str => .ok (optV .str (pick isMax (isort strLe (strs nn))))
  | .bool => .ok (optV .bool (pick isMax (isort boolLe (bools nn))))
  | .mixed => .error .type

def isNumKind : Kind → Bool
  | .int | .num => true
  | _ => false

/-- the aggregate of a list of NON-NULL values.  An empty list gives null (count: 0). -/
def aggNN (op : AggOp) (nn : List Value) : R Value :=
  match op with
  | .count => .ok (.int nn.length)
  | .min => if nn.isEmpty then .ok .null else minmax false nn
  | .max => if nn.isEmpty then .ok .null else minmax true nn
  | .sum =>
      if nn.isEmpty then .ok .null else
      match kindOf nn with
      | .int => .ok (.int (intSum (ints nn)))
      | .num => .ok (.num (ratSum (rats nn)))
      | _ => .error .type
  | .avg =>
      if nn.isEmpty then .ok .null else
      if isNumKind (kindOf nn) then .ok (.num (mean (rats nn))) else .error .type
  | .median =>
      if nn.isEmpty then .ok .null else
      if isNumKind (kindOf nn) then .ok (.num (median (rats nn))) else .error .type
  | .varPop | .stddevPop =>
      if nn.isEmpty then .ok .null else
      if isNumKind (kindOf nn) then .ok (.num (sqDev (rats nn) / ((rats nn).length : Rat))) else .error .type
  | .varSamp | .stddevSamp =>
      if nn.isEmpty then .ok .null else
      if isNumKind (kindOf nn) then
        (if (rats nn).length < 2 then .ok .null
         else .ok (.num (sqDev (rats nn) / (((rats nn).length : Rat) - 1))))
      else .error .type

/-- **the VTL aggregate of the values of a group**: null values are ignored. -/
def aggVals (op : AggOp) (xs : List Value) : R Value := aggNN op (nonNull xs)

/-! ### aggregation items -/

/-- what an item aggregates, per datapoint of the group -/
inductive AggArg where
  /-- `op(expr)` in the `aggr` clause; `op(DS …)` applies `op` to `col m` for every measure `m` -/
  | expr (e : SExpr)
  /-- `count()` in a clause / in `having`: datapoints with SOME non-null measure (all datapoints when the
      dataset has no measure) -/
  | anyMeasure
  /-- `count(DS …)`: datapoints whose measures are ALL non-null -/
  | allMeasures
  deriving Repr, Inhabited

structure AggItem where
  out : String
  op : AggOp
  arg : AggArg
  /-- the engine's `NULLIF(count, 0)`: a count of zero is reported as null (adopted behaviour, endorsed by the
      reference outputs of the repository's test-suite) -/
  nz : Bool
  deriving Repr, Inhabited

def marker (b : Bool) : Value := if b then .bool true else .null

def argVal (meas : List String) : AggArg → Row → R Value
  | .expr e, r => evalS r .null .null e
  | .anyMeasure, r => .ok (marker (meas.isEmpty || meas.any (fun m => !(r.get m).isNull)))
  | .allMeasures, r => .ok (marker (meas.all (fun m => !(r.get m).isNull)))

def nullIfZero : Value → Value
  | .int 0 => .null
  | v => v

def post (nz : Bool) (v : Value) : Value := if nz then nullIfZero v else v

/-- the value of one item over the datapoints of a group -/
def itemVal (meas : List String) (it : AggItem) (ms : List Row) : R Value :=
  (ms.mapM (argVal meas it.arg)) >>= fun vals =>
  (aggVals it.op vals) >>= fun v =>
  pure (post it.nz v)

def itemVals (meas : List String) (items : List AggItem) (ms : List Row) : R (List (String × Value)) :=
  items.mapM (fun it => (itemVal meas it ms) >>= fun v => pure (it.out, v))

/-! ### grouping -/

inductive Grouping where
  | by (ns : List String)
  | except (ns : List String)
  | none
  /-- `group all time_agg("A")`: all identifiers, after converting the Time_Period identifier `tid` to the
      year it lies in (`timeConv`, applied before grouping; see `aggrT`) -/
  | all (tid : String)
  deriving Repr, Inhabited

inductive Items where
  /-- `op(DS grouping)`: every measure aggregated with `op` (count: one measure `int_var`) -/
  | each (op : AggOp)
  /-- `DS[aggr out := op(arg), … grouping]` -/
  | list (items : List AggItem)
  deriving Repr, Inhabited

structure AggSpec where
  grouping : Grouping
  items : Items
  /-- named aggregates of the group and a condition over the row `group identifiers ++ named aggregates` -/
  having : Option (List AggItem × SExpr)
  deriving Inhabited

/-- the identifiers of the result (in the operand's order). -/
def groupIds (g : Grouping) (d : DS) : R (List String) :=
  match g with
  | .by ns => if subset ns d.ids then .ok (d.ids.filter ns.contains) else .error .type
  | .except ns => if subset ns d.ids then .ok (d.ids.filter (fun i => !ns.contains i)) else .error .type
  | .none => .ok []
  | .all _ => .ok d.ids

def itemsFor (its : Items) (d : DS) (gids : List String) : R (List AggItem) :=
  match its with
  | .list l => .ok l
  | .each .count => .ok [{ out := "int_var", op := .count, arg := .allMeasures, nz := !gids.isEmpty }]
  | .each op =>
      if d.meas.isEmpty && op != .min && op != .max then .error .type
      else .ok (d.meas.map (fun m => { out := m, op := op, arg := .expr (.col m), nz := false }))

/-- keep the first occurrence of every element. -/
def dedup {α : Type} [DecidableEq α] : List α → List α
  | [] => []
  | a :: l => a :: (dedup l).filter (fun b => b != a)

/-- one key row per distinct projection on the grouping identifiers. -/
def keyRows (gids : List String) (rows : List Row) : List Row := dedup (rows.map (·.proj gids))

/-- the datapoints of the group with key `k`. -/
def members (gids : List String) (rows : List Row) (k : List Value) : List Row :=
  rows.filter (fun r => r.key gids == k)

/-- does the group pass the `having` clause (TRUE keeps it; FALSE and null drop it). -/
def havingOk (meas : List String) (having : Option (List AggItem × SExpr)) (kr : Row) (ms : List Row) : R Bool :=
  match having with
  | none => .ok true
  | some (hitems, cond) =>
      (itemVals meas hitems ms) >>= fun hs =>
      (evalS (kr ++ hs) .null .null cond) >>= fun v =>
      match v with
      | .bool b => .ok b
      | .null => .ok false
      | _ => .error .type

def groupRow (meas gids : List String) (items : List AggItem) (having : Option (List AggItem × SExpr))
    (rows : List Row) (kr : Row) : R (Option Row) :=
  (itemVals meas items (members gids rows (kr.key gids))) >>= fun vals =>
  (havingOk meas having kr (members gids rows (kr.key gids))) >>= fun keep =>
  pure (if keep then some (kr ++ vals) else none)

def havingSquared : Option (List AggItem × SExpr) → Bool
  | none => false
  | some (hitems, _) => hitems.any (fun it => it.op.squared)

/-- **aggregation of a dataset** -/
def aggr (spec : AggSpec) (d : DS) : R DS :=
  (groupIds spec.grouping d) >>= fun gids =>
  (itemsFor spec.items d gids) >>= fun items =>
  if !(decide ((items.map (·.out)).Nodup)) || (items.map (·.out)).any gids.contains then .error .type
  else if havingSquared spec.having then .error .unsupported      -- no exact square root to compare with
  else
    (mapRows (groupRow d.meas gids items spec.having d.rows) (keyRows gids d.rows)) >>= fun rows =>
    pure { ids := gids, meas := items.map (·.out), rows := rows }

/-! ### `group all time_agg("A")` -/

/-- the annual period a Time_Period value lies in (Time_Period values are carried as their text, every
spelling of which starts with the four-digit year: `2020Q1`, `2020-M03`, `2020S2`, `2020W05`, `2020A` …). -/
def yearOf : Value → Value
  | .str s => .str (String.ofList (s.toList.take 4))
  | v => v

def convRow (tid : String) (r : Row) : Row := r.map (fun p => if p.1 == tid then (p.1, yearOf p.2) else p)

/-- the conversion of the time identifier that `group all time_agg` applies to the operand before grouping. -/
def timeConv (g : Grouping) (d : DS) : R DS :=
  match g with
  | .all tid => if d.ids.contains tid then .ok { d with rows := d.rows.map (convRow tid) } else .error .type
  | _ => .ok d

/-- aggregation with every grouping form: the time conversion (identity except for `group all`), then `aggr`. -/
def aggrT (spec : AggSpec) (d : DS) : R DS := (timeConv spec.grouping d) >>= aggr spec

/-- the output measures whose values are squares of the VTL values (see `AggOp.squared`). -/
def squaredOuts (spec : AggSpec) (d : DS) : List String :=
  match groupIds spec.grouping d with
  | .ok gids => match itemsFor spec.items d gids with
                | .ok items => (items.filter (fun it => it.op.squared)).map (·.out)
                | .error _ => []
  | .error _ => []

end VtlModel.Sem

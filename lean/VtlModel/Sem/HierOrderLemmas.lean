import VtlModel.Sem.HierLemmas
/-! Order independence of `hierarchy` lifted from the pure run to the group run (`hRun`) and to the
dataset operator. -/
namespace VtlModel.Sem
open List

theorem condsOf_fst (g : Row) : ∀ (rules : List HRule) (l : List (HRule × Value)), condsOf g rules = .ok l → l.map (·.1) = rules := by
  intro rules
  induction rules with
  | nil =>
    intro l h
    simp [condsOf, List.mapM_nil, pure, Except.pure] at h
    subst h; rfl
  | cons ρ rest ih =>
    intro l h
    obtain ⟨b, bs, hb, hbs, rfl⟩ := (mapM_ok_cons _ ρ rest l).1 h
    cases hc : condOf ρ g with
    | error e => simp [hc, Except.map] at hb
    | ok w =>
      simp only [hc, Except.map, Except.ok.injEq] at hb
      subst hb
      simp only [List.map_cons, ih bs hbs]

/-- **order independence on a group**: two dependency-respecting orders of the same rules fail together
or compute the same items and leave the same state. -/
theorem hRun_perm (mode : HMode) (imode : HInput) (g : Row) (st0 : St) (rules1 rules2 : List HRule)
    (hp : rules1.Perm rules2) (v1 : ValidOrder rules1) (v2 : ValidOrder rules2) (st : St) :
    Rel2 RunEq (hRun mode imode g st0 rules1 st) (hRun mode imode g st0 rules2 st) := by
  rw [hRun_eq, hRun_eq]
  cases h1 : condsOf g rules1 with
  | error e =>
    obtain ⟨ρ, hρ, e1, he1⟩ := (mapM_error_iff (fun ρ => (condOf ρ g).map (fun w => (ρ, w))) rules1).1 ⟨e, h1⟩
    obtain ⟨e2, he2⟩ := (mapM_error_iff (fun ρ => (condOf ρ g).map (fun w => (ρ, w))) rules2).2 ⟨ρ, hp.mem_iff.1 hρ, e1, he1⟩
    have he2' : condsOf g rules2 = .error e2 := he2
    rw [he2']
    exact Rel2.error _ _
  | ok l1 =>
    obtain ⟨l2, h2, hl⟩ := mapM_perm _ hp l1 h1
    have h2' : condsOf g rules2 = .ok l2 := h2
    rw [h2']
    refine Or.inr ⟨_, _, rfl, rfl, ?_⟩
    refine hRunP_perm mode imode st0 l1 l2 hl ?_ ?_ st
    · rw [condsOf_fst g rules1 l1 h1]; exact v1
    · rw [condsOf_fst g rules2 l2 h2']; exact v2

theorem hGroup_perm (mode : HMode) (imode : HInput) (other : List String) (rc m : String) (rules1 rules2 : List HRule)
    (hp : rules1.Perm rules2) (v1 : ValidOrder rules1) (v2 : ValidOrder rules2) (st : Row → St) (g : Row) :
    Rel2 Perm (hGroup mode imode other rc m rules1 st g) (hGroup mode imode other rc m rules2 st g) := by
  unfold hGroup
  refine Rel2.bind (hRun_perm mode imode g (st g) rules1 rules2 hp v1 v2 (st g)) ?_
  intro a b hab
  exact Rel2.pure (hab.2.map _)

theorem mapM_flatten_perm {α : Type} (f f' : α → R (List Row)) (h : ∀ a, Rel2 Perm (f a) (f' a)) :
    ∀ l : List α, Rel2 Perm ((l.mapM f).map List.flatten) ((l.mapM f').map List.flatten) := by
  intro l
  induction l with
  | nil => exact Or.inr ⟨[], [], rfl, rfl, Perm.refl _⟩
  | cons a l ih =>
    simp only [List.mapM_cons]
    rcases h a with ⟨e, e', h1, h2⟩ | ⟨x, y, h1, h2, hxy⟩
    · rw [h1, h2]; exact Rel2.error _ _
    · rw [h1, h2]
      rcases ih with ⟨e, e', h3, h4⟩ | ⟨xs, ys, h3, h4, hp⟩
      · cases h5 : l.mapM f with
        | ok v => simp [h5, Except.map] at h3
        | error e1 =>
          cases h6 : l.mapM f' with
          | ok v => simp [h6, Except.map] at h4
          | error e2 => exact Rel2.error _ _
      · cases h5 : l.mapM f with
        | error e1 => simp [h5, Except.map] at h3
        | ok v =>
          cases h6 : l.mapM f' with
          | error e2 => simp [h6, Except.map] at h4
          | ok v' =>
            simp only [h5, h6, Except.map, Except.ok.injEq] at h3 h4
            subst h3 h4
            refine Or.inr ⟨_, _, rfl, rfl, ?_⟩
            simp only [List.flatten_cons]
            exact hxy.append hp

theorem contains_congr (a b : List String) (h : ∀ s, s ∈ a ↔ s ∈ b) (s : String) : a.contains s = b.contains s := by
  cases h1 : a.contains s with
  | true =>
    have : s ∈ b := (h s).1 (by simpa using h1)
    simp [this]
  | false =>
    have : s ∉ b := fun hb => by
      have := (h s).2 hb
      simp [this] at h1
    simp [this]

theorem allItems_mem_perm (r1 r2 : List HRule) (hp : r1.Perm r2) (s : String) : s ∈ allItems r1 ↔ s ∈ allItems r2 := by
  simp only [allItems, List.mem_flatMap]
  constructor
  · rintro ⟨ρ, hρ, hs⟩; exact ⟨ρ, hp.mem_iff.1 hρ, hs⟩
  · rintro ⟨ρ, hρ, hs⟩; exact ⟨ρ, hp.mem_iff.2 hρ, hs⟩

theorem groupsOf_perm_rules (x : DS) (rc : String) (other : List String) (r1 r2 : List HRule) (hp : r1.Perm r2) :
    groupsOf x rc other (allItems r1) = groupsOf x rc other (allItems r2) := by
  have : isItem rc (allItems r1) = isItem rc (allItems r2) := by
    funext r
    simp only [isItem]
    cases r.get rc with
    | str s => exact contains_congr _ _ (allItems_mem_perm r1 r2 hp) s
    | _ => rfl
  simp only [groupsOf, this]

/-- **order independence of `hierarchy`**: the operator applied with two orders of the same ruleset,
both respecting the dependencies between the `=` rules, fails in both cases or gives the same
datapoints. -/
theorem hierarchy_perm_rules (rules1 rules2 : List HRule) (mode : HMode) (imode : HInput) (all : Bool) (rc : String) (x : DS)
    (hp : rules1.Perm rules2)
    (v1 : ValidOrder (rules1.filter (fun ρ => ρ.cmp == .eq))) (v2 : ValidOrder (rules2.filter (fun ρ => ρ.cmp == .eq))) :
    Rel2 DSEquiv (hierarchy rules1 mode imode all rc x) (hierarchy rules2 mode imode all rc x) := by
  unfold hierarchy
  have hpe := hp.filter (fun ρ => ρ.cmp == .eq)
  cases mono x with
  | error e => exact Rel2.error _ _
  | ok m =>
    simp only [bind, Except.bind]
    have hnd : ((rules1.filter (fun ρ => ρ.cmp == .eq)).map (·.left)).Nodup ↔ ((rules2.filter (fun ρ => ρ.cmp == .eq)).map (·.left)).Nodup :=
      (hpe.map _).nodup_iff
    by_cases hg : (!x.ids.contains rc || !decide ((rules1.filter (fun ρ => ρ.cmp == .eq)).map (·.left)).Nodup) = true
    · have hg2 : (!x.ids.contains rc || !decide ((rules2.filter (fun ρ => ρ.cmp == .eq)).map (·.left)).Nodup) = true := by
        simp only [Bool.or_eq_true, Bool.not_eq_eq_eq_not, Bool.not_true, decide_eq_false_iff_not] at hg ⊢
        rcases hg with h | h
        · exact Or.inl h
        · exact Or.inr (fun hh => h (hnd.2 hh))
      simp only [hg, hg2, if_true]
      exact Rel2.error _ _
    · have hg2 : ¬ (!x.ids.contains rc || !decide ((rules2.filter (fun ρ => ρ.cmp == .eq)).map (·.left)).Nodup) = true := by
        simp only [Bool.or_eq_true, Bool.not_eq_eq_eq_not, Bool.not_true, decide_eq_false_iff_not, not_or, Decidable.not_not] at hg ⊢
        exact ⟨hg.1, hnd.1 hg.2⟩
      simp only [hg, hg2, if_false]
      rw [groupsOf_perm_rules x rc _ _ _ hpe]
      have key := mapM_flatten_perm
        (hGroup mode imode (x.ids.filter (fun i => i != rc)) rc m (rules1.filter (fun ρ => ρ.cmp == .eq)) (initSt x rc m))
        (hGroup mode imode (x.ids.filter (fun i => i != rc)) rc m (rules2.filter (fun ρ => ρ.cmp == .eq)) (initSt x rc m))
        (fun g => hGroup_perm mode imode _ rc m _ _ hpe v1 v2 (initSt x rc m) g)
        (groupsOf x rc (x.ids.filter (fun i => i != rc)) (allItems (rules2.filter (fun ρ => ρ.cmp == .eq))))
      rcases key with ⟨e, e', h3, h4⟩ | ⟨xs, ys, h3, h4, hxy⟩
      · cases h5 : List.mapM (hGroup mode imode (x.ids.filter (fun i => i != rc)) rc m (rules1.filter (fun ρ => ρ.cmp == .eq)) (initSt x rc m))
            (groupsOf x rc (x.ids.filter (fun i => i != rc)) (allItems (rules2.filter (fun ρ => ρ.cmp == .eq)))) with
        | ok v => simp [h5, Except.map] at h3
        | error e1 =>
          cases h6 : List.mapM (hGroup mode imode (x.ids.filter (fun i => i != rc)) rc m (rules2.filter (fun ρ => ρ.cmp == .eq)) (initSt x rc m))
              (groupsOf x rc (x.ids.filter (fun i => i != rc)) (allItems (rules2.filter (fun ρ => ρ.cmp == .eq)))) with
          | ok v => simp [h6, Except.map] at h4
          | error e2 => exact Rel2.error _ _
      · cases h5 : List.mapM (hGroup mode imode (x.ids.filter (fun i => i != rc)) rc m (rules1.filter (fun ρ => ρ.cmp == .eq)) (initSt x rc m))
            (groupsOf x rc (x.ids.filter (fun i => i != rc)) (allItems (rules2.filter (fun ρ => ρ.cmp == .eq)))) with
        | error e1 => simp [h5, Except.map] at h3
        | ok v =>
          cases h6 : List.mapM (hGroup mode imode (x.ids.filter (fun i => i != rc)) rc m (rules2.filter (fun ρ => ρ.cmp == .eq)) (initSt x rc m))
              (groupsOf x rc (x.ids.filter (fun i => i != rc)) (allItems (rules2.filter (fun ρ => ρ.cmp == .eq)))) with
          | error e2 => simp [h6, Except.map] at h4
          | ok v' =>
            simp only [h5, h6, Except.map, Except.ok.injEq] at h3 h4
            subst h3 h4
            cases all with
            | false => exact Or.inr ⟨_, _, rfl, rfl, rfl, rfl, hxy⟩
            | true =>
              simp only [if_true, pure, Except.pure]
              refine Or.inr ⟨_, _, rfl, rfl, rfl, rfl, ?_⟩
              have hk : (fun r => !keyIn x.ids (v.flatten.map (·.key x.ids)) r) = (fun r => !keyIn x.ids (v'.flatten.map (·.key x.ids)) r) := by
                funext r
                rw [keyIn_perm x.ids _ _ (hxy.map _) r]
              simp only [hk]
              exact Perm.append_left _ hxy

end VtlModel.Sem

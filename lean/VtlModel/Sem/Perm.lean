import VtlModel.Sem.Wf
/-! Order-independence toolkit: relational lifting over `Except`, congruence of the row functions in
the dataset structure, `partner` and `keyIn` under permutation. -/
namespace VtlModel.Sem
open List

/-- both computations fail, or both succeed with `P`-related results. -/
def Rel2 {α : Type} (P : α → α → Prop) (a b : R α) : Prop :=
  (∃ e e', a = .error e ∧ b = .error e') ∨ (∃ x y, a = .ok x ∧ b = .ok y ∧ P x y)

theorem Rel2.bind {α β : Type} {P : α → α → Prop} {Q : β → β → Prop} {a a' : R α} {f f' : α → R β}
    (h : Rel2 P a a') (hf : ∀ x x', P x x' → Rel2 Q (f x) (f' x')) : Rel2 Q (a >>= f) (a' >>= f') := by
  rcases h with ⟨e, e', rfl, rfl⟩ | ⟨x, y, rfl, rfl, hp⟩
  · exact Or.inl ⟨e, e', rfl, rfl⟩
  · exact hf x y hp

theorem Rel2.pure {α : Type} {P : α → α → Prop} {x y : α} (h : P x y) : Rel2 P (pure x : R α) (pure y) :=
  Or.inr ⟨x, y, rfl, rfl, h⟩

theorem Rel2.error {α : Type} {P : α → α → Prop} (e e' : Err) : Rel2 P (.error e : R α) (.error e') :=
  Or.inl ⟨e, e', rfl, rfl⟩

/-- same structure, same datapoints up to order. -/
def DSEquiv (a b : DS) : Prop := a.ids = b.ids ∧ a.meas = b.meas ∧ a.rows.Perm b.rows

theorem DSEquiv.refl (a : DS) : DSEquiv a a := ⟨rfl, rfl, Perm.refl _⟩

theorem rowsEquiv_iff (a b : R (List Row)) : RowsEquiv a b ↔ Rel2 Perm a b := Iff.rfl

theorem DSEquiv.keys {a b : DS} (h : DSEquiv a b) : a.keys.Perm b.keys := by
  unfold DS.keys
  rw [h.1]
  exact h.2.2.map _

theorem DSEquiv.WF {a b : DS} (h : DSEquiv a b) (w : a.WF) : b.WF :=
  (h.keys.nodup_iff).1 w

/-! ### congruence in the structure -/

theorem mapmRow_congr (x x' : DS) (body : SExpr) (out : Option String) (h1 : x.ids = x'.ids) (h2 : x.meas = x'.meas) :
    mapmRow x body out = mapmRow x' body out := by
  funext r
  simp only [mapmRow, measVals, h1, h2]

theorem partner_congr (y y' : DS) (w : y.WF) (h : DSEquiv y y') (rb : Row) : partner y rb = partner y' rb := by
  have w' : y'.WF := h.WF w
  have key : ∀ rs, partner y rb = some rs ↔ partner y' rb = some rs := by
    intro rs
    have e1 : partner y rb = some rs ↔ rs ∈ y.rows ∧ rs.key y.ids = rb.key y.ids := by
      obtain ⟨ids, meas, rows⟩ := y
      simp only [partner, DS.WF, DS.keys] at *
      constructor
      · intro hh
        exact ⟨List.mem_of_find?_eq_some hh, by simpa using List.find?_some hh⟩
      · rintro ⟨hm, hk⟩
        clear h w'
        induction rows with
        | nil => cases hm
        | cons a l ih =>
          simp only [List.map_cons, List.nodup_cons] at w
          simp only [List.find?_cons]
          by_cases ha : (a.key ids == rb.key ids) = true
          · simp only [ha]
            rcases List.mem_cons.1 hm with rfl | hm'
            · rfl
            · exfalso
              apply w.1
              have : a.key ids = rs.key ids := by rw [hk]; simpa using ha
              rw [this]
              exact List.mem_map.2 ⟨rs, hm', rfl⟩
          · simp only [ha]
            rcases List.mem_cons.1 hm with rfl | hm'
            · exfalso; apply ha; simp [hk]
            · exact ih w.2 hm'
    have e2 : partner y' rb = some rs ↔ rs ∈ y'.rows ∧ rs.key y'.ids = rb.key y'.ids := by
      obtain ⟨ids, meas, rows⟩ := y'
      simp only [partner, DS.WF, DS.keys] at *
      constructor
      · intro hh
        exact ⟨List.mem_of_find?_eq_some hh, by simpa using List.find?_some hh⟩
      · rintro ⟨hm, hk⟩
        clear h w
        induction rows with
        | nil => cases hm
        | cons a l ih =>
          simp only [List.map_cons, List.nodup_cons] at w'
          simp only [List.find?_cons]
          by_cases ha : (a.key ids == rb.key ids) = true
          · simp only [ha]
            rcases List.mem_cons.1 hm with rfl | hm'
            · rfl
            · exfalso
              apply w'.1
              have : a.key ids = rs.key ids := by rw [hk]; simpa using ha
              rw [this]
              exact List.mem_map.2 ⟨rs, hm', rfl⟩
          · simp only [ha]
            rcases List.mem_cons.1 hm with rfl | hm'
            · exfalso; apply ha; simp [hk]
            · exact ih w'.2 hm'
    rw [e1, e2, h.1]
    constructor
    · rintro ⟨hm, hk⟩; exact ⟨h.2.2.mem_iff.1 hm, hk⟩
    · rintro ⟨hm, hk⟩; exact ⟨h.2.2.mem_iff.2 hm, hk⟩
  cases hp : partner y rb with
  | some rs => exact ((key rs).1 hp).symm
  | none =>
    cases hp' : partner y' rb with
    | none => rfl
    | some rs => rw [(key rs).2 hp'] at hp; cases hp

theorem zipRow_congr (x x' y y' : DS) (l : Bool) (ms : List String) (body : SExpr) (out : Option String)
    (hx : x.ids = x'.ids) (wy : y.WF) (hy : DSEquiv y y') :
    zipRow x y l ms body out = zipRow x' y' l ms body out := by
  funext rb
  simp only [zipRow, partner_congr y y' wy hy rb, hx]

theorem keyIn_perm (ids : List String) (keys keys' : List (List Value)) (h : keys.Perm keys') (r : Row) :
    keyIn ids keys r = keyIn ids keys' r := by
  unfold keyIn
  cases h1 : keys.contains (r.key ids) with
  | true =>
    have : r.key ids ∈ keys' := h.mem_iff.1 (by simpa using h1)
    simp [this]
  | false =>
    have : r.key ids ∉ keys' := fun hm => by
      have := h.mem_iff.2 hm
      simp [this] at h1
    simp [this]

end VtlModel.Sem

import VtlModel.Sem.HierChLemmas
/-! Key uniqueness and permutation invariance of `check_hierarchy`: `hdedup`, groups, blocks of rows. -/
namespace VtlModel.Sem
open List

/-! ### hdedup -/

theorem hdedup_mem {α : Type} [DecidableEq α] : ∀ (l : List α) (a : α), a ∈ hdedup l ↔ a ∈ l := by
  intro l
  induction l with
  | nil => intro a; simp [hdedup]
  | cons b l ih =>
    intro a
    simp only [hdedup, List.mem_cons, List.mem_filter, ih, bne_iff_ne, ne_eq]
    by_cases h : a = b
    · simp [h]
    · simp [h]

theorem hdedup_nodup {α : Type} [DecidableEq α] : ∀ (l : List α), (hdedup l).Nodup := by
  intro l
  induction l with
  | nil => exact List.nodup_nil
  | cons b l ih =>
    simp only [hdedup, List.nodup_cons, List.mem_filter, bne_iff_ne, ne_eq, not_and, Decidable.not_not]
    exact ⟨fun _ => trivial, (List.filter_sublist).nodup ih⟩

theorem hdedup_perm {α : Type} [DecidableEq α] {l l' : List α} (h : l.Perm l') : (hdedup l).Perm (hdedup l') := by
  induction h with
  | nil => exact Perm.refl _
  | cons a _ ih => exact Perm.cons a (ih.filter _)
  | swap a b l =>
    simp only [hdedup, List.filter_cons]
    by_cases hab : a = b
    · subst hab
      simp
    · have h1 : (a != b) = true := by simpa using hab
      have h2 : (b != a) = true := by simpa using (Ne.symm hab)
      simp only [h1, h2, if_true]
      refine (Perm.swap _ _ _).trans ?_
      refine Perm.cons _ (Perm.cons _ ?_)
      rw [List.filter_filter, List.filter_filter]
      have : (fun x => (x != b && x != a)) = (fun x => (x != a && x != b)) := by
        funext x; exact Bool.and_comm _ _
      rw [this]
  | trans _ _ ih1 ih2 => exact ih1.trans ih2

/-! ### groups -/

theorem proj_eq_of_get (r1 r2 : Row) (ns : List String) (h : ∀ n ∈ ns, r1.get n = r2.get n) : r1.proj ns = r2.proj ns := by
  unfold Row.proj
  apply List.map_congr_left
  intro n hn
  rw [h n hn]

theorem groupsOf_mem (x : DS) (rc : String) (other items : List String) (g : Row) (h : g ∈ groupsOf x rc other items) :
    ∃ r ∈ x.rows, g = r.proj other := by
  unfold groupsOf at h
  rw [hdedup_mem] at h
  obtain ⟨r, hr, rfl⟩ := List.mem_map.1 h
  exact ⟨r, (List.mem_filter.1 hr).1, rfl⟩

/-- groups that agree on the other identifiers are the same group. -/
theorem group_ext (x : DS) (rc : String) (other items : List String) (g1 g2 : Row)
    (h1 : g1 ∈ groupsOf x rc other items) (h2 : g2 ∈ groupsOf x rc other items)
    (h : ∀ i ∈ other, g1.get i = g2.get i) : g1 = g2 := by
  obtain ⟨r1, _, rfl⟩ := groupsOf_mem x rc other items g1 h1
  obtain ⟨r2, _, rfl⟩ := groupsOf_mem x rc other items g2 h2
  apply proj_eq_of_get
  intro n hn
  have := h n hn
  rwa [get_proj r1 other n hn, get_proj r2 other n hn] at this

theorem groupsOf_perm (x x' : DS) (rc : String) (other items : List String) (h : x.rows.Perm x'.rows) :
    (groupsOf x rc other items).Perm (groupsOf x' rc other items) := by
  unfold groupsOf
  exact hdedup_perm ((h.filter _).map _)

theorem initSt_congr (x x' : DS) (rc m : String) (w : x.WF) (h : DSEquiv x x') : initSt x rc m = initSt x' rc m := by
  funext g ci
  simp only [initSt, partner_congr x x' w h]

/-! ### rows of `check_hierarchy` -/

theorem chRowOf_get_other (mode : HMode) (out : DPOut) (other : List String) (rc m : String) (ρ : HRule) (g : Row) (st : St)
    (w : Value) (i : String) (hi : i ∈ other) : (chRowOf mode out other rc m ρ g st w).get i = g.get i := by
  unfold chRowOf
  exact get_proj_append g other _ i hi

theorem chRowOf_get_ruleid (mode : HMode) (out : DPOut) (other : List String) (rc m : String) (ρ : HRule) (g : Row) (st : St)
    (w : Value) (h1 : "ruleid" ∉ other) (h2 : rc ≠ "ruleid") :
    (chRowOf mode out other rc m ρ g st w).get "ruleid" = .str ρ.name := by
  unfold chRowOf
  rw [get_proj_append_not_mem g other _ "ruleid" h1]
  have : ("ruleid" == rc) = false := by simpa using (Ne.symm h2)
  simp [Row.get, List.lookup, this]

theorem key_eq_get (r1 r2 : Row) (ids : List String) (h : r1.key ids = r2.key ids) : ∀ i ∈ ids, r1.get i = r2.get i := by
  unfold Row.key at h
  exact List.map_inj_left.1 h

/-- equal output keys: same rule name, same group values. -/
theorem ch_key_inj (x : DS) (rc m : String) (mode : HMode) (out : DPOut) (ρ1 ρ2 : HRule) (g1 g2 : Row) (s1 s2 : St) (w1 w2 : Value)
    (hrc : rc ∈ x.ids) (hid : "ruleid" ∉ x.ids)
    (hk : (chRowOf mode out (x.ids.filter (fun i => i != rc)) rc m ρ1 g1 s1 w1).key (x.ids ++ ["ruleid"]) =
          (chRowOf mode out (x.ids.filter (fun i => i != rc)) rc m ρ2 g2 s2 w2).key (x.ids ++ ["ruleid"])) :
    ρ1.name = ρ2.name ∧ ∀ i ∈ x.ids.filter (fun i => i != rc), g1.get i = g2.get i := by
  have ho : "ruleid" ∉ x.ids.filter (fun i => i != rc) := fun hm => hid (List.mem_filter.1 hm).1
  have hne : rc ≠ "ruleid" := fun e => hid (e ▸ hrc)
  simp only [key_snoc] at hk
  have hl : ((chRowOf mode out (x.ids.filter (fun i => i != rc)) rc m ρ1 g1 s1 w1).key x.ids).length =
            ((chRowOf mode out (x.ids.filter (fun i => i != rc)) rc m ρ2 g2 s2 w2).key x.ids).length := by simp [Row.key]
  obtain ⟨hk1, hk2⟩ := List.append_inj hk hl
  rw [chRowOf_get_ruleid _ _ _ _ _ _ _ _ _ ho hne, chRowOf_get_ruleid _ _ _ _ _ _ _ _ _ ho hne] at hk2
  simp only [List.cons.injEq, Value.str.injEq, and_true] at hk2
  refine ⟨hk2, ?_⟩
  intro i hi
  have := key_eq_get _ _ x.ids hk1 i (List.mem_filter.1 hi).1
  rwa [chRowOf_get_other _ _ _ _ _ _ _ _ _ i hi, chRowOf_get_other _ _ _ _ _ _ _ _ _ i hi] at this

/-- `mapRows` over distinct inputs with a key that separates the outputs of distinct inputs. -/
theorem mapRows_nodup_inj {κ : Type} (f : Row → R (Option Row)) (K : Row → κ) :
    ∀ (rows out : List Row), mapRows f rows = .ok out → rows.Nodup →
      (∀ a ∈ rows, ∀ b ∈ rows, ∀ a' b', f a = .ok (some a') → f b = .ok (some b') → K a' = K b' → a = b) →
      (out.map K).Nodup := by
  intro rows
  induction rows with
  | nil =>
    intro out h _ _
    obtain ⟨xs, hx, rfl⟩ := (mapRows_ok_iff f [] out).1 h
    simp [List.mapM_nil, pure, Except.pure] at hx
    subst hx
    exact List.nodup_nil
  | cons a l ih =>
    intro out h hn hinj
    obtain ⟨xs, hx, rfl⟩ := (mapRows_ok_iff f (a :: l) out).1 h
    obtain ⟨b, bs, hb, hbs, rfl⟩ := (mapM_ok_cons f a l xs).1 hx
    have hl : mapRows f l = .ok (bs.filterMap id) := (mapRows_ok_iff f l _).2 ⟨bs, hbs, rfl⟩
    have hn' := List.nodup_cons.1 hn
    have ih' := ih (bs.filterMap id) hl hn'.2
      (fun p hp q hq p' q' => hinj p (List.mem_cons_of_mem _ hp) q (List.mem_cons_of_mem _ hq) p' q')
    cases b with
    | none => simpa using ih'
    | some a' =>
      simp only [List.filterMap_cons, id, List.map_cons, List.nodup_cons]
      refine ⟨?_, ih'⟩
      intro hm
      obtain ⟨q', hq', hkq⟩ := List.mem_map.1 hm
      obtain ⟨q, hq, hfq⟩ := (mapRows_mem f l _ hl q').1 hq'
      have := hinj a List.mem_cons_self q (List.mem_cons_of_mem _ hq) a' q' hb hfq hkq.symm
      exact hn'.1 (this ▸ hq)

theorem chRows_WF (x : DS) (rc m : String) (mode : HMode) (out : DPOut) (items : List String)
    (hrc : rc ∈ x.ids) (hid : "ruleid" ∉ x.ids) :
    ∀ (rules : List HRule) (rows : List Row), (rules.map (·.name)).Nodup →
      chRows mode out (x.ids.filter (fun i => i != rc)) rc m (initSt x rc m)
        (groupsOf x rc (x.ids.filter (fun i => i != rc)) items) rules = .ok rows →
      (rows.map (·.key (x.ids ++ ["ruleid"]))).Nodup := by
  intro rules
  induction rules with
  | nil =>
    intro rows _ h
    simp only [chRows, Except.ok.injEq] at h
    subst h
    exact List.nodup_nil
  | cons ρ rest ih =>
    intro rows hn h
    simp only [List.map_cons, List.nodup_cons] at hn
    simp only [chRows] at h
    obtain ⟨a, ha, h⟩ := (bind_ok' _ _ _).1 h
    obtain ⟨b, hb, h⟩ := (bind_ok' _ _ _).1 h
    simp only [pure, Except.pure, Except.ok.injEq] at h
    subst h
    rw [List.map_append]
    refine List.nodup_append.2 ⟨?_, ih b hn.2 hb, ?_⟩
    · refine mapRows_nodup_inj _ _ _ a ha (hdedup_nodup _) ?_
      intro g1 hg1 g2 hg2 r1 r2 hf1 hf2 hk
      obtain ⟨w1, _, _, _, rfl⟩ := (chRow_some_iff mode out _ rc m ρ _ g1 r1).1 hf1
      obtain ⟨w2, _, _, _, rfl⟩ := (chRow_some_iff mode out _ rc m ρ _ g2 r2).1 hf2
      exact group_ext x rc _ items g1 g2 hg1 hg2 (ch_key_inj x rc m mode out ρ ρ g1 g2 _ _ w1 w2 hrc hid hk).2
    · intro k hk1 k' hk2 hkk
      subst hkk
      obtain ⟨ra, hra, rfl⟩ := List.mem_map.1 hk1
      obtain ⟨rb, hrb, hkb⟩ := List.mem_map.1 hk2
      obtain ⟨g1, _, hf1⟩ := (mapRows_mem _ _ _ ha ra).1 hra
      obtain ⟨σ, hσ, g2, _, hf2⟩ := (chRows_mem mode out _ rc m _ _ rest b hb rb).1 hrb
      obtain ⟨w1, _, _, _, rfl⟩ := (chRow_some_iff mode out _ rc m ρ _ g1 ra).1 hf1
      obtain ⟨w2, _, _, _, rfl⟩ := (chRow_some_iff mode out _ rc m σ _ g2 rb).1 hf2
      have := (ch_key_inj x rc m mode out σ ρ g2 g1 _ _ w2 w1 hrc hid hkb).1
      apply hn.1
      rw [← this]
      exact List.mem_map.2 ⟨σ, hσ, rfl⟩

theorem hrGuard_iff (x : DS) (rc : String) (rules : List HRule) :
    hrGuard x rc rules = true ↔ rc ∈ x.ids ∧ "ruleid" ∉ x.ids ∧ (rules.map (·.name)).Nodup := by
  simp [hrGuard, and_assoc]

theorem checkHierarchy_WF_aux (rules : List HRule) (mode : HMode) (out : DPOut) (rc : String) (x res : DS)
    (h : checkHierarchy rules mode out rc x = .ok res) : res.WF := by
  obtain ⟨m, rows, _, hg, hr, rfl⟩ := checkHierarchy_ok h
  obtain ⟨hrc, hid, hn⟩ := (hrGuard_iff x rc rules).1 hg
  exact chRows_WF x rc m mode out (allItems rules) hrc hid rules rows hn hr

/-! ### permutation -/

theorem chRows_perm (mode : HMode) (out : DPOut) (other : List String) (rc m : String) (st : Row → St)
    (groups groups' : List Row) (hg : groups.Perm groups') : ∀ rules : List HRule,
    Rel2 Perm (chRows mode out other rc m st groups rules) (chRows mode out other rc m st groups' rules) := by
  intro rules
  induction rules with
  | nil => exact Or.inr ⟨[], [], rfl, rfl, Perm.refl _⟩
  | cons ρ rest ih =>
    simp only [chRows]
    refine Rel2.bind (mapRows_perm _ hg) ?_
    intro a a' hp
    refine Rel2.bind ih ?_
    intro b b' hq
    exact Rel2.pure (hp.append hq)

theorem checkHierarchy_perm_aux (rules : List HRule) (mode : HMode) (out : DPOut) (rc : String) (x x' : DS)
    (w : x.WF) (hx : DSEquiv x x') :
    Rel2 DSEquiv (checkHierarchy rules mode out rc x) (checkHierarchy rules mode out rc x') := by
  unfold checkHierarchy
  refine Rel2.bind (P := Eq) (by rw [mono_congr hx.2.1]; exact Rel2.rfl_eq _) ?_
  intro m m' hm
  subst hm
  have hgd : hrGuard x' rc rules = hrGuard x rc rules := by simp only [hrGuard, hx.1]
  rw [hgd, ← hx.1, ← initSt_congr x x' rc m w hx]
  by_cases hc : (!hrGuard x rc rules) = true
  · simp only [hc, if_true]
    exact Rel2.error _ _
  · simp only [hc, if_false]
    refine Rel2.bind (chRows_perm mode out _ rc m _ _ _ (groupsOf_perm x x' rc _ _ hx.2.2) rules) ?_
    intro rows rows' hp
    exact Rel2.pure ⟨rfl, rfl, hp⟩

end VtlModel.Sem

import VtlModel.Sem.Perm
/-! Dataset-level `if cond then A else B`: the condition is evaluated on every datapoint of the condition
dataset; TRUE selects the `then` operand, FALSE **and NULL** select the `else` operand; a dataset
operand contributes its datapoint with the same identifiers (no partner → the datapoint is absent), a
scalar operand contributes the constant. -/
namespace VtlModel.Sem
open List

/-- a branch of the conditional: a dataset (matched on the identifiers) or a scalar constant. -/
def branchRow (ids ms : List String) (b : Option DS) (sv : Value) (rc : Row) : Option Row :=
  match b with
  | none => some (rc.proj ids ++ ms.map (fun m => (m, sv)))
  | some d => (partner d rc).map (fun rb => rc.proj ids ++ rb.proj ms)

def condRow (cond : SExpr) (ids ms : List String) (t e : Option DS) (tv ev : Value) (rc : Row) : R (Option Row) :=
  match evalS rc .null .null cond with
  | .error er => .error er
  | .ok (.bool true) => .ok (branchRow ids ms t tv rc)
  | .ok (.bool false) => .ok (branchRow ids ms e ev rc)
  | .ok .null => .ok (branchRow ids ms e ev rc)
  | .ok _ => .error .type

def condMeas (t e : Option DS) : List String :=
  match t, e with
  | some d, _ => d.meas
  | none, some d => d.meas
  | none, none => []

def sameIds (c : DS) (b : Option DS) : Bool :=
  match b with
  | none => true
  | some d => d.ids == c.ids

def condD (cond : SExpr) (tv ev : Value) (c : DS) (t e : Option DS) : R DS :=
  if sameIds c t && sameIds c e then
    (mapRows (condRow cond c.ids (condMeas t e) t e tv ev) c.rows).map
      (fun rows => { ids := c.ids, meas := condMeas t e, rows })
  else .error .unsupported

theorem branchRow_key (ids ms : List String) (b : Option DS) (sv : Value) (rc r' : Row)
    (h : branchRow ids ms b sv rc = some r') : r'.key ids = rc.key ids := by
  unfold branchRow at h
  cases b with
  | none =>
    simp only [Option.some.injEq] at h
    subst h
    exact key_proj_append rc ids ids _ (fun i hi => hi)
  | some d =>
    simp only at h
    cases hp : partner d rc with
    | none => simp [hp] at h
    | some rb =>
      simp [hp] at h
      subst h
      exact key_proj_append rc ids ids _ (fun i hi => hi)

theorem condRow_key (cond : SExpr) (ids ms : List String) (t e : Option DS) (tv ev : Value) (rc r' : Row)
    (h : condRow cond ids ms t e tv ev rc = .ok (some r')) : r'.key ids = rc.key ids := by
  unfold condRow at h
  cases hc : evalS rc .null .null cond with
  | error er => simp [hc] at h
  | ok v =>
    cases v with
    | bool b =>
      cases b <;> simp [hc] at h <;> exact branchRow_key ids ms _ _ rc r' h
    | null => simp [hc] at h; exact branchRow_key ids ms _ _ rc r' h
    | int i => simp [hc] at h
    | num q => simp [hc] at h
    | str s => simp [hc] at h

/-- the conditional preserves key uniqueness (its datapoints are datapoints of the condition dataset). -/
theorem condD_WF (cond : SExpr) (tv ev : Value) (c : DS) (t e : Option DS) (r : DS)
    (wc : c.WF) (h : condD cond tv ev c t e = .ok r) : r.WF := by
  unfold condD at h
  split at h
  · cases hm : mapRows (condRow cond c.ids (condMeas t e) t e tv ev) c.rows with
    | error er => simp [hm, Except.map] at h
    | ok rows =>
      simp [hm, Except.map] at h
      subst h
      exact mapRows_WF _ c.ids c.ids c.rows rows hm (fun rc r' _ hf => condRow_key cond c.ids _ t e tv ev rc r' hf) wc
  · cases h

def OptEquiv (a b : Option DS) : Prop :=
  match a, b with
  | none, none => True
  | some x, some y => DSEquiv x y
  | _, _ => False

def OptWF (a : Option DS) : Prop :=
  match a with
  | none => True
  | some x => x.WF

theorem branchRow_congr (ids ms : List String) (b b' : Option DS) (sv : Value) (wb : OptWF b) (hb : OptEquiv b b') :
    branchRow ids ms b sv = branchRow ids ms b' sv := by
  funext rc
  cases b with
  | none => cases b' with
    | none => rfl
    | some y => exact absurd hb (by simp [OptEquiv])
  | some x => cases b' with
    | none => exact absurd hb (by simp [OptEquiv])
    | some y =>
      simp only [branchRow]
      rw [partner_congr x y wb hb rc]

theorem condMeas_congr (t e t' e' : Option DS) (ht : OptEquiv t t') (he : OptEquiv e e') :
    condMeas t e = condMeas t' e' := by
  cases t <;> cases t' <;> cases e <;> cases e' <;> simp_all [OptEquiv, condMeas, DSEquiv]

theorem sameIds_congr (c c' : DS) (b b' : Option DS) (hc : c.ids = c'.ids) (hb : OptEquiv b b') :
    sameIds c b = sameIds c' b' := by
  cases b <;> cases b' <;> simp_all [OptEquiv, sameIds, DSEquiv]

/-- the conditional respects permutation of the rows of all its operands. -/
theorem condD_perm (cond : SExpr) (tv ev : Value) (c c' : DS) (t t' e e' : Option DS)
    (wt : OptWF t) (we : OptWF e) (hc : DSEquiv c c') (ht : OptEquiv t t') (he : OptEquiv e e') :
    Rel2 DSEquiv (condD cond tv ev c t e) (condD cond tv ev c' t' e') := by
  unfold condD
  rw [← sameIds_congr c c' t t' hc.1 ht, ← sameIds_congr c c' e e' hc.1 he]
  split
  · have hf : condRow cond c'.ids (condMeas t' e') t' e' tv ev = condRow cond c.ids (condMeas t e) t e tv ev := by
      funext rc
      simp only [condRow, ← hc.1, ← condMeas_congr t e t' e' ht he, ← branchRow_congr c.ids _ t t' tv wt ht,
        ← branchRow_congr c.ids _ e e' ev we he]
    rw [hf]
    rcases mapRows_perm (condRow cond c.ids (condMeas t e) t e tv ev) hc.2.2 with ⟨a, b, h1, h2⟩ | ⟨x, y, h1, h2, hp⟩
    · rw [h1, h2]; exact Or.inl ⟨a, b, rfl, rfl⟩
    · rw [h1, h2]
      refine Or.inr ⟨_, _, rfl, rfl, ?_⟩
      exact ⟨hc.1, condMeas_congr t e t' e' ht he, hp⟩
  · exact Rel2.error _ _

end VtlModel.Sem

import VtlModel.Sem.Sexp
import VtlModel.Sem.Eval
import VtlModel.Sem.Cond
/-! Decoding of protocol requests into model terms, encoding of results. -/
namespace VtlModel.Sem
open VtlModel

def parseInt? (s : String) : Option Int := s.toInt?

def decValue : Sexp → Option Value
  | .atom "n" => some .null
  | .list [.atom "i", .atom k] => (parseInt? k).map .int
  | .list [.atom "q", .atom a, .atom b] => do
      let n ← parseInt? a; let d ← b.toNat?
      if d = 0 then none else some (.num (mkRat n d))
  | .list [.atom "s", .str s] => some (.str s)
  | .list [.atom "b", .atom "1"] => some (.bool true)
  | .list [.atom "b", .atom "0"] => some (.bool false)
  | _ => none

def encValue : Value → Sexp
  | .null => .atom "n"
  | .int i => .list [.atom "i", .atom (toString i)]
  | .num q => .list [.atom "q", .atom (toString q.num), .atom (toString q.den)]
  | .str s => .list [.atom "s", .str s]
  | .bool b => .list [.atom "b", .atom (if b then "1" else "0")]

def name? : Sexp → Option String
  | .atom s => some s
  | .str s => some s
  | _ => none

def decNames : Sexp → Option (List String)
  | .list xs => xs.mapM name?
  | _ => none

def decUn : String → Option UnOp
  | "neg" => some .neg | "plus" => some .plus | "not" => some .not | "abs" => some .abs
  | "ceil" => some .ceil | "floor" => some .floor | "isnull" => some .isnull
  | "upper" => some .upper | "lower" => some .lower | "trim" => some .trim
  | "ltrim" => some .ltrim | "rtrim" => some .rtrim | "len" => some .len
  | _ => none

def decBin : String → Option BinOp
  | "add" => some .add | "sub" => some .sub | "mul" => some .mul | "div" => some .div | "mod" => some .mod
  | "eq" => some .eq | "ne" => some .ne | "lt" => some .lt | "le" => some .le | "gt" => some .gt | "ge" => some .ge
  | "and" => some .and | "or" => some .or | "xor" => some .xor | "concat" => some .concat
  | "power" => some .power | "log" => some .log | "nvl" => some .nvl
  | _ => none

def decTern : String → Option TernOp
  | "between" => some .between | "substr" => some .substr | "replace" => some .replace | "ite" => some .ite
  | _ => none

def decS : Nat → Sexp → Option SExpr
  | 0, _ => none
  | _+1, .list [.atom "const", v] => (decValue v).map .const
  | _+1, .list [.atom "col", n] => (name? n).map .col
  | _+1, .atom "hole" => some .hole
  | _+1, .atom "hole2" => some .hole2
  | k+1, .list [.atom "un", .atom op, e] => do pure (.un (← decUn op) (← decS k e))
  | k+1, .list [.atom "bin", .atom op, a, b] => do pure (.bin (← decBin op) (← decS k a) (← decS k b))
  | k+1, .list [.atom "tern", .atom op, a, b, c] => do
      pure (.tern (← decTern op) (← decS k a) (← decS k b) (← decS k c))
  | k+1, .list [.atom "in", x, .list vs] => do pure (.isin false (← decS k x) (← vs.mapM decValue))
  | k+1, .list [.atom "notin", x, .list vs] => do pure (.isin true (← decS k x) (← vs.mapM decValue))
  | k+1, .list [.atom "round", x, n] => do pure (.round false (← decS k x) (← decS k n))
  | k+1, .list [.atom "trunc", x, n] => do pure (.round true (← decS k x) (← decS k n))
  | _+1, _ => none

def decOut : Sexp → Option (Option String)
  | .atom "_" => some none
  | s => (name? s).map some

def depth : Sexp → Nat
  | .list xs => 1 + (xs.attach.map (fun ⟨x, _⟩ => depth x)).foldl max 0
  | _ => 1

def decD : Nat → Sexp → Option DExpr
  | 0, _ => none
  | _+1, .list [.atom "ds", n] => (name? n).map .ds
  | k+1, .list [.atom "mapm", d, body, out] => do
      pure (.mapm (← decD k d) (← decS (depth body + 1) body) (← decOut out))
  | k+1, .list [.atom "zip", a, b, body, out] => do
      pure (.zip (← decD k a) (← decD k b) (← decS (depth body + 1) body) (← decOut out))
  | k+1, .list [.atom "filter", d, c] => do pure (.filter (← decD k d) (← decS (depth c + 1) c))
  | k+1, .list [.atom "calc", d, .list items] => do
      let its ← items.mapM (fun it => match it with
        | .list [n, e] => do pure ((← name? n), (← decS (depth e + 1) e))
        | _ => none)
      pure (.calc (← decD k d) its)
  | k+1, .list [.atom "keep", d, ns] => do pure (.keep (← decD k d) (← decNames ns))
  | k+1, .list [.atom "drop", d, ns] => do pure (.drop (← decD k d) (← decNames ns))
  | k+1, .list [.atom "rename", d, .list ps] => do
      let m ← ps.mapM (fun p => match p with
        | .list [a, b] => do pure ((← name? a), (← name? b))
        | _ => none)
      pure (.rename (← decD k d) m)
  | k+1, .list [.atom "sub", d, .list ps] => do
      let m ← ps.mapM (fun p => match p with
        | .list [a, v] => do pure ((← name? a), (← decValue v))
        | _ => none)
      pure (.sub (← decD k d) m)
  | k+1, .list [.atom "ifd", c, cond, t, e] => do
      let c' ← decD k c
      let cond' ← decS (depth cond + 1) cond
      match t, e with
      | .list [.atom "sc", tv], .list [.atom "sc", _] => let _ ← decValue tv; none   -- at least one dataset branch
      | .list [.atom "sc", tv], e => do
          let v ← decValue tv
          pure (.app2 (fun c e => condD cond' v .null c none (some e)) c' (← decD k e))
      | t, .list [.atom "sc", ev] => do
          let v ← decValue ev
          pure (.app2 (fun c t => condD cond' .null v c (some t) none) c' (← decD k t))
      | t, e => do
          pure (.app3 (fun c t e => condD cond' .null .null c (some t) (some e)) c' (← decD k t) (← decD k e))
  | k+1, .list [.atom "union", a, b] => do pure (.union (← decD k a) (← decD k b))
  | k+1, .list [.atom "intersect", a, b] => do pure (.intersect (← decD k a) (← decD k b))
  | k+1, .list [.atom "setdiff", a, b] => do pure (.setdiff (← decD k a) (← decD k b))
  | k+1, .list [.atom "symdiff", a, b] => do pure (.symdiff (← decD k a) (← decD k b))
  | _+1, _ => none

/-- `(name (ids…) (meas…) ((v…)…))` -/
def decDS : Sexp → Option (String × DS)
  | .list [n, ids, meas, .list rows] => do
      let ids ← decNames ids
      let meas ← decNames meas
      let comps := ids ++ meas
      let rs ← rows.mapM (fun r => match r with
        | .list vs => do
            let vals ← vs.mapM decValue
            if vals.length = comps.length then some (comps.zip vals) else none
        | _ => none)
      pure ((← name? n), { ids, meas, rows := rs })
  | _ => none

def encDS (d : DS) : Sexp :=
  .list [.atom "ok", .list (d.ids.map .str), .list (d.meas.map .str),
         .list (d.rows.map (fun r => .list (d.comps.map (fun c => encValue (r.get c)))))]

def encErr : Err → Sexp
  | .divZero => .list [.atom "err", .atom "divzero"]
  | .domain => .list [.atom "err", .atom "domain"]
  | .type => .list [.atom "err", .atom "type"]
  | .unsupported => .list [.atom "err", .atom "unsupported"]
  | .name => .list [.atom "err", .atom "name"]
  | .unstable => .list [.atom "err", .atom "unstable"]

def handle (req : Sexp) : Sexp :=
  match req with
  | .list [.atom "eval", .list dss, e] =>
      match dss.mapM decDS, decD (depth e + 1) e with
      | some env, some de =>
          match evalD env de with
          | .ok d => encDS d
          | .error er => encErr er
      | _, _ => .list [.atom "bad-request"]
  | .list [.atom "scalar", e] =>
      match decS (depth e + 1) e with
      | some se => match evalS [] .null .null se with
                   | .ok v => .list [.atom "ok", encValue v]
                   | .error er => encErr er
      | none => .list [.atom "bad-request"]
  | _ => .list [.atom "bad-request"]

def handleLine (line : String) : String :=
  match Sexp.parse line with
  | some r => (handle r).toString
  | none => "(bad-request)"

end VtlModel.Sem

import VtlModel.Sem.Eval
/-! Analytic (window) functions (VTL analytic invocation, DESIGN.md §4 C06):
`sum avg count min max median stddev_pop stddev_samp var_pop var_samp first_value last_value lag lead rank
ratio_to_report` with `partition by`, `order by` and a `data points` (rows) / `range` window, applied to a whole
dataset (`op(DS over (…))`, every measure) or inside `calc` (`DS[calc out := op(expr over (…))]`).

Import-free beyond the Sem core, total, computable; numbers are exact rationals, there is no `Float`:
`stddev_*` return the exact VARIANCE and are tagged (`AggOp.squared`, `squaredOuts`) so that the harness
compares the square of what the engine returns.

How a datapoint `r` gets its value:
1. its partition = the datapoints that agree with `r` on the `partition by` identifiers (`partOf`);
2. the partition is sorted (structural insertion sort `isort`) by the order key `ordKey`: the `order by`
   components encoded as a list of rationals compared lexicographically (`lexLe`), nulls last in both
   directions (the engine's/DuckDB's default), `desc` = negated values;
3. `r` sits at position `i` of the sorted partition `sp`; a `data points between lo and hi` frame is the rows
   of `sp` at the positions `[i+lo, i+hi]` (`rowsFrame`), a `range` frame is the rows whose order key lies
   within `[k+lo, k+hi]` of `r`'s key `k` (`rangeFrame`; bounds: `none` = unbounded, `0` = current data point);
4. the function is computed from the frame (`aggV`), from the neighbours in `sp` (`lag`, `lead`), from the
   rows that strictly precede `r` (`rank`) or from the whole partition (`ratio_to_report`).
The operator is row preserving: one output datapoint per input datapoint (`mapRows` with total functions). -/
namespace VtlModel.Sem.An
open VtlModel.Sem

/-! ### the total order on datapoints -/

/-- lexicographic `≤` on lists of rationals (a shorter list precedes its extensions). -/
def lexLe : List Rat → List Rat → Bool
  | [], _ => true
  | _ :: _, [] => false
  | a :: as, b :: bs => if a = b then lexLe as bs else decide (a < b)

def sgn (desc : Bool) (q : Rat) : Rat := if desc then -q else q

def charCode (c : Char) : Rat := ((c.toNat + 1 : Nat) : Rat)

/-- one order-key value as a list of rationals: a kind tag first (null = 4 is the largest: NULLS LAST in both
directions), then the value, negated for `desc`.  Strings are their code points + 1 followed by the
terminator 0, so that lexicographic comparison of the encodings is code-point order of the strings. -/
def encV (desc : Bool) : Value → List Rat
  | .null => [4]
  | .int i => [0, sgn desc (i : Rat)]
  | .num q => [0, sgn desc q]
  | .bool b => [2, sgn desc (if b then 1 else 0)]
  | .str s => (3 : Rat) :: (s.toList.map (fun c => sgn desc (charCode c)) ++ [0])

/-- `order by` clause: (component, descending?) -/
abbrev Order := List (String × Bool)

/-- the order key of a datapoint. -/
def ordKey (order : Order) (r : Row) : List Rat := order.flatMap (fun o => encV o.2 (r.get o.1))

def rowLe (order : Order) (a b : Row) : Bool := lexLe (ordKey order a) (ordKey order b)

/-! ### sorting (structural insertion sort, so that closed examples reduce by `decide`) -/

def insertBy {α : Type} (le : α → α → Bool) (x : α) : List α → List α
  | [] => [x]
  | y :: ys => if le x y then x :: y :: ys else y :: insertBy le x ys

def isort {α : Type} (le : α → α → Bool) : List α → List α
  | [] => []
  | x :: xs => insertBy le x (isort le xs)

/-! ### partitions -/

def samePart (part : List String) (r s : Row) : Bool := s.key part == r.key part

/-- the datapoints in the partition of `r`. -/
def partOf (part : List String) (rows : List Row) (r : Row) : List Row := rows.filter (samePart part r)

/-- the partition of `r`, sorted by the order key. -/
def sortedPart (part : List String) (order : Order) (rows : List Row) (r : Row) : List Row :=
  isort (rowLe order) (partOf part rows r)

/-! ### frames -/

/-- a window: `range = false` is `data points between …`; a bound is `none` = unbounded or a signed offset
(`-p` = `p preceding`, `0` = current data point, `f` = `f following`). -/
structure Frame where
  range : Bool
  lo : Option Int
  hi : Option Int
  deriving Repr, Inhabited, DecidableEq

def inLo (lo : Option Int) (i j : Nat) : Bool :=
  match lo with
  | none => true
  | some d => decide ((i : Int) + d ≤ (j : Int))

def inHi (hi : Option Int) (i j : Nat) : Bool :=
  match hi with
  | none => true
  | some d => decide ((j : Int) ≤ (i : Int) + d)

/-- `data points between lo and hi` for the row at position `i`: the rows at positions `[i+lo, i+hi]`. -/
def rowsFrame (lo hi : Option Int) (sp : List Row) (i : Nat) : List Row :=
  (sp.zipIdx.filter (fun p => inLo lo i p.2 && inHi hi i p.2)).map (·.1)

/-- the signed numeric key of the single `order by` component (what `range` offsets are added to). -/
def numKey (order : Order) (r : Row) : Option Rat :=
  match order with
  | [o] => ((r.get o.1).toRat?).map (sgn o.2)
  | _ => none

def keyD (order : Order) (r : Row) : Rat := (numKey order r).getD 0

def offNonZero : Option Int → Bool
  | some d => d != 0
  | none => false

/-- lower bound of a `range` frame: unbounded; current data point = `s` does not strictly precede `r`
(`s` is `r`, a peer of `r`, or follows it); offset `d` = key(s) ≥ key(r) + d on the signed numeric key. -/
def inRangeLo (order : Order) (lo : Option Int) (r s : Row) : Bool :=
  match lo with
  | none => true
  | some d => if d = 0 then rowLe order r s else decide (keyD order r + (d : Rat) ≤ keyD order s)

def inRangeHi (order : Order) (hi : Option Int) (r s : Row) : Bool :=
  match hi with
  | none => true
  | some d => if d = 0 then rowLe order s r else decide (keyD order s ≤ keyD order r + (d : Rat))

/-- `range between lo and hi`: offsets need ONE numeric, non-null `order by` component. -/
def rangeFrame (order : Order) (lo hi : Option Int) (sp : List Row) (r : Row) : R (List Row) :=
  if (offNonZero lo || offNonZero hi) && !(sp.all (fun s => (numKey order s).isSome)) then .error .unsupported
  else .ok (sp.filter (fun s => inRangeLo order lo r s && inRangeHi order hi r s))

/-- the frame of the row `r` at position `i` of its sorted partition `sp`.  No window clause: the whole
partition when there is no `order by`, otherwise `data points between unbounded preceding and current
data point`. -/
def frameRows (order : Order) (f : Option Frame) (sp : List Row) (i : Nat) (r : Row) : R (List Row) :=
  match f with
  | none => if order.isEmpty then .ok sp else .ok (rowsFrame none (some 0) sp i)
  | some f => if f.range then rangeFrame order f.lo f.hi sp r else .ok (rowsFrame f.lo f.hi sp i)

/-! ### the functions over the values of a frame -/

inductive AggOp where
  | sum | avg | count | min | max | median | stddevPop | stddevSamp | varPop | varSamp | first | last
  deriving DecidableEq, Repr, Inhabited

/-- operators whose model value is the SQUARE of the VTL value (exact variance instead of its root). -/
def AggOp.squared : AggOp → Bool
  | .stddevPop | .stddevSamp => true
  | _ => false

def nonNull (xs : List Value) : List Value := xs.filter (fun v => !v.isNull)

def int? : Value → Option Int
  | .int i => some i
  | _ => none

def str? : Value → Option String
  | .str s => some s
  | _ => none

def ratSum (l : List Rat) : Rat := l.foldr (· + ·) 0
def intSum (l : List Int) : Int := l.foldr (· + ·) 0
def mean (rs : List Rat) : Rat := ratSum rs / (rs.length : Rat)
def sqDev (rs : List Rat) : Rat := ratSum (rs.map (fun x => (x - mean rs) * (x - mean rs)))

def ratLe (a b : Rat) : Bool := decide (a ≤ b)
def intLe (a b : Int) : Bool := decide (a ≤ b)
def strCodes (s : String) : List Rat := s.toList.map charCode
def strLe (a b : String) : Bool := lexLe (strCodes a) (strCodes b)

def median (rs : List Rat) : Rat :=
  let s := isort ratLe rs
  let n := s.length
  if n % 2 = 1 then s.getD (n / 2) 0 else (s.getD (n / 2 - 1) 0 + s.getD (n / 2) 0) / 2

/-- least (`isMax = false`) or greatest element under `le`. -/
def extremum {α : Type} (le : α → α → Bool) (isMax : Bool) : List α → Option α
  | [] => none
  | x :: xs => some (xs.foldl (fun m y => if (if isMax then le m y else le y m) then y else m) x)

def optV {α : Type} (f : α → Value) : Option α → Value
  | some a => f a
  | none => .null

def minmax (isMax : Bool) (nn : List Value) : R Value :=
  match nn.mapM int? with
  | some is => .ok (optV .int (extremum intLe isMax is))
  | none =>
    match nn.mapM Value.toRat? with
    | some rs => .ok (optV .num (extremum ratLe isMax rs))
    | none =>
      match nn.mapM str? with
      | some ss => .ok (optV .str (extremum strLe isMax ss))
      | none => .error .unsupported

/-- numeric function of the non-null values (non-empty list). -/
def numAgg (f : List Rat → Value) (nn : List Value) : R Value :=
  match nn.mapM Value.toRat? with
  | some rs => .ok (f rs)
  | none => .error .type

/-- the value of `op` over the values of a frame, in frame order.  Null values are ignored, except by
`first_value` / `last_value`; an empty frame gives null (count: 0). -/
def aggV (op : AggOp) (vals : List Value) : R Value :=
  match op with
  | .first => .ok (vals.head?.getD .null)
  | .last => .ok (vals.getLast?.getD .null)
  | .count => .ok (.int (nonNull vals).length)
  | .min => if (nonNull vals).isEmpty then .ok .null else minmax false (nonNull vals)
  | .max => if (nonNull vals).isEmpty then .ok .null else minmax true (nonNull vals)
  | .sum =>
      if (nonNull vals).isEmpty then .ok .null else
      match (nonNull vals).mapM int? with
      | some is => .ok (.int (intSum is))
      | none => numAgg (fun rs => .num (ratSum rs)) (nonNull vals)
  | .avg => if (nonNull vals).isEmpty then .ok .null else numAgg (fun rs => .num (mean rs)) (nonNull vals)
  | .median => if (nonNull vals).isEmpty then .ok .null else numAgg (fun rs => .num (median rs)) (nonNull vals)
  | .varPop | .stddevPop =>
      if (nonNull vals).isEmpty then .ok .null
      else numAgg (fun rs => .num (sqDev rs / (rs.length : Rat))) (nonNull vals)
  | .varSamp | .stddevSamp =>
      if (nonNull vals).isEmpty then .ok .null
      else numAgg (fun rs => if rs.length < 2 then .null else .num (sqDev rs / ((rs.length : Rat) - 1))) (nonNull vals)

/-- `ratio_to_report`: the value divided by the sum of the partition.  A zero sum is the runtime error the
engine raises (VTL 2-1-3-1) — for every datapoint of the partition, also those whose own value is null; a
partition without any non-null value gives null. -/
def ratioV (x : Value) (vals : List Value) : R Value :=
  (aggV .sum vals) >>= fun s =>
  match s with
  | .null => .ok .null
  | _ =>
    match s.toRat? with
    | none => .error .type
    | some t =>
      if t = 0 then .error .divZero else
      match x with
      | .null => .ok .null
      | _ => match x.toRat? with
             | some q => .ok (.num (q / t))
             | none => .error .type

/-! ### analytic functions -/

inductive Fn where
  | agg (op : AggOp)
  | lag (off : Nat) (dflt : Value)
  | lead (off : Nat) (dflt : Value)
  | rank
  | ratio
  deriving DecidableEq, Repr, Inhabited

def Fn.isRank : Fn → Bool
  | .rank => true
  | _ => false

def Fn.squared : Fn → Bool
  | .agg op => op.squared
  | _ => false

/-- the value of the function for the datapoint `r`, given its sorted partition `sp`; `g` extracts the
operand value of a datapoint. -/
def winCore (fn : Fn) (order : Order) (frame : Option Frame) (sp : List Row) (g : Row → R Value) (r : Row) : R Value :=
  match fn with
  | .agg op =>
      (frameRows order frame sp (sp.idxOf r) r) >>= fun fr =>
      (fr.mapM g) >>= fun vals => aggV op vals
  | .lag off dflt =>
      if off ≤ sp.idxOf r then
        (match sp[sp.idxOf r - off]? with
         | some s => g s
         | none => .ok dflt)
      else .ok dflt
  | .lead off dflt =>
      (match sp[sp.idxOf r + off]? with
       | some s => g s
       | none => .ok dflt)
  | .rank => .ok (.int (1 + ((sp.filter (fun s => !(rowLe order r s))).length : Int)))
  | .ratio => (sp.mapM g) >>= fun vals => (g r) >>= fun x => ratioV x vals

inductive Target where
  /-- `op(DS over (…))`: the function applied to every measure -/
  | each
  /-- `DS[calc out := op(arg over (…))]` -/
  | calc (out : String) (arg : SExpr)
  deriving Repr, Inhabited

structure Spec where
  fn : Fn
  part : List String
  order : Order
  frame : Option Frame
  target : Target
  deriving Inhabited

def winVal (spec : Spec) (rows : List Row) (g : Row → R Value) (r : Row) : R Value :=
  winCore spec.fn spec.order spec.frame (sortedPart spec.part spec.order rows r) g r

/-- output measure name of the dataset-level form (`count` of a single measure is renamed `int_var`). -/
def outMeasName (fn : Fn) (meas : List String) (m : String) : String :=
  match fn, meas with
  | .agg .count, [_] => "int_var"
  | _, _ => m

def eachVals (spec : Spec) (d : DS) (r : Row) : R (List (String × Value)) :=
  d.meas.mapM (fun m => (winVal spec d.rows (fun s => .ok (s.get m)) r).map (fun v => (outMeasName spec.fn d.meas m, v)))

def eachRow (spec : Spec) (d : DS) (r : Row) : R (Option Row) :=
  (eachVals spec d r).map (fun ms => some (r.proj d.ids ++ ms))

def calcARow (spec : Spec) (d : DS) (out : String) (arg : SExpr) (r : Row) : R (Option Row) :=
  (winVal spec d.rows (fun s => evalS s .null .null arg) r).map
    (fun v => some (r.proj (d.ids ++ d.meas.filter (fun m => m != out)) ++ [(out, v)]))

/-- **the analytic invocation on a dataset** -/
def analytic (spec : Spec) (d : DS) : R DS :=
  if !(subset spec.part d.ids) || !(subset (spec.order.map (·.1)) d.comps) then .error .type else
  match spec.target with
  | .each =>
      if d.meas.isEmpty || spec.fn.isRank then .error .type else
      (mapRows (eachRow spec d) d.rows) >>= fun rows =>
      pure { ids := d.ids, meas := d.meas.map (outMeasName spec.fn d.meas), rows := rows }
  | .calc out arg =>
      if d.ids.contains out then .error .type else
      (mapRows (calcARow spec d out arg) d.rows) >>= fun rows =>
      pure { ids := d.ids, meas := d.meas.filter (fun m => m != out) ++ [out], rows := rows }

/-- the ordering is total: no two datapoints of a partition have the same order key. -/
def NoTies (spec : Spec) (d : DS) : Prop :=
  (d.rows.map (fun r => (r.key spec.part, ordKey spec.order r))).Nodup

instance (spec : Spec) (d : DS) : Decidable (NoTies spec d) := by unfold NoTies; exact inferInstance

/-- the analytic invocation restricted to inputs on which the ordering is total (the property's
"when the ordering is total"); other inputs are outside this operator's domain. -/
def analyticTotal (spec : Spec) (d : DS) : R DS :=
  if NoTies spec d then analytic spec d else .error .unsupported

/-- the output measures whose values are squares of the VTL values (see `AggOp.squared`). -/
def squaredOuts (spec : Spec) (d : DS) : List String :=
  if spec.fn.squared then
    (match spec.target with
     | .each => d.meas
     | .calc out _ => [out])
  else []

end VtlModel.Sem.An

import VtlModel.Sem.Hier
import VtlModel.Sem.ValidDpLemmas
/-! Lemmas about hierarchical rulesets: the signed sum, the pure form of a `hierarchy` run, independence
of rules and order independence for dependency-respecting orders. -/
namespace VtlModel.Sem
open List

/-! ### the right-hand side is the signed sum of its components -/

def signedSum : List (Bool × Rat) → Rat
  | [] => 0
  | (neg, v) :: rest => (if neg then -v else v) + signedSum rest

/-- the values of the components (per validation mode), if all of them have one. -/
def compVals (mode : HMode) (st : St) : List (Bool × String) → Option (List (Bool × Rat))
  | [] => some []
  | (neg, ci) :: rest =>
      match valueOf mode st ci, compVals mode st rest with
      | some v, some vs => some ((neg, v) :: vs)
      | _, _ => none

theorem rhs_eq (mode : HMode) (st : St) : ∀ items, rhs mode st items = (compVals mode st items).map signedSum := by
  intro items
  induction items with
  | nil => rfl
  | cons it rest ih =>
    obtain ⟨neg, ci⟩ := it
    simp only [rhs, compVals, ih]
    cases valueOf mode st ci with
    | none => rfl
    | some v =>
      cases compVals mode st rest with
      | none => rfl
      | some vs => rfl

theorem rhs_none_iff (mode : HMode) (st : St) : ∀ items,
    rhs mode st items = none ↔ ∃ it ∈ items, valueOf mode st it.2 = none := by
  intro items
  induction items with
  | nil => simp [rhs]
  | cons it rest ih =>
    obtain ⟨neg, ci⟩ := it
    simp only [rhs, List.mem_cons, exists_eq_or_imp]
    cases hv : valueOf mode st ci with
    | none => simp
    | some v =>
      cases hr : rhs mode st rest with
      | none => simpa [hr] using ih
      | some s => simpa [hr] using ih

theorem all_congr' {α : Type} (f g : α → Bool) : ∀ l : List α, (∀ a ∈ l, f a = g a) → l.all f = l.all g := by
  intro l
  induction l with
  | nil => intro _; rfl
  | cons a l ih =>
    intro h
    simp only [List.all_cons, h a List.mem_cons_self, ih (fun b hb => h b (List.mem_cons_of_mem _ hb))]

theorem any_congr' {α : Type} (f g : α → Bool) : ∀ l : List α, (∀ a ∈ l, f a = g a) → l.any f = l.any g := by
  intro l
  induction l with
  | nil => intro _; rfl
  | cons a l ih =>
    intro h
    simp only [List.any_cons, h a List.mem_cons_self, ih (fun b hb => h b (List.mem_cons_of_mem _ hb))]

/-- two states that hold the same for the given code items. -/
def agreeOn (items : List String) (st st' : St) : Prop := ∀ ci ∈ items, st ci = st' ci

theorem valueOf_congr (mode : HMode) (st st' : St) (ci : String) (h : st ci = st' ci) :
    valueOf mode st ci = valueOf mode st' ci := by
  simp only [valueOf, h]

theorem rhs_congr (mode : HMode) (st st' : St) : ∀ items : List (Bool × String),
    agreeOn (items.map (·.2)) st st' → rhs mode st items = rhs mode st' items := by
  intro items
  induction items with
  | nil => intro _; rfl
  | cons it rest ih =>
    intro h
    obtain ⟨neg, ci⟩ := it
    simp only [rhs]
    rw [valueOf_congr mode st st' ci (h ci (by simp)), ih (fun c hc => h c (by simp at hc ⊢; exact Or.inr hc))]

theorem modeFilterH_congr (mode : HMode) (st st' : St) (ρ : HRule) (h : agreeOn ρ.rightItems st st') :
    modeFilterH mode st ρ = modeFilterH mode st' ρ := by
  have h1 : ρ.rightItems.all (hasValue st) = ρ.rightItems.all (hasValue st') :=
    all_congr' _ _ _ (fun c hc => by simp only [hasValue, h c hc])
  have h2 : ρ.rightItems.any (hasValue st) = ρ.rightItems.any (hasValue st') :=
    any_congr' _ _ _ (fun c hc => by simp only [hasValue, h c hc])
  have h3 : ρ.rightItems.any (present st) = ρ.rightItems.any (present st') :=
    any_congr' _ _ _ (fun c hc => by simp only [present, h c hc])
  have h4 : ρ.rightItems.all (fun ci => valueOf mode st ci == some 0) = ρ.rightItems.all (fun ci => valueOf mode st' ci == some 0) :=
    all_congr' _ _ _ (fun c hc => by simp only [valueOf_congr mode st st' c (h c hc)])
  unfold modeFilterH
  rw [h3]
  cases mode <;> simp only [h1, h2, h4]

/-! ### pure form of a run: conditions evaluated beforehand -/

/-- what a rule does on a state: the new value of its left item (if it fires) and the computed item. -/
def hEffect (mode : HMode) (imode : HInput) (st0 : St) (ρ : HRule) (w : Value) (st : St) :
    Option (Option Rat) × Option (String × Option Rat) :=
  if !modeFilterH mode (if imode == .dataset then st0 else st) ρ then (none, none) else
  (some (newVal imode (compOf mode w (if imode == .dataset then st0 else st) ρ) (st ρ.left)),
   if emits mode (compOf mode w (if imode == .dataset then st0 else st) ρ) then
     some (ρ.left, compOf mode w (if imode == .dataset then st0 else st) ρ) else none)

theorem hEffect_idle (mode : HMode) (imode : HInput) (st0 : St) (ρ : HRule) (w : Value) (st : St)
    (hm : modeFilterH mode (if imode == .dataset then st0 else st) ρ = false) :
    hEffect mode imode st0 ρ w st = (none, none) := by
  unfold hEffect
  rw [hm]
  rfl

theorem hEffect_fired (mode : HMode) (imode : HInput) (st0 : St) (ρ : HRule) (w : Value) (st : St)
    (hm : modeFilterH mode (if imode == .dataset then st0 else st) ρ = true) :
    hEffect mode imode st0 ρ w st =
      (some (newVal imode (compOf mode w (if imode == .dataset then st0 else st) ρ) (st ρ.left)),
       if emits mode (compOf mode w (if imode == .dataset then st0 else st) ρ) then
         some (ρ.left, compOf mode w (if imode == .dataset then st0 else st) ρ) else none) := by
  unfold hEffect
  rw [hm]
  rfl

theorem newVal_eq (imode : HInput) (c : Option Rat) (old : Option (Option Rat)) (h : imode ≠ .rulePriority ∨ c ≠ none) :
    newVal imode c old = c := by
  cases imode <;> cases c <;> simp [newVal] at h ⊢

def applyEff (st : St) (ci : String) : Option (Option Rat) → St
  | none => st
  | some v => st.set ci v

def hStepP (mode : HMode) (imode : HInput) (st0 : St) (ρ : HRule) (w : Value) (st : St) : St × Option (String × Option Rat) :=
  (applyEff st ρ.left (hEffect mode imode st0 ρ w st).1, (hEffect mode imode st0 ρ w st).2)

def hRunP (mode : HMode) (imode : HInput) (st0 : St) : List (HRule × Value) → St → St × List (String × Option Rat)
  | [], st => (st, [])
  | (ρ, w) :: rest, st =>
      ((hRunP mode imode st0 rest (hStepP mode imode st0 ρ w st).1).1,
       (hStepP mode imode st0 ρ w st).2.toList ++ (hRunP mode imode st0 rest (hStepP mode imode st0 ρ w st).1).2)

theorem hStep_eq (mode : HMode) (imode : HInput) (g : Row) (st0 : St) (ρ : HRule) (st : St) :
    hStep mode imode g st0 ρ st = (condOf ρ g).map (fun w => hStepP mode imode st0 ρ w st) := by
  unfold hStep
  cases condOf ρ g with
  | error e => rfl
  | ok w =>
    simp only [bind, Except.bind, Except.map, hStepP]
    cases hm : modeFilterH mode (if imode == .dataset then st0 else st) ρ with
    | false => simp [hEffect_idle mode imode st0 ρ w st hm, hm, pure, Except.pure, applyEff]
    | true => simp [hEffect_fired mode imode st0 ρ w st hm, hm, pure, Except.pure, applyEff]

/-- the rules paired with the value of their `when` condition on the group. -/
def condsOf (g : Row) (rules : List HRule) : R (List (HRule × Value)) :=
  rules.mapM (fun ρ => (condOf ρ g).map (fun w => (ρ, w)))

theorem hRun_eq (mode : HMode) (imode : HInput) (g : Row) (st0 : St) : ∀ (rules : List HRule) (st : St),
    hRun mode imode g st0 rules st = (condsOf g rules).map (fun rws => hRunP mode imode st0 rws st) := by
  intro rules
  induction rules with
  | nil => intro st; rfl
  | cons ρ rest ih =>
    intro st
    simp only [hRun, condsOf, List.mapM_cons, hStep_eq]
    cases condOf ρ g with
    | error e => rfl
    | ok w =>
      have := ih (hStepP mode imode st0 ρ w st).1
      simp only [condsOf] at this
      generalize List.mapM (fun ρ => Except.map (fun w => (ρ, w)) (condOf ρ g)) rest = M at this ⊢
      cases M with
      | error e =>
        simp only [Except.map] at this
        simp only [Except.map, bind, Except.bind, this]
      | ok rws =>
        simp only [Except.map] at this
        simp only [Except.map, bind, Except.bind, this, pure, Except.pure, hRunP]

/-! ### independence and commutation -/

/-- neither rule reads what the other defines, and they define different items. -/
def indep (ρ σ : HRule) : Prop := ρ.left ≠ σ.left ∧ σ.left ∉ ρ.rightItems ∧ ρ.left ∉ σ.rightItems

theorem hEffect_congr (mode : HMode) (imode : HInput) (st0 : St) (ρ : HRule) (w : Value) (st st' : St)
    (h : agreeOn ρ.items st st') : hEffect mode imode st0 ρ w st = hEffect mode imode st0 ρ w st' := by
  have hr : agreeOn ρ.rightItems st st' := fun c hc => h c (List.mem_cons_of_mem _ hc)
  have hl : st ρ.left = st' ρ.left := h ρ.left List.mem_cons_self
  unfold hEffect compOf
  cases hd : (imode == HInput.dataset) with
  | true => simp only [if_true, hl]
  | false =>
    simp only [Bool.false_eq_true, if_false]
    rw [modeFilterH_congr mode st st' ρ hr, rhs_congr mode st st' ρ.right hr, hl]

theorem agreeOn_applyEff (items : List String) (st : St) (ci : String) (e : Option (Option Rat)) (h : ci ∉ items) :
    agreeOn items (applyEff st ci e) st := by
  intro c hc
  cases e with
  | none => rfl
  | some v =>
    simp only [applyEff, St.set]
    have : c ≠ ci := fun hcc => h (hcc ▸ hc)
    simp [this]

theorem applyEff_comm (st : St) (a b : String) (ea eb : Option (Option Rat)) (h : a ≠ b) :
    applyEff (applyEff st a ea) b eb = applyEff (applyEff st b eb) a ea := by
  cases ea with
  | none => rfl
  | some va =>
    cases eb with
    | none => rfl
    | some vb =>
      funext c
      simp only [applyEff, St.set]
      by_cases h1 : c = b
      · subst h1
        have : c ≠ a := fun hca => h hca.symm
        simp [this]
      · simp [h1]

/-- two independent rules commute: same final state, same computed items. -/
theorem hStepP_comm (mode : HMode) (imode : HInput) (st0 : St) (ρ σ : HRule) (wρ wσ : Value) (st : St)
    (h : indep ρ σ) :
    (hStepP mode imode st0 σ wσ (hStepP mode imode st0 ρ wρ st).1).1 = (hStepP mode imode st0 ρ wρ (hStepP mode imode st0 σ wσ st).1).1 ∧
    (hStepP mode imode st0 σ wσ (hStepP mode imode st0 ρ wρ st).1).2 = (hStepP mode imode st0 σ wσ st).2 ∧
    (hStepP mode imode st0 ρ wρ (hStepP mode imode st0 σ wσ st).1).2 = (hStepP mode imode st0 ρ wρ st).2 := by
  obtain ⟨hne, h1, h2⟩ := h
  have hσ : σ.left ∉ ρ.items := by
    intro hm
    rcases List.mem_cons.1 hm with e | e
    · exact hne e.symm
    · exact h1 e
  have hρ : ρ.left ∉ σ.items := by
    intro hm
    rcases List.mem_cons.1 hm with e | e
    · exact hne e
    · exact h2 e
  have e1 : hEffect mode imode st0 σ wσ (applyEff st ρ.left (hEffect mode imode st0 ρ wρ st).1) = hEffect mode imode st0 σ wσ st :=
    hEffect_congr mode imode st0 σ wσ _ st (agreeOn_applyEff σ.items st ρ.left _ hρ)
  have e2 : hEffect mode imode st0 ρ wρ (applyEff st σ.left (hEffect mode imode st0 σ wσ st).1) = hEffect mode imode st0 ρ wρ st :=
    hEffect_congr mode imode st0 ρ wρ _ st (agreeOn_applyEff ρ.items st σ.left _ hσ)
  refine ⟨?_, ?_, ?_⟩
  · show applyEff (applyEff st ρ.left _) σ.left (hEffect mode imode st0 σ wσ (applyEff st ρ.left _)).1 =
         applyEff (applyEff st σ.left _) ρ.left (hEffect mode imode st0 ρ wρ (applyEff st σ.left _)).1
    rw [e1, e2]
    exact applyEff_comm st ρ.left σ.left _ _ hne
  · show (hEffect mode imode st0 σ wσ (applyEff st ρ.left _)).2 = (hEffect mode imode st0 σ wσ st).2
    rw [e1]
  · show (hEffect mode imode st0 ρ wρ (applyEff st σ.left _)).2 = (hEffect mode imode st0 ρ wρ st).2
    rw [e2]

/-- results of a run up to the order of the computed items. -/
def RunEq (a b : St × List (String × Option Rat)) : Prop := a.1 = b.1 ∧ a.2.Perm b.2

theorem RunEq.refl (a : St × List (String × Option Rat)) : RunEq a a := ⟨rfl, Perm.refl _⟩
theorem RunEq.symm {a b : St × List (String × Option Rat)} (h : RunEq a b) : RunEq b a := ⟨h.1.symm, h.2.symm⟩
theorem RunEq.trans {a b c : St × List (String × Option Rat)} (h1 : RunEq a b) (h2 : RunEq b c) : RunEq a c :=
  ⟨h1.1.trans h2.1, h1.2.trans h2.2⟩

/-- a rule that is independent of all rules before it can be applied first. -/
theorem hRunP_move (mode : HMode) (imode : HInput) (st0 : St) (ρ : HRule) (w : Value) (post : List (HRule × Value)) :
    ∀ (pre : List (HRule × Value)), (∀ τ ∈ pre, indep τ.1 ρ) → ∀ st,
      RunEq (hRunP mode imode st0 (pre ++ (ρ, w) :: post) st) (hRunP mode imode st0 ((ρ, w) :: (pre ++ post)) st) := by
  intro pre
  induction pre with
  | nil => intro _ st; exact RunEq.refl _
  | cons τw pre ih =>
    intro hind st
    obtain ⟨τ, wτ⟩ := τw
    have hi : indep τ ρ := hind (τ, wτ) List.mem_cons_self
    have ih' := ih (fun x hx => hind x (List.mem_cons_of_mem _ hx)) (hStepP mode imode st0 τ wτ st).1
    obtain ⟨c1, c2, c3⟩ := hStepP_comm mode imode st0 τ ρ wτ w st hi
    simp only [List.cons_append, hRunP] at ih' ⊢
    constructor
    · rw [ih'.1, c1]
    · rw [c2] at ih'
      rw [c3, ← c1]
      refine (Perm.append_left _ ih'.2).trans ?_
      -- oτ ++ (oρ ++ rest)  ~  oρ ++ (oτ ++ rest)
      rw [← List.append_assoc, ← List.append_assoc]
      exact Perm.append_right _ perm_append_comm

/-! ### dependency-respecting orders -/

/-- no rule reads an item that it defines itself or that a later rule defines; no item is defined twice. -/
def ValidOrder (rules : List HRule) : Prop :=
  (∀ ρ ∈ rules, ρ.left ∉ ρ.rightItems) ∧ rules.Pairwise (fun ρ σ => σ.left ∉ ρ.rightItems ∧ σ.left ≠ ρ.left)

theorem isValidOrder_iff : ∀ rules : List HRule, isValidOrder rules = true ↔ ValidOrder rules := by
  intro rules
  induction rules with
  | nil => simp [isValidOrder, ValidOrder]
  | cons ρ rest ih =>
    simp only [isValidOrder, ValidOrder, Bool.and_eq_true, List.all_eq_true, List.pairwise_cons, List.mem_cons,
      forall_eq_or_imp, ih, usesItem, Bool.not_eq_eq_eq_not, Bool.not_true, List.contains_eq_mem, decide_eq_false_iff_not,
      bne_iff_ne, ne_eq]
    constructor
    · rintro ⟨⟨h1, h2⟩, h3, h4⟩
      exact ⟨⟨h1, h3⟩, fun σ hσ => ⟨(h2 σ hσ).1, (h2 σ hσ).2⟩, h4⟩
    · rintro ⟨⟨h1, h3⟩, h2, h4⟩
      exact ⟨⟨h1, fun σ hσ => ⟨(h2 σ hσ).1, (h2 σ hσ).2⟩⟩, h3, h4⟩

/-- **order independence, pure form**: two dependency-respecting orders of the same rules give the
same final state and the same computed items. -/
theorem hRunP_perm (mode : HMode) (imode : HInput) (st0 : St) : ∀ (l1 l2 : List (HRule × Value)), l1.Perm l2 →
    ValidOrder (l1.map (·.1)) → ValidOrder (l2.map (·.1)) → ∀ st,
      RunEq (hRunP mode imode st0 l1 st) (hRunP mode imode st0 l2 st) := by
  intro l1
  induction l1 with
  | nil =>
    intro l2 hp _ _ st
    rw [hp.nil_eq]
    exact RunEq.refl _
  | cons a t1 ih =>
    intro l2 hp v1 v2 st
    obtain ⟨ρ, w⟩ := a
    have hmem : (ρ, w) ∈ l2 := hp.mem_iff.1 List.mem_cons_self
    obtain ⟨pre, post, rfl⟩ := List.append_of_mem hmem
    have hp' : t1.Perm (pre ++ post) := (hp.trans perm_middle).cons_inv
    -- ρ is independent of everything before it in the second order
    simp only [List.map_append, List.map_cons] at v2
    have hpw := List.pairwise_append.1 v2.2
    have v1p := List.pairwise_cons.1 v1.2
    have hind : ∀ τ ∈ pre, indep τ.1 ρ := by
      intro τ hτ
      have hτ1 : τ.1 ∈ pre.map (·.1) := List.mem_map.2 ⟨τ, hτ, rfl⟩
      have hb := hpw.2.2 τ.1 hτ1 ρ List.mem_cons_self
      have hτt : τ.1 ∈ t1.map (·.1) := List.mem_map.2 ⟨τ, hp'.mem_iff.2 (List.mem_append_left _ hτ), rfl⟩
      have ha := v1p.1 τ.1 hτt
      exact ⟨fun e => ha.2 e, hb.1, ha.1⟩
    have vpp : ValidOrder ((pre ++ post).map (·.1)) := by
      refine ⟨fun σ hσ => v2.1 σ ?_, ?_⟩
      · simp only [List.map_append, List.mem_append, List.mem_cons] at hσ ⊢
        rcases hσ with h | h
        · exact Or.inl h
        · exact Or.inr (Or.inr h)
      · simp only [List.map_append]
        exact v2.2.sublist ((List.Sublist.refl _).append (List.sublist_cons_self _ _))
    have vt1 : ValidOrder (t1.map (·.1)) :=
      ⟨fun σ hσ => v1.1 σ (List.mem_cons_of_mem _ hσ), v1p.2⟩
    refine RunEq.trans ?_ (RunEq.symm (hRunP_move mode imode st0 ρ w post pre hind st))
    have := ih (pre ++ post) hp' vt1 vpp (hStepP mode imode st0 ρ w st).1
    simp only [hRunP]
    exact ⟨this.1, Perm.append_left _ this.2⟩

end VtlModel.Sem

import VtlModel.Sem.Codec
import VtlModel.Sem.Hier
/-! Protocol of the validation / hierarchy model (C07):
`(eval (<datasets>) <vexpr>)` with
`<vexpr> ::= (check <ec> <el> <invalid 0|1> <inner 0|1> <vexpr> <vexpr>|_)`
`          | (dp <out> (<dprule>…) <vexpr>)`,  `<dprule> ::= (rule <name> <sexpr>|_ <sexpr> <ec> <el>)`
`          | (ch <mode> <out> <rc> (<hrule>…) <vexpr>)`
`          | (hier <mode> <imode> <all 0|1> <rc> (<hrule>…) <vexpr>)`
`          | <dexpr of Sem/Codec>`
`<hrule> ::= (hrule <name> <left> <cmp> ((<neg 0|1> <item>)…) <sexpr>|_ <ec> <el>)`,
`<out> ::= invalid | all | all_measures`, `<mode>` the six validation modes, `<imode> ::= rule | dataset | rule_priority`;
`(validorder (<hrule>…))` answers `(ok (b 1))` iff the `=` rules, in the given order, are a valid dependency order. -/
namespace VtlModel.Sem
open VtlModel

def decBit : Sexp → Option Bool
  | .atom "1" => some true
  | .atom "0" => some false
  | _ => none

def decOptS : Sexp → Option (Option SExpr)
  | .atom "_" => some none
  | e => (decS (depth e + 1) e).map some

def decDPOut : Sexp → Option DPOut
  | .atom "invalid" => some .invalid
  | .atom "all" => some .all
  | .atom "all_measures" => some .allMeasures
  | _ => none

def decHMode : Sexp → Option HMode
  | .atom "non_null" => some .nonNull
  | .atom "non_zero" => some .nonZero
  | .atom "partial_null" => some .partialNull
  | .atom "partial_zero" => some .partialZero
  | .atom "always_null" => some .alwaysNull
  | .atom "always_zero" => some .alwaysZero
  | _ => none

def decHInput : Sexp → Option HInput
  | .atom "rule" => some .rule
  | .atom "dataset" => some .dataset
  | .atom "rule_priority" => some .rulePriority
  | _ => none

def decDPRule : Sexp → Option DPRule
  | .list [.atom "rule", n, a, c, ec, el] => do
      pure { name := (← name? n), ante := (← decOptS a), cons := (← decS (depth c + 1) c),
             ec := (← decValue ec), el := (← decValue el) }
  | _ => none

def decCmp : Sexp → Option BinOp
  | .atom "eq" => some .eq | .atom "lt" => some .lt | .atom "le" => some .le
  | .atom "gt" => some .gt | .atom "ge" => some .ge
  | _ => none

def decSigned : Sexp → Option (Bool × String)
  | .list [b, n] => do pure ((← decBit b), (← name? n))
  | _ => none

def decHRule : Sexp → Option HRule
  | .list [.atom "hrule", n, l, op, .list its, c, ec, el] => do
      pure { name := (← name? n), left := (← name? l), cmp := (← decCmp op), right := (← its.mapM decSigned),
             cond := (← decOptS c), ec := (← decValue ec), el := (← decValue el) }
  | _ => none

def decV : Nat → Sexp → Option DExpr
  | 0, _ => none
  | k+1, .list [.atom "check", ec, el, inv, inner, d, .atom "_"] => do
      let spec : CheckSpec := { ec := (← decValue ec), el := (← decValue el), invalid := (← decBit inv), imbInner := (← decBit inner) }
      pure (.app1 (fun x => check spec x none) (← decV k d))
  | k+1, .list [.atom "check", ec, el, inv, inner, d, i] => do
      let spec : CheckSpec := { ec := (← decValue ec), el := (← decValue el), invalid := (← decBit inv), imbInner := (← decBit inner) }
      pure (.app2 (fun x y => check spec x (some y)) (← decV k d) (← decV k i))
  | k+1, .list [.atom "dp", out, .list rs, d] => do
      pure (.app1 (checkDatapoint (← rs.mapM decDPRule) (← decDPOut out)) (← decV k d))
  | k+1, .list [.atom "ch", mode, out, rc, .list rs, d] => do
      pure (.app1 (checkHierarchy (← rs.mapM decHRule) (← decHMode mode) (← decDPOut out) (← name? rc)) (← decV k d))
  | k+1, .list [.atom "hier", mode, im, all, rc, .list rs, d] => do
      pure (.app1 (hierarchy (← rs.mapM decHRule) (← decHMode mode) (← decHInput im) (← decBit all) (← name? rc)) (← decV k d))
  | _+1, e => decD (depth e + 1) e

def handleV (req : Sexp) : Sexp :=
  match req with
  | .list [.atom "eval", .list dss, e] =>
      match dss.mapM decDS, decV (depth e + 1) e with
      | some env, some de =>
          match evalD env de with
          | .ok d => encDS d
          | .error er => encErr er
      | _, _ => .list [.atom "bad-request"]
  | .list [.atom "validorder", .list rs] =>
      match rs.mapM decHRule with
      | some rules => .list [.atom "ok", encValue (.bool (isValidOrder (rules.filter (fun ρ => ρ.cmp == .eq))))]
      | none => .list [.atom "bad-request"]
  | _ => .list [.atom "bad-request"]

def handleLineV (line : String) : String :=
  match Sexp.parse line with
  | some r => (handleV r).toString
  | none => "(bad-request)"

end VtlModel.Sem

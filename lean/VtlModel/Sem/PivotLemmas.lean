import VtlModel.Sem.Pivot
import VtlModel.Sem.AggrLemmas
/-! Lemmas about `unpivot`, `pivot`, `calcRole` (Sem/Pivot.lean): what a successful application consists of, membership
of the result rows, key uniqueness (`*_WF`) and row-permutation invariance (`*_perm`) — the two plug-in lemmas with which
`C10.evalD_WF` and `C33.evalD_perm` extend to expressions containing these operators. -/
namespace VtlModel.Sem
open List

/-! ### generic -/

theorem key_append (r : Row) (a b : List String) : r.key (a ++ b) = r.key a ++ r.key b := by
  simp [Row.key]

theorem key_length (r : Row) (a : List String) : (r.key a).length = a.length := by simp [Row.key]

theorem nodup_flatMap_of {α β : Type} (g : α → List β) :
    ∀ l : List α, (∀ a ∈ l, (g a).Nodup) → l.Pairwise (fun a b => ∀ x ∈ g a, x ∉ g b) → (l.flatMap g).Nodup := by
  intro l
  induction l with
  | nil => intro _ _; simp
  | cons a l ih =>
    intro hn hp
    rw [List.flatMap_cons, List.nodup_append]
    rw [List.pairwise_cons] at hp
    refine ⟨hn a List.mem_cons_self, ih (fun b hb => hn b (List.mem_cons_of_mem _ hb)) hp.2, ?_⟩
    intro x hx y hy hxy
    subst hxy
    obtain ⟨b, hb, hxb⟩ := List.mem_flatMap.1 hy
    exact hp.1 b hb x hx hxb

/-- a row is the partner of `rb` iff it is a row of the dataset with `rb`'s key (unique keys). -/
theorem partner_some_iff (y : DS) (w : y.WF) (rb rs : Row) :
    partner y rb = some rs ↔ rs ∈ y.rows ∧ rs.key y.ids = rb.key y.ids := by
  obtain ⟨ids, meas, rows⟩ := y
  simp only [partner, DS.WF, DS.keys] at *
  constructor
  · intro hh
    exact ⟨List.mem_of_find?_eq_some hh, by simpa using List.find?_some hh⟩
  · rintro ⟨hm, hk⟩
    induction rows with
    | nil => cases hm
    | cons a l ih =>
      simp only [List.map_cons, List.nodup_cons] at w
      simp only [List.find?_cons]
      by_cases ha : (a.key ids == rb.key ids) = true
      · simp only [ha]
        rcases List.mem_cons.1 hm with rfl | hm'
        · rfl
        · exfalso
          apply w.1
          have : a.key ids = rs.key ids := by rw [hk]; simpa using ha
          rw [this]
          exact List.mem_map.2 ⟨rs, hm', rfl⟩
      · simp only [ha]
        rcases List.mem_cons.1 hm with rfl | hm'
        · exfalso; apply ha; simp [hk]
        · exact ih w.2 hm'

theorem partner_none_iff (y : DS) (rb : Row) :
    partner y rb = none ↔ ∀ rs ∈ y.rows, rs.key y.ids ≠ rb.key y.ids := by
  simp [partner, List.find?_eq_none]

/-! ### unpivot -/

theorem unpivot_ok (atts : List String) (idn mn : String) (d r : DS) (h : unpivot atts idn mn d = .ok r) :
    d.ids ≠ [] ∧ idn ∉ d.comps ∧ mn ∉ d.ids ∧ mn ≠ idn ∧ (unpivotMeas atts d).Nodup ∧
    r = { ids := d.ids ++ [idn], meas := [mn], rows := d.rows.flatMap (unpivotRow d.ids (unpivotMeas atts d) idn mn) } := by
  unfold unpivot at h
  split at h
  · cases h
  · rename_i hc
    split at h
    · cases h
    · rename_i hn
      simp only [Bool.or_eq_true, not_or, List.isEmpty_iff, List.contains_iff_mem, beq_iff_eq] at hc
      simp only [Bool.not_eq_true', decide_eq_false_iff_not, Decidable.not_not] at hn
      injection h with h
      exact ⟨hc.1.1.1, hc.1.1.2, hc.1.2, hc.2, hn, h.symm⟩

theorem mem_unpivotRow (ids ms : List String) (idn mn : String) (r r' : Row) :
    r' ∈ unpivotRow ids ms idn mn r ↔
      ∃ m ∈ ms, (r.get m).isNull = false ∧ r' = r.proj ids ++ [(idn, Value.str m), (mn, r.get m)] := by
  unfold unpivotRow
  simp only [List.mem_map, List.mem_filter, Bool.not_eq_true']
  constructor
  · rintro ⟨m, ⟨hm, hn⟩, rfl⟩; exact ⟨m, hm, hn, rfl⟩
  · rintro ⟨m, hm, hn, rfl⟩; exact ⟨m, ⟨hm, hn⟩, rfl⟩

/-- the identifier key of a datapoint produced by unpivot: the operand datapoint's key, then the measure name. -/
theorem unpivot_key (ids : List String) (idn mn : String) (r : Row) (m : String) (v : Value) (hid : idn ∉ ids) :
    Row.key (r.proj ids ++ [(idn, Value.str m), (mn, v)]) (ids ++ [idn]) = r.key ids ++ [Value.str m] := by
  rw [key_append, key_proj_append r ids ids _ (fun _ h => h)]
  congr 1
  simp only [Row.key, List.map_cons, List.map_nil]
  rw [get_proj_append_not_mem r ids _ idn hid]
  simp [Row.get]

theorem unpivotRow_keys (ids ms : List String) (idn mn : String) (r : Row) (hid : idn ∉ ids) :
    (unpivotRow ids ms idn mn r).map (·.key (ids ++ [idn])) =
      (ms.filter (fun m => !(r.get m).isNull)).map (fun m => r.key ids ++ [Value.str m]) := by
  unfold unpivotRow
  rw [List.map_map]
  apply List.map_congr_left
  intro m _
  exact unpivot_key ids idn mn r m _ hid

/-- plug-in lemma for `C10.evalD_WF`. -/
theorem unpivot_WF (atts : List String) (idn mn : String) (x r : DS) (w : x.WF) (h : unpivot atts idn mn x = .ok r) : r.WF := by
  obtain ⟨_, hid, _, _, hn, rfl⟩ := unpivot_ok atts idn mn x r h
  have hid' : idn ∉ x.ids := fun hm => hid (List.mem_append_left _ hm)
  simp only [DS.WF, DS.keys]
  rw [List.map_flatMap]
  apply nodup_flatMap_of
  · intro a _
    show ((unpivotRow x.ids (unpivotMeas atts x) idn mn a).map (·.key (x.ids ++ [idn]))).Nodup
    rw [unpivotRow_keys _ _ _ _ _ hid']
    refine nodup_map_of_nodup_map id _ _ (by rw [List.map_id]; exact (List.filter_sublist).nodup hn) ?_
    intro m1 _ m2 _ hk
    have := List.append_cancel_left hk
    simpa using this
  · have hw : x.rows.Pairwise (fun a b => a.key x.ids ≠ b.key x.ids) := by
      have := w
      simp only [DS.WF, DS.keys, List.Nodup, List.pairwise_map] at this
      exact this
    refine hw.imp ?_
    intro a b hab k hka hkb
    change k ∈ (unpivotRow x.ids (unpivotMeas atts x) idn mn a).map (·.key (x.ids ++ [idn])) at hka
    change k ∈ (unpivotRow x.ids (unpivotMeas atts x) idn mn b).map (·.key (x.ids ++ [idn])) at hkb
    rw [unpivotRow_keys _ _ _ _ _ hid'] at hka hkb
    obtain ⟨m1, _, rfl⟩ := List.mem_map.1 hka
    obtain ⟨m2, _, h2⟩ := List.mem_map.1 hkb
    exact hab (List.append_inj_left h2 (by rw [key_length, key_length])).symm

theorem unpivot_perm_any (atts : List String) (idn mn : String) (x y : DS) (h : DSEquiv x y) :
    Rel2 DSEquiv (unpivot atts idn mn x) (unpivot atts idn mn y) := by
  obtain ⟨hi, hm, hp⟩ := h
  have hc : y.comps = x.comps := by simp [DS.comps, hi, hm]
  have hu : unpivotMeas atts y = unpivotMeas atts x := by simp [unpivotMeas, hm]
  unfold unpivot
  rw [hc, hu, ← hi]
  split
  · exact Rel2.error _ _
  · split
    · exact Rel2.error _ _
    · exact Or.inr ⟨_, _, rfl, rfl, rfl, rfl, hp.flatMap_right _⟩

/-- plug-in lemma for `C33.evalD_perm`. -/
theorem unpivot_perm (atts : List String) (idn mn : String) (x y : DS) (_ : x.WF) (h : DSEquiv x y) :
    Rel2 DSEquiv (unpivot atts idn mn x) (unpivot atts idn mn y) := unpivot_perm_any atts idn mn x y h

/-! ### pivot -/

theorem pivot_ok (idn mn : String) (d r : DS) (h : pivot idn mn d = .ok r) :
    idn ∈ d.ids ∧ mn ∈ d.meas ∧ (∀ x ∈ d.rows, ∃ s, x.get idn = .str s) ∧
    (∀ c ∈ pivotCols idn d.rows, c ∉ d.ids.filter (fun i => i != idn)) ∧
    r = { ids := d.ids.filter (fun i => i != idn), meas := pivotCols idn d.rows,
          rows := (keyRows (d.ids.filter (fun i => i != idn)) d.rows).map
                    (pivotRow d (d.ids.filter (fun i => i != idn)) (pivotCols idn d.rows) idn mn) } := by
  unfold pivot at h
  split at h
  · cases h
  · rename_i h1
    split at h
    · cases h
    · rename_i h2
      split at h
      · cases h
      · rename_i h3
        simp only [Bool.or_eq_true, Bool.not_eq_true', not_or, Bool.not_eq_false, List.contains_iff_mem] at h1
        simp only [List.any_eq_true, not_exists, not_and, Bool.not_eq_true, Option.isNone_eq_false_iff,
          Option.isSome_iff_exists] at h2
        simp only [List.any_eq_true, List.contains_iff_mem, not_exists, not_and] at h3
        injection h with h
        refine ⟨h1.1, h1.2, ?_, h3, h.symm⟩
        intro x hx
        obtain ⟨s, hs⟩ := h2 x hx
        cases hv : x.get idn with
        | str s' => exact ⟨s', rfl⟩
        | null => simp [hv, Value.str?] at hs
        | int i => simp [hv, Value.str?] at hs
        | num q => simp [hv, Value.str?] at hs
        | bool b => simp [hv, Value.str?] at hs

theorem pivotRow_key (d : DS) (rest cols : List String) (idn mn : String) (r : Row) :
    (pivotRow d rest cols idn mn (r.proj rest)).key rest = r.key rest := by
  unfold pivotRow
  exact key_proj_append r rest rest _ (fun _ h => h)

/-- **pivot produces one datapoint per distinct key** (for any operand); plug-in lemma for `C10.evalD_WF`. -/
theorem pivot_keys_nodup (idn mn : String) (x r : DS) (h : pivot idn mn x = .ok r) : r.keys.Nodup := by
  obtain ⟨_, _, _, _, rfl⟩ := pivot_ok idn mn x r h
  simp only [DS.keys, List.map_map]
  refine nodup_map_of_nodup_map (·.key (x.ids.filter (fun i => i != idn))) _ _
    (keyRows_keys_nodup _ x.rows) ?_
  intro a ha b hb hk
  obtain ⟨ra, _, rfl⟩ := (mem_keyRows _ x.rows a).1 ha
  obtain ⟨rb, _, rfl⟩ := (mem_keyRows _ x.rows b).1 hb
  simp only [Function.comp, pivotRow_key] at hk
  rw [key_proj_self, key_proj_self]
  exact hk

theorem pivot_WF (idn mn : String) (x r : DS) (_ : x.WF) (h : pivot idn mn x = .ok r) : r.WF :=
  pivot_keys_nodup idn mn x r h

/-- the key over `remaining identifiers ++ [pivoted identifier]` determines the key over all identifiers. -/
theorem pivotAux_key_inj (ids : List String) (idn : String) (a b : Row)
    (hk : a.key (ids.filter (fun i => i != idn) ++ [idn]) = b.key (ids.filter (fun i => i != idn) ++ [idn])) :
    a.key ids = b.key ids := by
  unfold Row.key at *
  apply List.map_congr_left
  intro i hi
  have hall := List.map_inj_left.1 hk
  by_cases hii : i = idn
  · subst hii; exact hall i (by simp)
  · exact hall i (List.mem_append_left _ (List.mem_filter.2 ⟨hi, by simpa using hii⟩))

theorem pivotAux_WF (d : DS) (idn : String) (w : d.WF) : (pivotAux d (d.ids.filter (fun i => i != idn)) idn).WF := by
  simp only [DS.WF, DS.keys, pivotAux] at *
  exact nodup_map_of_nodup_map _ _ _ w (fun a _ b _ hk => pivotAux_key_inj d.ids idn a b hk)

theorem pivotCell_congr (x y : DS) (w : x.WF) (h : DSEquiv x y) (idn mn : String) (kr : Row) (c : String) :
    pivotCell x (x.ids.filter (fun i => i != idn)) idn mn kr c = pivotCell y (y.ids.filter (fun i => i != idn)) idn mn kr c := by
  unfold pivotCell
  have he : DSEquiv (pivotAux x (x.ids.filter (fun i => i != idn)) idn) (pivotAux y (y.ids.filter (fun i => i != idn)) idn) := by
    refine ⟨?_, h.2.1, h.2.2⟩
    simp [pivotAux, h.1]
  rw [partner_congr _ _ (pivotAux_WF x idn w) he]

theorem pivotCols_perm (idn : String) {rows rows' : List Row} (h : rows.Perm rows') : pivotCols idn rows = pivotCols idn rows' := by
  unfold pivotCols
  exact isort_eq_of_perm strLe strLe_trans strLe_total strLe_antisymm (dedup_perm (h.filterMap _))

/-- plug-in lemma for `C33.evalD_perm`: the measures of the result are sorted, so the structure does not depend on the
order of the datapoints either. -/
theorem pivot_perm (idn mn : String) (x y : DS) (w : x.WF) (h : DSEquiv x y) :
    Rel2 DSEquiv (pivot idn mn x) (pivot idn mn y) := by
  have hc := pivotCols_perm idn h.2.2
  have hany : x.rows.any (fun r => (r.get idn).str?.isNone) = y.rows.any (fun r => (r.get idn).str?.isNone) := h.2.2.any_eq
  unfold pivot
  rw [← h.1, ← h.2.1, ← hc, ← hany]
  split
  · exact Rel2.error _ _
  · split
    · exact Rel2.error _ _
    · split
      · exact Rel2.error _ _
      · refine Or.inr ⟨_, _, rfl, rfl, rfl, rfl, ?_⟩
        have hf : pivotRow y (x.ids.filter (fun i => i != idn)) (pivotCols idn x.rows) idn mn
            = pivotRow x (x.ids.filter (fun i => i != idn)) (pivotCols idn x.rows) idn mn := by
          funext kr
          unfold pivotRow
          congr 1
          apply List.map_congr_left
          intro c _
          have := pivotCell_congr x y w h idn mn kr c
          rw [← h.1] at this
          rw [this]
        show ((keyRows _ x.rows).map _).Perm ((keyRows _ y.rows).map _)
        rw [hf]
        exact (keyRows_perm _ h.2.2).map _

/-- the cell of the input datapoint `r` holds `r`'s value of the pivoted measure (unique keys). -/
theorem pivotCell_hit (d : DS) (w : d.WF) (idn mn : String) (r : Row) (hr : r ∈ d.rows) (c : String)
    (hc : r.get idn = .str c) :
    pivotCell d (d.ids.filter (fun i => i != idn)) idn mn (r.proj (d.ids.filter (fun i => i != idn))) c = r.get mn := by
  unfold pivotCell
  have hnot : idn ∉ d.ids.filter (fun i => i != idn) := by simp
  have hkey : r.key (pivotAux d (d.ids.filter (fun i => i != idn)) idn).ids =
      Row.key (r.proj (d.ids.filter (fun i => i != idn)) ++ [(idn, Value.str c)]) (pivotAux d (d.ids.filter (fun i => i != idn)) idn).ids := by
    simp only [pivotAux]
    rw [key_append, key_append, key_proj_append r _ _ _ (fun _ h => h)]
    congr 1
    simp only [Row.key, List.map_cons, List.map_nil]
    rw [get_proj_append_not_mem r _ _ idn hnot, hc]
    simp [Row.get]
  have := (partner_some_iff _ (pivotAux_WF d idn w) (r.proj (d.ids.filter (fun i => i != idn)) ++ [(idn, Value.str c)]) r).2
    ⟨hr, hkey⟩
  rw [this]

/-- no input datapoint with that key and that value of the pivoted identifier: the cell is null. -/
theorem pivotCell_miss (d : DS) (idn mn : String) (kr : Row) (c : String)
    (h : ∀ r ∈ d.rows, ¬ (r.key (d.ids.filter (fun i => i != idn)) = kr.key (d.ids.filter (fun i => i != idn)) ∧ r.get idn = .str c)) :
    pivotCell d (d.ids.filter (fun i => i != idn)) idn mn (kr.proj (d.ids.filter (fun i => i != idn))) c = .null := by
  unfold pivotCell
  have hnot : idn ∉ d.ids.filter (fun i => i != idn) := by simp
  have : partner (pivotAux d (d.ids.filter (fun i => i != idn)) idn)
      (kr.proj (d.ids.filter (fun i => i != idn)) ++ [(idn, Value.str c)]) = none := by
    rw [partner_none_iff]
    intro rs hrs hk
    apply h rs hrs
    simp only [pivotAux] at hk
    rw [key_append, key_append, key_proj_append kr _ _ _ (fun _ h => h)] at hk
    obtain ⟨h1, h2⟩ := List.append_inj hk (by rw [key_length, key_length])
    refine ⟨h1, ?_⟩
    simp only [Row.key, List.map_cons, List.map_nil, List.cons.injEq, and_true] at h2
    rw [get_proj_append_not_mem kr _ _ idn hnot] at h2
    rw [h2]
    simp [Row.get]
  rw [this]

/-- lookup of a measure of the result row. -/
theorem pivotRow_get (d : DS) (rest cols : List String) (idn mn : String) (kr : Row) (c : String)
    (hc : c ∈ cols) (hn : c ∉ rest) :
    (pivotRow d rest cols idn mn (kr.proj rest)).get c = pivotCell d rest idn mn (kr.proj rest) c := by
  unfold pivotRow
  rw [get_proj_append_not_mem kr rest _ c hn]
  unfold Row.get
  have := lookup_map_pair (fun c => pivotCell d rest idn mn (kr.proj rest) c) cols [] c hc
  simp only [List.append_nil] at this
  rw [this]
  rfl

theorem mem_pivotCols (idn : String) (rows : List Row) (c : String) :
    c ∈ pivotCols idn rows ↔ ∃ r ∈ rows, r.get idn = .str c := by
  unfold pivotCols
  rw [(isort_perm strLe _).mem_iff, mem_dedup, List.mem_filterMap]
  constructor
  · rintro ⟨r, hr, hs⟩
    refine ⟨r, hr, ?_⟩
    cases hv : r.get idn <;> simp [hv, Value.str?] at hs
    rw [hs]
  · rintro ⟨r, hr, hs⟩
    exact ⟨r, hr, by simp [hs, Value.str?]⟩

/-! ### calc with roles -/

theorem calcRoleRow_some (keep : List String) (idItems others : List (String × SExpr)) (r r' : Row) :
    calcRoleRow keep idItems others r = .ok (some r') ↔
      ∃ ivs ovs, calcVals idItems r = .ok ivs ∧ (∀ p ∈ ivs, p.2.isNull = false) ∧ calcVals others r = .ok ovs ∧
        r' = r.proj keep ++ (ivs ++ ovs) := by
  unfold calcRoleRow
  cases hi : calcVals idItems r with
  | error e => simp [bind, Except.bind]
  | ok ivs =>
    simp only [bind, Except.bind]
    by_cases hn : ivs.any (fun p => p.2.isNull) = true
    · simp only [hn, if_true]
      constructor
      · intro h; cases h
      · rintro ⟨ivs', ovs, h1, h2, _, _⟩
        injection h1 with h1; subst h1
        obtain ⟨p, hp, hpn⟩ := List.any_eq_true.1 hn
        rw [h2 p hp] at hpn; cases hpn
    · simp only [hn]
      have hall : ∀ p ∈ ivs, p.2.isNull = false := by
        intro p hp
        cases hv : p.2.isNull with
        | false => rfl
        | true => exact absurd (List.any_eq_true.2 ⟨p, hp, hv⟩) hn
      cases ho : calcVals others r with
      | error e =>
        simp only [Bool.false_eq_true, if_false]
        constructor
        · intro h; cases h
        · rintro ⟨_, _, _, _, h3, _⟩; cases h3
      | ok ovs =>
        simp only [Bool.false_eq_true, if_false, pure, Except.pure, Except.ok.injEq, Option.some.injEq]
        constructor
        · intro h; exact ⟨ivs, ovs, rfl, hall, rfl, h.symm⟩
        · rintro ⟨ivs', ovs', h1, _, h3, rfl⟩
          subst h1; subst h3; rfl

theorem calcRole_ok (idItems others : List (String × SExpr)) (d r : DS) (h : calcRole idItems others d = .ok r) :
    (∀ n ∈ calcRoleNames idItems others, n ∉ d.ids) ∧ (calcRoleNames idItems others).Nodup ∧
    ∃ rows, mapRows (calcRoleRow (d.ids ++ calcRoleKept idItems others d) idItems others) d.rows = .ok rows ∧
      r = { ids := d.ids ++ idItems.map (·.1), meas := calcRoleKept idItems others d ++ others.map (·.1), rows := rows } := by
  unfold calcRole at h
  split at h
  · cases h
  · rename_i hc
    simp only [Bool.or_eq_true, not_or, List.any_eq_true, List.contains_iff_mem, not_exists, not_and, Bool.not_eq_true',
      decide_eq_false_iff_not, Decidable.not_not] at hc
    obtain ⟨rows, hr, h⟩ := (bindOk _ _ _).1 h
    simp only [pure, Except.pure, Except.ok.injEq] at h
    exact ⟨hc.1, hc.2, rows, hr, h.symm⟩

/-- plug-in lemma for `C10.evalD_WF`: added identifiers extend the key, so keys stay unique. -/
theorem calcRole_WF (idItems others : List (String × SExpr)) (x r : DS) (w : x.WF) (h : calcRole idItems others x = .ok r) : r.WF := by
  obtain ⟨_, _, rows, hr, rfl⟩ := calcRole_ok idItems others x r h
  have hbase : (rows.map (·.key x.ids)).Nodup := by
    refine mapRows_WF _ x.ids x.ids _ rows hr ?_ w
    intro a a' _ hf
    obtain ⟨ivs, ovs, _, _, _, rfl⟩ := (calcRoleRow_some _ _ _ _ _).1 hf
    exact key_proj_append a _ x.ids _ (fun i hi => List.mem_append_left _ hi)
  simp only [DS.WF, DS.keys]
  refine nodup_map_of_nodup_map _ _ rows hbase ?_
  intro a _ b _ hk
  rw [key_append, key_append] at hk
  exact List.append_inj_left hk (by rw [key_length, key_length])

theorem calcRole_perm_any (idItems others : List (String × SExpr)) (x y : DS) (h : DSEquiv x y) :
    Rel2 DSEquiv (calcRole idItems others x) (calcRole idItems others y) := by
  obtain ⟨hi, hm, hp⟩ := h
  have hk : calcRoleKept idItems others y = calcRoleKept idItems others x := by simp [calcRoleKept, hm]
  unfold calcRole
  rw [hk, ← hi]
  split
  · exact Rel2.error _ _
  · refine Rel2.bind (P := Perm) (mapRows_perm _ hp) ?_
    intro rows rows' hrr
    exact Rel2.pure ⟨rfl, rfl, hrr⟩

theorem calcRole_perm (idItems others : List (String × SExpr)) (x y : DS) (_ : x.WF) (h : DSEquiv x y) :
    Rel2 DSEquiv (calcRole idItems others x) (calcRole idItems others y) := calcRole_perm_any idItems others x y h

end VtlModel.Sem

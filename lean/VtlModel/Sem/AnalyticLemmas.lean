import VtlModel.Sem.Analytic
import VtlModel.Sem.Perm
/-! Helper lemmas for the analytic model: the order on keys is a total preorder that is antisymmetric,
insertion sort sorts and permutes, the sorted partition does not depend on the input row order when
there are no ties. -/
namespace VtlModel.Sem.An
open VtlModel.Sem List

/-! ### `lexLe` is a linear order on key lists -/

theorem rat_lt_trans {a b c : Rat} (h1 : a < b) (h2 : b < c) : a < c := by
  have hle : a ≤ c := Rat.le_trans (Rat.le_of_lt h1) (Rat.le_of_lt h2)
  refine Rat.lt_of_le_of_ne hle ?_
  intro e
  subst e
  have : a = b := Rat.le_antisymm (Rat.le_of_lt h1) (Rat.le_of_lt h2)
  subst this
  exact Rat.lt_irrefl h1

theorem rat_lt_asymm {a b : Rat} (h1 : a < b) (h2 : b < a) : False := by
  have : a = b := Rat.le_antisymm (Rat.le_of_lt h1) (Rat.le_of_lt h2)
  subst this
  exact Rat.lt_irrefl h1

theorem rat_lt_or_gt {a b : Rat} (h : a ≠ b) : a < b ∨ b < a := by
  rcases @Rat.le_total a b with h1 | h1
  · exact Or.inl (Rat.lt_of_le_of_ne h1 h)
  · exact Or.inr (Rat.lt_of_le_of_ne h1 (fun e => h e.symm))

theorem lexLe_refl : ∀ (a : List Rat), lexLe a a = true
  | [] => rfl
  | x :: xs => by simp [lexLe, lexLe_refl xs]

theorem lexLe_total : ∀ (a b : List Rat), lexLe a b = true ∨ lexLe b a = true
  | [], _ => Or.inl rfl
  | _ :: _, [] => Or.inr rfl
  | x :: xs, y :: ys => by
    by_cases h : x = y
    · subst h
      simp only [lexLe, if_true]
      exact lexLe_total xs ys
    · have h' : ¬ y = x := fun e => h e.symm
      simp only [lexLe, h, h', if_false, decide_eq_true_eq]
      exact rat_lt_or_gt h

theorem lexLe_trans : ∀ (a b c : List Rat), lexLe a b = true → lexLe b c = true → lexLe a c = true
  | [], _, _, _, _ => rfl
  | _ :: _, [], _, h, _ => by simp [lexLe] at h
  | _ :: _, _ :: _, [], _, h => by simp [lexLe] at h
  | x :: xs, y :: ys, z :: zs, h1, h2 => by
    by_cases hxy : x = y
    · subst hxy
      simp only [lexLe, if_true] at h1
      by_cases hxz : x = z
      · subst hxz
        simp only [lexLe, if_true] at h2 ⊢
        exact lexLe_trans xs ys zs h1 h2
      · simp only [lexLe, hxz, if_false] at h2 ⊢
        exact h2
    · simp only [lexLe, hxy, if_false, decide_eq_true_eq] at h1
      by_cases hyz : y = z
      · subst hyz
        simp only [lexLe, hxy, if_false, decide_eq_true_eq]
        exact h1
      · simp only [lexLe, hyz, if_false, decide_eq_true_eq] at h2
        have hlt := rat_lt_trans h1 h2
        have hne : ¬ x = z := Rat.ne_of_lt hlt
        simp only [lexLe, hne, if_false, decide_eq_true_eq]
        exact hlt

theorem lexLe_antisymm : ∀ (a b : List Rat), lexLe a b = true → lexLe b a = true → a = b
  | [], [], _, _ => rfl
  | [], _ :: _, _, h => by simp [lexLe] at h
  | _ :: _, [], h, _ => by simp [lexLe] at h
  | x :: xs, y :: ys, h1, h2 => by
    by_cases hxy : x = y
    · subst hxy
      simp only [lexLe, if_true] at h1 h2
      rw [lexLe_antisymm xs ys h1 h2]
    · have hyx : ¬ y = x := fun e => hxy e.symm
      simp only [lexLe, hxy, hyx, if_false, decide_eq_true_eq] at h1 h2
      exact (rat_lt_asymm h1 h2).elim

theorem rowLe_refl (o : Order) (a : Row) : rowLe o a a = true := lexLe_refl _
theorem rowLe_total (o : Order) (a b : Row) : rowLe o a b = true ∨ rowLe o b a = true := lexLe_total _ _
theorem rowLe_trans (o : Order) (a b c : Row) : rowLe o a b = true → rowLe o b c = true → rowLe o a c = true :=
  lexLe_trans _ _ _
theorem rowLe_antisymm (o : Order) (a b : Row) : rowLe o a b = true → rowLe o b a = true → ordKey o a = ordKey o b :=
  lexLe_antisymm _ _

/-! ### insertion sort -/

theorem insertBy_perm {α : Type} (le : α → α → Bool) (x : α) : ∀ (l : List α), (insertBy le x l).Perm (x :: l)
  | [] => Perm.refl _
  | y :: ys => by
    simp only [insertBy]
    split
    · exact Perm.refl _
    · exact ((insertBy_perm le x ys).cons y).trans (Perm.swap x y ys)

theorem isort_perm {α : Type} (le : α → α → Bool) : ∀ (l : List α), (isort le l).Perm l
  | [] => Perm.refl _
  | x :: xs => (insertBy_perm le x (isort le xs)).trans ((isort_perm le xs).cons x)

theorem insertBy_sorted {α : Type} (le : α → α → Bool)
    (total : ∀ a b, le a b = true ∨ le b a = true) (trans : ∀ a b c, le a b = true → le b c = true → le a c = true)
    (x : α) : ∀ (l : List α), l.Pairwise (fun a b => le a b = true) → (insertBy le x l).Pairwise (fun a b => le a b = true)
  | [], _ => by simp [insertBy]
  | y :: ys, h => by
    simp only [insertBy]
    rw [List.pairwise_cons] at h
    split
    · rename_i hxy
      rw [List.pairwise_cons]
      refine ⟨?_, List.pairwise_cons.2 h⟩
      intro z hz
      rcases List.mem_cons.1 hz with rfl | hz
      · exact hxy
      · exact trans x y z hxy (h.1 z hz)
    · rename_i hxy
      rw [List.pairwise_cons]
      refine ⟨?_, insertBy_sorted le total trans x ys h.2⟩
      intro z hz
      have hz' := (insertBy_perm le x ys).mem_iff.1 hz
      rcases List.mem_cons.1 hz' with rfl | hz'
      · rcases total z y with h' | h'
        · exact absurd h' hxy
        · exact h'
      · exact h.1 z hz'

theorem isort_sorted {α : Type} (le : α → α → Bool)
    (total : ∀ a b, le a b = true ∨ le b a = true) (trans : ∀ a b c, le a b = true → le b c = true → le a c = true) :
    ∀ (l : List α), (isort le l).Pairwise (fun a b => le a b = true)
  | [] => List.Pairwise.nil
  | x :: xs => insertBy_sorted le total trans x _ (isort_sorted le total trans xs)

/-! ### the sorted partition -/

theorem mem_partOf (part : List String) (rows : List Row) (r s : Row) :
    s ∈ partOf part rows r ↔ s ∈ rows ∧ s.key part = r.key part := by
  simp [partOf, samePart]

theorem sortedPart_perm (part : List String) (o : Order) (rows : List Row) (r : Row) :
    (sortedPart part o rows r).Perm (partOf part rows r) := isort_perm _ _

theorem mem_sortedPart (part : List String) (o : Order) (rows : List Row) (r s : Row) :
    s ∈ sortedPart part o rows r ↔ s ∈ rows ∧ s.key part = r.key part := by
  rw [(sortedPart_perm part o rows r).mem_iff, mem_partOf]

theorem sortedPart_sorted (part : List String) (o : Order) (rows : List Row) (r : Row) :
    (sortedPart part o rows r).Pairwise (fun a b => rowLe o a b = true) :=
  isort_sorted _ (rowLe_total o) (rowLe_trans o) _

theorem eq_of_nodup_map {α β : Type} (f : α → β) : ∀ (l : List α), (l.map f).Nodup →
    ∀ a b, a ∈ l → b ∈ l → f a = f b → a = b
  | [], _, _, _, h, _, _ => by cases h
  | x :: xs, hn, a, b, ha, hb, hf => by
    simp only [List.map_cons, List.nodup_cons] at hn
    rcases List.mem_cons.1 ha with rfl | ha' <;> rcases List.mem_cons.1 hb with rfl | hb'
    · rfl
    · exact absurd (hf ▸ List.mem_map.2 ⟨b, hb', rfl⟩) hn.1
    · exact absurd (hf ▸ List.mem_map.2 ⟨a, ha', rfl⟩ : f _ ∈ xs.map f) hn.1
    · exact eq_of_nodup_map f xs hn.2 a b ha' hb' hf

/-- **the sorted partition is unique under a total order without ties**: it depends only on the SET of rows. -/
theorem sortedPart_congr (part : List String) (o : Order) (rows rows' : List Row) (hp : rows.Perm rows')
    (hn : (rows.map (fun r => (r.key part, ordKey o r))).Nodup) (r : Row) :
    sortedPart part o rows r = sortedPart part o rows' r := by
  apply List.Perm.eq_of_pairwise (le := fun a b => rowLe o a b = true)
  · intro a b ha hb h1 h2
    have ha' := (mem_sortedPart part o rows r a).1 ha
    have hb' := (mem_sortedPart part o rows' r b).1 hb
    have hbr : b ∈ rows := hp.mem_iff.2 hb'.1
    refine eq_of_nodup_map _ rows hn a b ha'.1 hbr ?_
    simp only [Prod.mk.injEq]
    exact ⟨by rw [ha'.2, hb'.2], rowLe_antisymm o a b h1 h2⟩
  · exact sortedPart_sorted part o rows r
  · exact sortedPart_sorted part o rows' r
  · exact (sortedPart_perm part o rows r).trans (((hp.filter _)).trans (sortedPart_perm part o rows' r).symm)

/-! ### row-wise plumbing -/

theorem mapM_congr_mem {α β : Type} (f g : α → R β) : ∀ (l : List α), (∀ a ∈ l, f a = g a) → l.mapM f = l.mapM g
  | [], _ => rfl
  | x :: xs, h => by
    simp only [List.mapM_cons]
    rw [h x List.mem_cons_self, mapM_congr_mem f g xs (fun a ha => h a (List.mem_cons_of_mem _ ha))]

theorem map_ok_some {α : Type} (a : R α) (f : α → Row) (o : Option Row) (h : a.map (fun x => some (f x)) = .ok o) :
    ∃ x, a = .ok x ∧ o = some (f x) := by
  cases a with
  | error e => simp [Except.map] at h
  | ok x => simp [Except.map] at h; exact ⟨x, rfl, h.symm⟩

/-- a row function that never drops a row and keeps the identifier key keeps the key LIST. -/
theorem mapRows_keys_eq (f : Row → R (Option Row)) (ids : List String) :
    ∀ (rows out : List Row), mapRows f rows = .ok out →
      (∀ r o, r ∈ rows → f r = .ok o → ∃ r', o = some r' ∧ r'.key ids = r.key ids) →
      out.map (·.key ids) = rows.map (·.key ids) := by
  intro rows
  induction rows with
  | nil =>
    intro out h _
    obtain ⟨xs, hx, rfl⟩ := (mapRows_ok_iff f [] out).1 h
    simp [List.mapM_nil, pure, Except.pure] at hx
    subst hx
    rfl
  | cons a l ih =>
    intro out h hk
    obtain ⟨xs, hx, rfl⟩ := (mapRows_ok_iff f (a :: l) out).1 h
    obtain ⟨b, bs, hb, hbs, rfl⟩ := (mapM_ok_cons f a l xs).1 hx
    have hl : mapRows f l = .ok (bs.filterMap id) := (mapRows_ok_iff f l _).2 ⟨bs, hbs, rfl⟩
    have ih' := ih (bs.filterMap id) hl (fun r o hr hf => hk r o (List.mem_cons_of_mem _ hr) hf)
    obtain ⟨r', rfl, hr'⟩ := hk a b List.mem_cons_self hb
    simp only [List.filterMap_cons, id, List.map_cons, hr', ih']

theorem eachRow_shape (spec : Spec) (d : DS) (r : Row) (o : Option Row) (h : eachRow spec d r = .ok o) :
    ∃ ms, o = some (r.proj d.ids ++ ms) := by
  unfold eachRow at h
  obtain ⟨ms, _, rfl⟩ := map_ok_some _ (fun ms => r.proj d.ids ++ ms) o h
  exact ⟨ms, rfl⟩

theorem calcARow_shape (spec : Spec) (d : DS) (out : String) (arg : SExpr) (r : Row) (o : Option Row)
    (h : calcARow spec d out arg r = .ok o) :
    ∃ v, o = some (r.proj (d.ids ++ d.meas.filter (fun m => m != out)) ++ [(out, v)]) := by
  unfold calcARow at h
  obtain ⟨v, _, rfl⟩ := map_ok_some _ (fun v => r.proj (d.ids ++ d.meas.filter (fun m => m != out)) ++ [(out, v)]) o h
  exact ⟨v, rfl⟩

theorem eachRow_key (spec : Spec) (d : DS) (r : Row) (o : Option Row) (h : eachRow spec d r = .ok o) :
    ∃ r', o = some r' ∧ r'.key d.ids = r.key d.ids := by
  obtain ⟨ms, rfl⟩ := eachRow_shape spec d r o h
  exact ⟨_, rfl, key_proj_append r d.ids d.ids ms (fun i hi => hi)⟩

theorem calcARow_key (spec : Spec) (d : DS) (out : String) (arg : SExpr) (r : Row) (o : Option Row)
    (h : calcARow spec d out arg r = .ok o) : ∃ r', o = some r' ∧ r'.key d.ids = r.key d.ids := by
  obtain ⟨v, rfl⟩ := calcARow_shape spec d out arg r o h
  exact ⟨_, rfl, key_proj_append r _ d.ids _ (fun i hi => List.mem_append_left _ hi)⟩

/-- the value of an analytic function depends on the dataset's rows only through the sorted partition. -/
theorem winVal_congr (spec : Spec) (rows rows' : List Row) (hp : rows.Perm rows')
    (hn : (rows.map (fun r => (r.key spec.part, ordKey spec.order r))).Nodup) (g : Row → R Value) (r : Row) :
    winVal spec rows g r = winVal spec rows' g r := by
  unfold winVal
  rw [sortedPart_congr spec.part spec.order rows rows' hp hn r]

end VtlModel.Sem.An

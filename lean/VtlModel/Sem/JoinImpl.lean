import VtlModel.Sem.Join
/-! What the engine's `visit_JoinOp` computes for a THREE-operand full join (`impl`, next to the
specification `joinFold .full`): `x FULL JOIN y ON x.k = y.k FULL JOIN z ON x.k = z.k` — the third
operand is compared with the FIRST operand's key columns only — with the keys selected as
`COALESCE(x.k, y.k, z.k)`.  Operands are assumed to have the identifiers `keys` and distinct measure
names (no qualification needed).  Used for the counter-example `C04.full3_impl_counter`. -/
namespace VtlModel.Sem

def optGet (o : Option Row) (n : String) : Value :=
  match o with
  | some r => r.get n
  | none => .null

def coalesce (vs : List Value) : Value := (vs.find? (· != .null)).getD .null

/-- the rows of `x FULL JOIN y`, each remembering its x-part and its y-part. -/
def implXY (keys : List String) (x y : DS) : List (Option Row × Option Row) :=
  x.rows.flatMap (fun a => (y.rows.filter (matchK [] keys a)).map (fun b => (some a, some b)))
  ++ (x.rows.filter (fun a => !(y.rows.any (matchK [] keys a)))).map (fun a => (some a, none))
  ++ (y.rows.filter (fun b => !(x.rows.any (fun a => matchK [] keys a b)))).map (fun b => (none, some b))

/-- `ON x.k = z.k`: a row whose x-part is missing has a NULL `x.k` and matches nothing. -/
def implMatch3 (keys : List String) (p : Option Row × Option Row) (c : Row) : Bool :=
  match p.1 with
  | some a => matchK [] keys a c
  | none => false

def implRender (keys : List String) (x y z : DS) (a b c : Option Row) : Row :=
  keys.map (fun k => (k, coalesce [optGet a k, optGet b k, optGet c k]))
  ++ x.meas.map (fun n => (n, optGet a n)) ++ y.meas.map (fun n => (n, optGet b n)) ++ z.meas.map (fun n => (n, optGet c n))

def implFull3 (keys : List String) (x y z : DS) : DS :=
  let xy := implXY keys x y
  { ids := keys, meas := x.meas ++ y.meas ++ z.meas,
    rows := xy.flatMap (fun p => (z.rows.filter (implMatch3 keys p)).map (fun c => implRender keys x y z p.1 p.2 (some c)))
            ++ (xy.filter (fun p => !(z.rows.any (implMatch3 keys p)))).map (fun p => implRender keys x y z p.1 p.2 none)
            ++ (z.rows.filter (fun c => !(xy.any (fun p => implMatch3 keys p c)))).map (fun c => implRender keys x y z none none (some c)) }

end VtlModel.Sem

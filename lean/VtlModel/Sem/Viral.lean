import VtlModel.Sem.Eval
import VtlModel.Sem.Aggr
/-! Viral attribute propagation (VTL 2.2 `define viral propagation`, DESIGN.md §4 C28).

The rule kinds are the ones the engine's registry holds (`ViralPropagation.ViralPropagationRule`):
an **enumerated** rule is the ordered list of `when v [and w] then r` clauses plus the `else` default (absent =
null); an **aggregate** rule is one of `min max sum avg`.  The three ways a rule is executed are the three SQL
fragments of `ViralPropagation/sql.py`:

* `pair rule a b`      — `vp_pair_sql`: two values combined (dataset ∘ dataset operators, joins);
* `group rule xs`      — `vp_group_sql`: the values of a group combined (aggregations, analytic partitions,
                         hierarchies): `list_reduce(list(col), (acc, x) -> CASE …)` for an enumerated rule — a LEFT
                         FOLD over the list in the order DuckDB happens to build it — and the native aggregate
                         `MIN/MAX/SUM/AVG(col)` for an aggregate rule;
* `wide rule col x`    — `vp_dataset_wide_sql`: row-preserving dataset-level operators (unary, dataset ∘ scalar):
                         an enumerated rule maps the datapoint's own value (only its one-value clauses can match),
                         an aggregate rule gives every datapoint the aggregate of the WHOLE column.

A dataset with viral attributes is a core `DS` whose viral attributes are carried as named columns listed in
`DS.meas` (so that clauses, plain assignment and set operators of the core evaluator `evalD` carry them along
untouched); which of the columns are viral, and with which rule, is the `VSpec` (name ↦ rule) — the registry.
`VDS` wraps a `DS` with the list of its viral attribute names (what semantic analysis looks at).

Import-free beyond the Sem core, total, computable. -/
namespace VtlModel.Sem

inductive AggFn where
  | min | max | sum | avg
  deriving DecidableEq, Repr, Inhabited

/-- one `when … then …` clause as the registry stores it: `values` (one or two clause values, `none` = the
`null` constant) and `result`. -/
structure VClause where
  values : List (Option String)
  result : Option String
  deriving DecidableEq, Repr, Inhabited

inductive Rule where
  | enum (clauses : List VClause) (default : Option String)
  | agg (f : AggFn)
  deriving DecidableEq, Repr, Inhabited

/-- `_sql_literal` -/
def lit : Option String → Value
  | none => .null
  | some s => .str s

/-- `_value_in_pair` used as a CASE condition (SQL NULL counts as false): `'v' IN (a, b)` for a clause value,
`(a IS NULL OR b IS NULL)` for the `null` clause value. -/
def inPair (v : Option String) (a b : Value) : Bool :=
  match v with
  | none => a.isNull || b.isNull
  | some s => a == .str s || b == .str s

def VClause.arity (c : VClause) : Nat := c.values.length

def VClause.matches (c : VClause) (a b : Value) : Bool :=
  match c.values with
  | [v] => inPair v a b
  | [v, w] => inPair v a b && inPair w a b
  | _ => false

/-- the order in which `_enumerated_case` tests the clauses: two-value clauses first, then one-value clauses
(each group in declaration order). -/
def caseOrder (cl : List VClause) : List VClause :=
  cl.filter (fun c => c.arity == 2) ++ cl.filter (fun c => c.arity == 1)

/-- `_enumerated_case`: the CASE expression over two values. -/
def enumCase (cl : List VClause) (d : Option String) (a b : Value) : Value :=
  match (caseOrder cl).find? (fun c => c.matches a b) with
  | some c => lit c.result
  | none => lit d

def VClause.matches1 (c : VClause) (x : Value) : Bool :=
  match c.values with
  | [none] => x.isNull
  | [some s] => x == .str s
  | _ => false

/-- `_enumerated_single_case`: the CASE expression over ONE value (only one-value clauses can match). -/
def enumSingle (cl : List VClause) (d : Option String) (x : Value) : Value :=
  match (cl.filter (fun c => c.arity == 1)).find? (fun c => c.matches1 x) with
  | some c => lit c.result
  | none => lit d

/-- the values an enumerated rule is defined on (clause values are string literals). -/
def textual : Value → Bool
  | .null | .str _ => true
  | _ => false

/-- `LEAST` / `GREATEST` of DuckDB: a NULL argument is ignored. -/
def least (isMax : Bool) (a b : Value) : R Value :=
  match a, b with
  | .null, _ => .ok b
  | _, .null => .ok a
  | _, _ =>
      (cmp? a b) >>= fun o =>
      match o with
      | some o => pure (if (o == Ordering.gt) == isMax then a else b)
      | none => pure .null

def AggFn.op : AggFn → AggOp
  | .min => .min | .max => .max | .sum => .sum | .avg => .avg

/-- **`vp_pair_sql`** — combine the viral values of two matched datapoints. -/
def pair : Rule → Value → Value → R Value
  | .enum cl d, a, b => if textual a && textual b then .ok (enumCase cl d a b) else .error .unsupported
  | .agg .min, a, b => least false a b
  | .agg .max, a, b => least true a b
  | .agg .sum, a, b => binop .add a b                          -- `(a + b)`: null if either is null
  | .agg .avg, a, b =>                                         -- `((a + b) / 2.0)`
      (binop .add a b) >>= fun s =>
      match s with
      | .null => pure .null
      | _ => vdiv s (.num 2)

/-- `list_reduce(xs, (acc, x) -> CASE …)`: left fold seeded with the first element; an empty / NULL list
gives NULL. -/
def foldEnum (cl : List VClause) (d : Option String) : List Value → Value
  | [] => .null
  | x :: xs => xs.foldl (enumCase cl d) x

/-- **`vp_group_sql`** — combine the viral values of the datapoints of a group, in list order. -/
def group : Rule → List Value → R Value
  | .enum cl d, xs => if xs.all textual then .ok (foldEnum cl d xs) else .error .unsupported
  | .agg f, xs => aggVals f.op xs

/-- **`vp_dataset_wide_sql`** — the value of datapoint `x` after a row-preserving operator over a dataset
whose viral column is `col`. -/
def wide : Rule → List Value → Value → R Value
  | .enum cl d, _, x => if textual x then .ok (enumSingle cl d x) else .error .unsupported
  | .agg f, col, _ => aggVals f.op col

/-- `vp_reduce_refs`: fold `pair` across an ordered, non-empty list of operand values (joins). -/
def reduceRefs (rule : Rule) : List Value → R Value
  | [] => .error .type
  | x :: xs => xs.foldlM (pair rule) x

/-! ### datasets with viral attributes -/

/-- the registry: viral attribute name ↦ rule. -/
abbrev VSpec := List (String × Rule)

def VSpec.names (s : VSpec) : List String := s.map (·.1)

def isViral (s : VSpec) (n : String) : Bool := s.names.contains n

/-- the viral attributes dataset `d` carries (with their rules). -/
def viralOf (s : VSpec) (d : DS) : VSpec := s.filter (fun p => d.meas.contains p.1)

/-- the measures proper. -/
def plainMeas (s : VSpec) (d : DS) : List String := d.meas.filter (fun m => !isViral s m)

def column (d : DS) (v : String) : List Value := d.rows.map (·.get v)

structure VDS where
  ds : DS
  viral : List String
  deriving Repr, Inhabited

/-! ### row-preserving dataset-level operators (unary, dataset ∘ scalar): `_apply_measures` -/

def wideVals (vs : VSpec) (d : DS) (r : Row) : R (List (String × Value)) :=
  vs.mapM (fun p => (wide p.2 (column d p.1) (r.get p.1)).map (fun v => (p.1, v)))

def vMapmRow (s : VSpec) (d : DS) (body : SExpr) (out : Option String) (r : Row) : R (Option Row) :=
  (measVals { d with meas := plainMeas s d } body out r) >>= fun ms =>
  (wideVals (viralOf s d) d r) >>= fun vs =>
  pure (some (r.proj d.ids ++ (ms ++ vs)))

def vMapm (s : VSpec) (body : SExpr) (out : Option String) (d : DS) : R DS :=
  (mapRows (vMapmRow s d body out) d.rows) >>= fun rows =>
  pure { ids := d.ids, meas := (plainMeas s d).map (outName (plainMeas s d) out) ++ (viralOf s d).names, rows := rows }

/-! ### dataset ∘ dataset operators: `_build_ds_ds_binary` -/

/-- the viral attributes of the result: those of either operand. -/
def eitherViral (s : VSpec) (x y : DS) : VSpec := s.filter (fun p => x.meas.contains p.1 || y.meas.contains p.1)

/-- viral value of a matched pair for one attribute (`l` = row of the LEFT operand `x`): the rule where both operands
carry the attribute, the one value otherwise. -/
def pairVal (x y : DS) (l r : Row) (p : String × Rule) : R Value :=
  if x.meas.contains p.1 && y.meas.contains p.1 then pair p.2 (l.get p.1) (r.get p.1)
  else if x.meas.contains p.1 then .ok (l.get p.1)
  else .ok (r.get p.1)

def pairVals (s : VSpec) (x y : DS) (l r : Row) : R (List (String × Value)) :=
  (eitherViral s x y).mapM (fun p => (pairVal x y l r p).map (fun v => (p.1, v)))

def vZipRow (s : VSpec) (x y : DS) (bigIsLeft : Bool) (ms : List String) (body : SExpr) (out : Option String)
    (rb : Row) : R (Option Row) :=
  match partner (if bigIsLeft then y else x) rb with
  | none => .ok none
  | some rs =>
      (zipVals ms body out (if bigIsLeft then rb else rs) (if bigIsLeft then rs else rb)) >>= fun vals =>
      (pairVals s x y (if bigIsLeft then rb else rs) (if bigIsLeft then rs else rb)) >>= fun vs =>
      pure (some (rb.proj (if bigIsLeft then x else y).ids ++ (vals ++ vs)))

def vZip (s : VSpec) (body : SExpr) (out : Option String) (x y : DS) : R DS :=
  if subset y.ids x.ids then
    (mapRows (vZipRow s x y true ((plainMeas s x).filter (plainMeas s y).contains) body out) x.rows) >>= fun rows =>
    pure { ids := x.ids,
           meas := ((plainMeas s x).filter (plainMeas s y).contains).map
                     (outName ((plainMeas s x).filter (plainMeas s y).contains) out) ++ (eitherViral s x y).names,
           rows := rows }
  else if subset x.ids y.ids then
    (mapRows (vZipRow s x y false ((plainMeas s x).filter (plainMeas s y).contains) body out) y.rows) >>= fun rows =>
    pure { ids := y.ids,
           meas := ((plainMeas s x).filter (plainMeas s y).contains).map
                     (outName ((plainMeas s x).filter (plainMeas s y).contains) out) ++ (eitherViral s x y).names,
           rows := rows }
  else .error .type

/-! ### aggregation: the rule over the datapoints of every group -/

def groupVals (vs : VSpec) (ms : List Row) : R (List (String × Value)) :=
  vs.mapM (fun p => (group p.2 (ms.map (·.get p.1))).map (fun v => (p.1, v)))

/-- `kr` = a datapoint of the aggregated measures (`aggr`); its viral values come from the members of its group. -/
def vAggrRow (vs : VSpec) (gids comps : List String) (rows : List Row) (kr : Row) : R (Option Row) :=
  (groupVals vs (members gids rows (kr.key gids))) >>= fun g =>
  pure (some (kr.proj comps ++ g))

def isGroupAll : Grouping → Bool
  | .all _ => true
  | _ => false

def vAggr (s : VSpec) (spec : AggSpec) (d : DS) : R DS :=
  if isGroupAll spec.grouping then .error .unsupported else
  (aggr spec { d with meas := plainMeas s d }) >>= fun base =>
  (mapRows (vAggrRow (viralOf s d) base.ids base.comps d.rows) base.rows) >>= fun rows =>
  pure { ids := base.ids, meas := base.meas ++ (viralOf s d).names, rows := rows }

/-! ### analytic invocation: the rule over the datapoints of every partition

`op(DS over (partition by ps …))` is row-preserving; the viral value of a datapoint is the rule applied to the viral
values of ALL datapoints of its partition (`vp_group_sql_windowed`, partition-only window).  The measures of an
analytic invocation are the subject of C06; this operator returns the identifiers and the viral attributes only. -/

def vPartRow (vs : VSpec) (ids ps : List String) (rows : List Row) (r : Row) : R (Option Row) :=
  (groupVals vs (members ps rows (r.key ps))) >>= fun g =>
  pure (some (r.proj ids ++ g))

def vPartition (s : VSpec) (ps : List String) (d : DS) : R DS :=
  if !(subset ps d.ids) then .error .type else
  (mapRows (vPartRow (viralOf s d) d.ids ps d.rows) d.rows) >>= fun rows =>
  pure { ids := d.ids, meas := (viralOf s d).names, rows := rows }

/-! ### semantic analysis: every viral attribute of a result needs a rule (error 1-3-3-6) -/

/-- how a statement's result structure derives its viral attributes. -/
inductive VShape where
  | src (viral : List String)                 -- an input dataset
  | same (a : VShape)                         -- assignment, filter, calc (non-viral), keep, sub, unary, scalar, aggregation
  | first (a b : VShape)                      -- set operators: the structure of the first operand
  | both (a b : VShape)                       -- dataset ∘ dataset: the viral attributes of either operand
  | drop (a : VShape) (ns : List String)      -- `drop` naming viral attributes
  | calcv (a : VShape) (n : String)           -- `calc viral attribute n := …`
  | ren (a : VShape) (old new : String)       -- `rename`
  deriving Repr, Inhabited

def dedupS : List String → List String
  | [] => []
  | a :: l => a :: (dedupS l).filter (fun b => b != a)

def VShape.viral : VShape → List String
  | .src v => v
  | .same a => a.viral
  | .first a _ => a.viral
  | .both a b => dedupS (a.viral ++ b.viral)
  | .drop a ns => a.viral.filter (fun v => !ns.contains v)
  | .calcv a n => dedupS (a.viral ++ [n])
  | .ren a old new => a.viral.map (fun v => if v == old then new else v)

inductive SemErr where
  | noRule (names : List String)      -- 1-3-3-6, for (one of) these attributes
  deriving Repr, DecidableEq

/-- the check `visit_Start` performs on every statement result. -/
def analyse (ruled : List String) (viral : List String) : Except SemErr Unit :=
  match viral.filter (fun v => !ruled.contains v) with
  | [] => .ok ()
  | missing => .error (.noRule missing)

/-- a script = statements in order; the first statement whose result has an un-ruled viral attribute fails. -/
def analyseAll (ruled : List String) : List VShape → Nat → Except (Nat × SemErr) Unit
  | [], _ => .ok ()
  | sh :: rest, i =>
      match analyse ruled sh.viral with
      | .ok _ => analyseAll ruled rest (i + 1)
      | .error e => .error (i, e)

end VtlModel.Sem

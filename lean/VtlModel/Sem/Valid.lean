import VtlModel.Sem.Eval
/-! Validation operators `check` and `check_datapoint` (C07, parts 1 and 2).

`check (op errorcode ec errorlevel el imbalance imb invalid|all)`:
`op` is a dataset with one Boolean measure, `imb` (optional) a dataset with the same identifiers and
one numeric measure.  The result has the identifiers of `op` and the measures `bool_var`,
`imbalance`, `errorcode`, `errorlevel`.  `errorcode`/`errorlevel` carry the literals exactly on the
datapoints whose Boolean is FALSE (null on TRUE **and on NULL**).  `invalid` keeps the datapoints
whose Boolean is FALSE (`bool_var` stays in the structure, as the engine has it).
A datapoint of `op` without a datapoint in `imb` keeps its place with a null imbalance (`imbInner =
false`, the specification: every evaluated datapoint is reported); the engine's SQL uses an inner
join, modelled by `imbInner = true` (see `C07.check_inner_join_drops_counter`).

`check_datapoint (op, ruleset invalid|all|all_measures)`: every rule `when a then c errorcode ec
errorlevel el` is evaluated on every datapoint: the rule's Boolean is `c` where `a` is TRUE, TRUE
where `a` is FALSE, NULL where `a` is NULL.  One output datapoint per (datapoint, rule), identified
by the identifiers of `op` plus `ruleid`; `invalid` keeps those whose Boolean is FALSE. -/
namespace VtlModel.Sem

/-! ### check -/

structure CheckSpec where
  ec : Value
  el : Value
  invalid : Bool
  /-- `true`: the engine's inner join with the imbalance operand; `false`: the specification. -/
  imbInner : Bool := false
  deriving Repr, Inhabited

def checkMeas : List String := ["bool_var", "imbalance", "errorcode", "errorlevel"]

def isFalse (b : Value) : Bool := b == .bool false

/-- `errorcode` / `errorlevel` of a datapoint whose Boolean is `b`. -/
def errCols (ec el b : Value) : Row :=
  [("errorcode", if isFalse b then ec else .null), ("errorlevel", if isFalse b then el else .null)]

/-- the single measure of a dataset. -/
def mono (d : DS) : R String :=
  match d.meas with
  | [m] => .ok m
  | _ => .error .type

/-- the imbalance of the datapoint `r`: `none` = no datapoint (only with an imbalance operand). -/
def imbOf (imb : Option (DS × String)) (r : Row) : Option Value :=
  match imb with
  | none => some .null
  | some (y, im) => (partner y r).map (·.get im)

/-- the `all` row of a datapoint (`none`: dropped by the inner join). -/
def checkRowAll (ec el : Value) (inner : Bool) (ids : List String) (bm : String) (imb : Option (DS × String)) (r : Row) :
    R (Option Row) :=
  match r.get bm with
  | .int _ => .error .type
  | .num _ => .error .type
  | .str _ => .error .type
  | b =>
    match imbOf imb r with
    | some v => .ok (some (r.proj ids ++ ([("bool_var", b), ("imbalance", v)] ++ errCols ec el b)))
    | none => if inner then .ok none
              else .ok (some (r.proj ids ++ ([("bool_var", b), ("imbalance", .null)] ++ errCols ec el b)))

/-- `invalid` is a filter on the Boolean of the INPUT datapoint (SQL: `WHERE t.bool IS FALSE`). -/
def checkRow (spec : CheckSpec) (ids : List String) (bm : String) (imb : Option (DS × String)) (r : Row) :
    R (Option Row) :=
  if spec.invalid && !isFalse (r.get bm) then
    (checkRowAll spec.ec spec.el spec.imbInner ids bm imb r).map (fun _ => none)
  else checkRowAll spec.ec spec.el spec.imbInner ids bm imb r

/-- the imbalance operand: same identifiers as `op`, one measure. -/
def imbArg (x : DS) : Option DS → R (Option (DS × String))
  | none => .ok none
  | some y => if y.ids != x.ids then .error .type else (mono y).map (fun m => some (y, m))

def check (spec : CheckSpec) (x : DS) (imb : Option DS) : R DS := do
  let bm ← mono x
  if checkMeas.any x.ids.contains then .error .type else
  let im ← imbArg x imb
  let rows ← mapRows (checkRow spec x.ids bm im) x.rows
  pure { ids := x.ids, meas := checkMeas, rows }

/-! ### check_datapoint -/

structure DPRule where
  name : String
  /-- antecedent (`when …`), over the components of the datapoint (`SExpr.col`). -/
  ante : Option SExpr
  cons : SExpr
  ec : Value
  el : Value
  deriving Repr, Inhabited

inductive DPOut where
  | invalid | all | allMeasures
  deriving DecidableEq, Repr, Inhabited

/-- a Boolean or null (anything else is an ill-typed rule). -/
def asBool3 : Value → R Value
  | .bool b => .ok (.bool b)
  | .null => .ok .null
  | _ => .error .type

/-- the Boolean outcome of a rule on a datapoint (both parts are evaluated: an error in either fails). -/
def dpBool (rule : DPRule) (r : Row) : R Value := do
  let c ← asBool3 (← evalS r .null .null rule.cons)
  match rule.ante with
  | none => pure c
  | some a =>
    match ← asBool3 (← evalS r .null .null a) with
    | .bool true => pure c
    | .bool false => pure (.bool true)
    | _ => pure .null

def dpMeas (out : DPOut) (meas : List String) : List String :=
  match out with
  | .invalid => meas ++ ["errorcode", "errorlevel"]
  | .all => ["bool_var", "errorcode", "errorlevel"]
  | .allMeasures => meas ++ ["bool_var", "errorcode", "errorlevel"]

def dpRowOf (out : DPOut) (x : DS) (rule : DPRule) (r : Row) (b : Value) : Row :=
  r.proj x.ids ++ ([("ruleid", Value.str rule.name)] ++
    (match out with
     | .invalid => r.proj x.meas ++ [("errorcode", rule.ec), ("errorlevel", rule.el)]
     | .all => [("bool_var", b)] ++ errCols rule.ec rule.el b
     | .allMeasures => r.proj x.meas ++ ([("bool_var", b)] ++ errCols rule.ec rule.el b)))

def dpRow (out : DPOut) (x : DS) (rule : DPRule) (r : Row) : R (Option Row) := do
  let b ← dpBool rule r
  if out == .invalid && !isFalse b then pure none else pure (some (dpRowOf out x rule r b))

/-- all rules over all datapoints (rule-major, as the engine's `UNION ALL`). -/
def dpRows (out : DPOut) (x : DS) : List DPRule → R (List Row)
  | [] => .ok []
  | rule :: rest => do
      let a ← mapRows (dpRow out x rule) x.rows
      let b ← dpRows out x rest
      pure (a ++ b)

def checkDatapoint (rules : List DPRule) (out : DPOut) (x : DS) : R DS := do
  if x.ids.contains "ruleid" then .error .type else
  if !((rules.map (·.name)).Nodup) then .error .type else
  let rows ← dpRows out x rules
  pure { ids := x.ids ++ ["ruleid"], meas := dpMeas out x.meas, rows }

end VtlModel.Sem

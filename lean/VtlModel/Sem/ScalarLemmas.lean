import VtlModel.Sem.Value
/-! Helper lemmas about the scalar operators (null behaviour per operator family). -/
namespace VtlModel.Sem

theorem arith_null_left (f g) (v : Value) : arith f g .null v = .ok .null := by cases v <;> rfl
theorem arith_null_right (f g) (v : Value) :
    arith f g v .null = .ok .null ∨ arith f g v .null = .error .type := by cases v <;> simp [arith]
theorem cmpOp_null_left (f) (v : Value) : cmpOp f .null v = .ok .null := by cases v <;> rfl
theorem cmpOp_null_right (f) (v : Value) : cmpOp f v .null = .ok .null := by cases v <;> rfl
theorem vmod_null_left (v : Value) : vmod .null v = .ok .null := by cases v <;> rfl
theorem vmod_null_right (v : Value) : vmod v .null = .ok .null := by cases v <;> rfl
theorem xor3_null_left (v : Value) : xor3 .null v = .ok .null ∨ xor3 .null v = .error .type := by
  cases v <;> simp [xor3]
theorem xor3_null_right (v : Value) : xor3 v .null = .ok .null ∨ xor3 v .null = .error .type := by
  cases v <;> simp [xor3]
theorem concat_null_left (v : Value) : concat .null v = .ok .null := by cases v <;> rfl
theorem concat_null_right (v : Value) : concat v .null = .ok .null := by cases v <;> rfl
theorem vpower_null_left (v : Value) : vpower .null v = .ok .null := by cases v <;> rfl
theorem vpower_null_right (v : Value) : vpower v .null = .ok .null := by cases v <;> rfl

/-- a strict operator with a null left operand returns null (or rejects an ill-typed right operand). -/
theorem binop_null_left (op : BinOp) (v : Value) (hs : op.strict = true) :
    binop op .null v = .ok .null ∨ binop op .null v = .error .type := by
  cases op <;> simp [BinOp.strict] at hs <;> simp only [binop]
  all_goals first
    | exact Or.inl (arith_null_left _ _ v)
    | exact Or.inl (cmpOp_null_left _ v)
    | exact Or.inl (vmod_null_left v)
    | exact xor3_null_left v
    | exact Or.inl (concat_null_left v)
    | exact Or.inl (vpower_null_left v)

theorem binop_null_right (op : BinOp) (v : Value) (hs : op.strict = true) :
    binop op v .null = .ok .null ∨ binop op v .null = .error .type := by
  cases op <;> simp [BinOp.strict] at hs <;> simp only [binop]
  all_goals first
    | exact arith_null_right _ _ v
    | exact Or.inl (cmpOp_null_right _ v)
    | exact Or.inl (vmod_null_right v)
    | exact xor3_null_right v
    | exact Or.inl (concat_null_right v)
    | exact Or.inl (vpower_null_right v)

end VtlModel.Sem

import VtlModel.Sem.Eval
/-! Lemmas about rows as association lists: lookup in a projection, keys of projected rows. -/
namespace VtlModel.Sem

theorem lookup_map_pair (f : String → Value) (ns : List String) (rest : Row) (n : String) (h : n ∈ ns) :
    List.lookup n (ns.map (fun m => (m, f m)) ++ rest) = some (f n) := by
  induction ns with
  | nil => cases h
  | cons a l ih =>
    simp only [List.map_cons, List.cons_append, List.lookup_cons]
    by_cases hna : n = a
    · subst hna; simp
    · have : (n == a) = false := by simpa using hna
      rw [this]
      rcases List.mem_cons.1 h with h1 | h1
      · exact absurd h1 hna
      · exact ih h1

/-- a projected row (followed by anything) answers `get n` like the original, for projected names. -/
theorem get_proj_append (r : Row) (ns : List String) (rest : Row) (n : String) (h : n ∈ ns) :
    Row.get (r.proj ns ++ rest) n = r.get n := by
  unfold Row.get Row.proj
  rw [lookup_map_pair (fun m => Row.get r m) ns rest n h]
  rfl

theorem get_proj (r : Row) (ns : List String) (n : String) (h : n ∈ ns) :
    Row.get (r.proj ns) n = r.get n := by
  have := get_proj_append r ns [] n h
  simpa using this

theorem lookup_map_pair_not_mem (f : String → Value) (ns : List String) (rest : Row) (n : String) (h : n ∉ ns) :
    List.lookup n (ns.map (fun m => (m, f m)) ++ rest) = List.lookup n rest := by
  induction ns with
  | nil => rfl
  | cons a l ih =>
    simp only [List.map_cons, List.cons_append, List.lookup_cons]
    have hna : n ≠ a := fun e => h (e ▸ List.mem_cons_self)
    have : (n == a) = false := by simpa using hna
    rw [this]
    exact ih (fun hm => h (List.mem_cons_of_mem _ hm))

/-- names outside the projection are answered by what follows it. -/
theorem get_proj_append_not_mem (r : Row) (ns : List String) (rest : Row) (n : String) (h : n ∉ ns) :
    Row.get (r.proj ns ++ rest) n = Row.get rest n := by
  unfold Row.get Row.proj
  rw [lookup_map_pair_not_mem (fun m => Row.get r m) ns rest n h]

/-- the key of a projected row is the key of the row, when the identifiers are projected. -/
theorem key_proj_append (r : Row) (ns ids : List String) (rest : Row) (h : ∀ i ∈ ids, i ∈ ns) :
    Row.key (r.proj ns ++ rest) ids = r.key ids := by
  unfold Row.key
  apply List.map_congr_left
  intro i hi
  exact get_proj_append r ns rest i (h i hi)

theorem key_proj (r : Row) (ns ids : List String) (h : ∀ i ∈ ids, i ∈ ns) :
    Row.key (r.proj ns) ids = r.key ids := by
  have := key_proj_append r ns ids [] h
  simpa using this

end VtlModel.Sem

/-! S-expressions for the line protocol (harness ⇄ Lean drivers).  Import-free. -/
namespace VtlModel

inductive Sexp where
  | atom (s : String)
  | str (s : String)
  | list (xs : List Sexp)
  deriving Repr, Inhabited, BEq

namespace Sexp

inductive Tok where
  | lp | rp | atom (s : String) | str (s : String)
  deriving Repr, BEq

private def hexVal (c : Char) : Nat :=
  if '0' ≤ c ∧ c ≤ '9' then c.toNat - '0'.toNat
  else if 'a' ≤ c ∧ c ≤ 'f' then c.toNat - 'a'.toNat + 10
  else if 'A' ≤ c ∧ c ≤ 'F' then c.toNat - 'A'.toNat + 10 else 0

/-- read a JSON-style string body (after the opening quote); returns (string, rest). -/
def lexStr : Nat → List Char → List Char → (String × List Char)
  | 0, acc, cs => (String.ofList acc.reverse, cs)
  | _, acc, [] => (String.ofList acc.reverse, [])
  | _+1, acc, '"' :: cs => (String.ofList acc.reverse, cs)
  | n+1, acc, '\\' :: 'u' :: a :: b :: c :: d :: cs =>
      lexStr n (Char.ofNat (hexVal a * 4096 + hexVal b * 256 + hexVal c * 16 + hexVal d) :: acc) cs
  | n+1, acc, '\\' :: 'n' :: cs => lexStr n ('\n' :: acc) cs
  | n+1, acc, '\\' :: 't' :: cs => lexStr n ('\t' :: acc) cs
  | n+1, acc, '\\' :: 'r' :: cs => lexStr n ('\r' :: acc) cs
  | n+1, acc, '\\' :: c :: cs => lexStr n (c :: acc) cs
  | n+1, acc, c :: cs => lexStr n (c :: acc) cs

def lexAtom : Nat → List Char → List Char → (String × List Char)
  | 0, acc, cs => (String.ofList acc.reverse, cs)
  | _, acc, [] => (String.ofList acc.reverse, [])
  | n+1, acc, c :: cs =>
      if c = '(' ∨ c = ')' ∨ c = ' ' ∨ c = '"' then (String.ofList acc.reverse, c :: cs)
      else lexAtom n (c :: acc) cs

def lex : Nat → List Char → List Tok → List Tok
  | 0, _, acc => acc.reverse
  | _, [], acc => acc.reverse
  | n+1, c :: cs, acc =>
      if c = ' ' ∨ c = '\n' ∨ c = '\r' ∨ c = '\t' then lex n cs acc
      else if c = '(' then lex n cs (.lp :: acc)
      else if c = ')' then lex n cs (.rp :: acc)
      else if c = '"' then
        let (s, rest) := lexStr (cs.length + 1) [] cs
        lex n rest (.str s :: acc)
      else
        let (s, rest) := lexAtom (cs.length + 2) [] (c :: cs)
        lex n rest (.atom s :: acc)

/-- parse with an explicit stack of partially built lists. -/
def parseToks : List Tok → List (List Sexp) → Option Sexp
  | [], [[x]] => some x
  | [], _ => none
  | .lp :: ts, st => parseToks ts ([] :: st)
  | .rp :: ts, cur :: parent :: st => parseToks ts ((Sexp.list cur.reverse :: parent) :: st)
  | .rp :: _, _ => none
  | .atom s :: ts, cur :: st => parseToks ts ((Sexp.atom s :: cur) :: st)
  | .str s :: ts, cur :: st => parseToks ts ((Sexp.str s :: cur) :: st)
  | _ :: _, [] => none

def parse (s : String) : Option Sexp :=
  let cs := s.toList
  parseToks (lex (cs.length + 1) cs []) [[]]

def escape (s : String) : String :=
  s.foldl (fun acc c =>
    if c = '"' then acc ++ "\\\"" else if c = '\\' then acc ++ "\\\\"
    else if c = '\n' then acc ++ "\\n" else if c = '\r' then acc ++ "\\r" else if c = '\t' then acc ++ "\\t"
    else acc.push c) ""

partial def toString : Sexp → String
  | .atom s => s
  | .str s => "\"" ++ escape s ++ "\""
  | .list xs => "(" ++ " ".intercalate (xs.map toString) ++ ")"

end Sexp
end VtlModel
